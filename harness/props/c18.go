package props

import (
	"bytes"
	"encoding/hex"
	"fmt"
	"io"
	"math/rand"
	"os"
	"path/filepath"
	"reflect"
	"sort"
	"strings"
	"sync"

	"github.com/parquet-go/parquet-go"

	"verifharness/core"
	"verifharness/gen"
)

func init() {
	RegisterSub("C18", "roundtrip", RunC18Roundtrip)
	RegisterSub("C18", "aad", RunC18Aad)
}

const c18Rule = "catalogue struct types x gen.FillRows rows x random writer configuration (page version, codec, page buffer from 1 byte, rows per row group from 1, dictionary limit, statistics) x {encrypted footer, plaintext signed footer} x {footer key only, key per column, keys for some columns} x AES-128/192/256 x AAD prefix x writer path (GenericWriter batches+Flush, Writer.Write, WriteRowGroup of a buffer, WriteRows, Writer.Reset reuse, BeginRowGroup/Commit) x bloom filters; read with all keys (typed, pages, rows, seek histories, bloom filter, page index) and with some column keys missing; every sealed module opened with crypto/aes+GCM under the Lean model's AAD; exact writer histories (pages cut only by ColumnWriter.Flush, Flush, Commit, Close; 1-3 files per writer through Reset; row groups of BeginRowGroup kept across Reset) whose every module is opened under the type, ordinals and file-identifier generation the Lean writer state machine predicts; every way of handing the options to a writer or to OpenFile (functional options, configuration structs with and without the Encryption/Decryption field before and after, NewWriterConfig/NewFileConfig results passed on, through NewGenericWriter, NewWriter, Write and NewSortingWriter) against the documented rule and the Lean mirror of the merge; exact histories of ReadPage/SeekToRow/ReadDictionary on the page reader of one chunk (offset index loaded or not, dictionary pages and PLAIN fallback pages) intact and with one module damaged, against the Lean mirror of the page reader; histories of OpenFile (with and without SkipPageIndex), ColumnIndex(), OffsetIndex() and BloomFilter() calls (chunks with and without column index and bloom filter) intact and with one module damaged, against the Lean mirror that goes through the call-site table; marker scan of the raw bytes; fault enumeration (byte flips, truncation, module swaps, cross-file transplant, wrong key, wrong AAD prefix); non-trivial = a file with at least 2 row groups or 2 pages in a chunk, and a column key distinct from the footer key"

// c18File is one written file with everything needed to read it back and to replay it.
type c18File struct {
	E        *gen.Entry
	Rows     reflect.Value
	Cfg      *gen.WriterCfg
	Enc      *c18Enc
	Batches  []int
	Path     string // writer path
	Blooms   [][]string
	Deferred bool
	Texts    []string
	Expected [][]gen.Triple
	Data     []byte        // encrypted file
	First    []byte        // writer-reset: the file written before Reset
	Steps    []c18Step     // interleaved: the history
	Src      reflect.Value // interleaved: the rows in the order they are handed to the writers (Rows is in file order)
	Plain    []byte        // the same rows and configuration written without encryption (baseline)
	Form     *c18Form      // how options and encryption setting are handed to the writer (c18_options.go)
	encCfg   *parquet.EncryptionConfig
}

func (c *c18File) desc() string {
	return fmt.Sprintf("%s|%s|%s|path=%s|batches=%v|blooms=%v|deferred=%v|steps=%v|form=%v", c.E.Name, c.Cfg.Desc, c.Enc.Desc(), c.Path, c.Batches, c.Blooms, c.Deferred, c.Steps, c.Form)
}

func (c *c18File) detail(extra map[string]any) map[string]any {
	m := map[string]any{"type": c.E.Name, "config": c.Cfg.Desc, "encryption": c.Enc.Desc(), "writer_path": c.Path,
		"batches": c.Batches, "bloom_filters": c.Blooms, "deferred_bloom": c.Deferred, "rows": c.Texts, "history": fmt.Sprint(c.Steps),
		"option_form": c.Form.String() + " (options[:k] as functional options or folded into a &WriterConfig{} literal, the encryption setting as WithEncryption or as the Encryption field, options[k:] likewise or as the result of NewWriterConfig; fold-all: NewWriterConfig(everything) is the only option)"}
	if len(c.Texts) > 30 {
		m["rows"] = append(append([]string{}, c.Texts[:30]...), fmt.Sprintf("... %d rows, regenerate with the run seed", len(c.Texts)))
	}
	for k, v := range extra {
		m[k] = v
	}
	return m
}

var c18Paths = []string{"generic-writer", "writer-write-any", "generic-buffer-rowgroup", "write-rows", "writer-reset", "begin-rowgroup", "interleaved"}

// c18Step is one call of an interleaved history: rows Src[Lo:Hi] go to the writer itself ("main")
// or to one of two row groups made by BeginRowGroup ("A", "B"), which are committed in some order
// and written to again after their Commit.
type c18Step struct {
	Op     string // main-write | main-flush | A-write | A-write-flush | A-commit | B-write | B-write-flush | B-commit
	Lo, Hi int
}

func (s c18Step) String() string {
	if s.Hi > s.Lo {
		return fmt.Sprintf("%s[%d:%d]", s.Op, s.Lo, s.Hi)
	}
	return s.Op
}

// c18History draws a history over n rows and returns it with the order in which the rows end up in
// the file: Commit flushes the writer's own rows first, then the committed row group.
func c18History(r *rand.Rand, n int) ([]c18Step, []int) {
	var steps []c18Step
	var order []int
	pend := map[string][]int{}
	next := 0
	take := func() (int, int) {
		k := 1 + r.Intn(1+n/4)
		if r.Intn(3) == 0 {
			k = 1 + r.Intn(3)
		}
		lo := next
		next = min(n, next+k)
		return lo, next
	}
	flushMain := func() { order = append(order, pend["main"]...); pend["main"] = nil }
	commit := func(g string) {
		steps = append(steps, c18Step{Op: g + "-commit"})
		flushMain()
		order = append(order, pend[g]...)
		pend[g] = nil
	}
	for next < n {
		switch r.Intn(9) {
		case 0, 1:
			lo, hi := take()
			steps = append(steps, c18Step{"main-write", lo, hi})
			for i := lo; i < hi; i++ {
				pend["main"] = append(pend["main"], i)
			}
		case 2:
			steps = append(steps, c18Step{Op: "main-flush"})
			flushMain()
		case 3, 4, 5, 6:
			g := []string{"A", "B"}[r.Intn(2)]
			lo, hi := take()
			op := g + "-write"
			if r.Intn(3) == 0 {
				op += "-flush" // rg.Flush(): an attempt to spill pages before the ordinal is known
			}
			steps = append(steps, c18Step{op, lo, hi})
			for i := lo; i < hi; i++ {
				pend[g] = append(pend[g], i)
			}
		default:
			commit([]string{"A", "B"}[r.Intn(2)])
		}
	}
	for _, g := range r.Perm(2) {
		if name := []string{"A", "B"}[g]; len(pend[name]) > 0 {
			commit(name)
		}
	}
	if r.Intn(2) == 0 && len(pend["main"]) > 0 {
		steps = append(steps, c18Step{Op: "main-flush"})
	}
	flushMain() // Close
	return steps, order
}

// c18WriteWith writes the rows through the chosen path with the given options.
func c18WriteWith(c *c18File, opts []parquet.WriterOption, r *rand.Rand) (out []byte, err error) {
	defer func() {
		if p := recover(); p != nil {
			err = fmt.Errorf("PANIC: %v", p)
		}
	}()
	var buf bytes.Buffer
	rows := c.Rows.Interface()
	switch c.Path {
	case "generic-writer":
		err = c.E.WriteGeneric(&buf, rows, c.Batches, opts...)
	case "writer-write-any":
		err = c.E.WriteReflect(&buf, rows, opts...)
	case "generic-buffer-rowgroup":
		err = c.E.WriteGenericBuffer(&buf, rows, c.Batches, opts...)
	case "write-rows":
		err = c.E.WriteRows(&buf, rows, opts...)
	case "interleaved":
		pw := parquet.NewWriter(&buf, append([]parquet.WriterOption{c.E.Schema}, opts...)...)
		rgs := map[string]*parquet.ConcurrentRowGroupWriter{}
		for _, st := range c.Steps {
			var prs []parquet.Row
			for i := st.Lo; i < st.Hi; i++ {
				prs = append(prs, c.E.Schema.Deconstruct(nil, c.Src.Index(i).Addr().Interface()))
			}
			g := st.Op[:1]
			if g == "A" || g == "B" {
				if rgs[g] == nil {
					rgs[g] = pw.BeginRowGroup()
				}
			}
			switch {
			case st.Op == "main-write":
				_, err = pw.WriteRows(prs)
			case st.Op == "main-flush":
				err = pw.Flush()
			case strings.HasSuffix(st.Op, "-commit"):
				_, err = rgs[g].Commit()
			default:
				if _, err = rgs[g].WriteRows(prs); err == nil && strings.HasSuffix(st.Op, "-flush") {
					err = rgs[g].Flush()
				}
			}
			if err != nil {
				return nil, fmt.Errorf("step %v: %w", st, err)
			}
		}
		err = pw.Close()
	case "writer-reset", "begin-rowgroup":
		var prs []parquet.Row
		for i := 0; i < c.Rows.Len(); i++ {
			prs = append(prs, c.E.Schema.Deconstruct(nil, c.Rows.Index(i).Addr().Interface()))
		}
		var first bytes.Buffer
		pw := parquet.NewWriter(&first, append([]parquet.WriterOption{c.E.Schema}, opts...)...)
		if c.Path == "writer-reset" {
			// a first file with the same rows, then the writer is reused for the file under test
			if len(prs) > 0 {
				if _, err = pw.WriteRows(prs); err != nil {
					return nil, err
				}
			}
			if err = pw.Close(); err != nil {
				return nil, err
			}
			c.First = append([]byte{}, first.Bytes()...)
			pw.Reset(&buf)
			if len(prs) > 0 {
				if _, err = pw.WriteRows(prs); err != nil {
					return nil, err
				}
			}
			err = pw.Close()
		} else {
			pw.Reset(&buf)
			// rows split over row groups created with BeginRowGroup and committed in order
			cuts := c.Batches
			if len(cuts) == 0 {
				cuts = []int{len(prs)}
			}
			left := prs
			for _, k := range append(append([]int{}, cuts...), len(prs)) {
				if k > len(left) {
					k = len(left)
				}
				if k == 0 {
					continue
				}
				rg := pw.BeginRowGroup()
				if _, err = rg.WriteRows(left[:k]); err != nil {
					return nil, err
				}
				if _, err = rg.Commit(); err != nil {
					return nil, err
				}
				left = left[k:]
			}
			err = pw.Close()
		}
	default:
		err = fmt.Errorf("unknown path %s", c.Path)
	}
	return buf.Bytes(), err
}

func (c *c18File) opts(encrypted bool) []parquet.WriterOption {
	opts := append([]parquet.WriterOption{}, c.Cfg.Opts...)
	var tail []parquet.WriterOption
	if c.Path == "begin-rowgroup" || c.Path == "interleaved" {
		tail = append(tail, parquet.MaxRowsPerRowGroup(0)) // a BeginRowGroup writer refuses more rows than the limit
	}
	if len(c.Blooms) > 0 {
		var fs []parquet.BloomFilterColumn
		for _, p := range c.Blooms {
			fs = append(fs, parquet.SplitBlockFilter(10, p...))
		}
		opts = append(opts, parquet.BloomFilters(fs...))
		if c.Deferred {
			opts = append(opts, parquet.DeferBloomFiltersWithBuffers(parquet.NewBufferPool()))
		}
	}
	var enc *parquet.EncryptionConfig
	if encrypted {
		if c.encCfg == nil {
			c.encCfg = c.Enc.Config()
		}
		enc = c.encCfg
	}
	return c.Form.build(opts, enc, tail)
}

// c18NewFile draws a case and writes the encrypted file and its unencrypted twin.
func c18NewFile(r *rand.Rand, e *gen.Entry, path string) (*c18File, error, error) {
	n := []int{0, 1, 2, 3, 9, 33, 64, 65, 100, 257}[r.Intn(10)]
	prof := &gen.Profile{NullProb: []float64{0.1, 0.5, 0.9}[r.Intn(3)], MaxLen: 1 + r.Intn(4), SmallDomain: r.Intn(3) == 0}
	rows := e.NewRows(n)
	gen.FillRows(r, rows, prof)
	c := &c18File{E: e, Rows: rows, Cfg: gen.RandWriterCfg(r), Enc: c18RandEnc(r, e.Schema), Batches: c01Batches(r, n), Path: path}
	if path == "interleaved" {
		var order []int
		c.Steps, order = c18History(r, n)
		c.Src = rows
		rows = e.NewRows(n)
		for k, i := range order {
			rows.Index(k).Set(c.Src.Index(i))
		}
		c.Rows = rows
		c.Batches = nil
		if r.Intn(2) == 0 { // small pages: row groups spill pages long before they are committed
			c.Cfg.Opts = append(c.Cfg.Opts, parquet.PageBufferSize(1+r.Intn(96)))
			c.Cfg.Desc += " +pagebuf-small"
		}
	}
	if path == "begin-rowgroup" || path == "generic-buffer-rowgroup" {
		// no Flush markers for these paths
		var b []int
		for _, k := range c.Batches {
			if k > 0 {
				b = append(b, k)
			}
		}
		c.Batches = b
	}
	for _, p := range e.Schema.Columns() {
		leaf, _ := e.Schema.Lookup(p...)
		if leaf.Node.Type().Kind() != parquet.Boolean && r.Intn(3) == 0 {
			c.Blooms = append(c.Blooms, p)
		}
	}
	c.Deferred = len(c.Blooms) > 0 && r.Intn(4) == 0
	c.Form = c18RandForm(r, len(c.Cfg.Opts)+min(len(c.Blooms), 1)+map[bool]int{true: 1}[c.Deferred])
	var sh gen.Shredder
	for i := 0; i < n; i++ {
		c.Texts = append(c.Texts, sh.ShredRow(e.Schema, rows.Index(i)))
	}
	c.Expected = sh.Cols
	if n == 0 {
		c.Expected = make([][]gen.Triple, len(e.Schema.Columns()))
	}
	var err, perr error
	c.Data, err = c18WriteWith(c, c.opts(true), r)
	firstEnc := c.First
	c.Plain, perr = c18WriteWith(c, c.opts(false), r)
	c.First = firstEnc
	return c, err, perr
}

func c18Open(file []byte, k parquet.KeyRetriever, extra ...parquet.FileOption) (f *parquet.File, err error) {
	defer func() {
		if p := recover(); p != nil {
			err = fmt.Errorf("PANIC: %v", p)
		}
	}()
	opts := extra
	if k != nil {
		opts = append(append([]parquet.FileOption{}, extra...), parquet.WithDecryption(k))
	}
	return parquet.OpenFile(bytes.NewReader(file), int64(len(file)), opts...)
}

// c18SeekHistory runs SeekToRow/ReadRows steps on the Rows of every row group and returns a
// transcript (errors included), for comparison between the encrypted file and its twin.
func c18SeekHistory(f *parquet.File, seed int64) (out []string) {
	defer func() {
		if p := recover(); p != nil {
			out = append(out, fmt.Sprintf("PANIC: %v", p))
		}
	}()
	r := rand.New(rand.NewSource(seed))
	for gi, rg := range f.RowGroups() {
		n := rg.NumRows()
		rows := rg.Rows()
		for step := 0; step < 4; step++ {
			k := int64(0)
			if n > 0 {
				k = r.Int63n(n + 1)
			}
			m := 1 + r.Intn(5)
			if err := rows.SeekToRow(k); err != nil {
				out = append(out, fmt.Sprintf("rg%d seek %d: err %s", gi, k, errClass(err)))
				continue
			}
			buf := make([]parquet.Row, m)
			got, err := rows.ReadRows(buf)
			var sb strings.Builder
			for _, row := range buf[:got] {
				for _, v := range row {
					fmt.Fprintf(&sb, "%d:%v ", v.Column(), gen.TripleOf(v))
				}
				sb.WriteString("; ")
			}
			es := "nil"
			if err != nil && err != io.EOF {
				es = errClass(err)
			} else if err == io.EOF {
				es = "EOF"
			}
			out = append(out, fmt.Sprintf("rg%d seek %d read %d -> %d rows err=%s: %s", gi, k, m, got, es, sb.String()))
		}
		rows.Close()
	}
	return out
}

// c18IndexAndBloom returns a transcript of page index contents (without byte offsets) and of the
// bloom filter answers for every stored value, per column chunk.
func c18IndexAndBloom(f *parquet.File) (out []string, falseNeg []string) {
	defer func() {
		if p := recover(); p != nil {
			out = append(out, fmt.Sprintf("PANIC: %v", p))
		}
	}()
	for gi, rg := range f.RowGroups() {
		for ci, cc := range rg.ColumnChunks() {
			tag := fmt.Sprintf("rg%d col%d", gi, ci)
			if ix, err := cc.ColumnIndex(); err != nil {
				out = append(out, tag+" columnindex err "+errClass(err))
			} else if ix != nil {
				var sb strings.Builder
				for p := 0; p < ix.NumPages(); p++ {
					fmt.Fprintf(&sb, "[%s %s nulls=%d nullpage=%v]", gen.ValueKey(ix.MinValue(p)), gen.ValueKey(ix.MaxValue(p)), ix.NullCount(p), ix.NullPage(p))
				}
				out = append(out, fmt.Sprintf("%s columnindex pages=%d asc=%v desc=%v %s", tag, ix.NumPages(), ix.IsAscending(), ix.IsDescending(), sb.String()))
			} else {
				out = append(out, tag+" columnindex nil")
			}
			if ox, err := cc.OffsetIndex(); err != nil {
				out = append(out, tag+" offsetindex err "+errClass(err))
			} else if ox != nil {
				var sb strings.Builder
				for p := 0; p < ox.NumPages(); p++ {
					fmt.Fprintf(&sb, "%d,", ox.FirstRowIndex(p))
				}
				out = append(out, fmt.Sprintf("%s offsetindex pages=%d firstrows=%s", tag, ox.NumPages(), sb.String()))
			} else {
				out = append(out, tag+" offsetindex nil")
			}
			bf := cc.BloomFilter()
			if bf == nil {
				out = append(out, tag+" bloom nil")
				continue
			}
			out = append(out, tag+" bloom present")
			pages := cc.Pages()
			for {
				p, err := pages.ReadPage()
				if err != nil {
					break
				}
				vals := make([]parquet.Value, p.NumValues())
				nv, _ := p.Values().ReadValues(vals)
				for _, v := range vals[:nv] {
					if v.IsNull() {
						continue
					}
					ok, err := bf.Check(v)
					if err != nil {
						falseNeg = append(falseNeg, fmt.Sprintf("%s: Check(%s) error %v", tag, gen.ValueKey(v), err))
					} else if !ok {
						falseNeg = append(falseNeg, fmt.Sprintf("%s: Check(%s) = false for a stored value", tag, gen.ValueKey(v)))
					}
				}
				parquet.Release(p)
			}
			pages.Close()
		}
	}
	return out, falseNeg
}

// c18ErrKind maps an error to a coarse, stable class for failure keys.
func c18ErrKind(err error) string {
	s := err.Error()
	switch {
	case strings.HasPrefix(s, "PANIC") || strings.Contains(s, "PANIC:"):
		return "panic"
	case strings.Contains(s, "authentication failed"):
		return "auth-failed"
	case strings.Contains(s, "length prefix"):
		return "not-an-envelope"
	case strings.Contains(s, "EOF"):
		return "eof"
	case strings.Contains(s, "decod") || strings.Contains(s, "invalid"):
		return "decode-error"
	default:
		return "other"
	}
}

func c18DiffLines(a, b []string) string {
	for i := 0; i < len(a) && i < len(b); i++ {
		if a[i] != b[i] {
			return fmt.Sprintf("line %d: unencrypted twin %q, encrypted file %q", i, a[i], b[i])
		}
	}
	if len(a) != len(b) {
		return fmt.Sprintf("%d lines for the unencrypted twin, %d for the encrypted file", len(a), len(b))
	}
	return ""
}

func c18Nontrivial(c *c18File, lay *c18Layout) bool {
	if lay == nil || len(c.Enc.ColKeys) == 0 {
		return false
	}
	if len(lay.Meta.RowGroups) >= 2 {
		return true
	}
	for _, m := range lay.Mods {
		if m.Kind == "dataPage" && m.Page >= 1 {
			return true
		}
	}
	return false
}

func RunC18Roundtrip(ctx *core.Ctx) {
	ctx.SetRule(c18Rule)
	ncases := ctx.Scale(10, 80)
	var wg sync.WaitGroup
	sem := make(chan struct{}, 16)
	for _, e := range gen.Catalog {
		wg.Add(1)
		sem <- struct{}{}
		go func(e *gen.Entry) {
			defer wg.Done()
			defer func() { <-sem }()
			r := ctx.Rand("c18/roundtrip/" + e.Name)
			for k := 0; k < ncases; k++ {
				path := c18Paths[k%len(c18Paths)]
				if k >= len(c18Paths) {
					path = c18Paths[r.Intn(4)] // the plain paths dominate after one pass over all of them
					if r.Intn(3) == 0 {
						path = "interleaved"
					}
				}
				c18RoundtripCase(ctx, r, e, path, k == 0 && e.Name == "T000")
			}
		}(e)
	}
	wg.Wait()
}

func c18RoundtripCase(ctx *core.Ctx, r *rand.Rand, e *gen.Entry, path string, sample bool) {
	c, err, perr := c18NewFile(r, e, path)
	sig := "path=" + c.Path // the footer mode is in the detail; the defects seen so far do not depend on it
	lay, layErr := (*c18Layout)(nil), error(nil)
	if err == nil {
		lay, layErr = c18Parse(c.Data, c.Enc.Keys(), c18AAD)
	}
	ctx.Case(c.desc()+"|"+strings.Join(c.Texts, "|"), c18Nontrivial(c, lay))
	ctx.Hist("writer_path", c.Path)
	ctx.Hist("footer", map[bool]string{true: "encrypted", false: "plaintext-signed"}[c.Enc.EncFooter])
	ctx.Hist("keymode", c.Enc.KeyMode)
	ctx.Hist("keybits", fmt.Sprint(len(c.Enc.FooterKey)*8))
	ctx.Hist("codec", c.Cfg.Codec)
	ctx.Hist("pageversion", fmt.Sprint(c.Cfg.PageVersion))
	ctx.Hist("rows", fmt.Sprint(c.Rows.Len()))
	if sample {
		ctx.Sample(c.detail(nil))
	}
	if perr != nil {
		ctx.Hist("outcome", "twin-write-error") // not an encryption matter (C01)
		return
	}
	if err != nil && strings.Contains(err.Error(), "not supported with encryption") {
		ctx.Hist("outcome", "writer-refuses "+c.Path) // an explicit refusal is an error, not a wrong file
		return
	}
	if err != nil {
		ctx.Fail("L1", "write-error "+sig+" "+c18ErrKind(err), "writing valid rows with encryption failed (the same rows and options write fine without): "+err.Error(), c.detail(nil))
		return
	}
	keys := c.Enc.Keys()
	// the unencrypted twin tells apart encryption defects from defects of the plain round trip (C01's matter)
	twinCols, twinErr := gen.ReadColumns(c.Plain)
	twinOK := twinErr == nil
	if twinOK {
		if cc, _, _ := firstDiff(c.Expected, twinCols); cc != -2 {
			twinOK = false
		}
	}
	if !twinOK {
		ctx.Hist("outcome", "twin-differs-from-rows") // C01's matter, nothing is blamed on encryption
		return
	}
	fail := func(key, what string, extra map[string]any) { ctx.Fail("L1", key, what, c.detail(extra)) }
	// files produced by one writer through Reset are different files: they must not share the AAD file identifier
	if c.Path == "writer-reset" && c.Enc.FileID == nil && len(c.First) > 0 {
		_, fu1, e1 := c18FileUnique(c.First)
		_, fu2, e2 := c18FileUnique(c.Data)
		if e1 == nil && e2 == nil && bytes.Equal(fu1, fu2) {
			fail("reset-reuses-file-identifier", fmt.Sprintf("the file written before Writer.Reset and the file written after it carry the same AadFileUnique %x: every module has the same AAD in both files and can be transplanted between them", fu1), nil)
		}
	}
	batch := []int{1, 2, 7, 64, 1000}[r.Intn(5)]
	ctx.Hist("option_form", fmt.Sprintf("before=%s enc=%s after=%s", c.Form.Before, c.Form.Enc, c.Form.After))
	// 0a. whatever the spelling of the options, encryption was asked for
	if c18LooksUnencrypted(c.Data) {
		fail("encryption-request-ignored "+c18CarrierClass(c.opts(true), c.encCfg), "the options ask for encryption (form "+c.Form.String()+") and the writer produced an ordinary unencrypted parquet file, without any error", nil)
		return
	}
	// 0. the independent walker (stdlib AES-GCM, harness AAD) must open every module and the modules must tile the file
	if layErr != nil {
		lib := "not tried"
		if c18ErrKind(layErr) == "not-an-envelope" && e.Name != "T000" {
			// the reader allocates what the 4 bytes at the module position say (file.go:1488) before it
			// reads: gigabytes when they are plaintext. One attempt per run is enough.
			lib = "not tried (the reader would allocate the bogus module length)"
		} else if f, err := c18Open(c.Data, keys); err != nil {
			lib = "OpenFile: " + err.Error()
		} else if back, err := e.ReadGeneric(f, batch); err != nil {
			lib = "GenericReader: " + err.Error()
		} else if ok, _ := gen.CanonEqual(c.Rows, reflect.ValueOf(back), e.Name); ok {
			lib = "the library reads the rows back"
		} else {
			lib = "the library reads different rows"
		}
		fail("unreadable-file "+sig+" "+c18ErrKind(layErr), "a file the writer closed without error is not a well-formed encrypted file: "+layErr.Error()+" (library: "+lib+")", map[string]any{"library_read": lib})
		return
	}
	if len(lay.Gaps) > 0 {
		fail(c18GapKey(c, lay)+" "+sig, "bytes of the file are outside every sealed module, footer and framing: "+lay.Gaps[0], map[string]any{"gaps": lay.Gaps})
	}
	f, err := c18Open(c.Data, keys)
	if err != nil {
		fail("open-error "+sig+" "+c18ErrKind(err), "OpenFile with the right keys failed on a file the writer closed successfully: "+err.Error(), nil)
		return
	}
	tf, terr := c18Open(c.Plain, nil)
	if terr != nil {
		ctx.Hist("outcome", "twin-open-error")
		return
	}
	// 0b. decrypted column metadata = column metadata of the unencrypted twin (sizes and offsets apart)
	if d := c18MetaDiff(tf, f, e.Schema); d != "" {
		fail("column-metadata-differs", "column chunk metadata of the encrypted file differs from the unencrypted twin: "+d, nil)
	}
	// 1. typed read
	back, err := e.ReadGeneric(f, batch)
	if err != nil {
		fail("read-error reader=GenericReader "+sig+" "+c18ErrKind(err), "reading with the right keys failed: "+err.Error(), map[string]any{"read_batch": batch})
		return
	} else if ok, diff := gen.CanonEqual(c.Rows, reflect.ValueOf(back), e.Name); !ok {
		// the typed path has conversions of its own; blame encryption only if the twin reads back equal
		if tb, terr := e.ReadGeneric(bytes.NewReader(c.Plain), batch); terr == nil {
			if ok2, _ := gen.CanonEqual(c.Rows, reflect.ValueOf(tb), e.Name); ok2 {
				fail("rows-differ reader=GenericReader "+sig+" "+diffClass(diff), "rows read back from the encrypted file differ from the rows written: "+diff, map[string]any{"read_batch": batch, "diff": diff})
			} else {
				ctx.Hist("outcome", "typed-twin-differs")
			}
		}
	}
	// 2. pages and rows
	got, err := gen.ReadColumns(c.Data, parquet.WithDecryption(keys))
	if err != nil {
		fail("read-error reader=pages "+sig+" "+c18ErrKind(err), "reading pages with the right keys failed: "+err.Error(), nil)
		return
	} else if cc, i, desc := firstDiff(c.Expected, got); cc != -2 {
		fail("stream-differs reader=pages "+sig, fmt.Sprintf("stored column stream differs: column %d entry %d: %s", cc, i, desc), nil)
	}
	got2, nrows, err := gen.ReadRowsColumns(c.Data, batch, parquet.WithDecryption(keys))
	if err != nil {
		fail("read-error reader=rows "+sig+" "+c18ErrKind(err), "Rows().ReadRows with the right keys failed: "+err.Error(), map[string]any{"read_batch": batch})
		return
	} else if nrows != c.Rows.Len() {
		fail("row-count reader=rows "+sig, fmt.Sprintf("ReadRows returned %d rows, %d written", nrows, c.Rows.Len()), nil)
	} else if cc, i, desc := firstDiff(c.Expected, got2); cc != -2 {
		fail("stream-differs reader=rows "+sig, fmt.Sprintf("rows differ: column %d entry %d: %s", cc, i, desc), nil)
	}
	// 3. seek histories, page index, bloom filters: same transcript as the unencrypted twin
	seed := r.Int63()
	if d := c18DiffLines(c18SeekHistory(tf, seed), c18SeekHistory(f, seed)); d != "" {
		fail("seek-differs "+sig, "the same SeekToRow/ReadRows history gives a different transcript on the encrypted file: "+d, map[string]any{"seek_seed": seed})
	}
	ti, tneg := c18IndexAndBloom(tf)
	ei, fneg := c18IndexAndBloom(f)
	// Where pages are cut is not part of the property (row groups of BeginRowGroup are sealed at
	// Commit, one page per chunk): index lines are compared only when the page counts agree.
	pagesOf := func(l string) string {
		if i := strings.Index(l, " pages="); i >= 0 {
			return strings.Fields(l[i+1:])[0]
		}
		return ""
	}
	if len(ti) == len(ei) {
		ti, ei = append([]string{}, ti...), append([]string{}, ei...)
		for i := range ti {
			if pagesOf(ti[i]) != pagesOf(ei[i]) {
				ctx.Hist("outcome", "page-cuts-differ-from-twin "+c.Path)
				ti[i], ei[i] = "", ""
			}
		}
	}
	if d := c18DiffLines(ti, ei); d != "" {
		if strings.Contains(d, "bloom") {
			fail(fmt.Sprintf("bloom-filter-lost %s deferred=%v", sig, c.Deferred), "a bloom filter present in the unencrypted twin is absent from the encrypted file (silently: every lookup must then scan): "+d, nil)
		} else {
			fail("page-index-differs "+sig, "page index of the encrypted file differs from the unencrypted twin: "+d, nil)
		}
	}
	// the same through the lazy path (page index skipped at open, decrypted per chunk on demand)
	if lf, lerr := c18Open(c.Data, keys, parquet.SkipPageIndex(true)); lerr != nil {
		fail("open-error "+sig+" skip-page-index "+c18ErrKind(lerr), "OpenFile(SkipPageIndex) with the right keys failed: "+lerr.Error(), nil)
	} else {
		li, _ := c18IndexAndBloom(lf)
		full, _ := c18IndexAndBloom(f)
		if d := c18DiffLines(full, li); d != "" {
			fail("lazy-page-index-differs "+sig, "page index read lazily (SkipPageIndex) differs from the one read at open (first: at open, second: lazy): "+d, nil)
		}
	}
	if len(fneg) > 0 && len(tneg) == 0 {
		fail("bloom-false-negative "+sig, fneg[0], map[string]any{"all": fneg})
	} else if len(tneg) > 0 {
		ctx.Hist("outcome", "twin-bloom-false-negative") // C07's matter
	}
	// 4. some column keys missing at read
	if len(c.Enc.ColKeys) > 0 {
		part := &c18Keys{footer: keys.footer, cols: map[string][]byte{}}
		missing := map[string]bool{}
		for _, p := range e.Schema.Columns() {
			ps := strings.Join(p, ".")
			if k, ok := c.Enc.ColKeys[ps]; ok {
				if r.Intn(2) == 0 {
					part.cols[ps] = k
				} else {
					missing[ps] = true
				}
			}
		}
		c18MissingKeys(ctx, c, part, missing, sig, twinOK)
	}
}

// c18GapKey tells apart sealed modules nothing points to from bytes that are not sealed at all.
func c18GapKey(c *c18File, lay *c18Layout) string {
	if lay.GapsSealed {
		return fmt.Sprintf("orphan-sealed-modules deferred_bloom=%v", c.Deferred)
	}
	return "unsealed-bytes"
}

// c18MetaDiff compares what the footer says about every column chunk, apart from sizes and offsets.
func c18MetaDiff(twin, enc *parquet.File, schema *parquet.Schema) string {
	paths := schema.Columns()
	a, b := twin.Metadata().RowGroups, enc.Metadata().RowGroups
	if len(a) != len(b) {
		return fmt.Sprintf("%d row groups in the twin, %d in the encrypted file", len(a), len(b))
	}
	for i := range a {
		if a[i].NumRows != b[i].NumRows || len(a[i].Columns) != len(b[i].Columns) {
			return fmt.Sprintf("row group %d: rows %d vs %d, columns %d vs %d", i, a[i].NumRows, b[i].NumRows, len(a[i].Columns), len(b[i].Columns))
		}
		for j := range a[i].Columns {
			x, y := a[i].Columns[j].MetaData, b[i].Columns[j].MetaData
			var want []string
			if j < len(paths) {
				want = paths[j] // the twin is not the reference for the path: Writer.Reset clears it even without encryption
			}
			xs := fmt.Sprintf("type=%v codec=%v encodings=%v path=%v values=%d", x.Type, x.Codec, x.Encoding, want, x.NumValues)
			ys := fmt.Sprintf("type=%v codec=%v encodings=%v path=%v values=%d", y.Type, y.Codec, y.Encoding, y.PathInSchema, y.NumValues)
			if xs != ys {
				return fmt.Sprintf("row group %d column %d: twin {%s} encrypted {%s}", i, j, xs, ys)
			}
		}
	}
	return ""
}

// c18MissingKeys reads with a retriever that lacks some column keys: columns whose key is held
// must read back exactly, the others must fail with an error.
func c18MissingKeys(ctx *core.Ctx, c *c18File, part *c18Keys, missing map[string]bool, sig string, twinOK bool) {
	if !twinOK {
		return
	}
	f, err := c18Open(c.Data, part)
	if err != nil {
		if strings.HasPrefix(err.Error(), "PANIC") {
			ctx.Fail("L1", "missing-key-panic "+sig, "OpenFile panics when a column key is missing: "+err.Error(), c.detail(map[string]any{"missing": keysOf(missing)}))
		} else if len(missing) == 0 {
			ctx.Fail("L1", "open-error-all-keys-held "+sig, "OpenFile failed although every key is held: "+err.Error(), c.detail(nil))
		} else {
			ctx.Hist("missing_keys", "open-refused")
		}
		return
	}
	ctx.Hist("missing_keys", fmt.Sprintf("opened-missing-%d", min(len(missing), 3)))
	// encrypted footer: the statistics of a column with its own key sit in the footer envelope, under the footer key
	if c.Enc.EncFooter {
		for _, rg := range f.Metadata().RowGroups {
			for ci, cc := range rg.Columns {
				ps := strings.Join(c.E.Schema.Columns()[ci], ".")
				if missing[ps] && (len(cc.MetaData.Statistics.MinValue) > 0 || len(cc.MetaData.Statistics.MaxValue) > 0) {
					ctx.Observe("footer-key-opens-column-key-statistics", "encrypted-footer mode: min/max statistics of a column that has its own key are readable by a reader that holds only the footer key (the column metadata is sealed inside the footer envelope only; the format document seals it separately under the column key). Lean: C18Leak.footer_key_opens_column_key_statistics",
						c.detail(map[string]any{"column": ps, "min": fmt.Sprintf("%x", cc.MetaData.Statistics.MinValue), "max": fmt.Sprintf("%x", cc.MetaData.Statistics.MaxValue)}))
				}
			}
		}
	}
	paths := c.E.Schema.Columns()
	pos := 0
	_ = pos
	for gi, rg := range f.RowGroups() {
		for ci, cc := range rg.ColumnChunks() {
			ps := strings.Join(paths[ci], ".")
			vals, err := c18ChunkValues(cc)
			if missing[ps] {
				if err == nil && len(vals) > 0 {
					ctx.Fail("L1", "data-without-key "+sig, fmt.Sprintf("row group %d column %s: %d values were returned although the column key is not held", gi, ps, len(vals)),
						c.detail(map[string]any{"missing": keysOf(missing), "values": vals[:min(len(vals), 8)]}))
				} else if err != nil && strings.HasPrefix(err.Error(), "PANIC") {
					ctx.Fail("L1", "missing-key-panic "+sig, fmt.Sprintf("row group %d column %s: reading without the key panics: %v", gi, ps, err), c.detail(map[string]any{"missing": keysOf(missing)}))
				} else if err == nil && cc.NumValues() > 0 {
					ctx.Fail("L1", "silent-empty-without-key "+sig, fmt.Sprintf("row group %d column %s: reading without the key returned no values and no error (%d values stored)", gi, ps, cc.NumValues()), c.detail(map[string]any{"missing": keysOf(missing)}))
				}
				continue
			}
			if err != nil {
				ctx.Fail("L1", "held-key-column-unreadable "+sig+" "+c18ErrKind(err), fmt.Sprintf("row group %d column %s: its key is held but reading fails when other column keys are missing: %v", gi, ps, err), c.detail(map[string]any{"missing": keysOf(missing)}))
			}
		}
	}
	// all held columns together must equal the expected streams
	got := make([][]gen.Triple, len(paths))
	bad := false
	for _, rg := range f.RowGroups() {
		for ci, cc := range rg.ColumnChunks() {
			if missing[strings.Join(paths[ci], ".")] {
				continue
			}
			vals, err := c18ChunkTriples(cc)
			if err != nil {
				bad = true
			}
			got[ci] = append(got[ci], vals...)
		}
	}
	if !bad {
		for ci := range paths {
			if missing[strings.Join(paths[ci], ".")] {
				continue
			}
			if cc, i, desc := firstDiff([][]gen.Triple{c.Expected[ci]}, [][]gen.Triple{got[ci]}); cc != -2 {
				ctx.Fail("L1", "stream-differs reader=pages-partial-keys "+sig, fmt.Sprintf("column %d entry %d: %s", ci, i, desc), c.detail(map[string]any{"missing": keysOf(missing)}))
				break
			}
		}
	}
}

func keysOf(m map[string]bool) []string {
	var out []string
	for k := range m {
		out = append(out, k)
	}
	return out
}

func c18ChunkTriples(cc parquet.ColumnChunk) (out []gen.Triple, err error) {
	defer func() {
		if p := recover(); p != nil {
			err = fmt.Errorf("PANIC: %v", p)
		}
	}()
	pages := cc.Pages()
	defer pages.Close()
	for {
		p, err := pages.ReadPage()
		if err == io.EOF {
			return out, nil
		}
		if err != nil {
			return out, err
		}
		vr := p.Values()
		buf := make([]parquet.Value, 64)
		for {
			n, err := vr.ReadValues(buf)
			for _, v := range buf[:n] {
				out = append(out, gen.TripleOf(v))
			}
			if err == io.EOF {
				break
			}
			if err != nil {
				parquet.Release(p)
				return out, err
			}
			if n == 0 {
				parquet.Release(p)
				return out, fmt.Errorf("ReadValues returned 0 values and no error")
			}
		}
		parquet.Release(p)
	}
}

func c18ChunkValues(cc parquet.ColumnChunk) ([]string, error) {
	ts, err := c18ChunkTriples(cc)
	var out []string
	for _, t := range ts {
		out = append(out, t.String())
	}
	return out, err
}

// ---------------------------------------------------------------- aad: every module opens under the model's AAD

func RunC18Aad(ctx *core.Ctx) {
	ctx.SetRule(c18Rule)
	d := ctx.Driver()
	if d == nil {
		return
	}
	ncases := ctx.Scale(5, 50)
	type job struct {
		c   *c18File
		lay *c18Layout
	}
	var mu sync.Mutex
	var jobs []job
	var wg sync.WaitGroup
	sem := make(chan struct{}, 16)
	for _, e := range gen.Catalog {
		wg.Add(1)
		sem <- struct{}{}
		go func(e *gen.Entry) {
			defer wg.Done()
			defer func() { <-sem }()
			r := ctx.Rand("c18/aad/" + e.Name)
			for k := 0; k < ncases; k++ {
				c, err, perr := c18NewFile(r, e, c18Paths[r.Intn(len(c18Paths))]) // every writer path, Reset and BeginRowGroup included
				if err != nil || perr != nil {
					ctx.Hist("aad_outcome", "write-error") // reported by the roundtrip sub-check
					continue
				}
				lay, lerr := c18Parse(c.Data, c.Enc.Keys(), c18AAD)
				ctx.Case("aad|"+c.desc()+"|"+strings.Join(c.Texts, "|"), c18Nontrivial(c, lay))
				if lerr != nil {
					ctx.Fail("L2", "walk-error encfooter="+fmt.Sprint(c.Enc.EncFooter)+" "+c18ErrKind(lerr),
						"the file cannot be walked by opening its modules with the AAD layout of the model: "+lerr.Error(), c.detail(nil))
					continue
				}
				if len(lay.Gaps) > 0 {
					ctx.Hist("aad_outcome", c18GapKey(c, lay)) // reported by the roundtrip sub-check
				}
				mu.Lock()
				jobs = append(jobs, job{c, lay})
				mu.Unlock()
			}
		}(e)
	}
	wg.Wait()
	// the keyless walker of the Lean side must find the same envelopes, footer split and AAD parameters
	dir, derr := os.MkdirTemp("", "c18walk")
	if derr != nil {
		ctx.Fail("L2", "tempdir", derr.Error(), nil)
		return
	}
	defer os.RemoveAll(dir)
	var wreqs []string
	var wwant []string
	var wjobs []int
	for ji, j := range jobs {
		if j.lay.NoKey > 0 {
			continue
		}
		path := filepath.Join(dir, fmt.Sprintf("f%d.parquet", ji))
		if err := os.WriteFile(path, j.c.Data, 0o644); err != nil {
			ctx.Fail("L2", "tempfile", err.Error(), nil)
			return
		}
		mods := append([]c18Mod{}, j.lay.Mods...)
		sort.SliceStable(mods, func(a, b int) bool { return mods[a].Off < mods[b].Off })
		var ms []string
		for _, m := range mods {
			ms = append(ms, fmt.Sprintf("%d:%d", m.Off, m.Len))
		}
		if len(ms) == 0 {
			ms = []string{"-"} // a file without row groups and with a plaintext footer has no envelope
		}
		ef := 0
		if j.lay.EncFooter {
			ef = 1
		}
		wreqs = append(wreqs, "file.modules "+path)
		wwant = append(wwant, fmt.Sprintf("ok %d %d %d %s %s %s", ef, j.lay.FooterStart, j.lay.PlainLen, core.Hex(j.lay.Prefix), core.Hex(j.lay.FU), strings.Join(ms, ",")))
		wjobs = append(wjobs, ji)
	}
	if wans, err := d.AskMany(wreqs); err != nil {
		ctx.Fail("L2", "driver-error", err.Error(), nil)
	} else {
		for i, a := range wans {
			ctx.Hist("lean_walker", strings.Fields(a + " ?")[0])
			if a != wwant[i] {
				j := jobs[wjobs[i]]
				kind := "differs"
				if !strings.HasPrefix(a, "ok ") {
					kind = strings.Fields(a + " ?")[0]
				}
				ctx.Fail("L2", "lean-walker-"+kind+" encfooter="+fmt.Sprint(j.lay.EncFooter), "the keyless walker of the Lean side (file.modules) and the keyed walker disagree on the modules of the file",
					j.c.detail(map[string]any{"lean": truncate(a, 600), "harness": truncate(wwant[i], 600)}))
			}
		}
	}
	// one batch of model requests for all modules of all files, then open each module with the
	// standard library under the MODEL's AAD
	var reqs []string
	type ref struct{ j, m int }
	var refs []ref
	for ji, j := range jobs {
		for mi, m := range j.lay.Mods {
			reqs = append(reqs, fmt.Sprintf("aad %s %s %s %d %d %d", core.Hex(j.lay.Prefix), core.Hex(j.lay.FU), m.Kind, m.RG, m.Col, m.Page))
			refs = append(refs, ref{ji, mi})
		}
		if !j.lay.EncFooter {
			reqs = append(reqs, fmt.Sprintf("aad %s %s footer 0 0 0", core.Hex(j.lay.Prefix), core.Hex(j.lay.FU)))
			refs = append(refs, ref{ji, -1})
		}
	}
	ans, err := d.AskMany(reqs)
	if err != nil {
		ctx.Fail("L2", "driver-error", err.Error(), nil)
		return
	}
	ctx.Observe("module-type-bytes-differ-from-format-document", "encrypt.go numbers the module types footer 0, columnMeta 1, dataPage 2, dataPageHeader 3, dictPage 4, dictPageHeader 5, bloomHeader 6, bloomBits 7, columnIndex 8, offsetIndex 9 and gives dictionary modules a page ordinal 0; the format document (Encryption.md 4.4.2, recalled offline) has dictPage 3, dataPageHeader 4, columnIndex 6, offsetIndex 7, bloomHeader 8, bloomBits 9 and no page ordinal for dictionary modules: files are self-consistent but other implementations derive different AADs (Lean: mirror_deviates_from_spec)", nil)
	ctx.Observe("page-ordinal-wraps-at-65536", "ordinals are converted with int16(i) and never checked: page 65536 of a column chunk is sealed with the AAD of page 0 (row groups are capped at 32767, pages are not); Lean: aad_collides_beyond_range", nil)
	for i, a := range ans {
		j := jobs[refs[i].j]
		if !strings.HasPrefix(a, "ok ") {
			ctx.Fail("L2", "driver-answer", "model refused an aad request", map[string]any{"request": reqs[i], "answer": a})
			continue
		}
		hx := strings.TrimPrefix(a, "ok ")
		var aad []byte
		if hx != "-" {
			if aad, err = hex.DecodeString(hx); err != nil {
				ctx.Fail("L2", "driver-answer", "model answer is not hex", map[string]any{"request": reqs[i], "answer": a})
				continue
			}
		}
		if refs[i].m < 0 {
			// plaintext footer: signature = nonce | tag of an empty plaintext under aad | footer bytes
			file := j.c.Data
			sig := file[j.lay.SigOff : j.lay.SigOff+28]
			full := append(append([]byte{}, aad...), file[j.lay.FooterStart:j.lay.SigOff]...)
			if _, err := c18GcmOpen(j.c.Enc.FooterKey, sig[:12], sig[12:], full); err != nil {
				ctx.Fail("L2", "aad-mismatch kind=footer-signature", "the footer signature does not verify under the model's footer AAD", j.c.detail(map[string]any{"model_aad": hx}))
			}
			ctx.Hist("module_kind", "footer-signature")
			continue
		}
		m := j.lay.Mods[refs[i].m]
		ctx.Hist("module_kind", m.Kind)
		ctx.Hist("ordinal_rg", c18Bucket(m.RG))
		ctx.Hist("ordinal_page", c18Bucket(m.Page))
		plain, err := c18OpenEnv(m.Key, aad, j.c.Data[m.Off:m.Off+m.Len])
		if err != nil {
			ctx.Fail("L2", "aad-mismatch kind="+m.Kind, fmt.Sprintf("module %v does not open with crypto/aes+GCM under the AAD of the Lean model: %v", m, err),
				j.c.detail(map[string]any{"module": m.String(), "model_aad": hx, "request": reqs[i]}))
		} else if !bytes.Equal(plain, m.Plain) {
			ctx.Fail("L2", "aad-plaintext kind="+m.Kind, "module opened to a different plaintext", j.c.detail(map[string]any{"module": m.String()}))
		}
	}
}

func c18Bucket(n int) string {
	switch {
	case n == 0:
		return "0"
	case n == 1:
		return "1"
	case n < 8:
		return "2-7"
	case n < 64:
		return "8-63"
	case n < 256:
		return "64-255"
	default:
		return "256+"
	}
}

func truncate(s string, n int) string {
	if len(s) > n {
		return s[:n] + "..."
	}
	return s
}
