package props

import (
	"bytes"
	"encoding/hex"
	"fmt"
	"io"
	"math/rand"
	"strings"
	"sync"

	"github.com/parquet-go/parquet-go"

	"verifharness/core"
)

func init() { RegisterSub("C01", "uuid", RunC01Uuid) }

type c01UuidRow struct {
	ID string `parquet:"id,uuid"`
}

// a text for 16 bytes in one of the forms uuid.Parse accepts, or a damaged one; class names the form
func c01UuidText(r *rand.Rand) (text, class string, id [16]byte) {
	r.Read(id[:])
	switch r.Intn(6) {
	case 0:
		id = [16]byte{}
	case 1:
		for i := range id {
			id[i] = 0xff
		}
	}
	h := hex.EncodeToString(id[:])
	canon := h[:8] + "-" + h[8:12] + "-" + h[12:16] + "-" + h[16:20] + "-" + h[20:]
	mixed := func(s string) string {
		b := []byte(s)
		for i := range b {
			if r.Intn(2) == 0 {
				b[i] = strings.ToUpper(string(b[i]))[0]
			}
		}
		return string(b)
	}
	switch r.Intn(12) {
	case 0, 1, 2:
		return canon, "canonical", id
	case 3:
		return strings.ToUpper(canon), "upper-case", id
	case 4:
		return mixed(canon), "mixed-case", id
	case 5:
		return mixed("urn:uuid:") + canon, "urn", id
	case 6:
		return "{" + canon + "}", "braces", id
	case 7:
		return mixed(h), "32-digits", id
	case 8:
		return string(rune('!'+r.Intn(90))) + canon + string(rune('!'+r.Intn(90))), "38-bytes-any-ends", id
	case 9:
		return "", "empty", id
	}
	// damaged
	b := []byte(canon)
	switch r.Intn(6) {
	case 0:
		b[[]int{8, 13, 18, 23}[r.Intn(4)]] = "x0 _"[r.Intn(4)]
	case 1:
		b[r.Intn(36)] = "gG-:/@`~"[r.Intn(8)]
		if string(b) == canon {
			b[0] = 'g'
		}
	case 2:
		b = b[:35-r.Intn(3)]
	case 3:
		b = append(b, '0')
	case 4:
		b = append([]byte("urn:uuie:"), b...)
	default:
		b = []byte(h[:31] + "g")
	}
	return string(b), "damaged", id
}

// RunC01Uuid: string fields tagged uuid through the typed and the reflection write path and Read[T].
func RunC01Uuid(ctx *core.Ctx) {
	ctx.SetRule("uuid: texts of random / all-zero / all-ff UUIDs in every form uuid.Parse accepts (canonical, upper and mixed case, urn:uuid: with any case, braces, 32 digits, 38 bytes with arbitrary first and last byte, empty) and damaged ones (hyphen moved, non-hex byte, lengths 33..37, wrong urn prefix) x write path {typed: GenericWriter[T]; reflect: GenericWriter[any]} -> stored 16 bytes = the hex digits of the text and Read[T] = the lowercase hyphenated text, damaged text refused (L1, well-formed classes); stored bytes, text read back and refusal = uuidWriteTyped/uuidWriteReflect + uuidString mirror (L2, op c01.uuid); non-trivial = a text that is not already the canonical lowercase form")
	n := ctx.Scale(600, 20000)
	var wg sync.WaitGroup
	jobs := make(chan int)
	for w := 0; w < 8; w++ {
		wg.Add(1)
		go func() {
			defer wg.Done()
			d := ctx.Driver()
			for i := range jobs {
				if d == nil {
					continue
				}
				c01UuidCase(ctx, ctx.Rand(fmt.Sprintf("uuid-%d", i)), d)
			}
		}()
	}
	for i := 0; i < n; i++ {
		jobs <- i
	}
	close(jobs)
	wg.Wait()
}

func c01UuidCase(ctx *core.Ctx, r *rand.Rand, d c01Asker) {
	path := []string{"typed", "reflect"}[r.Intn(2)]
	nvals := []int{1, 1, 3, 20}[r.Intn(4)]
	var texts, classes []string
	var ids [][16]byte
	for len(texts) < nvals {
		t, c, id := c01UuidText(r)
		refusable := c == "damaged" || c == "empty"
		if refusable && len(texts) > 0 {
			continue // a text that may be refused is alone in its file
		}
		texts, classes, ids = append(texts, t), append(classes, c), append(ids, id)
		if refusable {
			break
		}
	}
	var hexes []string
	nontrivial := false
	for i, t := range texts {
		hexes = append(hexes, c01Hex([]byte(t)))
		ctx.Hist("uuid-class", classes[i])
		if classes[i] != "canonical" {
			nontrivial = true
		}
	}
	ctx.Case(fmt.Sprintf("uuid %s %s", path, strings.Join(hexes, ",")), nontrivial)
	detail := func(extra map[string]any) map[string]any {
		m := map[string]any{"path": path, "texts": texts, "texts(hex)": hexes}
		for k, v := range extra {
			m[k] = v
		}
		return m
	}
	var reqs []string
	for _, h := range hexes {
		reqs = append(reqs, fmt.Sprintf("c01.uuid %s %s", path, h))
	}
	ans, err := d.AskMany(reqs)
	if err != nil {
		ctx.Fail("L2", "driver-error", err.Error(), nil)
		return
	}
	var out bytes.Buffer
	werr := func() (err error) {
		defer func() {
			if p := recover(); p != nil {
				err = fmt.Errorf("PANIC: %v", p)
			}
		}()
		if path == "typed" {
			rows := make([]c01UuidRow, len(texts))
			for i, t := range texts {
				rows[i].ID = t
			}
			w := parquet.NewGenericWriter[c01UuidRow](&out)
			if _, err := w.Write(rows); err != nil {
				return err
			}
			return w.Close()
		}
		rows := make([]any, len(texts))
		for i, t := range texts {
			rows[i] = c01UuidRow{ID: t}
		}
		w := parquet.NewGenericWriter[any](&out, parquet.SchemaOf(c01UuidRow{}))
		if _, err := w.Write(rows); err != nil {
			return err
		}
		return w.Close()
	}()
	if werr != nil {
		ctx.Hist("uuid-write", path+" refused "+classes[0])
		if classes[0] != "damaged" && classes[0] != "empty" {
			ctx.Fail("L1", "uuid write-error class="+classes[0]+" path="+path, "a well-formed UUID text was refused: "+werr.Error(), detail(nil))
			return
		}
		if ans[0] != "panic" {
			ctx.Fail("L2", "uuid write-refused-mirror-accepts class="+classes[0]+" path="+path, "real: "+werr.Error()+", mirror: "+ans[0], detail(nil))
		}
		return
	}
	ctx.Hist("uuid-write", path+" ok")
	data := out.Bytes()
	f, err := parquet.OpenFile(bytes.NewReader(data), int64(len(data)))
	if err != nil {
		ctx.Fail("L1", "uuid open-error", err.Error(), detail(nil))
		return
	}
	var stored [][]byte
	for _, rg := range f.RowGroups() {
		rr := rg.Rows()
		buf := make([]parquet.Row, 16)
		for {
			k, err := rr.ReadRows(buf)
			for _, row := range buf[:k] {
				stored = append(stored, append([]byte(nil), row[0].ByteArray()...))
			}
			if err != nil {
				if err != io.EOF {
					ctx.Fail("L1", "uuid read-error reader=rows", err.Error(), detail(nil))
				}
				break
			}
		}
		rr.Close()
	}
	got, rerr := func() (g []c01UuidRow, err error) {
		defer func() {
			if p := recover(); p != nil {
				err = fmt.Errorf("PANIC: %v", p)
			}
		}()
		return parquet.Read[c01UuidRow](bytes.NewReader(data), int64(len(data)))
	}()
	if rerr != nil {
		ctx.Fail("L1", "uuid read-error reader=Read[T] "+errClass(rerr), rerr.Error(), detail(nil))
		return
	}
	if len(got) != len(texts) || len(stored) != len(texts) {
		ctx.Fail("L1", "uuid row-count", fmt.Sprintf("%d written, Read[T] %d, Rows() %d", len(texts), len(got), len(stored)), detail(nil))
		return
	}
	for i := range texts {
		c := classes[i]
		if c == "damaged" {
			ctx.Fail("L1", "uuid damaged-text-accepted path="+path, fmt.Sprintf("%q stored as %x", texts[i], stored[i]), detail(map[string]any{"row": i}))
		} else if c != "empty" {
			h := hex.EncodeToString(ids[i][:])
			canon := h[:8] + "-" + h[8:12] + "-" + h[12:16] + "-" + h[16:20] + "-" + h[20:]
			if !bytes.Equal(stored[i], ids[i][:]) {
				ctx.Fail("L1", "uuid stored-bytes-differ class="+c+" path="+path, fmt.Sprintf("%q stored as %x", texts[i], stored[i]), detail(map[string]any{"row": i}))
			} else if got[i].ID != canon {
				ctx.Fail("L1", "uuid read-back-differs class="+c+" path="+path, fmt.Sprintf("%q read back as %q, want %q", texts[i], got[i].ID, canon), detail(map[string]any{"row": i}))
			}
		}
		real := fmt.Sprintf("ok %s %s", c01Hex(stored[i]), c01Hex([]byte(got[i].ID)))
		if ans[i] != real {
			ctx.Fail("L2", "uuid mirror-differs class="+c+" path="+path, "stored bytes / text read back differ from the Lean mirror", detail(map[string]any{"row": i, "model": ans[i], "real": real, "request": reqs[i]}))
		}
	}
}
