package props

import "verifharness/core"

// Registry maps a property id to its correspondence check.
var Registry = map[string]func(*core.Ctx){}

// workers are isolated sub-process entry points (crash/oom containment).
var workers = map[string]func(args []string) int{}

func Worker(name string, args []string) int {
	f, ok := workers[name]
	if !ok {
		return 2
	}
	return f(args)
}
