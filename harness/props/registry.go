package props

import (
	"sort"
	"time"

	"verifharness/core"
)

// Registry maps a property id to its correspondence check.
var Registry = map[string]func(*core.Ctx){}

type sub struct {
	name string
	f    func(*core.Ctx)
}

var subs = map[string][]sub{}

// RegisterSub adds one part of a property's check (several files may contribute to one
// property); parts run in name order.
func RegisterSub(id, name string, f func(*core.Ctx)) {
	subs[id] = append(subs[id], sub{name, f})
	Registry[id] = func(c *core.Ctx) {
		ss := subs[id]
		sort.Slice(ss, func(i, j int) bool { return ss[i].name < ss[j].name })
		for _, s := range ss {
			if c.Only != "" && c.Only != s.name {
				continue
			}
			t0 := time.Now()
			s.f(c)
			c.HistN("sub-check wall seconds ("+c.Variant+")", s.name, int64(time.Since(t0).Seconds()+0.5))
		}
	}
}

// workers are isolated sub-process entry points (crash/oom containment).
var workers = map[string]func(args []string) int{}

func Worker(name string, args []string) int {
	f, ok := workers[name]
	if !ok {
		return 2
	}
	return f(args)
}
