package props

// C15 "grow" scenarios (round 7, seed 7a): INDEPENDENT owners whose only shared state is the
// process-wide bucketed slice pools of internal/memory (slicePools: 4 KiB doubling up to 256 KiB,
// then x1.5: 384 KiB, 576 KiB, 864 KiB, 1296 KiB, ...) and the sync.Pools behind them.
//
// Every goroutine owns private column buffers / GenericBuffers / Writers and grows them THROUGH the
// bucket boundaries (the earlier scenarios keep every buffer under 64 KiB, i.e. in the first few
// buckets, where a buffer changes storage a few times only) while the other goroutines get and put
// storage of the same buckets. A buffer that changes storage hands its old storage to the pool; from
// that moment another goroutine may own it. The oracle is the input: every value read back from a
// buffer must be the value its owner wrote there (a serial execution stores what was written), and
// the digest of the concurrent run must equal the serial run. The scenarios are part of
// C15Scenarios, so they also run in the -race build (cmd/pqrace); in the verif build storage that is
// put into a pool is overwritten (poison-on-release), which makes a use-after-put visible even when
// no other goroutine happens to take the storage.

import (
	"bytes"
	"encoding/binary"
	"fmt"
	"io"
	"math"
	"math/rand"

	"github.com/parquet-go/parquet-go"
	"github.com/parquet-go/parquet-go/deprecated"
)

func init() {
	C15Scenarios = append(C15Scenarios,
		c15Scenario{"grow-colbuffers", "N goroutines each fill PRIVATE typed column buffers (every physical type, unsigned logical types) in batches until their storage has moved through the buckets of the shared slice pools (64 KiB, 256 KiB, 384 KiB, ... past 1 MiB), reset and refill some of them, while the other goroutines get and put storage of the same buckets; every value read back must be the value written", scenGrowColumnBuffers, false},
		c15Scenario{"grow-writers", "N goroutines each own a GenericBuffer or a GenericWriter with a page buffer of 1..4 MiB and write tens of thousands of rows into it (column buffers, dictionaries and page buffers grow through the buckets of the shared slice pools); the rows read back must be the rows written", scenGrowWriters, false},
	)
}

// c15Buckets: the capacities of the shared slice pools, as documented in
// internal/memory/slice_buffer.go (nextBucketSize). Used to aim the generator only.
func c15Buckets(limit int) []int {
	var out []int
	for size := 4096; size <= limit; {
		out = append(out, size)
		if size < 262144 {
			size *= 2
		} else {
			size += size / 2
		}
	}
	return out
}

type c15GrowKind struct {
	name     string
	typ      func() parquet.Type
	elemSize int // bytes of slice-pool storage per value (aims the generator)
	gen      func(x uint64, j int) parquet.Value
	same     func(a, b parquet.Value) bool
}

func c15GrowBytes(x uint64, j int) []byte {
	b := make([]byte, 8+j%5)
	binary.BigEndian.PutUint64(b, x)
	for k := 8; k < len(b); k++ {
		b[k] = byte(j + k)
	}
	return b
}

var c15GrowKinds = []c15GrowKind{
	{"int64", func() parquet.Type { return parquet.Int64Type }, 8,
		func(x uint64, j int) parquet.Value { return parquet.Int64Value(int64(x)) },
		func(a, b parquet.Value) bool { return a.Int64() == b.Int64() }},
	{"int32", func() parquet.Type { return parquet.Int32Type }, 4,
		func(x uint64, j int) parquet.Value { return parquet.Int32Value(int32(x ^ x>>32)) },
		func(a, b parquet.Value) bool { return a.Int32() == b.Int32() }},
	{"double", func() parquet.Type { return parquet.DoubleType }, 8,
		func(x uint64, j int) parquet.Value { return parquet.DoubleValue(math.Float64frombits(x)) },
		func(a, b parquet.Value) bool { return math.Float64bits(a.Double()) == math.Float64bits(b.Double()) }},
	{"float", func() parquet.Type { return parquet.FloatType }, 4,
		func(x uint64, j int) parquet.Value {
			return parquet.FloatValue(math.Float32frombits(uint32(x ^ x>>32)))
		},
		func(a, b parquet.Value) bool { return math.Float32bits(a.Float()) == math.Float32bits(b.Float()) }},
	{"uint64", func() parquet.Type { return parquet.Uint(64).Type() }, 8,
		func(x uint64, j int) parquet.Value { return parquet.Int64Value(int64(x)) },
		func(a, b parquet.Value) bool { return a.Int64() == b.Int64() }},
	{"uint32", func() parquet.Type { return parquet.Uint(32).Type() }, 4,
		func(x uint64, j int) parquet.Value { return parquet.Int32Value(int32(x ^ x>>32)) },
		func(a, b parquet.Value) bool { return a.Int32() == b.Int32() }},
	{"int96", func() parquet.Type { return parquet.Int96Type }, 12,
		func(x uint64, j int) parquet.Value {
			return parquet.Int96Value(deprecated.Int96{uint32(x), uint32(x >> 32), uint32(j)})
		},
		func(a, b parquet.Value) bool { return a.Int96() == b.Int96() }},
	{"fixed16", func() parquet.Type { return parquet.FixedLenByteArrayType(16) }, 16,
		func(x uint64, j int) parquet.Value {
			var b [16]byte
			binary.BigEndian.PutUint64(b[:], x)
			binary.LittleEndian.PutUint64(b[8:], x^uint64(j))
			return parquet.FixedLenByteArrayValue(b[:])
		},
		func(a, b parquet.Value) bool { return bytes.Equal(a.ByteArray(), b.ByteArray()) }},
	{"bytearray", func() parquet.Type { return parquet.ByteArrayType }, 10,
		func(x uint64, j int) parquet.Value { return parquet.ByteArrayValue(c15GrowBytes(x, j)) },
		func(a, b parquet.Value) bool { return bytes.Equal(a.ByteArray(), b.ByteArray()) }},
	{"boolean", func() parquet.Type { return parquet.BooleanType }, 1, // bit-packed: far fewer bytes; stays in the short buckets
		func(x uint64, j int) parquet.Value { return parquet.BooleanValue((x^x>>7^x>>13)&1 == 1) },
		func(a, b parquet.Value) bool { return a.Boolean() == b.Boolean() }},
}

// one fill of one private column buffer: n values in batches, then every value is read back
func c15GrowFill(col parquet.ColumnBuffer, kind *c15GrowKind, tag uint64, n, batch int, scratch []parquet.Value) error {
	x := func(j int) uint64 { return tag<<24 ^ uint64(j)*0x9E3779B97F4A7C15 }
	for off := 0; off < n; {
		k := min(batch, n-off)
		for j := 0; j < k; j++ {
			scratch[j] = kind.gen(x(off+j), off+j)
		}
		if _, err := col.WriteValues(scratch[:k]); err != nil {
			return fmt.Errorf("[grow-write-error] %s: WriteValues at %d of %d: %v", kind.name, off, n, err)
		}
		off += k
	}
	if got := col.Len(); got != n {
		return fmt.Errorf("[grow-values-differ] %s column buffer holds %d values after %d were written", kind.name, got, n)
	}
	for off := 0; off < n; {
		k, err := col.ReadValuesAt(scratch[:min(len(scratch), n-off)], int64(off))
		if k == 0 {
			return fmt.Errorf("[grow-values-differ] %s column buffer: ReadValuesAt(%d) of %d values returned 0 values, %v", kind.name, off, n, err)
		}
		for j := 0; j < k; j++ {
			want := kind.gen(x(off+j), off+j)
			if got := scratch[j]; got.Kind() != want.Kind() || !kind.same(got, want) {
				return fmt.Errorf("[grow-values-differ] %s column buffer filled with %d values in batches of %d: value %d is %s, written was %s (a buffer nobody else was given holds what its owner wrote)",
					kind.name, n, batch, off+j, got.String(), want.String())
			}
		}
		off += k
	}
	return nil
}

func scenGrowColumnBuffers(seed int64, par bool) (string, error) {
	buckets := c15Buckets(2 << 20)
	buckets = buckets[4:] // 64 KiB and up
	outs := make([]string, c15N)
	err := fanout(par, c15N, func(i int) error {
		r := rand.New(rand.NewSource(seed*7919 + int64(i)))
		scratch := make([]parquet.Value, 4096)
		var log bytes.Buffer
		var kept []parquet.ColumnBuffer // buffers that stay alive (holding pool storage) while others grow
		for round := 0; round < 5; round++ {
			kind := &c15GrowKinds[(i+round*3+int(seed))%len(c15GrowKinds)]
			// the storage needed ends within a few values of a bucket capacity, below or above
			target := buckets[r.Intn(len(buckets))]
			n := target/kind.elemSize + []int{-1, 0, 1, 2, 33, 1000}[r.Intn(6)]
			n = max(1, min(n, 300_000))
			batch := []int{1, 7, 255, 1024, 4096}[r.Intn(5)]
			if batch == 1 {
				n = min(n, 40_000)
			}
			col := kind.typ().NewColumnBuffer(0, []int{0, 0, 100, 5000}[r.Intn(4)])
			tag := uint64(seed)<<16 ^ uint64(i)<<8 ^ uint64(round)
			if err := c15GrowFill(col, kind, tag, n, batch, scratch); err != nil {
				return fmt.Errorf("goroutine %d round %d: %w", i, round, err)
			}
			if r.Intn(2) == 0 {
				// reuse after Reset: the storage goes back to the pools and is taken again
				col.Reset()
				if err := c15GrowFill(col, kind, tag^0xABCD, n/2+1, batch, scratch); err != nil {
					return fmt.Errorf("goroutine %d round %d after Reset: %w", i, round, err)
				}
				n = n/2 + 1
			}
			fmt.Fprintf(&log, "%s %d %d;", kind.name, n, col.Len())
			if r.Intn(3) == 0 {
				kept = append(kept, col)
			}
		}
		for _, col := range kept {
			col.Reset()
		}
		outs[i] = log.String()
		return nil
	})
	return digestStrings(outs), err
}

func c15GrowFlatRows(r *rand.Rand, n int, tag int64) []C15Flat {
	rows := make([]C15Flat, n)
	for i := range rows {
		rows[i] = C15Flat{A: tag<<32 | int64(i), B: int32(r.Intn(50)), C: fmt.Sprintf("c%07d-%d", i, tag), D: int64(i)*3 + tag, E: fmt.Sprintf("e%d", r.Intn(40000)), F: i%3 == 0}
	}
	return rows
}

func c15GrowCheckRows(what string, back, rows []C15Flat) error {
	if len(back) != len(rows) {
		return fmt.Errorf("[grow-rows-differ] %s: %d rows read back, %d written", what, len(back), len(rows))
	}
	for k := range rows {
		if back[k] != rows[k] {
			return fmt.Errorf("[grow-rows-differ] %s: row %d of %d read back as %+v, written was %+v", what, k, len(rows), back[k], rows[k])
		}
	}
	return nil
}

func scenGrowWriters(seed int64, par bool) (string, error) {
	schema := parquet.SchemaOf(C15Flat{})
	outs := make([][]byte, c15N)
	err := fanout(par, c15N, func(i int) error {
		r := rand.New(rand.NewSource(seed*6007 + int64(i)))
		// int64 columns reach 256 KiB at 32Ki rows, 384 KiB at 48Ki, 576 KiB at 72Ki
		n := []int{8191, 16385, 32769, 40000, 49153, 60000}[r.Intn(3+3*((i+int(seed))%2))] + r.Intn(3)
		rows := c15GrowFlatRows(r, n, int64(i)+seed<<8)
		step := []int{1, 37, 1000, 8192}[r.Intn(4)]
		if step == 1 {
			rows = rows[:min(len(rows), 20000)]
		}
		var out bytes.Buffer
		what := fmt.Sprintf("goroutine %d, %d rows written %d at a time", i, len(rows), step)
		wopts := []parquet.WriterOption{schema, parquet.Compression(c15Codecs[i%len(c15Codecs)]),
			parquet.PageBufferSize([]int{1 << 20, 4 << 20, 300_000}[i%3]), parquet.MaxRowsPerRowGroup(1 << 30)}
		if i%2 == 0 {
			what = "GenericBuffer -> WriteRowGroup, " + what
			buf := parquet.NewGenericBuffer[C15Flat](schema)
			for off := 0; off < len(rows); off += step {
				if _, err := buf.Write(rows[off:min(off+step, len(rows))]); err != nil {
					return err
				}
			}
			// the rows of the buffer itself, before anything is written
			back := make([]C15Flat, 0, len(rows))
			rr := parquet.NewGenericRowGroupReader[C15Flat](buf)
			tmp := make([]C15Flat, 1000)
			for {
				k, err := rr.Read(tmp)
				back = append(back, tmp[:k]...)
				if err == io.EOF {
					break
				}
				if err != nil {
					return err
				}
				if k == 0 {
					return fmt.Errorf("Read returned 0 rows without error")
				}
			}
			rr.Close()
			if err := c15GrowCheckRows(what+" (rows of the buffer)", back, rows); err != nil {
				return err
			}
			w := parquet.NewGenericWriter[C15Flat](&out, wopts...)
			if _, err := w.WriteRowGroup(buf); err != nil {
				return err
			}
			if err := w.Close(); err != nil {
				return err
			}
			buf.Reset()
		} else {
			what = "GenericWriter, " + what
			w := parquet.NewGenericWriter[C15Flat](&out, wopts...)
			for off := 0; off < len(rows); off += step {
				if _, err := w.Write(rows[off:min(off+step, len(rows))]); err != nil {
					return err
				}
			}
			if err := w.Close(); err != nil {
				return err
			}
		}
		back, err := parquet.Read[C15Flat](bytes.NewReader(out.Bytes()), int64(out.Len()))
		if err != nil {
			return fmt.Errorf("[grow-file-unreadable] %s: %v", what, err)
		}
		if err := c15GrowCheckRows(what+" (file read back)", back, rows); err != nil {
			return err
		}
		outs[i] = out.Bytes()
		return nil
	})
	return digest(outs...), err
}
