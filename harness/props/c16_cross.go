// C16, read side: the matrix "leaf type of the READER'S schema" x "kind of the Go field it is
// reconstructed into". The catalogue types are always read with the schema derived from the Go type
// itself, so that every leaf meets the one Go kind the struct tags give it ([N]byte for
// FIXED_LEN_BYTE_ARRAY, string/[]byte for BYTE_ARRAY ...). Type.AssignValue however is a matrix:
// every leaf type takes any destination kind it can fill ([]byte, string, [N]byte, any, pointers to
// them, slices of them), and a reader that is handed a schema explicitly (ReaderConfig.Schema,
// NewReader(r, schema), Schema.Reconstruct) reaches the off-diagonal cells. The histories here read
// hand-written destination types through every such entry point into REUSED destinations (batch
// slice / row variable), the caller keeping shallow copies of what it got, and re-compare all of
// them after every later call.
package props

import (
	"bytes"
	"fmt"
	"math/rand"
	"reflect"
	"strings"

	"github.com/parquet-go/parquet-go"

	"verifharness/core"
	"verifharness/gen"
)

// Destination types: the same five columns (a, b required; c, p optional; d repeated), one Go kind each.
type c16XBytes struct {
	A []byte   `parquet:"a"`
	B []byte   `parquet:"b"`
	C []byte   `parquet:"c,optional"`
	D [][]byte `parquet:"d"`
	P *[]byte  `parquet:"p,optional"`
}

type c16XString struct {
	A string   `parquet:"a"`
	B string   `parquet:"b"`
	C string   `parquet:"c,optional"`
	D []string `parquet:"d"`
	P *string  `parquet:"p,optional"`
}

type c16XArr16 struct {
	A [16]byte   `parquet:"a"`
	B [16]byte   `parquet:"b"`
	C [16]byte   `parquet:"c,optional"`
	D [][16]byte `parquet:"d"`
	P *[16]byte  `parquet:"p,optional"`
}

type c16XArr12 struct {
	A [12]byte   `parquet:"a"`
	B [12]byte   `parquet:"b"`
	C [12]byte   `parquet:"c,optional"`
	D [][12]byte `parquet:"d"`
	P *[12]byte  `parquet:"p,optional"`
}

type c16XAny struct {
	A any   `parquet:"a"`
	B any   `parquet:"b"`
	C any   `parquet:"c,optional"`
	D []any `parquet:"d"`
	P *any  `parquet:"p,optional"`
}

// mixed: the byte-slice destination next to kinds that never alias, pre-sized by an earlier row
type c16XMixed struct {
	A []byte   `parquet:"a"`
	B string   `parquet:"b"`
	C *[]byte  `parquet:"c,optional"`
	D []any    `parquet:"d"`
	P *string  `parquet:"p,optional"`
}

type c16XLeaf struct {
	name  string
	node  func() parquet.Node
	fixed int // > 0: FIXED_LEN_BYTE_ARRAY of that length
}

var c16XLeaves = []c16XLeaf{
	{"BYTE_ARRAY", func() parquet.Node { return parquet.Leaf(parquet.ByteArrayType) }, 0},
	{"STRING", parquet.String, 0},
	{"JSON", parquet.JSON, 0},
	{"BSON", parquet.BSON, 0},
	{"ENUM", parquet.Enum, 0},
	{"DECIMAL(BYTE_ARRAY)", func() parquet.Node { return parquet.Decimal(2, 20, parquet.ByteArrayType) }, 0},
	{"FLBA(1)", func() parquet.Node { return parquet.Leaf(parquet.FixedLenByteArrayType(1)) }, 1},
	{"FLBA(12)", func() parquet.Node { return parquet.Leaf(parquet.FixedLenByteArrayType(12)) }, 12},
	{"FLBA(16)", func() parquet.Node { return parquet.Leaf(parquet.FixedLenByteArrayType(16)) }, 16},
	{"FLBA(33)", func() parquet.Node { return parquet.Leaf(parquet.FixedLenByteArrayType(33)) }, 33},
	{"UUID", parquet.UUID, 16},
	{"INTERVAL", parquet.IntervalNode, 12},
	{"DECIMAL(FLBA(16))", func() parquet.Node { return parquet.Decimal(2, 20, parquet.FixedLenByteArrayType(16)) }, 16},
	{"DECIMAL(FLBA(12))", func() parquet.Node { return parquet.Decimal(2, 20, parquet.FixedLenByteArrayType(12)) }, 12},
}

// c16XValue: the bytes of column col of row i (element j of a repeated column): valid JSON text for
// the variable-length leaves (a JSON leaf read into `any` is unmarshalled), the row number up front so
// that no two rows agree, lengths from 2 to ~40 so that a later value is shorter, equal or longer than
// the one a reused destination holds.
func c16XValue(leaf *c16XLeaf, col byte, i, j int) []byte {
	if leaf.fixed > 0 {
		b := make([]byte, leaf.fixed)
		s := fmt.Sprintf("%c%06d.%d", col, i, j)
		for k := range b {
			b[k] = s[(k+i)%len(s)]
		}
		b[0] = byte(i)
		if len(b) > 1 {
			b[1] = byte(i >> 8)
		}
		return b
	}
	pad := (i*7 + j*3 + int(col)) % 37
	return []byte(fmt.Sprintf("\"%c%d.%d%s\"", col, i, j, strings.Repeat("x", pad)))
}

// c16XFile writes n rows of the five-column schema; returns the file and the schema.
func c16XFile(r *rand.Rand, leaves [5]*c16XLeaf, n int, opts []parquet.WriterOption) (file []byte, schema *parquet.Schema, err error) {
	defer func() {
		if p := recover(); p != nil {
			err = fmt.Errorf("panic: %v", p)
		}
	}()
	mk := func(l *c16XLeaf, dict bool) parquet.Node {
		nd := l.node()
		if dict {
			nd = parquet.Encoded(nd, &parquet.RLEDictionary)
		}
		return nd
	}
	dict := r.Intn(3) == 0
	schema = parquet.NewSchema("x", parquet.Group{
		"a": mk(leaves[0], dict),
		"b": mk(leaves[1], false),
		"c": parquet.Optional(mk(leaves[2], dict)),
		"d": parquet.Repeated(mk(leaves[3], false)),
		"p": parquet.Optional(mk(leaves[4], false)),
	})
	var buf bytes.Buffer
	w := parquet.NewWriter(&buf, append([]parquet.WriterOption{schema}, opts...)...)
	val := func(l *c16XLeaf, col byte, i, j int) parquet.Value {
		b := c16XValue(l, col, i, j)
		if l.fixed > 0 {
			return parquet.FixedLenByteArrayValue(b)
		}
		return parquet.ByteArrayValue(b)
	}
	for i := 0; i < n; i++ {
		row := parquet.Row{
			val(leaves[0], 'a', i, 0).Level(0, 0, 0),
			val(leaves[1], 'b', i, 0).Level(0, 0, 1),
		}
		if r.Intn(4) == 0 {
			row = append(row, parquet.NullValue().Level(0, 0, 2))
		} else {
			row = append(row, val(leaves[2], 'c', i, 0).Level(0, 1, 2))
		}
		if k := r.Intn(4); k == 0 {
			row = append(row, parquet.NullValue().Level(0, 0, 3))
		} else {
			for j := 0; j < k; j++ {
				rep := 0
				if j > 0 {
					rep = 1
				}
				row = append(row, val(leaves[3], 'd', i, j).Level(rep, 1, 3))
			}
		}
		if r.Intn(4) == 0 {
			row = append(row, parquet.NullValue().Level(0, 0, 4))
		} else {
			row = append(row, val(leaves[4], 'p', i, 0).Level(0, 1, 4))
		}
		if _, err := w.WriteRows([]parquet.Row{row}); err != nil {
			return nil, nil, err
		}
	}
	if err := w.Close(); err != nil {
		return nil, nil, err
	}
	return buf.Bytes(), schema, nil
}

// c16XSupported remembers per (destination type, leaf) whether the library reconstructs that cell at
// all (a fresh destination, no reuse): cells it refuses (error or panic, e.g. FLBA(12) into [16]byte)
// are outside the property and are only counted.
type c16XCell struct{ dst, leaf string }

func c16CrossHistories(ctx *core.Ctx) {
	c16CrossOf[c16XBytes](ctx, "c16XBytes", false)
	c16CrossOf[c16XString](ctx, "c16XString", false)
	c16CrossOf[c16XArr16](ctx, "c16XArr16", false)
	c16CrossOf[c16XArr12](ctx, "c16XArr12", false)
	c16CrossOf[c16XAny](ctx, "c16XAny", false)
	c16CrossOf[c16XMixed](ctx, "c16XMixed", true)
}

func c16CrossOf[T any](ctx *core.Ctx, name string, mixLeaves bool) {
	r := ctx.Rand("c16/cross/" + name)
	rounds := ctx.Scale(2, 8)
	for round := 0; round < rounds; round++ {
		for li := range c16XLeaves {
			c16CrossCase[T](ctx, r, name, li, mixLeaves, round)
		}
	}
}

func c16CrossCase[T any](ctx *core.Ctx, r *rand.Rand, name string, li int, mixLeaves bool, round int) {
	var desc string
	var ops []string
	defer c16Recover(ctx, "cross-type history", func(m map[string]any) map[string]any {
		m["case"], m["history"] = desc, ops
		return m
	})
	var leaves [5]*c16XLeaf
	for i := range leaves {
		leaves[i] = &c16XLeaves[li]
		if mixLeaves {
			leaves[i] = &c16XLeaves[r.Intn(len(c16XLeaves))]
			// fields B and P of c16XMixed are strings: no fixed-length leaf but UUID fills a string
			for (i == 1 || i == 4) && leaves[i].fixed > 0 && leaves[i].name != "UUID" {
				leaves[i] = &c16XLeaves[r.Intn(len(c16XLeaves))]
			}
		}
	}
	leafNames := fmt.Sprintf("a:%s b:%s c:%s d:%s p:%s", leaves[0].name, leaves[1].name, leaves[2].name, leaves[3].name, leaves[4].name)
	n := []int{3, 9, 33, 100, 300}[r.Intn(5)]
	codec := gen.CodecNames[r.Intn(len(gen.CodecNames))]
	pb := []int{24, 200, 4096}[r.Intn(3)]
	pv := 1 + r.Intn(2)
	batchLen := []int{1, 2, 3, 7, 20}[r.Intn(5)]
	wseed := r.Int63()
	desc = fmt.Sprintf("%s leaves{%s} rows=%d codec=%s pagebuf=%d datapage=v%d reused-batch=%d writer-seed=%d round=%d (values: c16XValue; nulls/list lengths from rand.New(writer-seed))",
		name, leafNames, n, codec, pb, pv, batchLen, wseed, round)
	file, schema, err := c16XFile(rand.New(rand.NewSource(wseed)), leaves, n,
		[]parquet.WriterOption{parquet.Compression(gen.Codecs[codec]), parquet.PageBufferSize(pb), parquet.DataPageVersion(pv)})
	if err != nil {
		ctx.Hist("cross", "write-error")
		return
	}

	// is the cell reconstructed at all? (fresh destination, nothing kept)
	if !c16CrossProbe[T](file, schema, n) {
		if mixLeaves {
			ctx.Hist("cross-unsupported", name+"<-mixed")
		} else {
			ctx.Hist("cross-unsupported", name+"<-"+leaves[0].name)
		}
		c16Count(ctx, "cross|"+desc+"|unsupported", false)
		return
	}

	type keptRows struct {
		rows reflect.Value // []T, shallow copies of what the caller got
		copy reflect.Value
		snap string
		at   string
		done bool // reported once: rows sharing one overwritten array would be reported at every later call
	}
	var kept []keptRows
	keep := func(at string, rows []T) {
		cp := append([]T(nil), rows...) // struct values with their slice headers, strings, pointers
		v := reflect.ValueOf(cp)
		kept = append(kept, keptRows{rows: v, copy: c16Clone(v), snap: c16CanonOf(v), at: at})
	}
	fieldLeaf := map[string]string{}
	typ := reflect.TypeOf((*T)(nil)).Elem()
	for i := 0; i < typ.NumField(); i++ {
		fieldLeaf[typ.Field(i).Name] = leaves[i].name
	}
	verify := func(stage string) {
		for i := range kept {
			x := &kept[i]
			if x.done {
				continue
			}
			now := c16CanonOf(x.rows)
			if now == x.snap {
				continue
			}
			x.done = true
			path, kind, _ := c16Diff(x.copy, x.rows, name)
			if kind == "" {
				kind, path = "unstable", "(content keeps changing while it is compared)"
			}
			leaf := "?"
			if k := strings.LastIndexByte(path, '.'); k >= 0 {
				f := path[k+1:]
				if b := strings.IndexByte(f, '['); b >= 0 {
					f = f[:b]
				}
				leaf = fieldLeaf[f]
			}
			// one key per cell class: Go kind of the changed field <- physical type of the leaf
			phys := leaf
			if strings.Contains(leaf, "FLBA") || leaf == "UUID" || leaf == "INTERVAL" {
				phys = "FIXED_LEN_BYTE_ARRAY"
			} else if leaf != "?" {
				phys = "BYTE_ARRAY"
			}
			ctx.Fail("L1", "go-value-overwritten-by-later-read:"+kind+"<-"+phys,
				fmt.Sprintf("rows filled by %s and kept by the caller (shallow copy) changed after %s (at %s, leaf %s)", x.at, stage, path, leaf),
				map[string]any{"case": desc, "history": ops, "path": path, "leaf": leaf, "handed_over_by": x.at, "changed_after": stage,
					"before": c16Trunc(x.snap), "after": c16Trunc(now)})
		}
	}
	op := func(format string, a ...any) { ops = append(ops, fmt.Sprintf(format, a...)) }

	// (1) GenericReader[T] with the schema handed over explicitly: Read into one reused batch
	func() {
		gr := parquet.NewGenericReader[T](bytes.NewReader(file), schema)
		batch := make([]T, batchLen)
		for i := 0; i < 5+r.Intn(8); i++ {
			switch r.Intn(7) {
			case 0:
				gr.Reset()
				op("Reset")
				verify("GenericReader.Reset")
			case 1:
				pos := int64(r.Intn(n))
				gr.SeekToRow(pos)
				op("SeekToRow(%d)", pos)
				verify("GenericReader.SeekToRow")
			case 2:
				c16Churn(r, 1)
				op("churn1")
				verify("unrelated reader/writer activity")
			default:
				got, _ := gr.Read(batch)
				op("GenericReader(schema).Read(reused %d)=%d", batchLen, got)
				verify("GenericReader.Read into the reused batch")
				if got > 0 {
					keep(ops[len(ops)-1], batch[:got])
				}
			}
		}
		gr.Close()
		op("GenericReader.Close")
		verify("GenericReader.Close")
	}()

	// (2) the deprecated Reader with the schema: Read(&row) into one reused row variable
	func() {
		defer func() {
			if p := recover(); p != nil {
				ctx.Hist("cross", "reader-panic")
			}
		}()
		rd := parquet.NewReader(bytes.NewReader(file), schema)
		var row T
		for i := 0; i < 3+r.Intn(8); i++ {
			if r.Intn(6) == 0 {
				pos := int64(r.Intn(n))
				rd.SeekToRow(pos)
				op("Reader.SeekToRow(%d)", pos)
				verify("Reader.SeekToRow")
				continue
			}
			err := rd.Read(&row)
			op("Reader(schema).Read(&row reused)")
			verify("Reader.Read into the reused row")
			if err != nil {
				break
			}
			keep(ops[len(ops)-1], []T{row})
		}
		rd.Close()
		op("Reader.Close")
		verify("Reader.Close")
	}()

	// (3) Schema.Reconstruct from the rows of a row reader into one reused row variable: the parquet
	// rows end their life at the next ReadRows call, the Go values reconstructed from them do not
	func() {
		defer func() {
			if p := recover(); p != nil {
				ctx.Hist("cross", "reconstruct-panic")
			}
		}()
		f, err := parquet.OpenFile(bytes.NewReader(file), int64(len(file)))
		if err != nil {
			return
		}
		rr := f.RowGroups()[0].Rows()
		prows := make([]parquet.Row, []int{1, 4, 30}[r.Intn(3)])
		var row T
		for call := 0; call < 2+r.Intn(4); call++ {
			got, rerr := rr.ReadRows(prows)
			op("Rows.ReadRows(%d)=%d", len(prows), got)
			verify("Rows.ReadRows")
			for i := 0; i < got; i++ {
				if err := schema.Reconstruct(&row, prows[i]); err != nil {
					ctx.Hist("cross", "reconstruct-error")
					break
				}
				keep("Schema.Reconstruct(&row reused)", []T{row})
			}
			if got > 0 {
				op("Schema.Reconstruct x%d", got)
				verify("Schema.Reconstruct into the reused row")
			}
			if rerr != nil || got == 0 {
				break
			}
		}
		rr.Close()
		op("Rows.Close")
		verify("Rows.Close")
	}()

	// (4) GenericReader[T] WITHOUT the schema: the file's columns are converted to the leaf types the
	// struct tags derive (BYTE_ARRAY / FIXED_LEN_BYTE_ARRAY(N) ...) where a conversion exists
	func() {
		defer func() {
			if p := recover(); p != nil {
				ctx.Hist("cross", "derived-schema-panic")
			}
		}()
		gr := parquet.NewGenericReader[T](bytes.NewReader(file))
		defer gr.Close()
		batch := make([]T, batchLen)
		for i := 0; i < 3+r.Intn(5); i++ {
			got, err := gr.Read(batch)
			op("GenericReader(derived schema).Read(reused %d)=%d", batchLen, got)
			verify("GenericReader.Read (converted file) into the reused batch")
			if got > 0 {
				keep(ops[len(ops)-1], batch[:got])
			}
			if err != nil {
				break
			}
		}
		ctx.Hist("cross", "derived-schema-read")
	}()

	c16Churn(r, 2)
	op("churn")
	verify("Close of all readers and pool churn")
	ctx.Hist("cross", "ran")
	ctx.Hist("cross-cell", name+"<-"+map[bool]string{false: leaves[0].name, true: "mixed"}[mixLeaves])
	ctx.HistN("cross-handovers", name, int64(len(kept)))
	c16Count(ctx, "cross|"+desc+"|"+strings.Join(ops, ","), len(kept) >= 2)
}

// c16CrossProbe: does the library fill a fresh []T from this file with the explicit schema at all?
func c16CrossProbe[T any](file []byte, schema *parquet.Schema, n int) (ok bool) {
	defer func() {
		if p := recover(); p != nil {
			ok = false
		}
	}()
	gr := parquet.NewGenericReader[T](bytes.NewReader(file), schema)
	defer gr.Close()
	all := make([]T, n)
	got, err := gr.Read(all)
	return got == n && (err == nil || err.Error() == "EOF")
}
