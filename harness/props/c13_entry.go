package props

// C13 "flips": the access paths ABOVE FilePages — every public way of reading pages, values or rows
// that ends in a page load. The property quantifies over "every way of reading rows that touch that
// page"; each of these wrappers sits between the loader's error and the caller and has to hand it on:
//
//	column-pages-*    file.Root().Column(..).Pages()        columnPages over all row groups (column.go)
//	multi-*           MultiRowGroup(file.RowGroups()...)     multiPages / multi row reader (multi_row_group.go)
//	merge-rows-seq    MergeRowGroups(file.RowGroups())       merged view without sorting columns
//	convert-rows-seq  ConvertRowGroup(rg, fields reordered)  convertedPages / converted rows (convert.go)
//	mergeK-readers-inP  MergeRowReaders of K = 2, 3 row readers ordered by the ascending "id" column: the
//	                  row group with the corrupted page is input number P (0-based), the other K-1 inputs
//	                  are the same row group of the unaltered file (every key ties: both inputs are
//	                  consumed in step and each is refilled again and again)   merge.go: mergedRowReader2
//	                  (K = 2), mergedRowReader (loser tree, K >= 3), bufferedRowReader
//	mergeK-groups-inP   MergeRowGroups of the same K row groups with SortingColumns(Ascending("id")):
//	                  mergedRowGroup / mergedRowGroupRows, overlap detection and refinement in front
//	merge-readers-own / merge-groups-own   the row groups of the altered file itself (disjoint key
//	                  ranges: one input is drained after the other; sortedSegmentRowGroup)
//	reader-*          NewReader(file) (deprecated Reader)    ReadRows and Read(&T)
//	generic-reset     GenericReader[T]: read to the failure, Reset(), read again (twice)
//	reader-reset      the same on the deprecated Reader (Read(&T), Reset())
//	rowgroup-reader   NewGenericRowGroupReader[T](rg)
//	value-reader-*    NewColumnChunkValueReader(chunk)       columnChunkValueReader (column_chunk.go)
//	copy-rows         CopyRows(sink, rg.Rows())
//	copy-pages        CopyPages(sink, chunk.Pages())         page.go
//	print-chunk       PrintColumnChunk(io.Discard, chunk)    print.go
//	async-pages-wrap  AsyncPages(chunk.Pages())              page.go (goroutine: announced like async-*)
//	rewrite-rowgroup  Writer.WriteRowGroup(rg) into a new file, then read that file: the corruption
//	                  must be reported at one of the two stages (it must not be laundered into a file
//	                  whose checksums match the altered bytes)
//
// The oracle is the one of every other path (error satisfying errors.Is(err, ErrCorrupted); no rows,
// no other error, no panic). They run on a deterministic third of the faults of a page (the wrapper
// does not look at the position of the fault), always on the first fault of each page.

import (
	"bytes"
	"cmp"
	"errors"
	"fmt"
	"io"
	"strings"

	"github.com/parquet-go/parquet-go"
)

// c13Column walks file.Root() down the path of leaf column `col`
func c13Column(f *parquet.File, col int) (*parquet.Column, error) {
	leaves := f.Schema().Columns()
	if col >= len(leaves) {
		return nil, fmt.Errorf("c13: no leaf column %d", col)
	}
	c := f.Root()
	for _, name := range leaves[col] {
		if c = c.Column(name); c == nil {
			return nil, fmt.Errorf("c13: Root().Column(%q) is nil on path %v", name, leaves[col])
		}
	}
	return c, nil
}

type c13RowSink struct{ rows []parquet.Row }

func (s *c13RowSink) WriteRows(rows []parquet.Row) (int, error) {
	for _, r := range rows {
		s.rows = append(s.rows, r.Clone())
	}
	return len(rows), nil
}

type c13PageSink struct{ out []string }

func (s *c13PageSink) WritePage(p parquet.Page) (int64, error) {
	vals := make([]parquet.Value, p.NumValues()+1)
	vr := p.Values()
	total := 0
	for total < len(vals) {
		n, err := vr.ReadValues(vals[total:])
		total += n
		if err != nil || n == 0 {
			break
		}
	}
	for _, v := range vals[:total] {
		s.out = append(s.out, fmt.Sprintf("%+v", v))
	}
	s.out = append(s.out, fmt.Sprintf("|rows=%d", p.NumRows()))
	return int64(total), nil
}

func c13ReadValueReader(vr parquet.ColumnChunkValueReader, from int64) (any, error) {
	defer vr.Close()
	if from >= 0 {
		if err := vr.SeekToRow(from); err != nil {
			return nil, err
		}
	}
	var out []string
	buf := make([]parquet.Value, 11)
	for spins := 0; spins < 1<<16; spins++ {
		n, err := vr.ReadValues(buf)
		if err != nil && err != io.EOF {
			return out, err
		}
		for _, v := range buf[:n] {
			out = append(out, fmt.Sprintf("%+v", v))
		}
		if err == io.EOF {
			return out, nil
		}
	}
	return out, errors.New("c13: reader does not terminate")
}

func c13ReadOldReaderRows(r *parquet.Reader, from int64) (any, error) {
	defer r.Close()
	if from >= 0 {
		if err := r.SeekToRow(from); err != nil {
			return nil, err
		}
	}
	var out []parquet.Row
	buf := make([]parquet.Row, 13)
	for spins := 0; spins < 1<<16; spins++ {
		n, err := r.ReadRows(buf)
		if err != nil && err != io.EOF {
			return out, err
		}
		for i := 0; i < n; i++ {
			out = append(out, buf[i].Clone())
		}
		if err == io.EOF {
			return out, nil
		}
	}
	return out, errors.New("c13: reader does not terminate")
}

// c13ReadRowReader drains a RowReader that is not a Rows (MergeRowReaders); closers are closed at the end
func c13ReadRowReader(rows parquet.RowReader, closers []io.Closer) (any, error) {
	defer func() {
		for _, c := range closers {
			c.Close()
		}
	}()
	var out []parquet.Row
	buf := make([]parquet.Row, 29)
	for spins := 0; spins < 1<<16; spins++ {
		n, err := rows.ReadRows(buf)
		if err != nil && err != io.EOF {
			return out, err
		}
		for i := 0; i < n; i++ {
			out = append(out, buf[i].Clone())
		}
		if err == io.EOF {
			return out, nil
		}
	}
	return out, errors.New("c13: reader does not terminate")
}

// c13SortedSchema: the schemas whose first leaf column ("id", required) ascends with the row number, so
// that every row group is a legal input of a sorted merge
func c13SortedSchema(schema string) bool { return schema == "flat" || schema == "nested" }

func c13CompareID(a, b parquet.Row) int { return cmp.Compare(a[0].Int64(), b[0].Int64()) }

// mergeInputs: k row groups, number pos is row group g of f (the altered file), the others are row
// group g of the unaltered file, each from an open of its own
func (e *c13Env) mergeInputs(f *parquet.File, g, k, pos int) ([]parquet.RowGroup, error) {
	in := make([]parquet.RowGroup, k)
	for i := range in {
		if i == pos {
			in[i] = f.RowGroups()[g]
			continue
		}
		pf, err := c13Open(e.data)
		if err != nil {
			return nil, err
		}
		in[i] = pf.RowGroups()[g]
	}
	return in, nil
}

func c13MergeReaders(in []parquet.RowGroup) (any, error) {
	readers := make([]parquet.RowReader, len(in))
	closers := make([]io.Closer, len(in))
	for i, rg := range in {
		rows := rg.Rows()
		readers[i], closers[i] = rows, rows
	}
	return c13ReadRowReader(parquet.MergeRowReaders(readers, c13CompareID), closers)
}

func c13MergeGroups(in []parquet.RowGroup) (any, error) {
	m, err := parquet.MergeRowGroups(in, parquet.SortingRowGroupConfig(parquet.SortingColumns(parquet.Ascending("id"))))
	if err != nil {
		return nil, err
	}
	return c13ReadRows(m.Rows(), -1)
}

// entryAccesses appends the wrapper paths for a fault in page p. ks are the rows (within the row
// group) the seek variants target.
func (e *c13Env) entryAccesses(p c13Page, ks []int64, add func(path string, k int64, model string, run func(data []byte) (any, error))) {
	g, col := p.RG, p.Col
	wrap := func(path string, k int64, run func(f *parquet.File) (any, error), opts ...parquet.FileOption) {
		add(path, k, "", func(d []byte) (any, error) {
			f, err := c13Open(d, opts...)
			if err != nil {
				return nil, err
			}
			return run(f)
		})
	}
	wrap("column-pages-seq", -1, func(f *parquet.File) (any, error) {
		c, err := c13Column(f, col)
		if err != nil {
			return nil, err
		}
		return c13ReadPages(c.Pages(), -1)
	})
	wrap("multi-rows-seq", -1, func(f *parquet.File) (any, error) {
		return c13ReadRows(parquet.MultiRowGroup(f.RowGroups()...).Rows(), -1)
	})
	wrap("multi-pages-seq", -1, func(f *parquet.File) (any, error) {
		return c13ReadPages(parquet.MultiRowGroup(f.RowGroups()...).ColumnChunks()[col].Pages(), -1)
	})
	wrap("merge-rows-seq", -1, func(f *parquet.File) (any, error) {
		m, err := parquet.MergeRowGroups(f.RowGroups())
		if err != nil {
			return nil, err
		}
		return c13ReadRows(m.Rows(), -1)
	})
	if c13SortedSchema(e.cfg.Schema) {
		// sorted merges: the corrupted row group at every input position of the two-way and of the k-way
		// merge reader
		for k := 2; k <= 3; k++ {
			for pos := 0; pos < k; pos++ {
				k, pos := k, pos
				wrap(fmt.Sprintf("merge%d-readers-in%d", k, pos), -1, func(f *parquet.File) (any, error) {
					in, err := e.mergeInputs(f, g, k, pos)
					if err != nil {
						return nil, err
					}
					return c13MergeReaders(in)
				})
				wrap(fmt.Sprintf("merge%d-groups-in%d", k, pos), -1, func(f *parquet.File) (any, error) {
					in, err := e.mergeInputs(f, g, k, pos)
					if err != nil {
						return nil, err
					}
					return c13MergeGroups(in)
				})
			}
		}
		wrap("merge-readers-own", -1, func(f *parquet.File) (any, error) { return c13MergeReaders(f.RowGroups()) })
		wrap("merge-groups-own", -1, func(f *parquet.File) (any, error) { return c13MergeGroups(f.RowGroups()) })
	}
	wrap("convert-rows-seq", -1, func(f *parquet.File) (any, error) {
		// the same fields in another order (Group sorts by name): every column is moved
		grp := parquet.Group{}
		for _, fld := range f.Schema().Fields() {
			grp[fld.Name()] = fld
		}
		conv, err := parquet.Convert(parquet.NewSchema("conv", grp), f.Schema())
		if err != nil {
			return nil, err
		}
		return c13ReadRows(parquet.ConvertRowGroup(f.RowGroups()[g], conv).Rows(), -1)
	})
	wrap("reader-rows-seq", -1, func(f *parquet.File) (any, error) {
		return c13ReadOldReaderRows(parquet.NewReader(f), -1)
	})
	wrap("reader-read-seq", -1, func(f *parquet.File) (any, error) { return e.typed.readOld(f, -1) })
	// Reset() of the typed readers after the failure: the rows in front of the corrupted page again, then
	// the corruption again (limit: rows of the file in front of the corrupted page)
	limit := e.rgRow[g] + p.FirstRow
	wrap("generic-reset", -1, func(f *parquet.File) (any, error) {
		return e.typed.readReset(f, false, limit, func() (any, error) {
			return e.pristine("generic-all", func() (any, error) {
				pf, err := c13Open(e.data)
				if err != nil {
					return nil, err
				}
				return e.typed.readAll(pf, -1)
			})
		})
	})
	wrap("reader-reset", -1, func(f *parquet.File) (any, error) {
		return e.typed.readReset(f, true, limit, func() (any, error) {
			return e.pristine("reader-all", func() (any, error) {
				pf, err := c13Open(e.data)
				if err != nil {
					return nil, err
				}
				return e.typed.readOld(pf, -1)
			})
		})
	})
	wrap("rowgroup-reader", -1, func(f *parquet.File) (any, error) { return e.typed.readRG(f, g) })
	wrap("value-reader-seq", -1, func(f *parquet.File) (any, error) {
		return c13ReadValueReader(parquet.NewColumnChunkValueReader(f.RowGroups()[g].ColumnChunks()[col]), -1)
	})
	wrap("copy-rows", -1, func(f *parquet.File) (any, error) {
		sink := &c13RowSink{}
		rows := f.RowGroups()[g].Rows()
		defer rows.Close()
		_, err := parquet.CopyRows(sink, rows)
		return sink.rows, err
	})
	wrap("copy-pages", -1, func(f *parquet.File) (any, error) {
		sink := &c13PageSink{}
		pages := f.RowGroups()[g].ColumnChunks()[col].Pages()
		defer pages.Close()
		_, err := parquet.CopyPages(sink, pages)
		return sink.out, err
	})
	wrap("print-chunk", -1, func(f *parquet.File) (any, error) {
		var b bytes.Buffer
		err := parquet.PrintColumnChunk(&b, f.RowGroups()[g].ColumnChunks()[col])
		return b.String(), err
	})
	wrap("async-pages-wrap", -1, func(f *parquet.File) (any, error) {
		return c13ReadPages(parquet.AsyncPages(f.RowGroups()[g].ColumnChunks()[col].Pages()), -1)
	})
	wrap("rewrite-rowgroup", -1, func(f *parquet.File) (any, error) {
		out, err := e.typed.rewrite(f, g)
		if err != nil {
			return nil, err
		}
		f2, err := c13Open(out)
		if err != nil {
			return nil, err
		}
		return c13ReadRows(parquet.MultiRowGroup(f2.RowGroups()...).Rows(), -1)
	})
	for i, k := range ks {
		if i > 0 {
			break // one seek target per fault is enough for the wrappers
		}
		k := k
		wrap("column-pages-seek", k, func(f *parquet.File) (any, error) {
			c, err := c13Column(f, col)
			if err != nil {
				return nil, err
			}
			return c13ReadPages(c.Pages(), e.rgRow[g]+k)
		})
		wrap("multi-rows-seek", k, func(f *parquet.File) (any, error) {
			return c13ReadRows(parquet.MultiRowGroup(f.RowGroups()...).Rows(), e.rgRow[g]+k)
		})
		wrap("reader-rows-seek", k, func(f *parquet.File) (any, error) {
			return c13ReadOldReaderRows(parquet.NewReader(f), e.rgRow[g]+k)
		})
		wrap("reader-read-seek", k, func(f *parquet.File) (any, error) { return e.typed.readOld(f, e.rgRow[g]+k) })
		wrap("value-reader-seek", k, func(f *parquet.File) (any, error) {
			return c13ReadValueReader(parquet.NewColumnChunkValueReader(f.RowGroups()[g].ColumnChunks()[col]), k)
		})
	}
}

// c13IsEntryPath: the wrapper paths of this file (they run on a third of the faults)
func c13IsEntryPath(path string) bool {
	if strings.HasPrefix(path, "merge") {
		return true
	}
	switch path {
	case "column-pages-seq", "column-pages-seek", "multi-rows-seq", "multi-rows-seek", "multi-pages-seq", "merge-rows-seq",
		"convert-rows-seq", "reader-rows-seq", "reader-rows-seek", "reader-read-seq", "reader-read-seek", "rowgroup-reader",
		"value-reader-seq", "value-reader-seek", "generic-reset", "reader-reset", "copy-rows", "copy-pages", "print-chunk", "async-pages-wrap", "rewrite-rowgroup":
		return true
	}
	return false
}
