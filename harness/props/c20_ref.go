package props

// Independent block decoders (and literal-only encoders) for the snappy and LZ4 block formats,
// written from the format descriptions only (google/snappy format_description.txt, lz4
// lz4_Block_format.md). They share no code with klauspost/compress or pierrec/lz4.

import (
	"errors"
	"fmt"
)

var errRef = errors.New("ref decoder: corrupt input")

func refUvarint(b []byte) (uint64, int) {
	var v uint64
	for i := 0; i < len(b) && i < 10; i++ {
		v |= uint64(b[i]&0x7f) << (7 * uint(i))
		if b[i] < 0x80 {
			return v, i + 1
		}
	}
	return 0, 0
}

func refCopy(out []byte, offset, length int) ([]byte, error) {
	if offset <= 0 || offset > len(out) {
		return nil, fmt.Errorf("%w: copy offset %d with %d bytes produced", errRef, offset, len(out))
	}
	for ; length > 0; length-- {
		out = append(out, out[len(out)-offset])
	}
	return out, nil
}

// refSnappyDecode: preamble = uvarint uncompressed length, then literal / copy elements.
func refSnappyDecode(src []byte) ([]byte, error) {
	want, n := refUvarint(src)
	if n == 0 {
		return nil, errRef
	}
	src = src[n:]
	out := make([]byte, 0, int(want))
	for len(src) > 0 {
		tag := src[0]
		src = src[1:]
		switch tag & 3 {
		case 0: // literal
			l := int(tag >> 2)
			if l >= 60 {
				nb := l - 59
				if len(src) < nb {
					return nil, errRef
				}
				l = 0
				for i := 0; i < nb; i++ {
					l |= int(src[i]) << (8 * uint(i))
				}
				src = src[nb:]
			}
			l++
			if l > len(src) {
				return nil, errRef
			}
			out = append(out, src[:l]...)
			src = src[l:]
		case 1:
			if len(src) < 1 {
				return nil, errRef
			}
			length := 4 + int(tag>>2)&7
			offset := int(tag>>5)<<8 | int(src[0])
			src = src[1:]
			var err error
			if out, err = refCopy(out, offset, length); err != nil {
				return nil, err
			}
		case 2:
			if len(src) < 2 {
				return nil, errRef
			}
			length := 1 + int(tag>>2)
			offset := int(src[0]) | int(src[1])<<8
			src = src[2:]
			var err error
			if out, err = refCopy(out, offset, length); err != nil {
				return nil, err
			}
		case 3:
			if len(src) < 4 {
				return nil, errRef
			}
			length := 1 + int(tag>>2)
			offset := int(src[0]) | int(src[1])<<8 | int(src[2])<<16 | int(src[3])<<24
			src = src[4:]
			var err error
			if out, err = refCopy(out, offset, length); err != nil {
				return nil, err
			}
		}
	}
	if uint64(len(out)) != want {
		return nil, fmt.Errorf("%w: preamble says %d bytes, elements produce %d", errRef, want, len(out))
	}
	return out, nil
}

func refPutUvarint(v uint64) []byte {
	var b []byte
	for v >= 0x80 {
		b = append(b, byte(v)|0x80)
		v >>= 7
	}
	return append(b, byte(v))
}

// refSnappyEncodeLiteral: a valid snappy block made of literal elements only.
func refSnappyEncodeLiteral(x []byte) []byte {
	out := refPutUvarint(uint64(len(x)))
	for len(x) > 0 {
		n := len(x)
		if n > 70000 {
			n = 70000
		}
		l := n - 1
		switch {
		case l < 60:
			out = append(out, byte(l)<<2)
		case l < 1<<8:
			out = append(out, 60<<2, byte(l))
		case l < 1<<16:
			out = append(out, 61<<2, byte(l), byte(l>>8))
		default:
			out = append(out, 62<<2, byte(l), byte(l>>8), byte(l>>16))
		}
		out = append(out, x[:n]...)
		x = x[n:]
	}
	return out
}

// refLz4Decode: LZ4 block = sequences (token, literal length extension, literals, 2-byte LE
// offset, match length extension); the last sequence stops after its literals. The empty block
// stands for the empty string (parquet LZ4_RAW of nothing).
func refLz4Decode(src []byte, limit int) ([]byte, error) {
	var out []byte
	for len(src) > 0 {
		token := src[0]
		src = src[1:]
		l := int(token >> 4)
		if l == 15 {
			for {
				if len(src) == 0 {
					return nil, errRef
				}
				b := src[0]
				src = src[1:]
				l += int(b)
				if b != 255 {
					break
				}
			}
		}
		if l > len(src) {
			return nil, errRef
		}
		out = append(out, src[:l]...)
		src = src[l:]
		if len(src) == 0 {
			return out, nil // last sequence: literals only
		}
		if len(src) < 2 {
			return nil, errRef
		}
		offset := int(src[0]) | int(src[1])<<8
		src = src[2:]
		m := int(token & 15)
		if m == 15 {
			for {
				if len(src) == 0 {
					return nil, errRef
				}
				b := src[0]
				src = src[1:]
				m += int(b)
				if b != 255 {
					break
				}
			}
		}
		m += 4
		if len(out)+m > limit {
			return nil, fmt.Errorf("%w: output exceeds %d bytes", errRef, limit)
		}
		var err error
		if out, err = refCopy(out, offset, m); err != nil {
			return nil, err
		}
		if len(src) == 0 {
			return nil, fmt.Errorf("%w: block ends with a match", errRef)
		}
	}
	return out, nil
}

// refLz4EncodeLiteral: one sequence of literals only (valid for every length, including 0).
func refLz4EncodeLiteral(x []byte) []byte {
	n := len(x)
	var out []byte
	if n < 15 {
		out = append(out, byte(n)<<4)
	} else {
		out = append(out, 0xF0)
		r := n - 15
		for ; r >= 255; r -= 255 {
			out = append(out, 255)
		}
		out = append(out, byte(r))
	}
	return append(out, x...)
}
