package props

import (
	"bytes"
	"fmt"
	"os"
	"path/filepath"
	"reflect"
	"strings"
	"sync"

	"github.com/parquet-go/parquet-go"
	"github.com/parquet-go/parquet-go/encoding"

	"verifharness/core"
	"verifharness/drv"
	"verifharness/gen"
)

func init() { RegisterSub("C02", "sizestats", RunC02SizeStats) }

// c02ssRuns: with probability 1/2 per row and top-level field, the field takes the value the
// previous row has (runs of equal adjacent values in every column, nulls included); list fields
// additionally repeat their previous element. Equal adjacent values are what dictionary indexes
// of real data look like (RLE runs).
func c02ssRuns(r interface{ Intn(int) int }, rows reflect.Value) {
	for i := 0; i < rows.Len(); i++ {
		row := rows.Index(i)
		for f := 0; f < row.NumField(); f++ {
			fv := row.Field(f)
			if i > 0 && r.Intn(2) == 0 {
				fv.Set(rows.Index(i - 1).Field(f))
				continue
			}
			if fv.Kind() == reflect.Slice && fv.Type().Elem().Kind() != reflect.Uint8 {
				for j := 1; j < fv.Len(); j++ {
					if r.Intn(2) == 0 {
						fv.Index(j).Set(fv.Index(j - 1))
					}
				}
			}
		}
	}
}

// RunC02SizeStats: every statistic of the footer, the page headers and the page indexes that the
// format defines as a function of the decoded entries is recomputed by the Lean spec reader
// (file.stats, Spec/SizeStats.lean) from the pages it decodes and compared with what the file
// announces (L1); the file is also judged like every other C02 file (clauses, decoded streams
// against the rows written). L2: the mirror of the dictionary branch of
// computeUnencodedByteArraySize against the real function on dictionary pages with runs.
func RunC02SizeStats(ctx *core.Ctx) {
	tmp := filepath.Join(".build", "tmp", fmt.Sprintf("c02ss-%s-%d", ctx.Variant, os.Getpid()))
	os.MkdirAll(tmp, 0o755)
	defer os.RemoveAll(tmp)
	if d := ctx.Driver(); d != nil {
		c02ssMirror(ctx, d)
	}
	// the dedicated types (byte arrays under dictionary encoding in every position) and a slice
	// of the catalogue (a different one per run seed)
	entries := append([]*gen.Entry{}, gen.SizeStatsCatalog...)
	cat := append([]*gen.Entry{}, gen.Catalog...)
	rs := ctx.Rand("c02ss/types")
	rs.Shuffle(len(cat), func(i, j int) { cat[i], cat[j] = cat[j], cat[i] })
	nc := ctx.Scale(9, 40)
	if nc > len(cat) {
		nc = len(cat)
	}
	entries = append(entries, cat[:nc]...)
	var wg sync.WaitGroup
	sem := make(chan struct{}, 16)
	for ei, e := range entries {
		wg.Add(1)
		sem <- struct{}{}
		go func(ei int, e *gen.Entry) {
			defer wg.Done()
			defer func() { <-sem }()
			d := ctx.Driver()
			if d == nil {
				return
			}
			stream := "c02ss/" + e.Name
			r := ctx.Rand(stream)
			ncases := ctx.Scale(4, 30)
			if ei < len(gen.SizeStatsCatalog) {
				ncases = ctx.Scale(16, 120)
			}
			for k := 0; k < ncases; k++ {
				n := []int{1, 2, 3, 9, 40, 65, 130, 300}[r.Intn(8)]
				prof := &gen.Profile{NullProb: []float64{0.1, 0.5, 0.95}[r.Intn(3)], MaxLen: 1 + r.Intn(4), SmallDomain: r.Intn(3) > 0}
				if r.Intn(3) == 0 {
					prof.RunLen = 70
				}
				rows := e.NewRows(n)
				gen.FillRows(r, rows, prof)
				runs := r.Intn(4) > 0
				if runs {
					c02ssRuns(r, rows)
				}
				cfg := gen.RandWriterCfg(r)
				if r.Intn(2) == 0 {
					cfg = gen.PlainWriterCfg(r) // default limits: dictionary pages stay dictionary pages
				}
				// a codec the spec reader decodes (fields carrying their own codec tag keep it)
				name := []string{"none", "snappy", "gzip", "none", "lz4"}[r.Intn(5)]
				opts := append(append([]parquet.WriterOption{}, cfg.Opts...), parquet.Compression(gen.Codecs[name]))
				desc := cfg.Desc + " filecodec=" + name + fmt.Sprintf(" runs=%v smalldomain=%v", runs, prof.SmallDomain)
				mode := c02Modes[r.Intn(len(c02Modes))]
				var srcOpts []parquet.WriterOption
				if mode == "reencode-from-file" {
					sc := gen.RandWriterCfg(r)
					srcOpts = sc.Opts
					desc += " | source file: " + sc.Desc
				}
				file, err := c02Write(e, rows, mode, opts, srcOpts, c01Batches(r, n), r)
				detail := map[string]any{"type": e.Name, "config": desc, "mode": mode, "rows": n, "seed_stream": stream, "case_index": k,
					"replay": "FillRows with the profile of the case, then c02ssRuns when runs=true, on stream " + stream}
				if n <= 9 {
					detail["rows_written"] = fmt.Sprintf("%+v", rows.Interface())
				}
				if err != nil {
					ctx.Fail("L1", "write-error mode="+mode+" "+errClass(err), "writing valid rows failed: "+err.Error(), detail)
					continue
				}
				if !c02ssStats(ctx, d, tmp, e, file, mode, k, detail) {
					return
				}
				if !c02Judge(ctx, d, tmp, e, rows, file, mode, desc, cfg.MaxRows, 5000+k, n, detail, nil) {
					return
				}
			}
		}(ei, e)
	}
	wg.Wait()
}

// c02ssStats asks the spec reader for the statistics clauses of one file. false = driver gone.
func c02ssStats(ctx *core.Ctx, d *drv.Driver, tmp string, e *gen.Entry, file []byte, mode string, k int, detail map[string]any) bool {
	path := filepath.Join(tmp, fmt.Sprintf("%s-stats-%d.parquet", e.Name, k))
	if err := os.WriteFile(path, file, 0o644); err != nil {
		ctx.Fail("L2", "tmp-write", err.Error(), nil)
		return true
	}
	abs, _ := filepath.Abs(path)
	ans, err := d.Ask("file.stats " + abs)
	os.Remove(path)
	if err != nil {
		ctx.Fail("L2", "driver-error", err.Error(), nil)
		return false
	}
	det := map[string]any{}
	for key, v := range detail {
		det[key] = v
	}
	sum := ans
	if i := strings.Index(ans, " | "); i >= 0 {
		sum = ans[:i]
	}
	if strings.HasPrefix(ans, "ok ") || strings.HasPrefix(ans, "bad ") {
		for _, f := range strings.Fields(sum)[1:] {
			var v int64
			name, val, _ := strings.Cut(f, "=")
			fmt.Sscanf(val, "%d", &v)
			ctx.HistN("statistics recomputed from the decoded pages", name+" mode="+mode, v)
		}
	}
	switch {
	case strings.HasPrefix(ans, "ok "):
	case strings.HasPrefix(ans, "bad "):
		parts := strings.SplitN(ans, " | ", 2)
		for _, p := range strings.Split(parts[1], " ; ") {
			det["problem"] = p
			det["all_problems"] = parts[1]
			ctx.Fail("L1", "statistics mode="+mode+": "+c02Class(p), "a statistic of the file is not what the decoded entries give: "+p, det)
		}
	default:
		det["answer"] = ans
		ctx.Fail("L1", "statistics-unparsable mode="+mode+": "+c02Class(ans), "the spec reader cannot parse the file: "+ans, det)
	}
	return true
}

// c02ssMirror (L2): computeUnencodedByteArraySize on dictionary pages built through the public
// API (dictionary of values of given lengths, index page with runs) against the Lean mirror
// dictBranchSize, and (L1) against the sum of the lengths written from the property statement.
func c02ssMirror(ctx *core.Ctx, d *drv.Driver) {
	r := ctx.Rand("c02ss/mirror")
	type tc struct {
		lens []int
		idx  []int32
		got  int64
	}
	var cases []tc
	var reqs []string
	for k := 0; k < ctx.Scale(1500, 20000); k++ {
		nd := 1 + r.Intn(6)
		lens := make([]int, nd)
		vals := make([]parquet.Value, nd)
		for i := range lens {
			lens[i] = []int{0, 1, 2, 7, 33, 300}[r.Intn(6)]
			// distinct values per entry number (all empty values share one entry)
			vals[i] = parquet.ByteArrayValue(bytes.Repeat([]byte{byte('A' + i)}, lens[i]))
		}
		dict := parquet.ByteArrayType.NewDictionary(0, 0, parquet.ByteArrayType.NewValues(nil, nil))
		at := make([]int32, nd)
		dict.Insert(at, vals)
		// the lengths by dictionary position (equal short values share an entry)
		dl := make([]int, dict.Len())
		for i, p := range at {
			dl[p] = lens[i]
		}
		ni := r.Intn(40)
		idx := make([]int32, ni)
		for i := range idx {
			if i > 0 && r.Intn(3) > 0 {
				idx[i] = idx[i-1]
			} else {
				idx[i] = int32(r.Intn(len(dl)))
			}
		}
		page := dict.Type().NewPage(0, ni, encoding.Int32Values(idx))
		got := parquet.VerifComputeUnencodedByteArraySize(page)
		cases = append(cases, tc{dl, idx, got})
		reqs = append(reqs, fmt.Sprintf("c02ss.dictsize 0 %s %s", c02ssList(dl), c02ssList(idx)))
	}
	answers, err := d.AskMany(reqs)
	if err != nil {
		ctx.Fail("L2", "driver-error", err.Error(), nil)
		return
	}
	for i, c := range cases {
		want := int64(0)
		runs := false
		for j, x := range c.idx {
			want += int64(c.lens[x])
			runs = runs || j > 0 && c.idx[j-1] == x && c.lens[x] > 0
		}
		ctx.Case(reqs[i], runs)
		detail := map[string]any{"dictionary_value_lengths": c.lens, "indexes": c.idx, "real": c.got, "sum_of_lengths": want, "mirror": answers[i]}
		if c.got != want {
			ctx.Fail("L1", "dictionary-page-unencoded-size-is-not-the-sum-of-the-value-lengths", fmt.Sprintf("computeUnencodedByteArraySize of a dictionary-encoded BYTE_ARRAY page returns %d, the values the indexes stand for hold %d bytes", c.got, want), detail)
		}
		if answers[i] != fmt.Sprintf("ok %d", c.got) {
			ctx.Fail("L2", "dictionary-page-unencoded-size-mirror", "computeUnencodedByteArraySize and the mirror dictBranchSize disagree", detail)
		}
	}
}

func c02ssList[T int | int32](xs []T) string {
	if len(xs) == 0 {
		return "-"
	}
	s := make([]string, len(xs))
	for i, x := range xs {
		s[i] = fmt.Sprint(x)
	}
	return strings.Join(s, ",")
}
