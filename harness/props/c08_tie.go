package props

// C08, sub-check "tie" — correspondence runs (L2) for two mirrors that had theorems but no run against
// the code:
//
//   - RowBufferRows.lean (rowBufferRows.SeekToRow / ReadRows / Close, row_buffer.go): histories of
//     seeks (negative, inside, the end, beyond), reads into 0..1000 dirty slots and Close (and every op
//     after Close) on RowBuffer[T].Rows(), compared op by op with `rbrows.run`: error class, number of
//     rows, first/last row returned, io.EOF or not, and the reader's index after the op (verif hook).
//   - SeekForeign.lean (the loop of FilePages.readPageInSequence meeting a dictionary page, file.go):
//     the page headers of a chunk are parsed by the harness (header length, compressed / uncompressed
//     body size, dictionary or data page); around every ReadPage of a history the stream offset, the
//     page counter and "f.dictionary != nil" are taken through verif hooks, and `dictskip.run` runs the
//     mirror from the offset before the call as many times as the call consumed data pages: the offset
//     behind the last page it returns must be the decoder's offset after ReadPage, the page it returns
//     must be the one FilePages kept as lastPage, and it must run out of pages exactly when ReadPage
//     answers io.EOF.

import (
	"bytes"
	"fmt"
	"io"
	"math/rand"
	"sort"
	"strconv"
	"strings"
	"sync"

	"github.com/parquet-go/parquet-go"
	"github.com/parquet-go/parquet-go/encoding/thrift"
	"github.com/parquet-go/parquet-go/format"

	"verifharness/core"
	"verifharness/drv"
	"verifharness/gen"
)

func init() { RegisterSub("C08", "tie", RunC08Tie) }

// ---------------------------------------------------------------------------------------------
// rowBufferRows

// c08tRbReal runs ops ("s<k>", "r<b>", "c") on RowBuffer[c08Row].Rows() over n rows (row i has id i)
// and renders every op the way rbrows.run does.
func c08tRbReal(n int, ops []string) (out []string, err error) {
	defer func() {
		if r := recover(); r != nil {
			out = append(out, fmt.Sprintf("PANIC: %v", r))
		}
	}()
	rb := parquet.NewRowBuffer[c08Row]()
	src := make([]c08Row, n)
	for i := range src {
		src[i] = c08MakeRow(i, i%4)
	}
	if n > 0 {
		if _, err := rb.Write(src); err != nil {
			return nil, err
		}
	}
	rows := rb.Rows()
	index := func() string {
		i, _, ok := parquet.VerifRowBufferRowsState(rows)
		if !ok {
			return "nohook"
		}
		return strconv.Itoa(i)
	}
	var buf []parquet.Row // reused dirty between the calls
	for _, op := range ops {
		switch op[0] {
		case 'c':
			if err := rows.Close(); err != nil {
				out = append(out, "c:error:"+err.Error())
				continue
			}
			out = append(out, "c:"+index())
		case 's':
			k, _ := strconv.ParseInt(op[1:], 10, 64)
			class := "ok"
			switch err := rows.SeekToRow(k); err {
			case nil:
			case parquet.ErrSeekOutOfRange:
				class = "oor"
			case io.ErrClosedPipe:
				class = "closed"
			default:
				class = "other(" + err.Error() + ")"
			}
			out = append(out, "s:"+class+":"+index())
		case 'r':
			b, _ := strconv.Atoi(op[1:])
			for len(buf) < b {
				buf = append(buf, parquet.Row{parquet.Int64Value(-7), parquet.Int64Value(-8)})
			}
			got, err := rows.ReadRows(buf[:b])
			eof := "0"
			if err == io.EOF {
				eof = "1"
			} else if err != nil {
				eof = "other(" + err.Error() + ")"
			}
			first, last, contiguous := "-", "-", true
			if got < 0 || got > b {
				out = append(out, fmt.Sprintf("r:%d rows returned for %d slots", got, b))
				continue
			}
			for i := 0; i < got; i++ {
				if len(buf[i]) == 0 || buf[i][0].Kind() != parquet.Int64 {
					return out, fmt.Errorf("row %d of a batch has no id column: %v", i, buf[i])
				}
				id := buf[i][0].Int64()
				// the row is the one written: same values as the deconstructed source row
				if id >= 0 && id < int64(n) {
					want := rb.Schema().Deconstruct(nil, &src[id])
					if !want.Equal(buf[i]) {
						contiguous = false
					}
				}
				if i == 0 {
					first = strconv.FormatInt(id, 10)
				} else if id != buf[0][0].Int64()+int64(i) {
					contiguous = false
				}
				last = strconv.FormatInt(id, 10)
			}
			tok := fmt.Sprintf("r:%d:%s:%s:%s:%s", got, eof, first, last, index())
			if !contiguous {
				tok += "!"
			}
			out = append(out, tok)
		}
	}
	return out, nil
}

func c08tRbRandOps(r *rand.Rand, n int) []string {
	seek := func() int64 {
		switch r.Intn(10) {
		case 0:
			return int64(n)
		case 1:
			return int64(n) + 1
		case 2:
			return int64(n) - 1 // -1 on an empty buffer: refused
		case 3:
			return int64(n) + int64([]int{2, 17, 1000, 1 << 40}[r.Intn(4)])
		case 4:
			return -int64([]int{1, 2, 1 << 40}[r.Intn(3)])
		case 5:
			return 0
		}
		return int64(r.Intn(n + 1))
	}
	var ops []string
	closeAt := -1
	cnt := 3 + r.Intn(12)
	if r.Intn(3) == 0 {
		closeAt = r.Intn(cnt)
	}
	for i := 0; i < cnt; i++ {
		switch x := r.Intn(10); {
		case i == closeAt || x == 9 && closeAt >= 0 && i > closeAt:
			ops = append(ops, "c")
		case x < 5:
			ops = append(ops, fmt.Sprintf("r%d", []int{0, 1, 1, 2, 3, 7, 64, 170, 1000}[r.Intn(9)]))
		default:
			ops = append(ops, fmt.Sprintf("s%d", seek()))
		}
	}
	return ops
}

var c08tRbFixed = []string{
	"sN r1 r1", "sN+1 r1 r1", "sN-1 r1 r1 sN r1", "sN+17 r3 s0 r1000 r1", "r1000 r1 sN r0", "r0 r0 s0 r0",
	"s-1 r1", "c r1 s0 s-1 sN c r0", "r2 c sN r1", "sN c c", "sN/2 r1 sN r2 sN/2 r1000 r1", "r1 r1 r1 r1 r1",
}

func c08tRbOps(text string, n int) []string {
	ops := strings.Fields(text)
	for i, t := range ops {
		if !strings.HasPrefix(t, "sN") {
			continue
		}
		k := n
		switch t[2:] {
		case "+1":
			k = n + 1
		case "+17":
			k = n + 17
		case "-1":
			k = n - 1
		case "/2":
			k = n / 2
		}
		ops[i] = fmt.Sprintf("s%d", k)
	}
	return ops
}

type c08tRbCase struct {
	n      int
	ops    []string
	origin string
}

func c08tRunRb(ctx *core.Ctx, d *drv.Driver, cases []c08tRbCase) {
	reqs := make([]string, len(cases))
	for i, c := range cases {
		reqs[i] = fmt.Sprintf("rbrows.run 0 %d %s", c.n, strings.Join(c.ops, ","))
	}
	ans, err := d.AskMany(reqs)
	if err != nil {
		ctx.Fail("L2", "driver-error", err.Error(), nil)
		return
	}
	for i, c := range cases {
		closed, past := false, false
		for _, op := range c.ops {
			closed = closed || op == "c"
			if k, e := strconv.ParseInt(op[1:], 10, 64); op[0] == 's' && e == nil && k >= int64(c.n) {
				past = true
			}
		}
		ctx.Case("rbrows|"+reqs[i], closed || past)
		ctx.Hist("tie-rbrows-rows", bucket(c.n))
		ctx.Hist("tie-rbrows-closes", fmt.Sprint(closed))
		real, err := c08tRbReal(c.n, c.ops)
		if err != nil {
			ctx.Fail("L1", "tie-rbrows-setup", err.Error(), map[string]any{"request": reqs[i]})
			continue
		}
		detail := map[string]any{"rows": c.n, "ops": strings.Join(c.ops, " "), "real": strings.Join(real, " "), "mirror": ans[i], "origin": c.origin,
			"replay": "RowBuffer[c08Row] of rows with id 0..rows-1; r := buf.Rows(); s<k> SeekToRow(k), r<b> ReadRows into b slots, c Close; tokens s:<error class>:<index>, r:<n>:<eof>:<first id>:<last id>:<index>, c:<index>"}
		if !strings.HasPrefix(ans[i], "ok ") {
			ctx.Fail("L2", "tie-rbrows-mirror-refuses", "rbrows.run answered "+ans[i], detail)
			continue
		}
		want := strings.Split(strings.TrimPrefix(ans[i], "ok "), ",")
		if len(want) != len(real) {
			ctx.Fail("L2", "tie-rbrows-length", fmt.Sprintf("%d tokens from the code, %d from the mirror", len(real), len(want)), detail)
			continue
		}
		for j := range real {
			if real[j] == want[j] {
				ctx.Hist("tie-rbrows-op", c08tRbClass(real[j]))
				continue
			}
			detail["failing_op"] = j
			kind := map[byte]string{'s': "seek", 'r': "read", 'c': "close"}[c.ops[j][0]]
			sit := "open"
			for _, op := range c.ops[:j] {
				if op == "c" {
					sit = "closed"
				}
			}
			if kind == "seek" && sit == "open" {
				if k, _ := strconv.ParseInt(c.ops[j][1:], 10, 64); k < 0 {
					sit = "open-negative"
				} else if k >= int64(c.n) {
					sit = "open-to-or-past-end"
				}
			}
			ctx.Fail("L2", "tie-rbrows-"+kind+"-differs-"+sit, fmt.Sprintf("op %d (%s): rowBufferRows gives %s, the mirror %s", j, c.ops[j], real[j], want[j]), detail)
			break
		}
	}
}

func c08tRbClass(tok string) string {
	p := strings.Split(tok, ":")
	switch p[0] {
	case "s":
		return "seek-" + p[1]
	case "r":
		if len(p) >= 3 {
			return "read-" + map[bool]string{true: "some", false: "none"}[p[1] != "0"] + "-eof" + p[2]
		}
	}
	return p[0]
}

// ---------------------------------------------------------------------------------------------
// the loop of readPageInSequence

type c08tPage struct {
	off               int64
	dict              bool
	hdr, body, uncomp int
	numValues         int64
}

// c08tParsePages decodes the page headers of the chunk lo..hi.
func c08tParsePages(data []byte, lo, hi int64) ([]c08tPage, error) {
	var out []c08tPage
	p := thrift.CompactProtocol{}
	for off := lo; off < hi; {
		rd := bytes.NewReader(data[off:hi])
		var h format.PageHeader
		if err := thrift.NewDecoder(p.NewReader(rd)).Decode(&h); err != nil {
			return nil, fmt.Errorf("page header at %d: %v", off, err)
		}
		pg := c08tPage{off: off, hdr: int(hi-off) - rd.Len(), body: int(h.CompressedPageSize), uncomp: int(h.UncompressedPageSize)}
		switch h.Type {
		case format.DictionaryPage:
			pg.dict = true
		case format.DataPage:
			pg.numValues = int64(h.DataPageHeader.V.NumValues)
		case format.DataPageV2:
			pg.numValues = int64(h.DataPageHeaderV2.V.NumValues)
		default:
			return nil, fmt.Errorf("page at %d has type %v", off, h.Type)
		}
		if pg.body < 0 || off+int64(pg.hdr)+int64(pg.body) > hi {
			return nil, fmt.Errorf("page at %d (header %d, body %d) leaves the chunk %d..%d", off, pg.hdr, pg.body, lo, hi)
		}
		out = append(out, pg)
		off += int64(pg.hdr) + int64(pg.body)
	}
	return out, nil
}

type c08tRead struct { // one ReadPage call to be compared
	op         int
	req        string
	m          int
	eof        bool
	after      int64
	lastValues int64 // NumValues of f.lastPage after the call (-1: none)
	pages      []c08tPage
}

// c08tSkipRun runs a history on FilePages and returns the observations of every ReadPage.
func c08tSkipRun(c *c08fChunk, pages []c08tPage, o c08fOpen, ops []c08Op) (reads []c08tRead, fail string) {
	defer func() {
		if r := recover(); r != nil {
			fail = fmt.Sprintf("PANIC: %v", r)
		}
	}()
	opts := []parquet.FileOption{parquet.SkipPageIndex(o.SkipIndex)}
	if o.ReadBuf > 0 {
		opts = append(opts, parquet.ReadBufferSize(o.ReadBuf))
	}
	pf, err := parquet.OpenFile(bytes.NewReader(c.data), int64(len(c.data)), opts...)
	if err != nil {
		return nil, "OpenFile: " + err.Error()
	}
	cc := pf.RowGroups()[c.rg].ColumnChunks()[c.col]
	p := cc.Pages()
	defer p.Close()
	hi := c.starts[len(c.starts)-1]
	for i, op := range ops {
		switch op.K {
		case 's':
			if err := p.SeekToRow(op.A); err != nil {
				return reads, fmt.Sprintf("op %d SeekToRow(%d): %v", i, op.A, err)
			}
		case 'i':
			cc.OffsetIndex()
		case 'd':
			if rd, ok := p.(interface {
				ReadDictionary() (parquet.Dictionary, error)
			}); ok {
				if _, err := rd.ReadDictionary(); err != nil {
					return reads, fmt.Sprintf("op %d ReadDictionary: %v", i, err)
				}
			}
		case 'r':
			st0, ok0 := parquet.VerifFilePagesState(p)
			cached, ok1 := parquet.VerifFilePagesDictionaryCached(p)
			if !ok0 || !ok1 {
				return reads, fmt.Sprintf("op %d: Pages() of a file chunk is not an open *FilePages", i)
			}
			pg, err := p.ReadPage()
			if pg != nil {
				parquet.Release(pg)
			}
			if err != nil && err != io.EOF {
				return reads, fmt.Sprintf("op %d ReadPage: %v", i, err)
			}
			st1, ok := parquet.VerifFilePagesState(p)
			if !ok {
				return reads, fmt.Sprintf("op %d: no state after ReadPage", i)
			}
			base := st0.Index
			if st0.ServeLastPage && st0.LastPage != nil {
				base = st0.LastPageIndex + 1
			}
			rd := c08tRead{op: i, m: st1.Index - base, eof: err == io.EOF, after: st1.StreamOffset, lastValues: -1}
			if rd.m < 0 {
				return reads, fmt.Sprintf("op %d: the page counter went from %d to %d", i, base, st1.Index)
			}
			if st1.LastPage != nil {
				rd.lastValues = st1.LastPage.NumValues()
			}
			j := sort.Search(len(pages), func(j int) bool { return pages[j].off >= st0.StreamOffset })
			if !(j < len(pages) && pages[j].off == st0.StreamOffset) && st0.StreamOffset != hi {
				return reads, fmt.Sprintf("op %d: before ReadPage the decoder stands at %d, not a page start", i, st0.StreamOffset)
			}
			rd.pages = pages[j:]
			var sb strings.Builder
			for k, q := range rd.pages {
				if k > 0 {
					sb.WriteByte(',')
				}
				fmt.Fprintf(&sb, "%s:%d:%d:%d", map[bool]string{true: "d", false: "p"}[q.dict], q.hdr, q.body, q.uncomp)
			}
			if len(rd.pages) == 0 {
				sb.WriteByte('-')
			}
			calls := rd.m
			if rd.eof {
				calls++
			}
			rd.req = fmt.Sprintf("dictskip.run c %d %d %s %d", b2i(cached), st0.StreamOffset, sb.String(), calls)
			reads = append(reads, rd)
		}
	}
	return reads, ""
}

func c08tSkipTask(ctx *core.Ctx, d *drv.Driver, c *c08fChunk, origin string, r *rand.Rand, nhist int) {
	if c.starts == nil || len(c.rows) == 0 {
		ctx.Hist("tie-dictskip-chunk", "skipped: no page offsets")
		return
	}
	pages, err := c08tParsePages(c.data, c.starts[0], c.starts[len(c.starts)-1])
	if err == nil {
		var offs []int64
		for _, p := range pages {
			offs = append(offs, p.off)
		}
		offs = append(offs, c.starts[len(c.starts)-1])
		var want []int64 // c.starts without the doubles (chunk start = first page when there is no dictionary page)
		for _, x := range c.starts {
			if len(want) == 0 || want[len(want)-1] != x {
				want = append(want, x)
			}
		}
		if fmt.Sprint(offs) != fmt.Sprint(want) {
			err = fmt.Errorf("pages parsed at %v, offset index + chunk bounds say %v", offs, c.starts)
		}
	}
	if err != nil {
		ctx.Fail("L1", "tie-dictskip-setup", "the harness cannot lay out the pages of the chunk: "+err.Error(), map[string]any{"file": c.file, "layout": c.layout, "row_group": c.rg, "column": c.col})
		return
	}
	compressedDict := false
	for _, p := range pages {
		compressedDict = compressedDict || p.dict && p.body != p.uncomp
	}
	ctx.Hist("tie-dictskip-layout", c.layout)
	ctx.Hist("tie-dictskip-dictionary", map[bool]string{true: "sizes differ", false: "none or sizes equal"}[compressedDict])
	for h := 0; h < nhist; h++ {
		o := c08fOpen{SkipIndex: r.Intn(2) == 0, ReadBuf: []int{0, 0, 1, 16, 300, 4096}[r.Intn(6)]}
		ops := c08fRandOps(r, len(c.rows), h)
		opsText := c08fOpsString(ops)
		reads, fail := c08tSkipRun(c, pages, o, ops)
		detail := map[string]any{"file": c.file, "layout": c.layout, "codec": c.codec, "row_group": c.rg, "column": c.col, "rows": len(c.rows),
			"open": o.String(), "ops": opsText, "origin": origin, "file_sha256": hashHex(c.data),
			"replay": "open the file with the options, take RowGroups()[row_group].ColumnChunks()[column].Pages(), run ops (s<k> SeekToRow, r ReadPage, d ReadDictionary, i ColumnChunk.OffsetIndex()); around every r compare VerifFilePagesState(p).StreamOffset / .Index / .LastPage with dictskip.run on the parsed page headers"}
		if len(c.data) <= 4096 {
			detail["file_hex"] = c08HexIfSmall(c.data)
		}
		metDict := false
		reqs := make([]string, len(reads))
		for i, rd := range reads {
			reqs[i] = rd.req
			metDict = metDict || (strings.HasPrefix(rd.req, "dictskip.run c 1 ") && len(rd.pages) > 0 && rd.pages[0].dict && (rd.m > 0 || rd.eof))
		}
		ctx.Case(fmt.Sprintf("dictskip|%s|%s|%d|%d|%s|%s", c.file, c.layout, c.rg, c.col, o, opsText), metDict)
		ctx.Hist("tie-dictskip-cached-dictionary-page-met", fmt.Sprint(metDict))
		if fail != "" {
			ctx.Fail("L2", "tie-dictskip-history-fails layout="+c.layout, fail, detail)
			continue
		}
		if len(reqs) == 0 {
			continue
		}
		ans, err := d.AskMany(reqs)
		if err != nil {
			ctx.Fail("L2", "driver-error", err.Error(), nil)
			return
		}
		for i, rd := range reads {
			detail["failing_op"], detail["request"], detail["mirror"] = rd.op, rd.req, ans[i]
			detail["real"] = fmt.Sprintf("data pages consumed=%d eof=%v offset after=%d lastPage.NumValues=%d", rd.m, rd.eof, rd.after, rd.lastValues)
			sit := fmt.Sprintf(" layout=%s dict-met=%v", c.layout, len(rd.pages) > 0 && rd.pages[0].dict)
			if !strings.HasPrefix(ans[i], "ok ") {
				ctx.Fail("L2", "tie-dictskip-mirror-refuses", "dictskip.run answered "+ans[i], detail)
				break
			}
			toks := strings.Split(strings.TrimPrefix(ans[i], "ok "), ",")
			if toks[0] == "-" {
				toks = nil
			}
			ctx.Hist("tie-dictskip-pages-per-readpage", bucket(rd.m))
			mirrorEOF := len(toks) > 0 && toks[len(toks)-1] == "none"
			if mirrorEOF {
				toks = toks[:len(toks)-1]
			}
			if mirrorEOF != rd.eof || len(toks) != rd.m {
				ctx.Fail("L2", "tie-dictskip-eof-class"+sit, fmt.Sprintf("op %d: ReadPage consumed %d data pages and eof=%v; the mirror returns %d pages and runs out of pages=%v", rd.op, rd.m, rd.eof, len(toks), mirrorEOF), detail)
				break
			}
			if rd.m == 0 {
				continue // served from the cached page or plain EOF: the stream is not touched (checked by "foreign")
			}
			var hOff, after int64
			var left int
			if _, err := fmt.Sscanf(toks[len(toks)-1], "%d:%d:%d", &hOff, &after, &left); err != nil {
				ctx.Fail("L2", "tie-dictskip-mirror-refuses", "token "+toks[len(toks)-1], detail)
				break
			}
			if after != rd.after {
				ctx.Fail("L2", "tie-dictskip-offset-after-readpage"+sit, fmt.Sprintf("op %d: after ReadPage the decoder stands at file offset %d, the mirror's stream at %d", rd.op, rd.after, after), detail)
				break
			}
			k := len(rd.pages) - left - 1
			if k < 0 || k >= len(rd.pages) || rd.pages[k].off != hOff || rd.pages[k].dict {
				ctx.Fail("L2", "tie-dictskip-page-returned"+sit, fmt.Sprintf("op %d: the mirror decodes the header of the page it returns at %d, not a data page start", rd.op, hOff), detail)
				break
			}
			if rd.pages[k].numValues != rd.lastValues {
				ctx.Fail("L2", "tie-dictskip-page-returned"+sit, fmt.Sprintf("op %d: FilePages kept a page of %d values as its last page, the mirror returns the page at %d announcing %d values", rd.op, rd.lastValues, hOff, rd.pages[k].numValues), detail)
				break
			}
		}
	}
}

func RunC08Tie(ctx *core.Ctx) {
	ctx.SetRule("tie: (rbrows) histories of SeekToRow / ReadRows / Close on RowBuffer[c08Row].Rows() over 0..400 rows against rbrows.run, non-trivial = the history closes the reader or seeks to or past the end; (dictskip) histories of SeekToRow / ReadPage / ReadDictionary / lazy index load on chunks of generated files (every codec x page version, native and parquet-mr style footers) with the decoder offset, page counter and cached-dictionary flag taken around every ReadPage against dictskip.run, non-trivial = a ReadPage starts on a dictionary page while the dictionary is cached")
	// 1. rowBufferRows
	{
		d := ctx.Driver()
		if d == nil {
			return
		}
		var cases []c08tRbCase
		for _, n := range []int{0, 1, 2, 3, 10, 171} {
			for _, t := range c08tRbFixed {
				cases = append(cases, c08tRbCase{n, c08tRbOps(t, n), "fixed: " + t})
			}
		}
		r := ctx.Rand("c08tie/rbrows")
		for k := ctx.Scale(1500, 20000); k > 0; k-- {
			n := []int{0, 1, 2, 3, 9, 33, 64, 65, 171, 400}[r.Intn(10)]
			cases = append(cases, c08tRbCase{n, c08tRbRandOps(r, n), "stream c08tie/rbrows"})
		}
		ctx.Sample(map[string]any{"rbrows": fmt.Sprintf("rows=%d ops=%s", cases[len(cases)-1].n, strings.Join(cases[len(cases)-1].ops, " "))})
		c08tRunRb(ctx, d, cases)
	}
	// 2. the dictionary page met again
	type task struct {
		c      *c08fChunk
		origin string
		stream string
		nhist  int
	}
	var tasks []task
	for _, codec := range gen.CodecNames {
		for ver := 1; ver <= 2; ver++ {
			for _, pb := range []int{80, 4096} {
				f, err := c08LocalFile(120, parquet.PageBufferSize(pb), parquet.DataPageVersion(ver), parquet.Compression(gen.Codecs[codec]), parquet.MaxRowsPerRowGroup(70))
				if err != nil {
					ctx.Fail("L1", "tie-dictskip-setup", "fixed file: "+err.Error(), map[string]any{"codec": codec, "version": ver})
					continue
				}
				f.desc = fmt.Sprintf("c08Row n=120 codec=%s v%d pagebuf=%d maxrows=70", codec, ver, pb)
				for _, layout := range []string{"native", "no-dict-offset", "no-dict-offset-no-index"} {
					cs, err := c08fChunksOf(f, layout, codec)
					if err != nil {
						ctx.Fail("L1", "tie-dictskip-setup", err.Error(), map[string]any{"file": f.desc})
						continue
					}
					for _, c := range cs {
						tasks = append(tasks, task{c, "fixed matrix", fmt.Sprintf("c08tie/fixed/%s/%d/%d/%s/%d/%d", codec, ver, pb, layout, c.rg, c.col), ctx.Scale(3, 10)})
					}
				}
			}
		}
	}
	nfiles := ctx.Scale(1, 6)
	for _, e := range gen.Catalog {
		r := ctx.Rand("c08tie/" + e.Name)
		for k := 0; k < nfiles; k++ {
			f, err := c08RandFile(e, r)
			if err != nil || f == nil {
				ctx.Hist("tie-dictskip-file", "unusable")
				continue
			}
			codec := "default"
			if i := strings.Index(f.desc, "codec="); i >= 0 {
				rest := f.desc[i+6:]
				if j := strings.IndexByte(rest, ' '); j > 0 {
					codec = rest[:j]
				}
			}
			layout := []string{"native", "no-dict-offset", "no-dict-offset-no-index"}[r.Intn(3)]
			cs, err := c08fChunksOf(f, layout, codec)
			if err != nil {
				ctx.Fail("L1", "tie-dictskip-setup", err.Error(), map[string]any{"file": f.desc})
				continue
			}
			sort.SliceStable(cs, func(i, j int) bool { return cs[i].hasDict && !cs[j].hasDict })
			if len(cs) > 4 {
				cs = cs[:4]
			}
			for _, c := range cs {
				tasks = append(tasks, task{c, fmt.Sprintf("stream c08tie/%s file #%d", e.Name, k), fmt.Sprintf("c08tie/%s/%d/%d/%d", e.Name, k, c.rg, c.col), 3})
			}
		}
	}
	var wg sync.WaitGroup
	ch := make(chan task)
	for w := 0; w < 16; w++ {
		wg.Add(1)
		go func() {
			defer wg.Done()
			d := ctx.Driver()
			if d == nil {
				for range ch {
				}
				return
			}
			for t := range ch {
				c08tSkipTask(ctx, d, t.c, t.origin, ctx.Rand(t.stream), t.nhist)
			}
		}()
	}
	for _, t := range tasks {
		ch <- t
	}
	close(ch)
	wg.Wait()
}
