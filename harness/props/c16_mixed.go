// C16, read side, sub-check "mixed": column chunks that MIX page kinds.
//
// A dictionary-encoded column whose dictionary outgrows DictionaryMaxBytes continues with PLAIN pages
// inside the same column chunk. The values of a dictionary page point into the dictionary, the values
// of a PLAIN page of a BYTE_ARRAY / FIXED_LEN_BYTE_ARRAY column point into the page's own (pooled)
// values buffer: what the row reader has to do with the buffer when it lets go of a page differs from
// page to page of ONE chunk, while its state (columnChunkValueReader) is per chunk. The catalogue
// histories (c16.go) write at most 300 short rows, so a chunk there hardly gets past its dictionary
// page, no page is large, and - the blind spot - they compare what the caller holds with a snapshot
// taken at hand-over: bytes that were already overwritten INSIDE the call that returned them (a batch
// spanning several pages: the reader lets go of page k while it fills the same batch from page k+1)
// are taken for the truth.
//
// Here the oracle is the file's content itself: every value of every row is a pure function of
// (column, row number) - c16MExpected - and everything the caller holds is compared with it at
// hand-over AND after every later call while its documented lifetime lasts (Go values and clones:
// forever; rows of ReadRows: until the next call on the same reader). Files: every byte-carrying
// column flavour (FLBA 40/16/12/8, BYTE_ARRAY; required, optional, repeated; dictionary and PLAIN
// side by side), thousands of rows, dictionary limits from 64 B, page buffers from 256 B to 16 KiB
// (pooled slices start at 4 KiB), several row groups; value domains "distinct" (the dictionary
// overflows after its first page), "phased" (several dictionary pages, then PLAIN), "small" (never
// overflows); batches from one row to the whole file; pool churn by big-page readers in between.
package props

import (
	"bytes"
	"fmt"
	"io"
	"math/rand"
	"strings"
	"sync"

	"github.com/parquet-go/parquet-go"

	"verifharness/core"
	"verifharness/gen"
)

func init() {
	RegisterSub("C16", "mixed", RunC16Mixed)
}

func RunC16Mixed(ctx *core.Ctx) {
	ctx.SetRule(c16MixedRule)
	c16RunIsolated(ctx, "mixed", "L1", c16MixedInProcess)
}

const c16MixedRule = "files of one hand-written 10-column struct (FIXED_LEN_BYTE_ARRAY(40/16/12/8/20) and BYTE_ARRAY leaves; required, optional, repeated; dictionary-encoded and PLAIN side by side) whose every value is a pure function of (column, row number, domain mode distinct/phased/small), 600..8192 rows x DictionaryMaxBytes 64..65536 x PageBufferSize 256..16384 x page version x codec x row-group limit x write batch, so that column chunks MIX dictionary pages with PLAIN fallback pages (shape of every chunk recorded) with poison-on-release active; read through GenericReader.Read, Read[T], Reader.Read/ReadRows, ReadRows of RowGroup.Rows / MultiRowGroup.Rows / MergeRowGroups (concatenating and merging by id) with batches of 1 row .. the whole file, SeekToRow, and pool churn by readers of big-page files in between; EVERY value the caller holds is compared with the written value at hand-over and after every later call within its lifetime (Go values and cloned rows forever, ReadRows rows until the next call on the same reader); non-trivial = a FIXED_LEN_BYTE_ARRAY chunk and a BYTE_ARRAY chunk each mix a dictionary page with >= 3 PLAIN pages and >= 2 hand-overs were held across later calls"

type c16MRow struct {
	ID  int64     `parquet:"id"`
	F40 [40]byte  `parquet:"f40,dict"`
	U   [16]byte  `parquet:"u,uuid,dict"`
	S   string    `parquet:"s,dict"`
	OB  []byte    `parquet:"ob,optional,dict"`
	OF  [12]byte  `parquet:"of,optional,dict"`
	LS  []string  `parquet:"ls,dict"`
	LF  [][8]byte `parquet:"lf,dict"`
	P   [20]byte  `parquet:"p"`
	Q   string    `parquet:"q"`
}

var c16MFields = []string{"id", "f40", "u", "s", "ob", "of", "ls", "lf", "p", "q"}

type c16MParams struct {
	n        int
	mode     [10]int // per column: 0 distinct, 1 phased (small domain for the first quarter), 2 small domain
	dictMax  int64
	pageBuf  int
	version  int
	codec    string
	maxRows  int64
	writeLen int
}

func (p *c16MParams) String() string {
	return fmt.Sprintf("c16MRow rows=%d modes(id,f40,u,s,ob,of,ls,lf,p,q)=%v DictionaryMaxBytes(%d) PageBufferSize(%d) v%d codec=%s MaxRowsPerRowGroup(%d) Write calls of %d rows (values: c16MExpected)",
		p.n, p.mode, p.dictMax, p.pageBuf, p.version, p.codec, p.maxRows, p.writeLen)
}

// c16MBytes: the bytes of column col (index into c16MFields), row i, element j. Never 0xA5, never all
// zero, the row number in it so that no two rows of a "distinct" column agree.
func c16MBytes(p *c16MParams, col, i, j, width int) []byte {
	k := uint64(i)
	switch p.mode[col] {
	case 1:
		if i < p.n/4 {
			k = uint64(i % 8)
		}
	case 2:
		k = uint64(i % 8)
	}
	s := fmt.Sprintf("%s-%08d.%d-%016x-", c16MFields[col], k, j, (k+1)*0x9E3779B97F4A7C15)
	if width == 0 {
		width = 6 + int(k%29) + 3*j
	}
	b := make([]byte, width)
	for x := range b {
		b[x] = s[(x+int(k))%len(s)]
	}
	b[0] = 'A' + byte(k%26)
	return b
}

// c16MExpected: row i as it was written (the oracle: independent of anything read back).
func c16MExpected(p *c16MParams, i int) (r c16MRow) {
	r.ID = int64(i)
	copy(r.F40[:], c16MBytes(p, 1, i, 0, 40))
	copy(r.U[:], c16MBytes(p, 2, i, 0, 16))
	r.S = string(c16MBytes(p, 3, i, 0, 0))
	if i%7 != 3 {
		r.OB = c16MBytes(p, 4, i, 0, 0)
	}
	if i%5 != 2 {
		copy(r.OF[:], c16MBytes(p, 5, i, 0, 12))
	}
	for j := 0; j < i%4; j++ {
		r.LS = append(r.LS, string(c16MBytes(p, 6, i, j, 0)))
	}
	for j := 0; j < (i/2)%3; j++ {
		var e [8]byte
		copy(e[:], c16MBytes(p, 7, i, j, 8))
		r.LF = append(r.LF, e)
	}
	copy(r.P[:], c16MBytes(p, 8, i, 0, 20))
	r.Q = string(c16MBytes(p, 9, i, 0, 0))
	return r
}

// c16MFieldsOf: per column the list of values of a Go row ("n" = null / empty list).
func c16MFieldsOf(r *c16MRow) (f [10][]string) {
	f[0] = []string{fmt.Sprint(r.ID)}
	f[1] = []string{string(r.F40[:])}
	f[2] = []string{string(r.U[:])}
	f[3] = []string{r.S}
	if r.OB == nil {
		f[4] = []string{"n"}
	} else {
		f[4] = []string{string(r.OB)}
	}
	if r.OF == ([12]byte{}) {
		f[5] = []string{"n"}
	} else {
		f[5] = []string{string(r.OF[:])}
	}
	f[6] = []string{"n"}
	if len(r.LS) > 0 {
		f[6] = append([]string(nil), r.LS...)
	}
	f[7] = []string{"n"}
	if len(r.LF) > 0 {
		f[7] = nil
		for k := range r.LF {
			f[7] = append(f[7], string(r.LF[k][:]))
		}
	}
	f[8] = []string{string(r.P[:])}
	f[9] = []string{r.Q}
	return f
}

// c16MFieldsOfRow: the same from a parquet row (column indexes = field order, checked by c16MFile,
// or mapped through the schema of the row reader: fieldOf[column index] = field).
func c16MFieldsOfRow(row parquet.Row, fieldOf *[10]int) (f [10][]string, ok bool) {
	for _, v := range row {
		c := v.Column()
		if c < 0 || c >= 10 {
			return f, false
		}
		if fieldOf != nil { // a view with its own schema (MergeRowGroups orders the columns by name)
			c = fieldOf[c]
		}
		switch {
		case v.IsNull():
			f[c] = append(f[c], "n")
		case c == 0:
			f[c] = append(f[c], fmt.Sprint(v.Int64()))
		default:
			f[c] = append(f[c], string(v.ByteArray()))
		}
	}
	return f, true
}

func c16MDiffer(a, b *[10][]string) int {
	for c := 0; c < 10; c++ {
		if len(a[c]) != len(b[c]) {
			return c
		}
		for k := range a[c] {
			if a[c][k] != b[c][k] {
				return c
			}
		}
	}
	return -1
}

type c16MFileInfo struct {
	p      *c16MParams
	file   []byte
	shape  [10]string // per column over all row groups: "dict", "plain", "mixed"
	plainN [10]int    // max number of PLAIN pages after a dictionary page in one chunk
	groups int
}

var c16MPhys = [10]string{"INT64", "FIXED_LEN_BYTE_ARRAY", "FIXED_LEN_BYTE_ARRAY", "BYTE_ARRAY", "BYTE_ARRAY", "FIXED_LEN_BYTE_ARRAY", "BYTE_ARRAY", "FIXED_LEN_BYTE_ARRAY", "FIXED_LEN_BYTE_ARRAY", "BYTE_ARRAY"}

func c16MFile(p *c16MParams) (fi *c16MFileInfo, err error) {
	defer func() {
		if x := recover(); x != nil {
			err = fmt.Errorf("panic: %v", x)
		}
	}()
	opts := []parquet.WriterOption{parquet.DictionaryMaxBytes(p.dictMax), parquet.PageBufferSize(p.pageBuf),
		parquet.DataPageVersion(p.version), parquet.Compression(gen.Codecs[p.codec])}
	if p.maxRows > 0 {
		opts = append(opts, parquet.MaxRowsPerRowGroup(p.maxRows))
	}
	var buf bytes.Buffer
	w := parquet.NewGenericWriter[c16MRow](&buf, opts...)
	rows := make([]c16MRow, 0, p.writeLen)
	for i := 0; i < p.n; {
		rows = rows[:0]
		for ; i < p.n && len(rows) < p.writeLen; i++ {
			rows = append(rows, c16MExpected(p, i))
		}
		if _, err := w.Write(rows); err != nil {
			return nil, err
		}
	}
	if err := w.Close(); err != nil {
		return nil, err
	}
	fi = &c16MFileInfo{p: p, file: buf.Bytes()}
	f, err := parquet.OpenFile(bytes.NewReader(fi.file), int64(len(fi.file)))
	if err != nil {
		return nil, err
	}
	for c, name := range c16MFields {
		leaf, ok := f.Schema().Lookup(name)
		if !ok || leaf.ColumnIndex != c {
			return nil, fmt.Errorf("column %s is not column %d of the schema", name, c)
		}
	}
	fi.groups = len(f.RowGroups())
	for _, rg := range f.RowGroups() {
		for c, cc := range rg.ColumnChunks() {
			dict, plain, plainAfterDict := 0, 0, 0
			pages := cc.Pages()
			for {
				pg, err := pages.ReadPage()
				if err != nil {
					break
				}
				if pg.Dictionary() != nil {
					dict++
				} else {
					plain++
					if dict > 0 {
						plainAfterDict++
					}
				}
				parquet.Release(pg)
			}
			pages.Close()
			s := "plain"
			switch {
			case dict > 0 && plain > 0:
				s = "mixed"
			case dict > 0:
				s = "dict"
			}
			if fi.shape[c] == "" || s == "mixed" { // mixed in any row group; else the first group's shape
				fi.shape[c] = s
			}
			if plainAfterDict > fi.plainN[c] {
				fi.plainN[c] = plainAfterDict
			}
		}
	}
	return fi, nil
}

// ---------------------------------------------------------------- churn by readers of big pages

var c16MChurn struct {
	once  sync.Once
	files [][]byte
}

func c16MChurnRun(r *rand.Rand) {
	c16MChurn.once.Do(func() {
		for _, pb := range []int{4096, 8192, 16384} {
			p := &c16MParams{n: 3000, dictMax: 2048, pageBuf: pb, version: 2, codec: "none", writeLen: 500}
			if fi, err := c16MFile(p); err == nil {
				c16MChurn.files = append(c16MChurn.files, fi.file)
			}
		}
	})
	if len(c16MChurn.files) == 0 {
		return
	}
	file := c16MChurn.files[r.Intn(len(c16MChurn.files))]
	func() {
		defer func() { recover() }()
		gr := parquet.NewGenericReader[c16MRow](bytes.NewReader(file))
		defer gr.Close()
		tmp := make([]c16MRow, 700)
		for {
			if _, err := gr.Read(tmp); err != nil {
				break
			}
		}
	}()
	func() {
		defer func() { recover() }()
		gen.ReadRowsColumns(file, 1000)
	}()
}

// ---------------------------------------------------------------- what the caller holds

type c16MHeld struct {
	api     string
	what    string
	first   int           // row number of element 0
	goRows  []c16MRow     // Go values (forever)
	rows    []parquet.Row // parquet rows (until dropped by the history)
	fieldOf *[10]int      // column index -> field; nil = identity
	done    bool
}

type c16MHist struct {
	ctx   *core.Ctx
	fi    *c16MFileInfo
	ops   []string
	held  []*c16MHeld
	fails int
}

func (h *c16MHist) op(format string, a ...any) { h.ops = append(h.ops, fmt.Sprintf(format, a...)) }

func (h *c16MHist) check(x *c16MHeld, stage string, atHandover bool) {
	if x.done {
		return
	}
	n := len(x.goRows)
	if x.rows != nil {
		n = len(x.rows)
	}
	for k := 0; k < n; k++ {
		exp := c16MExpected(h.fi.p, x.first+k)
		ef := c16MFieldsOf(&exp)
		var gf [10][]string
		if x.rows != nil {
			var ok bool
			if gf, ok = c16MFieldsOfRow(x.rows[k], x.fieldOf); !ok {
				gf = [10][]string{}
			}
		} else {
			gf = c16MFieldsOf(&x.goRows[k])
		}
		c := c16MDiffer(&ef, &gf)
		if c < 0 {
			continue
		}
		x.done = true
		h.fails++
		when := "after-later-activity"
		if atHandover {
			when = "at-handover"
		}
		poisoned := false
		for _, s := range gf[c] {
			if strings.Contains(s, "\xa5\xa5\xa5\xa5") {
				poisoned = true
			}
		}
		key := fmt.Sprintf("mixed:value-differs-from-written:%s:%s:%s<-%s:%s-chunk", when, x.api, map[bool]string{true: "row", false: "go-value"}[x.rows != nil], c16MPhys[c], h.fi.shape[c])
		h.ctx.Fail("L1", key,
			fmt.Sprintf("%s: element %d (row %d of the file), column %s, differs from the value that was written, %s (%s)", x.what, k, x.first+k, c16MFields[c], stage, when),
			map[string]any{"file": h.fi.p.String(), "history": h.ops, "handed_over_by": x.what, "stage": stage, "row": x.first + k, "column": c16MFields[c],
				"chunk_shapes": fmt.Sprint(h.fi.shape), "plain_pages_after_dictionary": fmt.Sprint(h.fi.plainN), "row_groups": h.fi.groups,
				"written": fmt.Sprintf("%q", ef[c]), "held": c16Trunc(fmt.Sprintf("%q", gf[c])), "held_is_poison_0xA5": poisoned})
		return
	}
}

func (h *c16MHist) handover(x *c16MHeld) {
	h.check(x, "when the call returned", true)
	h.held = append(h.held, x)
}

func (h *c16MHist) verify(stage string) {
	for _, x := range h.held {
		h.check(x, stage, false)
	}
}

// drop ends the lifetime of parquet rows (next call on the same reader); their clones stay
func (h *c16MHist) drop(x *c16MHeld) {
	for i, y := range h.held {
		if y == x {
			h.held = append(h.held[:i], h.held[i+1:]...)
			return
		}
	}
}

func c16MixedInProcess(ctx *core.Ctx) {
	ctx.SetRule(c16MixedRule)
	c16PoisonSelfTest(ctx)
	ncases := ctx.Scale(3, 12)
	var wg sync.WaitGroup
	for wkr := 0; wkr < 16; wkr++ {
		wg.Add(1)
		go func(wkr int) {
			defer wg.Done()
			r := ctx.Rand(fmt.Sprintf("c16/mixed/%d", wkr))
			for k := 0; k < ncases; k++ {
				c16MixedCase(ctx, r, wkr, k)
			}
		}(wkr)
	}
	wg.Wait()
}

func c16MixedCase(ctx *core.Ctx, r *rand.Rand, wkr, k int) {
	p := &c16MParams{}
	shapes := [][2]int{{600, 256}, {600, 1024}, {2500, 1024}, {2500, 4096}, {8192, 4096}, {8192, 8192}, {8192, 16384}, {5000, 8192}}
	sh := shapes[(wkr+k)%len(shapes)]
	p.n, p.pageBuf = sh[0], sh[1]
	for c := range p.mode {
		p.mode[c] = []int{0, 0, 1, 1, 2}[r.Intn(5)]
	}
	p.dictMax = []int64{64, 1024, 4096, 4096, 65536}[r.Intn(5)]
	p.version = 1 + r.Intn(2)
	p.codec = []string{"none", "none", "snappy", "zstd", "gzip", "lz4"}[r.Intn(6)]
	if r.Intn(3) == 0 {
		p.maxRows = int64(p.n/2 + 1 + r.Intn(p.n/4))
	}
	p.writeLen = []int{64, 1000, p.n}[r.Intn(3)]
	h := &c16MHist{ctx: ctx}
	defer c16Recover(ctx, "mixed-chunk history", func(m map[string]any) map[string]any {
		m["file"], m["history"] = p.String(), h.ops
		return m
	})
	fi, err := c16MFile(p)
	if err != nil {
		ctx.Hist("mixed", "write-error")
		ctx.Fail("L2", "mixed:cannot-write-file", "the file of the mixed-chunk histories could not be written or re-opened: "+err.Error(), map[string]any{"file": p.String()})
		return
	}
	h.fi = fi
	flbaMixed, baMixed := false, false
	for c := 1; c < 10; c++ {
		ctx.Hist("mixed-chunk-shape", c16MFields[c]+"("+c16MPhys[c]+"):"+fi.shape[c])
		if fi.shape[c] == "mixed" {
			ctx.Hist("mixed-plain-pages-after-dictionary", c16Bucket(fi.plainN[c]))
			if fi.plainN[c] >= 3 {
				if c16MPhys[c] == "BYTE_ARRAY" {
					baMixed = true
				} else {
					flbaMixed = true
				}
			}
		}
	}
	ctx.Hist("mixed-pagebuf", fmt.Sprint(p.pageBuf))
	ctx.Hist("mixed-rowgroups", fmt.Sprint(fi.groups))
	size := int64(len(fi.file))
	batches := []int{1, 3, 64, 700, 3000, p.n}
	handovers := 0

	// (1) GenericReader.Read into fresh batches, all of them kept
	func() {
		gr := parquet.NewGenericReader[c16MRow](bytes.NewReader(fi.file))
		pos := 0
		for i := 0; i < 8; i++ {
			switch r.Intn(6) {
			case 0:
				pos = r.Intn(p.n)
				if err := gr.SeekToRow(int64(pos)); err != nil {
					h.op("GenericReader.SeekToRow(%d)=%v", pos, err)
					return
				}
				h.op("GenericReader.SeekToRow(%d)", pos)
				h.verify("GenericReader.SeekToRow")
				continue
			case 1:
				c16MChurnRun(r)
				h.op("churn(big pages)")
				h.verify("readers of other files churning the pools")
				continue
			}
			bl := batches[r.Intn(len(batches))]
			batch := make([]c16MRow, bl)
			got, err := gr.Read(batch)
			h.op("GenericReader.Read(%d)=%d", bl, got)
			ctx.Hist("mixed-batch", "Read:"+c16Bucket(got))
			h.verify("a later GenericReader.Read")
			if got > 0 {
				h.handover(&c16MHeld{api: "GenericReader.Read", what: fmt.Sprintf("GenericReader.Read(%d)=%d from row %d", bl, got, pos), first: pos, goRows: batch[:got]})
				handovers++
				pos += got
			}
			if err != nil {
				break
			}
		}
		gr.Close()
		h.op("GenericReader.Close")
		h.verify("GenericReader.Close")
	}()

	// (2) row readers: every row group's Rows(), or all of them through MultiRowGroup
	func() {
		f, err := parquet.OpenFile(bytes.NewReader(fi.file), size)
		if err != nil {
			return
		}
		type src struct {
			name  string
			rows  parquet.Rows
			first int
			n     int
		}
		var srcs []src
		perGroup := func() {
			first := 0
			for g, rg := range f.RowGroups() {
				srcs = append(srcs, src{fmt.Sprintf("RowGroup[%d].Rows", g), rg.Rows(), first, int(rg.NumRows())})
				first += int(rg.NumRows())
			}
		}
		// views over the file's row groups keep the file order: MultiRowGroup and MergeRowGroups without
		// sorting columns concatenate; merging by the ascending id column goes through the merge
		// readers (which buffer rows of every input across calls) and yields the same order
		switch r.Intn(5) {
		case 0:
			srcs = append(srcs, src{"MultiRowGroup.Rows", parquet.MultiRowGroup(f.RowGroups()...).Rows(), 0, p.n})
		case 1:
			if m, err := parquet.MergeRowGroups(f.RowGroups()); err == nil {
				srcs = append(srcs, src{"MergeRowGroups(concatenation).Rows", m.Rows(), 0, p.n})
			} else {
				perGroup()
			}
		case 2:
			if m, err := parquet.MergeRowGroups(f.RowGroups(), parquet.SortingRowGroupConfig(parquet.SortingColumns(parquet.Ascending("id")))); err == nil {
				srcs = append(srcs, src{"MergeRowGroups(sorted by id).Rows", m.Rows(), 0, p.n})
			} else {
				perGroup()
			}
		default:
			perGroup()
		}
		ctx.Hist("mixed-row-source", strings.SplitN(srcs[0].name, "[", 2)[0])
		for _, s := range srcs {
			pos := 0
			var fieldOf *[10]int
			if sch := s.rows.Schema(); sch != nil {
				var m [10]int
				for c, name := range c16MFields {
					leaf, ok := sch.Lookup(name)
					if !ok || leaf.ColumnIndex < 0 || leaf.ColumnIndex >= 10 {
						h.ctx.Fail("L2", "mixed:view-schema-lacks-column", s.name+": the schema of the row reader has no column "+name, map[string]any{"file": p.String()})
						return
					}
					m[leaf.ColumnIndex] = c
				}
				fieldOf = &m
			}
			var pending *c16MHeld
			for i := 0; i < 7; i++ {
				if r.Intn(5) == 0 {
					c16MChurnRun(r)
					h.op("churn(big pages)")
					h.verify("readers of other files churning the pools")
				}
				if pending != nil { // the lifetime of the previous rows ends with the next call
					h.check(pending, "just before the next call on the same reader", false)
					h.drop(pending)
					pending = nil
				}
				if r.Intn(6) == 0 {
					pos = r.Intn(s.n)
					if err := s.rows.SeekToRow(int64(pos)); err != nil {
						break
					}
					h.op("%s.SeekToRow(%d)", s.name, pos)
					h.verify(s.name + ".SeekToRow")
					continue
				}
				bl := []int{1, 10, 500, 5000, p.n}[r.Intn(5)]
				prow := make([]parquet.Row, bl)
				got, err := s.rows.ReadRows(prow)
				h.op("%s.ReadRows(%d)=%d", s.name, bl, got)
				ctx.Hist("mixed-batch", "ReadRows:"+c16Bucket(got))
				h.verify("a later " + s.name + ".ReadRows")
				if got > 0 {
					pending = &c16MHeld{api: "ReadRows", what: fmt.Sprintf("%s.ReadRows(%d)=%d from row %d", s.name, bl, got, s.first+pos), first: s.first + pos, rows: prow[:got], fieldOf: fieldOf}
					h.handover(pending)
					handovers++
					if got <= 700 || r.Intn(3) == 0 {
						cl := make([]parquet.Row, got)
						for j := range cl {
							cl[j] = prow[j].Clone()
						}
						h.handover(&c16MHeld{api: "Row.Clone", what: "clones of the rows of " + pending.what, first: s.first + pos, rows: cl, fieldOf: fieldOf})
					}
					pos += got
				}
				if err != nil {
					break
				}
			}
			if pending != nil {
				c16MChurnRun(r)
				h.check(pending, "after pool churn, before the next call on the same reader", false)
				h.drop(pending)
			}
			s.rows.Close()
			h.op("%s.Close", s.name)
			h.verify(s.name + ".Close")
		}
	}()

	// (3) the deprecated Reader: Read(&row) and ReadRows
	func() {
		rd := parquet.NewReader(bytes.NewReader(fi.file))
		pos := 0
		if r.Intn(2) == 0 {
			pos = r.Intn(p.n)
			if rd.SeekToRow(int64(pos)) != nil {
				return
			}
			h.op("Reader.SeekToRow(%d)", pos)
		}
		for i := 0; i < 3; i++ {
			one := make([]c16MRow, 1)
			if err := rd.Read(&one[0]); err != nil {
				break
			}
			h.op("Reader.Read(&row)")
			h.handover(&c16MHeld{api: "Reader.Read", what: fmt.Sprintf("Reader.Read(&row) of row %d", pos), first: pos, goRows: one})
			pos++
		}
		prow := make([]parquet.Row, 1200)
		got, _ := rd.ReadRows(prow)
		h.op("Reader.ReadRows(1200)=%d", got)
		h.verify("Reader.ReadRows")
		var pending *c16MHeld
		if got > 0 {
			pending = &c16MHeld{api: "ReadRows", what: fmt.Sprintf("Reader.ReadRows(1200)=%d from row %d", got, pos), first: pos, rows: prow[:got]}
			h.handover(pending)
			handovers++
			c16MChurnRun(r)
			h.check(pending, "after pool churn, before the next call on the same reader", false)
			h.drop(pending)
		}
		rd.Close()
		h.op("Reader.Close")
		h.verify("Reader.Close")
	}()

	// (4) Read[T] of the whole file
	func() {
		all, err := parquet.Read[c16MRow](bytes.NewReader(fi.file), size)
		if err != nil && err != io.EOF {
			h.op("Read[T]=%v", err)
			return
		}
		h.op("Read[T]=%d", len(all))
		h.handover(&c16MHeld{api: "Read[T]", what: "parquet.Read[T] of the whole file", first: 0, goRows: all})
		handovers++
	}()

	c16MChurnRun(r)
	c16Churn(r, 2)
	h.op("churn")
	h.verify("Close of all readers and pool churn by unrelated readers and writers")
	ctx.HistN("mixed-handovers", "held", int64(len(h.held)))
	ctx.Hist("mixed", "ran")
	if wkr == 0 && k == 0 {
		ctx.Sample(map[string]any{"file": p.String(), "chunk_shapes": fmt.Sprint(fi.shape), "plain_pages_after_dictionary": fmt.Sprint(fi.plainN), "history": h.ops})
	}
	c16Count(ctx, "mixed|"+p.String()+"|"+strings.Join(h.ops, ","), flbaMixed && baMixed && handovers >= 2)
}
