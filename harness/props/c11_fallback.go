package props

import (
	"bytes"
	"fmt"
	"math/rand"
	"strings"
	"sync"

	"github.com/parquet-go/parquet-go"
	"github.com/parquet-go/parquet-go/encoding/thrift"
	"github.com/parquet-go/parquet-go/format"

	"verifharness/core"
	"verifharness/gen"
)

// C11, sub-check fallback — the destination's dictionary size limit against sources whose chunks
// fell back from their dictionary in the middle of the chunk.
//
// A chunk written under DictionaryMaxBytes(L) holds a dictionary page, dictionary-encoded data
// pages and, once the dictionary exceeded L, PLAIN data pages. Whether such a chunk may appear in a
// file written under configuration B is a matter of B's own limit (config.go: "When a column's
// dictionary exceeds this limit, that column will switch from dictionary encoding to PLAIN encoding
// for the remainder of the row group"; 0 = unlimited). The row path applies B's limit; so must every
// path of WriteRowGroup.
//
// Oracle clause (L1, c11DictLimitSettings, called from c11Run for EVERY case of every sub-check
// next to the other settings clauses): in the output, a chunk with a dictionary page may hold PLAIN
// data pages only if B sets a limit L > 0 and the chunk's dictionary is larger than L (the plain
// encoded dictionary page is never smaller than the figure the limit is compared with), and no
// dictionary-encoded data page follows a PLAIN one. A file written row by row under B that breaks
// the clause itself excuses the column (histogram only).
//
// Generator (this sub-check): the source configuration gets a small dictionary limit and small
// pages so that dictionary leaves overflow after a few pages; the destination is the source
// configuration with the dictionary limit alone changed (none / larger / smaller / equal), in one
// case in four with one more axis of c11CfgLike changed. Source kinds that hand file chunks to
// WriteRowGroup: file, range, multi, multi-nested, foreign (wrapper, row path).
func init() { RegisterSub("C11", "fallback", RunC11Fallback) }

// c11DictMax: the DictionaryMaxBytes a configuration's options amount to (0 = unlimited)
func c11DictMax(cfg *c11Cfg) int64 {
	wc := parquet.DefaultWriterConfig()
	func() {
		defer func() { _ = recover() }()
		wc.Apply(cfg.Opts...)
	}()
	return wc.DictionaryMaxBytes
}

// c11DictPageBytes: uncompressed size of the dictionary page of a chunk, from its page header in
// the raw file; -1 = no dictionary page / header not decodable (encrypted file)
func c11DictPageBytes(file []byte, c *c11Chunk) int64 {
	if !c.HasDict || c.DictOff <= 0 || c.DictOff >= int64(len(file)) {
		return -1
	}
	var h format.PageHeader
	p := thrift.CompactProtocol{}
	if e := thrift.NewDecoder(p.NewReader(bytes.NewReader(file[c.DictOff:]))).Decode(&h); e != nil || h.Type != format.DictionaryPage {
		return -1
	}
	return int64(h.UncompressedPageSize)
}

func c11IsDictEnc(e int) bool {
	return e == int(format.RLEDictionary) || e == int(format.PlainDictionary)
}

// c11FallbackShape: data pages of a chunk by encoding, in order: dictionary-encoded pages, PLAIN
// pages, and whether a dictionary-encoded page follows a PLAIN one
func c11FallbackShape(c *c11Chunk) (dictPages, plainPages int, dictAfterPlain bool) {
	for _, p := range c.Pages {
		switch {
		case c11IsDictEnc(p.Enc):
			dictPages++
			if plainPages > 0 {
				dictAfterPlain = true
			}
		case p.Enc == int(format.Plain):
			plainPages++
		}
	}
	return
}

// c11DictLimitViolations judges one file written under the limit L: column -> first violation
func c11DictLimitViolations(L int64, file []byte, info [][]c11Chunk, ncol int) map[int]string {
	out := map[int]string{}
	for gi, rg := range info {
		for ci := range rg {
			if ci >= ncol || out[ci] != "" {
				continue
			}
			c := &rg[ci]
			if !c.HasDict || len(c.Pages) == 0 {
				continue
			}
			dp, pp, dap := c11FallbackShape(c)
			if pp == 0 {
				continue
			}
			u := c11DictPageBytes(file, c)
			where := fmt.Sprintf("row group %d: dictionary page of %d values / %d bytes, %d dictionary-encoded data pages, %d PLAIN data pages", gi, c.DictLen, u, dp, pp)
			switch {
			case L <= 0:
				out[ci] = "fallback-without-limit: PLAIN data pages in a chunk with a dictionary although the writer sets no DictionaryMaxBytes (" + where + ")"
			case c.Type != int(format.Boolean) && u >= 0 && u <= L:
				out[ci] = fmt.Sprintf("fallback-below-limit: PLAIN data pages in a chunk whose dictionary does not exceed DictionaryMaxBytes %d (%s)", L, where)
			case dap:
				out[ci] = fmt.Sprintf("dictionary-page-after-fallback: a dictionary-encoded data page follows a PLAIN one, DictionaryMaxBytes %d (%s)", L, where)
			}
		}
	}
	return out
}

// c11DictLimitSettings: the settings clause for DictionaryMaxBytes; `got` written through
// WriteRowGroup under b, `ref` the same rows one by one under b. One aspect per column.
func c11DictLimitSettings(ctx *core.Ctx, b *c11Cfg, gotFile []byte, got [][]c11Chunk, refFile []byte, ref [][]c11Chunk, ncol int) (aspects []string) {
	if b.Enc {
		return nil // page headers sealed
	}
	L := c11DictMax(b)
	g := c11DictLimitViolations(L, gotFile, got, ncol)
	if len(g) == 0 {
		return nil
	}
	r := c11DictLimitViolations(L, refFile, ref, ncol)
	for ci := 0; ci < ncol; ci++ {
		v := g[ci]
		if v == "" {
			continue
		}
		if r[ci] != "" && aspectClass(r[ci]) == aspectClass(v) {
			ctx.Hist("dictionary-limit-not-honoured-on-row-path-too", aspectClass(v))
			continue
		}
		aspects = append(aspects, fmt.Sprintf("dictionary-limit-%s (col%d)", v, ci))
	}
	return
}

// c11MixedChunks counts the file chunks of the sources that hold dictionary-encoded and PLAIN pages
func c11MixedChunks(env *c11Env) (mixed, dict int) {
	for _, c := range env.chunkOf {
		if !c.HasDict {
			continue
		}
		dict++
		if dp, pp, _ := c11FallbackShape(c); dp > 0 && pp > 0 {
			mixed++
		}
	}
	return
}

func c11FallbackOpt(rf *rand.Rand, schema *parquet.Schema) *c11BuildOpt {
	dmA := []int64{1, 16, 48, 100, 200, 1000}[rf.Intn(6)]
	pbA := []int{16, 48, 200, 1024}[rf.Intn(4)]
	mode := rf.Intn(5)
	also := rf.Intn(4) == 0
	return &c11BuildOpt{
		tweakA: func(a *c11Cfg) {
			a.Opts = append(a.Opts, parquet.DictionaryMaxBytes(dmA), parquet.PageBufferSize(pbA))
			a.Desc += fmt.Sprintf(" dictmax:=%d pagebuf:=%d", dmA, pbA)
			if a.MaxRows > 0 && a.MaxRows < 8 { // chunks of a handful of values have one page
				a.MaxRows = 0
				a.Opts = append(a.Opts, parquet.MaxRowsPerRowGroup(1<<40))
				a.Desc += " maxrows:=unbounded"
			}
		},
		makeB: func(r *rand.Rand, a *c11Cfg) *c11Cfg {
			base := a
			if also {
				base = c11CfgLike(r, a, schema)
			}
			nb := *base
			var dm int64
			switch mode {
			case 0, 1:
				dm = 0 // unlimited (the default)
			case 2:
				dm = dmA * int64(2+r.Intn(60))
			case 3:
				dm = 1 + dmA/int64(2+r.Intn(3))
				if dm >= dmA {
					dm = dmA // a limit of 1 cannot shrink
				}
			default:
				dm = dmA
			}
			nb.Opts = append(append([]parquet.WriterOption{}, base.Opts...), parquet.DictionaryMaxBytes(dm))
			if also {
				nb.Desc = base.Desc + fmt.Sprintf(" dictmax:=%d", dm)
			} else {
				nb.Desc = a.Desc + fmt.Sprintf(" | like-A dictmax:=%d", dm)
			}
			return &nb
		},
	}
}

func RunC11Fallback(ctx *core.Ctx) {
	ctx.SetRule("catalogue struct types with a dictionary leaf x random rows (100/257/600) x source configuration A with DictionaryMaxBytes 1..1000 and PageBufferSize 16..1024 (chunks that fall back from their dictionary in the middle: dictionary page + RLE_DICTIONARY pages + PLAIN pages) x destination = A with the dictionary limit alone changed (unlimited / larger / smaller / equal; one case in four with one more axis of c11CfgLike) x source kind {file, range, multi, multi-nested, foreign}; every oracle of sub-check paths (rows/order, settings incl. the dictionary limit clause, path counters vs Lean plan, splice L2); non-trivial = at least 2 rows and A differs from B; histogram fallback-source says how many cases hold a source chunk with dictionary-encoded and PLAIN data pages")
	var entries []*gen.Entry
	for _, e := range gen.Catalog {
		if len(c11DictLeaves(e.Schema)) > 0 {
			entries = append(entries, e)
		}
	}
	ctx.Hist("catalogue-types-with-dictionary-leaf", fmt.Sprint(len(entries)))
	if len(entries) == 0 {
		return
	}
	kinds := []string{"file", "range", "multi", "multi-nested", "foreign"}
	total := ctx.Scale(160, 1200) // cases over all types
	per := total/(len(entries)*len(kinds)) + 1
	var wg sync.WaitGroup
	sem := make(chan struct{}, 16)
	for _, e := range entries {
		wg.Add(1)
		sem <- struct{}{}
		go func(e *gen.Entry) {
			defer wg.Done()
			defer func() { <-sem }()
			d := ctx.Driver()
			rf := ctx.Rand("c11-fallback-limit/" + e.Name)
			for _, kind := range kinds {
				for k := 0; k < per; k++ {
					opt := c11FallbackOpt(rf, e.Schema)
					env := &c11Env{chunkOf: map[*parquet.FileColumnChunk]*c11Chunk{}}
					var c *c11Case
					func() {
						defer func() {
							if rec := recover(); rec != nil {
								ctx.Fail("L1", "panic-building-source kind="+kind, fmt.Sprintf("building the source row group panicked: %v", rec), map[string]any{"type": e.Name, "kind": kind})
							}
						}()
						c = c11Build(ctx, env, e, rf, kind, []int{100, 257, 600}[rf.Intn(3)], opt)
					}()
					if c == nil {
						continue
					}
					mixed, dict := c11MixedChunks(env)
					la, lb := c11DictMax(c.a), c11DictMax(c.b)
					rel := "equal"
					switch {
					case lb == 0:
						rel = "destination-unlimited"
					case lb > la:
						rel = "destination-larger"
					case lb < la:
						rel = "destination-smaller"
					}
					ctx.Hist("fallback-source", fmt.Sprintf("kind=%s mixed-chunks=%v dictionary-chunks=%v limit=%s", kind, mixed > 0, dict > 0, rel))
					if mixed == 0 && strings.Contains(c.b.Desc, "like-A") {
						// nothing fell back: the case is an ordinary like-A case of sub-check paths
						ctx.Hist("fallback-source-without-mixed-chunk", kind)
					}
					if d == nil {
						c11Run(ctx, env, nil, c, false)
					} else {
						c11Run(ctx, env, d, c, false)
					}
				}
			}
		}(e)
	}
	wg.Wait()
}
