package props

// C14, sub-check `copysrc` — source-side faults on the WriteRowGroup path.
//
// A row group of a source file (read through a faulting io.ReaderAt) is handed to
// Writer.WriteRowGroup: verbatim copy of the column chunks (`w.writer.ReadFrom(io.NewSectionReader(
// source, …))` for the dictionary page, the data pages and the bloom filter), column-wise re-encoding
// when the options differ, and the row path (CopyRows) for a row group that is not file-backed.
// L1 (from the property statement: "any error or short read from the source io.ReaderAt surfaces as
// an error rather than as missing or altered rows"): for every ReadAt call index of open + copy and
// every fault (error, short read with error, short read with io.EOF — cut at half, 0, 1, len-1 and at
// page boundaries —, sticky), either some call of OpenFile / WriteRowGroup / Close reports an error,
// or the output file is byte-identical to the fault-free output; no call panics.
// L2: the copy site itself (`copySection` of writer.go through the hook VerifCopySection) against
// the Lean mirror `IoFaultSrc.copySection` (`io.copysrc`), over sink faults x source faults.

import (
	"bytes"
	"fmt"
	"io"
	"strings"
	"sync"

	"github.com/parquet-go/parquet-go"

	"verifharness/core"
	"verifharness/gen"
)

func init() { RegisterSub("C14", "copysrc", RunC14CopySrc) }

type c14CopyCase struct {
	name     string
	desc     string
	kind     string // verbatim | reencode | rows: the path WriteRowGroup is expected to take
	src      []byte
	dst      []parquet.WriterOption
	wrap     bool // hide the file-backed row group behind a plain RowGroup (forces the row path)
	bounds   []int64
	only     bool
	onlyN    int
	onlyMode string
	onlyKeep int
	onlyBuf  bool
}

// c14WrapRG hides the concrete type of a file row group
type c14WrapRG struct{ parquet.RowGroup }

func c14CopyCases(ctx *core.Ctx) []*c14CopyCase {
	r := ctx.Rand("c14/copysrc/cases")
	rows := c14Rows(r, 40)
	bloom := parquet.BloomFilters(parquet.SplitBlockFilter(10, "s"), parquet.SplitBlockFilter(8, "k"))
	write := func(opts ...parquet.WriterOption) []byte {
		var b bytes.Buffer
		w := parquet.NewGenericWriter[c14Row](&b, opts...)
		if _, err := w.Write(rows); err != nil {
			panic(err)
		}
		if err := w.Close(); err != nil {
			panic(err)
		}
		return b.Bytes()
	}
	base := []parquet.WriterOption{parquet.MaxRowsPerRowGroup(14), parquet.PageBufferSize(200)}
	plain := write(base...)
	withBloom := write(append(append([]parquet.WriterOption{}, base...), bloom)...)
	var dict []byte
	{
		drows := make([]c14Dict, 300)
		for i := range drows {
			drows[i].Name = fmt.Sprintf("value-%03d", i%37)
		}
		var b bytes.Buffer
		w := parquet.NewGenericWriter[c14Dict](&b, parquet.PageBufferSize(64))
		for i := 0; i < len(drows); i += 20 {
			w.Write(drows[i : i+20])
		}
		w.Close()
		dict = b.Bytes()
	}
	var out []*c14CopyCase
	add := func(name, kind, desc string, src []byte, wrap bool, dst ...parquet.WriterOption) {
		c := &c14CopyCase{name: name, kind: kind, desc: desc, src: src, dst: dst, wrap: wrap}
		c.bounds = c14PageBounds(&c14File{data: src})
		out = append(out, c)
	}
	add("verbatim", "verbatim", "c14Row 3 row groups, same options", plain, false, base...)
	add("verbatim-bloom", "verbatim", "c14Row 3 row groups with bloom filters, same options", withBloom, false,
		append(append([]parquet.WriterOption{}, base...), bloom)...)
	add("verbatim-bloom-deferred", "verbatim", "c14Row 3 row groups with bloom filters, destination defers them (memory pool)", withBloom, false,
		append(append([]parquet.WriterOption{}, base...), bloom, parquet.DeferBloomFiltersWithBuffers(parquet.NewBufferPool()))...)
	add("verbatim-dict", "verbatim", "c14Dict 1 row group, 15 pages, dictionary, same options", dict, false, parquet.PageBufferSize(64))
	add("reencode-v1", "reencode", "c14Row 3 row groups, destination writes data pages v1", plain, false,
		append(append([]parquet.WriterOption{}, base...), parquet.DataPageVersion(1))...)
	add("reencode-v1-bloom", "reencode", "c14Row 3 row groups with bloom filters, destination writes data pages v1 and its own filters", withBloom, false,
		append(append([]parquet.WriterOption{}, base...), parquet.DataPageVersion(1), bloom)...)
	add("reencode-dict-v1", "reencode", "c14Dict, destination writes data pages v1", dict, false, parquet.PageBufferSize(64), parquet.DataPageVersion(1))
	add("rows", "rows", "c14Row 3 row groups behind a plain RowGroup (CopyRows path)", plain, true, base...)
	add("rows-dict", "rows", "c14Dict behind a plain RowGroup (CopyRows path)", dict, true, parquet.PageBufferSize(64))
	return out
}

// c14CopyRun opens the source through x and writes every row group of it to a new file.
// class: open-error | write-error | panic | ok
func c14CopyRun(cs *c14CopyCase, x io.ReaderAt, buffered bool) (class string, out []byte, err error) {
	defer func() {
		if p := recover(); p != nil {
			class, err = "panic", fmt.Errorf("%v | %s", p, c14Stack())
		}
	}()
	f, err := parquet.OpenFile(x, int64(len(cs.src)))
	if err != nil {
		return "open-error", nil, err
	}
	var buf bytes.Buffer
	opts := append([]parquet.WriterOption{f.Schema()}, cs.dst...)
	if buffered {
		opts = append(opts, parquet.WriteBufferSize(parquet.DefaultWriteBufferSize))
	} else {
		opts = append(opts, parquet.WriteBufferSize(0))
	}
	w := parquet.NewWriter(&buf, opts...)
	for _, rg := range f.RowGroups() {
		if cs.wrap {
			rg = c14WrapRG{rg}
		}
		if _, err := w.WriteRowGroup(rg); err != nil {
			// the caller's `defer w.Close()`: a panic there comes after the error was reported
			func() {
				defer func() {
					if p := recover(); p != nil {
						err = fmt.Errorf("%w [then Close panics: %v | %s]", err, p, c14Stack())
						class = "write-error+close-panics"
					}
				}()
				w.Close()
			}()
			if class == "" {
				class = "write-error"
			}
			return class, nil, err
		}
	}
	if err := w.Close(); err != nil {
		return "write-error", nil, err
	}
	return "ok", buf.Bytes(), nil
}

func RunC14CopySrc(ctx *core.Ctx) {
	ctx.SetRule(c14Rule)
	rp := c14LoadReplay(ctx)
	if rp != nil {
		if strings.HasPrefix(rp.str("request"), "io.copysrc ") {
			c14CopySiteL2(ctx, rp.str("request"))
			return
		}
		if _, ok := rp.num("source_failing_call"); !ok {
			return
		}
	}
	cases := c14CopyCases(ctx)
	var wg sync.WaitGroup
	sem := make(chan struct{}, 16)
	for ci, cs := range cases {
		if rp != nil {
			if cs.name != rp.str("name") {
				continue
			}
			cs.only = true
			cs.onlyN, _ = rp.num("source_failing_call")
			cs.onlyMode = rp.str("mode")
			cs.onlyKeep = -1
			if k, ok := rp.num("kept_bytes"); ok && strings.HasPrefix(cs.onlyMode, "short") {
				cs.onlyKeep = k
			}
			cs.onlyBuf, _ = rp.Detail["buffered"].(bool)
		}
		for _, buffered := range []bool{false, true} {
			if cs.only && buffered != cs.onlyBuf {
				continue
			}
			wg.Add(1)
			sem <- struct{}{}
			go func(ci int, cs *c14CopyCase, buffered bool) {
				defer wg.Done()
				defer func() { <-sem }()
				c14CopySrcCase(ctx, cs, buffered, ci == 0 && !buffered)
			}(ci, cs, buffered)
		}
	}
	wg.Wait()
	if rp == nil {
		c14CopySiteL2(ctx, "")
	}
}

func c14CopySrcCase(ctx *core.Ctx, cs *c14CopyCase, buffered bool, sample bool) {
	r := ctx.Rand(fmt.Sprintf("c14/copysrc/%s/%v", cs.name, buffered))
	base := map[string]any{"case": cs.desc, "name": cs.name, "path": cs.kind, "buffered": buffered, "source_size": len(cs.src)}
	with := func(extra map[string]any) map[string]any {
		m := map[string]any{}
		for k, v := range base {
			m[k] = v
		}
		for k, v := range extra {
			m[k] = v
		}
		return m
	}
	// fault-free run: the reference output, the ReadAt log
	x0 := &c14ReaderAt{r: bytes.NewReader(cs.src), failAt: -1, keep: -1, record: true}
	class, want, err := c14CopyRun(cs, x0, buffered)
	if class != "ok" {
		ctx.Fail("L1", "fault-free-copy-fails path="+cs.kind, fmt.Sprintf("WriteRowGroup from an intact source fails: %s %v", class, err), with(nil))
		return
	}
	srcCols, srcRows, err := gen.ReadRowsColumns(cs.src, 16)
	if err != nil {
		return
	}
	cols, nrows, err := gen.ReadRowsColumns(want, 16)
	if err != nil || nrows != srcRows {
		ctx.Fail("L1", "fault-free-copy-unreadable path="+cs.kind, fmt.Sprintf("the fault-free copy does not read back: rows=%d want %d err=%v", nrows, srcRows, err), with(nil))
		return
	}
	if c, i, d := firstDiff(srcCols, cols); c != -2 {
		ctx.Fail("L1", "fault-free-copy-differs path="+cs.kind, fmt.Sprintf("the fault-free copy holds other values: column %d entry %d: %s", c, i, d), with(nil))
		return
	}
	calls := x0.log
	n1 := len(calls)
	x1 := &c14ReaderAt{r: bytes.NewReader(cs.src), failAt: -1, keep: -1, record: true}
	if _, again, _ := c14CopyRun(cs, x1, buffered); len(x1.log) != n1 || !bytes.Equal(again, want) {
		ctx.Hist("copysrc.deterministic", "no")
		return
	}
	ctx.Hist("copysrc.calls "+cs.kind, sizeBucket(n1))
	idx := make([]int, n1)
	for i := range idx {
		idx[i] = i
	}
	if max := ctx.Scale(100, 100000); n1 > max {
		r.Shuffle(n1, func(i, j int) { idx[i], idx[j] = idx[j], idx[i] })
		idx = append([]int{0, 1, 2, 3, n1 - 1, n1 - 2}, idx[:max]...)
	}
	if cs.only {
		idx = []int{cs.onlyN}
	}
	type fault struct {
		mode string
		keep int
	}
	for _, i := range idx {
		if i < 0 || i >= n1 {
			continue
		}
		off, ln := calls[i][0], int(calls[i][1])
		cuts := []int{-1}
		if ln > 1 {
			cuts = append(cuts, 0)
		}
		if ln > 2 {
			cuts = append(cuts, 1, ln-1)
		}
		var onBound []int
		for _, b := range cs.bounds {
			if b > off && b < off+int64(ln) {
				onBound = append(onBound, int(b-off))
			}
		}
		if max := ctx.Scale(6, 2000); len(onBound) > max {
			r.Shuffle(len(onBound), func(a, b int) { onBound[a], onBound[b] = onBound[b], onBound[a] })
			onBound = onBound[:max]
		}
		cuts = append(cuts, onBound...)
		faults := []fault{{"full", -1}, {"fullsticky", -1}}
		for _, c := range cuts {
			faults = append(faults, fault{"short", c}, fault{"shorteof", c})
		}
		if cs.only && cs.onlyMode != "" {
			faults = []fault{{cs.onlyMode, cs.onlyKeep}}
		}
		for _, ft := range faults {
			x := &c14ReaderAt{r: bytes.NewReader(cs.src), failAt: int32(i), mode: ft.mode, keep: ft.keep}
			class, got, err := c14CopyRun(cs, x, buffered)
			kept := 0
			if ft.mode == "short" || ft.mode == "shorteof" {
				kept = x.cut(x.hitLen)
			}
			if !x.hit || (ft.mode != "full" && ft.mode != "fullsticky" && kept == x.hitLen) {
				ctx.Hist("copysrc.skipped", "fault-not-effective")
				continue
			}
			ctx.Case(fmt.Sprintf("copysrc|%s|%v|%d|%s|%d", cs.name, buffered, i, ft.mode, kept), i > 0)
			ctx.Hist("copysrc.path", cs.kind)
			detail := with(map[string]any{"source_failing_call": i, "calls_fault_free": n1, "mode": ft.mode,
				"read_offset": off, "read_length": x.hitLen, "kept_bytes": kept, "outcome": class})
			if err != nil {
				detail["error"] = headOf(err.Error(), 500)
			}
			if sample && i == n1/2 && ft.mode == "short" {
				ctx.Sample(detail)
			}
			sig := fmt.Sprintf("path=%s mode=%s", cs.kind, ft.mode)
			switch class {
			case "panic":
				ctx.Fail("L1", "source-fault-panics "+sig+" "+panicClass(err.Error()),
					fmt.Sprintf("ReadAt call %d of the source fails (%s) and WriteRowGroup panics", i, ft.mode), detail)
			case "ok":
				if bytes.Equal(got, want) {
					// the bytes were not needed or were fetched again
					ctx.Hist("copysrc.outcome "+ft.mode, "absorbed/complete-copy")
					continue
				}
				// other bytes: the rows and the bloom filters of the output decide (a fault in one of the
				// "can this chunk be copied verbatim" probes legitimately demotes the copy to re-encoding)
				detail["output_size"] = len(got)
				detail["output_size_fault_free"] = len(want)
				bad := ""
				gc, gn, gerr := gen.ReadRowsColumns(got, 16)
				switch {
				case gerr != nil:
					bad = "does not read back: " + headOf(gerr.Error(), 300)
				case gn != srcRows:
					bad = fmt.Sprintf("%d rows instead of %d", gn, srcRows)
				default:
					if c, j, d := firstDiff(srcCols, gc); c != -2 {
						bad = fmt.Sprintf("column %d entry %d: %s", c, j, d)
					} else if b := c14BloomNegatives(got); b != "" {
						bad = b
					}
				}
				if bad == "" {
					ctx.Hist("copysrc.outcome "+ft.mode, "absorbed/same-rows-other-bytes")
					continue
				}
				detail["output"] = bad
				ctx.Hist("copysrc.outcome "+ft.mode, "altered")
				ctx.Fail("L1", "source-fault-alters-copy "+sig,
					fmt.Sprintf("ReadAt call %d of the source fails (%s); WriteRowGroup and Close return nil and the file written has other rows than the source (%s)", i, ft.mode, headOf(bad, 80)), detail)
			case "write-error+close-panics":
				// the fault surfaced as an error of WriteRowGroup; the panic of the Close that follows
				// is outside the statement of the property (which speaks of panics for destination
				// failures): an observation
				ctx.Hist("copysrc.outcome "+ft.mode, class)
				ctx.Observe("close-panics-after-source-error path="+cs.kind+" "+panicClass(strings.SplitN(err.Error(), "Close panics: ", 2)[1]),
					"WriteRowGroup reports the source fault, and the Close that follows panics", detail)
			default:
				ctx.Hist("copysrc.outcome "+ft.mode, class)
			}
		}
	}
}

// c14CopySiteL2: filled in below (L2 of the copy site against the Lean mirror)
// c14BloomNegatives: every value of a column chunk that carries a bloom filter must test positive
func c14BloomNegatives(file []byte) (bad string) {
	defer func() {
		if p := recover(); p != nil {
			bad = fmt.Sprintf("checking the bloom filters panics: %v", p)
		}
	}()
	f, err := parquet.OpenFile(bytes.NewReader(file), int64(len(file)))
	if err != nil {
		return "does not open: " + err.Error()
	}
	for gi, rg := range f.RowGroups() {
		for ci, cc := range rg.ColumnChunks() {
			bf := cc.BloomFilter()
			if bf == nil {
				continue
			}
			pages := cc.Pages()
			vals := make([]parquet.Value, 64)
			for {
				p, err := pages.ReadPage()
				if err != nil {
					break
				}
				vr := p.Values()
				for {
					n, err := vr.ReadValues(vals)
					for _, v := range vals[:n] {
						if v.IsNull() {
							continue
						}
						ok, cerr := bf.Check(v)
						if cerr != nil || !ok {
							pages.Close()
							return fmt.Sprintf("bloom filter of row group %d column %d: value %v tests negative (err=%v)", gi, ci, v, cerr)
						}
					}
					if err != nil || n == 0 {
						break
					}
				}
				parquet.Release(p)
			}
			pages.Close()
		}
	}
	return ""
}

// ---------------------------------------------------------------- L2 of the copy site

// c14CopySiteReal runs the real copy site for one `io.copysrc` request whose source fault is given
// as (failing ReadAt call index, kept bytes, mode); it returns the request (with the cut observed:
// the number of bytes the source delivered before it stopped) and the real answer.
func c14CopySiteReal(capN, k int, mode string, pre, ln, srcCall, srcKeep int, srcMode string) (req, real string, ok bool) {
	const off0 = 7
	buf := make([]byte, off0+ln+5)
	for i := 0; i < ln; i++ {
		buf[off0+i] = byte((pre + i) % 251)
	}
	preBytes := make([]byte, pre)
	for i := range preBytes {
		preBytes[i] = byte(i % 251)
	}
	x := &c14CutReaderAt{r: bytes.NewReader(buf), failAt: srcCall, keep: srcKeep, eof: srcMode == "eof"}
	sink := newC14Sink(k, mode)
	sink.noTrace = true
	offset, buffered, err := parquet.VerifCopySection(sink, capN, preBytes, x, off0, int64(ln))
	if x.bad {
		return "", "", false // the kept bytes filled the request: not a short read
	}
	cut, eof := "-", "0"
	if x.hit {
		cut = fmt.Sprint(x.delivered)
		if x.eof {
			eof = "1"
		}
	}
	capS, kS := "-", "-"
	if capN > 0 {
		capS = fmt.Sprint(capN)
	}
	if k >= 0 {
		kS = fmt.Sprint(k)
	}
	e := 0
	if err != nil {
		e = 1
	}
	req = fmt.Sprintf("io.copysrc %s %s %s %d %d %s %s 1", capS, kS, mode, pre, ln, cut, eof)
	real = fmt.Sprintf("ok %d %d %d %d", e, offset, len(sink.data)+buffered, len(sink.data))
	return req, real, true
}

// c14CutReaderAt fails its failAt-th call: keep bytes are delivered, then io.EOF or an error
type c14CutReaderAt struct {
	r         *bytes.Reader
	failAt    int
	keep      int
	eof       bool
	calls     int
	delivered int
	hit, bad  bool
}

func (x *c14CutReaderAt) ReadAt(p []byte, off int64) (int, error) {
	i := x.calls
	x.calls++
	if x.failAt < 0 || i != x.failAt {
		n, err := x.r.ReadAt(p, off)
		if !x.hit {
			x.delivered += n
		}
		return n, err
	}
	keep := x.keep
	if keep >= len(p) {
		if len(p) == 0 {
			x.bad = true
			return x.r.ReadAt(p, off)
		}
		keep = len(p) - 1
	}
	n, _ := x.r.ReadAt(p[:keep], off)
	x.delivered += n
	x.hit = true
	if x.eof {
		return n, io.EOF
	}
	return n, errC14Injected
}

// the bufio mirror is exact on (err, offset, bytes accepted) for a source error other than io.EOF;
// the split between sink and buffer is compared for the other cases only
func c14CopySiteTrim(req, ans string) string {
	f := strings.Fields(req)
	if len(f) == 9 && f[1] != "-" && f[6] != "-" && f[7] == "0" {
		if a := strings.Fields(ans); len(a) == 5 {
			return strings.Join(a[:4], " ")
		}
	}
	return ans
}

func c14CopySiteKey(req string) string {
	f := strings.Fields(req)
	b, src := "buffered", "none"
	if f[1] == "-" {
		b = "unbuffered"
	}
	if f[6] != "-" {
		src = map[string]string{"1": "eof", "0": "err"}[f[7]]
	}
	return fmt.Sprintf("%s sink=%s src=%s", b, f[3], src)
}

func c14CopySiteL2(ctx *core.Ctx, only string) {
	if only != "" {
		// replay: the request names the observed cut; re-create a source that stops there
		f := strings.Fields(only)
		d := ctx.Driver()
		if len(f) != 9 || d == nil {
			return
		}
		var capN, pre, ln int
		k, cut := -1, -1
		fmt.Sscanf(f[1], "%d", &capN)
		if f[2] != "-" {
			fmt.Sscanf(f[2], "%d", &k)
		}
		fmt.Sscanf(f[4], "%d", &pre)
		fmt.Sscanf(f[5], "%d", &ln)
		srcCall, srcMode := -1, "eof"
		if f[6] != "-" {
			fmt.Sscanf(f[6], "%d", &cut)
			srcCall = 0 // a first read that keeps `cut` bytes stops the source at the same place
			if f[7] == "0" {
				srcMode = "err"
			}
		}
		req, real, ok := c14CopySiteReal(capN, k, f[3], pre, ln, srcCall, cut, srcMode)
		if !ok {
			return
		}
		ans, err := d.Ask(req)
		ctx.Case(req, true)
		if err != nil || c14CopySiteTrim(req, ans) != c14CopySiteTrim(req, real) {
			ctx.Fail("L2", "copy-site-differs "+c14CopySiteKey(req), "copySection of writer.go and its Lean mirror disagree",
				map[string]any{"request": req, "model": ans, "real": real})
		}
		return
	}
	ncases := ctx.Scale(6000, 60000)
	workers := 8
	var wg sync.WaitGroup
	for wk := 0; wk < workers; wk++ {
		wg.Add(1)
		go func(wk int) {
			defer wg.Done()
			d := ctx.Driver()
			if d == nil {
				return
			}
			r := ctx.Rand(fmt.Sprintf("c14/copysite/%d", wk))
			var reqs, wants []string
			flush := func() {
				if len(reqs) == 0 {
					return
				}
				ans, err := d.AskMany(reqs)
				if err != nil {
					ctx.Fail("L2", "driver-error", err.Error(), nil)
					reqs, wants = nil, nil
					return
				}
				for i := range reqs {
					if c14CopySiteTrim(reqs[i], ans[i]) != c14CopySiteTrim(reqs[i], wants[i]) {
						ctx.Fail("L2", "copy-site-differs "+c14CopySiteKey(reqs[i]), "copySection of writer.go and its Lean mirror disagree",
							map[string]any{"request": reqs[i], "model": ans[i], "real": wants[i]})
					} else {
						ctx.Hist("copysrc.l2", c14CopySiteKey(reqs[i]))
					}
				}
				reqs, wants = nil, nil
			}
			for i := 0; i < ncases/workers; i++ {
				capN := []int{0, 0, 1, 2, 3, 4, 5, 8, 16, 64}[r.Intn(10)]
				c := capN
				if c == 0 {
					c = 8
				}
				pick := func() int {
					v := []int{0, 1, 2, c - 1, c, c + 1, 2 * c, 2*c + 1, r.Intn(40)}[r.Intn(9)]
					if v < 0 {
						v = 0
					}
					return v
				}
				pre, ln := pick(), pick()
				if capN == 0 && r.Intn(200) == 0 {
					ln = 32768 + []int{-1, 0, 1, 700}[r.Intn(4)] // the 32 KiB buffer of io.Copy
				}
				k := -1
				mode := []string{"full", "short", "fullsticky", "shortsticky", "oneshot", "oneshotshort"}[r.Intn(6)]
				switch r.Intn(5) {
				case 0:
				case 1:
					mode = []string{"call", "callshort", "callsticky"}[r.Intn(3)]
					k = r.Intn(4)
				default:
					k = r.Intn(pre + ln + 2)
				}
				srcCall, srcKeep, srcMode := -1, 0, "eof"
				if r.Intn(4) > 0 {
					srcCall = []int{0, 0, 0, 1, 2}[r.Intn(5)]
					srcKeep = []int{0, 1, ln / 2, ln - 1, r.Intn(ln + 1)}[r.Intn(5)]
					if srcKeep < 0 {
						srcKeep = 0
					}
					if r.Intn(2) == 0 {
						srcMode = "err"
					}
				}
				req, real, ok := c14CopySiteReal(capN, k, mode, pre, ln, srcCall, srcKeep, srcMode)
				if !ok {
					continue
				}
				ctx.Case(req, !strings.Contains(req, " - 0 1") && ln > 0)
				reqs = append(reqs, req)
				wants = append(wants, real)
				if len(reqs) >= 1000 {
					flush()
				}
			}
			flush()
		}(wk)
	}
	wg.Wait()
}
