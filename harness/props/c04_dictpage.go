package props

// C04, part "dictpage": the READ path of dictionary-encoded columns, fed with pages the harness
// writes itself from the format documents (a foreign writer): PLAIN dictionary page, RLE_DICTIONARY
// index page = <bit width byte> <RLE/bit-packed hybrid runs> with
//   - any declared bit width from the needed one up to 32,
//   - any segmentation into RLE and bit-packed runs, last bit-packed group padded with arbitrary ids,
//   - a recycled destination buffer of any capacity holding arbitrary earlier ids.
// Two ways into the library: (a) the calls `Column.decodeDictionary` / `decodeDataPage` make, through
// the public API (`Type.Decode`+`NewDictionary`, `RLEDictionary.DecodeInt32`, `Dictionary.Type().NewPage`,
// `Page.Values().ReadValues`); (b) a hand-assembled file read with OpenFile / Pages() several times
// (the page buffers are recycled through the library's pools).
//
// L1 (property, oracle = the writer's own (dictionary, ids) lists):
//   - conformant page: the ids of the page and the values read are the written ones, bit-exact;
//   - ANY accepted page, conformant or not: the result does not depend on what the recycled buffer
//     held (decoded twice over different buffer contents; file: every round gives the same rows).
// Not conformant (SPEC reader refuses, Lean `specDictColumn` agrees): an index stream holding fewer
// ids than the page's num_values — the library accepts it (observation) and must then still be
// deterministic; an id outside the dictionary (panic = observation).
// L2: ids/values/outcome == Lean mirror `goDictColumn` (dictionary page decode, `goDecodeDict`,
//     `goNewIndexedPage` = zero extension of a short stream, lookup) given the same stale buffer content,
//     and the Lean SPEC reader reads the harness-written page as the harness meant it.

import (
	"bytes"
	"encoding/binary"
	"fmt"
	"hash/crc32"
	"io"
	"math/bits"
	"math/rand"
	"runtime"
	"strings"
	"sync"

	"github.com/parquet-go/parquet-go"
	"github.com/parquet-go/parquet-go/encoding"
	"github.com/parquet-go/parquet-go/encoding/plain"
	"github.com/parquet-go/parquet-go/encoding/thrift"
	"github.com/parquet-go/parquet-go/format"

	"verifharness/core"
)

func init() { RegisterSub("C04", "dictpage", RunC04DictPage) }

// ------------------------------------------------------------------ the foreign writer

// PLAIN, written from Encodings.md: fixed width values back to back (canonical bytes are already
// little endian), BYTE_ARRAY with a 4-byte little-endian length, BOOLEAN bit packed LSB first.
func c4dpPlain(k c4kind, vals [][]byte) []byte {
	switch k.name {
	case "bool":
		return c4packBools(vals)
	case "bytes":
		var out []byte
		for _, v := range vals {
			out = binary.LittleEndian.AppendUint32(out, uint32(len(v)))
			out = append(out, v...)
		}
		return out
	}
	return bytes.Join(vals, nil)
}

type c4dpBits struct {
	out  []byte
	acc  uint64
	nacc uint
}

func (b *c4dpBits) put(v uint32, w int) {
	b.acc |= uint64(v) << b.nacc
	b.nacc += uint(w)
	for b.nacc >= 8 {
		b.out = append(b.out, byte(b.acc))
		b.acc >>= 8
		b.nacc -= 8
	}
}

// c4dpRuns writes ids as hybrid runs at bit width w (every id < 2^w). style: 0 = RLE runs only,
// 1 = bit-packed runs only, 2 = mixed. Returns the run bytes, the number of values the runs hold
// (padding of the last bit-packed group included) and a short description.
func c4dpRuns(r *rand.Rand, ids []uint32, w int, style int, padBelow uint32) ([]byte, []uint32, string) {
	var out []byte
	var held []uint32
	var desc strings.Builder
	vb := (w + 7) / 8
	pos := 0
	for pos < len(ids) {
		same := 1
		for pos+same < len(ids) && ids[pos+same] == ids[pos] {
			same++
		}
		useRLE := style == 0 || w == 0 || (style == 2 && (same >= 8 || r.Intn(3) == 0))
		if useRLE {
			cnt := same
			if cnt > 1 && r.Intn(3) == 0 {
				cnt = 1 + r.Intn(cnt) // split a constant run
			}
			out = binary.AppendUvarint(out, uint64(cnt)<<1)
			var le [4]byte
			binary.LittleEndian.PutUint32(le[:], ids[pos])
			out = append(out, le[:vb]...)
			for j := 0; j < cnt; j++ {
				held = append(held, ids[pos])
			}
			pos += cnt
			fmt.Fprintf(&desc, "r%d ", cnt)
			continue
		}
		groups := 1 + r.Intn(3)
		if style == 1 && r.Intn(2) == 0 {
			groups = (len(ids) - pos + 7) / 8
		}
		if rest := (len(ids) - pos + 7) / 8; groups > rest {
			groups = rest
		}
		out = binary.AppendUvarint(out, uint64(groups)<<1|1)
		bw := c4dpBits{}
		for i := 0; i < 8*groups; i++ {
			var v uint32
			if pos+i < len(ids) {
				v = ids[pos+i]
			} else if padBelow > 0 { // padding that a short page makes visible: valid ids
				v = uint32(r.Intn(int(padBelow)))
			} else if w >= 32 { // padding of the last group: arbitrary ids of the width
				v = r.Uint32()
			} else {
				v = r.Uint32() & (1<<uint(w) - 1)
			}
			held = append(held, v)
			bw.put(v, w)
		}
		out = append(out, bw.out...)
		if pos+8*groups > len(ids) {
			fmt.Fprintf(&desc, "b%d(pad %d) ", groups, pos+8*groups-len(ids))
		} else {
			fmt.Fprintf(&desc, "b%d ", groups)
		}
		pos += 8 * groups
	}
	return out, held, strings.TrimSpace(desc.String())
}

type c4dpPage struct {
	ids    []uint32 // the n ids of the page as the writer means them
	n      int
	width  int
	stream []byte   // <width> <runs>
	held   []uint32 // the values the runs hold (padding of a last bit-packed group included)
	kind   string   // conformant | short | bad-id
	seg    string
}

// ids of one page over a dictionary of d entries
func c4dpIds(r *rand.Rand, n, d int) []uint32 {
	ids := make([]uint32, n)
	switch r.Intn(5) {
	case 0: // constant runs whose borders sit around multiples of 8
		for i := 0; i < n; {
			l := []int{1, 2, 7, 8, 9, 15, 16, 17, 24, 63, 64, 65}[r.Intn(12)]
			v := uint32(r.Intn(d))
			for j := 0; j < l && i < n; j, i = j+1, i+1 {
				ids[i] = v
			}
		}
	case 1: // alternating
		a, b := uint32(r.Intn(d)), uint32(r.Intn(d))
		for i := range ids {
			if i%2 == 0 {
				ids[i] = a
			} else {
				ids[i] = b
			}
		}
	case 2: // all the same id (0 mostly: the one-entry dictionary shape)
		v := uint32(0)
		if r.Intn(3) == 0 {
			v = uint32(r.Intn(d))
		}
		for i := range ids {
			ids[i] = v
		}
	case 3: // noise, then a tail of zeros
		cut := r.Intn(n + 1)
		for i := 0; i < cut; i++ {
			ids[i] = uint32(r.Intn(d))
		}
	default:
		for i := range ids {
			ids[i] = uint32(r.Intn(d))
		}
	}
	if n > 0 && d > 1 && r.Intn(2) == 0 {
		ids[r.Intn(n)] = uint32(d - 1) // the last entry is referenced: the needed width is reached
	}
	return ids
}

func c4dpMakePage(r *rand.Rand, n, d int, kind string) c4dpPage {
	p := c4dpPage{n: n, kind: kind}
	p.ids = c4dpIds(r, n, d)
	if kind == "bad-id" && n > 0 {
		p.ids[r.Intn(n)] = uint32(d + r.Intn(3))
	}
	need := 0
	for _, v := range p.ids {
		if l := bits.Len32(v); l > need {
			need = l
		}
	}
	p.width = need
	switch r.Intn(5) {
	case 0:
		p.width = need + r.Intn(33-need)
	case 1:
		p.width = min(32, need+1)
	case 2:
		p.width = []int{8, 9, 16, 17, 24, 31, 32}[r.Intn(7)]
		if p.width < need {
			p.width = need
		}
	}
	written := p.ids
	style := r.Intn(3)
	if kind == "short" {
		// the stream ends early: only `keep` ids are written, and the runs hold fewer than n values
		keep := 0
		switch r.Intn(4) {
		case 0: // nothing but the width byte
		case 1:
			keep = r.Intn(n)
		case 2:
			keep = n - 1
		default: // cut where the zeros start
			keep = n
			for keep > 0 && p.ids[keep-1] == 0 {
				keep--
			}
			if keep == n {
				keep = n - 1
			}
		}
		if style != 0 && keep+7 >= n {
			style = 0 // padding could complete the page: use exact runs
		}
		written = p.ids[:keep]
	}
	padBelow := uint32(0)
	if kind == "short" {
		padBelow = uint32(d)
	}
	runs, held, seg := c4dpRuns(r, written, p.width, style, padBelow)
	p.stream = append([]byte{byte(p.width)}, runs...)
	p.held = held
	p.seg = fmt.Sprintf("w=%d %s", p.width, seg)
	return p
}

// distinct dictionary entries
func c4dpEntries(k c4kind, r *rand.Rand, d int) [][]byte {
	seen := map[string]bool{}
	var out [][]byte
	for tries := 0; len(out) < d && tries < 20*d+50; tries++ {
		mode := 2
		if r.Intn(4) == 0 {
			mode = 0
		}
		v := c4Value(k, r, mode)
		if k.name == "bytes" && len(v) > 40 {
			v = v[:r.Intn(40)]
		}
		if !seen[string(v)] {
			seen[string(v)] = true
			out = append(out, v)
		}
	}
	return out
}

// ------------------------------------------------------------------ (a) the calls of the column reader

type c4dpOutcome struct {
	res    string // "ok" | "err: ..." | "panic: ..."
	ids    []int32
	vals   [][]byte
	stale  []int32
	reused bool
}

// decode the index stream into `recycled`, build the page, read ids and values
func c4dpRead(t c4dictType, dict parquet.Dictionary, p c4dpPage, recycled []int32) (o c4dpOutcome) {
	defer func() {
		if x := recover(); x != nil {
			o.res = fmt.Sprintf("panic: %v", x)
		}
	}()
	idx, err := parquet.RLEDictionary.DecodeInt32(recycled, p.stream)
	if err != nil {
		o.res = "err: " + err.Error()
		return
	}
	full := idx[:cap(idx)]
	o.stale = append([]int32(nil), full[len(idx):]...)
	o.reused = cap(recycled) > 0 && cap(idx) > 0 && &recycled[:1][0] == &full[:1][0]
	page := dict.Type().NewPage(0, p.n, encoding.Int32Values(idx))
	pdata := page.Data()
	o.ids = append([]int32(nil), pdata.Int32()...)
	buf := make([]parquet.Value, 97)
	vr := page.Values()
	for {
		m, err := vr.ReadValues(buf)
		for _, v := range buf[:m] {
			o.vals = append(o.vals, c4ValueBytes(t.k, v))
		}
		if err == io.EOF || m == 0 {
			break
		}
		if err != nil {
			o.res = "err: " + err.Error()
			return
		}
	}
	o.res = "ok"
	return
}

func c4dpRecycled(r *rand.Rand, n, d int, fill string) []int32 {
	c := []int{0, n / 2, n - 1, n, n + 1, n + 8, n + 40}[r.Intn(7)]
	if c < 0 {
		c = 0
	}
	buf := make([]int32, c)
	for i := range buf {
		switch fill {
		case "last-id":
			buf[i] = int32(d - 1)
		case "beyond":
			buf[i] = 0x7FFFFFF0
		case "zero":
			buf[i] = 0
		default:
			buf[i] = int32(r.Intn(d))
		}
	}
	l := 0
	if c > 0 {
		l = r.Intn(c + 1)
	}
	return buf[:l]
}

func c4dpLeanType(k c4kind) string {
	switch k.name {
	case "bytes":
		return "bytes"
	case "flba":
		return fmt.Sprintf("flba:%d", k.width)
	case "bool":
		return ""
	}
	return fmt.Sprintf("fixed:%d", k.width)
}

func c4dpToks(k c4kind, vals [][]byte) string {
	if k.name == "flba" {
		return c4hexToks(vals)
	}
	return c4toks(k, vals)
}

func (w *c4worker) dictPageCase(t c4dictType, entries [][]byte, p c4dpPage) {
	ctx := w.b.ctx
	k := t.k
	d := len(entries)
	dictHex := core.Hex(c4dpPlain(k, entries))
	streamHex := core.Hex(p.stream)
	canon := fmt.Sprintf("dictpage %s dict=%s n=%d page=%s", t.name, dictHex, p.n, streamHex)
	ctx.Case(canon, p.n >= 2 && d >= 1)
	ctx.Hist("dictpage.type", t.name)
	ctx.Hist("dictpage.kind", p.kind)
	ctx.Hist("dictpage.width", fmt.Sprintf("%d", p.width))
	ctx.Hist("dictpage.n", c4lenClass(p.n))
	detail := func(extra map[string]any) map[string]any {
		m := map[string]any{"type": t.name, "dictionary_page_plain": c4short(dictHex), "dictionary": c4short(c4dpToks(k, entries)),
			"num_values": p.n, "index_page": c4short(streamHex), "segmentation": c4short(p.seg), "page_kind": p.kind,
			"ids_meant": c4short(core.JoinInts(p.ids)), "variant": w.b.variant}
		for kk, v := range extra {
			m[kk] = v
		}
		return m
	}

	// the dictionary, the way Column.decodeDictionary builds it
	var dict parquet.Dictionary
	var derr error
	func() {
		defer func() {
			if x := recover(); x != nil {
				derr = fmt.Errorf("panic: %v", x)
			}
		}()
		ddst, _ := c4DirtyValues(k, w.r, len(dictHex)/2)
		var dv encoding.Values
		dv, derr = c4Decode(k, new(plain.Encoding), ddst, c4dpPlain(k, entries))
		if derr == nil {
			dict = t.typ.NewDictionary(0, d, dv)
		}
	}()
	if derr != nil {
		ctx.Fail("L1", "dictpage-"+t.name+"-dictionary-page-not-read", "a conformant PLAIN dictionary page is refused: "+derr.Error(), detail(nil))
		return
	}

	fill := []string{"last-id", "beyond", "random", "zero"}[w.r.Intn(4)]
	rec := c4dpRecycled(w.r, p.n, d, fill)
	ctx.Hist("dictpage.recycled", fmt.Sprintf("%s cap%s", fill, c4dpCapClass(cap(rec), p.n)))
	o := c4dpRead(t, dict, p, rec)

	want := make([][]byte, 0, p.n)
	if p.kind != "bad-id" {
		for _, id := range p.ids {
			want = append(want, entries[id])
		}
	}
	switch p.kind {
	case "conformant":
		switch {
		case o.res != "ok":
			ctx.Fail("L1", "dictpage-conformant-index-page-refused", "a conformant RLE_DICTIONARY page is not read: "+o.res, detail(map[string]any{"recycled": fill}))
		case !c4dpSameIds(o.ids, p.ids):
			ctx.Fail("L1", "dictpage-conformant-index-page-ids-differ", "the ids of the page built from a conformant index stream are not the written ids",
				detail(map[string]any{"ids_read": c4short(core.JoinInts(o.ids)), "recycled": fill, "stale": c4short(core.JoinInts(o.stale))}))
		case !c4Equal(o.vals, want):
			ctx.Fail("L1", "dictpage-"+t.name+"-values-differ", "values read from a conformant dictionary-encoded page are not the written values",
				detail(map[string]any{"read": c4short(c4dpToks(k, o.vals)), "written": c4short(c4dpToks(k, want))}))
		}
	case "short":
		ctx.Observe("dictpage-short-index-stream-accepted", "an RLE_DICTIONARY index stream holding fewer ids than the page's num_values (not conformant: the SPEC reader refuses it) is accepted; the missing ids read as 0", detail(nil))
		// whatever the library makes of it must not depend on the recycled buffer
		fill2 := map[string]string{"last-id": "zero", "beyond": "random", "random": "zero", "zero": "last-id"}[fill]
		rec2 := make([]int32, len(rec), cap(rec))
		full2 := rec2[:cap(rec2)]
		for i := range full2 {
			switch fill2 {
			case "last-id":
				full2[i] = int32(d - 1)
			case "zero":
				full2[i] = 0
			default:
				full2[i] = int32(w.r.Intn(d))
			}
		}
		o2 := c4dpRead(t, dict, p, rec2)
		if o.res != o2.res || !c4dpSame32(o.ids, o2.ids) || !c4Equal(o.vals, o2.vals) {
			ctx.Fail("L1", "dictpage-short-index-stream-depends-on-recycled-buffer",
				"the same (index page, num_values) read over two recycled buffers of the same capacity gives two different results: the missing ids come from the buffer's earlier content",
				detail(map[string]any{"buffer_1": fill, "buffer_2": fill2, "capacity": cap(rec), "result_1": o.res, "result_2": o2.res,
					"ids_1": c4short(core.JoinInts(o.ids)), "ids_2": c4short(core.JoinInts(o2.ids)),
					"stale_1": c4short(core.JoinInts(o.stale)), "stale_2": c4short(core.JoinInts(o2.stale))}))
		}
	case "bad-id":
		if strings.HasPrefix(o.res, "panic") {
			ctx.Observe("dictpage-id-outside-dictionary-panics", "an id outside the dictionary (malformed page) makes ReadValues panic instead of returning an error", detail(map[string]any{"result": o.res}))
		} else if o.res == "ok" {
			ctx.Observe("dictpage-id-outside-dictionary-accepted", "an id outside the dictionary (malformed page) is read without error", detail(map[string]any{"read": c4short(c4dpToks(k, o.vals))}))
		}
	}

	// L2: the Lean mirror of the read path over the same stale buffer content, and the SPEC reader
	lt := c4dpLeanType(k)
	if lt == "" || p.kind == "bad-id" || strings.HasPrefix(o.res, "err") && p.kind != "conformant" {
		return
	}
	goAns := o.res
	if o.res == "ok" {
		goAns = "ok " + c4dpToks(k, o.vals)
	} else if strings.HasPrefix(o.res, "panic") {
		goAns = "panic"
	} else {
		goAns = "err"
	}
	specWant := "err"
	if p.kind == "conformant" {
		specWant = "ok " + c4dpToks(k, want)
	}
	req := fmt.Sprintf("dict.column %s %d %s %d %s %s", lt, d, dictHex, p.n, streamHex, core.JoinInts(o.stale))
	w.b.ask(req, func(ans string) {
		g, s, ok := strings.Cut(strings.TrimPrefix(ans, "go="), " spec=")
		if !ok {
			ctx.Fail("L2", "dictpage-driver-answer", "unexpected driver answer", detail(map[string]any{"answer": c4short(ans)}))
			return
		}
		if g != goAns {
			ctx.Fail("L2", "dictpage-read-path-mirror", "the values / outcome of the Go read path differ from the Lean mirror (dictionary page, index page, newIndexedPage, lookup)",
				detail(map[string]any{"go": c4short(goAns), "mirror": c4short(g), "stale": c4short(core.JoinInts(o.stale)), "buffer_reused": o.reused}))
		}
		if s != specWant {
			ctx.Fail("L2", "dictpage-spec-reader-vs-foreign-writer", "the Lean SPEC reader does not read the harness-written page as the harness meant it",
				detail(map[string]any{"spec": c4short(s), "meant": c4short(specWant)}))
		}
	})
}

func c4dpCapClass(c, n int) string {
	switch {
	case c == 0:
		return "=0"
	case c < n:
		return "<n"
	case c == n:
		return "=n"
	default:
		return ">n"
	}
}

func c4dpSameIds(a []int32, b []uint32) bool {
	if len(a) != len(b) {
		return false
	}
	for i := range a {
		if uint32(a[i]) != b[i] {
			return false
		}
	}
	return true
}

func c4dpSame32(a, b []int32) bool {
	if len(a) != len(b) {
		return false
	}
	for i := range a {
		if a[i] != b[i] {
			return false
		}
	}
	return true
}

// ------------------------------------------------------------------ (b) a hand-assembled file

type c4dpFileType struct {
	name string
	k    c4kind
	phys format.Type
	tlen int32
}

func c4dpFileTypes() []c4dpFileType {
	return []c4dpFileType{
		{"int32", c4Int32, format.Int32, 0},
		{"int64", c4Int64, format.Int64, 0},
		{"double", c4Double, format.Double, 0},
		{"byte_array", c4Bytes, format.ByteArray, 0},
		{"flba16", c4FLBA(16), format.FixedLenByteArray, 16},
		{"flba5", c4FLBA(5), format.FixedLenByteArray, 5},
	}
}

func c4dpMarshal(v any) []byte {
	b, err := thrift.Marshal(new(thrift.CompactProtocol), v)
	if err != nil {
		panic(err)
	}
	return b
}

// one required column "v", uncompressed: dictionary page, then v1 data pages (RLE_DICTIONARY, or
// the legacy PLAIN_DICTIONARY tag which means the same layout)
func c4dpBuildFile(ft c4dpFileType, entries [][]byte, pages []c4dpPage, legacy bool) []byte {
	file := []byte("PAR1")
	writePage := func(h format.PageHeader, data []byte) {
		h.UncompressedPageSize = int32(len(data))
		h.CompressedPageSize = int32(len(data))
		h.CRC = int32(crc32.ChecksumIEEE(data))
		file = append(file, c4dpMarshal(&h)...)
		file = append(file, data...)
	}
	dictEnc, dataEnc := format.Plain, format.RLEDictionary
	if legacy {
		dictEnc, dataEnc = format.PlainDictionary, format.PlainDictionary
	}
	dictOff := int64(len(file))
	writePage(format.PageHeader{Type: format.DictionaryPage,
		DictionaryPageHeader: thrift.New(format.DictionaryPageHeader{NumValues: int32(len(entries)), Encoding: dictEnc})},
		c4dpPlain(ft.k, entries))
	dataOff := int64(len(file))
	total := int64(0)
	for _, p := range pages {
		writePage(format.PageHeader{Type: format.DataPage,
			DataPageHeader: thrift.New(format.DataPageHeader{NumValues: int32(p.n), Encoding: dataEnc,
				DefinitionLevelEncoding: format.RLE, RepetitionLevelEncoding: format.RLE})}, p.stream)
		total += int64(p.n)
	}
	size := int64(len(file)) - dictOff
	el := format.SchemaElement{Name: "v", Type: thrift.New(ft.phys), RepetitionType: thrift.New(format.Required)}
	if ft.tlen > 0 {
		el.TypeLength = thrift.New(ft.tlen)
	}
	footer := c4dpMarshal(&format.FileMetaData{
		Version: 1,
		Schema:  []format.SchemaElement{{Name: "schema", NumChildren: thrift.New[int32](1)}, el},
		NumRows: total,
		RowGroups: []format.RowGroup{{
			Columns: []format.ColumnChunk{{FileOffset: dictOff, MetaData: format.ColumnMetaData{
				Type: ft.phys, Encoding: []format.Encoding{format.Plain, format.RLE, dataEnc}, PathInSchema: []string{"v"},
				Codec: format.Uncompressed, NumValues: total, TotalUncompressedSize: size, TotalCompressedSize: size,
				DataPageOffset: dataOff, DictionaryPageOffset: dictOff}}},
			TotalByteSize: size, NumRows: total}},
		CreatedBy: "verif foreign writer",
	})
	file = append(file, footer...)
	file = binary.LittleEndian.AppendUint32(file, uint32(len(footer)))
	return append(file, "PAR1"...)
}

func c4dpReadFile(k c4kind, file []byte, rounds int) (out [][][]byte, res string) {
	defer func() {
		if x := recover(); x != nil {
			res = fmt.Sprintf("panic: %v", x)
		}
	}()
	f, err := parquet.OpenFile(bytes.NewReader(file), int64(len(file)))
	if err != nil {
		return nil, "err: open: " + err.Error()
	}
	buf := make([]parquet.Value, 61)
	for round := 0; round < rounds; round++ {
		var vals [][]byte
		pages := f.RowGroups()[0].ColumnChunks()[0].Pages()
		for {
			page, err := pages.ReadPage()
			if err == io.EOF {
				break
			}
			if err != nil {
				pages.Close()
				return out, fmt.Sprintf("err: round %d: %v", round, err)
			}
			vr := page.Values()
			for {
				m, err := vr.ReadValues(buf)
				for _, v := range buf[:m] {
					vals = append(vals, c4ValueBytes(k, v))
				}
				if err != nil || m == 0 {
					break
				}
			}
			parquet.Release(page)
		}
		pages.Close()
		out = append(out, vals)
	}
	return out, "ok"
}

func (w *c4worker) dictFileCase(ft c4dpFileType, entries [][]byte, pages []c4dpPage, legacy bool) {
	ctx := w.b.ctx
	k := ft.k
	file := c4dpBuildFile(ft, entries, pages, legacy)
	var sb strings.Builder
	conformant := true
	var want, wantZeroExt [][]byte
	for _, p := range pages {
		fmt.Fprintf(&sb, " [%s n=%d %s]", p.kind, p.n, core.Hex(p.stream))
		if p.kind != "conformant" {
			conformant = false
		}
		for i, id := range p.ids {
			want = append(want, entries[id])
			if i < len(p.held) {
				wantZeroExt = append(wantZeroExt, entries[p.held[i]])
			} else {
				wantZeroExt = append(wantZeroExt, entries[0])
			}
		}
	}
	canon := fmt.Sprintf("dictfile %s legacy=%v dict=%s pages=%s", ft.name, legacy, core.Hex(c4dpPlain(k, entries)), sb.String())
	ctx.Case(canon, len(pages) >= 2)
	ctx.Hist("dictfile.type", ft.name)
	ctx.Hist("dictfile.pages", fmt.Sprintf("%d conformant=%v legacy=%v", len(pages), conformant, legacy))
	detail := func(extra map[string]any) map[string]any {
		m := map[string]any{"type": ft.name, "file_hex": c4short(core.Hex(file)), "dictionary": c4short(c4dpToks(k, entries)),
			"pages": c4short(sb.String()), "legacy_plain_dictionary_tag": legacy, "variant": w.b.variant}
		for kk, v := range extra {
			m[kk] = v
		}
		return m
	}
	rounds, res := c4dpReadFile(k, file, 3)
	if conformant {
		if res != "ok" {
			ctx.Fail("L1", "dictfile-conformant-file-not-read", "a conformant hand-written file with a dictionary-encoded column is not read: "+res, detail(nil))
			return
		}
		for i, got := range rounds {
			if !c4Equal(got, want) {
				ctx.Fail("L1", "dictfile-"+ft.name+"-values-differ", "rows read from a conformant hand-written dictionary-encoded column are not the written values",
					detail(map[string]any{"round": i, "read": c4short(c4dpToks(k, got)), "written": c4short(c4dpToks(k, want))}))
				return
			}
		}
		return
	}
	ctx.Observe("dictfile-short-index-stream-accepted", "a data page whose RLE_DICTIONARY stream holds fewer ids than num_values (not conformant) is accepted by the file reader", detail(map[string]any{"result": res}))
	if res != "ok" {
		if len(rounds) > 0 { // some rounds fine, a later one not: depends on pooled buffers
			ctx.Fail("L1", "dictfile-short-index-stream-depends-on-pooled-buffer", "reading the same file again in the same process fails after succeeding: "+res, detail(nil))
		}
		return
	}
	for i := 1; i < len(rounds); i++ {
		if !c4Equal(rounds[i], rounds[0]) {
			ctx.Fail("L1", "dictfile-short-index-stream-depends-on-pooled-buffer",
				"reading the same file twice in one process returns different rows: the ids missing from a short index stream come from a recycled page buffer",
				detail(map[string]any{"round": i, "first_read": c4short(c4dpToks(k, rounds[0])), "this_read": c4short(c4dpToks(k, rounds[i]))}))
			return
		}
	}
	if !c4Equal(rounds[0], wantZeroExt) {
		// what the Lean mirror of newIndexedPage states (ids missing from the stream are 0)
		ctx.Fail("L2", "dictfile-short-index-stream-not-zero-extended", "a short index stream is not read as its ids followed by id 0 (Lean mirror goNewIndexedPage)",
			detail(map[string]any{"read": c4short(c4dpToks(k, rounds[0])), "mirror": c4short(c4dpToks(k, wantZeroExt))}))
	}
}

// ------------------------------------------------------------------ run

func RunC04DictPage(ctx *core.Ctx) {
	types := c4DictTypes()
	ftypes := c4dpFileTypes()
	nw := min(max(runtime.GOMAXPROCS(0), 2), 12)
	perType := ctx.Scale(700, 2500)
	files := ctx.Scale(240, 900)
	lens := []int{1, 2, 3, 7, 8, 9, 12, 15, 16, 17, 23, 24, 25, 31, 32, 33, 63, 64, 65, 100, 127, 128, 129, 255, 256, 257, 511, 512, 513, 1000}
	dsizes := []int{1, 1, 2, 2, 3, 4, 5, 8, 9, 16, 17, 31, 33, 64, 100, 255, 256, 257, 300}
	var wg sync.WaitGroup
	for wi := 0; wi < nw; wi++ {
		wg.Add(1)
		go func(wi int) {
			defer wg.Done()
			d := ctx.Driver()
			r := ctx.Rand(fmt.Sprintf("c04dictpage/%d", wi))
			w := &c4worker{b: &c4batch{ctx: ctx, d: d, variant: ctx.Variant}, r: r}
			share := func(n int) int { return (n + nw - 1) / nw }
			kindOf := func() string {
				switch x := r.Intn(20); {
				case x < 13:
					return "conformant"
				case x < 19:
					return "short"
				default:
					return "bad-id"
				}
			}
			for _, t := range types {
				for i := 0; i < share(perType); i++ {
					ds := dsizes[r.Intn(len(dsizes))]
					if t.k.name == "bool" {
						ds = 1 + r.Intn(2)
					}
					if t.k.name == "flba" && t.k.width == 1 && ds > 200 {
						ds = 200
					}
					entries := c4dpEntries(t.k, r, ds)
					if len(entries) == 0 {
						continue
					}
					n := lens[r.Intn(len(lens))]
					if r.Intn(8) == 0 {
						n = r.Intn(1200)
					}
					kind := kindOf()
					if n == 0 && kind != "conformant" {
						n = 1
					}
					p := c4dpMakePage(r, n, len(entries), kind)
					if wi == 0 && i == 0 {
						ctx.Sample(map[string]any{"dictpage": t.name, "kind": p.kind, "n": p.n, "index_page": core.Hex(p.stream), "segmentation": p.seg})
					}
					w.dictPageCase(t, entries, p)
				}
				w.b.flush()
			}
			for i := 0; i < share(files); i++ {
				ft := ftypes[r.Intn(len(ftypes))]
				entries := c4dpEntries(ft.k, r, dsizes[r.Intn(len(dsizes))])
				np := 1 + r.Intn(4)
				var pages []c4dpPage
				// pages of one file share a size class, so that pooled buffers of one page fit the next
				base := []int{8, 24, 64, 65, 100, 256}[r.Intn(6)]
				anyShort := r.Intn(2) == 0
				for j := 0; j < np; j++ {
					kind := "conformant"
					if anyShort && j > 0 && r.Intn(2) == 0 {
						kind = "short"
					}
					n := base
					if r.Intn(3) == 0 {
						n = max(1, base-r.Intn(8))
					}
					pages = append(pages, c4dpMakePage(r, n, len(entries), kind))
				}
				w.dictFileCase(ft, entries, pages, r.Intn(4) == 0)
			}
			w.b.flush()
		}(wi)
	}
	wg.Wait()
}
