package props

import (
	"bytes"
	"encoding/binary"
	"fmt"
	"io"
	"math"
	"math/rand"
	"strings"
	"sync"

	"github.com/parquet-go/parquet-go"
	"github.com/parquet-go/parquet-go/deprecated"
	"github.com/parquet-go/parquet-go/encoding"
	"github.com/parquet-go/parquet-go/encoding/bytestreamsplit"
	"github.com/parquet-go/parquet-go/encoding/delta"
	"github.com/parquet-go/parquet-go/encoding/plain"
	"github.com/parquet-go/parquet-go/encoding/rle"
	"github.com/parquet-go/parquet-go/encoding/thrift"
	"github.com/parquet-go/parquet-go/format"

	"verifharness/core"
	"verifharness/gen"
)

func init() { RegisterSub("C01", "pages", RunC01Pages) }

// one row of the table physical type x value encoding of the Lean model (FileCodecsTyped.valCodecOf)
type c01Col struct {
	ptype string
	flen  int
	enc   string
}

var c01Table = []c01Col{
	{"BOOLEAN", 0, "PLAIN"}, {"BOOLEAN", 0, "RLE"},
	{"INT32", 0, "PLAIN"}, {"INT32", 0, "DELTA_BINARY_PACKED"}, {"INT32", 0, "BYTE_STREAM_SPLIT"},
	{"INT64", 0, "PLAIN"}, {"INT64", 0, "DELTA_BINARY_PACKED"}, {"INT64", 0, "BYTE_STREAM_SPLIT"},
	{"INT96", 0, "PLAIN"},
	{"FLOAT", 0, "PLAIN"}, {"FLOAT", 0, "BYTE_STREAM_SPLIT"},
	{"DOUBLE", 0, "PLAIN"}, {"DOUBLE", 0, "BYTE_STREAM_SPLIT"},
	{"BYTE_ARRAY", 0, "PLAIN"}, {"BYTE_ARRAY", 0, "DELTA_LENGTH_BYTE_ARRAY"}, {"BYTE_ARRAY", 0, "DELTA_BYTE_ARRAY"},
	{"FIXED_LEN_BYTE_ARRAY", 1, "PLAIN"}, {"FIXED_LEN_BYTE_ARRAY", 5, "PLAIN"}, {"FIXED_LEN_BYTE_ARRAY", 16, "PLAIN"},
	{"FIXED_LEN_BYTE_ARRAY", 3, "DELTA_BYTE_ARRAY"}, {"FIXED_LEN_BYTE_ARRAY", 16, "DELTA_BYTE_ARRAY"},
	{"FIXED_LEN_BYTE_ARRAY", 2, "BYTE_STREAM_SPLIT"}, {"FIXED_LEN_BYTE_ARRAY", 16, "BYTE_STREAM_SPLIT"},
	// lengths on both sides of the 16- and 32-byte thresholds at which the decoders / encoders switch kernels
	{"FIXED_LEN_BYTE_ARRAY", 15, "DELTA_BYTE_ARRAY"}, {"FIXED_LEN_BYTE_ARRAY", 17, "DELTA_BYTE_ARRAY"},
	{"FIXED_LEN_BYTE_ARRAY", 32, "DELTA_BYTE_ARRAY"}, {"FIXED_LEN_BYTE_ARRAY", 33, "DELTA_BYTE_ARRAY"},
	{"FIXED_LEN_BYTE_ARRAY", 17, "PLAIN"}, {"FIXED_LEN_BYTE_ARRAY", 32, "PLAIN"},
	{"FIXED_LEN_BYTE_ARRAY", 17, "BYTE_STREAM_SPLIT"}, {"FIXED_LEN_BYTE_ARRAY", 32, "BYTE_STREAM_SPLIT"},
}

func (c c01Col) node() parquet.Node {
	var t parquet.Type
	switch c.ptype {
	case "BOOLEAN":
		t = parquet.BooleanType
	case "INT32":
		t = parquet.Int32Type
	case "INT64":
		t = parquet.Int64Type
	case "INT96":
		t = parquet.Int96Type
	case "FLOAT":
		t = parquet.FloatType
	case "DOUBLE":
		t = parquet.DoubleType
	case "BYTE_ARRAY":
		t = parquet.ByteArrayType
	default:
		t = parquet.FixedLenByteArrayType(c.flen)
	}
	var e encoding.Encoding
	switch c.enc {
	case "PLAIN":
		e = &plain.Encoding{}
	case "RLE":
		e = &rle.Encoding{}
	case "DELTA_BINARY_PACKED":
		e = &delta.BinaryPackedEncoding{}
	case "DELTA_LENGTH_BYTE_ARRAY":
		e = &delta.LengthByteArrayEncoding{}
	case "DELTA_BYTE_ARRAY":
		e = &delta.ByteArrayEncoding{}
	case "BYTE_STREAM_SPLIT":
		e = &bytestreamsplit.Encoding{}
	}
	return parquet.Encoded(parquet.Leaf(t), e)
}

// a random value of the column's type as (parquet value, bytes of the model's representation)
func (c c01Col) value(r *rand.Rand, small bool) (parquet.Value, []byte) {
	switch c.ptype {
	case "BOOLEAN":
		b := r.Intn(2) == 0
		if small {
			b = r.Intn(8) != 0
		}
		if b {
			return parquet.BooleanValue(true), []byte{1}
		}
		return parquet.BooleanValue(false), []byte{0}
	case "INT32", "FLOAT":
		var x uint32
		switch {
		case small:
			x = uint32(r.Intn(3))
		case r.Intn(3) == 0:
			x = []uint32{0, 1, 0xffffffff, 0x7fffffff, 0x80000000, 0x7fc00001, 0xffc12345, 0x80000000, 255, 256}[r.Intn(10)]
		case r.Intn(2) == 0:
			x = uint32(int32(r.Intn(2000) - 1000))
		default:
			x = r.Uint32()
		}
		b := binary.LittleEndian.AppendUint32(nil, x)
		if c.ptype == "INT32" {
			return parquet.Int32Value(int32(x)), b
		}
		return parquet.FloatValue(math.Float32frombits(x)), b
	case "INT64", "DOUBLE":
		var x uint64
		switch {
		case small:
			x = uint64(r.Intn(3))
		case r.Intn(3) == 0:
			x = []uint64{0, 1, 1<<64 - 1, 1<<63 - 1, 1 << 63, 0x7ff8000000000001, 0xfff8123456789abc, 1 << 32, 255}[r.Intn(9)]
		case r.Intn(2) == 0:
			x = uint64(int64(r.Intn(2000) - 1000))
		default:
			x = r.Uint64()
		}
		b := binary.LittleEndian.AppendUint64(nil, x)
		if c.ptype == "INT64" {
			return parquet.Int64Value(int64(x)), b
		}
		return parquet.DoubleValue(math.Float64frombits(x)), b
	case "INT96":
		v := deprecated.Int96{r.Uint32(), r.Uint32(), r.Uint32()}
		if small {
			v = deprecated.Int96{uint32(r.Intn(2)), 0, 0}
		}
		b := binary.LittleEndian.AppendUint32(nil, v[0])
		b = binary.LittleEndian.AppendUint32(b, v[1])
		b = binary.LittleEndian.AppendUint32(b, v[2])
		return parquet.Int96Value(v), b
	case "BYTE_ARRAY":
		var b []byte
		switch {
		case small:
			b = []byte([]string{"x", "y", "zz", ""}[r.Intn(4)])
		case r.Intn(3) == 0:
			b = []byte([]string{"", "a", "ab", "abc", "abd", "\xff", "\x00", "\x00\x00", "prefix-shared-0001", "prefix-shared-0002", "prefix-shared-0002x"}[r.Intn(11)])
		default:
			b = make([]byte, r.Intn(20))
			for i := range b {
				b[i] = byte('a' + r.Intn(3))
				if r.Intn(10) == 0 {
					b[i] = byte(r.Intn(256))
				}
			}
		}
		return parquet.ByteArrayValue(b), b
	default:
		b := make([]byte, c.flen)
		for i := range b {
			switch {
			case small:
				b[i] = byte(r.Intn(2))
			default:
				b[i] = []byte{0, 1, 0xff, byte(r.Intn(256))}[r.Intn(4)]
			}
		}
		return parquet.FixedLenByteArrayValue(b), b
	}
}

type c01Triple struct {
	null     bool
	val      []byte
	rep, def int
}

func (t c01Triple) String() string {
	v := "n"
	if !t.null {
		v = core.Hex(t.val)
	}
	return fmt.Sprintf("%s/%d/%d", v, t.rep, t.def)
}

// RunC01Pages ties the typed column codecs and the page framings of the Lean file model
// (FileCodecsTyped: mkCodec over valCodecOf, packV1 / packSections) to the real writer, page by page.
func RunC01Pages(ctx *core.Ctx) {
	ctx.SetRule("pages: every physical type x value encoding of the model's table x column shape {required, optional, repeated, repeated group of optional} x data page version {1,2}, uncompressed, random values (boundary patterns, runs, nulls, empty lists) and page buffer sizes: each stored data page is cut out of the file (offset index + thrift page header) and (L2 write side) compared byte for byte with the model writer's page (MIRROR encoders, v1 body framing / v2 sections) for the same triples, (L2 read side) decoded by the model reader (SPEC decoders) and compared with the triples written, and read by the real page reader whose triples must equal those of the model reader built from the MIRRORS of the Go decoders (c01.decgo: levels, values, dirty recycled buffers); non-trivial = a page with both nulls and values or more than one page")
	ncases := ctx.Scale(3, 40)
	var wg sync.WaitGroup
	sem := make(chan struct{}, 16)
	for ci, col := range c01Table {
		wg.Add(1)
		sem <- struct{}{}
		go func(ci int, col c01Col) {
			defer wg.Done()
			defer func() { <-sem }()
			d := ctx.Driver()
			if d == nil {
				return
			}
			r := ctx.Rand(fmt.Sprintf("c01pages/%d", ci))
			for shape := 0; shape < 4; shape++ {
				for k := 0; k < ncases; k++ {
					c01PageCase(ctx, d, r, col, shape, 1+(k+shape)%2)
				}
			}
		}(ci, col)
	}
	wg.Wait()
}

func c01PageCase(ctx *core.Ctx, d interface {
	AskMany([]string) ([]string, error)
}, r *rand.Rand, col c01Col, shape, version int) {
	// schema
	leaf := col.node()
	var node parquet.Node
	maxRep, maxDef := 0, 0
	switch shape {
	case 0:
		node = parquet.Required(leaf)
	case 1:
		node, maxDef = parquet.Optional(leaf), 1
	case 2:
		node, maxRep, maxDef = parquet.Repeated(leaf), 1, 1
	default:
		node, maxRep, maxDef = parquet.Repeated(parquet.Group{"e": parquet.Optional(leaf)}), 1, 2
	}
	schema := parquet.NewSchema("t", parquet.Group{"v": node})
	shapeName := []string{"required", "optional", "repeated", "repeated-optional"}[shape]
	// rows
	nrows := []int{0, 1, 2, 7, 8, 9, 33, 64, 65, 200, 600}[r.Intn(11)]
	small := r.Intn(3) == 0
	nullProb := []float64{0.1, 0.5, 0.9}[r.Intn(3)]
	var rows []parquet.Row
	var stream []c01Triple
	add := func(row parquet.Row, pv parquet.Value, b []byte, rep, def int) parquet.Row {
		null := def < maxDef
		if null {
			pv = parquet.Value{}
		}
		stream = append(stream, c01Triple{null, b, rep, def})
		return append(row, pv.Level(rep, def, 0))
	}
	for i := 0; i < nrows; i++ {
		var row parquet.Row
		switch shape {
		case 0:
			pv, b := col.value(r, small)
			row = add(row, pv, b, 0, 0)
		case 1:
			if r.Float64() < nullProb {
				row = add(row, parquet.Value{}, nil, 0, 0)
			} else {
				pv, b := col.value(r, small)
				row = add(row, pv, b, 0, 1)
			}
		default:
			n := r.Intn(4)
			if r.Intn(20) == 0 {
				n = 10 + r.Intn(300)
			}
			if n == 0 {
				row = add(row, parquet.Value{}, nil, 0, 0)
			}
			for j := 0; j < n; j++ {
				rep := 1
				if j == 0 {
					rep = 0
				}
				if shape == 3 && r.Float64() < nullProb {
					row = add(row, parquet.Value{}, nil, rep, 1)
				} else {
					pv, b := col.value(r, small)
					row = add(row, pv, b, rep, maxDef)
				}
			}
		}
		rows = append(rows, row)
	}
	pageBuf := []int{0, 1, 64, 300, 2000}[r.Intn(5)]
	opts := []parquet.WriterOption{schema, parquet.DataPageVersion(version), parquet.Compression(&parquet.Uncompressed)}
	if pageBuf > 0 {
		opts = append(opts, parquet.PageBufferSize(pageBuf))
	}
	var texts []string
	for _, t := range stream {
		texts = append(texts, t.String())
	}
	canon := fmt.Sprintf("%s(%d) %s %s v%d pagebuf=%d %s", col.ptype, col.flen, col.enc, shapeName, version, pageBuf, strings.Join(texts, ","))
	hasNull, hasVal := false, false
	for _, t := range stream {
		hasNull = hasNull || t.null
		hasVal = hasVal || !t.null
	}
	detail := func(extra map[string]any) map[string]any {
		m := map[string]any{"ptype": col.ptype, "flba_len": col.flen, "encoding": col.enc, "shape": shapeName, "version": version, "page_buffer": pageBuf, "triples(value/rep/def)": texts}
		if len(texts) > 200 {
			m["triples(value/rep/def)"] = append(append([]string{}, texts[:200]...), fmt.Sprintf("... %d triples, regenerate with the run seed", len(texts)))
		}
		for k, v := range extra {
			m[k] = v
		}
		return m
	}
	sig := fmt.Sprintf("%s %s v%d", col.ptype, col.enc, version)
	pages, err := c01WritePages(rows, opts)
	ctx.Case(canon, hasNull && hasVal || len(pages) > 1)
	ctx.Hist("pages-type", col.ptype+"/"+col.enc)
	ctx.Hist("pages-shape", shapeName)
	if err != nil {
		ctx.Fail("L1", "pages write-error "+sig+" "+errClass(err), "writing valid rows failed: "+err.Error(), detail(nil))
		return
	}
	ctx.Hist("pages-per-chunk", fmt.Sprint(min(len(pages), 5)))
	// slice the expected stream by the pages' value counts
	var reqs []string
	type pg struct {
		p      c01RawPage
		expect []c01Triple
	}
	var pgs []pg
	off := 0
	for _, p := range pages {
		if off+p.numValues > len(stream) {
			ctx.Fail("L1", "pages value-count "+sig, fmt.Sprintf("page headers announce more values than the %d written", len(stream)), detail(nil))
			return
		}
		exp := stream[off : off+p.numValues]
		off += p.numValues
		pgs = append(pgs, pg{p, exp})
		var reps, defs []int
		var vals []string
		for _, t := range exp {
			reps = append(reps, t.rep)
			defs = append(defs, t.def)
			if !t.null {
				vals = append(vals, core.Hex(t.val))
			}
		}
		vs := "_" // the empty LIST of values ("-" is the empty byte string)
		if len(vals) > 0 {
			vs = strings.Join(vals, ",")
		}
		v1 := 0
		if version == 1 {
			v1 = 1
		}
		head := fmt.Sprintf("%s %d %s %d %d %d", col.ptype, col.flen, col.enc, v1, maxRep, maxDef)
		reqs = append(reqs, fmt.Sprintf("c01.enc %s %s %s %s", head, core.JoinInts(reps), core.JoinInts(defs), vs))
		reqs = append(reqs, fmt.Sprintf("c01.dec %s %d %s %s %s", head, p.numValues, core.Hex(p.reps), core.Hex(p.defs), core.Hex(p.vals)))
		// the mirror of the BYTE_STREAM_SPLIT FIXED_LEN_BYTE_ARRAY decoder writes its destination by index
		// (quadratic on lists): large pages of that one codec go through the SPEC reader only
		goOp := "c01.decgo"
		if col.ptype == "FIXED_LEN_BYTE_ARRAY" && col.enc == "BYTE_STREAM_SPLIT" && len(p.vals) > 4096 {
			goOp = "c01.dec"
			ctx.Hist("pages-go-mirror", "skipped: large BYTE_STREAM_SPLIT FLBA page")
		} else {
			ctx.Hist("pages-go-mirror", "compared")
		}
		reqs = append(reqs, fmt.Sprintf("%s %s %d %s %s %s", goOp, head, p.numValues, core.Hex(p.reps), core.Hex(p.defs), core.Hex(p.vals)))
	}
	if off != len(stream) {
		ctx.Fail("L1", "pages value-count "+sig, fmt.Sprintf("page headers announce %d values, %d written", off, len(stream)), detail(nil))
		return
	}
	if len(reqs) == 0 {
		return
	}
	ans, err := d.AskMany(reqs)
	if err != nil {
		ctx.Fail("L2", "driver-error", err.Error(), nil)
		return
	}
	for i, g := range pgs {
		encAns, decAns, goAns := ans[3*i], ans[3*i+1], ans[3*i+2]
		f := strings.Fields(encAns)
		want := fmt.Sprintf("%s %s %s", core.Hex(g.p.reps), core.Hex(g.p.defs), core.Hex(g.p.vals))
		switch {
		case len(f) != 5 || f[0] != "ok":
			ctx.Fail("L2", "pages model-writer-refuses "+sig, "model writer answered "+encAns, detail(map[string]any{"page": i, "request": reqs[3*i]}))
		case f[1] != "1":
			ctx.Fail("L2", "pages inadmissible "+sig, "the model calls a page the real writer produced inadmissible", detail(map[string]any{"page": i, "request": reqs[3*i]}))
		case strings.Join(f[2:], " ") != want:
			ctx.Fail("L2", "pages bytes-differ "+sig+" "+shapeName, "stored page differs from the model writer's page (reps defs vals; v1: whole body last)", detail(map[string]any{"page": i, "real": want, "model": strings.Join(f[2:], " "), "request": reqs[3*i]}))
		}
		var exp []string
		for _, t := range g.expect {
			exp = append(exp, t.String())
		}
		wantDec := "ok -"
		if len(exp) > 0 {
			wantDec = "ok " + strings.Join(exp, ",")
		}
		if decAns != wantDec {
			ctx.Fail("L2", "pages model-reader-differs "+sig+" "+shapeName, "the model reader (SPEC decoders) does not read the stored page as the triples written", detail(map[string]any{"page": i, "model": decAns, "written": wantDec, "request": reqs[3*i+1]}))
		}
		// read side, Go decoders: the real page reader against the written triples (L1) and against the
		// model reader built from the MIRRORS of the Go decoders (L2)
		if g.p.read != wantDec {
			ctx.Fail("L1", "pages real-reader-differs "+sig+" "+shapeName, "Pages().ReadPage().Values() does not return the triples written", detail(map[string]any{"page": i, "read": g.p.read, "written": wantDec}))
		}
		if goAns != g.p.read {
			ctx.Fail("L2", "pages go-mirror-reader-differs "+sig+" "+shapeName, "the model reader built from the mirrors of the Go decoders (c01.decgo) and the real page reader disagree on a stored page", detail(map[string]any{"page": i, "model": goAns, "real": g.p.read, "request": reqs[3*i+2]}))
		}
	}
}

// one stored data page: header value count and the three sections (v1: the whole body in vals)
type c01RawPage struct {
	numValues        int
	reps, defs, vals []byte
	read             string // the page as the real reader returns it: triples value/rep/def, or "err: ..."
}

func c01WritePages(rows []parquet.Row, opts []parquet.WriterOption) (pages []c01RawPage, err error) {
	defer func() {
		if r := recover(); r != nil {
			err = fmt.Errorf("PANIC: %v", r)
		}
	}()
	var out bytes.Buffer
	w := parquet.NewWriter(&out, opts...)
	if len(rows) > 0 {
		if _, err := w.WriteRows(rows); err != nil {
			return nil, err
		}
	}
	if err := w.Close(); err != nil {
		return nil, err
	}
	data := out.Bytes()
	f, err := parquet.OpenFile(bytes.NewReader(data), int64(len(data)))
	if err != nil {
		return nil, err
	}
	for _, rg := range f.RowGroups() {
		cc := rg.ColumnChunks()[0]
		oi, err := cc.OffsetIndex()
		if err != nil {
			return nil, err
		}
		for i := 0; i < oi.NumPages(); i++ {
			off, total := oi.Offset(i), oi.CompressedPageSize(i)
			var hdr format.PageHeader
			if err := thrift.NewDecoder(new(thrift.CompactProtocol).NewReaderFromBytes(bytes.Clone(data[off:min(int64(len(data)), off+4096)]))).Decode(&hdr); err != nil {
				return nil, fmt.Errorf("page header %d: %w", i, err)
			}
			body := data[off+total-int64(hdr.CompressedPageSize) : off+total]
			switch {
			case hdr.DataPageHeader.Valid:
				pages = append(pages, c01RawPage{numValues: int(hdr.DataPageHeader.V.NumValues), vals: body})
			case hdr.DataPageHeaderV2.Valid:
				h := hdr.DataPageHeaderV2.V
				rl, dl := int(h.RepetitionLevelsByteLength), int(h.DefinitionLevelsByteLength)
				pages = append(pages, c01RawPage{numValues: int(h.NumValues), reps: body[:rl], defs: body[rl : rl+dl], vals: body[rl+dl:]})
			default:
				return nil, fmt.Errorf("page %d is not a data page", i)
			}
		}
	}
	// the same pages through the real read path (Pages().ReadPage, Values().ReadValues)
	k := 0
	for _, rg := range f.RowGroups() {
		pr := rg.ColumnChunks()[0].Pages()
		for {
			pg, err := pr.ReadPage()
			if err != nil {
				if err != io.EOF && k < len(pages) {
					pages[k].read = "err: " + err.Error()
				}
				break
			}
			var ts []string
			vr := pg.Values()
			buf := make([]parquet.Value, 97)
			for {
				n, err := vr.ReadValues(buf)
				for _, v := range buf[:n] {
					t := c01Triple{null: v.IsNull(), rep: v.RepetitionLevel(), def: v.DefinitionLevel()}
					if !t.null {
						t.val = bytes.Clone(v.Bytes())
					}
					ts = append(ts, t.String())
				}
				if err != nil || n == 0 {
					break
				}
			}
			parquet.Release(pg)
			if k < len(pages) {
				pages[k].read = "ok -"
				if len(ts) > 0 {
					pages[k].read = "ok " + strings.Join(ts, ",")
				}
			}
			k++
		}
		pr.Close()
	}
	if k != len(pages) {
		return nil, fmt.Errorf("the page reader returned %d pages, the offset index lists %d", k, len(pages))
	}
	return pages, nil
}

var _ = gen.Codecs
