package props

// C04, part "dicttable" (round 6): the probe-table dictionaries on the COMPOSED Lean mirror
// (lean/PqModel/DictTable.lean: dictionary state machine -> table mirror of HashProbe.lean -> groups),
// through Driver/Ops/C04DictTable.lean (`dict.tsession`).
//
// No sub-check of its own: the sessions of the dictreset sub-check (c04_dictreset.go) whose type is backed
// by a hashprobe table are sent to the composed mirror as well (L2 key dictreset-<type>-session-table-model),
// and the empty-first-Insert probe of c04_plain.go is compared with the mirror's prediction: the real call
// never returns exactly when the mirror's `init` loop never ends (theorem table_session_terminates_iff).
// The mirror runs with the exact-rational tableSizeAndMaxLen and fixed seed functions; by
// table_session_independent_of_table_parameters the answers depend on neither.

import (
	"fmt"

	"verifharness/core"
)

// group size, capacity clamp of makeTableNN and maxLoad (percent) of the type's table; ok = probe family
func c4TableParams(t c4dictType) (g, minCap, load int, ok bool) {
	switch t.name {
	case "int32", "float", "uint32":
		return 7, 7, 85, true
	case "int64", "double", "uint64":
		return 4, 4, 85, true
	case "flba16-be128", "uuid":
		return 1, 8, 75, true
	}
	return 0, 0, 0, false
}

func c4TableSessionReq(t c4dictType, chunk int, init, ops string) (string, bool) {
	g, mc, load, ok := c4TableParams(t)
	if !ok {
		return "", false
	}
	return fmt.Sprintf("dict.tsession %d %d %d 100 %d %s %s", g, mc, load, chunk, init, ops), true
}

// the same session on the composed mirror (called by sessionCase after the list-oracle comparison)
func (w *c4worker) tableSessionCase(s c4session, goAns string, detail func(map[string]any) map[string]any) {
	fam, chunk := c4DictFamily(s.t)
	if fam != "probe" {
		return
	}
	req, ok := c4TableSessionReq(s.t, chunk, c4toks(s.t.k, s.init), s.opsToken())
	if !ok {
		return
	}
	ctx := w.b.ctx
	ctx.Hist("session.table-mirror", s.t.name)
	w.b.ask(req, func(ans string) {
		if ans != goAns {
			ctx.Fail("L2", "dictreset-"+s.t.name+"-session-table-model",
				"indexes / pages of an Insert-Reset session differ from the Lean mirror of the dictionary over the hashprobe table mirror",
				detail(map[string]any{"go": c4short(goAns), "model": c4short(ans), "request": c4short(req)}))
		}
	})
}

// outcome of the real empty first Insert on a pre-loaded dictionary ("hang" | "returns") against the mirror
func c4EmptyInsertMirror(ctx *core.Ctx, t c4dictType, init [][]byte, outcome string) {
	fam, chunk := c4DictFamily(t)
	if fam != "probe" {
		return
	}
	req, ok := c4TableSessionReq(t, chunk, c4toks(t.k, init), "i=-")
	if !ok {
		return
	}
	d := ctx.Driver()
	if d == nil {
		return
	}
	ans, err := d.Ask(req)
	if err != nil {
		ctx.Fail("L2", "driver-error", err.Error(), nil)
		return
	}
	model := "returns"
	if ans == "hang" {
		model = "hang"
	} else if len(ans) < 3 || ans[:3] != "ok " {
		model = ans
	}
	ctx.Hist("dict.empty-insert.table-mirror", model)
	if model != outcome {
		ctx.Fail("L2", "dict-preloaded-empty-insert-termination-model",
			"the real first Insert of an empty batch on a pre-loaded dictionary and the Lean mirror of init disagree on termination",
			map[string]any{"type": t.name, "go": outcome, "model": c4short(ans), "request": req, "variant": ctx.Variant})
	}
}
