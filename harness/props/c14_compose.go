package props

// C14, sub-check `compose` — source faults under the library's composite readers.
//
// The readat sub-check fails the io.ReaderAt of ONE file read through its own row and page readers.
// Applications read files through the readers the library builds on top of those: merges of two and
// of more row groups (overlapping, partially overlapping, disjoint key ranges, with and without
// dropping duplicates), MultiRowGroup, ConvertRowGroup, the Filter/Dedupe/Transform/Scan row reader
// adaptors, MergeRowReaders, Reader / GenericReader / parquet.Read. Each of them sits between the
// failing source and the caller and has its own idea of what "this input is finished" means.
//
// For every pipeline, every input file of the pipeline, every ReadAt call index of that input
// (open + full read; sampled in the quick tier) and the fault family of `readat` (rejected, sticky,
// short with an error, short with io.EOF — cut at half, 0, 1, len-1): some call of the consumer
// (own ReadRows loop, parquet.CopyRows into a collecting writer, CopyRows into a parquet Writer and
// Writer.WriteRowGroup, both read back) returns a non-nil error, or everything it was given equals
// the fault-free run. No call panics.

import (
	"bytes"
	"fmt"
	"io"
	"sort"
	"strings"
	"sync"

	"github.com/parquet-go/parquet-go"

	"verifharness/core"
	"verifharness/gen"
)

func init() { RegisterSub("C14", "compose", RunC14Compose) }

type c14MRow struct {
	K int64  `parquet:"k"`
	S string `parquet:"s,dict"`
	O *int32 `parquet:"o,optional"`
}

// target of the conversion pipelines: one column dropped, one added, one kept
type c14MRowConv struct {
	K int64   `parquet:"k"`
	S string  `parquet:"s,dict"`
	X *string `parquet:"x,optional"`
}

type c14Source struct {
	name string
	desc string
	data []byte
}

type c14Opened struct {
	files []*parquet.File
}

// a pipeline: which sources it reads and what it builds from the opened files
type c14Pipeline struct {
	name    string
	sources []int
	// exactly one of rowGroup / rows / whole is set
	rowGroup func(fs []*parquet.File) (parquet.RowGroup, error)
	rows     func(fs []*parquet.File) (parquet.RowReader, func(), error)
	whole    func(xs []io.ReaderAt, sizes []int64) (string, error) // typed readers: returns the digest itself
}

func c14ComposeSources(ctx *core.Ctx) []*c14Source {
	r := ctx.Rand("c14/compose/sources")
	mk := func(name string, first, step, count, maxRows int) *c14Source {
		rows := make([]c14MRow, count)
		for i := range rows {
			k := int64(first + i*step)
			rows[i] = c14MRow{K: k, S: fmt.Sprintf("s-%02d", k%17)}
			if r.Intn(4) > 0 {
				x := int32(k % 1000)
				rows[i].O = &x
			}
		}
		var buf bytes.Buffer
		opts := []parquet.WriterOption{parquet.PageBufferSize(512),
			parquet.SortingWriterConfig(parquet.SortingColumns(parquet.Ascending("k")))}
		if maxRows > 0 {
			opts = append(opts, parquet.MaxRowsPerRowGroup(int64(maxRows)))
		}
		w := parquet.NewGenericWriter[c14MRow](&buf, opts...)
		if _, err := w.Write(rows); err != nil {
			panic(err)
		}
		if err := w.Close(); err != nil {
			panic(err)
		}
		return &c14Source{name: name, data: buf.Bytes(),
			desc: fmt.Sprintf("c14MRow{k int64; s string dict; o *int32} %d rows k=%d+%d*i sorted by k, pagebuf=512, maxrows=%d", count, first, step, maxRows)}
	}
	n := ctx.Scale(420, 900)
	return []*c14Source{
		mk("A-even", 0, 2, n, 0),           // 0: even keys
		mk("B-odd", 1, 2, n, 0),            // 1: odd keys over the same range: every refill interleaves
		mk("C-later", 4*n, 1, n/2, 0),      // 2: disjoint, after A and B
		mk("D-partial", n, 3, n/2, 0),      // 3: overlaps the upper half of A/B and goes beyond
		mk("E-dup-of-A", 0, 2, n/2, 0),     // 4: same keys as the lower half of A
		mk("F-two-groups", 0, 1, n, n/2+7), // 5: two row groups in one file
	}
}

func c14MCompare(a, b parquet.Row) int {
	switch x, y := a[0].Int64(), b[0].Int64(); {
	case x < y:
		return -1
	case x > y:
		return 1
	}
	return 0
}

func c14ComposePipelines() []*c14Pipeline {
	sorting := parquet.SortingRowGroupConfig(parquet.SortingColumns(parquet.Ascending("k")))
	dropping := parquet.SortingRowGroupConfig(parquet.SortingColumns(parquet.Ascending("k")), parquet.DropDuplicatedRows(true))
	allGroups := func(fs []*parquet.File) (rgs []parquet.RowGroup) {
		for _, f := range fs {
			rgs = append(rgs, f.RowGroups()...)
		}
		return rgs
	}
	merge := func(name string, opt parquet.RowGroupOption, sources ...int) *c14Pipeline {
		return &c14Pipeline{name: name, sources: sources, rowGroup: func(fs []*parquet.File) (parquet.RowGroup, error) {
			if opt == nil {
				return parquet.MergeRowGroups(allGroups(fs))
			}
			return parquet.MergeRowGroups(allGroups(fs), opt)
		}}
	}
	adaptor := func(name string, wrap func(parquet.RowReader) parquet.RowReader) *c14Pipeline {
		return &c14Pipeline{name: name, sources: []int{5}, rows: func(fs []*parquet.File) (parquet.RowReader, func(), error) {
			rows := parquet.MultiRowGroup(fs[0].RowGroups()...).Rows()
			return wrap(rows), func() { rows.Close() }, nil
		}}
	}
	ps := []*c14Pipeline{
		merge("merge2-interleaved", sorting, 0, 1),
		merge("merge2-swapped", sorting, 1, 0),
		merge("merge2-partial", sorting, 0, 3),
		merge("merge2-disjoint", sorting, 0, 2),
		merge("merge2-dedupe", dropping, 0, 4),
		merge("merge3", sorting, 0, 1, 3),
		merge("merge3-groups", sorting, 5, 1), // three row groups: two of one file, one of another
		merge("merge2-autodetect", nil, 0, 1),  // sorting columns taken from the files
		{name: "multi-rowgroup", sources: []int{5, 2}, rowGroup: func(fs []*parquet.File) (parquet.RowGroup, error) {
			return parquet.MultiRowGroup(allGroups(fs)...), nil
		}},
		{name: "convert-rowgroup", sources: []int{5}, rowGroup: func(fs []*parquet.File) (parquet.RowGroup, error) {
			conv, err := parquet.Convert(parquet.SchemaOf(c14MRowConv{}), fs[0].Schema())
			if err != nil {
				return nil, err
			}
			return parquet.ConvertRowGroup(parquet.MultiRowGroup(fs[0].RowGroups()...), conv), nil
		}},
		{name: "merge3-nested", sources: []int{0, 1, 3}, rowGroup: func(fs []*parquet.File) (parquet.RowGroup, error) {
			inner, err := parquet.MergeRowGroups([]parquet.RowGroup{fs[0].RowGroups()[0], fs[1].RowGroups()[0]}, sorting)
			if err != nil {
				return nil, err
			}
			return parquet.MergeRowGroups([]parquet.RowGroup{inner, fs[2].RowGroups()[0]}, sorting)
		}},
		{name: "merge2-rowreaders", sources: []int{0, 1}, rows: func(fs []*parquet.File) (parquet.RowReader, func(), error) {
			a, b := fs[0].RowGroups()[0].Rows(), fs[1].RowGroups()[0].Rows()
			return parquet.MergeRowReaders([]parquet.RowReader{a, b}, c14MCompare), func() { a.Close(); b.Close() }, nil
		}},
		{name: "merge3-rowreaders", sources: []int{0, 1, 3}, rows: func(fs []*parquet.File) (parquet.RowReader, func(), error) {
			a, b, c := fs[0].RowGroups()[0].Rows(), fs[1].RowGroups()[0].Rows(), fs[2].RowGroups()[0].Rows()
			return parquet.MergeRowReaders([]parquet.RowReader{a, b, c}, c14MCompare), func() { a.Close(); b.Close(); c.Close() }, nil
		}},
		adaptor("filter-rowreader", func(r parquet.RowReader) parquet.RowReader {
			return parquet.FilterRowReader(r, func(row parquet.Row) bool { return row[0].Int64()%3 != 0 })
		}),
		adaptor("dedupe-rowreader", func(r parquet.RowReader) parquet.RowReader {
			return parquet.DedupeRowReader(r, func(a, b parquet.Row) int { return c14MCompare(parquet.Row{parquet.Int64Value(a[0].Int64() / 2)}, parquet.Row{parquet.Int64Value(b[0].Int64() / 2)}) })
		}),
		adaptor("transform-rowreader", func(r parquet.RowReader) parquet.RowReader {
			return parquet.TransformRowReader(r, func(dst, src parquet.Row) (parquet.Row, error) {
				if src[0].Int64()%5 == 0 {
					return dst, nil
				}
				return append(dst, src...), nil
			})
		}),
		adaptor("scan-rowreader", func(r parquet.RowReader) parquet.RowReader {
			return parquet.ScanRowReader(r, func(parquet.Row, int64) bool { return true })
		}),
		{name: "typed-reader", sources: []int{5}, whole: func(xs []io.ReaderAt, sizes []int64) (string, error) {
			pf, err := parquet.OpenFile(xs[0], sizes[0])
			if err != nil {
				return "", err
			}
			rd := parquet.NewReader(pf)
			defer rd.Close()
			var sb strings.Builder
			for {
				var row c14MRow
				err := rd.Read(&row)
				if err == io.EOF {
					return sb.String(), nil
				}
				if err != nil {
					return "", err
				}
				c14MRowDigest(&sb, &row)
			}
		}},
		{name: "typed-genericreader", sources: []int{5}, whole: func(xs []io.ReaderAt, sizes []int64) (string, error) {
			pf, err := parquet.OpenFile(xs[0], sizes[0])
			if err != nil {
				return "", err
			}
			rd := parquet.NewGenericReader[c14MRow](pf)
			defer rd.Close()
			var sb strings.Builder
			buf := make([]c14MRow, 33)
			for {
				n, err := rd.Read(buf)
				for i := range buf[:n] {
					c14MRowDigest(&sb, &buf[i])
				}
				if err == io.EOF {
					return sb.String(), nil
				}
				if err != nil {
					return "", err
				}
				if n == 0 {
					return "", fmt.Errorf("Read returned 0 rows and no error")
				}
			}
		}},
		{name: "typed-read", sources: []int{5}, whole: func(xs []io.ReaderAt, sizes []int64) (string, error) {
			rows, err := parquet.Read[c14MRow](xs[0], sizes[0])
			if err != nil {
				return "", err
			}
			var sb strings.Builder
			for i := range rows {
				c14MRowDigest(&sb, &rows[i])
			}
			return sb.String(), nil
		}},
	}
	return ps
}

func c14MRowDigest(sb *strings.Builder, row *c14MRow) {
	if row.O == nil {
		fmt.Fprintf(sb, "%d,%s,nil;", row.K, row.S)
	} else {
		fmt.Fprintf(sb, "%d,%s,%d;", row.K, row.S, *row.O)
	}
}

var c14ComposeConsumers = []string{"readrows", "copyrows", "copyrows-writer", "writerowgroup"}

// c14ComposeRun runs one pipeline with one consumer over the given sources.
// class: error (some call reported) | panic | ok (digest of everything the consumer was given)
func c14ComposeRun(p *c14Pipeline, consumer string, xs []io.ReaderAt, sizes []int64) (class, digest string, err error) {
	defer func() {
		if r := recover(); r != nil {
			class, err = "panic", fmt.Errorf("%v | %s", r, c14Stack())
		}
	}()
	if p.whole != nil {
		d, err := p.whole(xs, sizes)
		if err != nil {
			return "error", "", err
		}
		return "ok", d, nil
	}
	fs := make([]*parquet.File, len(xs))
	for i := range xs {
		// a small read buffer: the row readers go back to the source many times
		f, err := parquet.OpenFile(xs[i], sizes[i], parquet.ReadBufferSize(256))
		if err != nil {
			return "error", "", err
		}
		fs[i] = f
	}
	var rows parquet.RowReader
	var rg parquet.RowGroup
	closeRows := func() {}
	if p.rowGroup != nil {
		if rg, err = p.rowGroup(fs); err != nil {
			return "error", "", err
		}
		if consumer != "writerowgroup" {
			rr := rg.Rows()
			rows, closeRows = rr, func() { rr.Close() }
		}
	} else {
		if rows, closeRows, err = p.rows(fs); err != nil {
			return "error", "", err
		}
	}
	defer closeRows()
	var sb strings.Builder
	readBack := func(out []byte) (string, string, error) {
		cols, nr, err := gen.ReadRowsColumns(out, 16)
		if err != nil {
			return "ok", "UNREADABLE OUTPUT: " + err.Error(), nil
		}
		fmt.Fprintf(&sb, "rows=%d;", nr)
		for ci, col := range cols {
			fmt.Fprintf(&sb, "col%d:%v;", ci, col)
		}
		return "ok", sb.String(), nil
	}
	switch consumer {
	case "readrows":
		buf := make([]parquet.Row, 37)
		for {
			n, err := rows.ReadRows(buf)
			for _, row := range buf[:n] {
				for _, v := range row {
					fmt.Fprintf(&sb, "%d:%v,", v.Column(), gen.TripleOf(v))
				}
				sb.WriteByte(';')
			}
			if err == io.EOF {
				return "ok", sb.String(), nil
			}
			if err != nil {
				return "error", "", err
			}
			if n == 0 {
				return "error", "", fmt.Errorf("ReadRows returned 0 rows and no error")
			}
		}
	case "copyrows":
		coll := &c14Collector{sb: &sb}
		if _, err := parquet.CopyRows(coll, rows); err != nil {
			return "error", "", err
		}
		return "ok", sb.String(), nil
	case "copyrows-writer":
		var out bytes.Buffer
		schema := sourceSchema(rows, rg)
		w := parquet.NewWriter(&out, schema)
		_, err := parquet.CopyRows(w, rows)
		if err == nil {
			err = w.Close()
		}
		if err != nil {
			return "error", "", err
		}
		return readBack(out.Bytes())
	case "writerowgroup":
		var out bytes.Buffer
		w := parquet.NewWriter(&out, rg.Schema())
		_, err := w.WriteRowGroup(rg)
		if err == nil {
			err = w.Close()
		}
		if err != nil {
			return "error", "", err
		}
		return readBack(out.Bytes())
	}
	panic("c14: unknown consumer " + consumer)
}

func sourceSchema(rows parquet.RowReader, rg parquet.RowGroup) *parquet.Schema {
	if rg != nil {
		return rg.Schema()
	}
	if s, ok := rows.(interface{ Schema() *parquet.Schema }); ok && s.Schema() != nil {
		return s.Schema()
	}
	return parquet.SchemaOf(c14MRow{})
}

func RunC14Compose(ctx *core.Ctx) {
	ctx.SetRule(c14Rule)
	rp := c14LoadReplay(ctx)
	if rp != nil {
		if _, ok := rp.num("compose_failing_call"); !ok {
			return
		}
	}
	srcs := c14ComposeSources(ctx)
	type job struct {
		p        *c14Pipeline
		consumer string
	}
	var jobs []job
	for _, p := range c14ComposePipelines() {
		consumers := c14ComposeConsumers
		switch {
		case p.whole != nil:
			consumers = []string{"typed"}
		case p.rowGroup == nil:
			consumers = c14ComposeConsumers[:3]
		}
		for _, c := range consumers {
			if rp != nil && (rp.str("pipeline") != p.name || rp.str("consumer") != c) {
				continue
			}
			jobs = append(jobs, job{p, c})
		}
	}
	var wg sync.WaitGroup
	sem := make(chan struct{}, 16)
	for ji, j := range jobs {
		wg.Add(1)
		sem <- struct{}{}
		go func(ji int, j job) {
			defer wg.Done()
			defer func() { <-sem }()
			c14ComposeJob(ctx, srcs, j.p, j.consumer, rp, ji == 0)
		}(ji, j)
	}
	wg.Wait()
}

func c14ComposeJob(ctx *core.Ctx, srcs []*c14Source, p *c14Pipeline, consumer string, rp *c14Replay, sample bool) {
	r := ctx.Rand("c14/compose/" + p.name + "/" + consumer)
	sizes := make([]int64, len(p.sources))
	for i, si := range p.sources {
		sizes[i] = int64(len(srcs[si].data))
	}
	mkReaders := func(faulty int, failAt int, mode string, keep int, record bool) ([]io.ReaderAt, []*c14ReaderAt) {
		xs := make([]io.ReaderAt, len(p.sources))
		cs := make([]*c14ReaderAt, len(p.sources))
		for i, si := range p.sources {
			x := &c14ReaderAt{r: bytes.NewReader(srcs[si].data), failAt: -1, keep: -1, record: record}
			if i == faulty {
				x.failAt, x.mode, x.keep = int32(failAt), mode, keep
			}
			xs[i], cs[i] = x, x
		}
		return xs, cs
	}
	var descs []string
	for _, si := range p.sources {
		descs = append(descs, srcs[si].name+": "+srcs[si].desc)
	}
	base := map[string]any{"pipeline": p.name, "consumer": consumer, "sources": descs}
	// fault-free run, twice (the call sequence must be reproducible)
	xs, cs := mkReaders(-1, 0, "", -1, true)
	class, want, err := c14ComposeRun(p, consumer, xs, sizes)
	if class != "ok" {
		base["error"] = fmt.Sprint(err)
		ctx.Fail("L1", "fault-free-read-fails pipeline="+p.name+" consumer="+consumer, "the pipeline fails without any fault: "+class, base)
		return
	}
	xs2, cs2 := mkReaders(-1, 0, "", -1, true)
	_, want2, _ := c14ComposeRun(p, consumer, xs2, sizes)
	for i := range cs {
		if cs[i].calls != cs2[i].calls || want != want2 {
			ctx.Hist("compose.deterministic", "no")
			return
		}
	}
	if strings.HasPrefix(want, "UNREADABLE") || len(want) < 100 {
		base["digest"] = headOf(want, 300)
		ctx.Fail("L1", "fault-free-read-fails pipeline="+p.name+" consumer="+consumer, "the fault-free output of the pipeline is empty or does not read back", base)
		return
	}
	ctx.Hist("compose.pipeline", p.name)
	for j := range p.sources {
		n1 := int(cs[j].calls)
		calls := cs[j].log
		ctx.Hist("compose.calls", sizeBucket(n1))
		idx := make([]int, n1)
		for i := range idx {
			idx[i] = i
		}
		if max := ctx.Scale(14, 100000); n1 > max {
			r.Shuffle(n1, func(a, b int) { idx[a], idx[b] = idx[b], idx[a] })
			idx = append([]int{n1 - 1}, idx[:max]...)
			sort.Ints(idx)
		}
		if rp != nil {
			if s, _ := rp.num("faulty_source"); s != j {
				continue
			}
			k, _ := rp.num("compose_failing_call")
			idx = []int{k}
		}
		type fault struct {
			mode string
			keep int
		}
		for _, i := range idx {
			if i < 0 || i >= len(calls) {
				continue
			}
			ln := int(calls[i][1])
			cuts := []int{-1}
			if ln > 1 {
				cuts = append(cuts, 0)
			}
			if ln > 2 && (ctx.Thorough() || r.Intn(3) == 0) {
				cuts = append(cuts, 1, ln-1)
			}
			faults := []fault{{"full", -1}, {"fullsticky", -1}}
			for _, c := range cuts {
				faults = append(faults, fault{"short", c}, fault{"shorteof", c})
			}
			if rp != nil {
				keep := -1
				if k, ok := rp.num("kept_bytes"); ok && strings.HasPrefix(rp.str("mode"), "short") {
					keep = k
				}
				faults = []fault{{rp.str("mode"), keep}}
			}
			for _, ft := range faults {
				xs, cs := mkReaders(j, i, ft.mode, ft.keep, false)
				class, digest, err := c14ComposeRun(p, consumer, xs, sizes)
				x := cs[j]
				kept := 0
				if ft.mode == "short" || ft.mode == "shorteof" {
					kept = x.cut(x.hitLen)
				}
				if !x.hit || (strings.HasPrefix(ft.mode, "short") && kept == x.hitLen) {
					ctx.Hist("compose.skipped", "fault-not-effective")
					continue
				}
				ctx.Case(fmt.Sprintf("compose|%s|%s|%d|%d|%s|%d", p.name, consumer, j, i, ft.mode, kept), i > 0)
				detail := map[string]any{"pipeline": p.name, "consumer": consumer, "sources": descs, "faulty_source": j, "compose_failing_call": i,
					"calls_fault_free": n1, "mode": ft.mode, "read_offset": calls[i][0], "read_length": x.hitLen, "kept_bytes": kept}
				if class == "ok" {
					class = "complete"
					if digest != want {
						class = "altered"
						detail["got"] = c14DigestDiff(digest, want)
						detail["want"] = c14DigestDiff(want, digest)
					}
				}
				detail["outcome"] = class
				if err != nil {
					detail["error"] = headOf(err.Error(), 600)
				}
				ctx.Hist("compose.outcome "+ft.mode, class)
				ctx.Hist("compose.consumer", consumer)
				if sample && j == 0 && i == idx[len(idx)/2] && ft.mode == "short" && ft.keep == -1 {
					ctx.Sample(detail)
				}
				// the key names the family of the pipeline (merge2, merge3, multi, convert, filter, ...,
				// typed) and the fault mode; the full pipeline and the consumer are in the detail
				sig := fmt.Sprintf("pipeline=%s mode=%s", strings.SplitN(p.name, "-", 2)[0], ft.mode)
				switch class {
				case "panic":
					ctx.Fail("L1", "source-fault-panics "+sig+" "+panicClass(err.Error()),
						fmt.Sprintf("ReadAt call %d of input %d fails (%s) and the pipeline panics", i, j, ft.mode), detail)
				case "altered":
					ctx.Fail("L1", "source-fault-alters-rows "+sig,
						fmt.Sprintf("ReadAt call %d of input %d (%s) fails (%s), no call of the consumer returns an error and the rows it was given differ from the fault-free run", i, j, srcs[p.sources[j]].name, ft.mode), detail)
				case "complete":
					ctx.Hist("compose.absorbed "+ft.mode, "complete-rows")
				}
			}
		}
	}
}
