package props

// C14, sub-check `compose` — source faults under the library's composite readers.
//
// The readat sub-check fails the io.ReaderAt of ONE file read through its own row and page readers.
// Applications read files through the readers the library builds on top of those: merges of two and
// of more row groups (overlapping, partially overlapping, disjoint key ranges, with and without
// dropping duplicates), MultiRowGroup, ConvertRowGroup, the Filter/Dedupe/Transform/Scan row reader
// adaptors, MergeRowReaders, Reader / GenericReader / parquet.Read. Each of them sits between the
// failing source and the caller and has its own idea of what "this input is finished" means.
//
// For every pipeline, every input file of the pipeline, every ReadAt call index of that input
// (open + full read; sampled in the quick tier) and the fault family of `readat` (rejected, sticky,
// short with an error, short with io.EOF — cut at half, 0, 1, len-1): some call of the consumer
// (own ReadRows loop, parquet.CopyRows into a collecting writer, CopyRows into a parquet Writer and
// Writer.WriteRowGroup, both read back) returns a non-nil error, or everything it was given equals
// the fault-free run. No call panics.

import (
	"bytes"
	"encoding/hex"
	"fmt"
	"io"
	"math/rand"
	"sort"
	"strings"
	"sync"

	"github.com/parquet-go/parquet-go"
	"github.com/parquet-go/parquet-go/bloom"

	"verifharness/core"
	"verifharness/gen"
)

func init() { RegisterSub("C14", "compose", RunC14Compose) }

type c14MRow struct {
	K int64  `parquet:"k"`
	S string `parquet:"s,dict"`
	O *int32 `parquet:"o,optional"`
}

// target of the conversion pipelines: one column dropped, one added, one kept
type c14MRowConv struct {
	K int64   `parquet:"k"`
	S string  `parquet:"s,dict"`
	X *string `parquet:"x,optional"`
}

type c14Source struct {
	name string
	desc string
	data []byte
}

type c14Opened struct {
	files []*parquet.File
}

// a pipeline: which sources it reads and what it builds from the opened files
type c14Pipeline struct {
	name    string
	sources []int
	// exactly one of rowGroup / rows / whole is set
	rowGroup func(fs []*parquet.File) (parquet.RowGroup, error)
	rows     func(fs []*parquet.File) (parquet.RowReader, func(), error)
	whole    func(xs []io.ReaderAt, sizes []int64) (string, error) // typed readers: returns the digest itself
}

func c14ComposeSources(ctx *core.Ctx) []*c14Source {
	r := ctx.Rand("c14/compose/sources")
	mk := func(name string, first, step, count, maxRows int) *c14Source {
		rows := make([]c14MRow, count)
		for i := range rows {
			k := int64(first + i*step)
			rows[i] = c14MRow{K: k, S: fmt.Sprintf("s-%02d", k%17)}
			if r.Intn(4) > 0 {
				x := int32(k % 1000)
				rows[i].O = &x
			}
		}
		var buf bytes.Buffer
		opts := []parquet.WriterOption{parquet.PageBufferSize(512),
			parquet.SortingWriterConfig(parquet.SortingColumns(parquet.Ascending("k")))}
		if maxRows > 0 {
			opts = append(opts, parquet.MaxRowsPerRowGroup(int64(maxRows)))
		}
		w := parquet.NewGenericWriter[c14MRow](&buf, opts...)
		if _, err := w.Write(rows); err != nil {
			panic(err)
		}
		if err := w.Close(); err != nil {
			panic(err)
		}
		return &c14Source{name: name, data: buf.Bytes(),
			desc: fmt.Sprintf("c14MRow{k int64; s string dict; o *int32} %d rows k=%d+%d*i sorted by k, pagebuf=512, maxrows=%d", count, first, step, maxRows)}
	}
	n := ctx.Scale(420, 900)
	return []*c14Source{
		mk("A-even", 0, 2, n, 0),           // 0: even keys
		mk("B-odd", 1, 2, n, 0),            // 1: odd keys over the same range: every refill interleaves
		mk("C-later", 4*n, 1, n/2, 0),      // 2: disjoint, after A and B
		mk("D-partial", n, 3, n/2, 0),      // 3: overlaps the upper half of A/B and goes beyond
		mk("E-dup-of-A", 0, 2, n/2, 0),     // 4: same keys as the lower half of A
		mk("F-two-groups", 0, 1, n, n/2+7), // 5: two row groups in one file
	}
}

func c14MCompare(a, b parquet.Row) int {
	switch x, y := a[0].Int64(), b[0].Int64(); {
	case x < y:
		return -1
	case x > y:
		return 1
	}
	return 0
}

func c14ComposePipelines() []*c14Pipeline {
	sorting := parquet.SortingRowGroupConfig(parquet.SortingColumns(parquet.Ascending("k")))
	dropping := parquet.SortingRowGroupConfig(parquet.SortingColumns(parquet.Ascending("k")), parquet.DropDuplicatedRows(true))
	allGroups := func(fs []*parquet.File) (rgs []parquet.RowGroup) {
		for _, f := range fs {
			rgs = append(rgs, f.RowGroups()...)
		}
		return rgs
	}
	merge := func(name string, opt parquet.RowGroupOption, sources ...int) *c14Pipeline {
		return &c14Pipeline{name: name, sources: sources, rowGroup: func(fs []*parquet.File) (parquet.RowGroup, error) {
			if opt == nil {
				return parquet.MergeRowGroups(allGroups(fs))
			}
			return parquet.MergeRowGroups(allGroups(fs), opt)
		}}
	}
	adaptor := func(name string, wrap func(parquet.RowReader) parquet.RowReader) *c14Pipeline {
		return &c14Pipeline{name: name, sources: []int{5}, rows: func(fs []*parquet.File) (parquet.RowReader, func(), error) {
			rows := parquet.MultiRowGroup(fs[0].RowGroups()...).Rows()
			return wrap(rows), func() { rows.Close() }, nil
		}}
	}
	ps := []*c14Pipeline{
		merge("merge2-interleaved", sorting, 0, 1),
		merge("merge2-swapped", sorting, 1, 0),
		merge("merge2-partial", sorting, 0, 3),
		merge("merge2-disjoint", sorting, 0, 2),
		merge("merge2-dedupe", dropping, 0, 4),
		merge("merge3", sorting, 0, 1, 3),
		merge("merge3-groups", sorting, 5, 1), // three row groups: two of one file, one of another
		merge("merge2-autodetect", nil, 0, 1),  // sorting columns taken from the files
		{name: "multi-rowgroup", sources: []int{5, 2}, rowGroup: func(fs []*parquet.File) (parquet.RowGroup, error) {
			return parquet.MultiRowGroup(allGroups(fs)...), nil
		}},
		{name: "convert-rowgroup", sources: []int{5}, rowGroup: func(fs []*parquet.File) (parquet.RowGroup, error) {
			conv, err := parquet.Convert(parquet.SchemaOf(c14MRowConv{}), fs[0].Schema())
			if err != nil {
				return nil, err
			}
			return parquet.ConvertRowGroup(parquet.MultiRowGroup(fs[0].RowGroups()...), conv), nil
		}},
		{name: "merge3-nested", sources: []int{0, 1, 3}, rowGroup: func(fs []*parquet.File) (parquet.RowGroup, error) {
			inner, err := parquet.MergeRowGroups([]parquet.RowGroup{fs[0].RowGroups()[0], fs[1].RowGroups()[0]}, sorting)
			if err != nil {
				return nil, err
			}
			return parquet.MergeRowGroups([]parquet.RowGroup{inner, fs[2].RowGroups()[0]}, sorting)
		}},
		{name: "merge2-rowreaders", sources: []int{0, 1}, rows: func(fs []*parquet.File) (parquet.RowReader, func(), error) {
			a, b := fs[0].RowGroups()[0].Rows(), fs[1].RowGroups()[0].Rows()
			return parquet.MergeRowReaders([]parquet.RowReader{a, b}, c14MCompare), func() { a.Close(); b.Close() }, nil
		}},
		{name: "merge3-rowreaders", sources: []int{0, 1, 3}, rows: func(fs []*parquet.File) (parquet.RowReader, func(), error) {
			a, b, c := fs[0].RowGroups()[0].Rows(), fs[1].RowGroups()[0].Rows(), fs[2].RowGroups()[0].Rows()
			return parquet.MergeRowReaders([]parquet.RowReader{a, b, c}, c14MCompare), func() { a.Close(); b.Close(); c.Close() }, nil
		}},
		adaptor("filter-rowreader", func(r parquet.RowReader) parquet.RowReader {
			return parquet.FilterRowReader(r, func(row parquet.Row) bool { return row[0].Int64()%3 != 0 })
		}),
		adaptor("dedupe-rowreader", func(r parquet.RowReader) parquet.RowReader {
			return parquet.DedupeRowReader(r, func(a, b parquet.Row) int { return c14MCompare(parquet.Row{parquet.Int64Value(a[0].Int64() / 2)}, parquet.Row{parquet.Int64Value(b[0].Int64() / 2)}) })
		}),
		adaptor("transform-rowreader", func(r parquet.RowReader) parquet.RowReader {
			return parquet.TransformRowReader(r, func(dst, src parquet.Row) (parquet.Row, error) {
				if src[0].Int64()%5 == 0 {
					return dst, nil
				}
				return append(dst, src...), nil
			})
		}),
		adaptor("scan-rowreader", func(r parquet.RowReader) parquet.RowReader {
			return parquet.ScanRowReader(r, func(parquet.Row, int64) bool { return true })
		}),
		{name: "typed-reader", sources: []int{5}, whole: func(xs []io.ReaderAt, sizes []int64) (string, error) {
			pf, err := parquet.OpenFile(xs[0], sizes[0])
			if err != nil {
				return "", err
			}
			rd := parquet.NewReader(pf)
			defer rd.Close()
			var sb strings.Builder
			for {
				var row c14MRow
				err := rd.Read(&row)
				if err == io.EOF {
					return sb.String(), nil
				}
				if err != nil {
					return "", err
				}
				c14MRowDigest(&sb, &row)
			}
		}},
		{name: "typed-genericreader", sources: []int{5}, whole: func(xs []io.ReaderAt, sizes []int64) (string, error) {
			pf, err := parquet.OpenFile(xs[0], sizes[0])
			if err != nil {
				return "", err
			}
			rd := parquet.NewGenericReader[c14MRow](pf)
			defer rd.Close()
			var sb strings.Builder
			buf := make([]c14MRow, 33)
			for {
				n, err := rd.Read(buf)
				for i := range buf[:n] {
					c14MRowDigest(&sb, &buf[i])
				}
				if err == io.EOF {
					return sb.String(), nil
				}
				if err != nil {
					return "", err
				}
				if n == 0 {
					return "", fmt.Errorf("Read returned 0 rows and no error")
				}
			}
		}},
		{name: "typed-read", sources: []int{5}, whole: func(xs []io.ReaderAt, sizes []int64) (string, error) {
			rows, err := parquet.Read[c14MRow](xs[0], sizes[0])
			if err != nil {
				return "", err
			}
			var sb strings.Builder
			for i := range rows {
				c14MRowDigest(&sb, &rows[i])
			}
			return sb.String(), nil
		}},
	}
	return ps
}

func c14MRowDigest(sb *strings.Builder, row *c14MRow) {
	if row.O == nil {
		fmt.Fprintf(sb, "%d,%s,nil;", row.K, row.S)
	} else {
		fmt.Fprintf(sb, "%d,%s,%d;", row.K, row.S, *row.O)
	}
}

var c14ComposeConsumers = []string{"readrows", "copyrows", "copyrows-writer", "writerowgroup"}

// c14ComposeRun runs one pipeline with one consumer over the given sources.
// class: error (some call reported) | panic | ok (digest of everything the consumer was given)
func c14ComposeRun(p *c14Pipeline, consumer string, xs []io.ReaderAt, sizes []int64) (class, digest string, err error) {
	defer func() {
		if r := recover(); r != nil {
			class, err = "panic", fmt.Errorf("%v | %s", r, c14Stack())
		}
	}()
	if p.whole != nil {
		d, err := p.whole(xs, sizes)
		if err != nil {
			return "error", "", err
		}
		return "ok", d, nil
	}
	fs := make([]*parquet.File, len(xs))
	for i := range xs {
		// a small read buffer: the row readers go back to the source many times
		f, err := parquet.OpenFile(xs[i], sizes[i], parquet.ReadBufferSize(256))
		if err != nil {
			return "error", "", err
		}
		fs[i] = f
	}
	var rows parquet.RowReader
	var rg parquet.RowGroup
	closeRows := func() {}
	if p.rowGroup != nil {
		if rg, err = p.rowGroup(fs); err != nil {
			return "error", "", err
		}
		if consumer != "writerowgroup" {
			rr := rg.Rows()
			rows, closeRows = rr, func() { rr.Close() }
		}
	} else {
		if rows, closeRows, err = p.rows(fs); err != nil {
			return "error", "", err
		}
	}
	defer closeRows()
	var sb strings.Builder
	readBack := func(out []byte) (string, string, error) {
		cols, nr, err := gen.ReadRowsColumns(out, 16)
		if err != nil {
			return "ok", "UNREADABLE OUTPUT: " + err.Error(), nil
		}
		fmt.Fprintf(&sb, "rows=%d;", nr)
		for ci, col := range cols {
			fmt.Fprintf(&sb, "col%d:%v;", ci, col)
		}
		return "ok", sb.String(), nil
	}
	switch consumer {
	case "readrows":
		buf := make([]parquet.Row, 37)
		for {
			n, err := rows.ReadRows(buf)
			for _, row := range buf[:n] {
				for _, v := range row {
					fmt.Fprintf(&sb, "%d:%v,", v.Column(), gen.TripleOf(v))
				}
				sb.WriteByte(';')
			}
			if err == io.EOF {
				return "ok", sb.String(), nil
			}
			if err != nil {
				return "error", "", err
			}
			if n == 0 {
				return "error", "", fmt.Errorf("ReadRows returned 0 rows and no error")
			}
		}
	case "copyrows":
		coll := &c14Collector{sb: &sb}
		if _, err := parquet.CopyRows(coll, rows); err != nil {
			return "error", "", err
		}
		return "ok", sb.String(), nil
	case "copyrows-writer":
		var out bytes.Buffer
		schema := sourceSchema(rows, rg)
		w := parquet.NewWriter(&out, schema)
		_, err := parquet.CopyRows(w, rows)
		if err == nil {
			err = w.Close()
		}
		if err != nil {
			return "error", "", err
		}
		return readBack(out.Bytes())
	case "writerowgroup":
		var out bytes.Buffer
		w := parquet.NewWriter(&out, rg.Schema())
		_, err := w.WriteRowGroup(rg)
		if err == nil {
			err = w.Close()
		}
		if err != nil {
			return "error", "", err
		}
		return readBack(out.Bytes())
	}
	panic("c14: unknown consumer " + consumer)
}

func sourceSchema(rows parquet.RowReader, rg parquet.RowGroup) *parquet.Schema {
	if rg != nil {
		return rg.Schema()
	}
	if s, ok := rows.(interface{ Schema() *parquet.Schema }); ok && s.Schema() != nil {
		return s.Schema()
	}
	return parquet.SchemaOf(c14MRow{})
}

func RunC14Compose(ctx *core.Ctx) {
	ctx.SetRule(c14Rule)
	rp := c14LoadReplay(ctx)
	if rp != nil {
		if req := rp.str("request"); strings.HasPrefix(req, "io.merge2 ") || strings.HasPrefix(req, "io.bloomprobe ") {
			c14ScriptedL2(ctx, req)
			return
		}
		if _, ok := rp.num("compose_failing_call"); !ok {
			return
		}
	} else {
		defer c14ScriptedL2(ctx, "")
	}
	srcs := c14ComposeSources(ctx)
	type job struct {
		p        *c14Pipeline
		consumer string
	}
	var jobs []job
	for _, p := range c14ComposePipelines() {
		consumers := c14ComposeConsumers
		switch {
		case p.whole != nil:
			consumers = []string{"typed"}
		case p.rowGroup == nil:
			consumers = c14ComposeConsumers[:3]
		}
		for _, c := range consumers {
			if rp != nil && (rp.str("pipeline") != p.name || rp.str("consumer") != c) {
				continue
			}
			jobs = append(jobs, job{p, c})
		}
	}
	var wg sync.WaitGroup
	sem := make(chan struct{}, 16)
	for ji, j := range jobs {
		wg.Add(1)
		sem <- struct{}{}
		go func(ji int, j job) {
			defer wg.Done()
			defer func() { <-sem }()
			c14ComposeJob(ctx, srcs, j.p, j.consumer, rp, ji == 0)
		}(ji, j)
	}
	wg.Wait()
}

func c14ComposeJob(ctx *core.Ctx, srcs []*c14Source, p *c14Pipeline, consumer string, rp *c14Replay, sample bool) {
	r := ctx.Rand("c14/compose/" + p.name + "/" + consumer)
	sizes := make([]int64, len(p.sources))
	for i, si := range p.sources {
		sizes[i] = int64(len(srcs[si].data))
	}
	mkReaders := func(faulty int, failAt int, mode string, keep int, record bool) ([]io.ReaderAt, []*c14ReaderAt) {
		xs := make([]io.ReaderAt, len(p.sources))
		cs := make([]*c14ReaderAt, len(p.sources))
		for i, si := range p.sources {
			x := &c14ReaderAt{r: bytes.NewReader(srcs[si].data), failAt: -1, keep: -1, record: record}
			if i == faulty {
				x.failAt, x.mode, x.keep = int32(failAt), mode, keep
			}
			xs[i], cs[i] = x, x
		}
		return xs, cs
	}
	var descs []string
	for _, si := range p.sources {
		descs = append(descs, srcs[si].name+": "+srcs[si].desc)
	}
	base := map[string]any{"pipeline": p.name, "consumer": consumer, "sources": descs}
	// fault-free run, twice (the call sequence must be reproducible)
	xs, cs := mkReaders(-1, 0, "", -1, true)
	class, want, err := c14ComposeRun(p, consumer, xs, sizes)
	if class != "ok" {
		base["error"] = fmt.Sprint(err)
		ctx.Fail("L1", "fault-free-read-fails pipeline="+p.name+" consumer="+consumer, "the pipeline fails without any fault: "+class, base)
		return
	}
	xs2, cs2 := mkReaders(-1, 0, "", -1, true)
	_, want2, _ := c14ComposeRun(p, consumer, xs2, sizes)
	for i := range cs {
		if cs[i].calls != cs2[i].calls || want != want2 {
			ctx.Hist("compose.deterministic", "no")
			return
		}
	}
	if strings.HasPrefix(want, "UNREADABLE") || len(want) < 100 {
		base["digest"] = headOf(want, 300)
		ctx.Fail("L1", "fault-free-read-fails pipeline="+p.name+" consumer="+consumer, "the fault-free output of the pipeline is empty or does not read back", base)
		return
	}
	ctx.Hist("compose.pipeline", p.name)
	for j := range p.sources {
		n1 := int(cs[j].calls)
		calls := cs[j].log
		ctx.Hist("compose.calls", sizeBucket(n1))
		idx := make([]int, n1)
		for i := range idx {
			idx[i] = i
		}
		if max := ctx.Scale(14, 100000); n1 > max {
			r.Shuffle(n1, func(a, b int) { idx[a], idx[b] = idx[b], idx[a] })
			idx = append([]int{n1 - 1}, idx[:max]...)
			sort.Ints(idx)
		}
		if rp != nil {
			if s, _ := rp.num("faulty_source"); s != j {
				continue
			}
			k, _ := rp.num("compose_failing_call")
			idx = []int{k}
		}
		type fault struct {
			mode string
			keep int
		}
		for _, i := range idx {
			if i < 0 || i >= len(calls) {
				continue
			}
			ln := int(calls[i][1])
			cuts := []int{-1}
			if ln > 1 {
				cuts = append(cuts, 0)
			}
			if ln > 2 && (ctx.Thorough() || r.Intn(3) == 0) {
				cuts = append(cuts, 1, ln-1)
			}
			faults := []fault{{"full", -1}, {"fullsticky", -1}}
			for _, c := range cuts {
				faults = append(faults, fault{"short", c}, fault{"shorteof", c})
			}
			if rp != nil {
				keep := -1
				if k, ok := rp.num("kept_bytes"); ok && strings.HasPrefix(rp.str("mode"), "short") {
					keep = k
				}
				faults = []fault{{rp.str("mode"), keep}}
			}
			for _, ft := range faults {
				xs, cs := mkReaders(j, i, ft.mode, ft.keep, false)
				class, digest, err := c14ComposeRun(p, consumer, xs, sizes)
				x := cs[j]
				kept := 0
				if ft.mode == "short" || ft.mode == "shorteof" {
					kept = x.cut(x.hitLen)
				}
				if !x.hit || (strings.HasPrefix(ft.mode, "short") && kept == x.hitLen) {
					ctx.Hist("compose.skipped", "fault-not-effective")
					continue
				}
				ctx.Case(fmt.Sprintf("compose|%s|%s|%d|%d|%s|%d", p.name, consumer, j, i, ft.mode, kept), i > 0)
				detail := map[string]any{"pipeline": p.name, "consumer": consumer, "sources": descs, "faulty_source": j, "compose_failing_call": i,
					"calls_fault_free": n1, "mode": ft.mode, "read_offset": calls[i][0], "read_length": x.hitLen, "kept_bytes": kept}
				if class == "ok" {
					class = "complete"
					if digest != want {
						class = "altered"
						detail["got"] = c14DigestDiff(digest, want)
						detail["want"] = c14DigestDiff(want, digest)
					}
				}
				detail["outcome"] = class
				if err != nil {
					detail["error"] = headOf(err.Error(), 600)
				}
				ctx.Hist("compose.outcome "+ft.mode, class)
				ctx.Hist("compose.consumer", consumer)
				if sample && j == 0 && i == idx[len(idx)/2] && ft.mode == "short" && ft.keep == -1 {
					ctx.Sample(detail)
				}
				// the key names the family of the pipeline (merge2, merge3, multi, convert, filter, ...,
				// typed) and the fault mode; the full pipeline and the consumer are in the detail
				sig := fmt.Sprintf("pipeline=%s mode=%s", strings.SplitN(p.name, "-", 2)[0], ft.mode)
				switch class {
				case "panic":
					ctx.Fail("L1", "source-fault-panics "+sig+" "+panicClass(err.Error()),
						fmt.Sprintf("ReadAt call %d of input %d fails (%s) and the pipeline panics", i, j, ft.mode), detail)
				case "altered":
					ctx.Fail("L1", "source-fault-alters-rows "+sig,
						fmt.Sprintf("ReadAt call %d of input %d (%s) fails (%s), no call of the consumer returns an error and the rows it was given differ from the fault-free run", i, j, srcs[p.sources[j]].name, ft.mode), detail)
				case "complete":
					ctx.Hist("compose.absorbed "+ft.mode, "complete-rows")
				}
			}
		}
	}
}

// ---------------------------------------------------------------- scripted sources: L1 + L2 of the
// two-way merge (MIRROR M2.readRows / SPEC Src of IoFaultRead.lean) and of the lazy bloom probe

// c14Script is the SPEC `Src` of the model: a RowReader that delivers its rows in order and fails
// once failIn more rows have been delivered (sticky); rows are (key, index of the input).
type c14Script struct {
	rem         []int64
	failIn      int // -1 = never
	eager       bool
	errWithRows bool
	tag         int32
}

func (s *c14Script) ReadRows(buf []parquet.Row) (int, error) {
	avail := len(s.rem)
	if s.failIn >= 0 && s.failIn < avail {
		avail = s.failIn
	}
	n := len(buf)
	if avail < n {
		n = avail
	}
	for i := 0; i < n; i++ {
		buf[i] = append(buf[i][:0], parquet.Int64Value(s.rem[i]).Level(0, 0, 0), parquet.Int32Value(s.tag).Level(0, 0, 1))
	}
	s.rem = s.rem[n:]
	if s.failIn >= 0 {
		s.failIn -= n
	}
	switch {
	case s.failIn == 0:
		if n == 0 || s.errWithRows {
			return n, errC14Injected
		}
	case len(s.rem) == 0:
		if n == 0 || s.eager {
			return n, io.EOF
		}
	}
	return n, nil
}

func (s *c14Script) String() string {
	rows := "-"
	if len(s.rem) > 0 {
		var parts []string
		for _, k := range s.rem {
			parts = append(parts, fmt.Sprint(k))
		}
		rows = strings.Join(parts, ",")
	}
	f := "-"
	if s.failIn >= 0 {
		f = fmt.Sprint(s.failIn)
	}
	b := func(x bool) string {
		if x {
			return "1"
		}
		return "0"
	}
	return rows + ":" + f + ":" + b(s.eager) + ":" + b(s.errWithRows)
}

func c14RandScript(r *rand.Rand, tag int32) *c14Script {
	n := []int{0, 1, 2, 23, 24, 25, 47, 48, 49, 71, 72, 73, 100, 168, 169, 200, 361, 400}[r.Intn(18)]
	if r.Intn(4) == 0 {
		n = r.Intn(60)
	}
	s := &c14Script{failIn: -1, eager: r.Intn(2) == 0, errWithRows: r.Intn(2) == 0, tag: tag}
	k := int64(r.Intn(5))
	step := []int64{1, 2, 3, 10}[r.Intn(4)]
	for i := 0; i < n; i++ {
		s.rem = append(s.rem, k)
		if r.Intn(4) > 0 { // runs of equal keys, ties with the other input
			k += r.Int63n(step) + int64(r.Intn(2))
		}
		if r.Intn(40) == 0 {
			k += 50 // a gap: the other input wins a long streak (the gallop of the real code)
		}
	}
	if r.Intn(3) > 0 {
		c := []int{0, 1, 23, 24, 25, 72, 73, n - 1, n, n + 1, r.Intn(n + 1)}
		s.failIn = c[r.Intn(len(c))]
		if s.failIn < 0 {
			s.failIn = 0
		}
	}
	return s
}

// c14Merge2Real runs the real MergeRowReaders over the two scripts; answer in the format of `io.merge2`
func c14Merge2Real(a, b *c14Script, caps []int) (ans string, proj [2][]int64, last string) {
	defer func() {
		if p := recover(); p != nil {
			ans, last = fmt.Sprintf("PANIC %v | %s", p, c14Stack()), "panic"
		}
	}()
	m := parquet.MergeRowReaders([]parquet.RowReader{a, b}, c14MCompare)
	var calls []string
	last = "n"
	for _, c := range caps {
		buf := make([]parquet.Row, c)
		n, err := m.ReadRows(buf)
		var rs []string
		for _, row := range buf[:n] {
			t := int(row[1].Int32())
			proj[t] = append(proj[t], row[0].Int64())
			rs = append(rs, fmt.Sprintf("%c%d", 'a'+t, row[0].Int64()))
		}
		res := "n"
		switch {
		case err == io.EOF:
			res = "e"
		case err != nil:
			res = "x"
		}
		rows := "-"
		if len(rs) > 0 {
			rows = strings.Join(rs, ",")
		}
		calls = append(calls, res+":"+rows)
		last = res
		if err != nil {
			break
		}
	}
	if len(calls) == 0 {
		return "ok -", proj, last
	}
	return "ok " + strings.Join(calls, "|"), proj, last
}

type c14ProbeStub struct {
	data []byte
	err  error
}

func (s c14ProbeStub) ReadAt(p []byte, off int64) (int, error) { return copy(p, s.data), s.err }

func c14ScriptedL2(ctx *core.Ctx, only string) {
	d := ctx.Driver()
	if d == nil {
		return
	}
	r := ctx.Rand("c14/compose/scripted")
	var reqs, wants []string
	// --- two-way merge sessions
	nm := ctx.Scale(1500, 15000)
	if only != "" {
		nm = 0
		if f := strings.Fields(only); len(f) == 5 && f[0] == "io.merge2" {
			parse := func(s string, tag int32) *c14Script {
				p := strings.Split(s, ":")
				sc := &c14Script{failIn: -1, tag: tag}
				if len(p) != 4 {
					return sc
				}
				if p[0] != "-" {
					for _, x := range strings.Split(p[0], ",") {
						var k int64
						fmt.Sscan(x, &k)
						sc.rem = append(sc.rem, k)
					}
				}
				if p[1] != "-" {
					fmt.Sscan(p[1], &sc.failIn)
				}
				sc.eager, sc.errWithRows = p[2] == "1", p[3] == "1"
				return sc
			}
			var caps []int
			if f[4] != "-" {
				for _, x := range strings.Split(f[4], ",") {
					var c int
					fmt.Sscan(x, &c)
					caps = append(caps, c)
				}
			}
			c14Merge2Case(ctx, parse(f[2], 0), parse(f[3], 1), caps, &reqs, &wants)
		}
	}
	for i := 0; i < nm; i++ {
		a, b := c14RandScript(r, 0), c14RandScript(r, 1)
		if i%3 == 0 {
			a.failIn = -1 // the fault on the second input only (the first input's branch is separate code)
		}
		var caps []int
		for j := 0; j < 80; j++ {
			caps = append(caps, []int{1, 2, 3, 7, 16, 24, 37, 64, 100, 300}[r.Intn(10)])
			if r.Intn(50) == 0 {
				caps[j] = 0
			}
		}
		c14Merge2Case(ctx, a, b, caps, &reqs, &wants)
	}
	nmerge := len(reqs)
	// --- the lazy bloom filter probe
	np := ctx.Scale(600, 6000)
	type probeCase struct{ x uint64; stale, blk []byte; n int; res string }
	var pcs []probeCase
	if only != "" {
		np = 0
		if f := strings.Fields(only); len(f) == 7 && f[0] == "io.bloomprobe" {
			var pc probeCase
			var x32 uint64
			fmt.Sscan(f[2], &x32)
			pc.x = x32 // a one-block filter: only the low 32 bits of the hash matter
			pc.stale, _ = hex.DecodeString(f[3])
			pc.blk, _ = hex.DecodeString(f[4])
			fmt.Sscan(f[5], &pc.n)
			pc.res = f[6]
			pcs = append(pcs, pc)
		}
	}
	for i := 0; i < np; i++ {
		pc := probeCase{x: r.Uint64() & 0xffffffff, stale: make([]byte, bloom.BlockSize), blk: make([]byte, bloom.BlockSize)}
		switch r.Intn(3) {
		case 1:
			r.Read(pc.stale)
		case 2:
			for j := range pc.stale {
				pc.stale[j] = 0xFF
			}
		}
		flt := bloom.MakeSplitBlockFilter(pc.blk)
		if r.Intn(4) > 0 {
			flt.Insert(pc.x) // the key is present
		}
		for j := r.Intn(6); j > 0; j-- {
			flt.Insert(r.Uint64())
		}
		pc.n = []int{0, 1, 4, 15, 16, 17, 28, 31, 32}[r.Intn(9)]
		pc.res = []string{"e", "x"}[r.Intn(2)]
		if pc.n == bloom.BlockSize && r.Intn(2) == 0 {
			pc.res = "n"
		}
		pcs = append(pcs, pc)
	}
	for _, pc := range pcs {
		var rerr error
		switch pc.res {
		case "e":
			rerr = io.EOF
		case "x":
			rerr = errC14Injected
		}
		req := fmt.Sprintf("io.bloomprobe 0 %d %s %s %d %s", pc.x&0xffffffff, hex.EncodeToString(pc.stale), hex.EncodeToString(pc.blk), pc.n, pc.res)
		want := bloom.MakeSplitBlockFilter(append([]byte{}, pc.blk...)).Check(pc.x)
		ctx.Case(req, pc.n < bloom.BlockSize)
		ctx.Hist("probe.delivered", fmt.Sprint(pc.n))
		// the pool hands blocks out per P: a probe that lands on another P meets another stale
		// block; the answer of the model is accepted from any of three attempts
		var reals []string
		for try := 0; try < 3; try++ {
			bloom.CheckSplitBlock(bytes.NewReader(pc.stale), bloom.BlockSize, 0) // leaves `stale` in the pool
			ok, err := bloom.CheckSplitBlock(c14ProbeStub{pc.blk[:pc.n], rerr}, bloom.BlockSize, pc.x)
			cls := "n"
			switch {
			case err == io.EOF:
				cls = "e"
			case err != nil:
				cls = "x"
			}
			if err == nil && ok != want {
				// L1: a conforming source, a nil error, and an answer that is not the filter's
				ctx.Fail("L1", "bloom-probe-wrong-answer-nil-error delivered="+map[bool]string{true: "short", false: "all"}[pc.n < bloom.BlockSize],
					fmt.Sprintf("CheckSplitBlock over a ReadAt that delivers %d of 32 bytes with %s answers (%v, nil); the block says %v", pc.n, pc.res, ok, want),
					map[string]any{"request": req, "answer": ok, "block_says": want})
				break
			}
			reals = append(reals, fmt.Sprintf("ok %d %s", map[bool]int{false: 0, true: 1}[ok], cls))
		}
		reqs = append(reqs, req)
		wants = append(wants, strings.Join(reals, " / "))
	}
	ans, err := d.AskMany(reqs)
	if err != nil {
		ctx.Fail("L2", "driver-error", err.Error(), nil)
		return
	}
	for i := range reqs {
		if i < nmerge {
			if ans[i] != wants[i] {
				ctx.Fail("L2", "merge2-session-differs", "a session of MergeRowReaders over two scripted sources and its Lean mirror (M2.readRows) disagree",
					map[string]any{"request": reqs[i], "model": headOf(ans[i], 600), "real": headOf(wants[i], 600), "first_difference": c14DigestDiff(wants[i], ans[i])})
			} else {
				ctx.Hist("scripted.l2", "merge2-session-equal")
			}
			continue
		}
		match := false
		for _, w := range strings.Split(wants[i], " / ") {
			match = match || w == ans[i]
		}
		if !match && wants[i] != "" {
			ctx.Fail("L2", "bloom-probe-differs", "bloom.CheckSplitBlock over a stub ReaderAt and its Lean mirror (probe) disagree",
				map[string]any{"request": reqs[i], "model": ans[i], "real": wants[i]})
		} else {
			ctx.Hist("scripted.l2", "bloom-probe-equal")
		}
	}
}

// one scripted two-way merge session: L1 (written from the property: a session that ends with
// io.EOF has handed out every row of both inputs, in the order of each input; a fault that bites
// does not end in io.EOF; no panic) and the request for the L2 comparison
func c14Merge2Case(ctx *core.Ctx, a, b *c14Script, caps []int, reqs, wants *[]string) {
	var cs []string
	for _, c := range caps {
		cs = append(cs, fmt.Sprint(c))
	}
	capStr := "-"
	if len(cs) > 0 {
		capStr = strings.Join(cs, ",")
	}
	req := fmt.Sprintf("io.merge2 0 %s %s %s", a, b, capStr)
	rows := [2][]int64{append([]int64{}, a.rem...), append([]int64{}, b.rem...)}
	bites := (a.failIn >= 0 && a.failIn < len(a.rem)) || (b.failIn >= 0 && b.failIn < len(b.rem))
	ans, proj, last := c14Merge2Real(a, b, caps)
	ctx.Case(req, bites)
	ctx.Hist("merge2.end", last)
	ctx.Hist("merge2.bites", fmt.Sprint(bites))
	detail := map[string]any{"request": req, "session_ends": last}
	switch {
	case last == "panic":
		ctx.Fail("L1", "scripted-merge2-panics", "MergeRowReaders over two scripted sources panics", map[string]any{"request": req, "panic": ans})
	case last == "e":
		for t := 0; t < 2; t++ {
			if fmt.Sprint(proj[t]) != fmt.Sprint(rows[t]) {
				detail["input"] = t
				detail["rows_of_input_in_output"] = len(proj[t])
				detail["rows_of_input"] = len(rows[t])
				key := "scripted-merge2-eof-with-rows-missing"
				if !bites {
					key = "scripted-merge2-alters-rows"
				}
				ctx.Fail("L1", key, fmt.Sprintf("the merge of two scripted sources ends with io.EOF, no call returned an error, and the output holds %d of the %d rows of input %d", len(proj[t]), len(rows[t]), t), detail)
				break
			}
		}
	}
	*reqs = append(*reqs, req)
	*wants = append(*wants, ans)
}
