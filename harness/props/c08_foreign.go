package props

// C08 / foreign — column chunks laid out the way other writers lay them out, and ReadDictionary().
//
// The files of the sub-check `histories` are written by this library: every chunk with a dictionary
// page records dictionary_page_offset, so the page reader never meets the dictionary page a second
// time. Here the same generated files are also presented
//   - no-dict-offset:          the footer is rewritten the way parquet-mr / impala write it:
//                              dictionary_page_offset absent, data_page_offset = the dictionary page
//   - no-dict-offset-no-index: the same, and no column/offset index is announced
// (the pages are untouched, so the oracle stays "the rows that were written"), every codec is
// covered by a fixed matrix, and the page-level histories get a fourth op: FilePages.ReadDictionary().
// The repo's own testdata/*.parquet files (written by parquet-mr, impala, arrow, rust, ...) are a
// fixed corpus driven through the same histories; their reference is the plain sequential read of
// the same chunk (the property's own right-hand side).
//
// L1 clauses after every op: SeekToRow(k) with 0 <= k <= rows succeeds; ReadPage returns a
// non-empty run of whole rows equal to rows pos.. of the reference (io.EOF exactly at the end);
// ReadDictionary succeeds and does not move the reader; on generated files the decoder stands on
// the first byte of a page (offsets recorded by the writer's offset index) after every op.

import (
	"bytes"
	"encoding/binary"
	"fmt"
	"io"
	"math/rand"
	"os"
	"path/filepath"
	"sort"
	"strings"
	"sync"

	"github.com/parquet-go/parquet-go"
	"github.com/parquet-go/parquet-go/encoding/thrift"
	"github.com/parquet-go/parquet-go/format"

	"verifharness/core"
	"verifharness/gen"
)

func init() { RegisterSub("C08", "foreign", RunC08Foreign) }

// c08fChunk is one column chunk under test with its reference rows.
type c08fChunk struct {
	file     string // description of the file (recipe or testdata name)
	layout   string // native | no-dict-offset | no-dict-offset-no-index | testdata
	codec    string
	data     []byte
	rg, col  int
	rows     [][]gen.Triple // reference: the Dremel triples of every row of the chunk
	starts   []int64        // generated files: every offset the decoder may legitimately stand on (nil: unknown)
	hasDict  bool
	badIndex bool // testdata: the recorded offset index contradicts the pages; never loaded
}

type c08fOpen struct {
	SkipIndex bool
	Async     bool
	ReadBuf   int
}

func (o c08fOpen) String() string {
	return fmt.Sprintf("skipindex=%v async=%v readbuf=%d", o.SkipIndex, o.Async, o.ReadBuf)
}

// c08fForeignFooter rewrites the footer of a file written by this library: for every chunk with a
// dictionary page, dictionary_page_offset is cleared and data_page_offset names the dictionary page
// (the first page of the chunk), as parquet-mr (before 1.12) and impala record it. dropIndex also
// clears the column index / offset index references.
func c08fForeignFooter(data []byte, dropIndex bool) ([]byte, int, error) {
	if len(data) < 12 || string(data[len(data)-4:]) != "PAR1" {
		return nil, 0, fmt.Errorf("not a parquet file")
	}
	flen := int(binary.LittleEndian.Uint32(data[len(data)-8:]))
	fstart := len(data) - 8 - flen
	if fstart < 4 {
		return nil, 0, fmt.Errorf("bad footer length %d", flen)
	}
	var md format.FileMetaData
	if err := thrift.Unmarshal(new(thrift.CompactProtocol), data[fstart:fstart+flen], &md); err != nil {
		return nil, 0, fmt.Errorf("decoding the footer: %w", err)
	}
	moved := 0
	for gi := range md.RowGroups {
		for ci := range md.RowGroups[gi].Columns {
			cc := &md.RowGroups[gi].Columns[ci]
			if cc.MetaData.DictionaryPageOffset != 0 {
				cc.MetaData.DataPageOffset = cc.MetaData.DictionaryPageOffset
				cc.MetaData.DictionaryPageOffset = 0
				moved++
			}
			if dropIndex {
				cc.OffsetIndexOffset, cc.OffsetIndexLength = 0, 0
				cc.ColumnIndexOffset, cc.ColumnIndexLength = 0, 0
			}
		}
	}
	foot, err := thrift.Marshal(new(thrift.CompactProtocol), &md)
	if err != nil {
		return nil, 0, fmt.Errorf("encoding the footer: %w", err)
	}
	out := append([]byte{}, data[:fstart]...)
	out = append(out, foot...)
	var l [4]byte
	binary.LittleEndian.PutUint32(l[:], uint32(len(foot)))
	out = append(out, l[:]...)
	out = append(out, "PAR1"...)
	return out, moved, nil
}

func c08fSplitRows(tr []gen.Triple) ([][]gen.Triple, error) {
	var rows [][]gen.Triple
	for _, t := range tr {
		if t.Rep == 0 {
			rows = append(rows, nil)
		}
		if len(rows) == 0 {
			return nil, fmt.Errorf("the chunk does not start with repetition level 0")
		}
		rows[len(rows)-1] = append(rows[len(rows)-1], t)
	}
	return rows, nil
}

// c08fPageTriples reads every value of a page.
func c08fPageTriples(pg parquet.Page) (out []gen.Triple, err error) {
	defer func() {
		if r := recover(); r != nil {
			err = fmt.Errorf("PANIC reading the page values: %v", r)
		}
	}()
	buf := make([]parquet.Value, 97)
	vr := pg.Values()
	for {
		n, err := vr.ReadValues(buf)
		for _, x := range buf[:n] {
			out = append(out, gen.TripleOf(x))
		}
		if err == io.EOF {
			return out, nil
		}
		if err != nil {
			return out, err
		}
		if n == 0 {
			return out, fmt.Errorf("ReadValues makes no progress")
		}
	}
}

type c08fFail struct {
	sym  string // symptom
	what string
	at   int // op index
}

// c08fRun replays ops ('s' k, 'r' ReadPage, 'd' ReadDictionary, 'i' lazy offset index load) on a fresh
// page reader of the chunk, then drains it; it returns the first violated clause.
func c08fRun(c *c08fChunk, o c08fOpen, ops []c08Op) (fail *c08fFail, stats map[string]int) {
	stats = map[string]int{}
	cur := -1
	defer func() {
		if r := recover(); r != nil {
			fail = &c08fFail{"panic", fmt.Sprintf("PANIC: %v", r), cur}
		}
	}()
	opts := []parquet.FileOption{parquet.SkipPageIndex(o.SkipIndex)}
	if o.Async {
		opts = append(opts, parquet.FileReadMode(parquet.ReadModeAsync))
	}
	if o.ReadBuf > 0 {
		opts = append(opts, parquet.ReadBufferSize(o.ReadBuf))
	}
	pf, err := parquet.OpenFile(bytes.NewReader(c.data), int64(len(c.data)), opts...)
	if err != nil {
		return &c08fFail{"open-error", "OpenFile: " + err.Error(), -1}, stats
	}
	cc := pf.RowGroups()[c.rg].ColumnChunks()[c.col]
	p := cc.Pages()
	defer p.Close()
	total := len(c.rows)
	var flat []gen.Triple // the reference value stream and the first value of every row
	rowStart := make([]int, 0, total+1)
	for _, r := range c.rows {
		rowStart = append(rowStart, len(flat))
		flat = append(flat, r...)
	}
	rowStart = append(rowStart, len(flat))
	pos, vpos := 0, 0
	dictCached, readSinceDict := false, false
	checkOffset := func(i int, what string) *c08fFail {
		if c.starts == nil {
			return nil
		}
		st, ok := parquet.VerifFilePagesState(p)
		if !ok {
			return nil
		}
		j := sort.Search(len(c.starts), func(j int) bool { return c.starts[j] >= st.StreamOffset })
		if j == len(c.starts) || c.starts[j] != st.StreamOffset {
			return &c08fFail{"stream-not-on-page-start", fmt.Sprintf("after %s the decoder stands at file offset %d, which is not the first byte of a page of the chunk nor its end (%v)", what, st.StreamOffset, c.starts), i}
		}
		return nil
	}
	read := func(i int) *c08fFail {
		pg, err := p.ReadPage()
		if pos >= total {
			if err != io.EOF {
				parquet.Release(pg)
				return &c08fFail{"no-eof-at-end", fmt.Sprintf("ReadPage at the end of the chunk (row %d of %d): err=%v, want io.EOF", pos, total, err), i}
			}
			return nil
		}
		if err != nil {
			sym := "read-error"
			if err == io.EOF {
				sym = "eof-early"
			}
			return &c08fFail{sym, fmt.Sprintf("ReadPage at row %d of %d: %v", pos, total, err), i}
		}
		defer parquet.Release(pg)
		tr, err := c08fPageTriples(pg)
		if err != nil {
			return &c08fFail{"page-values-error", fmt.Sprintf("values of the page read at row %d: %v", pos, err), i}
		}
		// value level: the page continues the reference stream where the reader stands (a page of a
		// foreign writer may end inside a row; the rest of the row is then the head of the next page)
		if len(tr) == 0 || vpos+len(tr) > len(flat) {
			return &c08fFail{"wrong-rows", fmt.Sprintf("page read at row %d of %d holds %d values, %d are left", pos, total, len(tr), len(flat)-vpos), i}
		}
		want := flat[vpos : vpos+len(tr)]
		if !triplesEqual(tr, want) {
			d := 0
			for d < len(tr) && tr[d] == want[d] {
				d++
			}
			return &c08fFail{"wrong-rows", fmt.Sprintf("page read at row %d (%d values) differs from the reference rows %d.. at value %d: got %s, want %s", pos, len(tr), pos, d, firstTriple(tr[d:]), firstTriple(want[d:])), i}
		}
		vpos += len(tr)
		pos = sort.Search(total, func(r int) bool { return rowStart[r+1] > vpos })
		if c.starts != nil && rowStart[pos] != vpos { // this library's writer ends every page on a row boundary
			return &c08fFail{"page-ends-inside-row", fmt.Sprintf("page of %d values read from a file of this library's writer ends inside row %d", len(tr), pos), i}
		}
		return nil
	}
	for i, op := range ops {
		cur = i
		switch op.K {
		case 's':
			if err := p.SeekToRow(op.A); err != nil {
				return &c08fFail{"seek-error", fmt.Sprintf("SeekToRow(%d) on a chunk of %d rows: %v", op.A, total, err), i}, stats
			}
			pos = int(op.A)
			vpos = rowStart[pos]
			if dictCached && readSinceDict {
				stats["seek-with-dictionary-cached"]++
			}
		case 'r':
			if f := read(i); f != nil {
				return f, stats
			}
			if c.hasDict {
				dictCached = true
			}
			readSinceDict = true
			if f := checkOffset(i, "ReadPage"); f != nil {
				return f, stats
			}
		case 'd':
			rd, ok := p.(interface {
				ReadDictionary() (parquet.Dictionary, error)
			})
			if !ok {
				stats["read-dictionary-unavailable"]++
				continue
			}
			d, err := rd.ReadDictionary()
			if err != nil {
				return &c08fFail{"read-dictionary-error", "ReadDictionary: " + err.Error(), i}, stats
			}
			if d != nil {
				stats["read-dictionary-got-one"]++
				if !readSinceDict {
					stats["read-dictionary-before-first-read"]++
				}
			}
		case 'i':
			cc.OffsetIndex()
		}
	}
	// the tail: everything from the reference position to the end
	cur = len(ops)
	for n := 0; n <= total+1; n++ {
		atEnd := pos >= total
		if f := read(len(ops)); f != nil {
			return f, stats
		}
		if atEnd {
			break
		}
	}
	return nil, stats
}

// c08fCause names the situation of the failing op from the ops before it (part of the failure key).
func c08fCause(ops []c08Op, at int) string {
	if at > len(ops) {
		at = len(ops)
	}
	reads, seekAfterRead, dictFirst := 0, false, false
	for i := 0; i < at; i++ {
		switch ops[i].K {
		case 'r':
			reads++
		case 's':
			if reads > 0 {
				seekAfterRead = true
			}
		case 'd':
			if reads == 0 {
				dictFirst = true
			}
		}
	}
	switch {
	case seekAfterRead && dictFirst:
		return "read-dictionary-first+seek-after-read"
	case seekAfterRead:
		return "seek-after-read"
	case dictFirst:
		return "read-dictionary-first"
	case reads > 0 || at == len(ops):
		return "sequential"
	}
	return "first-op"
}

func c08fShrink(c *c08fChunk, o c08fOpen, ops []c08Op, key func(*c08fFail, []c08Op) string, want string) []c08Op {
	for changed := true; changed; {
		changed = false
		for i := 0; i < len(ops); i++ {
			cand := append(append([]c08Op{}, ops[:i]...), ops[i+1:]...)
			if f, _ := c08fRun(c, o, cand); f != nil && key(f, cand) == want {
				ops, changed = cand, true
				i--
			}
		}
	}
	return ops
}

func c08fRandOps(r *rand.Rand, total int, directed int) []c08Op {
	k := func() int64 {
		switch r.Intn(6) {
		case 0:
			return 0
		case 1:
			return int64(total)
		case 2:
			return int64(max(total-1, 0))
		}
		return int64(r.Intn(total + 1))
	}
	switch directed {
	case 0: // the dictionary first, then sequential
		return []c08Op{{K: 'd'}, {K: 'r'}, {K: 'r'}}
	case 1: // read, seek back, read
		return []c08Op{{K: 'r'}, {K: 's', A: k()}, {K: 'r'}, {K: 's', A: 0}, {K: 'r'}}
	}
	var ops []c08Op
	if r.Intn(3) == 0 {
		ops = append(ops, c08Op{K: 'd'})
	}
	for n := 2 + r.Intn(10); n > 0; n-- {
		switch x := r.Intn(20); {
		case x < 9:
			ops = append(ops, c08Op{K: 'r'})
		case x < 16:
			ops = append(ops, c08Op{K: 's', A: k()})
		case x < 19:
			ops = append(ops, c08Op{K: 'd'})
		default:
			ops = append(ops, c08Op{K: 'i'})
		}
	}
	return ops
}

func c08fOpsString(ops []c08Op) string {
	s := make([]string, len(ops))
	for i, o := range ops {
		if o.K == 'd' {
			s[i] = "d"
		} else if o.K == 'r' {
			s[i] = "r"
		} else {
			s[i] = o.String()
		}
	}
	return strings.Join(s, " ")
}

// c08fChunksOf builds the chunks under test of a generated file in one layout.
func c08fChunksOf(f *c08File, layout, codec string) ([]*c08fChunk, error) {
	data := f.data
	if layout != "native" {
		var err error
		if data, _, err = c08fForeignFooter(f.data, layout == "no-dict-offset-no-index"); err != nil {
			return nil, err
		}
	}
	var out []*c08fChunk
	for rg := 0; rg < f.nrg(); rg++ {
		for col := 0; col < f.ncol; col++ {
			c := &c08fChunk{file: f.desc, layout: layout, codec: codec, data: data, rg: rg, col: col, hasDict: f.dict[rg][col]}
			c.rows = f.rowTr[col][f.rgStart[rg]:f.rgStart[rg+1]]
			if offs := f.offsets[rg][col]; len(offs) > 0 || len(c.rows) == 0 {
				c.starts = append([]int64{f.chunkLo[rg][col]}, offs...)
				c.starts = append(c.starts, f.chunkHi[rg][col])
				sort.Slice(c.starts, func(i, j int) bool { return c.starts[i] < c.starts[j] })
			}
			out = append(out, c)
		}
	}
	return out, nil
}

func RunC08Foreign(ctx *core.Ctx) {
	ctx.SetRule("foreign: generated files (c08Row under every codec x page version, catalogue types under random writer configurations) presented natively, with dictionary_page_offset cleared and data_page_offset on the dictionary page, and the same without page index, plus the repo's testdata/*.parquet files; per column chunk x open options (index skipped, sync/async, read buffer) x histories of SeekToRow / ReadPage / ReadDictionary / lazy index load, then a drain to the end; non-trivial = the chunk has a dictionary page or the history seeks after a read")
	type task struct {
		c      *c08fChunk
		origin string
		stream string
		nhist  int
	}
	var tasks []task
	// 1. every codec x page version on the fixed row type (s: dictionary, tags: repeated, opt: optional)
	for _, codec := range gen.CodecNames {
		for ver := 1; ver <= 2; ver++ {
			for _, pb := range []int{80, 4096} {
				f, err := c08LocalFile(120, parquet.PageBufferSize(pb), parquet.DataPageVersion(ver), parquet.Compression(gen.Codecs[codec]), parquet.MaxRowsPerRowGroup(70))
				if err != nil {
					ctx.Fail("L1", "oracle-sequential-read-differs", "fixed file: "+err.Error(), map[string]any{"codec": codec, "version": ver})
					continue
				}
				f.desc = fmt.Sprintf("c08Row n=120 codec=%s v%d pagebuf=%d maxrows=70", codec, ver, pb)
				for _, layout := range []string{"native", "no-dict-offset", "no-dict-offset-no-index"} {
					cs, err := c08fChunksOf(f, layout, codec)
					if err != nil {
						ctx.Fail("L1", "foreign-footer-rewrite", err.Error(), map[string]any{"file": f.desc})
						continue
					}
					for _, c := range cs {
						tasks = append(tasks, task{c, "fixed matrix", fmt.Sprintf("c08f/fixed/%s/%d/%d/%s/%d/%d", codec, ver, pb, layout, c.rg, c.col), ctx.Scale(4, 10)})
					}
				}
			}
		}
	}
	// 2. catalogue types under random writer configurations
	nfiles := ctx.Scale(2, 8)
	for _, e := range gen.Catalog {
		r := ctx.Rand("c08f/" + e.Name)
		for k := 0; k < nfiles; k++ {
			f, err := c08RandFile(e, r)
			if err != nil || f == nil {
				ctx.Hist("foreign-file", "unusable")
				continue
			}
			codec := "default"
			if i := strings.Index(f.desc, "codec="); i >= 0 {
				rest := f.desc[i+6:]
				if j := strings.IndexByte(rest, ' '); j > 0 {
					codec = rest[:j]
				}
			}
			layout := []string{"native", "no-dict-offset", "no-dict-offset-no-index"}[r.Intn(3)]
			cs, err := c08fChunksOf(f, layout, codec)
			if err != nil {
				ctx.Fail("L1", "foreign-footer-rewrite", err.Error(), map[string]any{"file": f.desc})
				continue
			}
			// at most 6 chunks of a file, those with a dictionary page first
			sort.SliceStable(cs, func(i, j int) bool { return cs[i].hasDict && !cs[j].hasDict })
			if len(cs) > 6 {
				cs = cs[:6]
			}
			for _, c := range cs {
				tasks = append(tasks, task{c, fmt.Sprintf("stream c08f/%s file #%d", e.Name, k), fmt.Sprintf("c08f/%s/%d/%d/%d", e.Name, k, c.rg, c.col), 3})
			}
		}
	}
	// 3. the repo's testdata files
	repo := os.Getenv("VERIF_REPO")
	if repo == "" {
		repo = "/repo"
	}
	names, _ := filepath.Glob(filepath.Join(repo, "testdata", "*.parquet"))
	sort.Strings(names)
	if len(names) == 0 {
		ctx.Fail("L1", "foreign-testdata-missing", "no testdata/*.parquet under "+repo, nil)
	}
	for _, name := range names {
		base := filepath.Base(name)
		data, err := os.ReadFile(name)
		if err != nil {
			continue
		}
		cs, why := c08fTestdataChunks(base, data, ctx.Scale(8, 40), ctx.Scale(30000, 200000))
		if why != "" {
			ctx.Hist("foreign-testdata", "skipped: "+why)
			continue
		}
		ctx.Hist("foreign-testdata", "used")
		for _, c := range cs {
			tasks = append(tasks, task{c, "testdata/" + base, fmt.Sprintf("c08f/testdata/%s/%d/%d", base, c.rg, c.col), ctx.Scale(4, 10)})
		}
	}

	var wg sync.WaitGroup
	ch := make(chan task)
	for w := 0; w < 16; w++ {
		wg.Add(1)
		go func() {
			defer wg.Done()
			for t := range ch {
				c08fTask(ctx, t.c, t.origin, ctx.Rand(t.stream), t.nhist)
			}
		}()
	}
	for _, t := range tasks {
		ch <- t
	}
	close(ch)
	wg.Wait()
}

// c08fTestdataChunks opens a file of the fixed corpus and takes the plain sequential read of each
// (small enough) column chunk as its reference.
func c08fTestdataChunks(base string, data []byte, maxChunks, maxValues int) (out []*c08fChunk, why string) {
	defer func() {
		if r := recover(); r != nil {
			out, why = nil, "panic while reading sequentially"
		}
	}()
	pf, err := parquet.OpenFile(bytes.NewReader(data), int64(len(data)))
	if err != nil {
		return nil, "open error"
	}
	md := pf.Metadata()
	for gi, rg := range pf.RowGroups() {
		for ci, cc := range rg.ColumnChunks() {
			if len(out) >= maxChunks {
				return out, ""
			}
			cm := md.RowGroups[gi].Columns[ci].MetaData
			if cm.NumValues > int64(maxValues) {
				continue
			}
			p := cc.Pages()
			var tr []gen.Triple
			var firstRows []int64 // rows begun before each page
			var err error
			for nrows := int64(0); ; {
				var pg parquet.Page
				if pg, err = p.ReadPage(); err != nil {
					break
				}
				var pt []gen.Triple
				pt, err = c08fPageTriples(pg)
				parquet.Release(pg)
				if err != nil {
					break
				}
				firstRows = append(firstRows, nrows)
				for _, x := range pt {
					if x.Rep == 0 {
						nrows++
					}
				}
				tr = append(tr, pt...)
			}
			p.Close()
			if err != io.EOF {
				continue // not readable sequentially: nothing to compare a seek with
			}
			// an offset index that does not describe the pages (first_row_index of page i != the rows begun
			// before page i, e.g. value counts in issue206.parquet) is a defect of the file: no reader can seek
			// by it, so such a chunk is only driven with the page index skipped
			badIndex := false
			if oi, err := cc.OffsetIndex(); err == nil && oi != nil {
				badIndex = oi.NumPages() != len(firstRows)
				for i := 0; !badIndex && i < len(firstRows); i++ {
					badIndex = oi.FirstRowIndex(i) != firstRows[i]
				}
			}
			rows, err := c08fSplitRows(tr)
			if err != nil || int64(len(rows)) != rg.NumRows() {
				continue
			}
			hasDict := cm.DictionaryPageOffset != 0
			for _, e := range cm.Encoding {
				if e == format.PlainDictionary || e == format.RLEDictionary {
					hasDict = true
				}
			}
			layout := "testdata"
			if hasDict && cm.DictionaryPageOffset == 0 {
				layout = "testdata-no-dict-offset"
			}
			out = append(out, &c08fChunk{file: "testdata/" + base, layout: layout, codec: strings.ToLower(cm.Codec.String()), data: data, rg: gi, col: ci, rows: rows, hasDict: hasDict, badIndex: badIndex})
		}
	}
	if len(out) == 0 {
		return nil, "no chunk readable sequentially"
	}
	return out, ""
}

func c08fTask(ctx *core.Ctx, c *c08fChunk, origin string, r *rand.Rand, nhist int) {
	ctx.Hist("foreign-layout", c.layout)
	ctx.Hist("foreign-codec", c.codec)
	if c.badIndex {
		ctx.Hist("foreign-testdata-index", "contradicts the pages: driven without index")
	}
	ctx.Hist("foreign-chunk-dictionary", fmt.Sprint(c.hasDict))
	ctx.Hist("foreign-chunk-rows", bucket(len(c.rows)))
	for h := 0; h < nhist; h++ {
		o := c08fOpen{SkipIndex: r.Intn(2) == 0, Async: r.Intn(4) == 0, ReadBuf: []int{0, 0, 1, 16, 300, 4096}[r.Intn(6)]}
		if h < 2 {
			o.Async = false // the two directed histories need ReadDictionary and the stream offset
		}
		ops := c08fRandOps(r, len(c.rows), h)
		if c.badIndex {
			o.SkipIndex = true
			for i := range ops {
				if ops[i].K == 'i' {
					ops[i].K = 'r'
				}
			}
		}
		opsText := c08fOpsString(ops)
		seekAfterRead := false
		for i, reads := 0, 0; i < len(ops); i++ {
			if ops[i].K == 'r' {
				reads++
			} else if ops[i].K == 's' && reads > 0 {
				seekAfterRead = true
			}
		}
		ctx.Case(fmt.Sprintf("foreign|%s|%s|%d|%d|%s|%s", c.file, c.layout, c.rg, c.col, o, opsText), c.hasDict || seekAfterRead)
		ctx.Hist("foreign-ops", bucket(len(ops)))
		key := func(f *c08fFail, ops []c08Op) string {
			return fmt.Sprintf("foreign-pages-%s layout=%s cause=%s", f.sym, c.layout, c08fCause(ops, f.at))
		}
		fail, stats := c08fRun(c, o, ops)
		for k, n := range stats {
			ctx.HistN("foreign-situation", k, int64(n))
		}
		if fail == nil {
			continue
		}
		k := key(fail, ops)
		small := c08fShrink(c, o, ops, key, k)
		if f2, _ := c08fRun(c, o, small); f2 != nil && key(f2, small) == k {
			fail = f2
		} else {
			small = ops
		}
		detail := map[string]any{
			"file": c.file, "layout": c.layout, "codec": c.codec, "row_group": c.rg, "column": c.col, "rows": len(c.rows),
			"dictionary_page": c.hasDict, "open": o.String(), "ops": c08fOpsString(small), "ops_before_shrinking": opsText,
			"failing_op": fail.at, "origin": origin,
			"replay":      "open the file with the options, take RowGroups()[row_group].ColumnChunks()[column].Pages(), run ops (s<k> SeekToRow, r ReadPage, d ReadDictionary, i ColumnChunk.OffsetIndex()), then ReadPage to io.EOF",
			"file_sha256": hashHex(c.data),
		}
		if c.layout == "no-dict-offset" || c.layout == "no-dict-offset-no-index" {
			detail["footer"] = "rewritten: dictionary_page_offset cleared, data_page_offset = offset of the dictionary page" + map[bool]string{true: ", column/offset index references cleared", false: ""}[c.layout == "no-dict-offset-no-index"]
		}
		if len(c.data) <= 4096 {
			detail["file_hex"] = c08HexIfSmall(c.data)
		}
		ctx.Fail("L1", k, fail.what, detail)
	}
}
