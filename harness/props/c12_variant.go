package props

// C12, schema conversion ACROSS VARIANT COLUMNS: sources with shredded and unshredded variant
// columns between ordinary columns; targets that drop / permute / add ordinary columns before and
// after the variant columns and switch a variant column between shredded and unshredded.
// Oracle: what is read through the target schema equals, field by field, what is read from the
// file with its own schema (ordinary columns by value, variant columns as variant values), added
// fields are null / empty / zero, row count and order unchanged.

import (
	"bytes"
	"fmt"
	"io"
	"math/rand"
	"reflect"
	"strings"

	"github.com/parquet-go/parquet-go"

	"verifharness/core"
)

type c12VField struct {
	name   string
	kind   string     // i32 i64 f64 str bool var grp
	rep    int        // ordinary leaves: 0 required, 1 optional, 2 repeated
	shred  *c19Schema // var: nil = unshredded
	fields []*c12VField
}

func (f *c12VField) text() string {
	switch f.kind {
	case "var":
		if f.shred == nil {
			return f.name + ":variant"
		}
		return f.name + ":variant(shredded " + f.shred.String() + ")"
	case "grp":
		var parts []string
		for _, c := range f.fields {
			parts = append(parts, c.text())
		}
		return f.name + ":group{" + strings.Join(parts, "; ") + "}"
	}
	return f.name + ":" + c12RepName[f.rep] + " " + f.kind
}

func c12VFieldsText(fs []*c12VField) string {
	var parts []string
	for _, f := range fs {
		parts = append(parts, f.text())
	}
	return strings.Join(parts, "; ")
}

func (f *c12VField) node() (parquet.Node, error) {
	var n parquet.Node
	switch f.kind {
	case "i32":
		n = parquet.Int(32)
	case "i64":
		n = parquet.Int(64)
	case "f64":
		n = parquet.Leaf(parquet.DoubleType)
	case "str":
		n = parquet.String()
	case "bool":
		n = parquet.Leaf(parquet.BooleanType)
	case "var":
		if f.shred == nil {
			return parquet.Variant(), nil
		}
		return parquet.ShreddedVariant(f.shred.parquetNode())
	case "grp":
		return c12VGroup(f.fields)
	}
	switch f.rep {
	case 1:
		n = parquet.Optional(n)
	case 2:
		n = parquet.Repeated(n)
	}
	return n, nil
}

func c12VGroup(fs []*c12VField) (parquet.Node, error) {
	g := c12Group{Group: parquet.Group{}}
	for _, f := range fs {
		n, err := f.node()
		if err != nil {
			return nil, err
		}
		g.Group[f.name] = n
		g.order = append(g.order, f.name)
	}
	return g, nil
}

var c12VGoLeaf = map[string]reflect.Type{
	"i32": reflect.TypeOf(int32(0)), "i64": reflect.TypeOf(int64(0)), "f64": reflect.TypeOf(float64(0)),
	"str": reflect.TypeOf(""), "bool": reflect.TypeOf(false),
}

// the Go struct type rows of these fields are read into / written from (fields matched by name)
func c12VStruct(fs []*c12VField) reflect.Type {
	var sf []reflect.StructField
	for i, f := range fs {
		var t reflect.Type
		tag := f.name
		switch f.kind {
		case "var":
			t = reflect.TypeOf(c19Raw{})
			tag += ",variant"
		case "grp":
			t = c12VStruct(f.fields)
		default:
			t = c12VGoLeaf[f.kind]
			switch f.rep {
			case 1:
				t = reflect.PointerTo(t)
				tag += ",optional"
			case 2:
				t = reflect.SliceOf(t)
			}
		}
		sf = append(sf, reflect.StructField{Name: fmt.Sprintf("F%d", i), Type: t, Tag: reflect.StructTag(`parquet:"` + tag + `"`)})
	}
	return reflect.StructOf(sf)
}

func c12VFill(r *rand.Rand, fs []*c12VField, v reflect.Value, texts *[]string) {
	leaf := func(kind string, x reflect.Value) {
		switch kind {
		case "i32", "i64":
			x.SetInt(int64(r.Intn(7) - 3))
		case "f64":
			x.SetFloat([]float64{0, 1.5, -2.25}[r.Intn(3)])
		case "str":
			x.SetString([]string{"", "a", "bc", "hello"}[r.Intn(4)])
		case "bool":
			x.SetBool(r.Intn(2) == 0)
		}
	}
	for i, f := range fs {
		x := v.Field(i)
		switch f.kind {
		case "var":
			var n *c19Node
			if r.Intn(5) == 0 {
				b := 6 + r.Intn(8)
				n = c19RandTree(r, 0, 1+r.Intn(3), &b)
			} else {
				n = c19ShredValue(r, f.shred, 0, false)
			}
			m, val := c19Encode(n.toVariant())
			x.Set(reflect.ValueOf(c19Raw{Metadata: m, Value: val}))
			*texts = append(*texts, f.name+"="+n.SortedString())
		case "grp":
			c12VFill(r, f.fields, x, texts)
		default:
			switch f.rep {
			case 0:
				leaf(f.kind, x)
			case 1:
				if r.Intn(3) > 0 {
					p := reflect.New(x.Type().Elem())
					leaf(f.kind, p.Elem())
					x.Set(p)
				}
			case 2:
				for k := r.Intn(3); k > 0; k-- {
					e := reflect.New(x.Type().Elem()).Elem()
					leaf(f.kind, e)
					x.Set(reflect.Append(x, e))
				}
			}
		}
	}
}

// canonical text of every field of a row, by dotted name; variant fields as variant values
func c12VDump(fs []*c12VField, v reflect.Value, prefix string, out map[string]string) {
	for i, f := range fs {
		x := v.Field(i)
		switch f.kind {
		case "var":
			raw := x.Interface().(c19Raw)
			val, err := c19Decode(raw.Metadata, raw.Value)
			if err != nil {
				out[prefix+f.name] = "undecodable variant: " + err.Error()
			} else {
				out[prefix+f.name] = c19VText(val, true)
			}
		case "grp":
			c12VDump(f.fields, x, prefix+f.name+".", out)
		default:
			out[prefix+f.name] = c12Dump(x)
		}
	}
}

func c12VZero(fs []*c12VField, prefix string, out map[string]string) {
	c12VDump(fs, reflect.New(c12VStruct(fs)).Elem(), prefix, out)
}

func c12VClone(fs []*c12VField) []*c12VField {
	var out []*c12VField
	for _, f := range fs {
		c := *f
		c.fields = c12VClone(f.fields)
		out = append(out, &c)
	}
	return out
}

var c12VKinds = []string{"i32", "i64", "f64", "str", "bool"}

func c12VariantCase(ctx *core.Ctx, r *rand.Rand, at func(path, mode string, detail any)) {
	shredOrNot := func() *c19Schema {
		if r.Intn(3) == 0 {
			return nil
		}
		return c19RandSchema(r, 1)
	}
	// source: a required leaf with the smallest name in every group (so that added columns are
	// synthesised correctly, see F19), ordinary columns and variant columns interleaved by name
	ord := func(prefix string, k int) []*c12VField {
		var fs []*c12VField
		for i := 0; i < k; i++ {
			fs = append(fs, &c12VField{name: fmt.Sprintf("%c%d%s", "cfkptx"[r.Intn(6)], i, prefix), kind: c12VKinds[r.Intn(5)], rep: r.Intn(3)})
		}
		return fs
	}
	src := []*c12VField{{name: "a0", kind: "i64"}}
	src = append(src, ord("", 1+r.Intn(3))...)
	nvar := 1 + r.Intn(2)
	for i := 0; i < nvar; i++ {
		src = append(src, &c12VField{name: []string{"e_var", "s_var"}[i], kind: "var", shred: shredOrNot()})
	}
	if r.Intn(3) == 0 {
		g := &c12VField{name: "m_grp", kind: "grp", fields: []*c12VField{{name: "a0", kind: "i32"}}}
		g.fields = append(g.fields, ord("g", r.Intn(2))...)
		g.fields = append(g.fields, &c12VField{name: "h_var", kind: "var", shred: shredOrNot()})
		src = append(src, g)
	}
	r.Shuffle(len(src), func(i, j int) { src[i], src[j] = src[j], src[i] })

	// target
	var toggles []string
	nadd := 0
	var derive func(fs []*c12VField, top bool) []*c12VField
	derive = func(fs []*c12VField, top bool) []*c12VField {
		var out []*c12VField
		for _, f := range c12VClone(fs) {
			switch f.kind {
			case "var":
				switch x := r.Intn(10); {
				case x < 5 && f.shred != nil:
					f.shred = nil
					toggles = append(toggles, "shredded-to-unshredded")
				case x < 7 && f.shred == nil:
					f.shred = c19RandSchema(r, 1)
					toggles = append(toggles, "unshredded-to-shredded")
				case f.shred == nil:
					toggles = append(toggles, "unshredded-kept")
				default:
					toggles = append(toggles, "shredded-kept")
				}
			case "grp":
				f.fields = derive(f.fields, false)
			default:
				if f.name != "a0" && r.Intn(4) == 0 {
					continue // drop
				}
			}
			out = append(out, f)
		}
		for k := r.Intn(3); k > 0; k-- {
			nadd++
			out = append(out, &c12VField{name: fmt.Sprintf("%c_add%d", "bdglnruz"[r.Intn(8)], nadd), kind: c12VKinds[r.Intn(5)], rep: r.Intn(3)})
		}
		r.Shuffle(len(out), func(i, j int) { out[i], out[j] = out[j], out[i] })
		return out
	}
	tgt := derive(src, true)
	mode := "no-variant-change"
	for _, t := range toggles {
		if t == "shredded-to-unshredded" {
			mode = t
		} else if t == "unshredded-to-shredded" && mode == "no-variant-change" {
			mode = t
		}
	}
	addedBefore := false // an added field precedes a variant column in the target's field order
	var scan func(fs []*c12VField, seenAdd bool) bool
	scan = func(fs []*c12VField, seenAdd bool) bool {
		for _, f := range fs {
			if strings.Contains(f.name, "_add") {
				seenAdd = true
			}
			if f.kind == "var" && seenAdd {
				addedBefore = true
			}
			if f.kind == "grp" {
				seenAdd = scan(f.fields, seenAdd)
			}
		}
		return seenAdd
	}
	scan(tgt, false)

	nrows := 1 + r.Intn(8)
	det := map[string]any{"source": c12VFieldsText(src), "target": c12VFieldsText(tgt), "rows": nrows}
	at("variant-source", mode, det)
	srcT, tgtT := c12VStruct(src), c12VStruct(tgt)
	var srcS, tgtS *parquet.Schema
	var file []byte
	var valueTexts []string
	_, err := c12Guard(func() (*c12Out, error) {
		sn, err := c12VGroup(src)
		if err != nil {
			return nil, err
		}
		tn, err := c12VGroup(tgt)
		if err != nil {
			return nil, err
		}
		srcS, tgtS = parquet.NewSchema("src", sn), parquet.NewSchema("tgt", tn)
		var rows []parquet.Row
		for i := 0; i < nrows; i++ {
			p := reflect.New(srcT)
			c12VFill(r, src, p.Elem(), &valueTexts)
			rows = append(rows, srcS.Deconstruct(nil, p.Interface()))
		}
		var buf bytes.Buffer
		w := parquet.NewWriter(&buf, srcS)
		if _, err := w.WriteRows(rows); err != nil {
			return nil, err
		}
		if err := w.Close(); err != nil {
			return nil, err
		}
		file = buf.Bytes()
		return nil, nil
	})
	det["values"] = valueTexts
	if err != nil {
		// building or writing the source is C19's business, not this check's
		ctx.Hist("variant-source-rejected", errClass(err))
		return
	}
	ctx.Case(fmt.Sprint(det), mode != "no-variant-change" || addedBefore)
	ctx.Hist("variant-mode", mode)
	ctx.Hist("variant-added-field-before-variant", fmt.Sprint(addedBefore))

	readAll := func(rd *parquet.Reader, t reflect.Type, fs []*c12VField, n int) ([]map[string]string, error) {
		var out []map[string]string
		for i := 0; i < n+1; i++ {
			p := reflect.New(t)
			if err := rd.Read(p.Interface()); err != nil {
				if err == io.EOF {
					break
				}
				return out, err
			}
			m := map[string]string{}
			c12VDump(fs, p.Elem(), "", m)
			out = append(out, m)
		}
		return out, nil
	}
	// baseline: the file through its own schema
	var base []map[string]string
	at("variant-baseline-read", mode, det)
	_, err = c12Guard(func() (*c12Out, error) {
		rd := parquet.NewReader(bytes.NewReader(file))
		defer rd.Close()
		var err error
		base, err = readAll(rd, srcT, src, nrows)
		return nil, err
	})
	if err != nil || len(base) != nrows {
		ctx.Hist("variant-baseline-unreadable", fmt.Sprint(err))
		return
	}
	zero := map[string]string{}
	c12VZero(tgt, "", zero)

	paths := []struct {
		name string
		run  func() ([]map[string]string, error)
	}{
		{"new-reader-schema-rows", func() ([]map[string]string, error) {
			rd := parquet.NewReader(bytes.NewReader(file), tgtS)
			defer rd.Close()
			rows, err := c12ReadRows(rd, 3)
			if err != nil {
				return nil, err
			}
			var out []map[string]string
			for _, row := range rows {
				p := reflect.New(tgtT)
				if err := tgtS.Reconstruct(p.Interface(), row); err != nil {
					return nil, err
				}
				m := map[string]string{}
				c12VDump(tgt, p.Elem(), "", m)
				out = append(out, m)
			}
			return out, nil
		}},
		// Reader.Read(&T) converts once more, from the reader's schema to schemaOf(T); that second
		// conversion reads the first one through its column chunks (known finding). It is part of
		// the oracle only when the two schemas are equal (no second conversion).
		{"new-reader-schema-read", func() ([]map[string]string, error) {
			rd := parquet.NewReader(bytes.NewReader(file), tgtS)
			defer rd.Close()
			return readAll(rd, tgtT, tgt, nrows)
		}},
		{"copy-rows-writer", func() ([]map[string]string, error) {
			f, err := parquet.OpenFile(bytes.NewReader(file), int64(len(file)))
			if err != nil {
				return nil, err
			}
			var buf bytes.Buffer
			w := parquet.NewWriter(&buf, tgtS)
			for _, rg := range f.RowGroups() {
				rr := rg.Rows()
				_, err := parquet.CopyRows(w, rr)
				rr.Close()
				if err != nil {
					return nil, err
				}
			}
			if err := w.Close(); err != nil {
				return nil, err
			}
			rd := parquet.NewReader(bytes.NewReader(buf.Bytes()))
			defer rd.Close()
			return readAll(rd, tgtT, tgt, nrows)
		}},
		{"convert-rows-reconstruct", func() ([]map[string]string, error) {
			f, err := parquet.OpenFile(bytes.NewReader(file), int64(len(file)))
			if err != nil {
				return nil, err
			}
			conv, err := parquet.Convert(tgtS, f.Schema())
			if err != nil {
				return nil, err
			}
			var out []map[string]string
			for _, rg := range f.RowGroups() {
				rr := rg.Rows()
				rows, err := c12ReadRows(rr, 3)
				rr.Close()
				if err != nil {
					return nil, err
				}
				if _, err := conv.Convert(rows); err != nil {
					return nil, err
				}
				for _, row := range rows {
					p := reflect.New(tgtT)
					if err := tgtS.Reconstruct(p.Interface(), row); err != nil {
						return nil, err
					}
					m := map[string]string{}
					c12VDump(tgt, p.Elem(), "", m)
					out = append(out, m)
				}
			}
			return out, nil
		}},
	}
	structSchemaEqual := false
	c12Guard(func() (*c12Out, error) {
		structSchemaEqual = parquet.EqualNodes(parquet.SchemaOf(reflect.New(tgtT).Interface()), tgtS)
		return nil, nil
	})
	ctx.Hist("variant-struct-schema-equals-target", fmt.Sprint(structSchemaEqual))
	for _, p := range paths {
		fail := ctx.Fail
		if p.name == "new-reader-schema-read" && !structSchemaEqual {
			fail = func(layer, key, what string, detail any) {
				ctx.Observe("reader-read-into-struct-of-another-schema-reconverts-through-the-chunk-view",
					"NewReader(file, schema).Read(&T) with schemaOf(T) != schema chains a second conversion over the column chunks of the first: "+key+": "+what, detail)
			}
		}
		at("variant:"+p.name, mode, det)
		ctx.Hist("path", "variant:"+p.name)
		var got []map[string]string
		_, err := c12Guard(func() (*c12Out, error) {
			var err error
			got, err = p.run()
			return nil, err
		})
		d := map[string]any{"path": p.name, "added_field_before_variant": addedBefore}
		for k, v := range det {
			d[k] = v
		}
		if err != nil {
			k := "path-error:variant:" + p.name + ":" + mode + ":" + errClass(err)
			if strings.HasPrefix(err.Error(), "PANIC") {
				k = "path-panic:variant:" + p.name + ":" + mode
			}
			fail("L1", k, "reading a file with variant columns through a compatible target schema fails: "+err.Error(), d)
			continue
		}
		if len(got) != nrows {
			fail("L1", "row-count-or-structure:variant:"+p.name, fmt.Sprintf("%d rows for %d", len(got), nrows), d)
			continue
		}
	rows:
		for i := range got {
			for name, g := range got[i] {
				want, shared := base[i][name]
				kind := "added"
				if !shared {
					want = zero[name]
				} else {
					kind = "shared"
				}
				if g == want {
					continue
				}
				isVar := strings.HasSuffix(name, "_var")
				d["row"], d["field"], d["expected"], d["got"] = i, name, want, g
				switch {
				case isVar:
					fail("L1", "variant-column-altered:"+p.name+":"+mode, "a variant column does not hold the source's variant value after conversion", d)
				case kind == "shared":
					fail("L1", "shared-column-altered:variant:"+p.name+":"+mode, "an ordinary column next to a variant column is altered", d)
				default:
					fail("L1", "added-column-not-null:variant:"+p.name+":"+mode, "an added column next to a variant column is not null / empty / zero", d)
				}
				break rows
			}
		}
	}
}

var _ = core.Hex
