package props

import (
	"bytes"
	"encoding/json"
	"fmt"
	"io"
	"math"
	"math/rand"
	"sort"
	"strings"

	"github.com/parquet-go/parquet-go"

	"verifharness/core"
)

// Statistics of IN-MEMORY column chunks (C05, files sub-check). A parquet.Buffer / GenericBuffer is a RowGroup:
// every ColumnChunk of it answers ColumnIndex(), OffsetIndex() and NumValues() like a chunk of a file, and
// readers, merges and MultiRowGroup views prune by those answers exactly as by a file's index. So every clause
// of the property applies to them ("every min/max recorded for ... a column-index entry", "null counts,
// null-page flags, value counts equal the real counts"), for the index the chunk computes on the fly from its
// definition levels and base page (column_buffer.go nullableColumnIndex, column_index.go <type>ColumnIndex,
// dictionary.go indexedColumnIndex) instead of the record a writer accumulates:
//
//	L1  NumPages = pages the chunk yields; NullCount(i) = nulls read from page i; NullPage(i) = page i has no
//	    non-null value; MinValue/MaxValue bound the non-null non-NaN values; a claimed order is true;
//	    OffsetIndex.FirstRowIndex(i) = rows before page i; NumValues() = values read
//	L2  value/null/row count of each page against the Lean level model (`c05.levels`, levelStats_exact) run on
//	    the level stream read back, and NullCount/NullPage against the mirror of nullableColumnIndex over the
//	    buffer's definition levels (`c05.bufnulls`, theorem bufferIndex_exact; the level-0 slip is refuted by
//	    bufferIndex_levelZero_wrong)
//
// Schemas: leaves at max definition level 0..3 and max repetition level 0..2 (optional leaf in an optional
// group, in a repeated group, in two optional groups; repeated leaf in an optional / repeated group; required
// leaf in an optional group), int64/int32/double/float/string leaves (NaN, -0, infinities among the floats), one dictionary-indexed leaf. Nulls are placed
// at EVERY definition level below the max (parent null, parent present + leaf null, empty list), buffers of
// nulls only with and without a level-0 null, buffers filled through the typed and the untyped API, sorted or
// not; several buffers (optionally together with a row group of a file written from one of them) are also read
// through parquet.MultiRowGroup and checked by c05CheckMultiView.

type c05BufLeafs struct {
	V  *int64   `parquet:"v,optional" json:"v,omitempty"`
	S  *string  `parquet:"s,optional" json:"s,omitempty"`
	F  *float64 `parquet:"f,optional" json:"-"`
	FB *uint64  `parquet:"-" json:"f,omitempty"` // bit pattern of F (NaN payloads survive the replay file)
	H  *float32 `parquet:"h,optional" json:"-"`
	HB *uint32  `parquet:"-" json:"h,omitempty"` // bit pattern of H
	R  int32    `parquet:"r" json:"r"`
	L  []int64  `parquet:"l" json:"l,omitempty"`
}

type c05BufMid struct {
	In *c05BufLeafs `parquet:"in,optional" json:"in,omitempty"`
	X  *int32       `parquet:"x,optional" json:"x,omitempty"`
}

type c05BufRow struct {
	K int64         `parquet:"k" json:"k"`
	O *int64        `parquet:"o,optional" json:"o,omitempty"`
	D *string       `parquet:"d,optional,dict" json:"d,omitempty"`
	G *c05BufLeafs  `parquet:"g,optional" json:"g,omitempty"`
	E []c05BufLeafs `parquet:"e" json:"e,omitempty"`
	M *c05BufMid    `parquet:"m,optional" json:"m,omitempty"`
}

func (l *c05BufLeafs) fix() {
	if l != nil && l.FB != nil {
		f := math.Float64frombits(*l.FB)
		l.F = &f
	}
	if l != nil && l.HB != nil {
		h := math.Float32frombits(*l.HB)
		l.H = &h
	}
}

func (row *c05BufRow) fix() {
	row.G.fix()
	for i := range row.E {
		row.E[i].fix()
	}
	if row.M != nil {
		row.M.In.fix()
	}
}

// c05BufCase is the whole replayable input.
type c05BufCase struct {
	ID      string        `json:"id"`
	Buffers [][]c05BufRow `json:"buffers"`
	Typed   []bool        `json:"typed"` // per buffer: GenericBuffer[c05BufRow].Write, else Buffer.Write(row) one by one
	Sort    string        `json:"sort"`  // "", or path[:desc][:nullsfirst] of the sorting column (buffers are sorted before the check)
	File    bool          `json:"file"`  // the rows of buffer 0 written to a file, whose row group is one more member of the view
}

var c05BufFloats = []uint64{
	math.Float64bits(math.Inf(-1)), math.Float64bits(-1.5), math.Float64bits(math.Copysign(0, -1)), 0,
	math.Float64bits(1), math.Float64bits(2.5), math.Float64bits(math.Inf(1)), 0x7ff8000000000001, 0xfff0000000000123,
}

var c05BufWords = []string{"", "a", "b", "zz", "ÿÿ", strings.Repeat("x", 40)}

// mode 0: nulls at every level at random; 1: every optional leaf null / list empty under PRESENT parents (nulls
// only, none of them at level 0 for the nested leaves); 2: every optional group null (nulls at level 0 only)
func c05BufGenLeafs(r *rand.Rand, mode int) c05BufLeafs {
	var l c05BufLeafs
	l.R = int32(r.Intn(7) - 3)
	if mode != 0 {
		return l
	}
	if r.Intn(3) > 0 {
		v := int64(r.Intn(11) - 5)
		if r.Intn(16) == 0 {
			v = []int64{math.MinInt64, math.MaxInt64}[r.Intn(2)]
		}
		l.V = &v
	}
	if r.Intn(3) > 0 {
		s := c05BufWords[r.Intn(len(c05BufWords))]
		l.S = &s
	}
	if r.Intn(3) > 0 {
		fb := c05BufFloats[r.Intn(len(c05BufFloats))]
		l.FB = &fb
	}
	for i := r.Intn(4); i > 0; i-- {
		l.L = append(l.L, int64(r.Intn(9)-4))
	}
	// drawn last (and from the same stream) so that the other leaves of a case keep their values
	if r.Intn(3) > 0 {
		hb := math.Float32bits(float32(math.Float64frombits(c05BufFloats[r.Intn(len(c05BufFloats))])))
		l.HB = &hb
	}
	l.fix()
	return l
}

func c05BufGenRow(r *rand.Rand, mode int) c05BufRow {
	row := c05BufRow{K: int64(r.Intn(11) - 5)}
	switch mode {
	case 2:
		return row
	case 1:
		g := c05BufGenLeafs(r, 1)
		row.G = &g
		for i := 1 + r.Intn(2); i > 0; i-- {
			row.E = append(row.E, c05BufGenLeafs(r, 1))
		}
		in := c05BufGenLeafs(r, 1)
		row.M = &c05BufMid{In: &in}
		return row
	}
	if r.Intn(3) > 0 {
		v := int64(r.Intn(11) - 5)
		row.O = &v
	}
	if r.Intn(3) > 0 {
		s := c05BufWords[r.Intn(len(c05BufWords))]
		row.D = &s
	}
	if r.Intn(4) > 0 {
		g := c05BufGenLeafs(r, 0)
		row.G = &g
	}
	for i := r.Intn(3); i > 0; i-- {
		row.E = append(row.E, c05BufGenLeafs(r, 0))
	}
	if r.Intn(4) > 0 {
		row.M = &c05BufMid{}
		if r.Intn(3) > 0 {
			in := c05BufGenLeafs(r, 0)
			row.M.In = &in
		}
		if r.Intn(2) == 0 {
			x := int32(r.Intn(7) - 3)
			row.M.X = &x
		}
	}
	return row
}

var c05BufSorts = []string{"", "", "k", "k:desc", "o", "o:desc:nullsfirst", "g.v:nullsfirst", "g.s", "m.in.v", "m.in.f:desc", "d"}

func c05BufGenCase(r *rand.Rand, id string) *c05BufCase {
	c := &c05BufCase{ID: id}
	nb := 1 + r.Intn(3)
	for i := 0; i < nb; i++ {
		mode := 0
		switch r.Intn(6) {
		case 0:
			mode = 1
		case 1:
			mode = 2
		}
		n := 1 + r.Intn(6)
		if r.Intn(10) == 0 {
			n = 20 + r.Intn(30)
		}
		rows := make([]c05BufRow, n)
		for j := range rows {
			m := mode
			if mode != 0 && n > 2 && r.Intn(8) == 0 {
				m = 3 - mode // a null-only buffer mixing both kinds of nulls
			}
			rows[j] = c05BufGenRow(r, m)
		}
		c.Buffers = append(c.Buffers, rows)
		c.Typed = append(c.Typed, r.Intn(2) == 0)
	}
	c.Sort = c05BufSorts[r.Intn(len(c05BufSorts))]
	c.File = r.Intn(4) == 0
	return c
}

func (c *c05BufCase) sorting() []parquet.RowGroupOption {
	if c.Sort == "" {
		return nil
	}
	f := strings.Split(c.Sort, ":")
	var sc parquet.SortingColumn = parquet.Ascending(strings.Split(f[0], ".")...)
	for _, o := range f[1:] {
		switch o {
		case "desc":
			sc = parquet.Descending(strings.Split(f[0], ".")...)
		}
	}
	for _, o := range f[1:] {
		if o == "nullsfirst" {
			sc = parquet.NullsFirst(sc)
		}
	}
	return []parquet.RowGroupOption{parquet.SortingRowGroupConfig(parquet.SortingColumns(sc))}
}

// one page of an in-memory chunk as read back: values for the bounds oracle, the level stream for the model
type c05MemPage struct {
	c05ReadPage
	pageNulls int64  // Page.NumNulls()
	entries   string // def:rep:e|n,... for c05.levels
	defs      []byte // definition level of every value read
}

func c05ReadMemPages(k *c05Kind, cc parquet.ColumnChunk) (out []c05MemPage, err error) {
	pages := cc.Pages()
	defer pages.Close()
	for {
		p, e := pages.ReadPage()
		if e != nil {
			if e != io.EOF {
				err = e
			}
			return
		}
		mp := c05MemPage{c05ReadPage: c05ReadPage{numValues: int(p.NumValues()), numRows: int(p.NumRows())}, pageNulls: p.NumNulls()}
		var es []string
		vr := p.Values()
		buf := make([]parquet.Value, 64)
		for {
			n, e := vr.ReadValues(buf)
			for _, v := range buf[:n] {
				val := "e"
				if v.IsNull() {
					mp.nulls++
					val = "n"
				} else {
					mp.vals = append(mp.vals, k.fromValue(v))
				}
				mp.defs = append(mp.defs, byte(v.DefinitionLevel()))
				es = append(es, fmt.Sprintf("%d:%d:%s", v.DefinitionLevel(), v.RepetitionLevel(), val))
			}
			if e != nil || n == 0 {
				break
			}
		}
		mp.entries = strings.Join(es, ",")
		parquet.Release(p)
		out = append(out, mp)
	}
}

func c05BufKindOf(t parquet.Type) *c05Kind {
	name := ""
	switch t.Kind() {
	case parquet.Int32:
		name = "i32"
	case parquet.Int64:
		name = "i64"
	case parquet.Double:
		name = "f64"
	case parquet.Float:
		name = "f32"
	case parquet.ByteArray:
		name = "string"
	default:
		return nil
	}
	kk := *c05KindByName(name)
	kk.typ = t
	return &kk
}

// c05CheckMemChunk: the property's clauses on what an in-memory chunk says about itself. `place` names the
// container in the failure key ("buffer", ...). Returns the pages read (nil if the chunk could not be read).
func c05CheckMemChunk(ctx *core.Ctx, b *c05Batch, k *c05Kind, place string, maxDef, maxRep int, cc parquet.ColumnChunk, detail func(map[string]any) map[string]any) []c05MemPage {
	var pages []c05MemPage
	var err error
	if p := c05Recover(func() { pages, err = c05ReadMemPages(k, cc) }); p != nil || err != nil {
		ctx.Fail("L1", place+"-read-pages-failed", fmt.Sprint(p, err), detail(nil))
		return nil
	}
	var ci parquet.ColumnIndex
	var oi parquet.OffsetIndex
	var cerr, oerr error
	var numValues int64
	if p := c05Recover(func() { ci, cerr = cc.ColumnIndex(); oi, oerr = cc.OffsetIndex(); numValues = cc.NumValues() }); p != nil {
		ctx.Fail("L1", place+"-index-panic "+k.name, fmt.Sprintf("ColumnIndex()/OffsetIndex()/NumValues() of an in-memory chunk panics: %v", p), detail(nil))
		return pages
	}
	read := 0
	for _, p := range pages {
		read += p.numValues
		if p.pageNulls != int64(p.nulls) {
			ctx.Fail("L1", place+"-page-num-nulls-wrong", fmt.Sprintf("Page.NumNulls()=%d, %d null values read from the page", p.pageNulls, p.nulls), detail(map[string]any{"entries": p.entries}))
		}
	}
	if numValues != int64(read) {
		ctx.Fail("L1", place+"-chunk-num-values-wrong", fmt.Sprintf("ColumnChunk.NumValues()=%d, %d values read from its pages", numValues, read), detail(nil))
	}
	if oerr == nil && oi != nil {
		if p := c05Recover(func() {
			if oi.NumPages() != len(pages) {
				ctx.Fail("L1", place+"-offset-index-numpages", fmt.Sprintf("OffsetIndex.NumPages()=%d, the chunk yields %d pages", oi.NumPages(), len(pages)), detail(nil))
				return
			}
			rows := int64(0)
			for i, p := range pages {
				if oi.FirstRowIndex(i) != rows {
					ctx.Fail("L1", place+"-offset-index-first-row-wrong", fmt.Sprintf("FirstRowIndex(%d)=%d, %d rows precede the page", i, oi.FirstRowIndex(i), rows), detail(nil))
				}
				rows += int64(p.numRows)
			}
		}); p != nil {
			ctx.Fail("L1", place+"-index-panic "+k.name, fmt.Sprintf("OffsetIndex of an in-memory chunk panics: %v", p), detail(nil))
		}
	}
	if cerr != nil || ci == nil {
		ctx.Hist(place+"-index", "none")
		return pages
	}
	ctx.Hist(place+"-index", "checked")
	v := c05ViewIndex(k, ci)
	if v.panicked != nil {
		ctx.Fail("L1", place+"-index-panic "+k.name, fmt.Sprintf("entry %d of the column index of an in-memory chunk: %v", v.panickedAt, v.panicked), detail(nil))
		return pages
	}
	if v.n != len(pages) {
		ctx.Fail("L1", place+"-index-numpages", fmt.Sprintf("ColumnIndex.NumPages()=%d, the chunk yields %d pages", v.n, len(pages)), detail(nil))
		return pages
	}
	for i, p := range pages {
		i, p := i, p
		d := func(extra map[string]any) map[string]any {
			m := map[string]any{"page": i, "entries": p.entries, "null_page": v.nullPage[i], "null_count": v.nullCount[i], "nulls_read": p.nulls, "values_read": p.numValues,
				"entry_min": k.text(v.min[i]), "entry_max": k.text(v.max[i])}
			for k, v := range extra {
				m[k] = v
			}
			return detail(m)
		}
		// which kind of nulls the page holds (the situations the index formula must tell apart)
		if maxDef > 1 {
			zero, mid := 0, 0
			for _, l := range p.defs {
				if l == 0 {
					zero++
				} else if int(l) < maxDef {
					mid++
				}
			}
			shape := "no-null"
			switch {
			case p.nulls == p.numValues && zero == 0:
				shape = "nulls-only none-at-level-0"
			case p.nulls == p.numValues:
				shape = "nulls-only"
			case mid > 0 && zero > 0:
				shape = "nulls at level 0 and between"
			case mid > 0:
				shape = "nulls between only"
			case zero > 0:
				shape = "nulls at level 0 only"
			}
			ctx.Hist(place+"-deep-null-shape", shape)
		}
		if v.nullCount[i] != int64(p.nulls) {
			key := place + "-index-null-count-wrong"
			if maxDef > 1 {
				key += " nested"
			}
			ctx.Fail("L1", key, fmt.Sprintf("NullCount(%d)=%d of the column index of an in-memory chunk, %d nulls read from that page", i, v.nullCount[i], p.nulls), d(nil))
		}
		if v.nullPage[i] != (len(p.vals) == 0) {
			key := place + "-index-null-page-wrong"
			if maxDef > 1 {
				key += " nested"
			}
			ctx.Fail("L1", key, fmt.Sprintf("NullPage(%d)=%v of the column index of an in-memory chunk, the page holds %d non-null values", i, v.nullPage[i], len(p.vals)), d(nil))
		}
		if !v.nullPage[i] && len(p.vals) > 0 {
			if key, what := c05BoundsOracle(k, p.vals, v.min[i], v.max[i], true, false); key != "" {
				ctx.Fail("L1", c05BoundKey(place+"-index-", key, k.name), "column index of an in-memory chunk: "+what, d(map[string]any{"values": k.texts(p.vals)}))
			}
		}
		// L2: the counts of the page and of the index against the Lean level model of the level stream read
		// back, and NullCount against the mirror of nullableColumnIndex.NullCount on the definition levels
		if p.entries != "" && (maxDef > 0 || maxRep > 0) {
			b.ask(fmt.Sprintf("c05.levels %d %d %s", maxDef, maxRep, p.entries), func(ans string) {
				f := strings.Fields(ans)
				if !(len(f) == 7 && f[0] == "ok" && f[1] == fmt.Sprint(p.numValues) && f[2] == fmt.Sprint(v.nullCount[i]) && f[2] == fmt.Sprint(p.pageNulls) && f[3] == fmt.Sprint(p.numRows)) {
					ctx.Fail("L2", place+"-level-model-mirror", "value count / null count / row count of the page of an in-memory chunk differ from the Lean level model of its level stream", d(map[string]any{"model": ans,
						"impl": fmt.Sprintf("num_values=%d page_nulls=%d index_null_count=%d num_rows=%d", p.numValues, p.pageNulls, v.nullCount[i], p.numRows)}))
				}
			})
		}
		if maxDef > 0 && len(pages) == 1 {
			// the index of a nullable in-memory chunk is a function of the buffer's definition levels alone
			b.ask(fmt.Sprintf("c05.bufnulls %d %s", maxDef, c05Levels(p.defs)), func(ans string) {
				f := strings.Fields(ans)
				np := "0"
				if v.nullPage[i] {
					np = "1"
				}
				if !(len(f) == 5 && f[0] == "ok" && f[1] == fmt.Sprint(v.nullCount[i]) && f[2] == np) {
					slip := ""
					if len(f) == 5 && f[3] == fmt.Sprint(v.nullCount[i]) && f[4] == np {
						slip = " (they equal the variant that counts definition level 0 only)"
					}
					ctx.Fail("L2", place+"-index-nulls-mirror", "NullCount/NullPage of the column index of an in-memory chunk differ from the Lean mirror of nullableColumnIndex over its definition levels"+slip,
						d(map[string]any{"model": ans, "impl": fmt.Sprintf("%d %s", v.nullCount[i], np), "definition_levels": c05Levels(p.defs)}))
				}
			})
		}
	}
	if v.order != 0 {
		if i, j, _, bad := c05OrderBreak(k, v.order, v.nullPage, v.min, v.max); bad {
			ctx.Fail("L1", place+"-index-order-false", fmt.Sprintf("the column index of an in-memory chunk claims order %d but pages %d and %d are out of order", v.order, i, j), detail(nil))
		}
	}
	return pages
}

func c05BufferCase(ctx *core.Ctx, b *c05Batch, c *c05BufCase) {
	cj, _ := json.Marshal(c)
	total := 0
	for _, rows := range c.Buffers {
		total += len(rows)
	}
	anon := *c
	anon.ID = ""
	aj, _ := json.Marshal(&anon)
	ctx.Case("buffers "+string(aj), total >= 2)
	ctx.Hist("file-pages", "buffers")
	ctx.Hist("buffer-count", fmt.Sprint(len(c.Buffers)))
	ctx.Hist("buffer-sort", c.Sort)
	base := map[string]any{"op": "buffers", "case": string(cj)}
	if ctx.Replay == "" && total <= 4 && len(c.Buffers) == 1 {
		ctx.Sample("buffers " + string(cj))
	}
	schema := parquet.SchemaOf(c05BufRow{})
	leaves := schema.Columns()
	var rgs []parquet.RowGroup
	if p := c05Recover(func() {
		for i, rows := range c.Buffers {
			var rg interface {
				parquet.RowGroup
				sort.Interface
			}
			if c.Typed[i] {
				gb := parquet.NewGenericBuffer[c05BufRow](c.sorting()...)
				if _, err := gb.Write(rows); err != nil {
					panic(err)
				}
				rg = gb
			} else {
				ub := parquet.NewBuffer(append([]parquet.RowGroupOption{schema}, c.sorting()...)...)
				for j := range rows {
					if err := ub.Write(&rows[j]); err != nil {
						panic(err)
					}
				}
				rg = ub
			}
			if c.Sort != "" {
				sort.Sort(rg)
			}
			rgs = append(rgs, rg)
		}
		if c.File {
			var buf bytes.Buffer
			w := parquet.NewGenericWriter[c05BufRow](&buf, parquet.PageBufferSize(1))
			for _, row := range c.Buffers[0] {
				if _, err := w.Write([]c05BufRow{row}); err != nil {
					panic(err)
				}
			}
			if err := w.Close(); err != nil {
				panic(err)
			}
			pf, err := parquet.OpenFile(bytes.NewReader(buf.Bytes()), int64(buf.Len()))
			if err != nil {
				panic(err)
			}
			rgs = append(rgs, pf.RowGroups()...)
		}
	}); p != nil {
		ctx.Fail("L1", "buffer-build-failed", fmt.Sprint(p), base)
		return
	}
	members := make([][]c05MultiMember, len(leaves))
	kinds := make([]*c05Kind, len(leaves))
	for g, rg := range rgs {
		inMemory := g < len(c.Buffers)
		for ci, cc := range rg.ColumnChunks() {
			leaf, _ := schema.Lookup(leaves[ci]...)
			k := c05BufKindOf(cc.Type())
			if k == nil {
				continue
			}
			kinds[ci] = k
			colName := strings.Join(leaves[ci], ".")
			detail := func(extra map[string]any) map[string]any {
				m := map[string]any{"column": colName, "member": g, "in_memory": inMemory, "max_definition_level": leaf.MaxDefinitionLevel, "max_repetition_level": leaf.MaxRepetitionLevel, "build": ctx.Variant}
				for k, v := range base {
					m[k] = v
				}
				for k, v := range extra {
					m[k] = v
				}
				return m
			}
			var rps []c05ReadPage
			if inMemory {
				ctx.Hist("buffer-column", fmt.Sprintf("%s def<=%d rep<=%d", colName, leaf.MaxDefinitionLevel, leaf.MaxRepetitionLevel))
				mps := c05CheckMemChunk(ctx, b, k, "buffer", leaf.MaxDefinitionLevel, leaf.MaxRepetitionLevel, cc, detail)
				if mps == nil {
					continue
				}
				for _, mp := range mps {
					rps = append(rps, mp.c05ReadPage)
				}
			} else {
				var err error
				if p := c05Recover(func() { rps, err = c05ReadPages(k, cc) }); p != nil || err != nil {
					ctx.Fail("L1", "read-pages-failed buffers", fmt.Sprint(p, err), detail(nil))
					continue
				}
			}
			members[ci] = append(members[ci], c05MultiMember{cc: cc, pages: rps})
		}
	}
	if len(rgs) < 2 {
		return
	}
	// the same chunks through MultiRowGroup: the view's entries are the members' (in-memory) entries
	var mchunks []parquet.ColumnChunk
	if p := c05Recover(func() { mchunks = parquet.MultiRowGroup(rgs...).ColumnChunks() }); p != nil || len(mchunks) != len(leaves) {
		ctx.Fail("L1", "multi-row-group-failed buffers", fmt.Sprint(p), base)
		return
	}
	for ci := range leaves {
		if kinds[ci] == nil || len(members[ci]) != len(rgs) {
			continue
		}
		colName := strings.Join(leaves[ci], ".")
		detail := func(extra map[string]any) map[string]any {
			m := map[string]any{"column": colName, "multi_row_group": true, "members": len(rgs), "build": ctx.Variant}
			for k, v := range base {
				m[k] = v
			}
			for k, v := range extra {
				m[k] = v
			}
			return m
		}
		c05CheckMultiView(ctx, b, kinds[ci], kinds[ci].name+" buffers", 0, mchunks[ci], members[ci], detail)
	}
}

// c05ReplayBuffers re-runs a recorded buffers case (detail.op = "buffers", detail.case = the JSON of c05BufCase).
func c05ReplayBuffers(ctx *core.Ctx, b *c05Batch, d map[string]any) {
	text, _ := d["case"].(string)
	var c c05BufCase
	if err := json.Unmarshal([]byte(text), &c); err != nil || len(c.Buffers) == 0 || len(c.Typed) != len(c.Buffers) {
		ctx.Fail("L2", "replay-unparsable", fmt.Sprint("buffers case: ", err), ctx.Replay)
		return
	}
	for _, rows := range c.Buffers {
		for i := range rows {
			rows[i].fix()
		}
	}
	c05BufferCase(ctx, b, &c)
}
