package props

// C04, part DELTA: DELTA_BINARY_PACKED (int32/int64), DELTA_LENGTH_BYTE_ARRAY, DELTA_BYTE_ARRAY
// (byte arrays and fixed-length byte arrays) of encoding/delta.
//
// L1 (property oracle, independent of the mirror):
//   * the Lean SPEC decoder (written from Encodings.md) applied to the bytes the real Go encoder
//     produced returns the input and consumes the stream exactly;
//   * Go Decode(Go Encode(xs)) = xs, with dirty reused destination buffers;
//   * Go Encode into a dirty dst (0xFF filled, capacity smaller/larger, or whatever an earlier call on
//     the same worker left) = Go Encode into nil (the encoder ORs bits into dst);
//   * byte-array inputs given as a window of a larger buffer (offsets[0] > 0 / bytes after the last
//     offset, as Page.Slice produces) encode the window only;
//   * conformant streams the library's own encoder never emits (reference encoder c04dRef*, written
//     from Encodings.md, independent of the library: other legal block/miniblock geometries,
//     non-minimal bit widths, any frame of reference, arbitrary width bytes of unneeded miniblocks,
//     arbitrary padding): Go Decode(stream) = values and Lean specDecode(stream) = values (the
//     latter validates the reference encoder); decodeInt32/64 (hooks VerifDecodeInt32/64) leave exactly the
//     bytes that follow the stream unread; DecodeFixedLenByteArray reads foreign streams too (confflba);
//     the reference encoder's choices are sent to Lean as a ConfStream description (op delta.conf32/64):
//     the description must be well-formed (so the theorems conformant32/64_spec/_go, conformant_dlba/dba_*
//     of Props/C04DeltaConf.lean apply to the very stream) and render to the same bytes and values.
// Observations (ctx.Observe: outside C04 as stated, reported in the evidence, never in the verdict):
//   * malformed / extended streams that the library's own encoders never produce: Go decoder vs SPEC
//     decoder; both succeed => same values; every other combination is either one of the
//     asymmetries listed (and justified) at runMalformed or an observation with a stable key.
// L2 (mirror): Go encoder bytes == Lean MIRROR encoder bytes, byte-exact, and Go decoder outcome ==
//   Lean MIRROR decoder outcome (values when both accept, accept/reject otherwise) on every stream
//   of this file (own encodings, foreign conformant, malformed), on the build this binary was
//   compiled for (ctx.Variant = asm | purego).
//
// Corpus / replay line formats (also the canonical text of a case):
//   i32 <ints> | i64 <ints> | dlba <vals> | dba <vals> | flba <size> <hex>
//   win-dlba <base> <tail> <vals> | win-dba <base> <tail> <vals>
//   mal32 <hex> | mal64 <hex> | maldlba <hex> | maldba <hex>
//   conf32 <stream hex> <ints> [<n>] | conf64 <stream hex> <ints> [<n>] | confdlba <stream hex> <vals> | confdba <stream hex> <vals>
//   confflba <size> <stream hex> <values hex>
//     (a spec-conformant stream produced by the reference encoder below + the values it encodes; <n> = number of
//      bytes that follow the stream in the decoder's input — decodeInt32/64 must hand back exactly those)
//   unpack32 <width> <n> <hex> | unpack64 <width> <n> <hex>
//     (L2 only: bitpack.Unpack reading n values of the given width vs the Lean mirror of the portable kernel,
//      which is proved equal to LSB-first unpacking: unpack32/64_kernel)
// (<vals>: comma separated hex strings, "e" = empty value, "-" = empty list)

import (
	"bufio"
	"bytes"
	"encoding/binary"
	"encoding/hex"
	"fmt"
	"math"
	"math/rand"
	"os"
	"runtime/debug"
	"strconv"
	"strings"
	"sync"

	"github.com/parquet-go/bitpack"
	"github.com/parquet-go/parquet-go/encoding/delta"

	"verifharness/core"
	"verifharness/drv"
)

func init() { RegisterSub("C04", "delta", RunC04Delta) }

// FIXED_LEN_BYTE_ARRAY sizes: around the 8/16/32/64-byte kernel widths of byte_array_amd64.go (the 128-bit kernel is
// for size == 16 only, the 256-bit one for sizes below 16 and 17..32, the scalar loop above 32) and common digests
var c04dFLBASizes = []int{1, 2, 3, 4, 7, 8, 9, 12, 15, 16, 17, 20, 24, 31, 32, 33, 48, 63, 64, 65}

const c04dWorkers = 16 // fixed, so that the case -> worker (= buffer history) assignment replays from the seed

// one DELTA_BINARY_PACKED stream of the reference encoder as a ConfStream description (Lean op
// delta.conf32/64), with the bytes and the values it must render to
type c04dConfPart struct {
	bits int
	desc string
	raw  []byte
	ints []int64
}

type c04dCase struct {
	conf       []c04dConfPart
	kind       string
	ints       []int64
	vals       [][]byte
	size       int
	raw        []byte
	base, tail int
	pat        string
	seed       int64
}

func c04dVal(v []byte) string {
	if len(v) == 0 {
		return "e"
	}
	return hex.EncodeToString(v)
}

func c04dVals(vs [][]byte) string {
	if len(vs) == 0 {
		return "-"
	}
	var sb strings.Builder
	for i, v := range vs {
		if i > 0 {
			sb.WriteByte(',')
		}
		sb.WriteString(c04dVal(v))
	}
	return sb.String()
}

func (c c04dCase) canon() string {
	switch c.kind {
	case "i32", "i64":
		return c.kind + " " + core.JoinInts(c.ints)
	case "dlba", "dba":
		return c.kind + " " + c04dVals(c.vals)
	case "flba":
		return fmt.Sprintf("flba %d %s", c.size, core.Hex(c.raw))
	case "win-dlba", "win-dba":
		return fmt.Sprintf("%s %d %d %s", c.kind, c.base, c.tail, c04dVals(c.vals))
	case "conf32", "conf64":
		if c.tail > 0 {
			return fmt.Sprintf("%s %s %s %d", c.kind, core.Hex(c.raw), core.JoinInts(c.ints), c.tail)
		}
		return c.kind + " " + core.Hex(c.raw) + " " + core.JoinInts(c.ints)
	case "confflba":
		return fmt.Sprintf("confflba %d %s %s", c.size, core.Hex(c.raw), c04dVals(c.vals))
	case "unpack32", "unpack64":
		return fmt.Sprintf("%s %d %d %s", c.kind, c.size, c.tail, core.Hex(c.raw))
	case "confdlba", "confdba":
		return c.kind + " " + core.Hex(c.raw) + " " + c04dVals(c.vals)
	default:
		return c.kind + " " + core.Hex(c.raw)
	}
}

func c04dParseVals(s string) ([][]byte, bool) {
	if s == "-" {
		return nil, true
	}
	var out [][]byte
	for _, p := range strings.Split(s, ",") {
		if p == "e" {
			out = append(out, []byte{})
			continue
		}
		b, err := hex.DecodeString(p)
		if err != nil {
			return nil, false
		}
		out = append(out, b)
	}
	return out, true
}

func c04dParseHex(s string) ([]byte, bool) {
	if s == "-" {
		return nil, true
	}
	b, err := hex.DecodeString(s)
	return b, err == nil
}

func c04dParse(line string) (c04dCase, bool) {
	f := strings.Fields(line)
	if len(f) < 2 {
		return c04dCase{}, false
	}
	c := c04dCase{kind: f[0], pat: "corpus", seed: 1}
	ok := true
	switch f[0] {
	case "i32", "i64":
		if f[1] != "-" {
			for _, p := range strings.Split(f[1], ",") {
				v, err := strconv.ParseInt(p, 10, 64)
				if err != nil {
					return c, false
				}
				c.ints = append(c.ints, v)
			}
		}
	case "dlba", "dba":
		c.vals, ok = c04dParseVals(f[1])
	case "flba":
		if len(f) < 3 {
			return c, false
		}
		c.size, _ = strconv.Atoi(f[1])
		c.raw, ok = c04dParseHex(f[2])
	case "win-dlba", "win-dba":
		if len(f) < 4 {
			return c, false
		}
		c.base, _ = strconv.Atoi(f[1])
		c.tail, _ = strconv.Atoi(f[2])
		c.vals, ok = c04dParseVals(f[3])
	case "mal32", "mal64", "maldlba", "maldba":
		c.raw, ok = c04dParseHex(f[1])
	case "conf32", "conf64":
		if len(f) < 3 {
			return c, false
		}
		c.raw, ok = c04dParseHex(f[1])
		if f[2] != "-" {
			for _, p := range strings.Split(f[2], ",") {
				v, err := strconv.ParseInt(p, 10, 64)
				if err != nil {
					return c, false
				}
				c.ints = append(c.ints, v)
			}
		}
		if len(f) >= 4 {
			c.tail, _ = strconv.Atoi(f[3])
		}
	case "confflba":
		if len(f) < 4 {
			return c, false
		}
		c.size, _ = strconv.Atoi(f[1])
		c.raw, ok = c04dParseHex(f[2])
		if ok {
			c.vals, ok = c04dParseVals(f[3])
		}
	case "unpack32", "unpack64":
		if len(f) < 4 {
			return c, false
		}
		c.size, _ = strconv.Atoi(f[1])
		c.tail, _ = strconv.Atoi(f[2])
		c.raw, ok = c04dParseHex(f[3])
		maxW := 32
		if f[0] == "unpack64" {
			maxW = 64
		}
		ok = ok && c.size >= 1 && c.size <= maxW && c.tail >= 0 && c.tail*c.size <= 8*len(c.raw)
	case "confdlba", "confdba":
		if len(f) < 3 {
			return c, false
		}
		c.raw, ok = c04dParseHex(f[1])
		if ok {
			c.vals, ok = c04dParseVals(f[2])
		}
	default:
		return c, false
	}
	return c, ok
}

// ---------------------------------------------------------------- generators

var c04dLengths = []int{0, 1, 2, 3, 31, 32, 33, 34, 63, 64, 65, 66, 96, 97, 98, 127, 128, 129, 130, 131, 161, 255, 256, 257, 258, 259, 385, 512, 513, 514}

func c04dLen(r *rand.Rand) int {
	switch k := r.Intn(20); {
	case k < 12:
		return c04dLengths[r.Intn(len(c04dLengths))]
	case k < 17:
		return r.Intn(300)
	case k < 19:
		return 1000 + r.Intn(1200)
	default:
		return []int{1023, 1024, 1025, 1026, 2047, 2049, 2050, 4097}[r.Intn(8)]
	}
}

var c04dIntPats = []string{"extremes-alt", "extremes-mix", "constant", "monotone-up", "monotone-down", "small-random",
	"random", "pow2-edges", "overflow-steps", "runs", "width-ladder", "zero"}

func c04dInts(r *rand.Rand, bits int, n int, pat string) []int64 {
	minv, maxv := int64(math.MinInt32), int64(math.MaxInt32)
	if bits == 64 {
		minv, maxv = math.MinInt64, math.MaxInt64
	}
	trunc := func(v int64) int64 {
		if bits == 32 {
			return int64(int32(v))
		}
		return v
	}
	out := make([]int64, n)
	switch pat {
	case "extremes-alt": // max,min,max,... : every delta overflows
		for i := range out {
			if i%2 == 0 {
				out[i] = maxv
			} else {
				out[i] = minv
			}
		}
		if r.Intn(2) == 0 {
			for i := range out {
				out[i] = minv + maxv - out[i]
			}
		}
	case "extremes-mix":
		pool := []int64{minv, minv + 1, -1, 0, 1, maxv - 1, maxv, minv / 2, maxv / 2, maxv/2 + 1}
		for i := range out {
			out[i] = pool[r.Intn(len(pool))]
		}
	case "constant":
		v := trunc(r.Int63() - r.Int63())
		if r.Intn(3) == 0 {
			v = []int64{minv, maxv, 0, -1}[r.Intn(4)]
		}
		for i := range out {
			out[i] = v
		}
	case "monotone-up", "monotone-down":
		v := trunc(int64(r.Intn(2000) - 1000))
		if r.Intn(4) == 0 {
			v = trunc(r.Int63() - r.Int63())
		}
		step := int64(1 + r.Intn(1<<uint(r.Intn(20))))
		for i := range out {
			out[i] = v
			d := int64(r.Intn(int(step) + 1))
			if pat == "monotone-down" {
				d = -d
			}
			v = trunc(v + d) // wraps at the ends, on purpose
		}
	case "small-random":
		w := uint(1 + r.Intn(12))
		for i := range out {
			out[i] = int64(r.Intn(1<<w)) - int64(r.Intn(1<<w))
		}
	case "random":
		for i := range out {
			out[i] = trunc(int64(r.Uint64()))
		}
	case "pow2-edges":
		for i := range out {
			k := uint(r.Intn(bits))
			v := int64(1) << k
			v += int64(r.Intn(3) - 1)
			if r.Intn(2) == 0 {
				v = -v
			}
			out[i] = trunc(v)
		}
	case "overflow-steps": // deltas just around the signed overflow point
		v := trunc(r.Int63() - r.Int63())
		for i := range out {
			out[i] = v
			d := maxv - int64(r.Intn(3))
			if r.Intn(2) == 0 {
				d = minv + int64(r.Intn(3))
			}
			if bits == 32 {
				v = int64(int32(v) + int32(d))
			} else {
				v = v + d
			}
		}
	case "runs": // constant runs whose boundaries sit around miniblock/block boundaries
		i := 0
		for i < n {
			l := []int{1, 31, 32, 33, 64, 127, 128, 129}[r.Intn(8)]
			v := trunc(int64(r.Intn(1<<uint(1+r.Intn(30)))) - 7)
			for j := 0; j < l && i < n; j++ {
				out[i] = v
				i++
			}
		}
	case "width-ladder": // miniblock k needs about k bits: exercises every bit width incl. 0 and the maximum
		v := int64(0)
		for i := range out {
			w := uint((i / 32) % (bits + 1))
			var d int64
			if w > 0 {
				d = int64(r.Uint64() >> (64 - w))
			}
			if bits == 32 {
				v = int64(int32(v) + int32(d))
			} else {
				v += d
			}
			out[i] = v
		}
	case "zero":
	}
	return out
}

var c04dBytePats = []string{"empty", "short-random", "shared-prefix", "ff", "identical", "sorted", "long", "word-edges", "mixed"}

func c04dBytes(r *rand.Rand, n int, pat string) [][]byte {
	out := make([][]byte, n)
	rnd := func(l int) []byte {
		b := make([]byte, l)
		r.Read(b)
		return b
	}
	switch pat {
	case "empty":
		for i := range out {
			out[i] = []byte{}
		}
	case "short-random":
		for i := range out {
			out[i] = rnd(r.Intn(12))
		}
	case "shared-prefix":
		base := rnd(1 + r.Intn(40))
		for i := range out {
			p := r.Intn(len(base) + 1)
			out[i] = append(append([]byte{}, base[:p]...), rnd(r.Intn(6))...)
			if r.Intn(3) == 0 {
				base = out[i]
				if len(base) == 0 {
					base = rnd(3)
				}
			}
		}
	case "ff":
		for i := range out {
			out[i] = bytes.Repeat([]byte{0xFF}, r.Intn(20))
			if r.Intn(4) == 0 && len(out[i]) > 0 {
				out[i][r.Intn(len(out[i]))] = 0xFE
			}
		}
	case "identical":
		v := rnd(r.Intn(30))
		for i := range out {
			out[i] = v
		}
	case "sorted":
		for i := range out {
			out[i] = []byte(fmt.Sprintf("key-%06d-%s", i*(1+r.Intn(3)), strings.Repeat("x", r.Intn(4))))
		}
	case "long":
		for i := range out {
			out[i] = rnd(r.Intn(3))
		}
		for k := 0; k < 1+r.Intn(3) && n > 0; k++ {
			l := []int{255, 256, 257, 1000, 4096, 70000}[r.Intn(6)]
			v := bytes.Repeat([]byte{byte(r.Intn(256))}, l)
			if r.Intn(2) == 0 {
				v = rnd(l)
			}
			out[r.Intn(n)] = v
		}
	case "word-edges": // common prefixes of 0..33 bytes: around the 8-byte words of the prefix search
		base := rnd(40)
		for i := range out {
			p := []int{0, 1, 7, 8, 9, 15, 16, 17, 23, 24, 25, 31, 32, 33, 40}[r.Intn(15)]
			v := append([]byte{}, base[:p]...)
			if r.Intn(3) != 0 {
				var x byte
				if p < len(base) {
					x = base[p] ^ byte(1<<uint(r.Intn(8))) // differs from base right after the prefix, in one bit
				}
				v = append(v, x)
				v = append(v, base[min(p+1, len(base)):min(p+1+r.Intn(12), len(base))]...)
			}
			out[i] = v
			if r.Intn(2) == 0 && len(v) >= 34 {
				base = append(append([]byte{}, v...), rnd(8)...)[:40]
			}
		}
	default: // mixed
		for i := range out {
			switch r.Intn(5) {
			case 0:
				out[i] = []byte{}
			case 1:
				out[i] = bytes.Repeat([]byte{0xFF}, r.Intn(10))
			case 2:
				if i > 0 {
					out[i] = append(append([]byte{}, out[i-1]...), rnd(r.Intn(4))...)
				} else {
					out[i] = rnd(5)
				}
			case 3:
				if i > 0 && len(out[i-1]) > 0 {
					out[i] = out[i-1][:r.Intn(len(out[i-1]))]
				} else {
					out[i] = rnd(2)
				}
			default:
				out[i] = rnd(r.Intn(20))
			}
		}
	}
	return out
}

// Hand-over of the amd64 DELTA_BYTE_ARRAY decoders (decodeByteArray / decodeFixedLenByteArray of byte_array_amd64.go):
// with more than 64 suffix bytes the AVX2 kernel decodes the first k values, the scalar loop the values from k on, which
// are those whose suffixes add up to at least 64 bytes counted from the end; the loop's "previous value" is rebuilt from
// the kernel's output. k ranges over 1, 2, 3, ... only for FEW values of 16..65 bytes; the other generators draw counts
// from boundary lengths of the integer blocks and hit k = 1 by accident. Here: 2..14 values of about `size` bytes, each
// sharing a prefix of a chosen length (none, 1, around the 8-byte words, half, all but one byte, the whole value) with
// its predecessor, so that every k and every prefix length of value k (the first one the loop copies from the handed-over
// value) occur. fixed: all values have exactly `size` bytes (FIXED_LEN_BYTE_ARRAY).
func c04dHandover(r *rand.Rand, round, size int, fixed bool) [][]byte {
	n := 2 + round%13 // rounds 0..12 enumerate the counts 2..14, for every size
	if round >= 13 && round%2 == 1 && size > 0 {
		n = max(2, 64/size+r.Intn(4)) // just enough suffix bytes to take the AVX2 path at all
	}
	out := make([][]byte, n)
	for i := range out {
		l := size
		if !fixed {
			l = max(0, size+r.Intn(7)-3)
		}
		v := make([]byte, l)
		r.Read(v)
		if i > 0 {
			prev := out[i-1]
			p := []int{0, 0, 1, 7, 8, 9, 16, size / 2, size - 1, size}[r.Intn(10)]
			p = max(0, min(p, len(prev), l))
			copy(v, prev[:p])
			if p < l && p < len(prev) && v[p] == prev[p] {
				v[p] ^= 0x80 // the common prefix is exactly p bytes long
			}
		}
		out[i] = v
	}
	return out
}

// where the amd64 decoders split the values between the AVX2 kernel and the scalar loop (prefix = longest common prefix
// with the previous value, which is what the library's encoder writes), and whether the first value of the loop copies a
// prefix from the handed-over value
func c04dHandoverClass(vs [][]byte) string {
	const padding = 64
	suffix := make([]int, len(vs))
	prefix := make([]int, len(vs))
	total := 0
	for i, v := range vs {
		if i > 0 {
			for prefix[i] < len(v) && prefix[i] < len(vs[i-1]) && v[prefix[i]] == vs[i-1][prefix[i]] {
				prefix[i]++
			}
		}
		suffix[i] = len(v) - prefix[i]
		total += suffix[i]
	}
	if total <= padding {
		return "scalar only (at most 64 suffix bytes)"
	}
	k, n := len(vs), 0
	for k > 0 && n < padding {
		k--
		n += suffix[k]
	}
	if k == 0 {
		return "scalar only (the tail takes every value)"
	}
	head := "head>8"
	switch {
	case k <= 3:
		head = "head=" + strconv.Itoa(k)
	case k <= 8:
		head = "head=4..8"
	}
	switch {
	case prefix[k] == 0:
		return head + " next shares nothing"
	case prefix[k] == len(vs[k]):
		return head + " next repeats the value"
	}
	return head + " next shares a prefix"
}

// valid stream of the given kind, used as the raw material of the malformed generator
func c04dValidStream(r *rand.Rand, kind string) []byte {
	switch kind {
	case "mal32":
		xs := c04dInts(r, 32, c04dLen(r)%400, c04dIntPats[r.Intn(len(c04dIntPats))])
		src := make([]int32, len(xs))
		for i, v := range xs {
			src[i] = int32(v)
		}
		b, _ := (&delta.BinaryPackedEncoding{}).EncodeInt32(nil, src)
		return b
	case "mal64":
		xs := c04dInts(r, 64, c04dLen(r)%400, c04dIntPats[r.Intn(len(c04dIntPats))])
		b, _ := (&delta.BinaryPackedEncoding{}).EncodeInt64(nil, xs)
		return b
	default:
		vs := c04dBytes(r, c04dLen(r)%200, c04dBytePats[r.Intn(len(c04dBytePats)-3)])
		src, offs := c04dFlatten(vs, 0, 0)
		var b []byte
		if kind == "maldlba" {
			b, _ = (&delta.LengthByteArrayEncoding{}).EncodeByteArray(nil, src, offs)
		} else {
			b, _ = (&delta.ByteArrayEncoding{}).EncodeByteArray(nil, src, offs)
		}
		return b
	}
}

func c04dMalformed(r *rand.Rand, kind string) ([]byte, string) {
	switch k := r.Intn(10); {
	case k < 2: // random bytes behind a plausible header
		n := r.Intn(60)
		b := make([]byte, n)
		r.Read(b)
		hdr := []byte{0x80, 0x01, 0x04}
		hdr = binary.AppendUvarint(hdr, uint64(r.Intn(300)))
		if r.Intn(4) == 0 {
			hdr = []byte{byte(r.Intn(256)), byte(r.Intn(3)), byte(r.Intn(9))}
		}
		return append(hdr, b...), "random"
	case k < 4: // conformant stream using the format's freedoms the Go encoder never uses
		return c04dFreeStream(r, kind), "free-form"
	case k < 7: // truncation of a valid stream
		b := c04dValidStream(r, kind)
		if len(b) > 0 {
			cut := r.Intn(len(b) + 1)
			if r.Intn(2) == 0 && len(b) > 8 {
				cut = len(b) - 1 - r.Intn(8)
			}
			b = b[:cut]
		}
		return b, "truncated"
	case k < 9: // bit flips / byte overwrites
		b := c04dValidStream(r, kind)
		for i := 0; i < 1+r.Intn(3) && len(b) > 0; i++ {
			p := r.Intn(len(b))
			if r.Intn(3) == 0 {
				p = r.Intn(min(len(b), 12)) // headers are where the structure is
			}
			if r.Intn(2) == 0 {
				b[p] ^= 1 << uint(r.Intn(8))
			} else {
				b[p] = byte(r.Intn(256))
			}
		}
		return b, "mutated"
	default: // trailing garbage
		b := c04dValidStream(r, kind)
		g := make([]byte, 1+r.Intn(9))
		r.Read(g)
		return append(b, g...), "extended"
	}
}

// a stream that follows the grammar but with other block sizes, arbitrary min deltas, arbitrary widths
// (also for unneeded miniblocks), non-minimal varints
func c04dFreeStream(r *rand.Rand, kind string) []byte {
	maxW := 32
	if kind == "mal64" {
		maxW = 64
	}
	bs := 128 * (1 + r.Intn(3))
	minis := []int{1, 2, 4}[r.Intn(3)]
	if r.Intn(8) == 0 {
		minis = 1 + r.Intn(9) // possibly not a divisor
	}
	total := r.Intn(2*bs + 3)
	uv := func(b []byte, v uint64) []byte {
		if r.Intn(6) == 0 { // non-minimal encoding: one more continuation byte carrying zero
			b = binary.AppendUvarint(b, v)
			b[len(b)-1] |= 0x80
			return append(b, 0)
		}
		return binary.AppendUvarint(b, v)
	}
	var b []byte
	b = uv(b, uint64(bs))
	b = uv(b, uint64(minis))
	b = uv(b, uint64(total))
	b = binary.AppendVarint(b, r.Int63()>>uint(r.Intn(64))-int64(r.Intn(1000)))
	vpm := bs / minis
	rem := total - 1
	for rem > 0 {
		b = binary.AppendVarint(b, (r.Int63()-r.Int63())>>uint(r.Intn(64)))
		ws := make([]byte, minis)
		for i := range ws {
			ws[i] = byte(r.Intn(maxW + 1))
			if r.Intn(3) == 0 {
				ws[i] = 0
			}
			if r.Intn(40) == 0 {
				ws[i] = byte(maxW + 1 + r.Intn(8)) // too wide
			}
		}
		b = append(b, ws...)
		for i := 0; i < minis && rem > 0; i++ {
			body := make([]byte, vpm*int(ws[i])/8)
			r.Read(body)
			b = append(b, body...)
			rem -= min(vpm, rem)
		}
	}
	if kind == "maldlba" || kind == "maldba" {
		g := make([]byte, r.Intn(40))
		r.Read(g)
		b = append(b, g...)
	}
	return b
}

func c04dFlatten(vs [][]byte, base, tail int) ([]byte, []uint32) {
	src := bytes.Repeat([]byte{0xAA}, base)
	offs := make([]uint32, 0, len(vs)+1)
	offs = append(offs, uint32(base))
	for _, v := range vs {
		src = append(src, v...)
		offs = append(offs, uint32(len(src)))
	}
	src = append(src, bytes.Repeat([]byte{0xBB}, tail)...)
	return src, offs
}

func c04dSplit(data []byte, offs []uint32) ([][]byte, bool) {
	if len(offs) == 0 {
		return nil, len(data) == 0
	}
	out := make([][]byte, 0, len(offs)-1)
	for i := 0; i+1 < len(offs); i++ {
		if offs[i] > offs[i+1] || int(offs[i+1]) > len(data) {
			return nil, false
		}
		out = append(out, data[offs[i]:offs[i+1]])
	}
	return out, true
}

// ---------------------------------------------------------------- worker

type c04dWorker struct {
	ctx   *core.Ctx
	d     *drv.Driver
	reqs  []string
	pend  []func(string)
	later []func() // follow-up requests queued by answers
	size  int
	flba  int // > 0: godec is looking at DecodeFixedLenByteArray of that value size

	bp delta.BinaryPackedEncoding
	lb delta.LengthByteArrayEncoding
	ba delta.ByteArrayEncoding

	out    []byte // last encoder output (history)
	dec32  []int32
	dec64  []int64
	decB   []byte
	decOff []uint32
}

func (w *c04dWorker) ask(req string, f func(string)) {
	w.reqs = append(w.reqs, req)
	w.pend = append(w.pend, f)
	w.size += len(req)
	if len(w.reqs) >= 2000 || w.size > 8<<20 {
		w.flush()
	}
}

func (w *c04dWorker) flush() {
	for len(w.reqs) > 0 {
		reqs, pend := w.reqs, w.pend
		w.reqs, w.pend, w.size = nil, nil, 0
		if w.d != nil {
			ans, err := w.d.AskMany(reqs)
			if err != nil {
				w.ctx.Fail("L2", "driver-error", err.Error(), nil)
				return
			}
			for i, a := range ans {
				i, a := i, a
				if p := c04dCatch(func() { pend[i](a) }); p != "" {
					w.ctx.Fail("L2", "delta-answer-handler-panics", "handling a driver answer panicked", map[string]any{"request": c04dClip(reqs[i]), "answer": c04dClip(a), "panic": p})
				}
			}
		}
		later := w.later
		w.later = nil
		for _, f := range later {
			f()
		}
	}
}

func c04dFF(n, l int) []byte {
	b := make([]byte, n)
	for i := range b {
		b[i] = 0xFF
	}
	return b[:min(l, n)]
}

// dirty destination for an encoder whose clean output has `need` bytes
func (w *c04dWorker) dirty(r *rand.Rand, need int) ([]byte, string) {
	switch r.Intn(6) {
	case 0:
		return nil, "nil"
	case 1:
		return w.out, "history"
	case 2:
		b := w.out[:cap(w.out)]
		for i := range b {
			b[i] = 0xFF
		}
		return b[:r.Intn(len(b)+1)], "history-ff"
	case 3:
		c := r.Intn(need + 1)
		return c04dFF(c, r.Intn(c+1)), "ff-smaller"
	case 4:
		c := need + 1 + r.Intn(2*need+64)
		return c04dFF(c, r.Intn(c+1)), "ff-larger"
	default:
		c := max(0, need+r.Intn(41)-20)
		return c04dFF(c, r.Intn(c+1)), "ff-near"
	}
}

// Every call into the library runs under recover. C04 says that the decoder RETURNS the encoded values:
// a panic of the library on a valid input is a failure of the property (L1, keyed by the entry point,
// carrying the input), not the death of the harness. c04dCatch returns "" or the panic text followed by
// the innermost frames of the stack.
func c04dCatch(f func()) (msg string) {
	defer func() {
		if p := recover(); p != nil {
			msg = fmt.Sprint(p)
			var at []string
			lines := strings.Split(string(debug.Stack()), "\n")
			seen := false
			for i := 0; i+1 < len(lines) && len(at) < 3; i++ {
				if strings.HasPrefix(lines[i], "panic(") {
					seen = true
					continue
				}
				if seen && strings.HasPrefix(lines[i+1], "\t") && !strings.HasPrefix(lines[i], "runtime.") && !strings.HasPrefix(lines[i], "\t") {
					loc := strings.TrimSpace(lines[i+1])
					if j := strings.LastIndexByte(loc, ' '); j > 0 {
						loc = loc[:j]
					}
					if j := strings.LastIndex(loc, "/encoding/"); j >= 0 {
						loc = loc[j+1:]
					}
					at = append(at, loc)
				}
			}
			if len(at) > 0 {
				msg += " @ " + strings.Join(at, " < ")
			}
			if msg == "" {
				msg = "panic"
			}
		}
	}()
	f()
	return ""
}

// one guarded call of a library entry point on a VALID input (values to encode, bytes the library's own
// encoder produced): false and an L1 failure `<name>-panics` if it panicked. The worker's reused buffers
// are dropped, the panic may have left them in any state.
func (w *c04dWorker) lib(name, entry, canon string, more map[string]any, f func()) bool {
	p := c04dCatch(f)
	if p == "" {
		return true
	}
	detail := map[string]any{"case": canon, "entry": entry, "panic": p}
	for k, v := range more {
		detail[k] = v
	}
	w.ctx.Fail("L1", name+"-panics", entry+" panics on a valid input instead of returning ("+w.ctx.Variant+" build)", detail)
	w.out, w.dec32, w.dec64, w.decB, w.decOff = nil, nil, nil, nil, nil
	return false
}

func c04dLenClass(n int) string {
	switch {
	case n <= 2:
		return strconv.Itoa(n)
	case n <= 30:
		return "3..30"
	case n <= 34:
		return "31..34"
	case n <= 126:
		return "35..126"
	case n <= 131:
		return "127..131"
	case n <= 254:
		return "132..254"
	case n <= 259:
		return "255..259"
	case n <= 999:
		return "260..999"
	default:
		return "1000+"
	}
}

// walk a Go-encoded DELTA_BINARY_PACKED stream and record the miniblock widths it uses
func (w *c04dWorker) histWidths(kind string, b []byte) {
	var n int
	for i := 0; i < 4; i++ {
		_, k := binary.Uvarint(b)
		if k <= 0 {
			return
		}
		b = b[k:]
	}
	for len(b) > 0 && n < 64 {
		_, k := binary.Varint(b)
		if k <= 0 || len(b) < k+4 {
			return
		}
		ws := b[k : k+4]
		b = b[k+4:]
		for _, x := range ws {
			w.ctx.Hist(kind+"-miniblock-width", fmt.Sprintf("%02d", x))
			if len(b) < 4*int(x) {
				return
			}
			b = b[4*int(x):]
		}
		n++
	}
}

func (w *c04dWorker) runInt(c c04dCase) {
	ctx := w.ctx
	bits := 32
	if c.kind == "i64" {
		bits = 64
	}
	canon := c.canon()
	ctx.Case(canon, len(c.ints) >= 2)
	ctx.Hist(c.kind+"-length", c04dLenClass(len(c.ints)))
	ctx.Hist(c.kind+"-pattern", c.pat)
	r := rand.New(rand.NewSource(c.seed))
	var ref, got []byte
	var mode string
	var decOK bool
	var decErr error
	src32 := make([]int32, len(c.ints))
	for i, v := range c.ints {
		src32[i] = int32(v)
	}
	name := "delta-" + c.kind
	if bits == 32 {
		if !w.lib(name+"-encode", "BinaryPackedEncoding.EncodeInt32(nil, xs)", canon, nil, func() { ref, _ = w.bp.EncodeInt32(nil, src32) }) {
			return
		}
		ref = bytes.Clone(ref)
		var dst []byte
		dst, mode = w.dirty(r, len(ref))
		if !w.lib(name+"-encode", "BinaryPackedEncoding.EncodeInt32(dirty dst, xs)", canon, map[string]any{"dst": mode}, func() { got, _ = w.bp.EncodeInt32(dst, src32) }) {
			return
		}
		w.out = got
		// decode into a dirty destination as well
		switch r.Intn(3) {
		case 0:
			w.dec32 = nil
		case 1:
			for i := range w.dec32[:cap(w.dec32)] {
				w.dec32[:cap(w.dec32)][i] = -1
			}
		}
		if !w.lib(name+"-decode", "BinaryPackedEncoding.DecodeInt32(EncodeInt32(xs))", canon, map[string]any{"bytes": core.Hex(ref)}, func() { w.dec32, decErr = w.bp.DecodeInt32(w.dec32, c04dBeyond(ref, 0xFF)) }) {
			return
		}
		decOK = decErr == nil && len(w.dec32) == len(src32)
		for i := 0; decOK && i < len(src32); i++ {
			decOK = w.dec32[i] == src32[i]
		}
	} else {
		if !w.lib(name+"-encode", "BinaryPackedEncoding.EncodeInt64(nil, xs)", canon, nil, func() { ref, _ = w.bp.EncodeInt64(nil, c.ints) }) {
			return
		}
		ref = bytes.Clone(ref)
		var dst []byte
		dst, mode = w.dirty(r, len(ref))
		if !w.lib(name+"-encode", "BinaryPackedEncoding.EncodeInt64(dirty dst, xs)", canon, map[string]any{"dst": mode}, func() { got, _ = w.bp.EncodeInt64(dst, c.ints) }) {
			return
		}
		w.out = got
		switch r.Intn(3) {
		case 0:
			w.dec64 = nil
		case 1:
			for i := range w.dec64[:cap(w.dec64)] {
				w.dec64[:cap(w.dec64)][i] = -1
			}
		}
		if !w.lib(name+"-decode", "BinaryPackedEncoding.DecodeInt64(EncodeInt64(xs))", canon, map[string]any{"bytes": core.Hex(ref)}, func() { w.dec64, decErr = w.bp.DecodeInt64(w.dec64, c04dBeyond(ref, 0xFF)) }) {
			return
		}
		decOK = decErr == nil && len(w.dec64) == len(c.ints)
		for i := 0; decOK && i < len(c.ints); i++ {
			decOK = w.dec64[i] == c.ints[i]
		}
	}
	ctx.Hist("encode-dst", mode)
	w.histWidths(c.kind, ref)
	if !bytes.Equal(ref, got) {
		ctx.Fail("L1", "delta-"+c.kind+"-encode-depends-on-dst", "DELTA_BINARY_PACKED output differs between a nil dst and a dirty/reused dst",
			map[string]any{"case": canon, "dst": mode, "clean": core.Hex(ref), "dirty": core.Hex(got)})
	}
	if !decOK {
		ctx.Fail("L1", "delta-"+c.kind+"-go-roundtrip", "Go Decode(Encode(xs)) != xs",
			map[string]any{"case": canon, "bytes": core.Hex(ref), "err": fmt.Sprint(decErr)})
	}
	refHex := core.Hex(ref)
	want := "ok " + core.JoinInts(c.ints) + " -"
	w.ask(fmt.Sprintf("delta.specdec%d %s", bits, refHex), func(ans string) {
		if ans != want {
			ctx.Fail("L1", "delta-"+c.kind+"-spec-decode", "the spec decoder does not return the input from the bytes the Go encoder produced",
				map[string]any{"case": canon, "bytes": refHex, "spec": c04dClip(ans)})
		}
	})
	w.godec(strconv.Itoa(bits), refHex, "ok "+core.JoinInts(c.ints), canon, false)
	w.ask(fmt.Sprintf("delta.enc%d %s", bits, core.JoinInts(c.ints)), func(ans string) {
		if ans != "ok "+refHex {
			ctx.Fail("L2", "delta-"+c.kind+"-mirror-bytes", "Go encoder bytes differ from the Lean mirror ("+ctx.Variant+" build)",
				map[string]any{"case": canon, "impl": refHex, "model": c04dClip(ans)})
		}
	})
}

// L2 for the decoders: the real Go decoder's outcome vs the Lean mirror of the portable decoder
// (ops *.godec*). goRes is "ok <canonical output>" or "err …"; values must agree when both accept,
// and accept/reject must agree. The mirror answers "err overwide" for a used miniblock width above
// the type's (bitpack.Unpack's result is implementation defined there): not compared.
func (w *c04dWorker) godec(kind, rawHex, goRes, canon string, malformed bool) {
	ctx := w.ctx
	op := map[string]string{"32": "delta.godec32", "64": "delta.godec64", "dlba": "dlba.godec", "dba": "dba.godec"}[kind]
	w.ask(op+" "+rawHex, func(ans string) {
		if ans == "err overwide" {
			ctx.Hist("decoder-mirror-"+kind, "not-compared-overwide")
			return
		}
		goOK, mOK := strings.HasPrefix(goRes, "ok "), strings.HasPrefix(ans, "ok ")
		if (goOK && mOK && goRes == ans) || (!goOK && !mOK && strings.HasPrefix(ans, "err ")) {
			if goOK {
				ctx.Hist("decoder-mirror-"+kind, "both-ok-equal")
			} else {
				ctx.Hist("decoder-mirror-"+kind, "both-reject")
			}
			return
		}
		detail := map[string]any{"case": c04dClip(canon), "impl": c04dClip(goRes), "model": c04dClip(ans)}
		if malformed && kind == "dba" && ctx.Variant == "asm" {
			// the assembly DELTA_BYTE_ARRAY decoder differs from the portable one on malformed / extended
			// streams (observations maldba-accepts-prefix-longer-than-previous-value, maldba-trailing-bytes-change-values)
			ctx.Hist("decoder-mirror-"+kind, "asm-differs-on-malformed")
			ctx.Observe("maldba-asm-decoder-differs-from-portable-mirror", "on a malformed or extended stream the assembly DELTA_BYTE_ARRAY decoder and the Lean mirror of the portable decoder disagree", detail)
			return
		}
		ctx.Fail("L2", "delta-"+kind+"-decoder-mirror", "the Go decoder and the Lean mirror of the portable decoder disagree ("+ctx.Variant+" build)", detail)
	})
	if kind == "dba" && w.flba > 0 && !malformed && ctx.Variant == "asm" && strings.HasPrefix(goRes, "ok ") {
		// FIXED_LEN_BYTE_ARRAY: the mirror of the amd64 wrapper of decodeFixedLenByteArray (previous value rebuilt as
		// dst[i-size:], kernels by contract; theorem flba_amd64_wrapper_eq_portable)
		w.ask(fmt.Sprintf("dba.godecflbaamd64 %d %s", w.flba, rawHex), func(ans string) {
			if ans != goRes {
				ctx.Fail("L2", "delta-flba-amd64-wrapper-mirror", "DecodeFixedLenByteArray on the assembly build and the Lean mirror of the amd64 Go wrapper (AVX2 kernels by contract) disagree",
					map[string]any{"case": c04dClip(canon), "impl": c04dClip(goRes), "model": c04dClip(ans)})
			} else {
				ctx.Hist("decoder-mirror-flba-amd64-wrapper", "equal")
			}
		})
	} else if kind == "dba" && !malformed && ctx.Variant == "asm" && strings.HasPrefix(goRes, "ok ") {
		// the mirror of what the assembly build really runs: the amd64 Go wrapper with the AVX2 kernels
		// replaced by their contract (theorem dba_amd64_wrapper_eq_portable)
		w.ask("dba.godecamd64 "+rawHex, func(ans string) {
			if ans != goRes {
				ctx.Fail("L2", "delta-dba-amd64-wrapper-mirror", "DecodeByteArray on the assembly build and the Lean mirror of the amd64 Go wrapper (AVX2 kernels by contract) disagree",
					map[string]any{"case": c04dClip(canon), "impl": c04dClip(goRes), "model": c04dClip(ans)})
			} else {
				ctx.Hist("decoder-mirror-dba-amd64-wrapper", "equal")
			}
		})
	}
}

// raw outcome of LengthByteArrayEncoding.DecodeByteArray in the format of `dlba.godec`
func c04dGoDecodeDLBARaw(raw []byte) (res string) {
	defer func() {
		if p := recover(); p != nil {
			res = "panic " + fmt.Sprint(p)
		}
	}()
	data, offs, err := (&delta.LengthByteArrayEncoding{}).DecodeByteArray(nil, raw, nil)
	if err != nil {
		return "err " + err.Error()
	}
	return "ok " + core.Hex(data) + " " + core.JoinInts(offs)
}

// copy of b whose backing array continues with 96 bytes of `fill` beyond len
func c04dBeyond(b []byte, fill byte) []byte {
	out := make([]byte, len(b)+96)
	copy(out, b)
	for i := len(b); i < len(out); i++ {
		out[i] = fill
	}
	return out[:len(b)]
}

func c04dClip(s string) string {
	if len(s) > 4000 {
		return s[:4000] + "…"
	}
	return s
}

func c04dEqVals(a, b [][]byte) bool {
	if len(a) != len(b) {
		return false
	}
	for i := range a {
		if !bytes.Equal(a[i], b[i]) {
			return false
		}
	}
	return true
}

type c04dByteEnc interface {
	EncodeByteArray(dst []byte, src []byte, offsets []uint32) ([]byte, error)
	DecodeByteArray(dst []byte, src []byte, offsets []uint32) ([]byte, []uint32, error)
}

func (w *c04dWorker) runBytes(c c04dCase) {
	ctx := w.ctx
	canon := c.canon()
	kind := strings.TrimPrefix(c.kind, "win-")
	window := kind != c.kind
	var enc c04dByteEnc = &w.lb
	if kind == "dba" {
		enc = &w.ba
	}
	nonEmpty := false
	for _, v := range c.vals {
		nonEmpty = nonEmpty || len(v) > 0
	}
	ctx.Case(canon, len(c.vals) >= 2 && nonEmpty)
	ctx.Hist(c.kind+"-count", c04dLenClass(len(c.vals)))
	ctx.Hist(c.kind+"-pattern", c.pat)
	r := rand.New(rand.NewSource(c.seed))
	src, offs := c04dFlatten(c.vals, c.base, c.tail)
	var ref []byte
	var err error
	if !w.lib(kind+"-encode", "EncodeByteArray(nil, src, offsets)", canon, nil, func() { ref, err = enc.EncodeByteArray(nil, src, offs) }) {
		return
	}
	if err != nil {
		ctx.Fail("L1", kind+"-encode-error", "EncodeByteArray failed on a valid input", map[string]any{"case": canon, "err": err.Error()})
		return
	}
	ref = bytes.Clone(ref)
	refHex := core.Hex(ref)
	want := "ok " + c04dVals(c.vals) + " -"
	if window {
		// L1: the encoded values are those of the window [offsets[0], offsets[n]) only.
		ctx.Hist("window", fmt.Sprintf("%s base>0=%v tail>0=%v", kind, c.base > 0, c.tail > 0))
		if kind == "dlba" {
			// L2: the mirror of the raw (src, offsets) entry point, the window only (theorem dlba_raw_roundtrip; before the repair: dlba_window_violation_before_fix)
			w.ask(fmt.Sprintf("dlba.encraw %s %s", core.Hex(src), core.JoinInts(offs)), func(ans string) {
				if ans != "ok "+refHex {
					ctx.Fail("L2", "dlba-raw-mirror-bytes", "Go EncodeByteArray(src, offsets) bytes differ from the Lean mirror of the raw entry point ("+ctx.Variant+" build)",
						map[string]any{"case": canon, "impl": refHex, "model": c04dClip(ans)})
				}
			})
		}
		w.ask(kind+".specdec "+refHex, func(ans string) {
			if ans == want {
				return
			}
			key, what := kind+"-encode-ignores-offsets-window-base", "EncodeByteArray with offsets[0] > 0 (a window of a larger buffer, as Page.Slice produces) encodes bytes from outside the window: the decoded values differ from the input"
			if c.base == 0 {
				key, what = kind+"-encode-ignores-offsets-window-tail", "EncodeByteArray with bytes after offsets[n] appends those bytes to the stream (trailing garbage after the last value)"
			}
			var dec []byte
			var derr error
			if p := c04dCatch(func() { dec, _, derr = enc.DecodeByteArray(nil, ref, nil) }); p != "" {
				derr = fmt.Errorf("panic %s", p)
			}
			ctx.Fail("L1", key, what, map[string]any{"case": canon, "src": core.Hex(src), "offsets": fmt.Sprint(offs),
				"bytes": refHex, "spec": c04dClip(ans), "go_decode": core.Hex(dec), "go_decode_err": fmt.Sprint(derr)})
		})
		return
	}
	dst, mode := w.dirty(r, len(ref))
	var got []byte
	if !w.lib(kind+"-encode", "EncodeByteArray(dirty dst, src, offsets)", canon, map[string]any{"dst": mode}, func() { got, _ = enc.EncodeByteArray(dst, src, offs) }) {
		return
	}
	w.out = got
	ctx.Hist("encode-dst", mode)
	if !bytes.Equal(ref, got) {
		ctx.Fail("L1", kind+"-encode-depends-on-dst", "byte-array delta output differs between a nil dst and a dirty/reused dst",
			map[string]any{"case": canon, "dst": mode, "clean": refHex, "dirty": core.Hex(got)})
	}
	switch r.Intn(3) {
	case 0:
		w.decB, w.decOff = nil, nil
	case 1:
		for i := range w.decB[:cap(w.decB)] {
			w.decB[:cap(w.decB)][i] = 0xFF
		}
		for i := range w.decOff[:cap(w.decOff)] {
			w.decOff[:cap(w.decOff)][i] = 0xFFFFFFFF
		}
	}
	var derr error
	if !w.lib(kind+"-decode", "DecodeByteArray(EncodeByteArray(xs))", canon, map[string]any{"bytes": refHex}, func() {
		w.decB, w.decOff, derr = enc.DecodeByteArray(w.decB, c04dBeyond(ref, 0xFF), w.decOff)
	}) {
		return
	}
	back, ok := c04dSplit(w.decB, w.decOff)
	if derr != nil || !ok || !c04dEqVals(back, c.vals) {
		ctx.Fail("L1", kind+"-go-roundtrip", "Go DecodeByteArray(EncodeByteArray(xs)) != xs",
			map[string]any{"case": canon, "bytes": refHex, "err": fmt.Sprint(derr), "got": c04dClip(c04dVals(back))})
	}
	if kind == "dba" {
		w.histWidths("dba-prefix", ref)
		ctx.Hist("dba-amd64-handover", c04dHandoverClass(c.vals))
	}
	w.ask(kind+".specdec "+refHex, func(ans string) {
		if ans != want {
			ctx.Fail("L1", kind+"-spec-decode", "the spec decoder does not return the input from the bytes the Go encoder produced",
				map[string]any{"case": canon, "bytes": refHex, "spec": c04dClip(ans)})
		}
	})
	if kind == "dlba" {
		w.godec("dlba", refHex, "ok "+core.Hex(w.decB)+" "+core.JoinInts(w.decOff), canon, false)
	} else {
		w.godec("dba", refHex, "ok "+c04dVals(c.vals), canon, false)
	}
	w.ask(kind+".enc "+c04dVals(c.vals), func(ans string) {
		if ans != "ok "+refHex {
			ctx.Fail("L2", kind+"-mirror-bytes", "Go encoder bytes differ from the Lean mirror ("+ctx.Variant+" build)",
				map[string]any{"case": canon, "impl": refHex, "model": c04dClip(ans)})
		}
	})
}

func (w *c04dWorker) runFLBA(c c04dCase) {
	ctx := w.ctx
	canon := c.canon()
	n := len(c.raw) / c.size
	ctx.Case(canon, n >= 2)
	ctx.Hist("flba-size", strconv.Itoa(c.size))
	ctx.Hist("flba-count", c04dLenClass(n))
	if c.pat != "" {
		ctx.Hist("flba-pattern", c.pat)
	}
	hvals := make([][]byte, n)
	for i := range hvals {
		hvals[i] = c.raw[i*c.size : (i+1)*c.size]
	}
	ctx.Hist("flba-amd64-handover", c04dHandoverClass(hvals))
	if c.size >= 16 && n >= 2 && n <= 8 {
		ctx.Hist("flba-small-shape", fmt.Sprintf("FLBA(%d) x %d", c.size, n))
	}
	r := rand.New(rand.NewSource(c.seed))
	var ref []byte
	var err error
	if !w.lib("dba-flba-encode", "ByteArrayEncoding.EncodeFixedLenByteArray(nil, xs, size)", canon, nil, func() { ref, err = w.ba.EncodeFixedLenByteArray(nil, c.raw, c.size) }) {
		return
	}
	if err != nil {
		ctx.Fail("L1", "dba-flba-encode-error", "EncodeFixedLenByteArray failed on a valid input", map[string]any{"case": canon, "err": err.Error()})
		return
	}
	ref = bytes.Clone(ref)
	refHex := core.Hex(ref)
	dst, mode := w.dirty(r, len(ref))
	var got []byte
	if !w.lib("dba-flba-encode", "ByteArrayEncoding.EncodeFixedLenByteArray(dirty dst, xs, size)", canon, map[string]any{"dst": mode}, func() { got, _ = w.ba.EncodeFixedLenByteArray(dst, c.raw, c.size) }) {
		return
	}
	w.out = got
	ctx.Hist("encode-dst", mode)
	if !bytes.Equal(ref, got) {
		ctx.Fail("L1", "dba-flba-encode-depends-on-dst", "DELTA_BYTE_ARRAY (fixed length) output differs between a nil dst and a dirty/reused dst",
			map[string]any{"case": canon, "dst": mode, "clean": refHex, "dirty": core.Hex(got)})
	}
	if r.Intn(2) == 0 {
		w.decB = nil
	}
	var derr error
	if !w.lib("dba-flba-decode", "ByteArrayEncoding.DecodeFixedLenByteArray(EncodeFixedLenByteArray(xs))", canon, map[string]any{"bytes": refHex}, func() {
		w.decB, derr = w.ba.DecodeFixedLenByteArray(w.decB, c04dBeyond(ref, 0xFF), c.size)
	}) {
		return
	}
	if derr != nil || !bytes.Equal(w.decB, c.raw) {
		ctx.Fail("L1", "dba-flba-go-roundtrip", "Go DecodeFixedLenByteArray(EncodeFixedLenByteArray(xs)) != xs",
			map[string]any{"case": canon, "bytes": refHex, "err": fmt.Sprint(derr)})
	}
	vals := make([][]byte, n)
	for i := range vals {
		vals[i] = c.raw[i*c.size : (i+1)*c.size]
	}
	want := "ok " + c04dVals(vals) + " -"
	w.ask("dba.specdec "+refHex, func(ans string) {
		if ans != want {
			ctx.Fail("L1", "dba-flba-spec-decode", "the spec decoder does not return the input from the bytes the Go encoder produced",
				map[string]any{"case": canon, "bytes": refHex, "spec": c04dClip(ans)})
		}
	})
	goVals := vals // what Go's decoder returned, where it has the right length (L1 above otherwise)
	if derr == nil && len(w.decB) == len(c.raw) {
		goVals = make([][]byte, n)
		for i := range goVals {
			goVals[i] = w.decB[i*c.size : (i+1)*c.size]
		}
	}
	w.flba = c.size
	w.godec("dba", refHex, "ok "+c04dVals(goVals), canon, false)
	w.flba = 0
	w.ask(fmt.Sprintf("dba.encflba %d %s", c.size, core.Hex(c.raw)), func(ans string) {
		if ans != "ok "+refHex {
			ctx.Fail("L2", "dba-flba-mirror-bytes", "Go encoder bytes differ from the Lean mirror ("+ctx.Variant+" build)",
				map[string]any{"case": canon, "impl": refHex, "model": c04dClip(ans)})
		}
	})
}

// ---------------------------------------------------------------- reference encoder (from Encodings.md)
//
// Independent of the library. DELTA_BINARY_PACKED: header <block size> <miniblocks per block>
// <total count> <first value zigzag>; per block <min delta zigzag> <one width byte per miniblock>
// <miniblocks, bit-packed LSB first>. Freedoms of the format that are exercised: any block size that
// is a multiple of 128 with a miniblock count such that the miniblock size is a multiple of 32; any
// frame of reference (the "min delta" need not be the minimum as long as delta - min fits the
// width, arithmetic wraps); any width >= the needed one and <= the type's; unneeded miniblocks of
// the last block have a width byte of any value and no body; the padding of the last needed
// miniblock is arbitrary.

var c04dGeometries = [][2]int{{128, 4}, {128, 2}, {128, 1}, {256, 4}, {256, 8}, {256, 2}, {256, 1}, {384, 4}, {384, 12},
	{512, 4}, {512, 16}, {512, 8}, {640, 20}, {1024, 8}, {1024, 32}, {2048, 2}, {4096, 128}, {65536, 2048}}

type c04dBitWriter struct {
	b []byte
	n uint // bits written
}

func (w *c04dBitWriter) put(v uint64, width int) {
	for i := 0; i < width; i++ {
		if w.n%8 == 0 {
			w.b = append(w.b, 0)
		}
		if v>>uint(i)&1 == 1 {
			w.b[w.n/8] |= 1 << (w.n % 8)
		}
		w.n++
	}
}

func c04dBitLen(x uint64) int {
	n := 0
	for x != 0 {
		n++
		x >>= 1
	}
	return n
}

// Returns the stream and, for the Lean side, the description of the choices made (a `ConfStream`:
// <block size> <miniblocks> <total> <first> <blocks>, blocks `<min delta>:<width>/<packed values>;…:<stale widths>`
// separated by `|`).
func c04dRefDelta(r *rand.Rand, bits int, vals []int64, bs, minis int) ([]byte, c04dConfPart) {
	var desc strings.Builder
	mask := ^uint64(0)
	if bits == 32 {
		mask = 0xFFFFFFFF
	}
	sext := func(u uint64) int64 { // the value of the low `bits` bits as a signed integer
		if bits == 32 {
			return int64(int32(uint32(u)))
		}
		return int64(u)
	}
	var out []byte
	out = binary.AppendUvarint(out, uint64(bs))
	out = binary.AppendUvarint(out, uint64(minis))
	out = binary.AppendUvarint(out, uint64(len(vals)))
	first := int64(0)
	if len(vals) > 0 {
		first = vals[0]
	}
	out = binary.AppendVarint(out, first)
	fmt.Fprintf(&desc, "%d %d %d %d ", bs, minis, len(vals), first)
	if len(vals) < 2 {
		desc.WriteByte('-')
	}
	vpm := bs / minis
	style := r.Intn(4) // 0 minimal, 1 minimal widths + random extra, 2 random frame of reference, 3 mixed
	for i := 1; i < len(vals); i += bs {
		if i > 1 {
			desc.WriteByte('|')
		}
		end := min(i+bs, len(vals))
		deltas := make([]uint64, end-i)
		minD := int64(math.MaxInt64)
		for k := range deltas {
			deltas[k] = (uint64(vals[i+k]) - uint64(vals[i+k-1])) & mask
			minD = min(minD, sext(deltas[k]))
		}
		if style == 2 || (style == 3 && r.Intn(3) == 0) {
			minD = sext(r.Uint64() >> uint(r.Intn(64)))
			if r.Intn(2) == 0 {
				minD = -minD
			}
			minD = sext(uint64(minD))
		}
		out = binary.AppendVarint(out, minD)
		fmt.Fprintf(&desc, "%d:", minD)
		var stale []string
		widths := make([]byte, minis)
		for m := 0; m < minis; m++ {
			lo := m * vpm
			if lo >= len(deltas) { // unneeded miniblock: any width byte, no body
				if r.Intn(2) == 0 {
					widths[m] = byte(r.Intn(256))
					if r.Intn(3) == 0 { // a plausible stale width, as a writer reusing its width array leaves it
						widths[m] = byte(1 + r.Intn(bits))
					}
				}
				stale = append(stale, strconv.Itoa(int(widths[m])))
				continue
			}
			need := 0
			for _, d := range deltas[lo:min(lo+vpm, len(deltas))] {
				need = max(need, c04dBitLen((d-uint64(minD))&mask))
			}
			if style != 0 && r.Intn(2) == 0 {
				need += r.Intn(bits - need + 1)
			}
			widths[m] = byte(need)
		}
		out = append(out, widths...)
		for m := 0; m < minis && m*vpm < len(deltas); m++ {
			var bw c04dBitWriter
			wd := int(widths[m])
			if m > 0 {
				desc.WriteByte(';')
			}
			fmt.Fprintf(&desc, "%d/", wd)
			for k := m * vpm; k < (m+1)*vpm; k++ {
				var x uint64
				if k < len(deltas) {
					x = (deltas[k] - uint64(minD)) & mask
				} else if wd > 0 && style != 0 { // padding: arbitrary
					x = r.Uint64() >> uint(64-wd)
				}
				bw.put(x, wd)
				if k > m*vpm {
					desc.WriteByte(',')
				}
				desc.WriteString(strconv.FormatUint(x, 10))
			}
			out = append(out, bw.b...)
		}
		desc.WriteByte(':')
		if len(stale) == 0 {
			desc.WriteByte('-')
		} else {
			desc.WriteString(strings.Join(stale, ","))
		}
	}
	return out, c04dConfPart{bits: bits, desc: desc.String(), raw: out, ints: vals}
}

func c04dRefLens(r *rand.Rand, lens []int) ([]byte, c04dConfPart) {
	g := c04dGeometries[r.Intn(len(c04dGeometries))]
	v := make([]int64, len(lens))
	for i, l := range lens {
		v[i] = int64(l)
	}
	return c04dRefDelta(r, 32, v, g[0], g[1])
}

// DELTA_LENGTH_BYTE_ARRAY: lengths (DELTA_BINARY_PACKED) then the bytes
func c04dRefDLBA(r *rand.Rand, vs [][]byte) ([]byte, []c04dConfPart) {
	lens := make([]int, len(vs))
	var data []byte
	for i, v := range vs {
		lens[i] = len(v)
		data = append(data, v...)
	}
	b, part := c04dRefLens(r, lens)
	return append(bytes.Clone(b), data...), []c04dConfPart{part}
}

// DELTA_BYTE_ARRAY: prefix lengths (DELTA_BINARY_PACKED) then the suffixes (DELTA_LENGTH_BYTE_ARRAY);
// the prefix is the longest common prefix with the previous value, or (still decodable) a shorter one
func c04dRefDBA(r *rand.Rand, vs [][]byte) ([]byte, []c04dConfPart) {
	short := r.Intn(3) == 0
	prefs := make([]int, len(vs))
	sufs := make([][]byte, len(vs))
	var prev []byte
	for i, v := range vs {
		p := 0
		for p < len(prev) && p < len(v) && prev[p] == v[p] {
			p++
		}
		if short && p > 0 && r.Intn(2) == 0 {
			p = r.Intn(p + 1)
		}
		prefs[i], sufs[i], prev = p, v[p:], v
	}
	pb, part := c04dRefLens(r, prefs)
	sb, parts := c04dRefDLBA(r, sufs)
	return append(bytes.Clone(pb), sb...), append([]c04dConfPart{part}, parts...)
}

// L1 on conformant streams of foreign origin: the Go decoders and the Lean spec decoder must both
// return the encoded values.
func (w *c04dWorker) runConformant(c c04dCase) {
	ctx := w.ctx
	canon := c.canon()
	rawHex := core.Hex(c.raw)
	if hdr, ok := c04dHeader(c.raw); ok {
		ctx.Hist(c.kind+"-geometry", fmt.Sprintf("%d/%d", hdr[0], hdr[1]))
	}
	name := map[string]string{"conf32": "delta32", "conf64": "delta64", "confdlba": "dlba", "confdba": "dba", "confflba": "dba-flba"}[c.kind]
	const whatGo = "the Go decoder does not return the encoded values from a spec-conformant stream written by another encoder (legal block/miniblock geometry, widths, frame of reference the library's own encoder never uses)"
	// the reference encoder's streams belong to the family the theorems of Props/C04DeltaConf.lean quantify over
	for _, part := range c.conf {
		part := part
		stale := "none"
		if i := strings.LastIndexByte(part.desc, ':'); i >= 0 && part.desc[i+1:] != "-" {
			stale = "all-zero"
			for _, x := range strings.Split(part.desc[i+1:], ",") {
				if x != "0" {
					stale = "non-zero"
				}
			}
		}
		ctx.Hist(c.kind+"-unneeded-miniblock-widths", stale)
		want := "ok " + core.Hex(part.raw) + " " + core.JoinInts(part.ints)
		w.ask(fmt.Sprintf("delta.conf%d %s", part.bits, part.desc), func(ans string) {
			if ans != want {
				ctx.Fail("L2", "delta-conformant-family-mirror", "the reference encoder's stream is not the stream (or not the values) the Lean family of conformant streams renders from the same choices, or the choices are not well-formed",
					map[string]any{"case": c04dClip(canon), "desc": c04dClip(part.desc), "model": c04dClip(ans)})
			}
		})
	}
	var op, want, goRes string
	switch c.kind {
	case "conf32", "conf64":
		ctx.Case(canon, len(c.ints) >= 2)
		ctx.Hist(c.kind+"-length", c04dLenClass(len(c.ints)))
		ctx.Hist(c.kind+"-followed-by-bytes", strconv.FormatBool(c.tail > 0))
		op = "delta.specdec" + c.kind[4:]
		want = "ok " + core.JoinInts(c.ints)
		goRes = c04dGoDecode("mal"+c.kind[4:], c04dBeyond(c.raw, 0xFF))
		// the internal decoder with something after the stream: values and the unread rest
		tail := make([]byte, c.tail)
		for i := range tail {
			tail[i] = byte(i*37 + 11)
		}
		full := append(bytes.Clone(c.raw), tail...)
		restRes := c04dGoDecodeRest(c.kind[4:], c04dBeyond(full, 0xFF))
		if wantRest := fmt.Sprintf("%s %d", want, c.tail); restRes != wantRest && goRes == want {
			ctx.Fail("L1", name+"-decode-conformant-foreign-rest",
				"decodeInt32/64 does not hand back exactly the bytes that follow a spec-conformant stream (DELTA_LENGTH_BYTE_ARRAY / DELTA_BYTE_ARRAY continue decoding there)",
				map[string]any{"case": c04dClip(canon), "go": c04dClip(restRes), "want_unread": c.tail})
		}
		fullHex := core.Hex(full)
		w.ask("delta.godecrest"+c.kind[4:]+" "+fullHex, func(ans string) {
			if ans == "err overwide" {
				return
			}
			if ans != restRes && !(strings.HasPrefix(ans, "err ") && strings.HasPrefix(restRes, "err ")) {
				ctx.Fail("L2", "delta-"+c.kind[4:]+"-decoder-rest", "the Go decoder and the Lean mirror disagree on the values or on the number of unread bytes ("+ctx.Variant+" build)",
					map[string]any{"case": c04dClip(canon), "impl": c04dClip(restRes), "model": c04dClip(ans)})
			}
		})
	case "confflba":
		ctx.Case(canon, len(c.vals) >= 2)
		ctx.Hist("confflba-size", strconv.Itoa(c.size))
		ctx.Hist("confflba-count", c04dLenClass(len(c.vals)))
		op = "dba.specdec"
		want = "ok " + c04dVals(c.vals)
		goRes = c04dGoDecodeFLBA(c04dBeyond(c.raw, 0xFF), c.size)
	default:
		ctx.Case(canon, len(c.vals) >= 2)
		ctx.Hist(c.kind+"-count", c04dLenClass(len(c.vals)))
		op = c.kind[4:] + ".specdec"
		want = "ok " + c04dVals(c.vals)
		goRes = c04dGoDecode("mal"+c.kind[4:], c04dBeyond(c.raw, 0xFF))
	}
	if goRes != want {
		ctx.Fail("L1", name+"-decode-conformant-foreign-geometry", whatGo,
			map[string]any{"case": c04dClip(canon), "go": c04dClip(goRes)})
	}
	switch c.kind {
	case "confdlba":
		w.godec("dlba", rawHex, c04dGoDecodeDLBARaw(c04dBeyond(c.raw, 0xFF)), canon, false)
	case "confflba":
		w.flba = c.size
		w.godec("dba", rawHex, goRes, canon, false)
		w.flba = 0
	default:
		w.godec(strings.TrimPrefix(c.kind, "conf"), rawHex, goRes, canon, false)
	}
	w.ask(op+" "+rawHex, func(ans string) {
		if ans != want+" -" {
			ctx.Fail("L1", name+"-spec-decode-conformant-foreign-geometry",
				"the Lean spec decoder does not return the encoded values from the reference encoder's stream (reference encoder or spec decoder is wrong)",
				map[string]any{"case": c04dClip(canon), "spec": c04dClip(ans)})
		}
	})
}

// L2 for the unpacking kernel the decoders call: bitpack.Unpack (assembly on the asm build, unpackInt32/64 on
// purego) vs the Lean transliteration of the portable kernel (goUnpackInt32/64, proved equal to LSB-first
// unpacking). The buffer is followed by garbage: the padding the kernels may read must not matter.
func (w *c04dWorker) runUnpack(c c04dCase) {
	ctx := w.ctx
	canon := c.canon()
	width, n := c.size, c.tail
	ctx.Case(canon, n >= 2)
	ctx.Hist(c.kind+"-width", fmt.Sprintf("%02d", width))
	buf := make([]byte, len(c.raw)+64)
	copy(buf, c.raw)
	for i := len(c.raw); i < len(buf); i++ {
		buf[i] = 0xA5
	}
	var got string
	func() {
		defer func() {
			if p := recover(); p != nil {
				got = "panic " + fmt.Sprint(p)
			}
		}()
		if c.kind == "unpack32" {
			dst := make([]int32, n)
			bitpack.Unpack(dst, buf[:len(c.raw)], uint(width))
			u := make([]uint32, n)
			for i, v := range dst {
				u[i] = uint32(v)
			}
			got = "ok " + core.JoinInts(u)
		} else {
			dst := make([]int64, n)
			bitpack.Unpack(dst, buf[:len(c.raw)], uint(width))
			u := make([]uint64, n)
			for i, v := range dst {
				u[i] = uint64(v)
			}
			got = "ok " + core.JoinInts(u)
		}
	}()
	w.ask(fmt.Sprintf("delta.%s %d %d %s", c.kind, width, n, core.Hex(c.raw)), func(ans string) {
		if ans != got {
			ctx.Fail("L2", "delta-unpack-kernel-mirror", "bitpack.Unpack and the Lean mirror of the portable kernel disagree ("+ctx.Variant+" build)",
				map[string]any{"case": c04dClip(canon), "impl": c04dClip(got), "model": c04dClip(ans)})
		}
	})
}

// outcome of the internal decodeInt32/64 (hooks VerifDecodeInt32/64): "ok <ints> <unread bytes>" | "err …" | "panic …"
func c04dGoDecodeRest(bits string, raw []byte) (res string) {
	defer func() {
		if p := recover(); p != nil {
			res = "panic " + fmt.Sprint(p)
		}
	}()
	if bits == "32" {
		v, rest, err := delta.VerifDecodeInt32(raw)
		if err != nil {
			return "err " + err.Error()
		}
		return fmt.Sprintf("ok %s %d", core.JoinInts(v), rest)
	}
	v, rest, err := delta.VerifDecodeInt64(raw)
	if err != nil {
		return "err " + err.Error()
	}
	return fmt.Sprintf("ok %s %d", core.JoinInts(v), rest)
}

// outcome of ByteArrayEncoding.DecodeFixedLenByteArray as a value list: "ok <vals>" | "err …" | "panic …"
func c04dGoDecodeFLBA(raw []byte, size int) (res string) {
	defer func() {
		if p := recover(); p != nil {
			res = "panic " + fmt.Sprint(p)
		}
	}()
	dst := c04dFF(64, 64)[:0] // dirty destination
	out, err := (&delta.ByteArrayEncoding{}).DecodeFixedLenByteArray(dst, raw, size)
	if err != nil {
		return "err " + err.Error()
	}
	if size == 0 || len(out)%size != 0 {
		return "ok !length-" + strconv.Itoa(len(out))
	}
	vs := make([][]byte, len(out)/size)
	for i := range vs {
		vs[i] = out[i*size : (i+1)*size]
	}
	return "ok " + c04dVals(vs)
}

// ---------------------------------------------------------------- malformed streams

// header fields as both decoders read them (nil if the header itself is cut)
func c04dHeader(b []byte) (f [3]uint64, ok bool) {
	for i := 0; i < 3; i++ {
		v, k := binary.Uvarint(b)
		if k <= 0 {
			return f, false
		}
		f[i] = v
		b = b[k:]
	}
	return f, true
}

// go outcome of a decode: "ok <canonical values>" | "err <text>" | "panic <text>"
func c04dGoDecode(kind string, raw []byte) (res string) {
	defer func() {
		if p := recover(); p != nil {
			res = "panic " + fmt.Sprint(p)
		}
	}()
	switch kind {
	case "mal32":
		v, err := (&delta.BinaryPackedEncoding{}).DecodeInt32(nil, raw)
		if err != nil {
			return "err " + err.Error()
		}
		return "ok " + core.JoinInts(v)
	case "mal64":
		v, err := (&delta.BinaryPackedEncoding{}).DecodeInt64(nil, raw)
		if err != nil {
			return "err " + err.Error()
		}
		return "ok " + core.JoinInts(v)
	default:
		var enc c04dByteEnc = &delta.LengthByteArrayEncoding{}
		if kind == "maldba" {
			enc = &delta.ByteArrayEncoding{}
		}
		data, offs, err := enc.DecodeByteArray(nil, raw, nil)
		if err != nil {
			return "err " + err.Error()
		}
		vs, ok := c04dSplit(data, offs)
		if !ok {
			return "err inconsistent-offsets " + fmt.Sprint(offs)
		}
		return "ok " + c04dVals(vs)
	}
}

// Allowed asymmetries between the Go decoders and the spec decoders on streams that are NOT what
// the Go encoder produces. Each entry: (go outcome class, spec outcome class) -> name, why it is
// acceptable. Anything else is recorded with ctx.Observe (malformed input is outside C04).
//
//	go ok / spec truncated  "go-zero-extends-truncated-tail": decodeInt32/64 copy a short final
//	    miniblock into a zeroed scratch buffer and accept a short width list (binary_packed.go:314-
//	    327 / 377-390, 461-465), i.e. they read the missing bytes as zeros. Verified, not assumed: the spec
//	    decoder is re-run on the stream extended with zero bytes and must return exactly Go's values.
//	    (For the byte-array encodings the zero-extension is applied to the length stream only when the
//	    data section is empty, so only "go ok => spec(zero-extended) same values" is checked.)
//	go ok / spec badwidth   "go-accepts-overwide-miniblock": a bit width above the physical type's is a
//	    writer error per the format ("must not use more bits…"); Go unpacks anyway. No values are
//	    compared: the format assigns none.
//	go ok / spec badheader  "go-accepts-nondivisor-miniblock-count": Go checks (blockSize/minis)%32 only,
//	    not blockSize%minis; the stream is not conformant, nothing to compare.
//	go err / spec ok        only for Go's documented resource limits and range checks:
//	    "too large"/"too many values" (block size > 65536, count > MaxInt32), varint "overflow" (more
//	    than 64 bits), "first value out of range" (int32: the spec decoder wraps instead), and
//	    "missing values" when the spec decoder stopped exactly at the end of input with all values
//	    (cannot happen; listed so that it would show up), plus for byte arrays Go's extra validation
//	    that the spec text does not require.
func (w *c04dWorker) runMalformed(c c04dCase) {
	ctx := w.ctx
	canon := c.canon()
	ctx.Case(canon, len(c.raw) > 4)
	ctx.Hist(c.kind+"-source", c.pat)
	hdr, hok := c04dHeader(c.raw)
	if hok && (hdr[2] > 1<<16 || hdr[0] > 1<<16) {
		// Go allocates 4 or 8 bytes per declared value before reading any (binary_packed.go:292, 358);
		// the Lean lists would be as large. Not compared.
		ctx.Hist(c.kind+"-outcome", "skipped-huge-declared-size")
		ctx.Observe("delta-decoder-allocates-declared-count-upfront", "decodeInt32/64 allocate 4 or 8 bytes per value the header declares (up to MaxInt32 values) before reading any block; such streams are not compared",
			map[string]any{"case": c04dClip(canon)})
		return
	}
	// The decoder must be a function of the input bytes: run it on two copies of the input whose
	// backing arrays continue with zeros resp. 0xFF beyond len (pages are sub-slices of larger buffers).
	goRes := c04dGoDecode(c.kind, c04dBeyond(c.raw, 0x00))
	if alt := c04dGoDecode(c.kind, c04dBeyond(c.raw, 0xFF)); alt != goRes {
		ctx.Hist(c.kind+"-outcome", "go-result-depends-on-bytes-beyond-input")
		ctx.Observe(c.kind+"-decode-depends-on-bytes-beyond-input",
			"the Go decoder returns different results for the same input bytes depending on what follows them in the backing array (it reads past len(src))",
			map[string]any{"case": canon, "go_zeros_beyond": c04dClip(goRes), "go_ff_beyond": c04dClip(alt)})
	}
	op := map[string]string{"mal32": "delta.specdec32", "mal64": "delta.specdec64", "maldlba": "dlba.specdec", "maldba": "dba.specdec"}[c.kind]
	rawHex := core.Hex(c.raw)
	detail := func(spec string) map[string]any {
		return map[string]any{"case": canon, "go": c04dClip(goRes), "spec": c04dClip(spec)}
	}
	if strings.HasPrefix(goRes, "panic ") {
		ctx.Hist(c.kind+"-outcome", "go-panic")
		ctx.Observe(c.kind+"-decoder-panics", "the Go decoder panics on a malformed stream instead of returning an error", detail(""))
		return
	}
	if c.kind == "maldlba" {
		w.godec("dlba", rawHex, c04dGoDecodeDLBARaw(c04dBeyond(c.raw, 0x00)), canon, true)
	} else {
		w.godec(strings.TrimPrefix(c.kind, "mal"), rawHex, goRes, canon, true)
	}
	w.ask(op+" "+rawHex, func(spec string) {
		goOK, specOK := strings.HasPrefix(goRes, "ok "), strings.HasPrefix(spec, "ok ")
		specVals := ""
		if specOK {
			specVals = spec[:strings.LastIndexByte(spec, ' ')] // drop the remaining-bytes field
		}
		switch {
		case goOK && specOK:
			ctx.Hist(c.kind+"-outcome", "both-ok")
			if goRes != specVals {
				key, what := c.kind+"-both-accept-different-values", "Go decoder and spec decoder both accept the stream but return different values"
				if !strings.HasSuffix(spec, " -") {
					key, what = c.kind+"-trailing-bytes-change-values", "bytes after the end of the stream change the values the Go decoder returns (the spec decoder stops at the end of the stream and hands them back)"
				}
				ctx.Observe(key, what, detail(spec))
			}
		case !goOK && !specOK:
			ctx.Hist(c.kind+"-outcome", "both-reject")
		case goOK && spec == "err truncated":
			// re-run the spec decoder on the zero-extended stream
			pad := 8 * int(hdr[0])
			if c.kind == "maldlba" || c.kind == "maldba" {
				pad = 8*128 + 16
			}
			ext := rawHex
			if ext == "-" {
				ext = ""
			}
			w.later = append(w.later, func() {
				w.ask(op+" "+ext+strings.Repeat("00", pad), func(spec2 string) {
					ok2 := strings.HasPrefix(spec2, "ok ")
					if ok2 && spec2[:strings.LastIndexByte(spec2, ' ')] == goRes {
						ctx.Hist(c.kind+"-outcome", "asym:go-zero-extends-truncated-tail(verified)")
						return
					}
					if spec2 == "err badwidth" {
						ctx.Hist(c.kind+"-outcome", "asym:go-accepts-overwide-miniblock")
						return
					}
					if (c.kind == "maldlba" || c.kind == "maldba") && !ok2 {
						// zero-extension also lengthens the data section; nothing to verify against
						ctx.Hist(c.kind+"-outcome", "asym:go-zero-extends-truncated-tail(unverified)")
						return
					}
					ctx.Observe(c.kind+"-go-accepts-truncated-stream-with-other-values",
						"Go accepts a truncated stream and its values are not those of the zero-extended stream", map[string]any{
							"case": canon, "go": c04dClip(goRes), "spec": spec, "spec_zero_extended": c04dClip(spec2)})
				})
			})
		case goOK && spec == "err badwidth":
			ctx.Hist(c.kind+"-outcome", "asym:go-accepts-overwide-miniblock")
		case goOK && spec == "err badprefix":
			ctx.Hist(c.kind+"-outcome", "go-ok/spec-badprefix")
			ctx.Observe(c.kind+"-accepts-prefix-longer-than-previous-value",
				"DELTA_BYTE_ARRAY: the Go decoder accepts a prefix length larger than the previous value and fabricates the missing bytes from its destination buffer", detail(spec))
		case goOK && spec == "err badheader":
			ctx.Hist(c.kind+"-outcome", "asym:go-accepts-nondivisor-miniblock-count")
		case goOK:
			ctx.Hist(c.kind+"-outcome", "go-ok/spec-"+spec)
			ctx.Observe(c.kind+"-go-accepts-stream-spec-rejects:"+strings.TrimPrefix(spec, "err "),
				"the Go decoder returns values for a stream the spec decoder rejects (not a listed asymmetry)", detail(spec))
		default: // go err, spec ok
			cls := ""
			for _, k := range []string{"too large", "too many values", "overflow", "first value out of range", "not a multiple"} {
				if strings.Contains(goRes, k) {
					cls = k
				}
			}
			if cls == "" {
				ctx.Hist(c.kind+"-outcome", "go-err/spec-ok")
				ctx.Observe(c.kind+"-go-rejects-conformant-stream", "the Go decoder rejects a stream the spec decoder accepts (not one of Go's documented limits)", detail(spec))
				return
			}
			ctx.Hist(c.kind+"-outcome", "asym:go-limit:"+cls)
		}
	})
}

// ---------------------------------------------------------------- driver of the sub-check

func (w *c04dWorker) run(c c04dCase) {
	// the library calls are guarded one by one (lib, c04dGoDecode*); whatever still panics while a case is
	// evaluated is reported with the case instead of killing the process
	if p := c04dCatch(func() { w.run1(c) }); p != "" {
		w.ctx.Fail("L1", "delta-case-panics", "evaluating the case panicked outside the guarded library calls", map[string]any{"case": c04dClip(c.canon()), "panic": p})
		w.out, w.dec32, w.dec64, w.decB, w.decOff, w.flba = nil, nil, nil, nil, nil, 0
	}
}

func (w *c04dWorker) run1(c c04dCase) {
	switch c.kind {
	case "i32", "i64":
		w.runInt(c)
	case "dlba", "dba", "win-dlba", "win-dba":
		w.runBytes(c)
	case "flba":
		if c.size > 0 && len(c.raw)%c.size == 0 {
			w.runFLBA(c)
		}
	case "conf32", "conf64", "confdlba", "confdba", "confflba":
		w.runConformant(c)
	case "unpack32", "unpack64":
		w.runUnpack(c)
	default:
		w.runMalformed(c)
	}
}

// API corners that are outside the property's domain but worth a line in the evidence.
func c04dCorners(ctx *core.Ctx) {
	// no offsets at all (not even the leading 0): DELTA_LENGTH_BYTE_ARRAY writes zero bytes, which its own decoder rejects
	var lb delta.LengthByteArrayEncoding
	var out []byte
	var err, derr error
	if p := c04dCatch(func() {
		out, err = lb.EncodeByteArray(nil, nil, nil)
		_, _, derr = lb.DecodeByteArray(nil, out, nil)
	}); p != "" {
		ctx.Observe("dlba-no-offsets-panics", "LengthByteArrayEncoding.EncodeByteArray / DecodeByteArray with an empty offsets slice (not even the leading 0) panics", map[string]any{"panic": p})
	} else if len(out) == 0 && derr != nil {
		ctx.Observe("dlba-no-offsets-encodes-to-nothing", "LengthByteArrayEncoding.EncodeByteArray with an empty offsets slice (not even the leading 0) returns zero bytes, which DecodeByteArray rejects",
			map[string]any{"encode_err": fmt.Sprint(err), "decode_err": fmt.Sprint(derr)})
	}
	func() {
		defer func() {
			if p := recover(); p != nil {
				ctx.Observe("dba-flba-size-0-panics", "ByteArrayEncoding.EncodeFixedLenByteArray(size=0) panics instead of returning an error", map[string]any{"panic": fmt.Sprint(p)})
			}
		}()
		var ba delta.ByteArrayEncoding
		ba.EncodeFixedLenByteArray(nil, nil, 0)
	}()
}

func RunC04Delta(ctx *core.Ctx) {
	ctx.SetRule("delta: value sequences (int32/int64: boundary lengths 0,1,2,31..34,63..66,127..131,255..259,1000s x 12 value patterns incl. overflowing deltas; byte arrays: 9 patterns incl. empty/long/0xFF/word-boundary shared prefixes; FLBA sizes 1..65 incl. 15,16,17,20,32,33,64; 2..14 values of 1..65 bytes with chosen shared-prefix lengths around the AVX2-head/scalar-tail hand-over of the amd64 DELTA_BYTE_ARRAY decoders, head = 1,2,3,.. values) encoded by the real encoder into nil and dirty/reused dst, decoded by Go and by the Lean spec decoder, compared byte-exact with the Lean mirror; plus spec-conformant streams of a reference encoder written from Encodings.md (18 block/miniblock geometries up to the 65536 limit, non-minimal widths, any frame of reference) decoded by Go and by the spec decoder, unneeded miniblocks with stale width bytes, bytes following the stream (decodeInt32/64 must leave exactly those unread), FIXED_LEN_BYTE_ARRAY through foreign DELTA_BYTE_ARRAY streams, every stream also rendered by the Lean family of conformant streams from the same choices; every call of the library under recover (a panic on a valid input = L1 failure <entry>-panics with the input); plus malformed streams (random, free-form, truncated, mutated, extended; observations only). Distinct by canonical input text; non-trivial = at least 2 values (ints), at least 2 values with a non-empty one (byte arrays), more than 4 bytes (malformed)")
	var cases []c04dCase
	// corpus / replay first
	files := ctx.CorpusFiles()
	if ctx.Replay != "" {
		files = []string{ctx.Replay}
	}
	for _, fn := range files {
		f, err := os.Open(fn)
		if err != nil {
			continue
		}
		sc := bufio.NewScanner(f)
		sc.Buffer(make([]byte, 1<<20), 64<<20)
		for sc.Scan() {
			line := strings.TrimSpace(sc.Text())
			// replay files written by ./check are JSON: pick the "case" field of the detail
			if i := strings.Index(line, `"case": "`); i >= 0 {
				line = line[i+9:]
				if j := strings.IndexByte(line, '"'); j >= 0 {
					line = line[:j]
				}
			}
			if c, ok := c04dParse(line); ok {
				cases = append(cases, c)
			}
		}
		f.Close()
	}
	if ctx.Replay == "" {
		mul := 1
		if ctx.Widen {
			mul = 4
		}
		r := ctx.Rand("delta")
		// hand-picked first
		for _, bits := range []string{"i32", "i64"} {
			b := 32
			if bits == "i64" {
				b = 64
			}
			for _, n := range c04dLengths {
				for _, pat := range []string{"extremes-alt", "constant", "monotone-up", "random", "width-ladder"} {
					cases = append(cases, c04dCase{kind: bits, ints: c04dInts(r, b, n, pat), pat: pat, seed: r.Int63()})
				}
			}
		}
		nInt := ctx.Scale(3000, 11000) * mul
		for i := 0; i < nInt; i++ {
			for _, bits := range []string{"i32", "i64"} {
				b := 32
				if bits == "i64" {
					b = 64
				}
				pat := c04dIntPats[r.Intn(len(c04dIntPats))]
				cases = append(cases, c04dCase{kind: bits, ints: c04dInts(r, b, c04dLen(r), pat), pat: pat, seed: r.Int63()})
			}
		}
		nBytes := ctx.Scale(2000, 7000) * mul
		for i := 0; i < nBytes; i++ {
			for _, kind := range []string{"dlba", "dba"} {
				pat := c04dBytePats[r.Intn(len(c04dBytePats))]
				n := c04dLen(r)
				if pat == "long" {
					n = n % 40
				}
				cases = append(cases, c04dCase{kind: kind, vals: c04dBytes(r, n, pat), pat: pat, seed: r.Int63()})
			}
		}
		nF := ctx.Scale(1500, 5000) * mul
		for i := 0; i < nF; i++ {
			size := c04dFLBASizes[r.Intn(len(c04dFLBASizes))]
			pat := c04dBytePats[r.Intn(len(c04dBytePats))]
			n := c04dLen(r) % 300
			var raw []byte
			for _, v := range c04dBytes(r, n, pat) { // cut or pad every value to `size`
				v = append(v, bytes.Repeat([]byte{0}, size)...)[:size]
				raw = append(raw, v...)
			}
			cases = append(cases, c04dCase{kind: "flba", size: size, raw: raw, pat: pat, seed: r.Int63()})
		}
		// conformant streams of foreign origin (reference encoder)
		nConf := ctx.Scale(2500, 9000) * mul
		for i := 0; i < nConf; i++ {
			g := c04dGeometries[i%len(c04dGeometries)]
			for _, kind := range []string{"conf32", "conf64"} {
				b := 32
				if kind == "conf64" {
					b = 64
				}
				n := c04dLen(r) % 1300
				if r.Intn(3) == 0 { // around the block and miniblock boundaries of this geometry
					if k := []int{g[0] / g[1], g[0], 2 * g[0], g[0] + g[0]/g[1]}[r.Intn(4)]; k <= 5000 {
						n = max(0, k+r.Intn(5)-1)
					}
				}
				pat := c04dIntPats[r.Intn(len(c04dIntPats))]
				xs := c04dInts(r, b, n, pat)
				raw, part := c04dRefDelta(r, b, xs, g[0], g[1])
				tail := 0
				if r.Intn(2) == 0 { // something follows the stream, as the value bytes do in the byte-array encodings
					tail = 1 + r.Intn(40)
				}
				cases = append(cases, c04dCase{kind: kind, ints: xs, raw: raw, conf: []c04dConfPart{part}, tail: tail, pat: pat, seed: r.Int63()})
			}
			if i%3 == 0 {
				pat := c04dBytePats[r.Intn(len(c04dBytePats))]
				n := c04dLen(r) % 700
				if pat == "long" {
					n = n % 40
				}
				vs := c04dBytes(r, n, pat)
				raw, parts := c04dRefDLBA(r, vs)
				cases = append(cases, c04dCase{kind: "confdlba", vals: vs, raw: raw, conf: parts, pat: pat, seed: r.Int63()})
				raw, parts = c04dRefDBA(r, vs)
				cases = append(cases, c04dCase{kind: "confdba", vals: vs, raw: raw, conf: parts, pat: pat, seed: r.Int63()})
				// FIXED_LEN_BYTE_ARRAY values through a foreign DELTA_BYTE_ARRAY stream (DecodeFixedLenByteArray)
				size := c04dFLBASizes[r.Intn(len(c04dFLBASizes))]
				fvs := make([][]byte, 0, len(vs))
				for _, v := range vs[:min(len(vs), 300)] { // cut or pad every value to `size`
					fvs = append(fvs, append(bytes.Clone(v), bytes.Repeat([]byte{0}, size)...)[:size])
				}
				raw, parts = c04dRefDBA(r, fvs)
				cases = append(cases, c04dCase{kind: "confflba", size: size, vals: fvs, raw: raw, conf: parts, pat: pat, seed: r.Int63()})
			}
		}
		nWin := ctx.Scale(300, 1500) * mul
		for i := 0; i < nWin; i++ {
			for _, kind := range []string{"win-dlba", "win-dba"} {
				pat := c04dBytePats[r.Intn(len(c04dBytePats)-3)]
				c := c04dCase{kind: kind, vals: c04dBytes(r, 1+c04dLen(r)%40, pat), pat: pat, seed: r.Int63()}
				switch i % 3 {
				case 0:
					c.base = 1 + r.Intn(9)
				case 1:
					c.tail = 1 + r.Intn(9)
				default:
					c.base, c.tail = 1+r.Intn(9), 1+r.Intn(9)
				}
				cases = append(cases, c)
			}
		}
		// the unpacking kernel on the shapes the decoders call it with: a miniblock of vpm values, the first n read
		nUnp := ctx.Scale(600, 5000) * mul
		for i := 0; i < nUnp; i++ {
			for _, kind := range []string{"unpack32", "unpack64"} {
				maxW := 32
				if kind == "unpack64" {
					maxW = 64
				}
				width := 1 + i%maxW
				vpm := []int{32, 64, 128, 256}[r.Intn(4)]
				n := 1 + r.Intn(vpm)
				if r.Intn(3) == 0 {
					n = vpm
				}
				raw := make([]byte, vpm*width/8)
				switch r.Intn(3) {
				case 0:
					r.Read(raw)
				case 1:
					for j := range raw {
						raw[j] = 0xFF
					}
				default:
					for j := range raw {
						raw[j] = byte(1) << uint(r.Intn(8))
					}
				}
				cases = append(cases, c04dCase{kind: kind, size: width, tail: n, raw: raw, pat: "unpack", seed: r.Int63()})
			}
		}
		nMal := ctx.Scale(2500, 10000) * mul
		for i := 0; i < nMal; i++ {
			for _, kind := range []string{"mal32", "mal64", "maldlba", "maldba"} {
				raw, pat := c04dMalformed(r, kind)
				cases = append(cases, c04dCase{kind: kind, raw: raw, pat: pat, seed: r.Int63()})
			}
		}
		// few values around the AVX2 head / scalar tail hand-over of the amd64 DELTA_BYTE_ARRAY decoders
		nH := ctx.Scale(39, 130) * mul
		for i := 0; i < nH; i++ {
			for _, size := range c04dFLBASizes {
				var raw []byte
				for _, v := range c04dHandover(r, i, size, true) {
					raw = append(raw, v...)
				}
				cases = append(cases, c04dCase{kind: "flba", size: size, raw: raw, pat: "handover", seed: r.Int63()})
				cases = append(cases, c04dCase{kind: "dba", vals: c04dHandover(r, i, size, false), pat: "handover", seed: r.Int63()})
				if i%4 == 0 { // the same values through a foreign stream (prefixes shorter than the longest common one are legal)
					fvs := c04dHandover(r, i, size, true)
					fraw, parts := c04dRefDBA(r, fvs)
					cases = append(cases, c04dCase{kind: "confflba", size: size, vals: fvs, raw: fraw, conf: parts, pat: "handover", seed: r.Int63()})
				}
			}
		}
		c04dCorners(ctx)
	}
	for i := 0; i < len(cases) && i < 40; i += 9 {
		ctx.Sample(map[string]any{"case": c04dClip(cases[i].canon())})
	}
	var wg sync.WaitGroup
	for k := 0; k < c04dWorkers; k++ {
		wg.Add(1)
		go func(k int) {
			defer wg.Done()
			w := &c04dWorker{ctx: ctx, d: ctx.Driver()}
			for i := k; i < len(cases); i += c04dWorkers {
				w.run(cases[i])
			}
			w.flush()
		}(k)
	}
	wg.Wait()
}
