package props

// C15 sub-check "closewait": asyncPages.Close on the real code, next to the termination theorems of
// lean/PqModel/Props/C15Close.lean.
//
// What the theorems say: Close returns in every run in which the `<-done` case of the producer's
// select (page.go:318-321) is not starved forever, and when it returns the producer has exited
// (`ppc = exited`: the wrapped reader was closed, once, and is never touched again); under weak
// fairness alone Close need not return, and its length has no bound: each time the producer reaches
// its select while Close's range loop is a ready receiver, `read <-` and `<-done` are both ready
// (async_close_weak_fairness_insufficient, async_close_unbounded).
//
// L1 oracle (from the property, no mirror involved): for random SeekToRow/ReadPage histories over
// a counting wrapped reader, Close returns; afterwards the wrapped reader has been closed exactly
// once and receives no further call; ReadPage answers io.EOF, SeekToRow io.ErrClosedPipe, a second
// Close touches nothing. No verdict depends on elapsed time alone: a Close that has not returned
// after the watchdog is a failure only if the wrapped reader's call counter has stopped moving
// (everybody parked), an observation if the producer is still spinning.
//
// Evidence for the negative theorem: the histogram of the number of wrapped ReadPage calls made
// AFTER Close was entered, per delay of the wrapped reader. With a slow wrapped reader the producer
// is in its loop body when Close starts and every later select is a fair coin: the counts fall off
// geometrically with ratio 1/2 (the model's top/bodyOffer/send/closeRecv cycle), with no a-priori
// bound; with an instantaneous reader the producer is usually parked in the select already and
// close(done) wakes it on the done case.

import (
	"errors"
	"fmt"
	"io"
	"runtime"
	"strings"
	"sync/atomic"
	"time"

	"github.com/parquet-go/parquet-go"
	"github.com/parquet-go/parquet-go/encoding"

	"verifharness/core"
)

func init() {
	RegisterSub("C15", "closewait", RunC15CloseWait)
}

// c15CountPages is the wrapped reader: nPages pages of two rows, then io.EOF; every call counted.
type c15CountPages struct {
	page     parquet.Page
	nPages   int64
	delay    time.Duration
	pos      atomic.Int64
	entered  atomic.Bool // Close of the async wrapper has been called
	returned atomic.Bool // Close of the async wrapper has returned
	calls    atomic.Int64
	after    atomic.Int64 // ReadPage calls after `entered`
	late     atomic.Int64 // any call after `returned`
	closes   atomic.Int64
}

func (p *c15CountPages) touch() {
	p.calls.Add(1)
	if p.returned.Load() {
		p.late.Add(1)
	}
}

func (p *c15CountPages) ReadPage() (parquet.Page, error) {
	p.touch()
	if p.entered.Load() {
		p.after.Add(1)
	}
	if p.delay > 0 {
		time.Sleep(p.delay)
	}
	if i := p.pos.Load(); i < p.nPages {
		p.pos.Store(i + 1)
		return p.page, nil
	}
	return nil, io.EOF
}

func (p *c15CountPages) SeekToRow(row int64) error {
	p.touch()
	p.pos.Store(row / 2)
	return nil
}

func (p *c15CountPages) Close() error {
	p.touch()
	p.closes.Add(1)
	return nil
}

func RunC15CloseWait(ctx *core.Ctx) {
	ctx.SetRule("C15 closewait: the history before Close contains at least one ReadPage or SeekToRow (the producer has left its first select when Close is called)")
	r := ctx.Rand("closewait")
	runs := ctx.Scale(2500, 40000)
	delays := []time.Duration{0, 5 * time.Microsecond, 30 * time.Microsecond}
	page := parquet.Int32Type.NewPage(0, 2, encoding.Int32Values([]int32{1, 2}))
	maxAfter := map[time.Duration]int64{}
	for i := 0; i < runs; i++ {
		w := &c15CountPages{page: page, nPages: int64(r.Intn(6)), delay: delays[r.Intn(len(delays))]}
		nops := r.Intn(5)
		ops := make([]string, 0, nops)
		ap := parquet.AsyncPages(w)
		for j := 0; j < nops; j++ {
			if r.Intn(3) == 0 {
				k := int64(r.Intn(12))
				ops = append(ops, fmt.Sprintf("S%d", k))
				ap.SeekToRow(k)
			} else {
				ops = append(ops, "R")
				ap.ReadPage()
			}
		}
		canon := fmt.Sprintf("pages=%d delay=%s ops=%s", w.nPages, w.delay, strings.Join(ops, ","))
		ctx.Case(canon, nops > 0)
		ctx.Hist("closewait_history_len", fmt.Sprint(nops))

		done := make(chan error, 1)
		w.entered.Store(true)
		go func() {
			err := ap.Close()
			w.returned.Store(true)
			done <- err
		}()
		select {
		case <-done:
		case <-time.After(20 * time.Second):
			c0 := w.calls.Load()
			time.Sleep(300 * time.Millisecond)
			if w.calls.Load() == c0 {
				ctx.Fail("L1", "async-close-parked", "asyncPages.Close has not returned and the producer makes no call on the wrapped reader any more",
					map[string]any{"input": canon, "wrapped_calls": c0})
			} else {
				ctx.Observe("async-close-still-spinning", "asyncPages.Close has not returned after 20 s, the producer is still reading: its select keeps choosing `read <-` over `<-done`",
					map[string]any{"input": canon, "wrapped_calls": c0})
			}
			continue
		}
		for k := 0; k < 3; k++ {
			runtime.Gosched()
		}
		if n := w.closes.Load(); n != 1 {
			ctx.Fail("L1", "async-close-wrapped-close-count", fmt.Sprintf("wrapped reader closed %d times by the time Close returned", n),
				map[string]any{"input": canon})
		}
		if _, err := ap.ReadPage(); err != io.EOF {
			ctx.Fail("L1", "async-readpage-after-close", fmt.Sprintf("ReadPage after Close: %v, want io.EOF", err), map[string]any{"input": canon})
		}
		if err := ap.SeekToRow(0); !errors.Is(err, io.ErrClosedPipe) {
			ctx.Fail("L1", "async-seek-after-close", fmt.Sprintf("SeekToRow after Close: %v, want io.ErrClosedPipe", err), map[string]any{"input": canon})
		}
		ap.Close()
		if n := w.late.Load(); n != 0 {
			ctx.Fail("L1", "async-close-returned-before-producer-exit", fmt.Sprintf("%d calls on the wrapped reader after Close returned", n),
				map[string]any{"input": canon})
		}
		a := w.after.Load()
		ctx.Hist(fmt.Sprintf("wrapped_reads_after_close_entered (wrapped delay %s)", w.delay), fmt.Sprintf("%02d", a))
		if a > maxAfter[w.delay] {
			maxAfter[w.delay] = a
		}
		if i < 3 {
			ctx.Sample(map[string]any{"closewait": canon, "wrapped_reads_after_close_entered": a})
		}
	}
	for d, m := range maxAfter {
		ctx.HistN("max_wrapped_reads_after_close_entered", d.String(), m)
	}
}
