package props

// C13 — Corruption inside a checksummed page is reported, never returned as data.
//
//	crc    L2: hash/crc32 (IEEE; the slicing-8 / CLMUL kernels Go runs) vs the Lean byte-wise crc32 the
//	       burst theorem is proved about (and its bit-serial form, and chained Update);
//	       L1: the burst theorem's statement evaluated on hash/crc32 itself.
//	flips  L1: fault enumeration on real files (see c13_flips.go), run in worker subprocesses;
//	       L2: which loader rejects which corrupted body vs the Lean mirror PageLoad.load.

import (
	"context"
	"encoding/json"
	"fmt"
	"hash/crc32"
	"math/rand"
	"os"
	"os/exec"
	"runtime"
	"sort"
	"strings"
	"sync"
	"sync/atomic"
	"time"

	"verifharness/core"
)

func init() {
	RegisterSub("C13", "crc", RunC13Crc)
	RegisterSub("C13", "flips", RunC13Flips)
	workers["c13flips"] = c13FlipsWorker
}

const c13Rule = "crc: random/boundary-length buffers (zeros, 0xFF, sparse, noise), distinct by buffer hex, non-trivial = length >= 5 (longer than the CRC register). " +
	"flips: one case = (file configuration, page, xor mask, access path), distinct by that text; non-trivial = the faulted column chunk has >= 2 pages or the page body carries levels; every mask is a burst of width 1..32 bits inside one page body of a file written by the library"

var c13Lens = []int{0, 1, 2, 3, 4, 5, 7, 8, 9, 15, 16, 17, 31, 32, 33, 63, 64, 65, 127, 128, 129, 255, 256, 257, 1023, 1024, 1025}

func c13RandBuf(r *rand.Rand) []byte {
	var n int
	switch r.Intn(10) {
	case 0, 1, 2, 3, 4:
		n = c13Lens[r.Intn(len(c13Lens))]
	case 5, 6, 7:
		n = r.Intn(80)
	default:
		n = 1 << uint(r.Intn(12))
		n += r.Intn(n + 1)
	}
	b := make([]byte, n)
	switch r.Intn(6) {
	case 0: // zeros
	case 1:
		for i := range b {
			b[i] = 0xFF
		}
	case 2: // sparse
		for i := 0; i < n/16+1 && n > 0; i++ {
			b[r.Intn(n)] = byte(1 << uint(r.Intn(8)))
		}
	default:
		r.Read(b)
	}
	return b
}

// c13Burst returns a xor mask of len(n) bytes: a burst of `width` bits starting at bit `start`
// (bit k = byte k/8, bit k%8 from the least significant), first and last bit set, middle from r.
func c13Burst(n, start, width int, r *rand.Rand) []byte {
	m := make([]byte, n)
	for i := 0; i < width; i++ {
		set := i == 0 || i == width-1 || r.Intn(2) == 0
		if set {
			k := start + i
			m[k/8] |= 1 << uint(k%8)
		}
	}
	return m
}

func RunC13Crc(ctx *core.Ctx) {
	ctx.SetRule(c13Rule)
	n := ctx.Scale(40000, 400000)
	nw := runtime.GOMAXPROCS(0)
	if nw > 8 {
		nw = 8
	}
	var wg sync.WaitGroup
	for w := 0; w < nw; w++ {
		wg.Add(1)
		go func(w int) {
			defer wg.Done()
			r := ctx.Rand(fmt.Sprintf("c13crc/%d", w))
			d := ctx.Driver()
			if d == nil {
				return
			}
			var reqs []string
			var pend []func(string)
			flush := func() {
				ans, err := d.AskMany(reqs)
				if err != nil {
					ctx.Fail("L2", "driver-error", err.Error(), nil)
				}
				for i, a := range ans {
					pend[i](a)
				}
				reqs, pend = reqs[:0], pend[:0]
			}
			for i := 0; i < n/nw; i++ {
				b := c13RandBuf(r)
				hx := core.Hex(b)
				ctx.Case("crc "+hx, len(b) >= 5)
				ctx.Hist("crc.len", c13LenBucket(len(b)))
				if w == 0 && i < 2 {
					ctx.Sample(map[string]any{"crc32_of": hx, "go": fmt.Sprintf("%08x", crc32.ChecksumIEEE(b))})
				}
				want := fmt.Sprintf("ok %08x", crc32.ChecksumIEEE(b))
				reqs = append(reqs, "crc32 "+hx)
				pend = append(pend, func(ans string) {
					if ans != want {
						ctx.Fail("L2", "crc32-bytewise-mismatch", "hash/crc32.ChecksumIEEE differs from the Lean crc32", map[string]any{"data": hx, "go": want, "lean": ans})
					}
				})
				if len(b) <= 300 {
					reqs = append(reqs, "crc32.bits "+hx)
					pend = append(pend, func(ans string) {
						if ans != want {
							ctx.Fail("L2", "crc32-bitserial-mismatch", "hash/crc32.ChecksumIEEE differs from the Lean bit-serial crcBits", map[string]any{"data": hx, "go": want, "lean": ans})
						}
					})
				}
				// the writer's chained Update over rep ‖ def ‖ page
				if len(b) > 0 && i%3 == 0 {
					c1, c2 := r.Intn(len(b)+1), r.Intn(len(b)+1)
					if c1 > c2 {
						c1, c2 = c2, c1
					}
					s := crc32.Update(0, crc32.IEEETable, b[:c1])
					s2 := crc32.Update(s, crc32.IEEETable, b[c1:c2])
					s3 := crc32.Update(s2, crc32.IEEETable, b[c2:])
					if s3 != crc32.ChecksumIEEE(b) {
						ctx.Fail("L1", "crc32-update-not-associative", "chained crc32.Update differs from one pass", map[string]any{"data": hx, "cuts": []int{c1, c2}})
					}
					want2 := fmt.Sprintf("ok %08x", s3)
					reqs = append(reqs, fmt.Sprintf("crc32.update %08x %s", s2, core.Hex(b[c2:])))
					pend = append(pend, func(ans string) {
						if ans != want2 {
							ctx.Fail("L2", "crc32-update-mismatch", "crc32.Update differs from the Lean crc32Update", map[string]any{"data": hx, "cut": c2, "state": s2, "go": want2, "lean": ans})
						}
					})
				}
				// L1: the statement of crc_burst_bytes on the real function
				if len(b) > 0 {
					for k := 0; k < 8; k++ {
						width := 1 + r.Intn(32)
						if width > 8*len(b) {
							width = 8 * len(b)
						}
						start := r.Intn(8*len(b) - width + 1)
						m := c13Burst(len(b), start, width, r)
						x := make([]byte, len(b))
						for j := range b {
							x[j] = b[j] ^ m[j]
						}
						ctx.Hist("crc.burst_width", fmt.Sprint(width))
						if crc32.ChecksumIEEE(x) == crc32.ChecksumIEEE(b) {
							ctx.Fail("L1", "crc32-burst-undetected", "a burst of width <= 32 bits left hash/crc32 unchanged", map[string]any{"data": hx, "mask": core.Hex(m)})
						}
					}
				}
				if len(reqs) >= 1500 {
					flush()
				}
			}
			flush()
		}(w)
	}
	wg.Wait()
}

func c13LenBucket(n int) string {
	switch {
	case n == 0:
		return "0"
	case n < 4:
		return "1-3"
	case n == 4:
		return "4"
	case n <= 8:
		return "5-8"
	case n <= 64:
		return "9-64"
	case n <= 256:
		return "65-256"
	case n <= 1024:
		return "257-1024"
	}
	return ">1024"
}

// ------------------------------------------------------------------ flips: orchestration

type c13Job struct {
	Config  c13Config  `json:"config"`
	Faults  []c13Fault `json:"faults,omitempty"` // explicit faults (corpus / replay); empty = enumerate
	Tier    string     `json:"tier"`
	Driver  string     `json:"driver,omitempty"`
	Trace   bool       `json:"trace,omitempty"` // serial, announce every evaluation on stderr (crash localisation)
	NoAsync bool       `json:"no_async,omitempty"`
	Origin  string     `json:"origin,omitempty"`
	Threads int        `json:"threads,omitempty"`
}

type c13CaseRec struct {
	Canon string   `json:"c"`
	Paths []string `json:"p"`
}

type c13Out struct {
	Cases    []c13CaseRec                `json:"cases"`
	Hist     map[string]map[string]int64 `json:"hist"`
	Samples  []any                       `json:"samples"`
	Failures []core.Failure              `json:"failures"`
	Requests int64                       `json:"requests"`
	Pages    int                         `json:"pages"`
}

func c13Configs(ctx *core.Ctx) []c13Job {
	var jobs []c13Job
	// corpus first
	for _, p := range ctx.CorpusFiles() {
		b, err := os.ReadFile(p)
		if err != nil {
			continue
		}
		var j c13Job
		if err := json.Unmarshal(b, &j); err != nil {
			ctx.Fail("L2", "corpus-unreadable", p+": "+err.Error(), nil)
			continue
		}
		j.Origin = "corpus:" + p[strings.LastIndex(p, "/")+1:]
		jobs = append(jobs, j)
	}
	r := ctx.Rand("c13flips/configs")
	seeds := ctx.Scale(2, 6)
	for s := 0; s < seeds; s++ {
		for _, schema := range []string{"flat", "nested"} {
			for _, version := range []int{1, 2} {
				for _, codec := range []string{"none", "snappy", "gzip", "zstd"} {
					c := c13Config{Schema: schema, Version: version, Codec: codec, Seed: r.Int63n(1 << 40)}
					c.PageRows = []int{3, 7, 8, 9, 16, 33}[r.Intn(6)]
					c.Rows = c.PageRows*(2+r.Intn(4)) + r.Intn(c.PageRows)
					if r.Intn(3) == 0 {
						c.RowGroup = c.PageRows * (1 + r.Intn(2))
					}
					if r.Intn(4) == 0 {
						c.SmallDict = true
					}
					jobs = append(jobs, c13Job{Config: c, Origin: "generated"})
				}
			}
		}
	}
	// pages whose CRC-32 is exactly 0 (constructed: the last value is solved for)
	for i := 0; i < ctx.Scale(2, 8); i++ {
		c := c13Config{Schema: []string{"crczero32", "crczero64"}[i%2], Version: 1 + (i/2)%2, Codec: "none", Rows: 2 + r.Intn(12), Seed: r.Int63n(1 << 40)}
		c.PageRows = c.Rows
		jobs = append(jobs, c13Job{Config: c, Origin: "generated"})
	}
	return jobs
}

func RunC13Flips(ctx *core.Ctx) {
	ctx.SetRule(c13Rule)
	var jobs []c13Job
	if ctx.Replay != "" {
		if j, ok := c13ReplayJob(ctx.Replay); ok {
			jobs = []c13Job{j}
		} else {
			ctx.Fail("L2", "replay-unreadable", "cannot extract a C13 job from "+ctx.Replay, nil)
			return
		}
	} else {
		jobs = c13Configs(ctx)
	}
	exe, err := os.Executable()
	if err != nil {
		ctx.Fail("L2", "no-self-exe", err.Error(), nil)
		return
	}
	par := runtime.GOMAXPROCS(0) / 2
	if par < 1 {
		par = 1
	}
	// one pass over the jobs at the given tier; tells whether a worker reported an L1 failure other than
	// the known zero-CRC finding
	pass := func(tier string) ([]c13JobResult, bool) {
		sem := make(chan struct{}, par)
		var wg sync.WaitGroup
		var found atomic.Bool
		results := make([]c13JobResult, len(jobs))
		for i := range jobs {
			j := jobs[i]
			j.Tier, j.Driver, j.Threads = tier, ctx.DriverPath, 3
			res := &results[i]
			wg.Add(1)
			sem <- struct{}{}
			go func() {
				defer wg.Done()
				defer func() { <-sem }()
				out, stderr, err := c13RunWorker(ctx, exe, j)
				if err != nil {
					found.Store(true)
					c13WorkerCrashed(ctx, res, exe, j, stderr, err)
					return
				}
				for _, f := range out.Failures {
					if f.Layer == "L1" && !strings.HasPrefix(f.Key, "crc-zero-omitted") {
						found.Store(true)
					}
				}
				res.merge(j, out)
			}()
		}
		wg.Wait()
		return results, found.Load()
	}
	results, found := pass(ctx.Tier)
	if ctx.Widen && !found && ctx.Tier != "thorough" {
		// a proof obligation broke and the tier's own enumeration shows no failing input: widened search
		results, _ = pass("thorough")
	}
	// results are applied in job order so that a run is a function of the seed alone
	for i := range results {
		for _, f := range results[i].apply {
			f(ctx)
		}
	}
}

// c13JobResult buffers what one job contributes to the run context
type c13JobResult struct{ apply []func(*core.Ctx) }

func (r *c13JobResult) Fail(layer, key, what string, detail any) {
	r.apply = append(r.apply, func(c *core.Ctx) { c.Fail(layer, key, what, detail) })
}
func (r *c13JobResult) Hist(name, key string) {
	r.apply = append(r.apply, func(c *core.Ctx) { c.Hist(name, key) })
}
func (r *c13JobResult) merge(j c13Job, out *c13Out) {
	r.apply = append(r.apply, func(c *core.Ctx) { c13Merge(c, j, out) })
}

func c13ReplayJob(path string) (c13Job, bool) {
	b, err := os.ReadFile(path)
	if err != nil {
		return c13Job{}, false
	}
	var rp struct {
		Detail struct {
			Job *c13Job `json:"job"`
		} `json:"detail"`
		Job *c13Job `json:"job"`
	}
	if json.Unmarshal(b, &rp) != nil {
		return c13Job{}, false
	}
	if rp.Detail.Job != nil {
		return *rp.Detail.Job, true
	}
	if rp.Job != nil {
		return *rp.Job, true
	}
	var j c13Job
	if json.Unmarshal(b, &j) == nil && j.Config.Schema != "" {
		return j, true
	}
	return c13Job{}, false
}

func c13RunWorker(ctx *core.Ctx, exe string, j c13Job) (*c13Out, string, error) {
	arg, _ := json.Marshal(&j)
	// generous: the box may be oversubscribed many times over; a real hang costs this once per job
	to := 400 * time.Second
	if j.Tier == "thorough" {
		to = 1200 * time.Second
	}
	cctx, cancel := context.WithTimeout(context.Background(), to)
	defer cancel()
	cmd := exec.CommandContext(cctx, exe, "-worker", "c13flips", string(arg))
	cmd.Env = append(os.Environ(), "GOMEMLIMIT=3GiB", fmt.Sprintf("GOMAXPROCS=%d", j.Threads+1))
	var so, se strings.Builder
	cmd.Stdout, cmd.Stderr = &so, &c13TailWriter{max: 1 << 16, b: &se}
	err := cmd.Run()
	if cctx.Err() != nil {
		return nil, se.String(), fmt.Errorf("timeout after %v", to)
	}
	if err != nil {
		return nil, se.String(), err
	}
	var out c13Out
	if err := json.Unmarshal([]byte(so.String()), &out); err != nil {
		return nil, se.String(), fmt.Errorf("unparsable worker output: %v", err)
	}
	return &out, se.String(), nil
}

// c13TailWriter keeps the last max bytes
type c13TailWriter struct {
	max int
	b   *strings.Builder
}

func (t *c13TailWriter) Write(p []byte) (int, error) {
	t.b.Write(p)
	if t.b.Len() > 2*t.max {
		s := t.b.String()
		t.b.Reset()
		t.b.WriteString(s[len(s)-t.max:])
	}
	return len(p), nil
}

// a worker died (panic in a goroutine of the library, out of memory, hang). Workers announce every
// evaluation that cannot be contained by recover (the async read mode) on stderr before running it:
// the last announcements are re-run alone to confirm the culprit, which is reported as an L1 failure
// with the single fault as replay; if none confirms, the whole job is re-run serially with every
// evaluation announced. The job is then run again without the async paths so that its other
// evaluations are not lost.
func c13WorkerCrashed(cctx *core.Ctx, ctx *c13JobResult, exe string, j c13Job, stderr string, err error) {
	how := "crash"
	if strings.Contains(err.Error(), "timeout") {
		how = "hang"
	} else if strings.Contains(stderr, "out of memory") || strings.Contains(stderr, "cannot allocate") {
		how = "oom"
	}
	ctx.Hist("flips.worker", how)
	type cand struct {
		key   string
		fault c13Fault
	}
	parse := func(text string, n int) []cand {
		var cs []cand
		ls := strings.Split(text, "\n")
		for i := len(ls) - 1; i >= 0 && len(cs) < n; i-- {
			if !strings.HasPrefix(ls[i], "@ ") {
				continue
			}
			f := strings.SplitN(ls[i], " ", 3)
			var ft c13Fault
			if len(f) == 3 && json.Unmarshal([]byte(f[2]), &ft) == nil {
				cs = append(cs, cand{f[1], ft})
			}
		}
		return cs
	}
	confirm := func(cs []cand) bool {
		for _, c := range cs {
			one := c13Job{Config: j.Config, Faults: []c13Fault{c.fault}, Tier: j.Tier, Driver: "", Trace: true, Threads: 1, Origin: j.Origin}
			_, tr, err2 := c13RunWorker(cctx, exe, one)
			if err2 == nil {
				continue
			}
			ctx.Fail("L1", c.key, fmt.Sprintf("reading the altered file takes the process down (%s: %v) — mask %s at bit %d of page %d.%d.%d read through %v: %s",
				how, err2, c.fault.Mask, c.fault.Bit, c.fault.RG, c.fault.Col, c.fault.Page, c.fault.Paths, c13FirstLines(tr, 1)),
				map[string]any{"config": j.Config.canon(), "fault": c.fault, "outcome": how, "stderr": c13FirstLines(tr, 12), "job": one})
			return true
		}
		return false
	}
	found := confirm(parse(stderr, j.Threads+1))
	if !found {
		full := j
		full.Trace, full.Threads, full.Driver = true, 1, ""
		_, tr, err2 := c13RunWorker(cctx, exe, full)
		if err2 != nil {
			found = confirm(parse(tr, 1))
		}
	}
	if !found {
		ctx.Fail("L1", "worker-"+how+"-not-localised", "a fault-enumeration worker died ("+err.Error()+") and no single evaluation reproduces it alone",
			map[string]any{"job": j, "stderr": c13FirstLines(stderr, 12)})
	}
	if !j.NoAsync {
		j.NoAsync = true
		out, stderr2, err3 := c13RunWorker(cctx, exe, j)
		if err3 != nil {
			ctx.Fail("L1", "worker-"+how+"-without-async", "the worker also dies with the async paths left out: "+err3.Error(),
				map[string]any{"job": j, "stderr": c13FirstLines(stderr2, 12)})
			return
		}
		ctx.merge(j, out)
	}
}

func c13FirstLines(s string, n int) string {
	ls := strings.Split(s, "\n")
	var keep []string
	for _, l := range ls {
		if strings.HasPrefix(l, "@ ") {
			continue
		}
		keep = append(keep, l)
		if len(keep) == n {
			break
		}
	}
	return strings.Join(keep, "\n")
}

func c13Merge(ctx *core.Ctx, j c13Job, out *c13Out) {
	cfg := j.Config.canon()
	for _, c := range out.Cases {
		for _, p := range c.Paths {
			ctx.Case(cfg+"|"+c.Canon+"|"+p, !strings.HasPrefix(c.Canon, "t "))
		}
	}
	for name, m := range out.Hist {
		for k, v := range m {
			ctx.HistN(name, k, v)
		}
	}
	for _, s := range out.Samples {
		ctx.Sample(s)
	}
	sort.SliceStable(out.Failures, func(a, b int) bool { return out.Failures[a].Key < out.Failures[b].Key })
	for _, f := range out.Failures {
		ctx.Fail(f.Layer, f.Key, f.What, f.Detail)
	}
	ctx.HistN("flips.driver_requests", "total", out.Requests)
	ctx.HistN("flips.pages", "total", int64(out.Pages))
	o := j.Origin
	if j.NoAsync {
		o += " (async paths left out after a crash)"
	}
	ctx.Hist("flips.files", o)
}
