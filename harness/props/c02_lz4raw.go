package props

// C02 round 6, sub-check `lz4raw`: LZ4_RAW chunks are value-decoded by the Lean spec file reader
// (lean/PqModel/Spec/FileCheck.lean `partBytes` codec 7 -> Spec/Lz4File.lean `lz4Block`, proved
// equal to the block-format reader `lz4Dec`; theorems in lean/PqModel/Props/C02Lz4.lean).
//
// Files are written with LZ4_RAW file-wide at every level of the real encoder (pierrec/lz4:
// `Compressor` for Fastest, `CompressorHC` for Fast..Level9), through every write mode, and judged
// like every other C02 file (spec reader clauses, counts, decoded Dremel streams against the rows
// written: L1). On top, for every page of every LZ4_RAW chunk (`lz4raw.pages`):
//   L1  the stored block is in the domain of `lz4raw_part_inverts_conformant_block`: it parses into
//       sequences, re-encodes to itself, is writable (`seqsOk`) and obeys the end-of-block rules;
//       the real decoder's output has the size the page header leaves for the part;
//   L2  the file reader's decompression step (`partBytes`) returns the bytes the REAL decoder
//       (`compress/lz4.Codec.Decode`, dirty destination) returns on the same stored bytes.

import (
	"bytes"
	"encoding/hex"
	"fmt"
	"os"
	"path/filepath"
	"strconv"
	"strings"
	"sync"

	"github.com/parquet-go/parquet-go"
	"github.com/parquet-go/parquet-go/compress/lz4"

	"verifharness/core"
	"verifharness/drv"
	"verifharness/gen"
)

func init() { RegisterSub("C02", "lz4raw", RunC02Lz4Raw) }

var c02Lz4Levels = []struct {
	name  string
	level lz4.Level
}{
	{"default", lz4.DefaultLevel}, {"fastest", lz4.Fastest}, {"default", lz4.DefaultLevel}, {"level1", lz4.Level1},
	{"level4", lz4.Level4}, {"level9", lz4.Level9},
}

func RunC02Lz4Raw(ctx *core.Ctx) {
	tmp := filepath.Join(".build", "tmp", fmt.Sprintf("c02lz4-%s-%d", ctx.Variant, os.Getpid()))
	os.MkdirAll(tmp, 0o755)
	defer os.RemoveAll(tmp)
	ncases := ctx.Scale(3, 40)
	var wg sync.WaitGroup
	sem := make(chan struct{}, 16)
	for _, e := range gen.Catalog {
		wg.Add(1)
		sem <- struct{}{}
		go func(e *gen.Entry) {
			defer wg.Done()
			defer func() { <-sem }()
			d := ctx.Driver()
			if d == nil {
				return
			}
			stream := "c02lz4/" + e.Name
			r := ctx.Rand(stream)
			for k := 0; k < ncases; k++ {
				// row counts around the page/row-group limits of RandWriterCfg; the larger ones give
				// pages of some KiB, i.e. blocks of many sequences
				n := []int{0, 1, 3, 40, 65, 130, 300, 1200}[r.Intn(8)]
				// compressible (few distinct values, runs of nulls: matches, overlapping ones) and
				// incompressible (literal-only blocks) data
				prof := &gen.Profile{NullProb: []float64{0.1, 0.5, 0.95}[r.Intn(3)], MaxLen: 1 + r.Intn(6), SmallDomain: r.Intn(3) > 0}
				if r.Intn(3) == 0 {
					prof.RunLen = 70
				}
				rows := e.NewRows(n)
				gen.FillRows(r, rows, prof)
				cfg := gen.RandWriterCfg(r)
				if r.Intn(2) == 0 {
					cfg = gen.PlainWriterCfg(r) // default limits: one page per chunk, the longest blocks
				}
				lv := c02Lz4Levels[r.Intn(len(c02Lz4Levels))]
				opts := append(append([]parquet.WriterOption{}, cfg.Opts...), parquet.Compression(&lz4.Codec{Level: lv.level}))
				desc := cfg.Desc + " filecodec=lz4raw level=" + lv.name
				mode := c02Modes[r.Intn(len(c02Modes))]
				var srcOpts []parquet.WriterOption
				if mode == "reencode-from-file" {
					sc := gen.RandWriterCfg(r)
					srcOpts = sc.Opts
					desc += " | source file: " + sc.Desc
				}
				file, err := c02Write(e, rows, mode, opts, srcOpts, c01Batches(r, n), r)
				detail := map[string]any{"type": e.Name, "config": desc, "mode": mode, "rows": n, "seed_stream": stream, "case_index": k}
				if err != nil {
					ctx.Fail("L1", "write-error mode="+mode+" "+errClass(err), "writing valid rows failed: "+err.Error(), detail)
					continue
				}
				ctx.Hist("lz4raw: encoder level", lv.name)
				if !c02Judge(ctx, d, tmp, e, rows, file, mode, desc, cfg.MaxRows, 5000+k, n, detail, nil) {
					return
				}
				if !c02Lz4Pages(ctx, d, tmp, e.Name, k, file, detail) {
					return
				}
			}
		}(e)
	}
	wg.Wait()
}

// c02Lz4Pages: every page of every LZ4_RAW chunk of one file, as the Lean reader sees it, against
// the real decoder. false = the driver is gone.
func c02Lz4Pages(ctx *core.Ctx, d *drv.Driver, tmp, name string, k int, file []byte, detail map[string]any) bool {
	path := filepath.Join(tmp, fmt.Sprintf("%s-%d-pages.parquet", name, k))
	if err := os.WriteFile(path, file, 0o644); err != nil {
		ctx.Fail("L2", "tmp-write", err.Error(), nil)
		return true
	}
	abs, _ := filepath.Abs(path)
	ans, err := d.Ask("lz4raw.pages " + abs)
	os.Remove(path)
	if err != nil {
		ctx.Fail("L2", "driver-error", err.Error(), nil)
		return false
	}
	with := func(extra map[string]any) map[string]any {
		m := map[string]any{}
		for k, v := range detail {
			m[k] = v
		}
		for k, v := range extra {
			m[k] = v
		}
		return m
	}
	if !strings.HasPrefix(ans, "ok ") {
		ctx.Fail("L1", "lz4raw-pages-unreadable: "+c02Class(ans), "the spec reader cannot walk the LZ4_RAW chunks of the file: "+ans, with(map[string]any{"answer": ans}))
		return true
	}
	if ans == "ok -" {
		ctx.Hist("lz4raw: files", "no LZ4_RAW page (no rows, or every field carries its own codec tag)")
		return true
	}
	ctx.Hist("lz4raw: files", "with LZ4_RAW pages")
	codec := &lz4.Codec{}
	for _, pg := range strings.Split(ans[3:], " ") {
		f := strings.Split(pg, ":")
		if len(f) != 8 {
			ctx.Fail("L2", "lz4raw-pages-answer", "malformed page record: "+pg, with(nil))
			continue
		}
		tag, kind, verdict, outHex := f[0], f[1], f[6], f[7]
		pos, _ := strconv.Atoi(f[2])
		ln, _ := strconv.Atoi(f[3])
		comp := f[4] == "1"
		want, _ := strconv.Atoi(f[5])
		if pos < 0 || ln < 0 || pos+ln > len(file) {
			ctx.Fail("L2", "lz4raw-pages-answer", "page part outside the file: "+pg, with(nil))
			continue
		}
		stored := file[pos : pos+ln]
		pd := with(map[string]any{"page": tag, "page_kind": kind, "stored_pos": pos, "stored_len": ln, "stored_hex": hex.EncodeToString(stored), "verdict": verdict})
		kindName := map[string]string{"d": "dictionary page", "1": "data page v1", "2": "data page v2 (values part)"}[kind]
		if !comp {
			ctx.Hist("lz4raw: page parts", kindName+", stored uncompressed (is_compressed=false)")
			ctx.Case("lz4raw-page "+name+fmt.Sprint(k)+tag, false)
			if got, _ := hex.DecodeString(strings.TrimPrefix(outHex, "-")); !bytes.Equal(got, stored) {
				ctx.Fail("L2", "lz4raw-uncompressed-part-changed", "partBytes changed a part that is stored uncompressed", pd)
			}
			continue
		}
		// the real decoder, destination dirty and of varying capacity
		dst := bytes.Repeat([]byte{0xFF}, (pos*7+ln)%(3*ln+17))
		real, rerr := func() (out []byte, err error) {
			defer func() {
				if x := recover(); x != nil {
					err = fmt.Errorf("PANIC: %v", x)
				}
			}()
			return codec.Decode(dst[:0], stored)
		}()
		if rerr != nil {
			ctx.Fail("L1", "lz4raw-real-decoder-rejects-stored-block", "the library's LZ4_RAW decoder rejects a block the library wrote: "+rerr.Error(), pd)
			ctx.Case("lz4raw-page "+name+fmt.Sprint(k)+tag, true)
			continue
		}
		if len(real) != want {
			pd["real_len"], pd["header_leaves"] = len(real), want
			ctx.Fail("L1", "lz4raw-uncompressed-size "+kindName, "the stored block decompresses to another size than uncompressed_page_size leaves for it", pd)
		}
		// L2: the Lean file reader's decompression step against the real decoder
		switch {
		case outHex == "err":
			ctx.Fail("L2", "lz4raw-lean-reader-rejects-stored-block", "Spec.partBytes rejects a stored block the real decoder accepts", pd)
		case outHex == "-":
			if len(real) != 0 {
				ctx.Fail("L2", "lz4raw-part-differs-from-real-decoder", "Spec.partBytes returns nothing, the real decoder bytes", pd)
			}
		default:
			if got, herr := hex.DecodeString(outHex); herr != nil || !bytes.Equal(got, real) {
				pd["lean_hex"], pd["real_hex"] = outHex, hex.EncodeToString(real)
				ctx.Fail("L2", "lz4raw-part-differs-from-real-decoder", "Spec.partBytes and compress/lz4.Codec.Decode return different bytes for the same stored block", pd)
			}
		}
		// L1: the stored block lies in the domain of the theorem
		if ln == 0 {
			ctx.Hist("lz4raw: page parts", kindName+", empty block (empty part)")
			ctx.Case("lz4raw-page "+name+fmt.Sprint(k)+tag, false)
			continue
		}
		nseq, flags := -1, map[string]string{}
		for _, kv := range strings.Split(verdict, ",") {
			if i := strings.Index(kv, "="); i > 0 {
				flags[kv[:i]] = kv[i+1:]
			}
		}
		if v, ok := flags["n"]; ok {
			nseq, _ = strconv.Atoi(v)
		}
		switch {
		case nseq < 0:
			ctx.Fail("L1", "lz4raw-stored-block-unparsable", "the stored block does not split into LZ4 sequences", pd)
		case flags["canon"] != "1":
			ctx.Fail("L1", "lz4raw-stored-block-not-canonical", "the stored block is not the encoding of its sequences (non-minimal length field or trailing bytes)", pd)
		case flags["w"] != "1":
			ctx.Fail("L1", "lz4raw-stored-block-unwritable", "a match of the stored block has offset 0 or reaches before the start of the output", pd)
		case flags["e"] != "1":
			ctx.Fail("L1", "lz4raw-stored-block-end-rules", "the stored block violates the end-of-block restrictions of the LZ4 block format", pd)
		}
		ctx.Case("lz4raw-page "+name+fmt.Sprint(k)+tag, nseq > 0)
		ctx.Hist("lz4raw: page parts", kindName+", LZ4 block")
		b := "0 (literals only)"
		switch {
		case nseq >= 100:
			b = ">= 100"
		case nseq >= 10:
			b = "10..99"
		case nseq >= 2:
			b = "2..9"
		case nseq == 1:
			b = "1"
		}
		ctx.Hist("lz4raw: sequences with a match per block", b)
		if flags["ovl"] == "1" {
			ctx.Hist("lz4raw: block features", "overlapping match (offset < length)")
		}
		if flags["x"] == "1" {
			ctx.Hist("lz4raw: block features", "length extension bytes (a length >= 15)")
		}
		sz := "< 64 B"
		switch {
		case len(real) >= 65536:
			sz = ">= 64 KiB"
		case len(real) >= 4096:
			sz = "4 KiB..64 KiB"
		case len(real) >= 512:
			sz = "512 B..4 KiB"
		case len(real) >= 64:
			sz = "64..511 B"
		}
		ctx.Hist("lz4raw: uncompressed size of the part", sz)
	}
	return true
}
