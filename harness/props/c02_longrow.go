package props

import (
	"fmt"
	"os"
	"path/filepath"
	"reflect"
	"sync"

	"github.com/parquet-go/parquet-go"

	"verifharness/core"
	"verifharness/drv"
	"verifharness/gen"
)

func init() { RegisterSub("C02", "longrow", RunC02LongRow) }

// c02LongLens: lengths of the one long list of a row, around every power-of-two multiple of the
// value batch sizes the write paths use (170-value row buffers, 1024-value column copies that
// double while one row fills them): a row that is longer than whatever buffer a path holds must
// still end up in pages that begin at a row boundary.
var c02LongSmall = []int{1023, 1024, 1025, 2047, 2048, 2049, 4095, 4097, 8191, 8193, 16383, 16385, 32767, 32769}
var c02LongLarge = []int{65535, 65536, 65537, 66000, 70001, 98305, 131071, 131072, 131073}

// c02HasLongList: does Fill give this type a long list (a slice of scalars somewhere)?
func c02HasLongList(t reflect.Type) bool {
	switch t.Kind() {
	case reflect.Ptr:
		return c02HasLongList(t.Elem())
	case reflect.Struct:
		if t.PkgPath() == "time" {
			return false
		}
		for i := 0; i < t.NumField(); i++ {
			if c02HasLongList(t.Field(i).Type) {
				return true
			}
		}
	case reflect.Slice:
		switch t.Elem().Kind() {
		case reflect.Uint8:
			return false
		case reflect.Struct, reflect.Slice, reflect.Ptr, reflect.Map:
			// a long list below a repeated ancestor multiplies out: top-level lists only
			return false
		}
		return true
	}
	return false
}

// RunC02LongRow: files holding one row whose repeated leaf has more values than any batch buffer
// of the write paths, through every way a file comes into being (c02Modes), judged like every
// other C02 file (spec reader clauses, counts, decoded streams).
func RunC02LongRow(ctx *core.Ctx) {
	tmp := filepath.Join(".build", "tmp", fmt.Sprintf("c02lr-%s-%d", ctx.Variant, os.Getpid()))
	os.MkdirAll(tmp, 0o755)
	defer os.RemoveAll(tmp)
	var types []*gen.Entry
	for _, e := range gen.Catalog {
		if c02HasLongList(e.Type) {
			types = append(types, e)
		}
	}
	ntypes := ctx.Scale(6, 12)
	if ntypes > len(types) {
		ntypes = len(types)
	}
	if ntypes < len(types) {
		// a different slice of the catalogue per run seed
		r := ctx.Rand("c02lr/types")
		r.Shuffle(len(types), func(i, j int) { types[i], types[j] = types[j], types[i] })
		types = types[:ntypes]
	}
	modes := []string{"direct", "reset-reuse", "copy-from-file", "copy-from-buffer", "reencode-from-file"}
	var wg sync.WaitGroup
	// a pool of model processes shared by the workers (one per worker at a time)
	const nworkers = 16
	pool := make(chan *drv.Driver, nworkers)
	for i := 0; i < nworkers; i++ {
		d := ctx.Driver()
		if d == nil {
			return
		}
		pool <- d
	}
	sem := make(chan struct{}, nworkers)
	for _, e := range types {
		for mi, mode := range modes {
			wg.Add(1)
			sem <- struct{}{}
			go func(e *gen.Entry, mi int, mode string) {
				defer wg.Done()
				defer func() { <-sem }()
				d := <-pool
				defer func() { pool <- d }()
				stream := fmt.Sprintf("c02lr/%s/%s", e.Name, mode)
				r := ctx.Rand(stream)
				for k := 0; k < ctx.Scale(2, 4); k++ {
					// even cases: a length up to 32 Ki; odd cases: 64 Ki and beyond
					long := c02LongSmall[r.Intn(len(c02LongSmall))]
					if k%2 == 1 {
						// the quick tier stops short of the 128 Ki boundary (cost of the list-based spec decoders)
						long = c02LongLarge[r.Intn(ctx.Scale(6, len(c02LongLarge)))]
					}
					n := 1 + r.Intn(4)
					which := r.Intn(n) // the row that is long
					rows := e.NewRows(n)
					gen.FillRows(r, rows, &gen.Profile{NullProb: 0.2, MaxLen: 3, SmallDomain: r.Intn(2) == 0})
					for tries := 0; tries < 8; tries++ {
						lp := &gen.Profile{NullProb: 0.2, MaxLen: 3, SmallDomain: r.Intn(2) == 0, LongLists: true, LongLen: long}
						gen.FillRows(r, rows.Slice(which, which+1), lp)
						if lp.LongUsed() {
							break
						}
					}
					cfg := gen.RandWriterCfg(r)
					if r.Intn(2) == 0 {
						cfg = gen.PlainWriterCfg(r) // default page and row-group limits
					}
					opts, desc := cfg.Opts, cfg.Desc
					if x := r.Intn(10); x < 6 {
						name := []string{"none", "snappy", "gzip"}[x%3]
						opts = append(append([]parquet.WriterOption{}, opts...), parquet.Compression(gen.Codecs[name]))
						desc += " filecodec=" + name
					}
					var srcOpts []parquet.WriterOption
					if mode == "reencode-from-file" {
						sc := gen.RandWriterCfg(r)
						srcOpts = sc.Opts
						desc += " | source file: " + sc.Desc
					}
					desc += fmt.Sprintf(" longrow=%d/%d len=%d", which, n, long)
					file, err := c02Write(e, rows, mode, opts, srcOpts, nil, r)
					detail := map[string]any{"type": e.Name, "config": desc, "mode": mode, "rows": n, "long_row": which, "long_list_len": long, "seed_stream": stream, "case_index": k}
					ctx.Hist("longrow length", fmt.Sprint(long))
					if err != nil {
						ctx.Fail("L1", "write-error mode="+mode+" "+errClass(err), "writing valid rows failed: "+err.Error(), detail)
						continue
					}
					if !c02Judge(ctx, d, tmp, e, rows, file, mode, desc, cfg.MaxRows, 1000*(mi+1)+k, n, detail, nil) {
						return
					}
				}
			}(e, mi, mode)
		}
	}
	wg.Wait()
}
