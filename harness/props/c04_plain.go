package props

// C04, part "plain": PLAIN, BYTE_STREAM_SPLIT (encoding/plain, encoding/bytestreamsplit,
// encoding/values.go) and the dictionary types of the root package.
//
// L1 (the property itself, oracle independent of the mirror):
//   - the Lean SPEC decoder applied to the bytes the Go encoder produced returns the input;
//   - Go Decode(Encode(xs)) == xs bit-exactly (floats are compared as bit patterns);
//   - Dictionary: Index(i)/Lookup of every returned index is the inserted value bit-exactly, the
//     indexes are first-occurrence order (harness-side map oracle), Len is the number of distinct
//     values, Page() PLAIN-encodes to what the SPEC decoder reads back as the distinct values;
//   - malformed PLAIN BYTE_ARRAY streams: the Go decoder reports an error whenever the SPEC decoder
//     rejects the stream, never panics, never returns other values.
// L2 (mirror): Go bytes == Lean mirror bytes; Go dictionary indexes/content == Lean model;
//   Go BYTE_ARRAY decoder outcome (ok/err/panic) == Lean mirror of that decoder.

import (
	"bytes"
	"context"
	"encoding/binary"
	"encoding/hex"
	"fmt"
	"math"
	"math/big"
	"math/rand"
	"os"
	"os/exec"
	"runtime"
	"strconv"
	"strings"
	"sync"
	"time"

	"github.com/parquet-go/parquet-go"
	"github.com/parquet-go/parquet-go/deprecated"
	"github.com/parquet-go/parquet-go/encoding"
	"github.com/parquet-go/parquet-go/encoding/bytestreamsplit"
	"github.com/parquet-go/parquet-go/encoding/plain"

	"verifharness/core"
	"verifharness/drv"
)

func init() {
	RegisterSub("C04", "plain", RunC04Plain)
	workers["c04plain-emptyinsert"] = c4WorkerEmptyInsert
}

// ------------------------------------------------------------------ kinds and canonical values

// A value is carried as its canonical bytes: the little-endian bytes of the bit pattern for the
// numeric kinds (4, 8, 12 bytes), the raw bytes for bytes/flba, one byte 0/1 for bool.
type c4kind struct {
	name  string // bool int32 int64 int96 float double bytes flba
	width int    // bytes per value (flba: the size); 0 for bytes; 1 for bool
}

var (
	c4Bool   = c4kind{"bool", 1}
	c4Int32  = c4kind{"int32", 4}
	c4Int64  = c4kind{"int64", 8}
	c4Int96  = c4kind{"int96", 12}
	c4Float  = c4kind{"float", 4}
	c4Double = c4kind{"double", 8}
	c4Bytes  = c4kind{"bytes", 0}
)

func c4FLBA(n int) c4kind { return c4kind{"flba", n} }

func c4f32(b uint32) float32    { return math.Float32frombits(b) }
func c4f64(b uint64) float64    { return math.Float64frombits(b) }
func c4bits32(f float32) uint32 { return math.Float32bits(f) }
func c4bits64(f float64) uint64 { return math.Float64bits(f) }

func (k c4kind) numeric() bool {
	switch k.name {
	case "int32", "int64", "int96", "float", "double":
		return true
	}
	return false
}

func (k c4kind) String() string {
	if k.name == "flba" {
		return fmt.Sprintf("flba:%d", k.width)
	}
	return k.name
}

func c4leDecimal(b []byte) string {
	if len(b) <= 8 {
		var x uint64
		for i := len(b) - 1; i >= 0; i-- {
			x = x<<8 | uint64(b[i])
		}
		return strconv.FormatUint(x, 10)
	}
	be := make([]byte, len(b))
	for i := range b {
		be[len(b)-1-i] = b[i]
	}
	return new(big.Int).SetBytes(be).String()
}

// driver token of one value
func c4tok(k c4kind, v []byte) string {
	switch {
	case k.name == "bool":
		if v[0] != 0 {
			return "1"
		}
		return "0"
	case k.numeric():
		return c4leDecimal(v)
	default:
		if len(v) == 0 {
			return "e"
		}
		return hex.EncodeToString(v)
	}
}

func c4toks(k c4kind, vals [][]byte) string {
	if len(vals) == 0 {
		return "-"
	}
	var sb strings.Builder
	for i, v := range vals {
		if i > 0 {
			sb.WriteByte(',')
		}
		sb.WriteString(c4tok(k, v))
	}
	return sb.String()
}

func c4hexToks(vals [][]byte) string { return c4toks(c4Bytes, vals) }

func c4packBools(vals [][]byte) []byte {
	out := make([]byte, (len(vals)+7)/8)
	for i, v := range vals {
		if v[0] != 0 {
			out[i/8] |= 1 << uint(i%8)
		}
	}
	return out
}

// encoding.Values over raw memory (what the library itself does: makeValues stores the bytes)
func c4Values(k c4kind, vals [][]byte, base uint32) encoding.Values {
	switch k.name {
	case "bool":
		return encoding.BooleanValues(c4packBools(vals))
	case "bytes":
		data := make([]byte, base, int(base)+16)
		for i := range data {
			data[i] = 0xEE
		}
		offsets := []uint32{base}
		for _, v := range vals {
			data = append(data, v...)
			offsets = append(offsets, uint32(len(data)))
		}
		if len(vals) == 0 && base == 0 {
			offsets = nil
		}
		return encoding.ByteArrayValues(data, offsets)
	}
	raw := bytes.Join(vals, nil)
	switch k.name {
	case "int32":
		return encoding.Int32ValuesFromBytes(raw)
	case "int64":
		return encoding.Int64ValuesFromBytes(raw)
	case "int96":
		return encoding.Int96ValuesFromBytes(raw)
	case "float":
		return encoding.FloatValuesFromBytes(raw)
	case "double":
		return encoding.DoubleValuesFromBytes(raw)
	case "flba":
		return encoding.FixedLenByteArrayValues(raw, k.width)
	}
	panic("kind")
}

func c4Encode(k c4kind, enc encoding.Encoding, dst []byte, src encoding.Values) ([]byte, error) {
	switch k.name {
	case "bool":
		return encoding.EncodeBoolean(dst, src, enc)
	case "int32":
		return encoding.EncodeInt32(dst, src, enc)
	case "int64":
		return encoding.EncodeInt64(dst, src, enc)
	case "int96":
		return encoding.EncodeInt96(dst, src, enc)
	case "float":
		return encoding.EncodeFloat(dst, src, enc)
	case "double":
		return encoding.EncodeDouble(dst, src, enc)
	case "bytes":
		return encoding.EncodeByteArray(dst, src, enc)
	case "flba":
		return encoding.EncodeFixedLenByteArray(dst, src, enc)
	}
	panic("kind")
}

func c4Decode(k c4kind, enc encoding.Encoding, dst encoding.Values, src []byte) (encoding.Values, error) {
	switch k.name {
	case "bool":
		return encoding.DecodeBoolean(dst, src, enc)
	case "int32":
		return encoding.DecodeInt32(dst, src, enc)
	case "int64":
		return encoding.DecodeInt64(dst, src, enc)
	case "int96":
		return encoding.DecodeInt96(dst, src, enc)
	case "float":
		return encoding.DecodeFloat(dst, src, enc)
	case "double":
		return encoding.DecodeDouble(dst, src, enc)
	case "bytes":
		return encoding.DecodeByteArray(dst, src, enc)
	case "flba":
		return encoding.DecodeFixedLenByteArray(dst, src, enc)
	}
	panic("kind")
}

// dirty destination Values for Decode: previous content 0xFF, length and capacity around `need` bytes
func c4DirtyValues(k c4kind, r *rand.Rand, need int) (encoding.Values, string) {
	raw, how := c4DirtyBytes(r, need, 8)
	switch k.name {
	case "bool":
		return encoding.BooleanValues(raw), how
	case "bytes":
		var offs []uint32
		if r.Intn(2) == 0 {
			offs = make([]uint32, r.Intn(5), 8)
			for i := range offs {
				offs[i] = 0xFFFFFFFF
			}
		}
		return encoding.ByteArrayValues(raw, offs), how
	case "int32":
		return encoding.Int32ValuesFromBytes(raw), how
	case "int64":
		return encoding.Int64ValuesFromBytes(raw), how
	case "int96":
		return encoding.Int96ValuesFromBytes(raw), how
	case "float":
		return encoding.FloatValuesFromBytes(raw), how
	case "double":
		return encoding.DoubleValuesFromBytes(raw), how
	case "flba":
		return encoding.FixedLenByteArrayValues(raw, k.width), how
	}
	panic("kind")
}

// c4DirtyBytes returns a destination buffer: nil, or 0xFF-filled with a capacity smaller or larger
// than `need`, length anywhere in it (multiples of `align` so typed views stay aligned).
func c4DirtyBytes(r *rand.Rand, need, align int) ([]byte, string) {
	var c int
	var how string
	switch r.Intn(5) {
	case 0:
		return nil, "nil"
	case 1:
		c, how = need/2, "cap<need"
	case 2:
		c, how = need, "cap=need"
	case 3:
		c, how = need+1+r.Intn(64), "cap>need"
	default:
		c, how = 4*need+r.Intn(256), "cap>>need"
	}
	c = (c + align - 1) / align * align
	buf := make([]byte, c)
	for i := range buf {
		buf[i] = 0xFF
	}
	l := 0
	if c > 0 {
		l = r.Intn(c/align+1) * align
	}
	return buf[:l], how
}

// canonical values out of decoded Values
func c4FromValues(k c4kind, v encoding.Values, n int) ([][]byte, error) {
	data, offsets := v.Data()
	switch k.name {
	case "bool":
		if len(data)*8 < n {
			return nil, fmt.Errorf("decoded %d bytes for %d booleans", len(data), n)
		}
		out := make([][]byte, n)
		for i := range out {
			out[i] = []byte{(data[i/8] >> uint(i%8)) & 1}
		}
		return out, nil
	case "bytes":
		if len(offsets) == 0 {
			return nil, nil
		}
		out := make([][]byte, 0, len(offsets)-1)
		for i := 0; i+1 < len(offsets); i++ {
			if offsets[i] > offsets[i+1] || int(offsets[i+1]) > len(data) {
				return nil, fmt.Errorf("bad offsets %v for %d bytes", offsets, len(data))
			}
			out = append(out, bytes.Clone(data[offsets[i]:offsets[i+1]]))
		}
		return out, nil
	}
	if k.width == 0 || len(data)%k.width != 0 {
		return nil, fmt.Errorf("decoded %d bytes, not a multiple of %d", len(data), k.width)
	}
	out := make([][]byte, 0, len(data)/k.width)
	for i := 0; i < len(data); i += k.width {
		out = append(out, bytes.Clone(data[i:i+k.width]))
	}
	return out, nil
}

func c4Equal(a, b [][]byte) bool {
	if len(a) != len(b) {
		return false
	}
	for i := range a {
		if !bytes.Equal(a[i], b[i]) {
			return false
		}
	}
	return true
}

// ------------------------------------------------------------------ generators

var c4Lens = []int{0, 1, 2, 3, 4, 5, 7, 8, 9, 15, 16, 17, 31, 32, 33, 47, 48, 49, 63, 64, 65, 95, 96, 97, 127, 128, 129, 255, 256, 257}

func c4Len(r *rand.Rand, max int) int {
	switch r.Intn(10) {
	case 0, 1, 2, 3, 4:
		return c4Lens[r.Intn(len(c4Lens))]
	case 5, 6, 7:
		return r.Intn(70)
	case 8:
		return r.Intn(max + 1)
	default:
		n := []int{511, 512, 513, 1023, 1024, 1025}[r.Intn(6)]
		if n > max {
			n = max
		}
		return n
	}
}

var c4Pool32 = []uint32{0, 1, 2, 0x7F, 0x80, 0xFF, 0x100, 0x7FFF, 0x8000, 0xFFFF, 0x10000, 0x7FFFFFFF, 0x80000000, 0x80000001, 0xFFFFFFFE, 0xFFFFFFFF,
	// float32 patterns: -0.0, +-inf, quiet/signalling NaNs with payloads, denormals, max
	0x3F800000, 0xBF800000, 0x7F800000, 0xFF800000, 0x7FC00000, 0xFFC00000, 0x7F800001, 0x7FBFFFFF, 0x7FC00001, 0xFFC12345, 0x7F8572B1, 0x00000001, 0x007FFFFF, 0x00800000, 0x7F7FFFFF}

var c4Pool64 = []uint64{0, 1, 0xFF, 0x100, 0xFFFFFFFF, 0x100000000, 0x7FFFFFFFFFFFFFFF, 0x8000000000000000, 0x8000000000000001, 0xFFFFFFFFFFFFFFFE, 0xFFFFFFFFFFFFFFFF,
	0x3FF0000000000000, 0xBFF0000000000000, 0x7FF0000000000000, 0xFFF0000000000000, 0x7FF8000000000000, 0xFFF8000000000000, 0x7FF0000000000001, 0x7FF7FFFFFFFFFFFF, 0x7FF8000000000001, 0xFFF8123456789ABC,
	0x0000000000000001, 0x000FFFFFFFFFFFFF, 0x0010000000000000, 0x7FEFFFFFFFFFFFFF}

// one value of kind k; mode 0 = boundary pool, 1 = small alphabet, 2 = uniform
func c4Value(k c4kind, r *rand.Rand, mode int) []byte {
	switch k.name {
	case "bool":
		return []byte{byte(r.Intn(2))}
	case "int32", "float":
		var x uint32
		switch mode {
		case 0:
			x = c4Pool32[r.Intn(len(c4Pool32))]
		case 1:
			x = []uint32{0, 0x80000000, 0x7FC00000, 0x7FC00001, 7, 0xFFFFFFFF}[r.Intn(6)]
		default:
			x = r.Uint32()
		}
		return binary.LittleEndian.AppendUint32(nil, x)
	case "int64", "double":
		var x uint64
		switch mode {
		case 0:
			x = c4Pool64[r.Intn(len(c4Pool64))]
		case 1:
			x = []uint64{0, 0x8000000000000000, 0x7FF8000000000000, 0x7FF8000000000001, 7, 0xFFFFFFFFFFFFFFFF}[r.Intn(6)]
		default:
			x = r.Uint64()
		}
		return binary.LittleEndian.AppendUint64(nil, x)
	case "int96":
		b := make([]byte, 12)
		for w := 0; w < 3; w++ {
			var x uint32
			switch mode {
			case 0:
				x = c4Pool32[r.Intn(16)]
			case 1:
				x = uint32(r.Intn(2))
			default:
				x = r.Uint32()
			}
			binary.LittleEndian.PutUint32(b[4*w:], x)
		}
		return b
	case "flba":
		b := make([]byte, k.width)
		switch mode {
		case 0:
			f := []byte{0, 0xFF, 0x80, 0x7F}[r.Intn(4)]
			for i := range b {
				b[i] = f
			}
			if len(b) > 0 && r.Intn(2) == 0 {
				b[r.Intn(len(b))] ^= 1
			}
		case 1:
			if len(b) > 0 {
				b[len(b)-1] = byte(r.Intn(3))
			}
		default:
			r.Read(b)
		}
		return b
	case "bytes":
		var n int
		switch r.Intn(8) {
		case 0:
			n = 0
		case 1:
			n = 1
		case 2:
			n = []int{3, 4, 5, 255, 256, 257}[r.Intn(6)]
		case 3:
			if r.Intn(4) == 0 {
				n = r.Intn(600)
			} else {
				n = r.Intn(40)
			}
		default:
			n = r.Intn(12)
		}
		if mode == 1 {
			n = r.Intn(3)
		}
		b := make([]byte, n)
		switch mode {
		case 0:
			f := []byte{0, 0xFF}[r.Intn(2)]
			for i := range b {
				b[i] = f
			}
		case 1:
			for i := range b {
				b[i] = byte('a' + r.Intn(2))
			}
		default:
			r.Read(b)
		}
		return b
	}
	panic("kind")
}

func c4ValuesGen(k c4kind, r *rand.Rand, n int) [][]byte {
	mode := r.Intn(3)
	mixed := r.Intn(4) == 0
	out := make([][]byte, n)
	for i := range out {
		m := mode
		if mixed {
			m = r.Intn(3)
		}
		out[i] = c4Value(k, r, m)
	}
	if k.name == "bytes" && n > 0 && r.Intn(60) == 0 { // one long value
		b := make([]byte, 60000+r.Intn(10000))
		r.Read(b)
		out[r.Intn(n)] = b
	}
	return out
}

// ------------------------------------------------------------------ batching of driver requests

type c4batch struct {
	ctx     *core.Ctx
	d       *drv.Driver
	reqs    []string
	pend    []func(string)
	variant string
}

func (b *c4batch) ask(req string, f func(ans string)) {
	b.reqs = append(b.reqs, req)
	b.pend = append(b.pend, f)
	if len(b.reqs) >= 1500 {
		b.flush()
	}
}

func (b *c4batch) flush() {
	if len(b.reqs) == 0 {
		return
	}
	if b.d == nil {
		b.reqs, b.pend = b.reqs[:0], b.pend[:0]
		return
	}
	ans, err := b.d.AskMany(b.reqs)
	if err != nil {
		b.ctx.Fail("L2", "driver-error", err.Error(), nil)
	}
	for i, a := range ans {
		b.pend[i](a)
	}
	b.reqs, b.pend = b.reqs[:0], b.pend[:0]
}

func c4short(s string) string {
	if len(s) > 4000 {
		return s[:4000] + fmt.Sprintf("...(%d chars)", len(s))
	}
	return s
}

// ------------------------------------------------------------------ encode / decode cases

type c4worker struct {
	b    *c4batch
	r    *rand.Rand
	prev []byte // output of an earlier, unrelated Encode call, reused as dst (history)
}

func (w *c4worker) dst(need int) ([]byte, string) {
	if w.prev != nil && w.r.Intn(3) == 0 {
		return w.prev, "previous-output"
	}
	return c4DirtyBytes(w.r, need, 1)
}

// one PLAIN or BYTE_STREAM_SPLIT case
func (w *c4worker) codecCase(encName string, k c4kind, vals [][]byte) {
	ctx := w.b.ctx
	var enc encoding.Encoding
	if encName == "plain" {
		enc = new(plain.Encoding)
	} else {
		enc = new(bytestreamsplit.Encoding)
	}
	toks := c4toks(k, vals)
	canon := encName + " " + k.String() + " " + toks
	ctx.Case(canon, len(vals) >= 2)
	ctx.Hist(encName+".type", k.String())
	ctx.Hist(encName+".len", c4lenClass(len(vals)))
	sig := encName + "-" + k.name
	base := uint32(0)
	if k.name == "bytes" && w.r.Intn(3) == 0 {
		base = uint32(1 + w.r.Intn(9))
	}
	src := c4Values(k, vals, base)
	need := 0
	for _, v := range vals {
		need += len(v) + 4
	}
	dst, how := w.dst(need)
	ctx.Hist("dst", how)
	detail := func(extra map[string]any) map[string]any {
		m := map[string]any{"encoding": encName, "type": k.String(), "values": c4short(toks), "dst": how, "variant": w.b.variant}
		for kk, v := range extra {
			m[kk] = v
		}
		return m
	}
	var out []byte
	var err error
	func() {
		defer func() {
			if p := recover(); p != nil {
				err = fmt.Errorf("panic: %v", p)
			}
		}()
		out, err = c4Encode(k, enc, dst, src)
	}()
	if err != nil {
		ctx.Fail("L1", sig+"-encode-error", "Encode of a valid input failed: "+err.Error(), detail(nil))
		return
	}
	outHex := core.Hex(out)
	goBytes := bytes.Clone(out)
	w.prev = out

	// L1a: the independent (SPEC) decoder on the Go bytes
	var specReq, want string
	switch {
	case encName == "plain" && k.name == "bool":
		specReq, want = fmt.Sprintf("plain.specdec bool:%d %s", len(vals), outHex), "ok "+toks
	case encName == "plain":
		specReq, want = fmt.Sprintf("plain.specdec %s %s", k.String(), outHex), "ok "+toks
	default:
		specReq, want = fmt.Sprintf("bss.specdec %d %s", k.width, outHex), "ok "+c4hexToks(vals)
	}
	w.b.ask(specReq, func(ans string) {
		if ans != want {
			ctx.Fail("L1", sig+"-spec-decoder-disagrees", "the SPEC decoder does not read the input back from the bytes Go encoded",
				detail(map[string]any{"go_bytes": c4short(outHex), "spec_decoded": c4short(ans)}))
		}
	})

	// L1b: Go Decode(Encode(xs)) == xs, into a dirty destination
	ddst, dhow := c4DirtyValues(k, w.r, need)
	ctx.Hist("decode-dst", dhow)
	var back [][]byte
	func() {
		defer func() {
			if p := recover(); p != nil {
				err = fmt.Errorf("panic: %v", p)
			}
		}()
		var dv encoding.Values
		dv, err = c4Decode(k, enc, ddst, goBytes)
		if err == nil {
			back, err = c4FromValues(k, dv, len(vals))
		}
	}()
	if err != nil {
		ctx.Fail("L1", sig+"-decode-error", "Decode(Encode(xs)) failed: "+err.Error(), detail(map[string]any{"go_bytes": c4short(outHex), "decode_dst": dhow}))
	} else if !c4Equal(back, vals) {
		ctx.Fail("L1", sig+"-roundtrip", "Decode(Encode(xs)) != xs (bit patterns)", detail(map[string]any{"go_bytes": c4short(outHex), "decoded": c4short(c4toks(k, back)), "decode_dst": dhow}))
	}

	// L2: the Lean mirror of the encoder
	var encReq string
	switch {
	case encName == "plain" && k.name == "bool":
		encReq = "" // EncodeBoolean copies already packed bits; the packer is checked in appendBoolCase
	case encName == "plain" && k.name == "flba":
		encReq = "plain.enc flba " + toks
	case encName == "plain":
		encReq = "plain.enc " + k.name + " " + toks
	default:
		encReq = fmt.Sprintf("bss.enc %d %s", k.width, c4hexToks(vals))
	}
	if encReq != "" {
		w.b.ask(encReq, func(ans string) {
			if ans != "ok "+outHex {
				ctx.Fail("L2", sig+"-mirror", "Go encoder bytes differ from the Lean mirror",
					detail(map[string]any{"go_bytes": c4short(outHex), "model": c4short(ans)}))
			}
		})
	}
}

func c4lenClass(n int) string {
	switch {
	case n <= 9:
		return strconv.Itoa(n)
	case n <= 33:
		return "10..33"
	case n <= 65:
		return "34..65"
	case n <= 129:
		return "66..129"
	case n <= 257:
		return "130..257"
	case n <= 1025:
		return "258..1025"
	default:
		return ">1025"
	}
}

// plain.AppendBoolean, the library's bit packer, against its mirror, with a dirty capacity region
func (w *c4worker) appendBoolCase(vals [][]byte, capacity int, fill byte) {
	ctx := w.b.ctx
	toks := c4toks(c4Bool, vals)
	ctx.Case(fmt.Sprintf("appendbool cap=%d fill=%02x %s", capacity, fill, toks), len(vals) >= 2)
	ctx.Hist("appendbool.len", c4lenClass(len(vals)))
	var b []byte
	stale := []byte{}
	how := "nil"
	if capacity >= 0 {
		buf := make([]byte, capacity)
		for i := range buf {
			buf[i] = fill
			if fill == 0xA5 {
				buf[i] = byte(w.r.Intn(256))
			}
		}
		stale = bytes.Clone(buf)
		b = buf[:0]
		how = "cap>=need"
		if capacity < (len(vals)+7)/8 {
			how = "cap<need"
		}
	}
	ctx.Hist("appendbool.dst", how)
	for n, v := range vals {
		b = plain.AppendBoolean(b, n, v[0] != 0)
	}
	outHex := core.Hex(b)
	detail := map[string]any{"values": c4short(toks), "capacity": capacity, "stale": core.Hex(stale), "go_bytes": outHex, "variant": w.b.variant}
	w.b.ask(fmt.Sprintf("plain.specdec bool:%d %s", len(vals), outHex), func(ans string) {
		if ans != "ok "+toks {
			ctx.Fail("L1", "plain-appendboolean-spec-decoder-disagrees", "bits packed by plain.AppendBoolean are not read back by the SPEC decoder", detail)
		}
	})
	w.b.ask(fmt.Sprintf("plain.enc bool:%s %s", core.Hex(stale), toks), func(ans string) {
		if ans != "ok "+outHex {
			d2 := map[string]any{"model": ans}
			for k, v := range detail {
				d2[k] = v
			}
			ctx.Fail("L2", "plain-appendboolean-mirror", "plain.AppendBoolean bytes differ from the Lean mirror", d2)
		}
	})
}

// booleans through the exported column buffer (the other bit packer of the library), L1 only
func (w *c4worker) boolColumnCase(vals [][]byte, cuts []int) {
	ctx := w.b.ctx
	toks := c4toks(c4Bool, vals)
	ctx.Case(fmt.Sprintf("boolcolumn %v %s", cuts, toks), len(vals) >= 2)
	col := parquet.BooleanType.NewColumnBuffer(0, w.r.Intn(64))
	pv := make([]parquet.Value, len(vals))
	for i, v := range vals {
		pv[i] = parquet.BooleanValue(v[0] != 0)
	}
	i := 0
	for _, c := range cuts {
		j := min(i+c, len(pv))
		col.WriteValues(pv[i:j])
		i = j
	}
	col.WriteValues(pv[i:])
	out, err := encoding.EncodeBoolean(nil, col.Page().Data(), new(plain.Encoding))
	if err != nil {
		ctx.Fail("L1", "plain-bool-column-encode-error", err.Error(), map[string]any{"values": toks, "cuts": cuts})
		return
	}
	outHex := core.Hex(out)
	w.b.ask(fmt.Sprintf("plain.specdec bool:%d %s", len(vals), outHex), func(ans string) {
		if ans != "ok "+toks {
			ctx.Fail("L1", "plain-bool-column-spec-decoder-disagrees", "booleans written in batches to a column buffer and PLAIN encoded are not read back by the SPEC decoder",
				map[string]any{"values": c4short(toks), "cuts": cuts, "go_bytes": outHex, "spec_decoded": c4short(ans), "variant": w.b.variant})
		}
	})
}

// ------------------------------------------------------------------ malformed BYTE_ARRAY streams

func c4GoDecodeByteArray(src []byte) (res string) {
	defer func() {
		if p := recover(); p != nil {
			res = "panic"
		}
	}()
	dv, err := encoding.DecodeByteArray(encoding.ByteArrayValues(nil, nil), src, new(plain.Encoding))
	if err != nil {
		return "err"
	}
	vals, err := c4FromValues(c4Bytes, dv, 0)
	if err != nil {
		return "bad-offsets"
	}
	return "ok " + c4hexToks(vals)
}

func c4GoRangeByteArray(src []byte) (res string) {
	defer func() {
		if p := recover(); p != nil {
			res = "panic"
		}
	}()
	var vals [][]byte
	err := plain.RangeByteArray(src, func(v []byte) error { vals = append(vals, bytes.Clone(v)); return nil })
	if err != nil {
		return "err"
	}
	return "ok " + c4hexToks(vals)
}

func (w *c4worker) malformedCase(stream []byte, origin string) {
	ctx := w.b.ctx
	sHex := core.Hex(stream)
	ctx.Case("malformed-bytes "+sHex, len(stream) >= 5)
	ctx.Hist("malformed.origin", origin)
	tight := make([]byte, len(stream))
	copy(tight, stream)
	goTight := c4GoDecodeByteArray(tight[:len(tight):len(tight)])
	// the same stream at the head of a larger buffer whose tail holds other data
	big := make([]byte, len(stream)+64)
	copy(big, stream)
	for i := len(stream); i < len(big); i++ {
		big[i] = 0xAB
	}
	goLoose := c4GoDecodeByteArray(big[:len(stream)])
	goRange := c4GoRangeByteArray(tight[:len(tight):len(tight)])
	ctx.Hist("malformed.go-outcome", strings.SplitN(goTight, " ", 2)[0])
	detail := map[string]any{"stream": c4short(sHex), "origin": origin, "go_tight_buffer": c4short(goTight), "go_larger_capacity": c4short(goLoose), "variant": w.b.variant}
	w.b.ask("plain.specdec bytes "+sHex, func(spec string) {
		detail["spec"] = c4short(spec)
		ctx.Hist("malformed.spec-outcome", strings.SplitN(spec, " ", 2)[0])
		specOK := strings.HasPrefix(spec, "ok ")
		check := func(got, what, key string) {
			switch {
			case got == "panic":
				ctx.Observe(key+"-panics", what+" panics on a malformed PLAIN BYTE_ARRAY stream instead of returning an error", detail)
			case specOK && got != spec:
				ctx.Fail("L1", key+"-wrong-values", what+" does not return the values of a well-formed stream", detail)
			case !specOK && got != "err":
				ctx.Observe(key+"-accepts-malformed", what+" accepts a stream the format rejects (a length prefix runs past the end) and returns bytes from beyond the input", detail)
			}
		}
		check(goTight, "plain DecodeByteArray (tight buffer)", "plain-bytearray-decode-overrun")
		check(goLoose, "plain DecodeByteArray (buffer with spare capacity)", "plain-bytearray-decode-overrun-spare-capacity")
		check(goRange, "plain.RangeByteArray", "plain-rangebytearray")
	})
	w.b.ask("plain.godec bytes "+sHex, func(ans string) {
		if ans != goTight {
			d2 := map[string]any{"model": c4short(ans)}
			for k, v := range detail {
				d2[k] = v
			}
			ctx.Fail("L2", "plain-bytearray-decoder-mirror", "DecodeByteArray outcome differs from its Lean mirror", d2)
		}
	})
}

func (w *c4worker) malformedGen() ([]byte, string) {
	r := w.r
	vals := c4ValuesGen(c4Bytes, r, r.Intn(5))
	for i, v := range vals {
		if len(v) > 40 {
			vals[i] = v[:r.Intn(40)]
		}
	}
	var s []byte
	for _, v := range vals {
		s = plain.AppendByteArray(s, v)
	}
	switch r.Intn(6) {
	case 0:
		return s, "valid"
	case 1:
		if len(s) > 0 {
			s = s[:r.Intn(len(s))]
		}
		return s, "truncated"
	case 2: // enlarge one length prefix a little (the overrun stays near the end of the buffer)
		pos := 0
		idx := 0
		if len(vals) > 0 {
			idx = r.Intn(len(vals))
		}
		for i := 0; i < idx; i++ {
			pos += 4 + len(vals[i])
		}
		if pos+4 <= len(s) {
			n := binary.LittleEndian.Uint32(s[pos:])
			binary.LittleEndian.PutUint32(s[pos:], n+uint32(1+r.Intn(8)))
		}
		return s, "length+k"
	case 3:
		if len(s) >= 4 {
			pos := r.Intn(len(s) - 3)
			binary.LittleEndian.PutUint32(s[pos:], []uint32{0xFFFFFFFF, 0x80000000, 0x7FFFFFFF, uint32(len(s)), uint32(len(s) - 4), uint32(len(s) - 3)}[r.Intn(6)])
		}
		return s, "length-extreme"
	case 4:
		s = append(s, make([]byte, 1+r.Intn(3))...)
		return s, "trailing-partial-prefix"
	default:
		s = make([]byte, r.Intn(24))
		for i := range s {
			s[i] = byte(r.Intn(4))
		}
		return s, "random-small-bytes"
	}
}

// ------------------------------------------------------------------ the Go decoders on arbitrary byte strings

// Every byte string whose length is a multiple of the value width IS a conformant PLAIN /
// BYTE_STREAM_SPLIT encoding (of the values the SPEC decoder reads): the Go decoder must return
// exactly those (L1, independent decoder = Lean SPEC), into a dirty destination; any other length
// is malformed (an accepted one is an observation). L2: outcome and bytes == the Lean mirror of the
// Go decoder (goDecFixed, goDecFLBA, goBssDecFixed, goBssDecFLBA with the destination's content).
func (w *c4worker) decoderCase(encName string, k c4kind, src []byte) {
	ctx := w.b.ctx
	var enc encoding.Encoding
	if encName == "plain" {
		enc = new(plain.Encoding)
	} else {
		enc = new(bytestreamsplit.Encoding)
	}
	srcHex := core.Hex(src)
	ctx.Case("decode "+encName+" "+k.String()+" "+srcHex, len(src) >= 2*k.width)
	wellFormed := len(src)%k.width == 0
	ctx.Hist("decode.type", encName+" "+k.String())
	ctx.Hist("decode.wellformed", fmt.Sprintf("%v", wellFormed))
	ddst, dhow := c4DirtyValues(k, w.r, len(src))
	draw, _ := ddst.Data()
	stale := "-"
	if cap(draw) >= len(src) && len(src) > 0 { // resize() re-slices: the 0xFF filling is what the decoder writes over
		stale = strings.Repeat("ff", len(src))
	}
	detail := func(extra map[string]any) map[string]any {
		m := map[string]any{"encoding": encName, "type": k.String(), "stream": c4short(srcHex), "decode_dst": dhow, "variant": w.b.variant}
		for kk, v := range extra {
			m[kk] = v
		}
		return m
	}
	outcome := ""
	var back [][]byte
	var flat []byte
	func() {
		defer func() {
			if p := recover(); p != nil {
				outcome = fmt.Sprintf("panic: %v", p)
			}
		}()
		dv, err := c4Decode(k, enc, ddst, bytes.Clone(src))
		if err != nil {
			outcome = "err"
			return
		}
		data, _ := dv.Data()
		flat = bytes.Clone(data)
		back, err = c4FromValues(k, dv, 0)
		if err != nil {
			outcome = "bad-result: " + err.Error()
			return
		}
		outcome = "ok"
	}()
	sig := encName + "-" + k.name + "-decoder"
	switch {
	case wellFormed && outcome != "ok":
		ctx.Fail("L1", sig+"-refuses-conformant-stream", "the Go decoder does not read a conformant stream: "+outcome, detail(nil))
	case wellFormed:
		var specReq, want string
		if encName == "plain" {
			specReq, want = fmt.Sprintf("plain.specdec %s %s", k.String(), srcHex), "ok "+c4toks(k, back)
		} else {
			specReq, want = fmt.Sprintf("bss.specdec %d %s", k.width, srcHex), "ok "+c4hexToks(back)
		}
		w.b.ask(specReq, func(ans string) {
			if ans != want {
				ctx.Fail("L1", sig+"-differs-from-spec-decoder", "the Go decoder and the SPEC decoder read different values from the same conformant stream",
					detail(map[string]any{"go": c4short(want), "spec": c4short(ans)}))
			}
		})
	case outcome == "ok":
		ctx.Observe(sig+"-accepts-malformed-length", "a stream whose length is not a multiple of the value width is decoded without error", detail(nil))
	case strings.HasPrefix(outcome, "panic"):
		ctx.Observe(sig+"-panics-on-malformed-length", "a stream whose length is not a multiple of the value width makes the decoder panic", detail(map[string]any{"outcome": outcome}))
	}
	// L2
	goAns := outcome
	var req string
	switch {
	case k.name == "flba" && encName == "plain":
		req = fmt.Sprintf("plain.godecflba %d %s", k.width, srcHex)
		if outcome == "ok" {
			goAns = "ok " + core.Hex(flat)
		}
	case k.name == "flba":
		req = fmt.Sprintf("bss.godecflba %d %s %s", k.width, stale, srcHex)
		if outcome == "ok" {
			goAns = "ok " + core.Hex(flat)
		}
	case encName == "plain":
		req = fmt.Sprintf("plain.godecfixed %d %s", k.width, srcHex)
		if outcome == "ok" {
			goAns = "ok " + c4toks(k, back)
		}
	default:
		req = fmt.Sprintf("bss.godecfixed %d %s", k.width, srcHex)
		if outcome == "ok" {
			goAns = "ok " + c4toks(k, back)
		}
	}
	if strings.HasPrefix(goAns, "panic") {
		goAns = "panic"
	}
	w.b.ask(req, func(ans string) {
		if ans != goAns {
			ctx.Fail("L2", sig+"-mirror", "Go decoder outcome differs from its Lean mirror", detail(map[string]any{"go": c4short(goAns), "mirror": c4short(ans), "stale": c4short(stale)}))
		}
	})
}

// maxBytes bounds the stream: the Lean mirrors written in index form (list indexing, one `set` per
// byte written) are quadratic in the stream length
func (w *c4worker) decoderStream(k c4kind, maxBytes int) []byte {
	r := w.r
	m := []int{0, 1, 2, 3, 7, 8, 9, 15, 16, 17, 31, 32, 33, 63, 64, 65, 127, 128, 129}[r.Intn(19)]
	if r.Intn(6) == 0 {
		m = r.Intn(600)
	}
	if m*k.width > maxBytes {
		m = maxBytes / k.width
	}
	n := m * k.width
	if k.width > 1 && r.Intn(4) == 0 {
		n += 1 + r.Intn(k.width-1)
	}
	s := make([]byte, n)
	switch r.Intn(3) {
	case 0:
		r.Read(s)
	case 1:
		for i := range s {
			s[i] = []byte{0x00, 0xFF, 0x80, 0x7F}[r.Intn(4)]
		}
	default:
		for i := range s {
			s[i] = byte(i)
		}
	}
	return s
}

// PLAIN DecodeFixedLenByteArray evaluates len(src) % size before anything else about a zero size
// (outside the assumption "size >= 1"; the BYTE_STREAM_SPLIT twin answers ErrInvalidArgument).
func c4FLBASize0Probe(ctx *core.Ctx) {
	for _, encName := range []string{"plain", "bss"} {
		func() {
			defer func() {
				if p := recover(); p != nil {
					ctx.Observe(encName+"-flba-decode-size0-panics", fmt.Sprintf("DecodeFixedLenByteArray with size 0 panics: %v", p), map[string]any{"encoding": encName})
				}
			}()
			var enc encoding.Encoding = new(plain.Encoding)
			if encName == "bss" {
				enc = new(bytestreamsplit.Encoding)
			}
			enc.DecodeFixedLenByteArray(nil, []byte{1, 2, 3}, 0)
		}()
	}
}

// ------------------------------------------------------------------ dictionaries

type c4dictType struct {
	name string
	k    c4kind
	typ  parquet.Type
}

func c4DictTypes() []c4dictType {
	return []c4dictType{
		{"boolean", c4Bool, parquet.BooleanType},
		{"int32", c4Int32, parquet.Int32Type},
		{"int64", c4Int64, parquet.Int64Type},
		{"int96", c4Int96, parquet.Int96Type},
		{"float", c4Float, parquet.FloatType},
		{"double", c4Double, parquet.DoubleType},
		{"byte_array", c4Bytes, parquet.ByteArrayType},
		{"flba5", c4FLBA(5), parquet.FixedLenByteArrayType(5)},
		{"flba16-be128", c4FLBA(16), parquet.FixedLenByteArrayType(16)},
		{"uuid", c4FLBA(16), parquet.UUID().Type()},
		{"uint32", c4Int32, parquet.Uint(32).Type()},
		{"uint64", c4Int64, parquet.Uint(64).Type()},
	}
}

func c4MakeValue(k c4kind, v []byte) parquet.Value {
	switch k.name {
	case "bool":
		return parquet.BooleanValue(v[0] != 0)
	case "int32":
		return parquet.Int32Value(int32(binary.LittleEndian.Uint32(v)))
	case "int64":
		return parquet.Int64Value(int64(binary.LittleEndian.Uint64(v)))
	case "int96":
		return parquet.Int96Value(deprecated.Int96{binary.LittleEndian.Uint32(v), binary.LittleEndian.Uint32(v[4:]), binary.LittleEndian.Uint32(v[8:])})
	case "float":
		return parquet.FloatValue(c4f32(binary.LittleEndian.Uint32(v)))
	case "double":
		return parquet.DoubleValue(c4f64(binary.LittleEndian.Uint64(v)))
	case "bytes":
		return parquet.ByteArrayValue(bytes.Clone(v))
	case "flba":
		return parquet.FixedLenByteArrayValue(bytes.Clone(v))
	}
	panic("kind")
}

func c4ValueBytes(k c4kind, v parquet.Value) []byte {
	switch k.name {
	case "bool":
		if v.Boolean() {
			return []byte{1}
		}
		return []byte{0}
	case "int32":
		return binary.LittleEndian.AppendUint32(nil, uint32(v.Int32()))
	case "int64":
		return binary.LittleEndian.AppendUint64(nil, uint64(v.Int64()))
	case "int96":
		x := v.Int96()
		b := binary.LittleEndian.AppendUint32(nil, x[0])
		b = binary.LittleEndian.AppendUint32(b, x[1])
		return binary.LittleEndian.AppendUint32(b, x[2])
	case "float":
		return binary.LittleEndian.AppendUint32(nil, c4bits32(v.Float()))
	case "double":
		return binary.LittleEndian.AppendUint64(nil, c4bits64(v.Double()))
	default:
		return bytes.Clone(v.ByteArray())
	}
}

type c4dictCase struct {
	t       c4dictType
	init    [][]byte   // pre-loaded dictionary page (nil: created empty, as the writer does)
	batches [][][]byte // Insert calls
	history [][]byte   // inserted and then Reset() before the case (prior call history)
}

func (c c4dictCase) canon() string {
	var sb strings.Builder
	sb.WriteString("dict " + c.t.name + " init=" + c4toks(c.t.k, c.init) + " hist=" + c4toks(c.t.k, c.history))
	for _, b := range c.batches {
		sb.WriteString(" | " + c4toks(c.t.k, b))
	}
	return sb.String()
}

func c4NewDictionary(t c4dictType, init [][]byte) parquet.Dictionary {
	if init == nil {
		return t.typ.NewDictionary(0, 0, t.typ.NewValues(nil, nil))
	}
	return t.typ.NewDictionary(0, len(init), c4Values(t.k, init, 0))
}

func (w *c4worker) dictCase(c c4dictCase) {
	ctx := w.b.ctx
	k := c.t.k
	var all [][]byte
	for _, b := range c.batches {
		all = append(all, b...)
	}
	distinct := map[string]bool{}
	for _, v := range all {
		distinct[string(v)] = true
	}
	canon := c.canon()
	ctx.Case(canon, len(distinct) >= 2 && len(all) > len(distinct))
	ctx.Hist("dict.type", c.t.name)
	ctx.Hist("dict.values", c4lenClass(len(all)))
	ctx.Hist("dict.distinct", c4lenClass(len(distinct)))
	ctx.Hist("dict.batches", c4lenClass(len(c.batches)))
	if c.init != nil {
		ctx.Hist("dict.start", "preloaded")
	} else if c.history != nil {
		ctx.Hist("dict.start", "after-reset")
	} else {
		ctx.Hist("dict.start", "empty")
	}
	sig := "dict-" + c.t.name
	if c.init != nil {
		sig += "-preloaded"
	}
	detail := func(extra map[string]any) map[string]any {
		m := map[string]any{"case": c4short(canon), "variant": w.b.variant}
		for kk, v := range extra {
			m[kk] = v
		}
		return m
	}
	var goIdx []int32
	var goDict [][]byte
	failed := false
	func() {
		defer func() {
			if p := recover(); p != nil {
				failed = true
				ctx.Fail("L1", sig+"-panic", fmt.Sprintf("dictionary operation panics: %v", p), detail(nil))
			}
		}()
		d := c4NewDictionary(c.t, c.init)
		if c.history != nil {
			hv := make([]parquet.Value, len(c.history))
			for i, v := range c.history {
				hv[i] = c4MakeValue(k, v)
			}
			d.Insert(make([]int32, len(hv)), hv)
			d.Reset()
			if d.Len() != 0 {
				failed = true
				ctx.Fail("L1", sig+"-reset", fmt.Sprintf("Len() = %d after Reset", d.Len()), detail(nil))
				return
			}
		}
		// harness-side oracle: first-occurrence numbering over the pre-loaded entries then the batches
		want := map[string]int32{}
		var order [][]byte
		for _, v := range c.init {
			if _, ok := want[string(v)]; !ok {
				want[string(v)] = int32(len(order))
			}
			order = append(order, v)
		}
		for bi, batch := range c.batches {
			pv := make([]parquet.Value, len(batch))
			for i, v := range batch {
				pv[i] = c4MakeValue(k, v)
			}
			idx := make([]int32, len(batch))
			for i := range idx {
				idx[i] = -7
			}
			d.Insert(idx, pv)
			for i, v := range batch {
				if idx[i] < 0 || int(idx[i]) >= d.Len() {
					failed = true
					ctx.Fail("L1", sig+"-index-out-of-range", fmt.Sprintf("Insert returned index %d for a dictionary of %d entries", idx[i], d.Len()),
						detail(map[string]any{"batch": bi, "position": i, "value": c4tok(k, v)}))
					return
				}
				got := c4ValueBytes(k, d.Index(idx[i]))
				if !bytes.Equal(got, v) {
					failed = true
					ctx.Fail("L1", sig+"-index-returns-other-value", "Index(i) of the index Insert returned is not the inserted value (bit pattern)",
						detail(map[string]any{"batch": bi, "position": i, "inserted": c4tok(k, v), "index": idx[i], "Index(i)": c4tok(k, got)}))
					return
				}
				if k.name != "bool" {
					wi, ok := want[string(v)]
					if !ok {
						wi = int32(len(order))
						want[string(v)] = wi
						order = append(order, v)
					}
					if idx[i] != wi {
						failed = true
						ctx.Fail("L1", sig+"-not-first-occurrence-order", "Insert did not number the value by first occurrence",
							detail(map[string]any{"batch": bi, "position": i, "value": c4tok(k, v), "index": idx[i], "expected": wi}))
						return
					}
				}
			}
			goIdx = append(goIdx, idx...)
			if k.name != "bool" && d.Len() != len(order) {
				failed = true
				ctx.Fail("L1", sig+"-len", fmt.Sprintf("Len() = %d, %d entries expected", d.Len(), len(order)), detail(map[string]any{"batch": bi}))
				return
			}
		}
		// index stability + Lookup: every index ever returned still denotes its value
		out := make([]parquet.Value, len(goIdx))
		for i := range out {
			out[i] = parquet.Int64Value(-1)
		}
		d.Lookup(goIdx, out)
		for i, v := range all {
			if got := c4ValueBytes(k, out[i]); !bytes.Equal(got, v) {
				failed = true
				ctx.Fail("L1", sig+"-lookup-returns-other-value", "Lookup of the returned indexes does not give the inserted values back",
					detail(map[string]any{"position": i, "inserted": c4tok(k, v), "index": goIdx[i], "Lookup": c4tok(k, got)}))
				return
			}
		}
		for i := 0; i < d.Len(); i++ {
			goDict = append(goDict, c4ValueBytes(k, d.Index(int32(i))))
		}
		// the dictionary page, PLAIN encoded, read back by the SPEC decoder
		page := d.Page()
		if int(page.NumValues()) != d.Len() {
			failed = true
			ctx.Fail("L1", sig+"-page-numvalues", fmt.Sprintf("Page().NumValues() = %d, Len() = %d", page.NumValues(), d.Len()), detail(nil))
			return
		}
		pb, err := c4Encode(k, new(plain.Encoding), nil, page.Data())
		if err != nil {
			failed = true
			ctx.Fail("L1", sig+"-page-encode-error", err.Error(), detail(nil))
			return
		}
		req := fmt.Sprintf("plain.specdec %s %s", k.String(), core.Hex(pb))
		if k.name == "bool" {
			req = fmt.Sprintf("plain.specdec bool:%d %s", d.Len(), core.Hex(pb))
		}
		wantPage := "ok " + c4toks(k, goDict)
		w.b.ask(req, func(ans string) {
			if ans != wantPage {
				ctx.Fail("L1", sig+"-page-spec-decoder-disagrees", "the PLAIN encoded dictionary page is not read back as the dictionary entries by the SPEC decoder",
					detail(map[string]any{"page_bytes": c4short(core.Hex(pb)), "entries": c4short(c4toks(k, goDict)), "spec_decoded": c4short(ans)}))
			}
		})
	}()
	if failed {
		return
	}
	// L2: the Lean dictionary model
	goAns := fmt.Sprintf("ok %s %s", core.JoinInts(goIdx), c4toks(k, goDict))
	var req string
	if k.name == "bool" {
		req = fmt.Sprintf("dict.insertbool %s %s", c4toks(k, c.init), c4toks(k, all))
	} else {
		req = fmt.Sprintf("dict.insert %s %s", c4toks(k, c.init), c4toks(k, all))
	}
	w.b.ask(req, func(ans string) {
		if ans != goAns {
			ctx.Fail("L2", sig+"-model", "dictionary indexes / entries differ from the Lean model (linear search, first occurrence)",
				detail(map[string]any{"go": c4short(goAns), "model": c4short(ans)}))
		}
	})
}

// alphabet of `a` distinct values, then batches drawn from it
func (w *c4worker) dictGen(t c4dictType, maxVals int) c4dictCase {
	r := w.r
	c := c4dictCase{t: t}
	a := []int{1, 2, 3, 5, 8, 13, 40, 200, 700, 3000}[r.Intn(10)]
	if t.k.name == "bool" {
		a = 2
	}
	alpha := make([][]byte, 0, a)
	seen := map[string]bool{}
	mode := r.Intn(3)
	for tries := 0; len(alpha) < a && tries < 4*a+16; tries++ {
		m := mode
		if r.Intn(4) == 0 {
			m = r.Intn(3)
		}
		v := c4Value(t.k, r, m)
		if t.k.name == "bytes" && len(v) > 300 {
			v = v[:r.Intn(300)]
		}
		if !seen[string(v)] {
			seen[string(v)] = true
			alpha = append(alpha, v)
		}
	}
	if t.k.name != "bool" {
		switch r.Intn(6) {
		case 0: // pre-loaded with distinct entries, as a dictionary page read from a file
			n := r.Intn(len(alpha) + 1)
			c.init = append([][]byte{}, alpha[:n]...)
			r.Shuffle(len(c.init), func(i, j int) { c.init[i], c.init[j] = c.init[j], c.init[i] })
		case 1:
			c.history = c4ValuesGen(t.k, r, 1+r.Intn(40))
			if t.k.name == "bytes" {
				for i, v := range c.history {
					if len(v) > 100 {
						c.history[i] = v[:100]
					}
				}
			}
		}
	} else if r.Intn(3) == 0 {
		c.history = c4ValuesGen(t.k, r, 1+r.Intn(4))
	}
	total := c4Len(r, maxVals)
	if r.Intn(8) == 0 {
		// around the chunk sizes of the typed inserts (8192/4, 8192/8, 8192/16) and probesPerLoop (256)
		total = []int{255, 256, 257, 511, 512, 513, 1023, 1024, 1025, 2047, 2048, 2049, 4097}[r.Intn(13)]
		if total > maxVals {
			total = maxVals
		}
	}
	left := total
	for left > 0 || len(c.batches) == 0 {
		var n int
		switch r.Intn(6) {
		case 0:
			n = 0
		case 1:
			n = 1
		case 2:
			n = []int{2, 7, 8, 9, 255, 256, 257, 2048, 2049}[r.Intn(9)]
		default:
			n = 1 + r.Intn(left+1)
		}
		if n > left {
			n = left
		}
		if c.init != nil && n == 0 && len(c.batches) == 0 {
			n = min(1, left) // an empty first Insert on a pre-loaded dictionary is the separate hang probe
			if n == 0 {
				break
			}
		}
		batch := make([][]byte, n)
		for i := range batch {
			batch[i] = alpha[r.Intn(len(alpha))]
		}
		c.batches = append(c.batches, batch)
		left -= n
		if len(c.batches) > 40 {
			break
		}
	}
	return c
}

// pre-loaded dictionary holding a duplicate entry: L1 only (the abstract model requires Nodup)
func (w *c4worker) dictPreloadedDupCase(t c4dictType, init, vals [][]byte) {
	ctx := w.b.ctx
	k := t.k
	canon := "dict-preloaded-dup " + t.name + " init=" + c4toks(k, init) + " | " + c4toks(k, vals)
	ctx.Case(canon, true)
	ctx.Hist("dict.start", "preloaded-with-duplicates")
	defer func() {
		if p := recover(); p != nil {
			ctx.Observe("dict-preloaded-duplicates-panic", fmt.Sprintf("Insert into a pre-loaded dictionary panics: %v", p), map[string]any{"case": canon, "variant": w.b.variant})
		}
	}()
	d := c4NewDictionary(t, init)
	pv := make([]parquet.Value, len(vals))
	for i, v := range vals {
		pv[i] = c4MakeValue(k, v)
	}
	idx := make([]int32, len(vals))
	d.Insert(idx, pv)
	for i, v := range vals {
		var got []byte
		if idx[i] >= 0 && int(idx[i]) < d.Len() {
			got = c4ValueBytes(k, d.Index(idx[i]))
		}
		if !bytes.Equal(got, v) {
			ctx.Observe("dict-preloaded-duplicates-wrong-index",
				"Insert into a dictionary created from a page that holds a duplicate entry returns an index whose entry is a different value",
				map[string]any{"case": canon, "type": t.name, "position": i, "inserted": c4tok(k, v), "index": idx[i], "Len": d.Len(), "Index(i)": c4tok(k, got), "variant": w.b.variant})
			return
		}
	}
}

// Insert with an indexes slice longer than the values (the interface only requires "not smaller")
func c4LongerIndexesProbe(ctx *core.Ctx, t c4dictType) {
	canon := "dict-longer-indexes " + t.name
	ctx.Case(canon, true)
	r := rand.New(rand.NewSource(7))
	vals := [][]byte{c4Value(t.k, r, 2), c4Value(t.k, r, 2), c4Value(t.k, r, 2)}
	defer func() {
		if p := recover(); p != nil {
			ctx.Hist("dict.longer-indexes", "panic")
			ctx.Observe("dict-"+t.name+"-insert-longer-indexes-panics",
				fmt.Sprintf("Insert(indexes, values) with len(indexes) > len(values), which the Dictionary interface allows, panics: %v", p),
				map[string]any{"case": canon, "type": t.name, "values": c4toks(t.k, vals), "len(indexes)": len(vals) + 2, "variant": ctx.Variant})
		}
	}()
	d := c4NewDictionary(t, nil)
	pv := make([]parquet.Value, len(vals))
	for i, v := range vals {
		pv[i] = c4MakeValue(t.k, v)
	}
	idx := make([]int32, len(vals)+2)
	d.Insert(idx, pv)
	for i, v := range vals {
		if idx[i] < 0 || int(idx[i]) >= d.Len() || !bytes.Equal(c4ValueBytes(t.k, d.Index(idx[i])), v) {
			ctx.Observe("dict-"+t.name+"-insert-longer-indexes-wrong", "Insert with a longer indexes slice returns wrong indexes",
				map[string]any{"case": canon, "type": t.name, "values": c4toks(t.k, vals), "indexes": fmt.Sprint(idx), "variant": ctx.Variant})
			return
		}
	}
	ctx.Hist("dict.longer-indexes", "ok")
}

// Insert of an empty batch as the first operation on a pre-loaded dictionary, in a subprocess
func c4WorkerEmptyInsert(args []string) int {
	for _, t := range c4DictTypes() {
		if t.name == args[0] {
			init := [][]byte{c4Value(t.k, rand.New(rand.NewSource(1)), 2), c4Value(t.k, rand.New(rand.NewSource(2)), 2)}
			d := c4NewDictionary(t, init)
			d.Insert(nil, nil)
			if d.Len() != 2 {
				return 4
			}
			return 0
		}
	}
	return 2
}

func c4EmptyInsertProbe(ctx *core.Ctx, t c4dictType) {
	canon := "dict-empty-insert " + t.name
	ctx.Case(canon, true)
	exe, err := os.Executable()
	if err != nil {
		return
	}
	cctx, cancel := context.WithTimeout(context.Background(), 4*time.Second)
	defer cancel()
	cmd := exec.CommandContext(cctx, exe, "-worker", "c04plain-emptyinsert", t.name)
	out, err := cmd.CombinedOutput()
	switch {
	case cctx.Err() != nil:
		ctx.Hist("dict.empty-insert", "hang")
		ctx.Observe("dict-preloaded-empty-insert-hangs", "Insert of an empty batch as the first operation on a dictionary created from a non-empty page never returns (killed after 4 s)",
			map[string]any{"case": canon, "type": t.name, "variant": ctx.Variant})
	case err != nil:
		ctx.Hist("dict.empty-insert", "crash")
		ctx.Observe("dict-preloaded-empty-insert-crashes", "Insert of an empty batch on a pre-loaded dictionary crashes: "+err.Error(),
			map[string]any{"case": canon, "type": t.name, "output": c4short(string(out)), "variant": ctx.Variant})
	default:
		ctx.Hist("dict.empty-insert", "returns")
	}
	if hung := cctx.Err() != nil; hung || err == nil { // round 6: termination predicted by the mirror of init (c04_dicttable.go)
		init := [][]byte{c4Value(t.k, rand.New(rand.NewSource(1)), 2), c4Value(t.k, rand.New(rand.NewSource(2)), 2)}
		c4EmptyInsertMirror(ctx, t, init, map[bool]string{true: "hang", false: "returns"}[hung])
	}
}

// ------------------------------------------------------------------ corpus + driver of the sub-check

// corpus line formats (files corpus/C04/plain-*.case):
//
//	malformed-bytes <hex>
//	dict-preloaded-dup <type> <init tokens> <value tokens>     (tokens: decimal bit patterns / hex)
//	codec <plain|bss> <type> <tokens>
//	dict-session <type> <init tokens> <calls: r | i=<tokens>, separated by ;>
func (w *c4worker) replayCorpusLine(line string) {
	f := strings.Fields(line)
	if len(f) == 0 || strings.HasPrefix(f[0], "#") {
		return
	}
	parse := func(k c4kind, s string) [][]byte {
		if s == "-" {
			return [][]byte{}
		}
		var out [][]byte
		for _, tkn := range strings.Split(s, ",") {
			switch {
			case k.name == "bool":
				out = append(out, []byte{tkn[0] - '0'})
			case k.numeric():
				x, _ := new(big.Int).SetString(tkn, 10)
				be := x.FillBytes(make([]byte, k.width))
				le := make([]byte, k.width)
				for i := range be {
					le[k.width-1-i] = be[i]
				}
				out = append(out, le)
			case tkn == "e":
				out = append(out, []byte{})
			default:
				b, _ := hex.DecodeString(tkn)
				out = append(out, b)
			}
		}
		return out
	}
	kindOf := func(s string) c4kind {
		if strings.HasPrefix(s, "flba:") {
			n, _ := strconv.Atoi(s[5:])
			return c4FLBA(n)
		}
		for _, k := range []c4kind{c4Bool, c4Int32, c4Int64, c4Int96, c4Float, c4Double, c4Bytes} {
			if k.name == s {
				return k
			}
		}
		return c4Bytes
	}
	switch {
	case f[0] == "malformed-bytes" && len(f) == 2:
		b := []byte{}
		if f[1] != "-" {
			b, _ = hex.DecodeString(f[1])
		}
		w.malformedCase(b, "corpus")
	case f[0] == "dict-preloaded-dup" && len(f) == 4:
		for _, t := range c4DictTypes() {
			if t.name == f[1] {
				w.dictPreloadedDupCase(t, parse(t.k, f[2]), parse(t.k, f[3]))
			}
		}
	case f[0] == "codec" && len(f) == 4:
		k := kindOf(f[2])
		w.codecCase(f[1], k, parse(k, f[3]))
	case f[0] == "dict-session" && len(f) == 4: // dict-session <type> <init> <ops: r | i=<values>, separated by ;>
		for _, t := range c4DictTypes() {
			if t.name == f[1] {
				s := c4session{t: t}
				if f[2] != "-" {
					s.init = parse(t.k, f[2])
				}
				for _, op := range strings.Split(f[3], ";") {
					if op == "r" {
						s.ops = append(s.ops, c4sessOp{reset: true})
					} else if strings.HasPrefix(op, "i=") {
						s.ops = append(s.ops, c4sessOp{batch: parse(t.k, op[2:])})
					}
				}
				w.sessionCase(s)
			}
		}
	}
}

func RunC04Plain(ctx *core.Ctx) {
	ctx.SetRule("C04/plain: (encoding in {PLAIN, BYTE_STREAM_SPLIT}) x physical type x value list (boundary pools incl. NaN payloads/-0.0/extremes, small alphabets, noise; lengths 0..9, 15..17, 31..33, 63..65, 127..129, 255..257, 511..513, 1023..1025) x dirty destination; dictionary cases = type x pre-load x batch split x values; malformed PLAIN BYTE_ARRAY streams; Go PLAIN/BYTE_STREAM_SPLIT decoders on arbitrary byte strings (any multiple of the width is conformant) into dirty destinations; C04/dictpage: type x dictionary (1..300 distinct entries) x index page written by the harness (declared width needed..32, random RLE/bit-packed segmentation, padded last group; conformant / short / id outside the dictionary) x recycled index buffer (capacity 0, <n, =n, >n; content last id / beyond / random / zero), and hand-assembled files of 1..4 data pages read three times; C04/dictreset: dictionary type x (empty | pre-loaded) x session of 2..5 generations separated by Reset, 1..3 Insert batches each (0,1,..24 values, one batch around 255..2300), all drawn from windows of ONE alphabet of 1..700 values, and writer sessions: dict column type x flat/repeated x {Flush, MaxRowsPerRowGroup, reused GenericBuffer, Writer.Reset} x 2..4 row groups over one alphabet of 2..30 values; distinct by canonical input text; non-trivial = at least 2 values (dictionary: at least 2 distinct values and at least one repeat; malformed: at least 5 bytes; decoders: at least 2 widths of bytes; dictpage: num_values >= 2; files: at least 2 data pages; sessions: at least one Reset and a value repeated from an earlier generation / row group)")
	nw := runtime.GOMAXPROCS(0)
	if nw > 12 {
		nw = 12
	}
	if nw < 2 {
		nw = 2
	}
	plainKinds := []c4kind{c4Bool, c4Int32, c4Int64, c4Int96, c4Float, c4Double, c4Bytes, c4FLBA(1), c4FLBA(2), c4FLBA(3), c4FLBA(5), c4FLBA(12), c4FLBA(16), c4FLBA(17), c4FLBA(33)}
	bssKinds := []c4kind{c4Int32, c4Int64, c4Float, c4Double, c4FLBA(1), c4FLBA(2), c4FLBA(3), c4FLBA(4), c4FLBA(5), c4FLBA(7), c4FLBA(8), c4FLBA(12), c4FLBA(16), c4FLBA(17), c4FLBA(33)}
	dictTypes := c4DictTypes()
	perKind := ctx.Scale(2600, 3200) // cases per (encoding, type) for the numeric kinds, summed over workers
	maxLen := ctx.Scale(1100, 1600)

	// corpus first (one worker), then the deterministic probes
	{
		d := ctx.Driver()
		w := &c4worker{b: &c4batch{ctx: ctx, d: d, variant: ctx.Variant}, r: ctx.Rand("c04plain/corpus")}
		for _, f := range ctx.CorpusFiles() {
			if !strings.HasPrefix(f[strings.LastIndex(f, "/")+1:], "plain-") {
				continue
			}
			data, err := os.ReadFile(f)
			if err != nil {
				continue
			}
			for _, line := range strings.Split(string(data), "\n") {
				w.replayCorpusLine(line)
			}
		}
		w.b.flush()
	}

	for _, t := range dictTypes {
		c4LongerIndexesProbe(ctx, t)
	}
	c4FLBASize0Probe(ctx)

	var wg sync.WaitGroup
	for _, t := range dictTypes {
		if t.k.name != "bool" {
			wg.Add(1)
			go func(t c4dictType) { defer wg.Done(); c4EmptyInsertProbe(ctx, t) }(t)
		}
	}
	for wi := 0; wi < nw; wi++ {
		wg.Add(1)
		go func(wi int) {
			defer wg.Done()
			d := ctx.Driver()
			r := ctx.Rand(fmt.Sprintf("c04plain/%d", wi))
			w := &c4worker{b: &c4batch{ctx: ctx, d: d, variant: ctx.Variant}, r: r}
			share := func(n int) int { return (n + nw - 1) / nw }
			t0 := time.Now()
			lap := func(what string) {
				w.b.flush()
				if wi == 0 && os.Getenv("VERIF_C04_TIMING") != "" {
					fmt.Fprintf(os.Stderr, "c04plain worker0 %s: %.1fs\n", what, time.Since(t0).Seconds())
				}
				t0 = time.Now()
			}
			// PLAIN and BYTE_STREAM_SPLIT
			for _, k := range plainKinds {
				n := share(perKind)
				if k.name == "flba" {
					n = share(perKind / 4)
				}
				for i := 0; i < n; i++ {
					vals := c4ValuesGen(k, r, c4Len(r, maxLen))
					if wi == 0 && i < 1 && len(vals) > 0 && len(vals) < 20 {
						ctx.Sample(map[string]any{"encoding": "plain", "type": k.String(), "values": c4toks(k, vals)})
					}
					w.codecCase("plain", k, vals)
				}
			}
			lap("plain")
			for _, k := range bssKinds {
				n := share(perKind)
				if k.name == "flba" {
					n = share(perKind / 4)
				}
				for i := 0; i < n; i++ {
					w.codecCase("bss", k, c4ValuesGen(k, r, c4Len(r, maxLen)))
				}
			}
			lap("bss")
			// the two boolean bit packers
			for i := 0; i < share(perKind); i++ {
				vals := c4ValuesGen(c4Bool, r, c4Len(r, maxLen))
				need := (len(vals) + 7) / 8
				capacity := []int{-1, 0, need / 2, need, need + 1, 2*need + 3}[r.Intn(6)]
				w.appendBoolCase(vals, capacity, []byte{0xFF, 0x00, 0xA5}[r.Intn(3)])
				var cuts []int
				for j := r.Intn(4); j > 0; j-- {
					cuts = append(cuts, []int{0, 1, 3, 7, 8, 9, 15, 16, 17, 63, 64, 65}[r.Intn(12)])
				}
				w.boolColumnCase(vals, cuts)
			}
			lap("bools")
			// malformed BYTE_ARRAY streams
			for i := 0; i < share(ctx.Scale(6000, 20000)); i++ {
				s, origin := w.malformedGen()
				w.malformedCase(s, origin)
			}
			lap("malformed")
			// the Go decoders on arbitrary byte strings (conformant = any multiple of the width)
			for _, k := range plainKinds {
				if k.name == "bool" || k.name == "bytes" {
					continue
				}
				for i := 0; i < share(ctx.Scale(240, 700)); i++ {
					w.decoderCase("plain", k, w.decoderStream(k, 4096))
				}
			}
			for _, k := range bssKinds {
				for i := 0; i < share(ctx.Scale(240, 700)); i++ {
					w.decoderCase("bss", k, w.decoderStream(k, 768))
				}
			}
			lap("decoders")
			// dictionaries
			for _, t := range dictTypes {
				for i := 0; i < share(ctx.Scale(1200, 2000)); i++ {
					c := w.dictGen(t, ctx.Scale(2600, 4000))
					if wi == 0 && i == 0 {
						ctx.Sample(map[string]any{"dictionary": c4short(c.canon())})
					}
					w.dictCase(c)
				}
				if t.k.name != "bool" {
					for i := 0; i < share(ctx.Scale(60, 300)); i++ {
						// pre-loaded page with one duplicated entry, then values that occur after the duplicate or are new
						a := c4Value(t.k, r, 2)
						b := c4Value(t.k, r, 2)
						n := c4Value(t.k, r, 2)
						if bytes.Equal(a, b) || bytes.Equal(a, n) || bytes.Equal(b, n) {
							continue
						}
						w.dictPreloadedDupCase(t, [][]byte{a, a, b}, [][]byte{b, n})
					}
				}
				lap("dict " + t.name)
			}
			w.b.flush()
		}(wi)
	}
	wg.Wait()
}
