package props

import (
	"bytes"
	"fmt"
	"math"
	"math/rand"
	"sort"
	"strings"

	"github.com/parquet-go/parquet-go"
	"github.com/parquet-go/parquet-go/format"

	"verifharness/core"
)

// Statistics of DICTIONARY-ENCODED columns (C05, files sub-check). The bounds of a dictionary-encoded
// page do not come from Page.Bounds() of the typed pages but from Dictionary.Bounds(indexes) (own loops and,
// on amd64, own gather kernels), and a chunk may fall back to PLAIN pages in the middle when the dictionary
// outgrows DictionaryMaxBytes. Files are written from a struct of dictionary-encoded required/optional
// columns of every order (signed/unsigned ints, float/double with NaN, strings, 16-byte and 5-byte fixed
// length, variable-width BYTE_ARRAY decimals with sign-extended duplicates), several pages and row groups;
// every chunk goes through the same oracle and mirrors as the plain files (c05CheckChunk).

type c05DictRow struct {
	I32  int32    `parquet:"i32,dict"`
	OI32 *int32   `parquet:"oi32,optional,dict"`
	I64  int64    `parquet:"i64,dict"`
	U32  uint32   `parquet:"u32,dict"`
	OU64 *uint64  `parquet:"ou64,optional,dict"`
	F32  float32  `parquet:"f32,dict"`
	OF64 *float64 `parquet:"of64,optional,dict"`
	S    string   `parquet:"s,dict"`
	OS   *string  `parquet:"os,optional,dict"`
	BE   [16]byte `parquet:"be,dict"`
	FL   [5]byte  `parquet:"fl,dict"`
	// variable-width decimals: the struct tag would make them FIXED_LEN_BYTE_ARRAY, the schema below
	// declares DECIMAL(20,2) on BYTE_ARRAY (db, odb dictionary-encoded; pdb PLAIN: decimalPage.Bounds)
	DB  []byte `parquet:"db"`
	ODB []byte `parquet:"odb,optional"`
	PDB []byte `parquet:"pdb"`
	// dictionary-encoded decimals of the other physical types (the dictionary's Type() must keep the decimal order)
	DFL  [9]byte `parquet:"dfl,decimal(2:20),dict"`
	OD64 *int64  `parquet:"od64,optional,decimal(2:18),dict"`
}

// c05DictSchema: the struct's schema with the three decimal leaves replaced (columns sorted by name).
func c05DictSchema() *parquet.Schema {
	g := parquet.Group{}
	for _, fld := range parquet.SchemaOf(c05DictRow{}).Fields() {
		g[fld.Name()] = fld
	}
	dec := parquet.Decimal(2, 20, parquet.ByteArrayType)
	g["db"] = parquet.Encoded(dec, &parquet.RLEDictionary)
	g["odb"] = parquet.Optional(parquet.Encoded(dec, &parquet.RLEDictionary))
	g["pdb"] = dec
	return parquet.NewSchema("c05DictRow", g)
}

type c05DictCol struct {
	name     string
	kind     string
	optional bool
	set      func(r *c05DictRow, v *c05Val)
}

var c05DictCols = []c05DictCol{
	{"i32", "i32", false, func(r *c05DictRow, v *c05Val) { r.I32 = int32(uint32(v.bits)) }},
	{"oi32", "i32", true, func(r *c05DictRow, v *c05Val) {
		if v != nil {
			x := int32(uint32(v.bits))
			r.OI32 = &x
		}
	}},
	{"i64", "i64", false, func(r *c05DictRow, v *c05Val) { r.I64 = int64(v.bits) }},
	{"u32", "u32", false, func(r *c05DictRow, v *c05Val) { r.U32 = uint32(v.bits) }},
	{"ou64", "u64", true, func(r *c05DictRow, v *c05Val) {
		if v != nil {
			x := v.bits
			r.OU64 = &x
		}
	}},
	{"f32", "f32", false, func(r *c05DictRow, v *c05Val) { r.F32 = math.Float32frombits(uint32(v.bits)) }},
	{"of64", "f64", true, func(r *c05DictRow, v *c05Val) {
		if v != nil {
			x := math.Float64frombits(v.bits)
			r.OF64 = &x
		}
	}},
	{"s", "string", false, func(r *c05DictRow, v *c05Val) { r.S = string(v.b) }},
	{"os", "string", true, func(r *c05DictRow, v *c05Val) {
		if v != nil {
			x := string(v.b)
			r.OS = &x
		}
	}},
	{"be", "be128", false, func(r *c05DictRow, v *c05Val) { copy(r.BE[:], v.b) }},
	{"fl", "flba5", false, func(r *c05DictRow, v *c05Val) { copy(r.FL[:], v.b) }},
	{"db", "decb", false, func(r *c05DictRow, v *c05Val) { r.DB = append([]byte{}, v.b...) }},
	{"odb", "decb", true, func(r *c05DictRow, v *c05Val) {
		if v != nil {
			r.ODB = append([]byte{}, v.b...)
		}
	}},
	{"pdb", "decb", false, func(r *c05DictRow, v *c05Val) { r.PDB = append([]byte{}, v.b...) }},
	{"dfl", "dec9", false, func(r *c05DictRow, v *c05Val) { copy(r.DFL[:], v.b) }},
	{"od64", "dec64", true, func(r *c05DictRow, v *c05Val) {
		if v != nil {
			x := int64(v.bits)
			r.OD64 = &x
		}
	}},
}

// c05DictFile generates, writes and checks one file; everything derives from ctx.Rand(id).
func c05DictFile(ctx *core.Ctx, b *c05Batch, id string) {
	r := ctx.Rand(id)
	np := 1 + r.Intn(6)
	var rows []int
	total := 0
	for p := 0; p < np; p++ {
		n := 1 + r.Intn(5)
		if r.Intn(6) == 0 {
			n = 6 + r.Intn(40)
		}
		rows = append(rows, n)
		total += n
	}
	f := &c05File{id: id, lim: 1 + r.Intn(64), version: 1 + r.Intn(2), rows: rows, skip: map[string]bool{}}
	if r.Intn(3) == 0 {
		f.maxRows = 1 + r.Intn(max(1, total/2))
	}
	dictMax := 0
	if r.Intn(3) == 0 {
		dictMax = 1 + r.Intn(96) // the dictionary outgrows the limit: later pages of the chunk are PLAIN
	}
	cells := make([][][]*c05Val, len(c05DictCols))
	for ci, col := range c05DictCols {
		k := c05KindByName(col.kind)
		cells[ci] = c05DictCells(r, k, col.optional, rows)
	}
	colText := func(ci int) string {
		k := c05KindByName(c05DictCols[ci].kind)
		var sb strings.Builder
		for p, page := range cells[ci] {
			if p > 0 {
				sb.WriteByte('|')
			}
			for i, v := range page {
				if i > 0 {
					sb.WriteByte(',')
				}
				if v == nil {
					sb.WriteString("null")
				} else {
					sb.WriteString(k.text(*v))
				}
			}
		}
		return sb.String()
	}
	var all strings.Builder
	for ci := range c05DictCols {
		all.WriteString(colText(ci))
		all.WriteByte(0)
	}
	ctx.Case(fmt.Sprintf("dictfile lim=%d v=%d maxrows=%d dictmax=%d %s", f.lim, f.version, f.maxRows, dictMax, all.String()), np >= 2)
	ctx.Hist("file-pages", "dict")
	ctx.Hist("dictfile-dictionary-max-bytes", c05Bucket(dictMax))
	base := map[string]any{"op": "dictfile", "file": id, "limit": f.lim, "page_version": f.version, "rows_per_page": rows,
		"max_rows_per_row_group": f.maxRows, "dictionary_max_bytes": dictMax, "note": "struct c05DictRow (dictionary-encoded columns); the file is regenerated from the run seed (stream = file id)"}
	opts := f.options()
	if dictMax > 0 {
		opts = append(opts, parquet.DictionaryMaxBytes(int64(dictMax)))
	}
	var buf bytes.Buffer
	var pf *parquet.File
	if p := c05Recover(func() {
		w := parquet.NewGenericWriter[c05DictRow](&buf, append([]parquet.WriterOption{c05DictSchema()}, opts...)...)
		for p, n := range rows {
			rs := make([]c05DictRow, n)
			for ci, col := range c05DictCols {
				for i := 0; i < n; i++ {
					col.set(&rs[i], cells[ci][p][i])
				}
			}
			if _, err := w.Write(rs); err != nil {
				panic(err)
			}
		}
		if err := w.Close(); err != nil {
			panic(err)
		}
		var err error
		if pf, err = parquet.OpenFile(bytes.NewReader(buf.Bytes()), int64(buf.Len())); err != nil {
			panic(err)
		}
	}); p != nil {
		ctx.Fail("L1", "dictfile-write-or-open-failed", fmt.Sprint(p), base)
		return
	}
	data := buf.Bytes()
	rgs := pf.RowGroups()
	f.multi = len(rgs) > 1
	ctx.Hist("file-row-groups", c05Bucket(len(rgs)))
	rawIdx := pf.ColumnIndexes()
	leafIndex := map[string]int{}
	for i, path := range pf.Schema().Columns() {
		leafIndex[strings.Join(path, ".")] = i
	}
	for g, rg := range rgs {
		chunks := rg.ColumnChunks()
		md := pf.Metadata().RowGroups[g].Columns
		if len(chunks) != len(c05DictCols) {
			ctx.Fail("L1", "dictfile-columns", fmt.Sprintf("%d column chunks", len(chunks)), base)
			return
		}
		for cj, col := range c05DictCols {
			cj := cj
			ci, found := leafIndex[col.name]
			if !found {
				ctx.Fail("L1", "dictfile-columns", "no leaf named "+col.name, base)
				return
			}
			kk := *c05KindByName(col.kind)
			kk.typ = chunks[ci].Type()
			enc := "plain"
			for _, e := range md[ci].MetaData.Encoding {
				if e == format.RLEDictionary || e == format.PlainDictionary {
					enc = "dictionary"
				}
			}
			ctx.Hist("dictfile-chunk-encoding", enc)
			detail := func(extra map[string]any) map[string]any {
				m := map[string]any{"column": col.name, "kind": col.kind, "pages": colText(cj), "row_group": g, "row_groups": len(rgs), "chunk_encoding": enc}
				for k, v := range base {
					m[k] = v
				}
				for k, v := range extra {
					m[k] = v
				}
				return m
			}
			var raw *format.ColumnIndex
			if len(rawIdx) == len(c05DictCols)*len(rgs) {
				raw = &rawIdx[g*len(c05DictCols)+ci]
			}
			var pages []c05ReadPage
			var rerr error
			if p := c05Recover(func() { pages, rerr = c05ReadPages(&kk, chunks[ci]) }); p != nil || rerr != nil {
				ctx.Fail("L1", "read-pages-failed "+col.kind, fmt.Sprint(p, rerr), detail(nil))
				continue
			}
			f.copied = true // ask the whole-record mirror for every chunk
			c05CheckChunk(ctx, b, &kk, c05Col{name: col.name, kind: col.kind, optional: col.optional}, f, data, chunks[ci], raw, &md[ci].MetaData, pages, detail)
			f.copied = false
		}
	}
}

// c05DictCells: pages drawn from a small pool (so that dictionaries stay small and orders are claimed),
// with nulls / all-null pages for optional columns, NaN among float values, all-NaN pages, and for the
// variable-width decimals equal values in different widths.
func c05DictCells(r *rand.Rand, k *c05Kind, optional bool, rows []int) [][]*c05Val {
	pool, _ := k.genList(r, 2+r.Intn(7))
	var okPool []c05Val
	for _, v := range pool {
		if !k.isNaN(v) {
			okPool = append(okPool, v)
		}
	}
	if len(okPool) == 0 {
		okPool = []c05Val{k.gen(r, 0)}
	}
	sort.SliceStable(okPool, func(i, j int) bool { return k.cmp(okPool[i], okPool[j]) < 0 })
	mode := r.Intn(4)
	pos := 0
	if mode == 1 {
		pos = len(okPool) - 1
	}
	nullPageP := []int{0, 3}[r.Intn(2)]
	nanPageP := 0
	if k.float {
		nanPageP = []int{0, 2, 4}[r.Intn(3)]
	}
	var out [][]*c05Val
	for _, n := range rows {
		page := make([]*c05Val, n)
		switch {
		case optional && r.Intn(16) < nullPageP:
		case r.Intn(16) < nanPageP:
			for i := range page {
				v := k.gen(r, 16)
				page[i] = &v
			}
		default:
			switch mode {
			case 0:
				pos = min(len(okPool)-1, pos+r.Intn(2))
			case 1:
				pos = max(0, pos-r.Intn(2))
			case 2:
				pos = r.Intn(len(okPool))
			}
			for i := range page {
				if optional && r.Intn(4) == 0 {
					continue
				}
				var v c05Val
				switch {
				case k.float && r.Intn(6) == 0:
					v = k.gen(r, 16)
				case r.Intn(12) == 0:
					v = k.gen(r, 0) // a value outside the pool
				default:
					v = okPool[min(len(okPool)-1, pos+r.Intn(2))]
				}
				if k.name == "decb" && r.Intn(4) == 0 {
					v = c05SignExtend(r, v)
				}
				page[i] = &v
			}
		}
		out = append(out, page)
	}
	return out
}
