package props

import (
	"bytes"
	"fmt"
	"math"
	"math/rand"
	"sort"
	"strings"

	"github.com/parquet-go/parquet-go"
	"github.com/parquet-go/parquet-go/format"

	"verifharness/core"
)

// Statistics of SEVERAL ROW GROUPS seen as one chunk (C05, files sub-check). parquet.MultiRowGroup (and every
// merge / conversion that yields one) answers ColumnChunk.ColumnIndex() with a view over the members' indexes:
// page i of the view is a page of some member, and IsAscending()/IsDescending() are RECOMPUTED across the
// member borders (multi_row_group.go). A reader prunes and binary-searches by that view exactly as by a
// file's column index, so every clause of the property applies to it:
//
//	L1  NumPages = the members' pages; NullPage(i)/NullCount(i) = the page read; MinValue(i)/MaxValue(i) bound
//	    the non-null non-NaN values of the page; a claimed ascending/descending order is true of the mins and of
//	    the maxs of the non-null pages of the WHOLE view
//	L2  the two flags vs the Lean mirror `multiAsc`/`multiDesc` (op c05.multi) fed with the members' own flags
//	    and the ranks of their bounds (theorem multiOrder_sound is about that mirror)
//
// The view is checked for every multi-row-group file of the generic generator (row groups cut by
// MaxRowsPerRowGroup, mostly one page each) and for the files of c05MultiFile below, whose row groups are cut
// by Flush() with >= 2 pages each (a one-page index claims no order, so the seam code is unreachable without
// them) and whose seams are designed: touching, overlapping (equal mins, shrinking max), stepping back,
// restarting, members made of null pages only, null pages at the borders.

// c05MultiMember: one member chunk of a view, as read back.
type c05MultiMember struct {
	cc    parquet.ColumnChunk
	pages []c05ReadPage
}

// c05OrderBreak finds the first ADJACENT pair of non-null, non-NaN entries that contradicts the claimed order
// (1 ascending, 2 descending). The column orders are total preorders on non-NaN values, so a claim is false iff
// an adjacent pair breaks it.
func c05OrderBreak(k *c05Kind, order int, nullPages []bool, mins, maxs []c05Val) (i, j int, hasNaN, bad bool) {
	prev := -1
	for p := range mins {
		if nullPages[p] {
			continue
		}
		if k.isNaN(mins[p]) || k.isNaN(maxs[p]) {
			hasNaN = true
			continue
		}
		if prev >= 0 {
			c1, c2 := k.cmp(mins[prev], mins[p]), k.cmp(maxs[prev], maxs[p])
			if (order == 1 && (c1 > 0 || c2 > 0)) || (order == 2 && (c1 < 0 || c2 < 0)) {
				return prev, p, hasNaN, true
			}
		}
		prev = p
	}
	return 0, 0, hasNaN, false
}

// c05CheckMultiView: the property's clauses on the column index of `mc`, the chunk of a MultiRowGroup whose
// members are `members` (in order).
func c05CheckMultiView(ctx *core.Ctx, b *c05Batch, k *c05Kind, kind string, lim int, mc parquet.ColumnChunk, members []c05MultiMember, detail func(map[string]any) map[string]any) {
	var ci parquet.ColumnIndex
	var err error
	if p := c05Recover(func() { ci, err = mc.ColumnIndex() }); p != nil {
		ctx.Fail("L1", "multi-index-panic "+kind, fmt.Sprintf("ColumnIndex() of a MultiRowGroup chunk panics: %v", p), detail(nil))
		return
	}
	if err != nil || ci == nil {
		ctx.Hist("multi-view", "no-index")
		return
	}
	// the members' own views: flags and entries (the inputs of the recomputation)
	var mviews []c05IndexView
	var pages []c05ReadPage
	var member []int // member of each page of the view
	for m, mem := range members {
		mci, err := mem.cc.ColumnIndex()
		if err != nil || mci == nil {
			ctx.Hist("multi-view", "member-without-index")
			return
		}
		v := c05ViewIndex(k, mci)
		if v.panicked != nil || v.n != len(mem.pages) {
			return // reported by the per-chunk check
		}
		mviews = append(mviews, v)
		pages = append(pages, mem.pages...)
		for range mem.pages {
			member = append(member, m)
		}
	}
	v := c05ViewIndex(k, ci)
	ctx.Hist("multi-view", "checked")
	ctx.Hist("multi-view-members", c05Bucket(len(members)))
	ctx.Hist("multi-view-order", fmt.Sprint(v.order))
	if v.panicked != nil {
		ctx.Fail("L1", "multi-index-panic "+kind, fmt.Sprintf("page %d of the MultiRowGroup column index: %v", v.panickedAt, v.panicked), detail(nil))
		return
	}
	if v.n != len(pages) {
		ctx.Fail("L1", "multi-index-numpages", fmt.Sprintf("NumPages()=%d of the MultiRowGroup column index, the members have %d pages", v.n, len(pages)), detail(nil))
		return
	}
	for i, p := range pages {
		d := func() map[string]any {
			return detail(map[string]any{"page": i, "member": member[i], "entry_min": k.text(v.min[i]), "entry_max": k.text(v.max[i]), "null_page": v.nullPage[i], "null_count": v.nullCount[i]})
		}
		if v.nullPage[i] != (len(p.vals) == 0) {
			ctx.Fail("L1", "multi-index-null-page-wrong", "NullPage(i) of the MultiRowGroup column index differs from 'the page has no non-null value'", d())
		}
		if v.nullCount[i] != int64(p.nulls) {
			ctx.Fail("L1", "multi-index-null-count-wrong", "NullCount(i) of the MultiRowGroup column index differs from the number of nulls read from that page", d())
		}
		if v.nullPage[i] || len(p.vals) == 0 {
			continue
		}
		if key, what := c05BoundsOracle(k, p.vals, v.min[i], v.max[i], true, false); key != "" {
			ctx.Fail("L1", c05BoundKey("multi-index-", key, kind), "MultiRowGroup column index: "+what, d())
		}
	}
	// ---- the recomputed order claim
	if v.order != 0 {
		if i, j, hasNaN, bad := c05OrderBreak(k, v.order, v.nullPage, v.min, v.max); bad {
			dir := map[int]string{1: "ascending", 2: "descending"}[v.order]
			key := "multi-index-order-false " + dir
			what := "the column index of a MultiRowGroup claims " + dir + " order but the non-null pages " + fmt.Sprint(i) + " and " + fmt.Sprint(j) + " of the view are out of order"
			switch {
			case hasNaN:
				key += " nan-page"
			case member[i] == member[j]:
				key += " within-member"
				what += " (both pages belong to the same member: the member's own claim is false)"
			default:
				// a member made of null pages only between the two pages?
				for m := member[i] + 1; m < member[j]; m++ {
					if len(members[m].pages) > 0 {
						key += " across-null-chunk"
						what += " (the members in between hold null pages only)"
						break
					}
				}
			}
			ctx.Fail("L1", key, what, detail(map[string]any{"claimed": v.order, "page_i": i, "page_j": j, "member_i": member[i], "member_j": member[j],
				"entry_i": k.text(v.min[i]) + ":" + k.text(v.max[i]), "entry_j": k.text(v.min[j]) + ":" + k.text(v.max[j])}))
		}
	}
	// ---- L2: the flags against the Lean mirror over the members' flags and the ranks of their bounds
	var bounds []c05Val
	nan := false
	for _, mv := range mviews {
		for i := range mv.min {
			if mv.nullPage[i] {
				continue
			}
			if k.isNaN(mv.min[i]) || k.isNaN(mv.max[i]) {
				nan = true
			}
			bounds = append(bounds, mv.min[i], mv.max[i])
		}
	}
	if nan {
		ctx.Hist("multi-view", "nan-bound-no-mirror")
		return
	}
	sort.SliceStable(bounds, func(x, y int) bool { return k.cmp(bounds[x], bounds[y]) < 0 })
	rank := func(x c05Val) int { // number of distinct classes strictly below x
		r := 0
		for i, y := range bounds {
			if k.cmp(y, x) >= 0 {
				break
			}
			if i == 0 || k.cmp(bounds[i-1], y) < 0 {
				r++
			}
		}
		return r
	}
	var sb strings.Builder
	bit := func(x bool) byte {
		if x {
			return '1'
		}
		return '0'
	}
	for m, mv := range mviews {
		if m > 0 {
			sb.WriteByte(';')
		}
		sb.WriteByte(bit(mv.order == 1))
		sb.WriteByte(bit(mv.order == 2))
		sb.WriteByte('/')
		if mv.n == 0 {
			sb.WriteByte('-')
		}
		for i := 0; i < mv.n; i++ {
			if i > 0 {
				sb.WriteByte(',')
			}
			if mv.nullPage[i] {
				sb.WriteByte('n')
			} else {
				fmt.Fprintf(&sb, "%d:%d", rank(mv.min[i]), rank(mv.max[i]))
			}
		}
	}
	req := sb.String()
	got := string([]byte{bit(v.order == 1), bit(v.order == 2)})
	b.ask("c05.multi "+req, func(ans string) {
		f := strings.Fields(ans)
		if len(f) != 3 || f[0] != "ok" {
			ctx.Fail("L2", "multi-index-order-mirror", "unexpected driver answer "+ans, detail(map[string]any{"members": req}))
			return
		}
		if f[1] != f[2] {
			ctx.Hist("multi-view", "repair-changes-flags")
		}
		if f[1] != got {
			ctx.Fail("L2", "multi-index-order-mirror", "IsAscending/IsDescending of the MultiRowGroup column index differ from the Lean mirror (multiAsc/multiDesc) over the members' flags and bounds", detail(map[string]any{"impl": got, "model": f[1], "model_before_fix": f[2], "members": req, "build": ctx.Variant}))
		}
	})
}

// ---------------------------------------------------------------- files with designed row group seams

type c05MultiRow struct {
	I64  int64    `parquet:"i64"`
	OI64 *int64   `parquet:"oi64,optional"`
	U32  uint32   `parquet:"u32"`
	F64  float64  `parquet:"f64"`
	S    string   `parquet:"s"`
	OS   *string  `parquet:"os,optional"`
	DS   string   `parquet:"ds,dict"`
	ODFL *[9]byte `parquet:"odfl,optional,decimal(2:20)"`
}

type c05MultiCol struct {
	name     string
	kind     string
	optional bool
	set      func(r *c05MultiRow, v *c05Val)
}

var c05MultiCols = []c05MultiCol{
	{"i64", "i64", false, func(r *c05MultiRow, v *c05Val) { r.I64 = int64(v.bits) }},
	{"oi64", "i64", true, func(r *c05MultiRow, v *c05Val) {
		if v != nil {
			x := int64(v.bits)
			r.OI64 = &x
		}
	}},
	{"u32", "u32", false, func(r *c05MultiRow, v *c05Val) { r.U32 = uint32(v.bits) }},
	{"f64", "f64", false, func(r *c05MultiRow, v *c05Val) { r.F64 = math.Float64frombits(v.bits) }},
	{"s", "string", false, func(r *c05MultiRow, v *c05Val) { r.S = string(v.b) }},
	{"os", "string", true, func(r *c05MultiRow, v *c05Val) {
		if v != nil {
			x := string(v.b)
			r.OS = &x
		}
	}},
	{"ds", "string", false, func(r *c05MultiRow, v *c05Val) { r.DS = string(v.b) }},
	{"odfl", "dec9", true, func(r *c05MultiRow, v *c05Val) {
		if v != nil {
			r.ODFL = new([9]byte)
			copy(r.ODFL[:], v.b)
		}
	}},
}

// c05MultiCells: the pages of one column over the row group layout `groups` (rows per page, per row group).
// A sorted pool of distinct values; page p holds values between pool[lo] and pool[hi] with both ends present
// (when it has >= 2 rows). Within a row group the intervals walk upwards so that the row group's own index
// claims ascending; at each row group border a seam shape is drawn. Descending columns are the mirror image.
func c05MultiCells(r *rand.Rand, k *c05Kind, optional bool, groups [][]int) (cells [][]*c05Val, shape string) {
	var pool []c05Val
	for tries := 0; len(pool) < 14 && tries < 200; tries++ {
		v := k.gen(r, 0)
		if k.isNaN(v) {
			continue
		}
		dup := false
		for _, x := range pool {
			dup = dup || k.cmp(x, v) == 0
		}
		if !dup {
			pool = append(pool, v)
		}
	}
	sort.SliceStable(pool, func(i, j int) bool { return k.cmp(pool[i], pool[j]) < 0 })
	top := len(pool) - 1
	dir := r.Intn(5) // 0,1 ascending; 2,3 descending; 4 random
	g := groups
	if dir == 2 || dir == 3 {
		// generate the mirror image: reversed layout, reversed afterwards
		g = make([][]int, len(groups))
		for i := range groups {
			rg := groups[len(groups)-1-i]
			g[i] = make([]int, len(rg))
			for j := range rg {
				g[i][j] = rg[len(rg)-1-j]
			}
		}
	}
	type iv struct {
		lo, hi int
		null   bool
	}
	var ivs [][]iv
	lo, hi := r.Intn(3), 0
	hi = lo
	var shapes []string
	for gi, rg := range g {
		nullGroup := optional && r.Intn(6) == 0
		if gi > 0 {
			s := r.Intn(6)
			if dir == 4 {
				s = 5
			}
			switch s {
			case 0, 1: // go on: the next row group starts at or above the last max
				lo = min(top, hi+r.Intn(2))
				shapes = append(shapes, "on")
			case 2: // overlap: same min as the last page, smaller max
				shapes = append(shapes, "overlap")
			case 3: // step back below the last page
				lo = max(0, lo-1-r.Intn(3))
				shapes = append(shapes, "back")
			case 4: // restart
				lo = r.Intn(3)
				shapes = append(shapes, "restart")
			default:
				lo = r.Intn(top + 1)
				shapes = append(shapes, "random")
			}
			hi = lo
			if s == 2 {
				hi = lo // page of one distinct value: max = min <= the last max
			}
		}
		var out []iv
		for pi, rows := range rg {
			if pi > 0 || gi == 0 || dir == 4 {
				if dir == 4 {
					lo = r.Intn(top + 1)
					hi = lo
				} else if pi > 0 {
					nlo := min(top, lo+r.Intn(hi-lo+2))
					lo = nlo
					hi = max(hi, lo)
				}
			}
			if rows >= 2 && r.Intn(3) > 0 {
				hi = min(top, max(hi, lo)+r.Intn(3))
			}
			hi = max(hi, lo)
			if rows < 2 {
				// one value per page: the interval collapses (keep the max so that maxs stay ascending)
				lo = hi
			}
			lo, hi = min(lo, top), min(hi, top)
			e := iv{lo: lo, hi: hi}
			if optional && (nullGroup || r.Intn(9) == 0) {
				e.null = true
			}
			out = append(out, e)
		}
		ivs = append(ivs, out)
	}
	if dir == 2 || dir == 3 {
		rev := make([][]iv, len(ivs))
		for i := range ivs {
			src := ivs[len(ivs)-1-i]
			rev[i] = make([]iv, len(src))
			for j := range src {
				rev[i][j] = src[len(src)-1-j]
			}
		}
		ivs = rev
	}
	for gi, rg := range groups {
		for pi, rows := range rg {
			e := ivs[gi][pi]
			page := make([]*c05Val, rows)
			if !e.null {
				for i := range page {
					var v c05Val
					switch {
					case i == 0:
						v = pool[e.lo]
					case i == 1:
						v = pool[e.hi]
					default:
						v = pool[e.lo+r.Intn(e.hi-e.lo+1)]
					}
					if optional && i >= 2 && r.Intn(3) == 0 {
						continue
					}
					page[i] = &v
				}
			}
			cells = append(cells, page)
		}
	}
	return cells, fmt.Sprintf("dir%d/%s", dir, strings.Join(shapes, ","))
}

// c05MultiFile generates, writes and checks one file; everything derives from ctx.Rand(id).
func c05MultiFile(ctx *core.Ctx, b *c05Batch, id string) {
	r := ctx.Rand(id)
	ng := 2 + r.Intn(3)
	if r.Intn(8) == 0 {
		ng = 5 + r.Intn(3)
	}
	var groups [][]int
	var rows []int
	for g := 0; g < ng; g++ {
		np := 2 + r.Intn(2)
		switch r.Intn(8) {
		case 0:
			np = 1
		case 1:
			np = 4 + r.Intn(2)
		}
		var rg []int
		for p := 0; p < np; p++ {
			n := 1 + r.Intn(3)
			rg = append(rg, n)
			rows = append(rows, n)
		}
		groups = append(groups, rg)
	}
	f := &c05File{id: id, lim: 1 + r.Intn(64), version: 1 + r.Intn(2), rows: rows, skip: map[string]bool{}, multi: true}
	if r.Intn(2) == 0 {
		f.lim = 1 + r.Intn(6)
	}
	cells := make([][][]*c05Val, len(c05MultiCols))
	shapes := make([]string, len(c05MultiCols))
	for ci, col := range c05MultiCols {
		cells[ci], shapes[ci] = c05MultiCells(r, c05KindByName(col.kind), col.optional, groups)
	}
	nest := r.Intn(4) == 0 && ng >= 3 // MultiRowGroup(MultiRowGroup(first two), rest...)
	colText := func(ci int) string {
		k := c05KindByName(c05MultiCols[ci].kind)
		var sb strings.Builder
		p := 0
		for gi, rg := range groups {
			if gi > 0 {
				sb.WriteString(" || ")
			}
			for pi := range rg {
				if pi > 0 {
					sb.WriteByte('|')
				}
				for i, v := range cells[ci][p] {
					if i > 0 {
						sb.WriteByte(',')
					}
					if v == nil {
						sb.WriteString("null")
					} else {
						sb.WriteString(k.text(*v))
					}
				}
				p++
			}
		}
		return sb.String()
	}
	var all strings.Builder
	for ci := range c05MultiCols {
		all.WriteString(colText(ci))
		all.WriteByte(0)
	}
	ctx.Case(fmt.Sprintf("multifile lim=%d v=%d nest=%v %s", f.lim, f.version, nest, all.String()), true)
	ctx.Hist("file-pages", "multi")
	ctx.Hist("multifile-row-groups", fmt.Sprint(ng))
	base := map[string]any{"op": "multifile", "file": id, "limit": f.lim, "page_version": f.version, "pages_per_row_group_rows": groups, "nested_multi_row_group": nest,
		"note": "struct c05MultiRow; one Write call per page (PageBufferSize(1)), Flush() after each row group (` || ` in pages), then parquet.MultiRowGroup over the file's row groups; regenerated from the run seed (stream = file id)"}
	var buf bytes.Buffer
	var pf *parquet.File
	if p := c05Recover(func() {
		w := parquet.NewGenericWriter[c05MultiRow](&buf, f.options()...)
		p := 0
		for _, rg := range groups {
			for _, n := range rg {
				rs := make([]c05MultiRow, n)
				for ci, col := range c05MultiCols {
					for i := 0; i < n; i++ {
						col.set(&rs[i], cells[ci][p][i])
					}
				}
				if _, err := w.Write(rs); err != nil {
					panic(err)
				}
				p++
			}
			if err := w.Flush(); err != nil {
				panic(err)
			}
		}
		if err := w.Close(); err != nil {
			panic(err)
		}
		var err error
		if pf, err = parquet.OpenFile(bytes.NewReader(buf.Bytes()), int64(buf.Len())); err != nil {
			panic(err)
		}
	}); p != nil {
		ctx.Fail("L1", "multifile-write-or-open-failed", fmt.Sprint(p), base)
		return
	}
	data := buf.Bytes()
	rgs := pf.RowGroups()
	if len(rgs) != ng {
		ctx.Fail("L1", "multifile-row-groups", fmt.Sprintf("%d row groups flushed, the file has %d", ng, len(rgs)), base)
		return
	}
	rawIdx := pf.ColumnIndexes()
	leafIndex := map[string]int{}
	for i, path := range pf.Schema().Columns() {
		leafIndex[strings.Join(path, ".")] = i
	}
	members := make([][]c05MultiMember, len(c05MultiCols))
	for g, rg := range rgs {
		chunks := rg.ColumnChunks()
		md := pf.Metadata().RowGroups[g].Columns
		for cj, col := range c05MultiCols {
			cj := cj
			ci, found := leafIndex[col.name]
			if !found || len(chunks) != len(c05MultiCols) {
				ctx.Fail("L1", "multifile-columns", "no leaf named "+col.name, base)
				return
			}
			kk := *c05KindByName(col.kind)
			kk.typ = chunks[ci].Type()
			detail := func(extra map[string]any) map[string]any {
				m := map[string]any{"column": col.name, "kind": col.kind, "pages": colText(cj), "seams": shapes[cj], "row_group": g, "row_groups": len(rgs)}
				for k, v := range base {
					m[k] = v
				}
				for k, v := range extra {
					m[k] = v
				}
				return m
			}
			var raw *format.ColumnIndex
			if len(rawIdx) == len(c05MultiCols)*len(rgs) {
				raw = &rawIdx[g*len(c05MultiCols)+ci]
			}
			var pages []c05ReadPage
			var rerr error
			if p := c05Recover(func() { pages, rerr = c05ReadPages(&kk, chunks[ci]) }); p != nil || rerr != nil {
				ctx.Fail("L1", "read-pages-failed "+col.kind, fmt.Sprint(p, rerr), detail(nil))
				members[cj] = nil
				continue
			}
			if len(pages) != len(groups[g]) {
				ctx.Hist("multifile-page-cut", "differs-from-write-calls")
			} else {
				ctx.Hist("multifile-page-cut", "one-page-per-write")
			}
			c05CheckChunk(ctx, b, &kk, c05Col{name: col.name, kind: col.kind, optional: col.optional}, f, data, chunks[ci], raw, &md[ci].MetaData, pages, detail)
			members[cj] = append(members[cj], c05MultiMember{cc: chunks[ci], pages: pages})
		}
	}
	var mrg parquet.RowGroup
	if p := c05Recover(func() {
		if nest {
			mrg = parquet.MultiRowGroup(append([]parquet.RowGroup{parquet.MultiRowGroup(rgs[0], rgs[1])}, rgs[2:]...)...)
		} else {
			mrg = parquet.MultiRowGroup(rgs...)
		}
	}); p != nil {
		ctx.Fail("L1", "multi-row-group-failed", fmt.Sprint(p), base)
		return
	}
	mchunks := mrg.ColumnChunks()
	for cj, col := range c05MultiCols {
		cj := cj
		ci := leafIndex[col.name]
		if len(members[cj]) != len(rgs) || ci >= len(mchunks) {
			continue
		}
		kk := *c05KindByName(col.kind)
		kk.typ = mchunks[ci].Type()
		ctx.Hist("multifile-seams", strings.SplitN(shapes[cj], "/", 2)[0])
		detail := func(extra map[string]any) map[string]any {
			m := map[string]any{"column": col.name, "kind": col.kind, "pages": colText(cj), "seams": shapes[cj], "multi_row_group": true, "row_groups": len(rgs)}
			for k, v := range base {
				m[k] = v
			}
			for k, v := range extra {
				m[k] = v
			}
			return m
		}
		c05CheckMultiView(ctx, b, &kk, col.kind, f.lim, mchunks[ci], members[cj], detail)
	}
}
