package props

// C20 — Compression codecs are lossless whatever was compressed before.
//
// L1 (this file + c20_worker.go): random histories on ONE codec value of the real codecs, every
// call inside an isolated, memory-limited worker subprocess (`pqcheck -worker c20`); a crash,
// OOM or hang of the worker is an outcome of the op that was running, confirmed by re-running the
// history alone. Oracle (from the property statement only): after any history,
// Decode(Encode(x)) == x, no error, no panic, no hang, for every dst; slices returned earlier
// are not modified; independent decoders agree. Ownership: the result of a call lives in its dst
// or in a new buffer — never in src ("result-aliases-src": the caller overwrites src after the
// call and the result must not change); the buffers a caller got back have separate owners, any
// ONE of them may be recycled as a later dst (`lastenc` / `lastdec`) while the others are kept.
// L2 (c20_pool.go): the real Compressor/Decompressor pools with instrumented toy streams vs the
// Lean pool model; the lz4 grow-and-retry loop vs the Lean mirror (final buffer size).

import (
	"bufio"
	"bytes"
	"context"
	"encoding/binary"
	"encoding/hex"
	"encoding/json"
	"fmt"
	"hash/crc32"
	"math/rand"
	"os"
	"os/exec"
	"runtime"
	"strings"
	"sync"
	"syscall"
	"time"

	"verifharness/core"
)

func init() { RegisterSub("C20", "codecs", RunC20) }

var c20Codecs = []string{"snappy", "gzip", "brotli", "zstd", "lz4", "uncompressed"}

// dst shapes for Decode (sizes relative to the decoded length and to len(src)) ...
// `lastenc` / `lastdec`: the caller recycles ONE buffer it got from the codec (its most recent
// Encode / Decode output) and keeps the rest — the two halves of a round trip have separate owners
var c20DstKinds = []string{"nil", "zero", "smallcap", "smalllen", "exactcap", "exactlen", "exactm1", "exactp1", "large", "largelen",
	"srccap", "srclen", "srcm1", "srcp1", "srcp15", "srchalf", "lastenc", "lastdec", "prev"}

// ... and for Encode: additionally around the worst-case bounds of the block formats and around
// the size of the output itself ("prev" stays last: some generators exclude it)
var c20EncDstKinds = []string{"nil", "zero", "smallcap", "smalllen", "exactcap", "exactlen", "exactm1", "exactp1", "large", "largelen",
	"srccap", "srclen", "srcm1", "srcp1", "srcp15", "srchalf", "lz4boundm1", "lz4bound", "snapboundm1", "snapbound",
	"outm1", "outcap", "outp1", "lastenc", "lastdec", "prev"}
var c20InputKinds = []string{"rand", "zero", "text", "alpha4", "runs"}
var c20BadKinds = []string{"truncate", "trailing", "flip", "garbage", "empty"}

func c20Lengths(ctx *core.Ctx) []int {
	l := []int{0, 1, 2, 3, 7, 8, 9, 31, 32, 33, 63, 64, 65, 127, 128, 129, 255, 256, 257, 1023, 1024, 1025,
		4095, 4096, 4097, 65535, 65536, 65537}
	if ctx.Thorough() {
		l = append(l, 1<<20, 1<<20+1) // multi-MiB sizes: part (L) below
	}
	return l
}

func c20RandInput(ctx *core.Ctx, r *rand.Rand, lens []int) c20Input {
	n := lens[r.Intn(len(lens))]
	if r.Intn(4) == 0 { // log-uniform tail
		n = 1 << uint(r.Intn(17))
		n += r.Intn(n)
	}
	return c20Input{Kind: c20InputKinds[r.Intn(len(c20InputKinds))], Len: n, Seed: r.Int63n(1 << 40)}
}

func c20RandOp(ctx *core.Ctx, r *rand.Rand, lens []int, badProb int) c20Op {
	op := c20Op{K: "rt", In: c20RandInput(ctx, r, lens),
		EDst: c20EncDstKinds[r.Intn(len(c20EncDstKinds))], DDst: c20DstKinds[r.Intn(len(c20DstKinds))]}
	if r.Intn(100) < badProb {
		op.K = "bad"
		op.Bad = c20Corrupt{Kind: c20BadKinds[r.Intn(len(c20BadKinds))], Pos: r.Int63(), N: 1 + r.Intn(8), Seed: r.Int63n(1 << 40)}
		if op.Bad.Kind == "garbage" {
			op.Bad.N = 1 + r.Intn(64)
		}
		if op.In.Len > 1<<17 {
			op.In.Len = 1 << 12
		}
	}
	return op
}

// ---------------------------------------------------------------- worker pool

type c20Outcome struct {
	sc       c20Scenario
	line     *c20Line // nil if the worker died in this scenario
	death    string   // oom | timeout | crash (when line == nil)
	deathOp  int
	deathMsg string
}

// c20RunBatch runs scenarios in one worker process; when the worker dies the scenario that was
// running gets a death outcome and the rest continues in a fresh worker.
func c20RunBatch(ctx *core.Ctx, scs []c20Scenario, memMB int, opTimeout time.Duration) []c20Outcome {
	var outs []c20Outcome
	for len(scs) > 0 {
		done, died := c20RunWorker(scs, memMB, opTimeout)
		outs = append(outs, done...)
		n := len(done)
		if died == nil {
			if n < len(scs) { // worker ended early without a trace: treat as crash of the next one
				outs = append(outs, c20Outcome{sc: scs[n], death: "crash", deathOp: -1, deathMsg: "worker exited without reporting"})
				n++
			}
		} else {
			outs = append(outs, *died)
			n++
		}
		scs = scs[n:]
	}
	return outs
}

func c20RunWorker(scs []c20Scenario, memMB int, opTimeout time.Duration) (done []c20Outcome, died *c20Outcome) {
	f, err := os.CreateTemp("", "c20-*.json")
	if err != nil {
		panic(err)
	}
	defer os.Remove(f.Name())
	blob, _ := json.Marshal(scs)
	f.Write(blob)
	f.Close()
	exe, _ := os.Executable()
	cctx, cancel := context.WithCancel(context.Background())
	defer cancel()
	cmd := exec.CommandContext(cctx, exe, "-worker", "c20", f.Name(), fmt.Sprint(memMB))
	cmd.Env = append(os.Environ(), fmt.Sprintf("GOMEMLIMIT=%dMiB", memMB/2), "GOMAXPROCS=4", "GOTRACEBACK=all")
	var stderr bytes.Buffer
	cmd.Stderr = &stderr
	stdout, _ := cmd.StdoutPipe()
	if err := cmd.Start(); err != nil {
		panic(err)
	}
	lines := make(chan c20Line, 64)
	go func() {
		rd := bufio.NewReaderSize(stdout, 1<<20)
		for {
			b, err := rd.ReadBytes('\n')
			if len(b) > 1 {
				var l c20Line
				if json.Unmarshal(b, &l) == nil {
					lines <- l
				}
			}
			if err != nil {
				close(lines)
				return
			}
		}
	}()
	byID := map[int]c20Scenario{}
	custom := time.Duration(0)
	for _, s := range scs {
		byID[s.ID] = s
		if s.TimeoutMs == 0 {
			custom = -1
		} else if custom >= 0 && time.Duration(s.TimeoutMs)*time.Millisecond > custom {
			custom = time.Duration(s.TimeoutMs) * time.Millisecond
		}
	}
	if custom > 0 {
		opTimeout = custom // every scenario of the batch carries its own (shorter) limit
	}
	cur, curOp := -1, -1
	timedOut := false
	timer := time.NewTimer(opTimeout)
loop:
	for {
		select {
		case l, ok := <-lines:
			if !ok {
				break loop
			}
			if !timer.Stop() {
				select {
				case <-timer.C:
				default:
				}
			}
			timer.Reset(opTimeout)
			if l.Done {
				ll := l
				done = append(done, c20Outcome{sc: byID[l.ID], line: &ll})
				cur, curOp = -1, -1
			} else {
				cur, curOp = l.ID, l.Op
			}
		case <-timer.C:
			timedOut = true
			// ask the Go runtime of the worker for its goroutine stacks, then kill it
			cmd.Process.Signal(syscall.SIGQUIT)
			exited := make(chan struct{})
			go func() {
				for range lines {
				}
				close(exited)
			}()
			select {
			case <-exited:
			case <-time.After(3 * time.Second):
			}
			cancel()
			break loop
		}
	}
	werr := cmd.Wait()
	if cur >= 0 || timedOut || (werr != nil && len(done) < len(scs)) {
		sc := byID[cur]
		if cur < 0 && len(done) < len(scs) {
			sc, curOp = scs[len(done)], -1
		}
		msg := stderr.String()
		if max := 600; timedOut {
			max = 6000
			if len(msg) > max {
				msg = msg[:max]
			}
		} else if len(msg) > max {
			msg = msg[:max]
		}
		d := &c20Outcome{sc: sc, deathOp: curOp, deathMsg: msg}
		switch {
		case timedOut:
			d.death = "timeout"
		case strings.Contains(msg, "out of memory") || strings.Contains(msg, "cannot allocate memory") ||
			strings.Contains(msg, "errno=12") || strings.Contains(msg, "newosproc") || strings.Contains(msg, "failed to create new OS thread"):
			d.death = "oom"
		default:
			d.death = "crash"
		}
		return done, d
	}
	return done, nil
}

// ---------------------------------------------------------------- classification

// c20Fails reports whether the scenario still shows a failure of the given kind at its LAST op
// (findings of kind `kind`, or a death when kind is oom/timeout/crash).
func c20Fails(sc c20Scenario, kind string, memMB int, opTimeout time.Duration) (bool, c20Outcome) {
	tries := 1
	if sc.Conc > 1 {
		tries = 3 // interleavings differ from run to run
	}
	var ok bool
	var o c20Outcome
	for ; tries > 0 && !ok; tries-- {
		ok, o = c20FailsOnce(sc, kind, memMB, opTimeout)
	}
	return ok, o
}

func c20FailsOnce(sc c20Scenario, kind string, memMB int, opTimeout time.Duration) (bool, c20Outcome) {
	outs := c20RunBatch(nil, []c20Scenario{sc}, memMB, opTimeout)
	if len(outs) == 0 {
		return false, c20Outcome{}
	}
	o := outs[0]
	if o.line == nil {
		return o.death == kind, o
	}
	for _, f := range o.line.Findings {
		if f.Kind == kind && (sc.Conc > 1 || f.Op == len(sc.Ops)-1) {
			return true, o
		}
	}
	return false, o
}

// c20Shrink removes earlier ops while the last op keeps failing in the same way.
func c20Shrink(sc c20Scenario, kind string, memMB int, opTimeout time.Duration, budget int) (c20Scenario, c20Outcome, bool) {
	ok, last := c20Fails(sc, kind, memMB, opTimeout)
	if !ok {
		return sc, last, false
	}
	// first try the empty history, then halves, then single removals
	try := func(keep []c20Op) bool {
		if budget <= 0 {
			return false
		}
		budget--
		t := sc
		t.Ops = keep
		if ok, o := c20Fails(t, kind, memMB, opTimeout); ok {
			sc, last = t, o
			return true
		}
		return false
	}
	n := len(sc.Ops)
	if n > 1 {
		try([]c20Op{sc.Ops[n-1]})
	}
	for chunk := (len(sc.Ops) - 1) / 2; chunk >= 1; chunk /= 2 {
		for i := 0; i+chunk <= len(sc.Ops)-1; {
			keep := append(append([]c20Op{}, sc.Ops[:i]...), sc.Ops[i+chunk:]...)
			if !try(keep) {
				i += chunk
			}
		}
	}
	return sc, last, true
}

type c20Reporter struct {
	ctx       *core.Ctx
	parent    *c20Reporter // shares the admission counters
	mu        sync.Mutex
	perPrelim map[string]int
	memMB     int
	opTimeout time.Duration
}

func (rp *c20Reporter) admit(prelim string) bool {
	if rp.parent != nil {
		return rp.parent.admit(prelim)
	}
	rp.mu.Lock()
	defer rp.mu.Unlock()
	rp.perPrelim[prelim]++
	return rp.perPrelim[prelim] <= 2
}

// report turns one failing scenario into a keyed L1 failure (after confirmation / shrinking).
func (rp *c20Reporter) report(o c20Outcome) {
	ctx := rp.ctx
	codec := o.sc.Codec
	if dbg := os.Getenv("C20_DEBUG_DIR"); dbg != "" && o.line == nil && o.death != "oom" {
		b, _ := json.Marshal(map[string]any{"death": o.death, "scenario": o.sc, "op": o.deathOp, "stderr": o.deathMsg})
		os.WriteFile(fmt.Sprintf("%s/first-%d.json", dbg, o.sc.ID), b, 0o644)
	}
	if o.line == nil {
		// the worker died: which op? confirm by running the history up to that op alone
		sc := o.sc
		if o.deathOp >= 0 && o.deathOp < len(sc.Ops) && sc.Conc <= 1 {
			sc.Ops = sc.Ops[:o.deathOp+1]
		}
		opKind := "valid"
		if o.deathOp >= 0 && o.deathOp < len(o.sc.Ops) && o.sc.Ops[o.deathOp].K == "bad" {
			opKind = "malformed"
		}
		if sc.Conc > 1 {
			for _, op := range sc.Ops {
				if op.K == "bad" {
					opKind = "malformed"
				}
			}
		}
		key := fmt.Sprintf("%s-%s-%s", codec, opKind, o.death)
		if o.death == "timeout" && opKind == "valid" {
			// slow is not hung: under load a heavy valid call (gzip -9 on 64 KiB of zeros takes
			// 1.5 s alone) may exceed the limit; the confirmation runs get three times as long
			rp = &c20Reporter{ctx: rp.ctx, perPrelim: rp.perPrelim, memMB: rp.memMB, opTimeout: 3 * rp.opTimeout, parent: rp}
		}
		if ok, _ := c20Fails(sc, o.death, rp.memMB, rp.opTimeout); !ok {
			// a worker that dies once under load and never again when its history runs alone is
			// not evidence about the codec: recorded, not reported
			ctx.Hist("c20.death-unconfirmed", key)
			ctx.Sample(map[string]any{"unconfirmed_death": key, "scenario": sc})
			if dbg := os.Getenv("C20_DEBUG_DIR"); dbg != "" {
				b, _ := json.Marshal(map[string]any{"key": key, "scenario": o.sc, "op": o.deathOp, "stderr": o.deathMsg})
				os.WriteFile(fmt.Sprintf("%s/death-%d.json", dbg, o.sc.ID), b, 0o644)
			}
			return
		}
		if o.death == "oom" {
			// an allocation that the input's own length header asks for once (snappy: a 5-byte
			// preamble may announce 4 GiB, reserved untouched, then "corrupt input" is returned)
			// dies under the worker's address-space limit only; unbounded growth dies under any
			// limit. Only the latter is a failure of the property.
			if big := c20RunBatch(nil, []c20Scenario{sc}, 4*rp.memMB, rp.opTimeout); len(big) == 1 && big[0].line != nil {
				ctx.Hist("c20.alloc-by-input-header", key) // the call returns when given the room
				ctx.Observe(codec+"-alloc-by-input-header",
					codec+".Decode reserves as much memory as the corrupted input's length header announces (snappy: up to 4 GiB for a 5-byte preamble) before reporting the corruption; it dies only under an address-space limit",
					map[string]any{"scenario": sc, "stderr": o.deathMsg})
				return
			}
		}
		// does the death need the history? (fresh codec value / history without failing decodes)
		if sc.Conc <= 1 && len(sc.Ops) > 1 {
			t := sc
			t.Ops = sc.Ops[len(sc.Ops)-1:]
			if ok, _ := c20Fails(t, o.death, rp.memMB, rp.opTimeout); !ok {
				t.Ops = nil
				for i, op := range sc.Ops {
					if op.K != "bad" || i == len(sc.Ops)-1 {
						t.Ops = append(t.Ops, op)
					}
				}
				if ok, _ := c20Fails(t, o.death, rp.memMB, rp.opTimeout); ok {
					key += "-after-history"
				} else {
					key += "-after-failed-decode"
				}
			}
		}
		ctx.Hist("c20.death", key)
		if !rp.admit(key) {
			return // counted in the histogram c20.death; the first occurrences carry the detail
		}
		budget := 12
		if o.death == "timeout" {
			budget = 2
		}
		min, last, confirmed := c20Shrink(sc, o.death, rp.memMB, rp.opTimeout, budget)
		if !confirmed {
			// a worker that dies once under load and never again when its history runs alone is
			// not evidence about the codec: recorded, not reported
			ctx.Hist("c20.death-unconfirmed", key)
			ctx.Sample(map[string]any{"unconfirmed_death": key, "scenario": sc})
			return
		}
		what := map[string]string{
			"oom":     "the worker process ran out of memory (address-space limit) during this call",
			"timeout": "the call did not return within the time limit",
			"crash":   "the worker process crashed during this call",
		}[o.death]
		if opKind == "malformed" {
			what = codec + ".Decode on a corrupted input: " + what
		} else {
			what = codec + " on VALID input: " + what
		}
		ctx.Fail("L1", key, what, map[string]any{"scenario": min, "confirmed_alone": confirmed, "stderr": last.deathMsg,
			"replay": "write [scenario] to a file and run: pqcheck -worker c20 <file> " + fmt.Sprint(rp.memMB)})
		return
	}
	// findings inside a surviving worker
	seen := map[string]bool{}
	for _, f := range o.line.Findings {
		var op c20Op
		if f.Op >= 0 && f.Op < len(o.sc.Ops) {
			op = o.sc.Ops[f.Op]
		}
		sig := f.Kind + "/" + op.K
		if seen[sig] {
			continue
		}
		seen[sig] = true
		sc := o.sc
		if sc.Conc <= 1 {
			sc.Ops = sc.Ops[:f.Op+1]
		}
		sc, key, confirmed := rp.classify(sc, f, op)
		ctx.Hist("c20.finding", key)
		if !rp.admit(key) {
			continue // counted in the histogram c20.finding; the first occurrences carry the detail
		}
		min, last := sc, o
		if confirmed {
			min, last, _ = c20Shrink(sc, f.Kind, rp.memMB, rp.opTimeout, 40)
		}
		msg := f.Msg
		if last.line != nil {
			for _, g := range last.line.Findings {
				if g.Kind == f.Kind {
					msg = g.Msg
				}
			}
		}
		what := fmt.Sprintf("%s: %s", codec, msg)
		switch {
		case strings.HasSuffix(key, "-stale-after-failed-decode"):
			what = fmt.Sprintf("%s: after a Decode that failed on a corrupted input, a later valid call on the same codec value goes wrong: %s", codec, msg)
		case strings.HasSuffix(key, "-malformed-panic"):
			what = fmt.Sprintf("%s.Decode panics on a corrupted input instead of returning an error: %s", codec, msg)
		}
		var results any
		if last.line != nil {
			results = last.line.Results
		}
		ctx.Fail("L1", key, what, map[string]any{"scenario": min, "confirmed_alone": confirmed, "op_results": results,
			"replay": "write [scenario] to a file and run: pqcheck -worker c20 <file> " + fmt.Sprint(rp.memMB)})
	}
}

// classify names the failing situation with at most three more worker runs: does the failure
// need a history at all, does it need the failing decodes of the history?
func (rp *c20Reporter) classify(sc c20Scenario, f c20Finding, op c20Op) (min c20Scenario, key string, confirmed bool) {
	codec := sc.Codec
	if f.Kind == "panic" && op.K == "bad" {
		ok, _ := c20Fails(sc, f.Kind, rp.memMB, rp.opTimeout)
		return sc, codec + "-malformed-panic", ok
	}
	kind := f.Kind
	if kind == "panic" {
		kind = "roundtrip-panic"
	}
	if ok, _ := c20Fails(sc, f.Kind, rp.memMB, rp.opTimeout); !ok {
		if sc.Conc <= 1 {
			return sc, codec + "-" + kind + "-unconfirmed", false
		}
		// the interleaving did not come back: do the same calls, one after the other on one
		// codec value, fail in the same way? then it is a matter of history, not of concurrency
		seq := sc
		seq.Conc = 0
		outs := c20RunBatch(nil, []c20Scenario{seq}, rp.memMB, rp.opTimeout)
		first := -1
		if len(outs) == 1 && outs[0].line != nil {
			for _, g := range outs[0].line.Findings {
				if g.Kind == f.Kind && (first < 0 || g.Op < first) {
					first = g.Op
				}
			}
		}
		if first < 0 {
			return sc, codec + "-concurrent-" + kind + "-unconfirmed", false
		}
		seq.Ops = seq.Ops[:first+1]
		sc = seq
	}
	if sc.Conc <= 1 {
		t := sc
		t.Ops = sc.Ops[len(sc.Ops)-1:]
		if ok, _ := c20Fails(t, f.Kind, rp.memMB, rp.opTimeout); ok {
			return sc, codec + "-" + kind + "-fresh", true
		}
	}
	t := sc
	t.Ops = nil
	nbad := 0
	for i, o := range sc.Ops {
		if o.K == "bad" && (sc.Conc > 1 || i < len(sc.Ops)-1) {
			nbad++
			continue
		}
		t.Ops = append(t.Ops, o)
	}
	if nbad > 0 {
		if ok, _ := c20Fails(t, f.Kind, rp.memMB, rp.opTimeout); !ok {
			return sc, codec + "-stale-after-failed-decode", true
		}
	}
	if sc.Conc > 1 {
		return sc, codec + "-concurrent-" + kind, true
	}
	return sc, codec + "-" + kind + "-after-history", true
}

// ---------------------------------------------------------------- the check

func RunC20(ctx *core.Ctx) {
	ctx.SetRule("history of Encode/Decode calls (round trips with every dst shape, decodes of truncated / extended / bit-flipped / random inputs) on ONE codec value of the real codec, then Decode(Encode(x)); plus pool-model traces; distinct by canonical history text; non-trivial = the history before the last round trip is non-empty")
	memMB, opTimeout := 3072, 12*time.Second
	if ctx.Thorough() {
		opTimeout = 60 * time.Second
	}
	if ctx.Replay != "" {
		c20Replay(ctx, memMB, opTimeout)
		return
	}
	t0 := time.Now()
	lens := c20Lengths(ctx)
	r := ctx.Rand("c20-histories")
	var scs []c20Scenario
	id := 0
	add := func(sc c20Scenario) {
		sc.ID = id
		id++
		scs = append(scs, sc)
	}
	// (0) corpus: minimised past failures, one scenario (JSON) per file, replayed first
	for _, fn := range ctx.CorpusFiles() {
		blob, err := os.ReadFile(fn)
		var sc c20Scenario
		if err != nil || json.Unmarshal(blob, &sc) != nil || sc.Codec == "" {
			ctx.Fail("L2", "corpus-unreadable", "cannot read corpus case "+fn, nil)
			continue
		}
		ctx.Hist("c20.corpus", sc.Codec)
		add(sc)
	}
	// (p) configuration probes (observations, not part of the property): an invalid Level in the
	// exported codec struct makes the writer constructor fail, which Compressor.Encode /
	// zstd.Codec.Encode turn into a panic on every call
	for _, codec := range []string{"gzip", "zstd"} {
		add(c20Scenario{Codec: codec, Level: 1000, TimeoutMs: 3000,
			Ops: []c20Op{{K: "rt", In: c20Input{Kind: "text", Len: 64, Seed: 1}, EDst: "nil", DDst: "nil"}}})
	}
	// (d) directed: one failing decode of every kind, then a valid round trip or an empty src,
	// for the dst shapes that select different paths of the read loops. Small inputs, short limit.
	for _, codec := range c20Codecs {
		for bi, bk := range []string{"truncate", "trailing", "flip", "garbage"} {
			for _, follow := range []string{"rt", "empty"} {
				for di, dd := range []string{"nil", "zero", "exactcap"} {
					in := c20Input{Kind: "text", Len: 257, Seed: int64(bi)}
					ops := []c20Op{
						{K: "rt", In: in, EDst: "nil", DDst: "nil"},
						{K: "bad", In: in, EDst: "nil", DDst: dd, Bad: c20Corrupt{Kind: bk, Pos: 100 + int64(di), N: 1 + bi + di, Seed: int64(7*bi + di)}},
					}
					if follow == "rt" {
						ops = append(ops, c20Op{K: "rt", In: c20Input{Kind: "alpha4", Len: 64, Seed: 3}, EDst: dd, DDst: dd})
					} else {
						ops = append(ops, c20Op{K: "bad", In: in, EDst: "nil", DDst: dd, Bad: c20Corrupt{Kind: "empty"}})
					}
					add(c20Scenario{Codec: codec, Level: 0, Ops: ops, TimeoutMs: 3000})
				}
			}
		}
	}
	// (r) recycling: a round trip with every dst shape, then the caller recycles ONE of the two
	// buffers it got back (the compressed page, or the decoded one) as the dst of the next Encode
	// or Decode and keeps the other; every codec x every Decode dst shape x a few Encode dst
	// shapes x {recycled buffer} x {call that gets it}. A result that shares memory with anything
	// but its own dst shows as "earlier-output-modified" one call later.
	for _, codec := range c20Codecs {
		for di, dd := range c20DstKinds[:len(c20DstKinds)-3] {
			for ri, rec := range []string{"lastenc", "lastdec"} {
				for wi, where := range []string{"enc", "dec"} {
					n1 := []int{257, 64, 4097}[(di+ri)%3]
					n2 := []int{64, 257, 300, 4097}[(di+wi)%4]
					op1 := c20Op{K: "rt", In: c20Input{Kind: []string{"text", "rand"}[di%2], Len: n1, Seed: int64(di)},
						EDst: []string{"nil", "zero", "exactcap", "srcp15"}[(di+ri+wi)%4], DDst: dd}
					op2 := c20Op{K: "rt", In: c20Input{Kind: "alpha4", Len: n2, Seed: int64(50 + di)}, EDst: "nil", DDst: "nil"}
					if where == "enc" {
						op2.EDst = rec
					} else {
						op2.DDst = rec
					}
					op3 := c20Op{K: "rt", In: c20Input{Kind: "runs", Len: n1, Seed: int64(90 + di)}, EDst: "lastdec", DDst: "lastenc"}
					ctx.Hist("c20.recycle", codec+"/"+rec+"-as-"+where+"-dst")
					add(c20Scenario{Codec: codec, Level: di + ri, Ops: []c20Op{op1, op2, op3}, TimeoutMs: 3000})
				}
			}
		}
	}
	// (e) capacity sweep: every codec x boundary lengths x {incompressible, compressible} x EVERY
	// Encode dst shape (capacities around len(src), around the worst-case bounds of the block
	// formats, around the size of the output itself) and, rotating, every Decode dst shape: the
	// region between "dst can hold the input" and "dst can hold the output" is where an encoder
	// that trusts the caller's buffer gives up silently. One fresh codec value per (length, kind).
	nHangDirected := len(scs) // the scenarios before this point carry short hang limits: own batches
	sweepLens := []int{0, 1, 15, 16, 17, 100, 254, 255, 256, 4096, 65536}
	for _, codec := range c20Codecs {
		for li, n := range sweepLens {
			for ki, kind := range []string{"rand", "text"} {
				var ops []c20Op
				for ei, ed := range c20EncDstKinds[:len(c20EncDstKinds)-1] {
					ops = append(ops, c20Op{K: "rt", In: c20Input{Kind: kind, Len: n, Seed: int64(1000 + li*13 + ei)},
						EDst: ed, DDst: c20DstKinds[(ei+li+ki)%(len(c20DstKinds)-1)]})
				}
				ctx.Hist("c20.capacity-sweep", codec+"/"+kind)
				add(c20Scenario{Codec: codec, Level: li + ki, Ops: ops, TimeoutMs: 60000}) // capacities, not hangs, are the subject
			}
		}
	}
	nDirected := len(scs)
	// (a) fresh codec value x every boundary length x input kind: single round trips
	for _, codec := range c20Codecs {
		for li, n := range lens {
			var ops []c20Op
			for ki, k := range c20InputKinds {
				ops = append(ops, c20Op{K: "rt", In: c20Input{Kind: k, Len: n, Seed: int64(li*7 + ki)},
					EDst: c20EncDstKinds[(li+ki)%len(c20EncDstKinds)], DDst: c20DstKinds[(li+2*ki+3)%len(c20DstKinds)]})
			}
			add(c20Scenario{Codec: codec, Level: li, Ops: ops})
		}
	}
	// (b) random histories with failing decodes on the same codec value
	nHist := ctx.Scale(150, 400)
	for _, codec := range c20Codecs {
		for h := 0; h < nHist; h++ {
			n := 2 + r.Intn(9)
			bad := 30
			var ops []c20Op
			for i := 0; i < n; i++ {
				ops = append(ops, c20RandOp(ctx, r, lens, bad))
			}
			ops[len(ops)-1].K = "rt" // a history always ends with the round trip under test
			add(c20Scenario{Codec: codec, Level: r.Intn(30), Ops: ops})
		}
	}
	// (L) large inputs: limits of the third-party streams (windows, block sizes, buffer growth)
	// depend on the level and only show beyond a few MiB: every exported level of every codec x
	// sizes around 4, 5 and 9 MiB (thorough: 17 MiB too, zstd 33 MiB) x incompressible /
	// compressible, one codec value per (level, size)
	var large []c20Scenario
	nLevels := map[string]int{"snappy": 2, "uncompressed": 2, "gzip": 6, "brotli": 5, "zstd": 5, "lz4": 5}
	largeSizes := []int{4<<20 + 1, 5 << 20, 9 << 20}
	if ctx.Thorough() {
		largeSizes = append(largeSizes, 17<<20+1)
	}
	for _, codec := range c20Codecs {
		for lv := 0; lv < nLevels[codec]; lv++ {
			if codec == "brotli" && lv == 4 {
				continue // quality 11: seconds per MiB
			}
			sizes := largeSizes
			if codec == "zstd" && ctx.Thorough() {
				sizes = append(append([]int{}, largeSizes...), 33<<20+1)
			}
			for si, n := range sizes {
				ops := []c20Op{
					{K: "rt", In: c20Input{Kind: "rand", Len: n, Seed: int64(lv*31 + si)}, EDst: "nil", DDst: []string{"nil", "exactcap", "smallcap"}[si%3]},
					{K: "rt", In: c20Input{Kind: "text", Len: n, Seed: int64(lv*37 + si)}, EDst: "zero", DDst: []string{"zero", "nil", "large"}[si%3]},
				}
				if !ctx.Thorough() && si == 1 {
					ops = ops[:1] // quick: the middle size with the incompressible input only
				}
				large = append(large, c20Scenario{Codec: codec, Level: lv, Ops: ops, TimeoutMs: 60000})
				ctx.Hist("c20.large", fmt.Sprintf("%s/level%d", codec, lv))
			}
		}
	}
	// (c) N goroutines sharing one codec value: valid round trips only, and with failing decodes
	nConc := ctx.Scale(12, 36)
	for _, codec := range c20Codecs {
		for h := 0; h < nConc; h++ {
			g := []int{2, 4, 8, 16}[r.Intn(4)]
			bad := 0
			if h%2 == 1 {
				bad = 25
			}
			var ops []c20Op
			for i := 0; i < g*(3+r.Intn(4)); i++ {
				op := c20RandOp(ctx, r, lens, bad)
				if op.EDst == "prev" {
					op.EDst = "nil"
				}
				ops = append(ops, op)
			}
			add(c20Scenario{Codec: codec, Level: r.Intn(30), Ops: ops, Conc: g})
		}
	}
	for i, sc := range scs {
		if i%97 == 0 && len(sc.Ops) > 1 {
			ctx.Sample(map[string]any{"codec": sc.Codec, "level": sc.Level, "conc": sc.Conc, "ops": sc.Ops[:2], "n_ops": len(sc.Ops)})
		}
	}
	// dispatch: shuffle so that every worker gets a mix, batches of ~12 scenarios
	// performance oddities of the third-party encoders that are outside this property and would
	// only produce time-outs: brotli quality 11 (zopfli) takes 0.5 s per 64 KiB, klauspost
	// gzip -9 takes 1.5 s for 64 KiB of zeros (and emits 8 KiB)
	for i := range scs {
		if scs[i].Codec == "brotli" && scs[i].Level%5 == 4 {
			if !ctx.Thorough() {
				scs[i].Level--
			} else {
				for j := range scs[i].Ops {
					if op := &scs[i].Ops[j]; op.In.Len > 65537 {
						op.In.Len = 65537
					}
				}
			}
		}
		if scs[i].Codec == "gzip" && scs[i].Level%6 == 2 {
			for j := range scs[i].Ops {
				if op := &scs[i].Ops[j]; op.In.Kind == "zero" && op.In.Len > 16384 {
					op.In.Kind = "runs"
				}
			}
		}
	}
	rs := ctx.Rand("c20-shuffle")
	rest := scs[nDirected:]
	rs.Shuffle(len(rest), func(i, j int) { rest[i], rest[j] = rest[j], rest[i] })
	const batch = 12
	jobs := make(chan []c20Scenario, len(scs)/batch+len(large)+2)
	// the large-input scenarios go first, one per job, so that they spread over the workers
	rs.Shuffle(len(large), func(i, j int) { large[i], large[j] = large[j], large[i] })
	for i := range large {
		large[i].ID = id
		id++
		jobs <- large[i : i+1]
	}
	for _, part := range [][]c20Scenario{scs[:nHangDirected], scs[nHangDirected:nDirected], rest} {
		for i := 0; i < len(part); i += batch {
			j := i + batch
			if j > len(part) {
				j = len(part)
			}
			jobs <- part[i:j]
		}
	}
	close(jobs)
	rp := &c20Reporter{ctx: ctx, perPrelim: map[string]int{}, memMB: memMB, opTimeout: opTimeout}
	var lz4L2 []c20Lz4Obs
	var blockObs []c20BlockObs
	nLargeObs, nBigGzip := 0, 0
	var mu sync.Mutex
	var wg sync.WaitGroup
	nw := runtime.GOMAXPROCS(0)
	if nw > 16 {
		nw = 16
	}
	var failing []c20Outcome
	for w := 0; w < nw; w++ {
		wg.Add(1)
		go func() {
			defer wg.Done()
			for b := range jobs {
				for _, o := range c20RunBatch(ctx, b, memMB, opTimeout) {
					if o.sc.Level >= 1000 { // configuration probe
						if o.line != nil {
							for _, f := range o.line.Findings {
								if f.Kind == "panic" {
									ctx.Observe(o.sc.Codec+"-invalid-level-encode-panics",
										o.sc.Codec+".Codec with a Level the third-party library rejects (gzip: 10, zstd: 99): every Encode panics ("+f.Msg+") instead of returning the constructor's error (compress.go:65 / zstd.go `panic(err)`); a configuration error, independent of the input",
										map[string]any{"scenario": o.sc, "repro": "(&gzip.Codec{Level: 10}).Encode(nil, []byte(\"x\")) / (&zstd.Codec{Level: 99}).Encode(nil, []byte(\"x\"))"})
								}
							}
						}
						continue
					}
					c20Account(ctx, o)
					mu.Lock()
					if o.line == nil || len(o.line.Findings) > 0 {
						failing = append(failing, o)
					}
					if o.line != nil {
						for i, res := range o.line.Results {
							if res.Enc != "" {
								if o.sc.Codec == "gzip" && o.sc.Ops[i].In.Len > 1<<17 {
									// a small gzip stream may stand for megabytes: the Lean reader takes
									// ~0.5 s per MiB of output, so only a sample of those
									if nBigGzip >= 24 {
										continue
									}
									nBigGzip++
								}
								if len(res.Enc) > 8192 {
									if nLargeObs >= 1500 { // bound the memory held for the spec-decoder pass
										continue
									}
									nLargeObs++
								}
								blockObs = append(blockObs, c20BlockObs{o.sc.Codec, o.sc.Level, o.sc.Ops[i].In, res.Enc})
							}
						}
					}
					if o.line != nil && o.sc.Codec == "lz4" {
						for i, res := range o.line.Results {
							if res.Status == "ok" && o.sc.Ops[i].K == "rt" {
								lz4L2 = append(lz4L2, c20Lz4Obs{o.sc, i, res})
							}
						}
					}
					mu.Unlock()
				}
			}
		}()
	}
	wg.Wait()
	fmt.Fprintf(os.Stderr, "[c20] L1 histories: %d scenarios in %.1fs, %d failing\n", len(scs)+len(large), time.Since(t0).Seconds(), len(failing))
	// analysis of failures (confirm alone, shrink, key): in scenario-id order for determinism
	sortOutcomes(failing)
	sem := make(chan struct{}, nw)
	var wg2 sync.WaitGroup
	for _, o := range failing {
		o := o
		// sequential admission keeps the choice of analysed scenarios deterministic
		wg2.Add(1)
		sem <- struct{}{}
		go func() {
			defer wg2.Done()
			rp.report(o)
			<-sem
		}()
	}
	wg2.Wait()
	fmt.Fprintf(os.Stderr, "[c20] failure analysis done at %.1fs\n", time.Since(t0).Seconds())
	c20Lz4L2(ctx, lz4L2)
	c20BlockFormats(ctx, blockObs, rp)
	c20PoolL2(ctx)
	fmt.Fprintf(os.Stderr, "[c20] L2 done at %.1fs\n", time.Since(t0).Seconds())
}

func sortOutcomes(o []c20Outcome) {
	for i := 1; i < len(o); i++ {
		for j := i; j > 0 && o[j].sc.ID < o[j-1].sc.ID; j-- {
			o[j], o[j-1] = o[j-1], o[j]
		}
	}
}

// c20Account counts cases and histograms of one executed scenario.
func c20Account(ctx *core.Ctx, o c20Outcome) {
	sc := o.sc
	var sb strings.Builder
	fmt.Fprintf(&sb, "%s/%d/c%d", sc.Codec, sc.Level, sc.Conc)
	for _, op := range sc.Ops {
		fmt.Fprintf(&sb, " %s:%s:%s:%s", op.K, op.In, op.EDst, op.DDst)
		if op.K == "bad" {
			fmt.Fprintf(&sb, ":%s/%d/%d/%d", op.Bad.Kind, op.Bad.Pos, op.Bad.N, op.Bad.Seed)
		}
	}
	ctx.Case(sb.String(), len(sc.Ops) >= 2)
	ctx.Hist("c20.codec", sc.Codec)
	if sc.Conc > 1 {
		ctx.Hist("c20.goroutines", fmt.Sprint(sc.Conc))
	}
	if o.line == nil {
		return
	}
	for i, res := range o.line.Results {
		op := sc.Ops[i]
		if op.K == "bad" {
			ctx.Hist("c20.bad-decode", sc.Codec+"/"+op.Bad.Kind+"/"+res.Status)
			if op.Bad.Kind == "truncate" && strings.HasPrefix(res.Status, "ok") && sc.Codec != "uncompressed" && res.EncLen > 0 {
				ctx.Observe(sc.Codec+"-truncated-input-accepted",
					sc.Codec+".Decode returns no error for a strict prefix of an encoder output (outside C20: the property is about Decode(Encode(x)))",
					map[string]any{"codec": sc.Codec, "level": sc.Level, "op": op, "status": res.Status})
			}
		} else {
			ctx.Hist("c20.roundtrip", sc.Codec+"/"+res.Status)
			ctx.Hist("c20.dst", "enc="+op.EDst)
			ctx.Hist("c20.dst", "dec="+op.DDst)
			ctx.Hist("c20.input", op.In.Kind)
			switch {
			case op.In.Len == 0:
				ctx.Hist("c20.len", "0")
			case op.In.Len < 256:
				ctx.Hist("c20.len", "1..255")
			case op.In.Len < 65535:
				ctx.Hist("c20.len", "256..65534")
			case op.In.Len <= 65537:
				ctx.Hist("c20.len", "65535..65537")
			case op.In.Len <= 4<<20:
				ctx.Hist("c20.len", "65538..4MiB")
			default:
				ctx.Hist("c20.len", ">4MiB")
			}
			if res.Status == "ok" && res.EncLen >= op.In.Len && op.In.Len > 0 {
				ctx.Hist("c20.compressibility", "incompressible")
			} else if res.Status == "ok" {
				ctx.Hist("c20.compressibility", "compressible")
			}
		}
	}
}

// ---------------------------------------------------------------- L2: lz4 grow-and-retry loop

type c20Lz4Obs struct {
	sc  c20Scenario
	op  int
	res c20OpResult
}

// The real Decode returns dst[:n] of the buffer the loop ended with: its capacity is the final
// buffer size, which the Lean mirror predicts from cap(dst), len(src) and the decoded length.
func c20Lz4L2(ctx *core.Ctx, obs []c20Lz4Obs) {
	if len(obs) == 0 {
		return
	}
	d := ctx.Driver()
	if d == nil {
		return
	}
	var reqs []string
	for _, o := range obs {
		reqs = append(reqs, fmt.Sprintf("codec.lz4 %d %d %d 64", o.res.DstCap, o.res.EncLen, o.sc.Ops[o.op].In.Len))
	}
	ans, err := d.AskMany(reqs)
	if err != nil {
		ctx.Fail("L2", "driver-error", err.Error(), nil)
		return
	}
	// Encode side: the slice returned by lz4.Codec.Encode is dst[:n] of the buffer handed to
	// CompressBlock; the mirror (PqModel/Lz4Encode.lean) says that buffer has
	// max(cap(dst), CompressBlockBound(len(src))) bytes — never less than the bound
	var ereqs []string
	var eobs []c20Lz4Obs
	for _, o := range obs {
		if o.res.EncDstCap > 0 && o.res.EncOutCap > 0 {
			ereqs = append(ereqs, fmt.Sprintf("codec.lz4encbuf %d %d", o.res.EncDstCap-1, o.sc.Ops[o.op].In.Len))
			eobs = append(eobs, o)
		}
	}
	if eans, err := d.AskMany(ereqs); err != nil {
		ctx.Fail("L2", "driver-error", err.Error(), nil)
	} else {
		for i, a := range eans {
			o := eobs[i]
			n := o.sc.Ops[o.op].In.Len
			switch dc := o.res.EncDstCap - 1; {
			case dc < n:
				ctx.Hist("c20.lz4.encode-dst", "cap<len(src)")
			case dc < n+n/255+16:
				ctx.Hist("c20.lz4.encode-dst", "len(src)<=cap<bound")
			default:
				ctx.Hist("c20.lz4.encode-dst", "cap>=bound")
			}
			if want := fmt.Sprintf("ok %d", o.res.EncOutCap-1); a != want {
				ctx.Fail("L2", "lz4-encode-buffer", "lz4.Codec.Encode handed CompressBlock another buffer size than the Lean mirror (max(cap(dst), CompressBlockBound(len(src))))",
					map[string]any{"request": ereqs[i], "model": a, "impl": want, "op": o.sc.Ops[o.op]})
			}
		}
	}
	for i, a := range ans {
		o := obs[i]
		want := fmt.Sprintf("ok %d", o.res.OutCap)
		if o.res.OutCap > o.res.DstCap && o.res.OutCap > 3*o.res.EncLen {
			ctx.Hist("c20.lz4.loop", "doubled")
		} else {
			ctx.Hist("c20.lz4.loop", "first-try")
		}
		if a != want {
			ctx.Fail("L2", "lz4-loop-final-buffer", "lz4.Codec.Decode ended with another buffer size than the Lean mirror of the grow-and-retry loop",
				map[string]any{"request": reqs[i], "model": a, "impl": want, "op": o.sc.Ops[o.op]})
		}
	}
}

// ---------------------------------------------------------------- replay

func c20Replay(ctx *core.Ctx, memMB int, opTimeout time.Duration) {
	blob, err := os.ReadFile(ctx.Replay)
	if err != nil {
		ctx.Fail("L2", "replay-unreadable", err.Error(), nil)
		return
	}
	var rep struct {
		Detail struct {
			Scenario c20Scenario `json:"scenario"`
		} `json:"detail"`
	}
	if err := json.Unmarshal(blob, &rep); err != nil || rep.Detail.Scenario.Codec == "" {
		ctx.Fail("L2", "replay-unreadable", "no scenario in replay file", nil)
		return
	}
	rp := &c20Reporter{ctx: ctx, perPrelim: map[string]int{}, memMB: memMB, opTimeout: opTimeout}
	for _, o := range c20RunBatch(ctx, []c20Scenario{rep.Detail.Scenario}, memMB, opTimeout) {
		c20Account(ctx, o)
		if o.line == nil || len(o.line.Findings) > 0 {
			rp.report(o)
		}
	}
}

// ---------------------------------------------------------------- Lean spec decoders / reference encoders

type c20BlockObs struct {
	codec string
	level int
	in    c20Input
	enc   string
}

// c20BlockFormats: (1) everything the REAL snappy / lz4 / gzip encoders produced in this run must
// be decoded to the original input by the Lean spec decoders (`codec.snappydec`, `codec.lz4dec`,
// PqModel/Spec/BlockCodecs.lean; `gzip.decode`, PqModel/Spec/Inflate.lean: RFC 1951 inflate +
// RFC 1952 member with CRC-32 and ISIZE) — an independent decoder agreeing with the third-party
// encoder on every sample; (2) streams made by the Lean reference encoders (proved decodable:
// snappy_dec_enc, lz4_dec_enc, gunzip_gzipStored) must be decoded to the same bytes by the REAL
// decoders (in a worker).
func c20BlockFormats(ctx *core.Ctx, obs []c20BlockObs, rp *c20Reporter) {
	t0 := time.Now()
	nd := 8
	var wg sync.WaitGroup
	for w := 0; w < nd; w++ {
		wg.Add(1)
		go func(w int) {
			defer wg.Done()
			d := ctx.Driver()
			if d == nil {
				return
			}
			var reqs, btReqs []string
			var mine []c20BlockObs
			flush := func() {
				if bt, err := d.AskMany(btReqs); err == nil && len(btReqs) > 0 {
					for _, a := range bt {
						seen := map[string]bool{}
						for _, t := range strings.Split(strings.TrimPrefix(a, "ok "), ",") {
							seen[map[string]string{"0": "stored", "1": "fixed-huffman", "2": "dynamic-huffman"}[t]] = true
						}
						delete(seen, "")
						for t := range seen {
							ctx.Hist("c20.gzip-blocks-read-by-spec", t)
						}
						if len(seen) > 1 {
							ctx.Hist("c20.gzip-blocks-read-by-spec", "mixed-types-in-one-stream")
						}
					}
				}
				btReqs = btReqs[:0]
				ans, err := d.AskMany(reqs)
				if err != nil {
					ctx.Fail("L2", "driver-error", err.Error(), nil)
				}
				for i, a := range ans {
					o := mine[i]
					want := "ok " + core.Hex(o.in.Bytes())
					ctx.Hist("c20.spec-decoder", o.codec+"/"+strings.SplitN(a, " ", 2)[0])
					if a != want {
						if len(a) > 200 {
							a = a[:200] + "…"
						}
						ctx.Fail("L1", o.codec+"-spec-decoder-disagrees",
							"the Lean spec decoder of the "+o.codec+" format does not read the real encoder's output back to the input",
							map[string]any{"codec": o.codec, "level": o.level, "input": o.in, "encoded_hex": o.enc, "spec_decoder": a})
					}
				}
				reqs, mine = reqs[:0], mine[:0]
			}
			for i := w; i < len(obs); i += nd {
				o := obs[i]
				ctx.Case("specdec "+o.codec+" "+o.in.String()+fmt.Sprint(o.level), o.in.Len >= 2)
				if o.codec == "gzip" {
					// RFC 1951 / RFC 1952 reader of PqModel/Spec/Inflate.lean: header, every block
					// type, CRC-32 and ISIZE
					reqs = append(reqs, "gzip.decode "+core.Hex(mustHex(o.enc)))
					if i%3 == 0 { // coverage: which block types did the spec reader walk through
						btReqs = append(btReqs, "inflate.btypes "+core.Hex(mustHex(o.enc)))
					}
				} else {
					reqs = append(reqs, "codec."+o.codec+"dec "+core.Hex(mustHex(o.enc)))
				}
				mine = append(mine, o)
				if len(reqs) >= 200 {
					flush()
				}
			}
			flush()
		}(w)
	}
	wg.Wait()
	// (2) reference encoders -> real decoders
	d := ctx.Driver()
	if d == nil {
		return
	}
	r := ctx.Rand("c20-refenc")
	n := ctx.Scale(300, 1500)
	var reqs []string
	var ins []c20Input
	var codecs []string
	lens := []int{0, 1, 2, 4, 5, 6, 14, 15, 16, 19, 20, 21, 63, 64, 65, 66, 129, 255, 269, 270, 274, 275, 300, 529, 530, 1000, 4096}
	// gzip.stored (proved: gunzip (gzipStored x) = x): stored blocks of 65535 bytes, so lengths
	// around one and two full blocks
	gzLens := []int{0, 1, 2, 255, 256, 4096, 65534, 65535, 65536, 65537, 131069, 131070, 131071, 140000}
	for i := 0; i < n; i++ {
		in := c20Input{Kind: []string{"runs", "zero", "alpha4", "text", "rand"}[r.Intn(5)], Len: lens[r.Intn(len(lens))], Seed: r.Int63n(1 << 40)}
		codec := []string{"snappy", "lz4"}[i%2]
		op := "codec." + codec + "enc "
		if codec == "snappy" && i%4 == 0 {
			op = "codec.snappyenclit "
		}
		if i%10 == 9 {
			codec, op = "gzip", "gzip.stored "
			in.Len = gzLens[(i/10)%len(gzLens)]
		}
		if i%10 == 4 {
			// raw DEFLATE from the fixed-Huffman literal encoder (proved: inflate_fixedLiterals_id);
			// the gzip member around it is made here
			codec, op = "gzip", "inflate.fixedenc "
		}
		if i%10 == 2 || i%10 == 7 {
			// raw DEFLATE from the greedy LZ77 + fixed-Huffman encoder (proved: inflate_deflateFixed_id):
			// length/distance pairs, overlapping ones on runs; window 1..32 keeps the matcher cheap
			codec, op = "gzip", fmt.Sprintf("inflate.lz77enc %d ", []int{1, 3, 8, 32}[(i/10)%4])
			if in.Len > 530 {
				in.Len = []int{257, 258, 259, 260, 261, 516, 517, 530}[(i/10)%8]
			}
		}
		reqs = append(reqs, op+core.Hex(in.Bytes()))
		ins, codecs = append(ins, in), append(codecs, codec)
	}
	ans, err := d.AskMany(reqs)
	if err != nil {
		ctx.Fail("L2", "driver-error", err.Error(), nil)
		return
	}
	bySc := map[string]*c20Scenario{}
	var order []string
	for i, a := range ans {
		if !strings.HasPrefix(a, "ok ") {
			ctx.Fail("L2", "refenc-model-rejects", "pqdriver did not answer ok", map[string]any{"request": reqs[i], "answer": a})
			continue
		}
		src := strings.TrimPrefix(a, "ok ")
		if src == "-" {
			src = ""
		}
		if strings.HasPrefix(reqs[i], "inflate.fixedenc ") || strings.HasPrefix(reqs[i], "inflate.lz77enc ") {
			x := ins[i].Bytes()
			if strings.HasPrefix(reqs[i], "inflate.lz77enc ") {
				// a stream shorter than the literal-only coding (>= 8 bits a byte) holds references
				ctx.Hist("c20.lz77enc", fmt.Sprintf("%s/with-references=%v", strings.Fields(reqs[i])[1], len(src)/2 < len(x)))
			}
			m := append([]byte{0x1f, 0x8b, 8, 0, 0, 0, 0, 0, 0, 255}, mustHex(src)...)
			m = binary.LittleEndian.AppendUint32(m, crc32.ChecksumIEEE(x))
			m = binary.LittleEndian.AppendUint32(m, uint32(len(x)))
			src = hex.EncodeToString(m)
		}
		k := fmt.Sprintf("%s/%d", codecs[i], i/12)
		sc := bySc[k]
		if sc == nil {
			sc = &c20Scenario{ID: 1000000 + len(order), Codec: codecs[i], Level: i % 30, TimeoutMs: 3000}
			bySc[k] = sc
			order = append(order, k)
		}
		sc.Ops = append(sc.Ops, c20Op{K: "ext", In: ins[i], Src: src, EDst: "nil", DDst: c20DstKinds[r.Intn(len(c20DstKinds)-1)]})
		ctx.Case("refenc "+codecs[i]+" "+ins[i].String(), ins[i].Len >= 2)
	}
	var scs []c20Scenario
	for _, k := range order {
		scs = append(scs, *bySc[k])
	}
	for _, o := range c20RunBatch(ctx, scs, rp.memMB, rp.opTimeout) {
		if o.line == nil {
			ctx.Fail("L1", o.sc.Codec+"-refenc-"+o.death, "the real decoder died on a stream from the Lean reference encoder", map[string]any{"scenario": o.sc, "stderr": o.deathMsg})
			continue
		}
		for _, res := range o.line.Results {
			ctx.Hist("c20.refenc", o.sc.Codec+"/"+res.Status)
		}
		for _, f := range o.line.Findings {
			ctx.Fail("L1", o.sc.Codec+"-"+f.Kind, o.sc.Codec+": "+f.Msg, map[string]any{"scenario": o.sc, "op": f.Op})
		}
	}
	fmt.Fprintf(os.Stderr, "[c20] formats: %d encoder outputs (snappy, lz4, gzip) through the Lean spec decoders, %d reference streams through the real decoders, %.1fs\n", len(obs), n, time.Since(t0).Seconds())
}

func mustHex(s string) []byte {
	b, _ := hex.DecodeString(s)
	return b
}
