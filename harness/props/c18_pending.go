package props

import (
	"bytes"
	"fmt"
	"io"
	"math/rand"
	"strings"
	"sync"

	"github.com/parquet-go/parquet-go"

	"verifharness/core"
)

// Sub-check "pending" (C18, round trip over the COLUMN-ORIENTED write API under encryption).
//
// An encrypting writer hands out row groups with BeginRowGroup (up to three alive at a time,
// reused after Commit); their columns are filled independently through
// ColumnWriters()[c].WriteRowValues (and, when the columns are level, through rg.WriteRows), with
// ColumnWriter.Flush, ColumnWriter.Close and rg.Flush called at arbitrary points before Commit;
// rows written through the parent writer are interleaved; the row groups are committed in any
// order, some never. Both footer modes, uniform / per-column / partial keys (c18RandEnc), page
// buffers of 64 bytes (every WriteRowValues ends in a Flush call) and 1 MiB; a tenth of the cases
// is a plaintext control (1 MiB buffers).
//
//   L1 (from the property statement and the documentation of the API, nothing from the code):
//       every call succeeds; Commit reports the rows written to the row group since its last
//       Commit; the closed file, opened with the right keys, has exactly the committed row groups
//       in commit order (the parent's pending rows before each), each with its row count and
//       exactly its rows; every module of the file opens with crypto/aes+GCM under its slot AAD.
//   L2: after every call on a column writer its state (awaitOrdinal, buffered rows, rows in written
//       pages, written pages; verif shim VerifColumnWriterPending) is the state of the Lean mirror
//       PqModel.C18Pending after the same events, and Commit reports the mirror's count (op
//       pend.run, guard=1).

func init() { RegisterSub("C18", "pending", RunC18Pending) }

type c18PRow struct {
	A int64    `parquet:"a,plain"`
	B *string  `parquet:"b,optional,dict"`
	C []int32  `parquet:"c"`
	D string   `parquet:"d,dict"`
	E *float64 `parquet:"e,optional"`
}

const c18PCols = 5

type c18PCase struct {
	Enc      *c18Enc // nil: plaintext control
	PageBuf  int
	Script   []string   // the calls on the real writer
	Events   []string   // the model events
	Observed []string   // the real observation after each model event
	Want     [][]string // the rows of each row group the file must have, in file order
	Data     []byte
	Err      error
	ErrAt    string
	L1       []string // violations seen while running (commit counts)
	Closes   int      // ColumnWriter.Close calls on a row group with buffered rows
	Commits  int
}

func (c *c18PCase) encDesc() string {
	if c.Enc == nil {
		return "none (plaintext control)"
	}
	return c.Enc.Desc()
}

func (c *c18PCase) detail(extra map[string]any) map[string]any {
	m := map[string]any{"schema": "c18PRow{a int64 plain, b *string optional dict, c []int32, d string dict, e *float64 optional} (harness/props/c18_pending.go)",
		"encryption": c.encDesc(), "options": fmt.Sprintf("PageBufferSize(%d) MaxRowsPerRowGroup(0)", c.PageBuf),
		"calls": c.Script, "row_groups_expected": c.Want, "model_events": strings.Join(c.Events, ",")}
	for k, v := range extra {
		m[k] = v
	}
	return m
}

func c18PFmtRow(row parquet.Row) string {
	var b strings.Builder
	for i, v := range row {
		if i > 0 {
			b.WriteByte(' ')
		}
		fmt.Fprintf(&b, "%+v", v)
	}
	return b.String()
}

// one live row group writer of the script
type c18PRg struct {
	rg   *parquet.ConcurrentRowGroupWriter
	id   int
	plan []parquet.Row // the rows of the row group being filled
	cur  [c18PCols]int // rows of the plan already written to each column
}

func c18PRun(r *rand.Rand) (pc *c18PCase) {
	schema := parquet.SchemaOf(c18PRow{})
	pc = &c18PCase{PageBuf: []int{64, 1 << 20}[r.Intn(2)]}
	if r.Intn(10) > 0 {
		pc.Enc = c18RandEnc(r, schema)
	} else {
		pc.PageBuf = 1 << 20
	}
	opts := []parquet.WriterOption{schema, parquet.PageBufferSize(pc.PageBuf), parquet.MaxRowsPerRowGroup(0)}
	if pc.Enc != nil {
		opts = append(opts, parquet.WithEncryption(pc.Enc.Config()))
	}
	fail := func(at string, err error) *c18PCase {
		pc.Err, pc.ErrAt = err, at
		return pc
	}
	defer func() {
		if p := recover(); p != nil {
			fail("panic", fmt.Errorf("PANIC: %v", p))
		}
	}()
	words := []string{"alpha", "bravo", "charlie", "", "delta-" + strings.Repeat("x", 40)}
	serial := int64(0)
	mkRow := func() parquet.Row {
		serial++
		v := c18PRow{A: serial<<20 | int64(r.Intn(1<<20)), D: words[r.Intn(len(words))]}
		if r.Intn(3) > 0 {
			s := words[r.Intn(len(words))]
			v.B = &s
		}
		for k := r.Intn(4); k > 0; k-- {
			v.C = append(v.C, int32(r.Intn(1000)))
		}
		if r.Intn(2) == 0 {
			f := float64(r.Intn(100)) / 4
			v.E = &f
		}
		return schema.Deconstruct(nil, &v).Clone()
	}
	colValues := func(rows []parquet.Row, c int) (vals []parquet.Value) {
		for _, row := range rows {
			row.Range(func(ci int, vs []parquet.Value) bool {
				if ci == c {
					vals = append(vals, vs...)
				}
				return true
			})
		}
		return vals
	}
	fmtRows := func(rows []parquet.Row) (out []string) {
		for _, row := range rows {
			out = append(out, c18PFmtRow(row))
		}
		return out
	}

	var out bytes.Buffer
	pw := parquet.NewWriter(&out, opts...)
	pc.Script = append(pc.Script, "w := NewWriter")
	var live []*c18PRg
	var ownPend []parquet.Row
	nbegun := 0
	observe := func(g *c18PRg, c int) {
		pc.Observed = append(pc.Observed, parquet.VerifColumnWriterPending(g.rg.ColumnWriters()[c]))
	}
	writeCol := func(g *c18PRg, c, k int) error {
		for len(g.plan) < g.cur[c]+k {
			g.plan = append(g.plan, mkRow())
		}
		vals := colValues(g.plan[g.cur[c]:g.cur[c]+k], c)
		n, err := g.rg.ColumnWriters()[c].WriteRowValues(vals)
		if err != nil {
			return err
		}
		pc.Script = append(pc.Script, fmt.Sprintf("rg%d.ColumnWriters()[%d].WriteRowValues(%d rows, %d values)", g.id, c, k, len(vals)))
		if n != k {
			pc.L1 = append(pc.L1, fmt.Sprintf("rg%d.ColumnWriters()[%d].WriteRowValues of %d rows reports %d rows", g.id, c, k, n))
		}
		g.cur[c] += k
		pc.Events = append(pc.Events, fmt.Sprintf("w:%d:%d:%d", g.id, c, k))
		observe(g, c)
		return nil
	}
	buffered := func(g *c18PRg) bool {
		for _, n := range g.cur {
			if n > 0 {
				return true
			}
		}
		return false
	}
	flushCol := func(g *c18PRg, c int) error {
		if err := g.rg.ColumnWriters()[c].Flush(); err != nil {
			return err
		}
		pc.Script = append(pc.Script, fmt.Sprintf("rg%d.ColumnWriters()[%d].Flush()", g.id, c))
		pc.Events = append(pc.Events, fmt.Sprintf("f:%d:%d", g.id, c))
		observe(g, c)
		return nil
	}
	closeCol := func(g *c18PRg, c int) error {
		if g.cur[c] > 0 {
			pc.Closes++
		}
		if err := g.rg.ColumnWriters()[c].Close(); err != nil {
			return err
		}
		pc.Script = append(pc.Script, fmt.Sprintf("rg%d.ColumnWriters()[%d].Close()", g.id, c))
		pc.Events = append(pc.Events, fmt.Sprintf("x:%d:%d", g.id, c))
		observe(g, c)
		return nil
	}
	commit := func(g *c18PRg) (string, error) {
		// level the columns: a row group is committed with whole rows only
		for c := 0; c < c18PCols; c++ {
			if k := len(g.plan) - g.cur[c]; k > 0 {
				if err := writeCol(g, c, k); err != nil {
					return "ColumnWriter.WriteRowValues", err
				}
			}
		}
		// "the column is complete: close its writer" (or flush it), on some or all columns
		switch r.Intn(4) {
		case 0:
			for c := 0; c < c18PCols; c++ {
				if err := closeCol(g, c); err != nil {
					return "ColumnWriter.Close", err
				}
			}
		case 1:
			for c := 0; c < c18PCols; c++ {
				switch r.Intn(3) {
				case 0:
					if err := closeCol(g, c); err != nil {
						return "ColumnWriter.Close", err
					}
				case 1:
					if err := flushCol(g, c); err != nil {
						return "ColumnWriter.Flush", err
					}
				}
			}
		}
		n, err := g.rg.Commit()
		if err != nil {
			return "rg.Commit", err
		}
		pc.Script = append(pc.Script, fmt.Sprintf("rg%d.Commit() = %d", g.id, n))
		pc.Events = append(pc.Events, fmt.Sprintf("c:%d", g.id))
		pc.Observed = append(pc.Observed, fmt.Sprintf("n%d", n))
		pc.Commits++
		if int(n) != len(g.plan) {
			pc.L1 = append(pc.L1, fmt.Sprintf("rg%d.Commit() reports %d rows, %d rows were written to every column of the row group since BeginRowGroup / its last Commit", g.id, n, len(g.plan)))
		}
		if len(ownPend) > 0 {
			pc.Want = append(pc.Want, fmtRows(ownPend))
			ownPend = nil
		}
		if len(g.plan) > 0 {
			pc.Want = append(pc.Want, fmtRows(g.plan))
		}
		g.plan, g.cur = nil, [c18PCols]int{}
		return "", nil
	}

	nsteps := 4 + r.Intn(24)
	for st := 0; st < nsteps; st++ {
		if len(live) == 0 || (len(live) < 3 && r.Intn(8) == 0) {
			g := &c18PRg{rg: pw.BeginRowGroup(), id: nbegun}
			nbegun++
			live = append(live, g)
			pc.Script = append(pc.Script, fmt.Sprintf("rg%d := w.BeginRowGroup()", g.id))
			pc.Events = append(pc.Events, "b")
			pc.Observed = append(pc.Observed, "b")
			continue
		}
		g := live[r.Intn(len(live))]
		switch x := r.Intn(20); {
		case x < 8: // rows into one column
			c := r.Intn(c18PCols)
			k := 1 + r.Intn(6)
			if r.Intn(8) == 0 {
				k = 30 + r.Intn(70)
			}
			if err := writeCol(g, c, k); err != nil {
				return fail("ColumnWriter.WriteRowValues", err)
			}
		case x < 10: // whole rows through the row group writer, when the columns are level
			level := true
			for _, n := range g.cur {
				level = level && n == len(g.plan)
			}
			if !level {
				continue
			}
			k := 1 + r.Intn(6)
			var rows []parquet.Row
			for i := 0; i < k; i++ {
				rows = append(rows, mkRow())
			}
			if n, err := g.rg.WriteRows(rows); err != nil || n != k {
				return fail("rg.WriteRows", fmt.Errorf("n=%d of %d err=%v", n, k, err))
			}
			g.plan = append(g.plan, rows...)
			pc.Script = append(pc.Script, fmt.Sprintf("rg%d.WriteRows(%d rows)", g.id, k))
			for c := 0; c < c18PCols; c++ {
				g.cur[c] += k
				pc.Events = append(pc.Events, fmt.Sprintf("w:%d:%d:%d", g.id, c, k))
				observe(g, c)
			}
		case x < 12:
			if err := flushCol(g, r.Intn(c18PCols)); err != nil {
				return fail("ColumnWriter.Flush", err)
			}
		case x < 15:
			if err := closeCol(g, r.Intn(c18PCols)); err != nil {
				return fail("ColumnWriter.Close", err)
			}
		case x < 16:
			if err := g.rg.Flush(); err != nil {
				return fail("rg.Flush", err)
			}
			pc.Script = append(pc.Script, fmt.Sprintf("rg%d.Flush()", g.id))
			for c := 0; c < c18PCols; c++ {
				pc.Events = append(pc.Events, fmt.Sprintf("f:%d:%d", g.id, c))
				observe(g, c)
			}
		case x < 17: // rows through the parent writer: flushed before the next committed row group
			k := 1 + r.Intn(4)
			var rows []parquet.Row
			for i := 0; i < k; i++ {
				rows = append(rows, mkRow())
			}
			if _, err := pw.WriteRows(rows); err != nil {
				return fail("w.WriteRows", err)
			}
			pc.Script = append(pc.Script, fmt.Sprintf("w.WriteRows(%d rows)", k))
			ownPend = append(ownPend, rows...)
		default:
			if !buffered(g) && r.Intn(4) > 0 {
				continue
			}
			if at, err := commit(g); err != nil {
				return fail(at, err)
			}
		}
	}
	// the row groups still being filled: committed in a random order, one in four abandoned
	r.Shuffle(len(live), func(i, j int) { live[i], live[j] = live[j], live[i] })
	for _, g := range live {
		if r.Intn(4) == 0 {
			pc.Script = append(pc.Script, fmt.Sprintf("(rg%d is never committed)", g.id))
			continue
		}
		if at, err := commit(g); err != nil {
			return fail(at, err)
		}
	}
	if err := pw.Close(); err != nil {
		return fail("w.Close", err)
	}
	pc.Script = append(pc.Script, "w.Close()")
	if len(ownPend) > 0 {
		pc.Want = append(pc.Want, fmtRows(ownPend))
	}
	pc.Data = append([]byte{}, out.Bytes()...)
	return pc
}

// c18PReadBack returns the rows of every row group of the file.
func c18PReadBack(file []byte, keys parquet.KeyRetriever) (groups [][]string, counts []int64, err error) {
	defer func() {
		if p := recover(); p != nil {
			err = fmt.Errorf("PANIC: %v", p)
		}
	}()
	var fopts []parquet.FileOption
	if keys != nil {
		fopts = append(fopts, parquet.WithDecryption(keys))
	}
	f, err := parquet.OpenFile(bytes.NewReader(file), int64(len(file)), fopts...)
	if err != nil {
		return nil, nil, err
	}
	for _, rg := range f.RowGroups() {
		counts = append(counts, rg.NumRows())
		var got []string
		rows := rg.Rows()
		buf := make([]parquet.Row, 37)
		for {
			k, err := rows.ReadRows(buf)
			for _, row := range buf[:k] {
				got = append(got, c18PFmtRow(row))
			}
			if err == io.EOF {
				break
			}
			if err != nil {
				rows.Close()
				return groups, counts, err
			}
			if k == 0 {
				rows.Close()
				return groups, counts, fmt.Errorf("ReadRows returned 0 rows and no error")
			}
		}
		rows.Close()
		groups = append(groups, got)
	}
	return groups, counts, nil
}

func c18PDiff(want, got []string) string {
	for i := 0; i < len(want) && i < len(got); i++ {
		if want[i] != got[i] {
			return fmt.Sprintf("row %d: written %q, read %q", i, want[i], got[i])
		}
	}
	if len(want) != len(got) {
		return fmt.Sprintf("%d rows written, %d read", len(want), len(got))
	}
	return ""
}

func RunC18Pending(ctx *core.Ctx) {
	ctx.SetRule(c18Rule + "; sub-check pending: histories of the column-oriented API on BeginRowGroup row groups of an encrypting writer (WriteRowValues per column, rg.WriteRows, ColumnWriter.Flush/Close and rg.Flush before Commit, up to 3 row groups alive, reused after Commit, committed in any order, rows of the parent writer interleaved); non-trivial = at least one ColumnWriter.Close on a column with buffered rows before a Commit, on an encrypting writer")
	d := ctx.Driver()
	if d == nil {
		return
	}
	ncases := ctx.Scale(3000, 30000)
	cases := make([]*c18PCase, ncases)
	var wg sync.WaitGroup
	for w := 0; w < 16; w++ {
		wg.Add(1)
		go func(w int) {
			defer wg.Done()
			r := ctx.Rand(fmt.Sprintf("c18/pending/%d", w))
			for i := w; i < ncases; i += 16 {
				cases[i] = c18PRun(r)
			}
		}(w)
	}
	wg.Wait()
	var reqs []string
	var refs []int
	for ci, pc := range cases {
		ctx.Case("pending|"+pc.encDesc()+fmt.Sprint("|", pc.PageBuf, "|")+strings.Join(pc.Script, ";"), pc.Enc != nil && pc.Closes > 0 && pc.Commits > 0)
		ctx.Hist("pending_encryption", map[bool]string{true: "encrypted", false: "plaintext-control"}[pc.Enc != nil])
		ctx.Hist("pending_close_calls_on_buffered_columns", c18Bucket(pc.Closes))
		ctx.Hist("pending_commits", c18Bucket(pc.Commits))
		ctx.Hist("pending_row_groups_in_file", c18Bucket(len(pc.Want)))
		ctx.Hist("pending_page_buffer", fmt.Sprint(pc.PageBuf))
		if ci == 0 {
			ctx.Sample(pc.detail(nil))
		}
		mode := "encrypted"
		if pc.Enc == nil {
			mode = "plaintext"
		}
		if pc.Err != nil {
			ctx.Fail("L1", "pending-write-error writer="+mode+" at="+pc.ErrAt+" "+c18ErrKind(pc.Err), "a call of a column-oriented write history fails: "+pc.Err.Error(), pc.detail(nil))
			continue
		}
		for _, v := range pc.L1 {
			ctx.Fail("L1", "pending-commit-row-count writer="+mode, v, pc.detail(nil))
			break
		}
		// L1: the file holds exactly the committed row groups
		var keys parquet.KeyRetriever
		if pc.Enc != nil {
			keys = pc.Enc.Keys()
		}
		got, counts, err := c18PReadBack(pc.Data, keys)
		switch {
		case err != nil:
			ctx.Fail("L1", "pending-file-unreadable writer="+mode+" "+c18ErrKind(err), "a file the writer closed without error cannot be read back with the right keys: "+err.Error(), pc.detail(nil))
		case len(got) != len(pc.Want):
			nw, ng := 0, 0
			for _, g := range pc.Want {
				nw += len(g)
			}
			for _, g := range got {
				ng += len(g)
			}
			ctx.Fail("L1", "pending-row-groups-missing writer="+mode, fmt.Sprintf("%d row groups (%d rows) were committed or closed into the file without error, the file read with the right keys has %d row groups (%d rows)", len(pc.Want), nw, len(got), ng), pc.detail(map[string]any{"row_counts_in_file": counts}))
		default:
			for j := range got {
				if int(counts[j]) != len(pc.Want[j]) {
					ctx.Fail("L1", "pending-row-group-row-count writer="+mode, fmt.Sprintf("row group %d of the file announces %d rows, %d were written", j, counts[j], len(pc.Want[j])), pc.detail(nil))
					break
				}
				if diff := c18PDiff(pc.Want[j], got[j]); diff != "" {
					ctx.Fail("L1", "pending-rows-differ writer="+mode, fmt.Sprintf("row group %d of the file does not read back as the rows written: %s", j, diff), pc.detail(map[string]any{"row_group_read": got[j]}))
					break
				}
			}
		}
		if pc.Enc != nil && err == nil {
			if _, lerr := c18Parse(pc.Data, pc.Enc.Keys(), c18AAD); lerr != nil {
				ctx.Fail("L1", "pending-module-not-under-slot-aad", "a module of the file does not open with crypto/aes+GCM under the AAD of its slot: "+lerr.Error(), pc.detail(nil))
			}
		}
		enc := 0
		if pc.Enc != nil {
			enc = 1
		}
		reqs = append(reqs, fmt.Sprintf("pend.run 1 %d %d %s", enc, c18PCols, strings.Join(pc.Events, ",")))
		refs = append(refs, ci)
	}
	ans, err := d.AskMany(reqs)
	if err != nil {
		ctx.Fail("L2", "driver-error", err.Error(), nil)
		return
	}
	for i, a := range ans {
		pc := cases[refs[i]]
		t := strings.Fields(a)
		if len(t) != 2 || t[0] != "ok" {
			ctx.Fail("L2", "driver-answer", "the model refused a column-writer history: "+truncate(a, 200), pc.detail(nil))
			continue
		}
		items := strings.Split(t[1], ",")
		if len(items) != len(pc.Observed) {
			ctx.Fail("L2", "driver-answer", fmt.Sprintf("%d items for %d events", len(items), len(pc.Observed)), pc.detail(nil))
			continue
		}
		for k, it := range items {
			ev := pc.Events[k]
			if strings.HasPrefix(ev, "c:") {
				it = strings.SplitN(it, "/", 2)[0]
			}
			if it != pc.Observed[k] {
				ctx.Fail("L2", "pending-state-differs event="+ev[:1], fmt.Sprintf("after event %d (%s) the real column writer is %s (awaitOrdinal.buffered rows.rows in pages.pages; n<rows> for Commit), the mirror %s", k, ev, pc.Observed[k], it),
					pc.detail(map[string]any{"observed": strings.Join(pc.Observed, ","), "mirror": t[1]}))
				break
			}
		}
	}
}
