package props

// C15 scenarios: every documented way of using the library from several goroutines, run once
// serially and once concurrently on the same inputs; the outputs (file bytes, rows, index contents)
// must be identical. The same functions are linked into cmd/pqrace, which is built with -race.

import (
	"reflect"
	"regexp"
	"runtime"
	"sync/atomic"
	"time"

	"github.com/parquet-go/parquet-go/format"

	"bytes"
	"crypto/sha256"
	"encoding/hex"
	"errors"
	"fmt"
	"io"
	"math/rand"
	"sort"
	"sync"

	"github.com/parquet-go/parquet-go"
	"github.com/parquet-go/parquet-go/compress"
	"github.com/parquet-go/parquet-go/encoding"
)

type C15Row struct {
	ID   int64    `parquet:"id"`
	Name string   `parquet:"name,dict"`
	Val  float64  `parquet:"val"`
	Tag  *int32   `parquet:"tag,optional"`
	Seq  []int32  `parquet:"seq,list"`
	Kind string   `parquet:"kind,delta"`
	Raw  []byte   `parquet:"raw"`
	Sub  C15Sub   `parquet:"sub"`
	Opt  *C15Sub  `parquet:"opt,optional"`
	Many []C15Sub `parquet:"many"`
}

type C15Sub struct {
	X int32  `parquet:"x"`
	Y string `parquet:"y,optional"`
}

type C15Flat struct {
	A int64  `parquet:"a"`
	B int32  `parquet:"b"`
	C string `parquet:"c"`
	D int64  `parquet:"d,delta"`
	E string `parquet:"e,dict"`
	F bool   `parquet:"f"`
}

// values shared by all goroutines of a scenario, on purpose
var (
	c15Codecs    = []compress.Codec{&parquet.Uncompressed, &parquet.Snappy, &parquet.Gzip, &parquet.Zstd, &parquet.Lz4Raw, &parquet.Brotli}
	c15Encodings = []encoding.Encoding{&parquet.Plain, &parquet.RLEDictionary, &parquet.DeltaBinaryPacked, &parquet.DeltaByteArray, &parquet.DeltaLengthByteArray}
)

func c15Rows(r *rand.Rand, n int, base int64) []C15Row {
	names := []string{"", "a", "bb", "ccc", "dddd", "eeeee", "\xff\xff", "zzzzzzzzzzzzzzzz"}
	rows := make([]C15Row, n)
	for i := range rows {
		row := &rows[i]
		row.ID = base + int64(i)
		row.Name = names[r.Intn(len(names))]
		row.Val = float64(r.Intn(1000)) / 8
		if r.Intn(3) > 0 {
			t := int32(r.Intn(100) - 50)
			row.Tag = &t
		}
		for j := r.Intn(4); j > 0; j-- {
			row.Seq = append(row.Seq, int32(r.Intn(1<<16)))
		}
		row.Kind = fmt.Sprintf("kind-%03d", r.Intn(20))
		row.Raw = make([]byte, r.Intn(12))
		r.Read(row.Raw)
		row.Sub = C15Sub{X: int32(i), Y: names[r.Intn(len(names))]}
		if r.Intn(2) == 0 {
			row.Opt = &C15Sub{X: int32(r.Intn(9)), Y: "o"}
		}
		for j := r.Intn(3); j > 0; j-- {
			row.Many = append(row.Many, C15Sub{X: int32(j), Y: names[r.Intn(len(names))]})
		}
	}
	return rows
}

func c15FlatRows(r *rand.Rand, n int) []C15Flat {
	rows := make([]C15Flat, n)
	for i := range rows {
		rows[i] = C15Flat{A: int64(i), B: int32(r.Intn(50)), C: fmt.Sprintf("c%05d", r.Intn(3000)), D: int64(i) * 3, E: fmt.Sprintf("e%d", r.Intn(7)), F: r.Intn(2) == 0}
	}
	return rows
}

// fanout runs f(0..n-1) either one after the other or in n goroutines released together.
func fanout(par bool, n int, f func(i int) error) error {
	errs := make([]error, n)
	if !par {
		for i := 0; i < n; i++ {
			errs[i] = f(i)
		}
		return errors.Join(errs...)
	}
	var wg sync.WaitGroup
	start := make(chan struct{})
	for i := 0; i < n; i++ {
		wg.Add(1)
		go func(i int) {
			defer wg.Done()
			defer func() {
				if p := recover(); p != nil {
					errs[i] = fmt.Errorf("panic in goroutine %d: %v", i, p)
				}
			}()
			<-start
			errs[i] = f(i)
		}(i)
	}
	close(start)
	wg.Wait()
	return errors.Join(errs...)
}

func digest(parts ...[]byte) string {
	h := sha256.New()
	for _, p := range parts {
		fmt.Fprintf(h, "%d:", len(p))
		h.Write(p)
	}
	return hex.EncodeToString(h.Sum(nil))[:32]
}

func digestStrings(ss []string) string {
	h := sha256.New()
	for _, s := range ss {
		fmt.Fprintf(h, "%d:%s", len(s), s)
	}
	return hex.EncodeToString(h.Sum(nil))[:32]
}

func c15WriteFile(rows []C15Row, opts ...parquet.WriterOption) ([]byte, error) {
	var buf bytes.Buffer
	w := parquet.NewGenericWriter[C15Row](&buf, opts...)
	for off := 0; off < len(rows); off += 37 {
		end := min(off+37, len(rows))
		if _, err := w.Write(rows[off:end]); err != nil {
			return nil, err
		}
	}
	if err := w.Close(); err != nil {
		return nil, err
	}
	return buf.Bytes(), nil
}

func c15WriterOptions(i int, schema *parquet.Schema, maxRows int64) []parquet.WriterOption {
	opts := []parquet.WriterOption{schema,
		parquet.Compression(c15Codecs[i%len(c15Codecs)]),
		parquet.PageBufferSize([]int{64, 300, 4096, 1 << 16}[i%4]),
		parquet.DataPageVersion(1 + i%2),
		parquet.MaxRowsPerRowGroup(maxRows),
		parquet.BloomFilters(parquet.SplitBlockFilter(10, "id"), parquet.SplitBlockFilter(10, "name")),
	}
	if i%3 == 0 {
		opts = append(opts, parquet.DefaultEncodingFor(parquet.Int64, c15Encodings[2]))
	}
	return opts
}

func c15ReadAll(data []byte, opts ...parquet.ReaderOption) (string, error) {
	return c15ReadAllFrom(bytes.NewReader(data), opts...)
}

func c15ReadAllFrom(input io.ReaderAt, opts ...parquet.ReaderOption) (string, error) {
	r := parquet.NewGenericReader[C15Row](input, opts...)
	defer r.Close()
	out := make([]C15Row, 0, r.NumRows())
	buf := make([]C15Row, 29)
	for {
		n, err := r.Read(buf)
		for _, row := range buf[:n] {
			out = append(out, row)
		}
		if err == io.EOF {
			break
		}
		if err != nil {
			return "", err
		}
		if n == 0 {
			return "", errors.New("Read returned 0 rows without error")
		}
	}
	return fmt.Sprintf("%d %s", len(out), digest([]byte(fmt.Sprintf("%+v", derefRows(out))))), nil
}

// derefRows renders rows without pointer addresses
func derefRows(rows []C15Row) []string {
	out := make([]string, len(rows))
	for i, r := range rows {
		tag, opt := "nil", "nil"
		if r.Tag != nil {
			tag = fmt.Sprint(*r.Tag)
		}
		if r.Opt != nil {
			opt = fmt.Sprintf("%+v", *r.Opt)
		}
		out[i] = fmt.Sprintf("%d|%q|%x|%s|%v|%q|%x|%+v|%s|%+v", r.ID, r.Name, r.Val, tag, r.Seq, r.Kind, r.Raw, r.Sub, opt, r.Many)
	}
	return out
}

func rowsText(rows []parquet.Row) string {
	var sb bytes.Buffer
	for _, row := range rows {
		for _, v := range row {
			fmt.Fprintf(&sb, "%d/%d/%d:%s,", v.Column(), v.RepetitionLevel(), v.DefinitionLevel(), v.String())
		}
		sb.WriteByte('\n')
	}
	return sb.String()
}

func readRowGroupRows(rg parquet.RowGroup) (string, error) {
	rows := rg.Rows()
	defer rows.Close()
	var sb bytes.Buffer
	buf := make([]parquet.Row, 17)
	for {
		n, err := rows.ReadRows(buf)
		sb.WriteString(rowsText(buf[:n]))
		if err == io.EOF {
			return sb.String(), nil
		}
		if err != nil {
			return "", err
		}
		if n == 0 {
			return "", errors.New("ReadRows returned 0 rows without error")
		}
	}
}

func readChunkPages(cc parquet.ColumnChunk) (string, error) {
	pages := cc.Pages()
	defer pages.Close()
	var sb bytes.Buffer
	vals := make([]parquet.Value, 64)
	for {
		p, err := pages.ReadPage()
		if err == io.EOF {
			return sb.String(), nil
		}
		if err != nil {
			return "", err
		}
		fmt.Fprintf(&sb, "page rows=%d values=%d nulls=%d:", p.NumRows(), p.NumValues(), p.NumNulls())
		vr := p.Values()
		for {
			n, err := vr.ReadValues(vals)
			for _, v := range vals[:n] {
				fmt.Fprintf(&sb, "%s,", v.String())
			}
			if err != nil {
				break
			}
		}
		sb.WriteByte('\n')
		parquet.Release(p)
	}
}

// ---------------------------------------------------------------- scenarios

type c15Scenario struct {
	Name string
	Doc  string
	Run  func(seed int64, par bool) (string, error)
	// SubprocessOnly: a failure mode of the scenario kills the process (fatal error: concurrent map
	// read and map write), so it runs only inside cmd/pqrace
	SubprocessOnly bool
}

var C15Scenarios = []c15Scenario{
	{"writers", "N independent writers (own buffer each) sharing one *Schema and the package-level codec and encoding values", scenWriters, false},
	{"readers", "N independent readers over the same bytes, sharing one *Schema", scenReaders, false},
	{"buffers", "N independent sorting buffers sharing one *Schema, flushed through independent writers", scenBuffers, false},
	{"sharedfile", "N goroutines on one *parquet.File: Rows, Pages, ColumnIndex/OffsetIndex (lazily published), BloomFilter", scenSharedFile, false},
	{"columnwriters", "one goroutine per ColumnWriter of one Writer", scenColumnWriters, false},
	{"rowgroups", "row groups from BeginRowGroup filled concurrently, committed in order", scenRowGroups, false},
	{"rowgroups-pipelined", "as rowgroups, but each row group is committed (in order) while later ones are still being filled", scenRowGroupsPipelined, false},
	{"rowgroups-reuse", "k row group writers from BeginRowGroup filled concurrently, committed in order and reused after Commit for further rounds (Commit: \"the row group will be empty and can be reused\"), plain and encrypting writers, rows written through the parent writer between rounds; the file must decrypt and hold exactly the rows written, row group by row group", scenRowGroupsReuse, false},
	{"keptrows", "N goroutines on one *parquet.File each read part of a row group (stopping in the middle of a page), close their reader and keep the rows (byte-array values stay valid after the reader is gone: their buffer is detached from the pools) while the other goroutines go on reading", scenKeptRows, false},
	{"keptviews", "N goroutines on one *parquet.File read rows through row readers over the file's row groups and over every public view of them (ConvertRowGroup with a target that only moves columns, MultiRowGroup, MergeRowGroups without sorting columns, AsyncRowGroup, compositions), made by view.Rows(), NewRowGroupRowReader and NewColumnChunkRowReader(ColumnChunks()); they keep every row while reading on across page boundaries, seeking and closing; every kept row must hold the values written (from the Go input, by column path) at hand-over and at the end, while the other goroutines go on reading", scenKeptViews, false},
	{"asyncfile", "N goroutines reading one file opened in ReadModeAsync (rows and seeks), compared with sync mode", scenAsyncFile, false},
	{"schema", "one fresh *Schema (lazy state not yet built) and the shared codecs used from N goroutines at once", scenSchema, false},
	{"samekey", "process-wide registries and caches hit by N goroutines with the SAME never-before-seen key at nearly the same moment (one ReadBufferSize, one Go struct type for SchemaOf, one large Go struct type written through the reflection path of the writers: struct field cache), late-comers arriving while the first goroutine builds the entry; what each goroutine wrote is checked against its input", scenSameKey, true},
	{"registries", "process-wide registries and caches: independent Files opened with never-before-seen ReadBufferSize values (bufio.Reader pool registry), never-before-seen Go struct types (schema cache, struct field cache), encoding/codec lookups", scenRegistries, true},
}

func C15ScenarioByName(name string) *c15Scenario {
	for i := range C15Scenarios {
		if C15Scenarios[i].Name == name {
			return &C15Scenarios[i]
		}
	}
	return nil
}

// c15ScenarioKey: a scenario that checks its result against the input itself (not only against the
// serial run) names the situation in brackets at the start of its error; the failure key is
// "<that name> <scenario>", otherwise "scenario-differs-from-serial <scenario>".
var c15KeyRe = regexp.MustCompile(`\[([a-z][a-z0-9-]+)\] `)

func c15ScenarioKey(name, text string) string {
	if m := c15KeyRe.FindStringSubmatch(text); m != nil {
		return m[1] + " " + name
	}
	return "scenario-differs-from-serial " + name
}

// C15RunScenario runs the serial and the concurrent variant and compares them.
func C15RunScenario(name string, seed int64) (serial, concurrent string, err error) {
	s := C15ScenarioByName(name)
	if s == nil {
		return "", "", fmt.Errorf("unknown scenario %q", name)
	}
	serial, err = s.Run(seed, false)
	if err != nil {
		return serial, "", fmt.Errorf("serial run failed: %w", err)
	}
	concurrent, err = s.Run(seed, true)
	if err != nil {
		return serial, concurrent, fmt.Errorf("concurrent run failed: %w", err)
	}
	if serial != concurrent {
		return serial, concurrent, fmt.Errorf("outputs differ: serial %s concurrent %s", serial, concurrent)
	}
	return serial, concurrent, nil
}

const c15N = 8

func scenWriters(seed int64, par bool) (string, error) {
	schema := parquet.SchemaOf(C15Row{})
	outs := make([][]byte, c15N)
	err := fanout(par, c15N, func(i int) error {
		rows := c15Rows(rand.New(rand.NewSource(seed*131+int64(i))), 150+i*13, int64(i)*1000)
		b, err := c15WriteFile(rows, c15WriterOptions(i, schema, []int64{50, 1000}[i/2%2])...)
		outs[i] = b
		return err
	})
	return digest(outs...), err
}

func scenReaders(seed int64, par bool) (string, error) {
	schema := parquet.SchemaOf(C15Row{})
	rows := c15Rows(rand.New(rand.NewSource(seed)), 400, 0)
	data, err := c15WriteFile(rows, c15WriterOptions(int(seed%12), schema, []int64{50, 1000}[seed%2])...)
	if err != nil {
		return "", err
	}
	outs := make([]string, c15N)
	err = fanout(par, c15N, func(i int) error {
		var opts []parquet.ReaderOption
		if i%2 == 0 {
			opts = append(opts, schema)
		}
		var input io.ReaderAt = bytes.NewReader(data)
		if i%3 == 0 {
			f, err := parquet.OpenFile(bytes.NewReader(data), int64(len(data)), parquet.FileReadMode(parquet.ReadModeAsync))
			if err != nil {
				return err
			}
			input = f
		}
		s, err := c15ReadAllFrom(input, opts...)
		outs[i] = s
		return err
	})
	for i := 1; i < c15N; i++ {
		if err == nil && outs[i] != outs[0] {
			err = fmt.Errorf("reader %d read different rows than reader 0", i)
		}
	}
	return digestStrings(outs), err
}

func scenBuffers(seed int64, par bool) (string, error) {
	// C15Flat: sorting a buffer that has optional columns fails on its own (property C10), so the
	// concurrency scenario uses required columns only
	schema := parquet.SchemaOf(C15Flat{})
	outs := make([][]byte, c15N)
	err := fanout(par, c15N, func(i int) error {
		r := rand.New(rand.NewSource(seed*977 + int64(i)))
		rows := c15FlatRows(r, 400+i*7)
		r.Shuffle(len(rows), func(a, b int) { rows[a], rows[b] = rows[b], rows[a] })
		buf := parquet.NewGenericBuffer[C15Flat](schema, parquet.SortingRowGroupConfig(parquet.SortingColumns(parquet.Ascending("a"))))
		if _, err := buf.Write(rows); err != nil {
			return err
		}
		sort.Stable(buf)
		var out bytes.Buffer
		w := parquet.NewGenericWriter[C15Flat](&out, schema, parquet.Compression(c15Codecs[i%len(c15Codecs)]), parquet.PageBufferSize(512))
		if _, err := w.WriteRowGroup(buf); err != nil {
			return err
		}
		if err := w.Close(); err != nil {
			return err
		}
		back, err := parquet.Read[C15Flat](bytes.NewReader(out.Bytes()), int64(out.Len()))
		if err != nil {
			return err
		}
		for k := range back {
			if back[k].A != int64(k) {
				return fmt.Errorf("buffer %d: row %d has a=%d after sorting", i, k, back[k].A)
			}
		}
		outs[i] = append(out.Bytes(), fmt.Sprintf("%+v", back)...)
		return nil
	})
	return digest(outs...), err
}

// c15SlowReaderAt is slow storage: every read takes a little while (and gives the processor away),
// which widens the window of every lazy load made on behalf of one goroutine while the others arrive.
// It holds no state shared between goroutines (a lock or counter here would order the goroutines'
// memory accesses and hide races from the race detector). Only coverage depends on it, no verdict.
type c15SlowReaderAt struct {
	r    io.ReaderAt
	slow bool
}

func (s c15SlowReaderAt) ReadAt(p []byte, off int64) (int, error) {
	if s.slow {
		time.Sleep(40 * time.Microsecond)
		runtime.Gosched()
	}
	return s.r.ReadAt(p, off)
}

// scenSharedFile: one *File, n goroutines in groups of four tasks (rows, pages, page indexes, bloom
// filters), so that at least three goroutines perform every task on the same column chunks at the
// same time. The class covered is "state of an opened File that is loaded on first use": the File is
// opened in every mode that defers a different part of the loading (page indexes and bloom filter
// headers skipped at open: CAS-published pointers; bloom filter bits compressed: gunzipped by the
// first Check; everything prefetched), over slow storage in the concurrent run.
func scenSharedFile(seed int64, par bool) (string, error) {
	schema := parquet.SchemaOf(C15Row{})
	rows := c15Rows(rand.New(rand.NewSource(seed)), 270, 0)
	var all []string
	for fileKind := 0; fileKind < 2; fileKind++ {
		wopts := c15WriterOptions(int(seed%12), schema, 100) // several row groups
		if fileKind == 1 {
			wopts = append(wopts, parquet.BloomFilterCompression(&parquet.Gzip))
		}
		data, err := c15WriteFile(rows, wopts...)
		if err != nil {
			return "", err
		}
		modes := [][]parquet.FileOption{
			{parquet.SkipPageIndex(true), parquet.SkipBloomFilters(true)},
			{parquet.SkipPageIndex(false), parquet.SkipBloomFilters(false)},
		}
		modeNames := []string{"lazy", "eager"}
		if (seed+int64(fileKind))%2 == 0 {
			modes = append(modes, []parquet.FileOption{parquet.PrefetchBloomFilters(true), parquet.OptimisticRead(true)})
			modeNames = append(modeNames, "prefetch")
		}
		var first []string
		for m, fopts := range modes {
			what := fmt.Sprintf("open mode %s, bloom filters %s", modeNames[m], []string{"uncompressed", "gzip"}[fileKind])
			f, err := parquet.OpenFile(c15SlowReaderAt{bytes.NewReader(data), par}, int64(len(data)), fopts...)
			if err != nil {
				return "", err
			}
			outs, err := c15SharedFileTasks(f, par, what)
			if err != nil {
				return "", err
			}
			if first == nil {
				first = outs
			}
			for task := 0; task < 4; task++ {
				if outs[task] != first[task] {
					return "", fmt.Errorf("[shared-file-open-modes-differ] task kind %d reads different content from the same bytes with %s than with open mode %s", task, what, modeNames[0])
				}
			}
			all = append(all, outs...)
		}
	}
	return digestStrings(all), nil
}

func c15SharedFileTasks(f *parquet.File, par bool, what string) ([]string, error) {
	const n = 12
	outs := make([]string, n)
	type ptrs struct {
		ci []parquet.ColumnIndex
		oi []parquet.OffsetIndex
		bf []parquet.BloomFilter
	}
	seen := make([]ptrs, n)
	err := fanout(par, n, func(i int) error {
		var sb bytes.Buffer
		rgs := f.RowGroups()
		switch i % 4 {
		case 0: // rows of every row group
			for _, rg := range rgs {
				s, err := readRowGroupRows(rg)
				if err != nil {
					return err
				}
				sb.WriteString(s)
			}
		case 1: // pages of every column chunk
			for _, rg := range rgs {
				for _, cc := range rg.ColumnChunks() {
					s, err := readChunkPages(cc)
					if err != nil {
						return err
					}
					sb.WriteString(s)
				}
			}
		case 2: // page indexes
			for _, rg := range rgs {
				for _, cc := range rg.ColumnChunks() {
					ci, err := cc.ColumnIndex()
					if err != nil {
						return err
					}
					oi, err := cc.OffsetIndex()
					if err != nil {
						return err
					}
					seen[i].ci = append(seen[i].ci, ci)
					seen[i].oi = append(seen[i].oi, oi)
					for p := 0; p < ci.NumPages(); p++ {
						fmt.Fprintf(&sb, "%s..%s n%d %v|", ci.MinValue(p).String(), ci.MaxValue(p).String(), ci.NullCount(p), ci.NullPage(p))
					}
					for p := 0; p < oi.NumPages(); p++ {
						fmt.Fprintf(&sb, "@%d+%d r%d|", oi.Offset(p), oi.CompressedPageSize(p), oi.FirstRowIndex(p))
					}
					sb.WriteByte('\n')
				}
			}
		case 3: // bloom filters
			for g, rg := range rgs {
				for c, cc := range rg.ColumnChunks() {
					bf := cc.BloomFilter()
					seen[i].bf = append(seen[i].bf, bf)
					if bf == nil {
						continue
					}
					for probe := int64(0); probe < 40; probe++ {
						var v parquet.Value
						if c == 0 {
							v = parquet.Int64Value(probe * 25)
						} else {
							v = parquet.ByteArrayValue([]byte(fmt.Sprintf("%c", 'a'+byte(probe%26))))
						}
						ok, err := bf.Check(v)
						if err != nil {
							return fmt.Errorf("[shared-file-bloom-check-fails] goroutine %d: BloomFilter().Check(%s) on row group %d column %d (%s): %w", i, v, g, c, what, err)
						}
						fmt.Fprintf(&sb, "%d:%v,", bf.Size(), ok)
					}
				}
			}
		}
		outs[i] = sb.String()
		return nil
	})
	if err != nil {
		return nil, err
	}
	// all goroutines must have observed one pointer per column chunk
	for i := 4; i < n; i++ {
		j := i % 4
		for k := range seen[i].ci {
			if seen[i].ci[k] != seen[j].ci[k] || seen[i].oi[k] != seen[j].oi[k] {
				return nil, fmt.Errorf("goroutines %d and %d observed different page index pointers for chunk %d (%s)", i, j, k, what)
			}
		}
		for k := range seen[i].bf {
			if seen[i].bf[k] != seen[j].bf[k] {
				return nil, fmt.Errorf("goroutines %d and %d observed different bloom filter pointers for chunk %d (%s)", i, j, k, what)
			}
		}
		if outs[i] != outs[j] {
			return nil, fmt.Errorf("[shared-file-goroutines-differ] goroutines %d and %d performed the same reads on one File and got different content (task kind %d, %s): %s", i, j, j, what, c15FirstDiffText(outs[j], outs[i]))
		}
	}
	return outs, nil
}

func c15FirstDiffText(a, b string) string {
	x, y := c15FirstDiff(a, b)
	return x + " vs " + y
}

// transpose rows into per-column, per-row value slices
func c15Columns[T any](schema *parquet.Schema, rows []T) [][][]parquet.Value {
	cols := make([][][]parquet.Value, len(schema.Columns()))
	for c := range cols {
		cols[c] = make([][]parquet.Value, len(rows))
	}
	for i := range rows {
		row := schema.Deconstruct(nil, &rows[i])
		for _, v := range row {
			c := v.Column()
			cols[c][i] = append(cols[c][i], v.Clone())
		}
	}
	return cols
}

func scenColumnWriters(seed int64, par bool) (string, error) {
	var outs [][]byte
	for variant := 0; variant < 3; variant++ {
		var buf bytes.Buffer
		var nCols int
		var write func(c int) error
		var closeW func() error
		opts := []parquet.WriterOption{parquet.PageBufferSize([]int{128, 2048, 1 << 16}[variant]), parquet.Compression(c15Codecs[(int(seed)+variant)%len(c15Codecs)]), parquet.DataPageVersion(1 + variant%2)}
		if variant < 2 {
			schema := parquet.SchemaOf(C15Row{})
			rows := c15Rows(rand.New(rand.NewSource(seed+int64(variant))), 300, 0)
			cols := c15Columns(schema, rows)
			w := parquet.NewGenericWriter[C15Row](&buf, append(opts, parquet.WriterOption(schema))...)
			nCols, closeW = len(cols), w.Close
			write = func(c int) error { return c15WriteColumn(w.ColumnWriters()[c], cols[c], variant == 1) }
		} else {
			schema := parquet.SchemaOf(C15Flat{})
			rows := c15FlatRows(rand.New(rand.NewSource(seed)), 1000)
			cols := c15Columns(schema, rows)
			w := parquet.NewGenericWriter[C15Flat](&buf, append(opts, parquet.WriterOption(schema))...)
			nCols, closeW = len(cols), w.Close
			write = func(c int) error { return c15WriteColumn(w.ColumnWriters()[c], cols[c], false) }
		}
		if err := fanout(par, nCols, write); err != nil {
			return "", err
		}
		if err := closeW(); err != nil {
			return "", err
		}
		if variant < 2 {
			txt, err := c15ReadAll(buf.Bytes())
			if err != nil {
				return "", fmt.Errorf("reading back the column-written file: %w", err)
			}
			outs = append(outs, []byte(txt))
		}
		outs = append(outs, buf.Bytes())
	}
	return digest(outs...), nil
}

func c15WriteColumn(cw *parquet.ColumnWriter, rows [][]parquet.Value, closeAfter bool) error {
	const chunk = 64
	var flat []parquet.Value
	for off := 0; off < len(rows); off += chunk {
		end := min(off+chunk, len(rows))
		flat = flat[:0]
		for _, r := range rows[off:end] {
			flat = append(flat, r...)
		}
		n, err := cw.WriteRowValues(flat)
		if err != nil {
			return err
		}
		if n != end-off {
			return fmt.Errorf("WriteRowValues wrote %d rows, want %d", n, end-off)
		}
	}
	if closeAfter {
		return cw.Close()
	}
	return nil
}

func c15RowGroupInputs(seed int64, schema *parquet.Schema) [][]parquet.Row {
	const k = 6
	groups := make([][]parquet.Row, k)
	base := int64(0)
	for g := range groups {
		rows := c15Rows(rand.New(rand.NewSource(seed*31+int64(g))), 60+g*25, base)
		base += int64(len(rows))
		for i := range rows {
			groups[g] = append(groups[g], schema.Deconstruct(nil, &rows[i]).Clone())
		}
	}
	return groups
}

func c15FillRowGroup(rg *parquet.ConcurrentRowGroupWriter, rows []parquet.Row) error {
	for off := 0; off < len(rows); off += 23 {
		end := min(off+23, len(rows))
		if _, err := rg.WriteRows(rows[off:end]); err != nil {
			return err
		}
	}
	return nil
}

func scenRowGroups(seed int64, par bool) (string, error) {
	schema := parquet.SchemaOf(C15Row{})
	groups := c15RowGroupInputs(seed, schema)
	var buf bytes.Buffer
	w := parquet.NewGenericWriter[C15Row](&buf, c15WriterOptions(int(seed%12), schema, 1000)...)
	rgs := make([]*parquet.ConcurrentRowGroupWriter, len(groups))
	if par {
		// as in the documentation of BeginRowGroup: create, fill concurrently, commit in order
		for g := range groups {
			rgs[g] = w.BeginRowGroup()
		}
		if err := fanout(true, len(groups), func(g int) error { return c15FillRowGroup(rgs[g], groups[g]) }); err != nil {
			return "", err
		}
		for g := range groups {
			if _, err := rgs[g].Commit(); err != nil {
				return "", err
			}
		}
	} else {
		for g := range groups {
			rg := w.BeginRowGroup()
			if err := c15FillRowGroup(rg, groups[g]); err != nil {
				return "", err
			}
			if _, err := rg.Commit(); err != nil {
				return "", err
			}
		}
	}
	if err := w.Close(); err != nil {
		return "", err
	}
	txt, err := c15ReadAll(buf.Bytes())
	if err != nil {
		return "", err
	}
	return digest(buf.Bytes(), []byte(txt)), nil
}

func scenRowGroupsPipelined(seed int64, par bool) (string, error) {
	schema := parquet.SchemaOf(C15Row{})
	groups := c15RowGroupInputs(seed, schema)
	var buf bytes.Buffer
	w := parquet.NewGenericWriter[C15Row](&buf, c15WriterOptions(int(seed%12), schema, 1000)...)
	rgs := make([]*parquet.ConcurrentRowGroupWriter, len(groups))
	for g := range groups {
		rgs[g] = w.BeginRowGroup()
	}
	turn := make([]chan struct{}, len(groups)+1)
	for i := range turn {
		turn[i] = make(chan struct{})
	}
	close(turn[0])
	err := fanout(par, len(groups), func(g int) error {
		if err := c15FillRowGroup(rgs[g], groups[g]); err != nil {
			close(turn[g+1])
			return err
		}
		<-turn[g] // commits are serial and in order
		_, err := rgs[g].Commit()
		close(turn[g+1])
		return err
	})
	if err != nil {
		return "", err
	}
	if err := w.Close(); err != nil {
		return "", err
	}
	txt, err := c15ReadAll(buf.Bytes())
	if err != nil {
		return "", err
	}
	return digest(buf.Bytes(), []byte(txt)), nil
}

func scenAsyncFile(seed int64, par bool) (string, error) {
	schema := parquet.SchemaOf(C15Row{})
	rows := c15Rows(rand.New(rand.NewSource(seed)), 600, 0)
	data, err := c15WriteFile(rows, c15WriterOptions(int(seed%12), schema, 150)...)
	if err != nil {
		return "", err
	}
	var modes [2][]string
	for m, mode := range []parquet.ReadMode{parquet.ReadModeSync, parquet.ReadModeAsync} {
		f, err := parquet.OpenFile(bytes.NewReader(data), int64(len(data)), parquet.FileReadMode(mode))
		if err != nil {
			return "", err
		}
		outs := make([]string, c15N)
		err = fanout(par, c15N, func(i int) error {
			r := rand.New(rand.NewSource(seed + int64(i)))
			var sb bytes.Buffer
			for _, rg := range f.RowGroups() {
				rr := rg.Rows()
				buf := make([]parquet.Row, 9)
				for step := 0; step < 12; step++ {
					if r.Intn(3) == 0 {
						k := int64(r.Intn(int(rg.NumRows()) + 2))
						if err := rr.SeekToRow(k); err != nil {
							rr.Close()
							return err
						}
						fmt.Fprintf(&sb, "seek %d\n", k)
					}
					n, err := rr.ReadRows(buf[:1+r.Intn(8)])
					sb.WriteString(rowsText(buf[:n]))
					if err != nil && err != io.EOF {
						rr.Close()
						return err
					}
				}
				if err := rr.Close(); err != nil {
					return err
				}
			}
			outs[i] = sb.String()
			return nil
		})
		if err != nil {
			return "", fmt.Errorf("mode %d: %w", mode, err)
		}
		modes[m] = outs
	}
	for i := range modes[0] {
		if modes[0][i] != modes[1][i] {
			return "", fmt.Errorf("reader %d: async mode rows differ from sync mode rows", i)
		}
	}
	return digestStrings(modes[1]), nil
}

func scenSchema(seed int64, par bool) (string, error) {
	// a schema nobody has used yet: its lazily built state is constructed under contention
	type fresh struct {
		C15Row
		Extra int64 `parquet:"extra"`
	}
	schema := parquet.NewSchema(fmt.Sprintf("fresh%d", seed), parquet.SchemaOf(fresh{}))
	rows := c15Rows(rand.New(rand.NewSource(seed)), 64, 0)
	payload := make([]byte, 5000)
	rand.New(rand.NewSource(seed)).Read(payload[:2500])
	outs := make([]string, 2*c15N)
	err := fanout(par, 2*c15N, func(i int) error {
		var sb bytes.Buffer
		switch i % 4 {
		case 0:
			for j := range rows {
				v := fresh{C15Row: rows[j], Extra: int64(j)}
				row := schema.Deconstruct(nil, &v)
				sb.WriteString(rowsText([]parquet.Row{row}))
				var back fresh
				if err := schema.Reconstruct(&back, row); err != nil {
					return err
				}
				sb.WriteString(derefRows([]C15Row{back.C15Row})[0])
			}
		case 1:
			fmt.Fprintf(&sb, "%v\n%s\n", schema.Columns(), schema.String())
			for _, path := range schema.Columns() {
				leaf, ok := schema.Lookup(path...)
				fmt.Fprintf(&sb, "%v %v %d %d %d\n", path, ok, leaf.ColumnIndex, leaf.MaxRepetitionLevel, leaf.MaxDefinitionLevel)
			}
		case 2:
			var buf bytes.Buffer
			w := parquet.NewGenericWriter[fresh](&buf, schema, parquet.Compression(c15Codecs[i%len(c15Codecs)]))
			for j := range rows {
				if _, err := w.Write([]fresh{{C15Row: rows[j], Extra: int64(j)}}); err != nil {
					return err
				}
			}
			if err := w.Close(); err != nil {
				return err
			}
			sb.WriteString(digest(buf.Bytes()))
		case 3:
			for _, codec := range c15Codecs {
				enc, err := codec.Encode(nil, payload)
				if err != nil {
					return err
				}
				dec, err := codec.Decode(nil, enc)
				if err != nil {
					return err
				}
				if !bytes.Equal(dec, payload) {
					return fmt.Errorf("codec %s did not round-trip", codec)
				}
				fmt.Fprintf(&sb, "%s %s;", codec, digest(enc))
			}
		}
		outs[i] = sb.String()
		return nil
	})
	return digestStrings(outs), err
}

// c15FreshKey hands out values no goroutine of this process has used before: the registries under
// test insert on the first use of a key only.
var c15FreshKey atomic.Int64

func c15Fresh() int64 { return 3000 + c15FreshKey.Add(1) }

// scenRegistries: what the goroutines share is only package-level state of the library. Each
// goroutine opens its own File over the same bytes again and again, each time with a ReadBufferSize
// nobody has used yet (getBufioReaderPool inserts into its map while the other goroutines look
// their sizes up), builds schemas of Go struct types nobody has seen yet (cachedSchemas), writes
// values of such types through a Group schema (structFieldsCache) and looks encodings and codecs up.
// The output (rows, pages) does not depend on the fresh values.
func scenRegistries(seed int64, par bool) (string, error) {
	schema := parquet.SchemaOf(C15Flat{})
	rows := c15FlatRows(rand.New(rand.NewSource(seed)), 300)
	var file bytes.Buffer
	w := parquet.NewGenericWriter[C15Flat](&file, schema, parquet.PageBufferSize(256), parquet.Compression(&parquet.Snappy))
	if _, err := w.Write(rows); err != nil {
		return "", err
	}
	if err := w.Close(); err != nil {
		return "", err
	}
	data := file.Bytes()
	group := parquet.NewSchema("g", parquet.Group{"A": parquet.Int(64), "B": parquet.String()})
	const n = 12
	outs := make([]string, n)
	err := fanout(par, n, func(i int) error {
		var sb bytes.Buffer
		for round := 0; round < 12; round++ {
			size := int(c15Fresh())
			f, err := parquet.OpenFile(bytes.NewReader(data), int64(len(data)), parquet.ReadBufferSize(size))
			if err != nil {
				return err
			}
			cc := f.RowGroups()[0].ColumnChunks()[(i+round)%6]
			txt, err := readChunkPages(cc)
			if err != nil {
				return err
			}
			sb.WriteString(digest([]byte(txt)))
			if round%6 == 0 {
				r, err := readRowGroupRows(f.RowGroups()[0])
				if err != nil {
					return err
				}
				sb.WriteString(digest([]byte(r)))
			}
			// a struct type nobody has seen: the extra field name is fresh
			extra := fmt.Sprintf("X%d", c15Fresh())
			typ := reflect.StructOf([]reflect.StructField{
				{Name: "A", Type: reflect.TypeOf(int64(0)), Tag: `parquet:"A"`},
				{Name: "B", Type: reflect.TypeOf(""), Tag: `parquet:"B"`},
				{Name: extra, Type: reflect.TypeOf(int32(0)), Tag: `parquet:"-"`},
			})
			v := reflect.New(typ).Elem()
			v.Field(0).SetInt(int64(i*100 + round))
			v.Field(1).SetString(fmt.Sprintf("s%d", round))
			fmt.Fprintf(&sb, "%v|", parquet.SchemaOf(v.Interface()).Columns())
			buf := parquet.NewBuffer(group)
			if err := buf.Write(v.Interface()); err != nil {
				return err
			}
			br, err := readRowGroupRows(buf)
			if err != nil {
				return err
			}
			sb.WriteString(br)
			// the reflection path of the writers (a value of a Go type other than the writer's row type:
			// writeValueFuncOfGroup, structFieldsCache)
			wr, err := c15WriteAny(round%2, parquet.Group{"A": parquet.Int(64), "B": parquet.String()}, v.Interface(), func() {})
			if err != nil {
				return err
			}
			sb.WriteString(wr)
			fmt.Fprintf(&sb, "%s %s;", parquet.LookupEncoding(format.Encoding(round%10)), parquet.LookupCompressionCodec(format.CompressionCodec(round%8)))
		}
		outs[i] = sb.String()
		return nil
	})
	return digestStrings(outs), err
}

// c15AnyRow has a field whose Go type says nothing about the parquet group it is written to.
type c15AnyRow struct {
	ID      int64 `parquet:"ID"`
	Payload any   `parquet:"Payload"`
}

// c15WriteAny writes one value through the reflection path of the writers and returns the rows of
// the resulting file; before runs right in front of the Write call. how = 0: a GenericWriter[any] with an explicit schema; how = 1: an `any` field
// of the row type mapped to a group.
func c15WriteAny(how int, group parquet.Group, payload any, before func()) (string, error) {
	var out bytes.Buffer
	switch how {
	case 0:
		w := parquet.NewGenericWriter[any](&out, parquet.NewSchema("g", group))
		before()
		if _, err := w.Write([]any{payload}); err != nil {
			return "", err
		}
		if err := w.Close(); err != nil {
			return "", err
		}
	default:
		w := parquet.NewGenericWriter[c15AnyRow](&out, parquet.NewSchema("Row", parquet.Group{"ID": parquet.Int(64), "Payload": group}))
		before()
		if _, err := w.Write([]c15AnyRow{{ID: 7, Payload: payload}}); err != nil {
			return "", err
		}
		if err := w.Close(); err != nil {
			return "", err
		}
	}
	f, err := parquet.OpenFile(bytes.NewReader(out.Bytes()), int64(out.Len()))
	if err != nil {
		return "", err
	}
	var sb bytes.Buffer
	for _, rg := range f.RowGroups() {
		txt, err := readRowGroupRows(rg)
		if err != nil {
			return "", err
		}
		sb.WriteString(txt)
	}
	return sb.String(), nil
}

// scenSameKey: in the registries scenario every goroutine brings its own fresh keys; here all
// goroutines of a round hit the process-wide registries and caches with the SAME never-before-seen
// key — one ReadBufferSize, one Go struct type for SchemaOf, one (large) Go struct type written
// through the reflection path — at nearly the same moment: goroutine i reaches the cache after i/8 of
// the work that building the cache entry takes (enumerating and inserting an eighth of the fields, i
// times), so that late-comers arrive while the entry of an earlier goroutine is under construction. What each goroutine wrote is checked
// against the value it wrote (not only against the serial run).
func scenSameKey(seed int64, par bool) (string, error) {
	schema := parquet.SchemaOf(C15Flat{})
	rows := c15FlatRows(rand.New(rand.NewSource(seed)), 200)
	var file bytes.Buffer
	w := parquet.NewGenericWriter[C15Flat](&file, schema, parquet.PageBufferSize(256), parquet.Compression(&parquet.Snappy))
	if _, err := w.Write(rows); err != nil {
		return "", err
	}
	if err := w.Close(); err != nil {
		return "", err
	}
	data := file.Bytes()
	const n = 16
	const rounds = 6
	int64Type := reflect.TypeOf(int64(0))
	var all []string
	for round := 0; round < rounds; round++ {
		size := int(c15Fresh())
		id := c15Fresh()
		numFields := []int{90, 700, 2400, 2400, 12, 700}[round%6]
		fields := make([]reflect.StructField, numFields)
		for j := range fields {
			fields[j] = reflect.StructField{Name: fmt.Sprintf("T%dF%04d", id, j), Type: int64Type}
		}
		typ := reflect.StructOf(fields)
		eighth := reflect.StructOf(fields[:max(1, numFields/8)])
		v := reflect.New(typ).Elem()
		for j := range fields {
			v.Field(j).SetInt(int64(1000 + j))
		}
		payload := v.Interface()
		// the parquet group holds the first field, one from the middle and the last two (the fields of a
		// Group are ordered by name: ascending index)
		picks := []int{0, numFields / 2, numFields - 2, numFields - 1}
		group := parquet.Group{}
		for _, j := range picks {
			group[fields[j].Name] = parquet.Int(64)
		}
		how := round % 2
		want := parquet.Row{}
		if how == 1 {
			want = append(want, parquet.Int64Value(7).Level(0, 0, 0))
		}
		for _, j := range picks {
			want = append(want, parquet.Int64Value(int64(1000+j)).Level(0, 0, len(want)))
		}
		wantText := rowsText([]parquet.Row{want})
		small := reflect.New(reflect.StructOf([]reflect.StructField{
			{Name: "A", Type: int64Type, Tag: `parquet:"A"`},
			{Name: "B", Type: reflect.TypeOf(""), Tag: `parquet:"B"`},
			{Name: fmt.Sprintf("X%d", id), Type: reflect.TypeOf(int32(0)), Tag: `parquet:"-"`},
		})).Elem().Interface()
		outs := make([]string, n)
		var arrived atomic.Int32
		err := fanout(par, n, func(i int) error {
			// goroutine i reaches the cache after i/8 of the work of building one table of this type
			// (enumerating the fields, then inserting them)
			scratch := 0
			got, err := c15WriteAny(how, group, payload, func() {
				// all goroutines are on a processor before the first one goes on (thread wake-up times
				// are far longer than the window aimed at)
				if par {
					arrived.Add(1)
					for arrived.Load() < n {
						runtime.Gosched()
					}
				}
				for rep := 0; rep < i; rep++ {
					tbl := make(map[string][]int)
					for _, f := range reflect.VisibleFields(eighth) {
						tbl[f.Name] = f.Index
					}
					scratch += len(tbl)
				}
			})
			if err != nil {
				return err
			}
			if got != wantText {
				return fmt.Errorf("[fresh-struct-type-fields-lost] round %d goroutine %d of %d wrote the same value of a never-before-seen Go struct type (%d int64 fields T%dF0000.., field j = 1000+j) through the reflection path (%s) into a group holding fields %v: the file holds %q, the value determines %q",
					round, i, n, numFields, id, []string{"GenericWriter[any] with an explicit schema", "`any` field of the row type mapped to a group"}[how], picks, got, wantText)
			}
			var sb bytes.Buffer
			sb.WriteString(got)
			f, err := parquet.OpenFile(bytes.NewReader(data), int64(len(data)), parquet.ReadBufferSize(size))
			if err != nil {
				return err
			}
			txt, err := readChunkPages(f.RowGroups()[0].ColumnChunks()[(i+round)%6])
			if err != nil {
				return err
			}
			sb.WriteString(digest([]byte(txt)))
			fmt.Fprintf(&sb, "%v|%d", parquet.SchemaOf(small).Columns(), scratch)
			outs[i] = sb.String()
			return nil
		})
		if err != nil {
			return "", err
		}
		all = append(all, outs...)
	}
	return digestStrings(all), nil
}

// ---------------------------------------------------------------- row group writers reused after Commit

type c15Keys struct {
	footer  []byte
	columns map[string][]byte
}

func (k c15Keys) FooterKey([]byte) ([]byte, error) { return k.footer, nil }
func (k c15Keys) ColumnKey(path []string, _ []byte) ([]byte, error) {
	p := ""
	for i, s := range path {
		if i > 0 {
			p += "."
		}
		p += s
	}
	if key, ok := k.columns[p]; ok {
		return key, nil
	}
	return k.footer, nil
}

// c15RowsDigest is what c15ReadAllFrom returns for a file that holds exactly these rows.
func c15RowsDigest(rows []C15Row) string {
	return fmt.Sprintf("%d %s", len(rows), digest([]byte(fmt.Sprintf("%+v", derefRows(rows)))))
}

// c15Structure renders what does not depend on encryption nonces: rows and pages per row group.
func c15Structure(f *parquet.File) string {
	var sb bytes.Buffer
	for g, rg := range f.RowGroups() {
		fmt.Fprintf(&sb, "rg%d rows=%d:", g, rg.NumRows())
		for _, cc := range rg.ColumnChunks() {
			fmt.Fprintf(&sb, " %d", cc.NumValues())
		}
		sb.WriteByte('\n')
	}
	return sb.String()
}

// scenRowGroupsReuse: k row group writers are created once and used for several rounds; in each
// round they are filled (concurrently when par) and committed in order. Between rounds some rows go
// through the parent writer itself (flushed by the next Commit as a row group of its own).
// The expected content of the file is known from the input alone: row group j holds the j-th batch.
func scenRowGroupsReuse(seed int64, par bool) (string, error) {
	schema := parquet.SchemaOf(C15Row{})
	var outs []string
	for variant := 0; variant < 6; variant++ {
		r := rand.New(rand.NewSource(seed*61 + int64(variant)))
		k := 2 + r.Intn(3)
		rounds := 2 + r.Intn(2)
		ownRows := variant%2 == 1 // rows through the parent writer between rounds
		var keys *c15Keys
		opts := []parquet.WriterOption{schema,
			parquet.Compression(c15Codecs[(int(seed)+variant)%len(c15Codecs)]),
			parquet.PageBufferSize([]int{256, 1024, 8192}[r.Intn(3)]),
			parquet.DataPageVersion(1 + variant%2),
			parquet.MaxRowsPerRowGroup(100000),
		}
		switch variant / 2 {
		case 1: // encrypted footer, one key
			keys = &c15Keys{footer: []byte("0123456789abcdef")}
			opts = append(opts, parquet.WithEncryption(&parquet.EncryptionConfig{FooterKey: keys.footer, EncryptedFooter: true}))
		case 2: // plaintext footer, per-column keys, AAD prefix
			keys = &c15Keys{footer: []byte("fedcba9876543210fedcba9876543210"), columns: map[string][]byte{"raw": []byte("rawrawrawrawrawr"), "sub.y": []byte("subysubysubysuby")}}
			opts = append(opts, parquet.WithEncryption(&parquet.EncryptionConfig{FooterKey: keys.footer, ColumnKeys: keys.columns, AadPrefix: []byte("c15"), FileIdentifier: []byte("c15reuse")}))
		}
		var buf bytes.Buffer
		w := parquet.NewGenericWriter[C15Row](&buf, opts...)
		rgs := make([]*parquet.ConcurrentRowGroupWriter, k)
		for i := range rgs {
			rgs[i] = w.BeginRowGroup()
		}
		var want []C15Row // in file order
		var wantGroups []int
		base := int64(0)
		for round := 0; round < rounds; round++ {
			batches := make([][]C15Row, k)
			inputs := make([][]parquet.Row, k)
			for i := range batches {
				batches[i] = c15Rows(r, 40+r.Intn(160), base)
				base += int64(len(batches[i]))
				for j := range batches[i] {
					inputs[i] = append(inputs[i], schema.Deconstruct(nil, &batches[i][j]).Clone())
				}
			}
			flushAt := r.Intn(3) // 0: never call rg.Flush; else: call it after that many WriteRows calls
			err := fanout(par, k, func(i int) error {
				calls := 0
				for off := 0; off < len(inputs[i]); off += 23 {
					end := min(off+23, len(inputs[i]))
					if _, err := rgs[i].WriteRows(inputs[i][off:end]); err != nil {
						return err
					}
					if calls++; calls == flushAt {
						if err := rgs[i].Flush(); err != nil {
							return err
						}
					}
				}
				return nil
			})
			if err != nil {
				return "", fmt.Errorf("variant %d round %d: %w", variant, round, err)
			}
			for i := range rgs {
				n, err := rgs[i].Commit()
				if err != nil {
					return "", fmt.Errorf("variant %d round %d: Commit of row group writer %d: %w", variant, round, i, err)
				}
				if n != int64(len(batches[i])) {
					return "", fmt.Errorf("variant %d round %d: Commit of row group writer %d reports %d rows, %d were written", variant, round, i, n, len(batches[i]))
				}
				want = append(want, batches[i]...)
				wantGroups = append(wantGroups, len(batches[i]))
			}
			if ownRows {
				own := c15Rows(r, 30+r.Intn(50), base)
				base += int64(len(own))
				if _, err := w.Write(own); err != nil {
					return "", err
				}
				// flushed as its own row group by the next Commit, or by Close after the last round
				want = append(want, own...)
				wantGroups = append(wantGroups, len(own))
			}
		}
		if err := w.Close(); err != nil {
			return "", fmt.Errorf("variant %d: Close: %w", variant, err)
		}
		data := buf.Bytes()
		var fopts []parquet.FileOption
		if keys != nil {
			fopts = append(fopts, parquet.WithDecryption(*keys))
		}
		f, err := parquet.OpenFile(bytes.NewReader(data), int64(len(data)), fopts...)
		if err != nil {
			return "", fmt.Errorf("[reused-rowgroup-writers-file-unreadable] variant %d (k=%d rounds=%d encryption=%d): the written file does not open: %w", variant, k, rounds, variant/2, err)
		}
		if got := len(f.RowGroups()); got != len(wantGroups) {
			return "", fmt.Errorf("[reused-rowgroup-writers-file-differs] variant %d: file has %d row groups, %d were committed", variant, got, len(wantGroups))
		}
		for g, rg := range f.RowGroups() {
			if rg.NumRows() != int64(wantGroups[g]) {
				return "", fmt.Errorf("[reused-rowgroup-writers-file-differs] variant %d: row group %d has %d rows, the %d-th commit held %d", variant, g, rg.NumRows(), g, wantGroups[g])
			}
		}
		txt, err := c15ReadAllFrom(f)
		if err != nil {
			return "", fmt.Errorf("[reused-rowgroup-writers-file-unreadable] variant %d (k=%d rounds=%d encryption=%d parent-writer-rows=%v): reading the file back: %w", variant, k, rounds, variant/2, ownRows, err)
		}
		if exp := c15RowsDigest(want); txt != exp {
			return "", fmt.Errorf("[reused-rowgroup-writers-file-differs] variant %d (k=%d rounds=%d encryption=%d): the file does not hold the rows written in commit order: read %s, written %s", variant, k, rounds, variant/2, txt, exp)
		}
		if keys == nil {
			outs = append(outs, digest(data))
		}
		outs = append(outs, txt, c15Structure(f))
	}
	return digestStrings(outs), nil
}

// ---------------------------------------------------------------- rows kept after Close

// scenKeptRows: every goroutine reads a few rows starting somewhere inside a page, closes its reader
// and keeps the rows, then reads other parts of the file (which takes page buffers from the
// process-wide pools). What it kept is rendered right after reading and again when all goroutines
// are done: the two must agree. Two files: one shared *File, and PLAIN / DELTA / dictionary byte
// array columns side by side in C15Row.
func scenKeptRows(seed int64, par bool) (string, error) {
	schema := parquet.SchemaOf(C15Row{})
	rows := c15Rows(rand.New(rand.NewSource(seed)), 900, 0)
	data, err := c15WriteFile(rows, schema, parquet.PageBufferSize(2048), parquet.MaxRowsPerRowGroup(300),
		parquet.Compression(c15Codecs[int(seed)%len(c15Codecs)]), parquet.DataPageVersion(1+int(seed)%2))
	if err != nil {
		return "", err
	}
	f, err := parquet.OpenFile(bytes.NewReader(data), int64(len(data)))
	if err != nil {
		return "", err
	}
	const n = 8
	type held struct {
		rows []parquet.Row
		text string
		at   string
	}
	kept := make([][]held, n)
	outs := make([]string, n)
	err = fanout(par, n, func(i int) error {
		r := rand.New(rand.NewSource(seed*17 + int64(i)))
		var sb bytes.Buffer
		for round := 0; round < 6; round++ {
			g := r.Intn(len(f.RowGroups()))
			rg := f.RowGroups()[g]
			from := int64(r.Intn(int(rg.NumRows()) - 20))
			count := 1 + r.Intn(12)
			rr := rg.Rows()
			if err := rr.SeekToRow(from); err != nil {
				rr.Close()
				return err
			}
			buf := make([]parquet.Row, count)
			got, err := rr.ReadRows(buf)
			if err != nil && err != io.EOF {
				rr.Close()
				return err
			}
			h := held{rows: buf[:got], text: rowsText(buf[:got]), at: fmt.Sprintf("row group %d rows %d..%d", g, from, from+int64(got))}
			if err := rr.Close(); err != nil {
				return err
			}
			kept[i] = append(kept[i], h)
			sb.WriteString(h.text)
			// other work of the same goroutine: a stretch of another row group, read to its end
			other := f.RowGroups()[(g+1)%len(f.RowGroups())]
			or := other.Rows()
			if err := or.SeekToRow(other.NumRows() - int64(40+r.Intn(100))); err != nil {
				or.Close()
				return err
			}
			tail := make([]parquet.Row, 32)
			for {
				m, err := or.ReadRows(tail)
				sb.WriteString(rowsText(tail[:m]))
				if err != nil {
					if err != io.EOF {
						or.Close()
						return err
					}
					break
				}
			}
			if err := or.Close(); err != nil {
				return err
			}
			for _, h := range kept[i] {
				if now := rowsText(h.rows); now != h.text {
					a, b := c15FirstDiff(h.text, now)
					return fmt.Errorf("[rows-kept-after-close-changed] goroutine %d: rows it kept from %s changed after their reader was closed and other readers ran: read %s, now %s", i, h.at, a, b)
				}
			}
		}
		outs[i] = sb.String()
		return nil
	})
	if err != nil {
		return "", err
	}
	for i := range kept {
		for _, h := range kept[i] {
			if now := rowsText(h.rows); now != h.text {
				a, b := c15FirstDiff(h.text, now)
				return "", fmt.Errorf("[rows-kept-after-close-changed] goroutine %d: rows it kept from %s changed after all goroutines finished: read %s, now %s", i, h.at, a, b)
			}
		}
	}
	return digestStrings(outs), nil
}

// c15FirstDiff cuts two texts down to the neighbourhood of their first difference.
func c15FirstDiff(a, b string) (string, string) {
	i := 0
	for i < len(a) && i < len(b) && a[i] == b[i] {
		i++
	}
	cut := func(s string) string {
		lo, hi := max(0, i-20), min(len(s), i+30)
		return fmt.Sprintf("%q", s[lo:hi])
	}
	return cut(a), cut(b)
}
