package props

import (
	"bytes"
	"encoding/binary"
	"encoding/hex"
	"fmt"
	"math"
	"math/rand"

	"github.com/parquet-go/parquet-go"
	"github.com/parquet-go/parquet-go/encoding"
)

// Cross-build cases with BIG pages: the min/max (and boundary order) kernels switch
// implementation with the page length — at the number of values a default 256 KiB page buffer
// holds (32113 64-bit values, 64226 32-bit values) and again at 1 MiB — so files whose pages are
// filled to the default target exercise code no small page reaches. One non-dictionary (PLAIN)
// column per numeric kind, values on both sides of the sign boundary (2^31, 2^63), NaN and -0.0
// for the floats, page statistics and page index on.

type c17BigRow struct {
	I32 int32   `parquet:"i32,plain"`
	I64 int64   `parquet:"i64,plain"`
	U32 uint32  `parquet:"u32,plain"`
	U64 uint64  `parquet:"u64,plain"`
	F32 float32 `parquet:"f32,plain"`
	F64 float64 `parquet:"f64,plain"`
	// 16-byte big-endian values (boundsBE128, the seventh kernel pair of page_bounds_*.go): few
	// distinct high halves, so that most comparisons are decided by the low half
	B16 [16]byte `parquet:"b16,plain,uuid"`
}

type c17BigOptRow struct {
	I32 *int32   `parquet:"i32,plain"`
	I64 *int64   `parquet:"i64,plain"`
	U32 *uint32  `parquet:"u32,plain"`
	U64 *uint64  `parquet:"u64,plain"`
	F32 *float32 `parquet:"f32,plain"`
	F64 *float64 `parquet:"f64,plain"`
	B16 *[16]byte `parquet:"b16,plain,uuid"`
}

type c17Big struct {
	seed     int64
	n        int
	profile  string // wide | boundary | ascending
	pageBuf  int    // 0 = default (256 KiB)
	version  int
	optional bool
}

func (b *c17Big) desc() string {
	return fmt.Sprintf("big-page rows=%d values=%s seed=%d pagebuf=%d v%d optional=%v stats=true (values: c17BigValue(rand.New(rand.NewSource(seed)), profile, i) per row, columns i32,i64,u32,u64,f32,f64,b16 in that order; b16 = big-endian (bits>>62, bits*0x9E3779B97F4A7C15))",
		b.n, b.profile, b.seed, b.pageBuf, b.version, b.optional)
}

// c17BigValue draws the 64 raw bits of one value; each column kind reinterprets (a prefix of) them.
func c17BigValue(r *rand.Rand, profile string, i int) uint64 {
	switch profile {
	case "boundary": // a few steps around 0, 2^31, 2^32, 2^63 in both widths
		base := []uint64{0, 1 << 31, 1 << 32, 1 << 63, 1<<63 | 1<<31, math.MaxUint64}[r.Intn(6)]
		return base + uint64(r.Intn(7)) - 3
	case "ascending": // increasing as unsigned, crossing 2^31 and 2^63 on the way
		return uint64(i)*(math.MaxUint64/200000) + uint64(r.Intn(1000))
	default:
		v := r.Uint64()
		switch r.Intn(64) {
		case 0:
			v = 0x8000000000000000 // -0.0 as float64; 0x80000000 in the low half: -0.0 as float32
		case 1:
			v = 0x7ff8000000000001 // NaN
		case 2:
			v = 0xfff0000080000000 // -inf / -0.0
		}
		return v
	}
}

func c17BigColumns(bits uint64) c17BigRow {
	lo := uint32(bits)
	if bits>>63 == 1 { // let the 32-bit columns see the top half too
		lo = uint32(bits >> 32)
	}
	var b16 [16]byte
	binary.BigEndian.PutUint64(b16[:8], bits>>62)
	binary.BigEndian.PutUint64(b16[8:], bits*0x9E3779B97F4A7C15)
	return c17BigRow{I32: int32(lo), I64: int64(bits), U32: lo, U64: bits, F32: math.Float32frombits(lo), F64: math.Float64frombits(bits), B16: b16}
}

func (b *c17Big) write() (file []byte, err error) {
	err = c17Guard(func() error {
		r := rand.New(rand.NewSource(b.seed))
		opts := []parquet.WriterOption{parquet.DataPageStatistics(true), parquet.DataPageVersion(b.version)}
		if b.pageBuf > 0 {
			opts = append(opts, parquet.PageBufferSize(b.pageBuf))
		}
		out := new(bytes.Buffer)
		if !b.optional {
			rows := make([]c17BigRow, b.n)
			for i := range rows {
				rows[i] = c17BigColumns(c17BigValue(r, b.profile, i))
			}
			w := parquet.NewGenericWriter[c17BigRow](out, opts...)
			if _, err := w.Write(rows); err != nil {
				return err
			}
			if err := w.Close(); err != nil {
				return err
			}
		} else {
			rows := make([]c17BigOptRow, b.n)
			for i := range rows {
				v := c17BigColumns(c17BigValue(r, b.profile, i))
				if r.Intn(16) != 0 {
					rows[i] = c17BigOptRow{&v.I32, &v.I64, &v.U32, &v.U64, &v.F32, &v.F64, &v.B16}
				}
			}
			w := parquet.NewGenericWriter[c17BigOptRow](out, opts...)
			if _, err := w.Write(rows); err != nil {
				return err
			}
			if err := w.Close(); err != nil {
				return err
			}
		}
		file = out.Bytes()
		return nil
	})
	return file, err
}

func c17BigCases(r *rand.Rand, thorough bool) []*c17Big {
	out := []*c17Big{
		{n: 70000, profile: "wide", pageBuf: 0, version: 2},
		{n: 70000, profile: "boundary", pageBuf: 0, version: 1},
		{n: 70000, profile: "ascending", pageBuf: 0, version: 2, optional: true},
		{n: 100000, profile: "wide", pageBuf: 400000, version: 1},
	}
	if thorough {
		out = append(out,
			&c17Big{n: 300000, profile: "wide", pageBuf: 1100000, version: 2},
			&c17Big{n: 300000, profile: "boundary", pageBuf: 2300000, version: 1, optional: true},
			&c17Big{n: 140000, profile: "ascending", pageBuf: 0, version: 1},
			&c17Big{n: 70000, profile: "wide", pageBuf: 0, version: 1, optional: true})
	}
	for _, b := range out {
		b.seed = r.Int63()
	}
	return out
}

// ---------------------------------------------------------------- Page.Bounds at kernel-switch lengths

type c17BoundsCase struct {
	id      string
	typ     string // int32 int64 uint32 uint64 float double be128
	n       int
	profile string
	seed    int64
}

func (c *c17BoundsCase) desc() string {
	return fmt.Sprintf("%s page of %d values, values=%s seed=%d (c17BigValue per index, reinterpreted as in c17BigColumns): parquet.<Type>.NewPage(0, n, values).Bounds()",
		c.typ, c.n, c.profile, c.seed)
}

func (c *c17BoundsCase) run() string {
	var out string
	err := c17Guard(func() error {
		r := rand.New(rand.NewSource(c.seed))
		cols := make([]c17BigRow, c.n)
		for i := range cols {
			cols[i] = c17BigColumns(c17BigValue(r, c.profile, i))
		}
		var page parquet.Page
		switch c.typ {
		case "int32":
			v := make([]int32, c.n)
			for i := range v {
				v[i] = cols[i].I32
			}
			page = parquet.Int32Type.NewPage(0, c.n, encoding.Int32Values(v))
		case "int64":
			v := make([]int64, c.n)
			for i := range v {
				v[i] = cols[i].I64
			}
			page = parquet.Int64Type.NewPage(0, c.n, encoding.Int64Values(v))
		case "uint32":
			v := make([]uint32, c.n)
			for i := range v {
				v[i] = cols[i].U32
			}
			page = parquet.Uint(32).Type().NewPage(0, c.n, encoding.Uint32Values(v))
		case "uint64":
			v := make([]uint64, c.n)
			for i := range v {
				v[i] = cols[i].U64
			}
			page = parquet.Uint(64).Type().NewPage(0, c.n, encoding.Uint64Values(v))
		case "float":
			v := make([]float32, c.n)
			for i := range v {
				v[i] = cols[i].F32
			}
			page = parquet.FloatType.NewPage(0, c.n, encoding.FloatValues(v))
		case "be128":
			v := make([]byte, 0, 16*c.n)
			for i := range cols {
				v = append(v, cols[i].B16[:]...)
			}
			page = parquet.FixedLenByteArrayType(16).NewPage(0, c.n, encoding.FixedLenByteArrayValues(v, 16))
		default:
			v := make([]float64, c.n)
			for i := range v {
				v[i] = cols[i].F64
			}
			page = parquet.DoubleType.NewPage(0, c.n, encoding.DoubleValues(v))
		}
		min, max, ok := page.Bounds()
		out = fmt.Sprintf("ok=%v min=%s max=%s", ok, hex.EncodeToString(min.Bytes()), hex.EncodeToString(max.Bytes()))
		return nil
	})
	if err != nil {
		return errClass(err)
	}
	return out
}

func c17BoundsCases(r *rand.Rand, thorough bool) []*c17BoundsCase {
	lengths := []int{32112, 32113, 40000, 65536, 131071}
	if thorough {
		lengths = append(lengths, 64225, 64226, 64227, 131072, 262143, 262144)
	}
	var out []*c17BoundsCase
	for _, typ := range []string{"int32", "int64", "uint32", "uint64", "float", "double", "be128"} {
		ls := lengths
		if typ == "be128" { // no length switch in this kernel pair: short pages too
			ls = append([]int{3, 4, 8, 9, 100, 1000}, lengths[:2]...)
		}
		for _, n := range ls {
			for _, p := range []string{"wide", "boundary"} {
				out = append(out, &c17BoundsCase{id: fmt.Sprintf("page-bounds/%s/%d/%s", typ, n, p), typ: typ, n: n, profile: p, seed: r.Int63()})
			}
		}
	}
	return out
}
