package props

import (
	"bytes"
	"fmt"

	"github.com/parquet-go/parquet-go"

	"verifharness/core"
)

func init() { RegisterSub("C05", "reuse", RunC05Reuse) }

// The column index of a chunk must be a function of the pages of that chunk. The indexers keep the
// capacity of their min/max slices across Reset (`i.minValues = i.minValues[:0]`), so whatever reads
// past the end of those slices sees the bounds of the PREVIOUS file: before the fix of the AVX-512
// orderOf* kernels (the last vector load ended one element past the slice when the page count is a
// multiple of lanes*(lanes-1): 56 for 64-bit, 240 for 32-bit values) a writer reused via Reset
// reported another boundary_order - and wrote other bytes - than a fresh writer given the same pages.

type c05ReuseRow struct {
	I32 int32   `parquet:"i32"`
	I64 int64   `parquet:"i64"`
	U32 uint32  `parquet:"u32"`
	U64 uint64  `parquet:"u64"`
	F32 float32 `parquet:"f32"`
	F64 float64 `parquet:"f64"`
}

// row number i of a run of n pages; hi selects the value range
func c05ReuseRowOf(v int64) c05ReuseRow {
	return c05ReuseRow{I32: int32(v), I64: v, U32: uint32(int32(v)), U64: uint64(v), F32: float32(v), F64: float64(v)}
}

func RunC05Reuse(ctx *core.Ctx) {
	if ctx.Replay != "" {
		return
	}
	ctx.SetRule("a ColumnIndexer / GenericWriter reused via Reset after a longer previous run must produce the same column index (and the writer the same file bytes) as a fresh one fed the same pages; page counts around multiples of 56 and 240, previous run descending or ascending with smaller or larger values; distinct by (level, kind, page count, previous run), non-trivial = always")
	// ---- indexer level: every numeric kind, many page counts
	counts := []int{2, 7, 8, 15, 16, 55, 56, 57, 112, 168, 239, 240, 241, 480}
	if ctx.Thorough() {
		for n := 2; n <= 1000; n++ {
			counts = append(counts, n)
		}
	}
	for _, name := range []string{"i32", "i64", "u32", "u64", "f32", "f64"} {
		k := c05KindByName(name)
		val := func(v int64) parquet.Value {
			switch name {
			case "i32", "u32":
				return parquet.Int32Value(int32(v))
			case "i64", "u64":
				return parquet.Int64Value(v)
			case "f32":
				return parquet.FloatValue(float32(v))
			default:
				return parquet.DoubleValue(float64(v))
			}
		}
		for _, n := range counts {
			for _, prev := range []string{"desc-below", "desc-above", "asc-above"} {
				canon := fmt.Sprintf("reuse indexer %s n=%d prev=%s", name, n, prev)
				ctx.Case(canon, true)
				ctx.Hist("reuse-level", "indexer")
				// the run under test: n ascending pages with values -1000-n+1+i .. (all below -1000)
				feed := func(ix parquet.ColumnIndexer) int {
					for i := 0; i < n; i++ {
						v := val(int64(-1000 - n + 1 + i))
						ix.IndexPage(1, 0, v, v)
					}
					return int(ix.ColumnIndex().BoundaryOrder)
				}
				fresh := k.typ.NewColumnIndexer(16)
				want := feed(fresh)
				reused := k.typ.NewColumnIndexer(16)
				for i := 0; i < n+9; i++ {
					var v parquet.Value
					switch prev {
					case "desc-below":
						v = val(int64(-100000 - i))
					case "desc-above":
						v = val(int64(100000 - i))
					default:
						v = val(int64(100000 + i))
					}
					reused.IndexPage(1, 0, v, v)
				}
				reused.ColumnIndex()
				reused.Reset()
				got := feed(reused)
				if got != want {
					ctx.Fail("L1", "orderof-kernel-reads-past-end", fmt.Sprintf("a %s ColumnIndexer reused via Reset reports boundary_order %d for %d ascending pages, a fresh one %d: orderOf reads the stale bound of the previous run one element past the end of the slice (page count a multiple of lanes*(lanes-1))", name, got, n, want),
						map[string]any{"op": "reuse-indexer", "kind": name, "pages": n, "previous_run": prev, "fresh": want, "reused": got, "build": ctx.Variant})
				}
			}
		}
	}
	// ---- writer level: file bytes of a reused writer vs a fresh writer
	for _, n := range []int{55, 56, 57, 240} {
		for _, prev := range []string{"desc-below", "asc-above"} {
			canon := fmt.Sprintf("reuse writer n=%d prev=%s", n, prev)
			ctx.Case(canon, true)
			ctx.Hist("reuse-level", "writer")
			detail := map[string]any{"op": "reuse-writer", "pages": n, "previous_run": prev, "build": ctx.Variant}
			var freshB, firstB, reusedB bytes.Buffer
			write := func(w *parquet.GenericWriter[c05ReuseRow], count int, f func(i int) int64) {
				for i := 0; i < count; i++ {
					if _, err := w.Write([]c05ReuseRow{c05ReuseRowOf(f(i))}); err != nil {
						panic(err)
					}
				}
				if err := w.Close(); err != nil {
					panic(err)
				}
			}
			run := func(i int) int64 { return int64(-1000 - n + 1 + i) }
			if p := c05Recover(func() {
				write(parquet.NewGenericWriter[c05ReuseRow](&freshB, parquet.PageBufferSize(1)), n, run)
				w := parquet.NewGenericWriter[c05ReuseRow](&firstB, parquet.PageBufferSize(1))
				if prev == "desc-below" {
					write(w, n+9, func(i int) int64 { return int64(-100000 - i) })
				} else {
					write(w, n+9, func(i int) int64 { return int64(100000 + i) })
				}
				w.Reset(&reusedB)
				write(w, n, run)
			}); p != nil {
				ctx.Fail("L1", "reuse-writer-panic", fmt.Sprint(p), detail)
				continue
			}
			if bytes.Equal(freshB.Bytes(), reusedB.Bytes()) {
				continue
			}
			orders := func(b []byte) (out []string) {
				c05Recover(func() {
					f, err := parquet.OpenFile(bytes.NewReader(b), int64(len(b)))
					if err != nil {
						return
					}
					for _, ci := range f.ColumnIndexes() {
						out = append(out, ci.BoundaryOrder.String())
					}
				})
				return
			}
			o1, o2 := orders(freshB.Bytes()), orders(reusedB.Bytes())
			detail["fresh_orders"], detail["reused_orders"] = o1, o2
			if fmt.Sprint(o1) != fmt.Sprint(o2) {
				ctx.Fail("L1", "orderof-kernel-reads-past-end", fmt.Sprintf("a writer reused via Reset after a longer file writes boundary orders %v for %d ascending pages per column, a fresh writer %v (and the file bytes differ)", o2, n, o1), detail)
			} else {
				// byte differences with equal column indexes are not about statistics (C17's business)
				ctx.Observe("reused-writer-bytes-differ", "file bytes of a writer reused via Reset differ from a fresh writer's although the column indexes agree", detail)
			}
		}
	}
}
