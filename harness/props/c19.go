package props

import (
	"bufio"
	"bytes"
	"encoding/hex"
	"fmt"
	"io"
	"math"
	"math/rand"
	"os"
	"os/exec"
	"regexp"
	"sort"
	"strconv"
	"strings"
	"sync"
	"time"

	"github.com/google/uuid"
	"github.com/parquet-go/parquet-go/variant"

	"verifharness/core"
	"verifharness/drv"
)

// Property C19, part "codec": variant values survive Encode/Decode.
//
//	L1  Decode(Encode(v)) equals v (own deep comparison on an independent value tree, object fields
//	    up to order, floats by bit pattern; Go's Equal must agree), and the Lean SPEC decoder applied
//	    to the Go bytes prints the same value.
//	L2  Go metadata+value bytes == bytes of the Lean MIRROR encoder; Go Decode vs SPEC decoder on a
//	    malformed stream (same accept/reject, same value), the Go decoder running in a worker
//	    subprocess under recover and a timeout.

func init() {
	RegisterSub("C19", "codec", RunC19Codec)
	workers["c19-decode"] = c19DecodeWorker
}

// ---------------------------------------------------------------- independent value tree

type c19Node struct {
	kind  string // n t f i8 i16 i32 i64 f32 f64 d4 d8 d16 date ts tsntz time tsns tsntzns bin s u arr obj
	i     int64
	bits  uint64 // f32/f64 bit pattern
	scale byte
	b     []byte // bin, s (utf-8), u (16), d16 (16, little endian)
	elems []*c19Node
	keys  []string
}

func (n *c19Node) isContainer() bool { return n.kind == "arr" || n.kind == "obj" }

// text in the driver's grammar; sorted = object fields in byte-wise key order (the normal form).
func (n *c19Node) text(sb *strings.Builder, sorted bool) {
	switch n.kind {
	case "n", "t", "f":
		sb.WriteString(n.kind)
	case "i8", "i16", "i32", "i64", "date", "ts", "tsntz", "time", "tsns", "tsntzns":
		sb.WriteString(n.kind)
		sb.WriteByte(':')
		sb.WriteString(strconv.FormatInt(n.i, 10))
	case "f32":
		fmt.Fprintf(sb, "f32:%08x", uint32(n.bits))
	case "f64":
		fmt.Fprintf(sb, "f64:%016x", n.bits)
	case "d4", "d8":
		fmt.Fprintf(sb, "%s:%d:%d", n.kind, n.scale, n.i)
	case "d16":
		fmt.Fprintf(sb, "d16:%d:%s", n.scale, hex.EncodeToString(n.b))
	case "bin", "s", "u":
		sb.WriteString(n.kind)
		sb.WriteByte(':')
		sb.WriteString(hex.EncodeToString(n.b))
	case "arr":
		sb.WriteByte('[')
		for i, e := range n.elems {
			if i > 0 {
				sb.WriteByte(',')
			}
			e.text(sb, sorted)
		}
		sb.WriteByte(']')
	case "obj":
		idx := make([]int, len(n.keys))
		for i := range idx {
			idx[i] = i
		}
		if sorted {
			sort.Slice(idx, func(a, b int) bool { return n.keys[idx[a]] < n.keys[idx[b]] })
		}
		sb.WriteByte('{')
		for j, i := range idx {
			if j > 0 {
				sb.WriteByte(',')
			}
			sb.WriteString(hex.EncodeToString([]byte(n.keys[i])))
			sb.WriteByte('=')
			n.elems[i].text(sb, sorted)
		}
		sb.WriteByte('}')
	}
}

func (n *c19Node) String() string       { var sb strings.Builder; n.text(&sb, false); return sb.String() }
func (n *c19Node) SortedString() string { var sb strings.Builder; n.text(&sb, true); return sb.String() }

func (n *c19Node) toVariant() variant.Value {
	switch n.kind {
	case "n":
		return variant.Null()
	case "t":
		return variant.Bool(true)
	case "f":
		return variant.Bool(false)
	case "i8":
		return variant.Int8(int8(n.i))
	case "i16":
		return variant.Int16(int16(n.i))
	case "i32":
		return variant.Int32(int32(n.i))
	case "i64":
		return variant.Int64(n.i)
	case "f32":
		return variant.Float(math.Float32frombits(uint32(n.bits)))
	case "f64":
		return variant.Double(math.Float64frombits(n.bits))
	case "d4":
		return variant.Decimal4(int32(n.i), n.scale)
	case "d8":
		return variant.Decimal8(n.i, n.scale)
	case "d16":
		var d [16]byte
		copy(d[:], n.b)
		return variant.Decimal16(d, n.scale)
	case "date":
		return variant.Date(int32(n.i))
	case "ts":
		return variant.Timestamp(n.i)
	case "tsntz":
		return variant.TimestampNTZ(n.i)
	case "time":
		return variant.Time(n.i)
	case "tsns":
		return variant.TimestampNanos(n.i)
	case "tsntzns":
		return variant.TimestampNTZNanos(n.i)
	case "bin":
		return variant.Binary(bytes.Clone(n.b))
	case "s":
		return variant.String(string(n.b))
	case "u":
		var u uuid.UUID
		copy(u[:], n.b)
		return variant.UUID(u)
	case "arr":
		es := make([]variant.Value, len(n.elems))
		for i, e := range n.elems {
			es[i] = e.toVariant()
		}
		return variant.MakeArray(es)
	case "obj":
		fs := make([]variant.Field, len(n.elems))
		for i, e := range n.elems {
			fs[i] = variant.Field{Name: n.keys[i], Value: e.toVariant()}
		}
		return variant.MakeObject(fs)
	}
	panic("c19: bad node kind " + n.kind)
}

// c19VariantText prints a library value in the same grammar, through its exported accessors only.
func c19VariantText(v variant.Value, sb *strings.Builder, sorted bool) {
	switch v.Basic() {
	case variant.BasicObject:
		fs := v.ObjectValue().Fields
		if sorted {
			fs = append([]variant.Field(nil), fs...)
			sort.SliceStable(fs, func(a, b int) bool { return fs[a].Name < fs[b].Name })
		}
		sb.WriteByte('{')
		for i, f := range fs {
			if i > 0 {
				sb.WriteByte(',')
			}
			sb.WriteString(hex.EncodeToString([]byte(f.Name)))
			sb.WriteByte('=')
			c19VariantText(f.Value, sb, sorted)
		}
		sb.WriteByte('}')
		return
	case variant.BasicArray:
		sb.WriteByte('[')
		for i, e := range v.ArrayValue().Elements {
			if i > 0 {
				sb.WriteByte(',')
			}
			c19VariantText(e, sb, sorted)
		}
		sb.WriteByte(']')
		return
	case variant.BasicShortString:
		sb.WriteString("s:" + hex.EncodeToString([]byte(v.Str())))
		return
	}
	switch v.Type() {
	case variant.PrimitiveNull:
		sb.WriteString("n")
	case variant.PrimitiveTrue:
		sb.WriteString("t")
	case variant.PrimitiveFalse:
		sb.WriteString("f")
	case variant.PrimitiveInt8:
		fmt.Fprintf(sb, "i8:%d", v.Int())
	case variant.PrimitiveInt16:
		fmt.Fprintf(sb, "i16:%d", v.Int())
	case variant.PrimitiveInt32:
		fmt.Fprintf(sb, "i32:%d", v.Int())
	case variant.PrimitiveInt64:
		fmt.Fprintf(sb, "i64:%d", v.Int())
	case variant.PrimitiveFloat:
		fmt.Fprintf(sb, "f32:%08x", math.Float32bits(float32(v.FloatValue())))
	case variant.PrimitiveDouble:
		fmt.Fprintf(sb, "f64:%016x", math.Float64bits(v.FloatValue()))
	case variant.PrimitiveDecimal4:
		fmt.Fprintf(sb, "d4:%d:%d", v.Scale(), v.Int())
	case variant.PrimitiveDecimal8:
		fmt.Fprintf(sb, "d8:%d:%d", v.Scale(), v.Int())
	case variant.PrimitiveDecimal16:
		d := v.Decimal16Value()
		fmt.Fprintf(sb, "d16:%d:%s", v.Scale(), hex.EncodeToString(d[:]))
	case variant.PrimitiveDate:
		fmt.Fprintf(sb, "date:%d", v.Int())
	case variant.PrimitiveTimestamp:
		fmt.Fprintf(sb, "ts:%d", v.Int())
	case variant.PrimitiveTimestampNTZ:
		fmt.Fprintf(sb, "tsntz:%d", v.Int())
	case variant.PrimitiveTime:
		fmt.Fprintf(sb, "time:%d", v.Int())
	case variant.PrimitiveTimestampNanos:
		fmt.Fprintf(sb, "tsns:%d", v.Int())
	case variant.PrimitiveTimestampNTZNanos:
		fmt.Fprintf(sb, "tsntzns:%d", v.Int())
	case variant.PrimitiveBinary:
		sb.WriteString("bin:" + hex.EncodeToString(v.Bytes()))
	case variant.PrimitiveString:
		sb.WriteString("s:" + hex.EncodeToString([]byte(v.Str())))
	case variant.PrimitiveUUID:
		u := v.UUIDValue()
		sb.WriteString("u:" + hex.EncodeToString(u[:]))
	default:
		fmt.Fprintf(sb, "?prim%d", v.Type())
	}
}

func c19VText(v variant.Value, sorted bool) string {
	var sb strings.Builder
	c19VariantText(v, &sb, sorted)
	return sb.String()
}

// ---------------------------------------------------------------- generators

var c19Int64Pool = []int64{0, 1, -1, 2, 127, 128, -128, -129, 255, 256, 32767, 32768, -32768, -32769, 65535, 65536,
	math.MaxInt32, math.MinInt32, math.MaxInt32 + 1, math.MinInt32 - 1, math.MaxInt64, math.MinInt64, 1 << 53, 999999999, -999999999, 1000000000}

var c19F32Pool = []uint32{0, 0x80000000, 0x3f800000, 0xbf800000, 0x7f800000, 0xff800000, 0x7fc00000, 0xffc00000,
	0x7fc00001, 0x7fffffff, 0x00000001, 0x807fffff, 0x7f7fffff}

var c19F64Pool = []uint64{0, 0x8000000000000000, 0x3ff0000000000000, 0x7ff0000000000000, 0xfff0000000000000,
	0x7ff8000000000000, 0xfff8000000000001, 0x7ff0000000000001, 0x7fffffffffffffff, 1, 0x7fefffffffffffff}

// signalling float32 NaNs (quiet bit clear): Go's float32->float64 conversion in variant.Float
// quiets them, see the "float32-snan" note in RunC19Codec.
var c19F32SNaN = []uint32{0x7f800001, 0x7fa00000, 0xffbfffff}

var c19KeyPool = []string{"a", "b", "c", "d", "id", "name", "value", "typed_value", "metadata", "x", "y", "z", "",
	"é", "日本", "😀", "zz", "aa", "ab", "a\x00", "A", "Z", "_", "key with space", "ключ", "ÿ", "￿", "\U0010ffff", "~"}

func c19RandInt(r *rand.Rand, bits uint) int64 {
	var x int64
	switch r.Intn(3) {
	case 0:
		x = c19Int64Pool[r.Intn(len(c19Int64Pool))]
	case 1:
		x = int64(r.Intn(20)) - 10
	default:
		x = int64(r.Uint64())
	}
	if bits < 64 { // wrap into the width, sign-extended
		x = x << (64 - bits) >> (64 - bits)
	}
	return x
}

func c19RandLen(r *rand.Rand, big bool) int {
	switch r.Intn(10) {
	case 0:
		return 0
	case 1:
		return 1 + r.Intn(3)
	case 2:
		return 62 + r.Intn(4) // short-string boundary 63/64
	case 3:
		return 30 + r.Intn(4)
	case 4:
		if big {
			return 249 + r.Intn(10) // 5+len around 255/256
		}
		return r.Intn(20)
	case 5:
		if big {
			return 127 + r.Intn(3)
		}
		return r.Intn(20)
	default:
		return r.Intn(24)
	}
}

// random valid UTF-8 of exactly n bytes (mix of 1..4 byte sequences, padded with ASCII)
func c19RandUTF8(r *rand.Rand, n int) []byte {
	out := make([]byte, 0, n)
	for len(out) < n {
		left := n - len(out)
		var ru rune
		switch k := r.Intn(8); {
		case k < 4 || left < 2:
			ru = rune(0x20 + r.Intn(0x5f))
		case k == 4 || left < 3:
			ru = rune(0x80 + r.Intn(0x780))
		case k < 7 || left < 4:
			ru = rune(0x800 + r.Intn(0xF800))
			if ru >= 0xD800 && ru <= 0xDFFF {
				ru = 0xE000
			}
		default:
			ru = rune(0x10000 + r.Intn(0x100000))
		}
		out = append(out, string(ru)...)
	}
	return out[:n]
}

func c19RandBytes(r *rand.Rand, n int) []byte {
	b := make([]byte, n)
	switch r.Intn(4) {
	case 0:
		for i := range b {
			b[i] = 0xFF
		}
	case 1: // zeros
	default:
		r.Read(b)
	}
	return b
}

var c19PrimKinds = []string{"n", "t", "f", "i8", "i16", "i32", "i64", "f32", "f64", "d4", "d8", "d16", "date",
	"ts", "tsntz", "time", "tsns", "tsntzns", "bin", "s", "u"}

func c19RandPrim(r *rand.Rand, big bool) *c19Node {
	k := c19PrimKinds[r.Intn(len(c19PrimKinds))]
	if r.Intn(4) == 0 {
		k = "s"
	}
	n := &c19Node{kind: k}
	switch k {
	case "i8":
		n.i = c19RandInt(r, 8)
	case "i16":
		n.i = c19RandInt(r, 16)
	case "i32", "date":
		n.i = c19RandInt(r, 32)
	case "i64", "ts", "tsntz", "time", "tsns", "tsntzns":
		n.i = c19RandInt(r, 64)
	case "f32":
		if r.Intn(2) == 0 {
			n.bits = uint64(c19F32Pool[r.Intn(len(c19F32Pool))])
		} else {
			n.bits = uint64(r.Uint32())
			if f := math.Float32frombits(uint32(n.bits)); f != f {
				n.bits |= 0x00400000 // keep random NaNs quiet (signalling ones are probed separately)
			}
		}
	case "f64":
		if r.Intn(2) == 0 {
			n.bits = c19F64Pool[r.Intn(len(c19F64Pool))]
		} else {
			n.bits = r.Uint64()
		}
	case "d4":
		n.i, n.scale = c19RandInt(r, 32), byte([]int{0, 1, 2, 3, 9, 38, 255}[r.Intn(7)])
	case "d8":
		n.i, n.scale = c19RandInt(r, 64), byte([]int{0, 1, 2, 3, 18, 38, 255}[r.Intn(7)])
	case "d16":
		n.scale = byte([]int{0, 1, 2, 3, 38, 255}[r.Intn(6)])
		n.b = make([]byte, 16)
		switch r.Intn(4) {
		case 0: // small signed value, sign-extended little endian
			x := c19RandInt(r, 64)
			for i := 0; i < 16; i++ {
				if i < 8 {
					n.b[i] = byte(uint64(x) >> (8 * i))
				} else if x < 0 {
					n.b[i] = 0xFF
				}
			}
		case 1:
			n.b[15] = 0x80 // -2^127
		default:
			r.Read(n.b)
		}
	case "bin":
		n.b = c19RandBytes(r, c19RandLen(r, big))
	case "s":
		n.b = c19RandUTF8(r, c19RandLen(r, big))
	case "u":
		n.b = c19RandBytes(r, 16)
	}
	return n
}

// distinct keys: from the pool, generated names k0001.., or long unicode names
func c19RandKeys(r *rand.Rand, n int, mode int) []string {
	seen := map[string]bool{}
	keys := make([]string, 0, n)
	for len(keys) < n {
		var k string
		switch {
		case mode == 0 && len(keys) < len(c19KeyPool) && r.Intn(3) > 0:
			k = c19KeyPool[r.Intn(len(c19KeyPool))]
		case mode == 2: // long keys: pushes the metadata offsets past one and two bytes
			k = fmt.Sprintf("%04d-", r.Intn(10000)) + string(c19RandUTF8(r, 200+r.Intn(60)))
		default:
			k = fmt.Sprintf("k%04d", r.Intn(3000))
			if r.Intn(8) == 0 {
				k = string(c19RandUTF8(r, 1+r.Intn(6)))
			}
		}
		if !seen[k] {
			seen[k] = true
			keys = append(keys, k)
		}
	}
	switch r.Intn(3) {
	case 0:
		sort.Strings(keys) // dictionary built in sorted order -> sorted_strings bit set
	case 1:
		sort.Sort(sort.Reverse(sort.StringSlice(keys)))
	}
	return keys
}

func c19RandFanout(r *rand.Rand, budget *int) int {
	var n int
	switch r.Intn(12) {
	case 0:
		n = 0
	case 1:
		n = 1
	case 2:
		n = 254 + r.Intn(4) // is_large boundary 255/256
	case 3:
		n = 290 + r.Intn(11)
	case 4:
		n = 30 + r.Intn(40)
	default:
		n = r.Intn(6)
	}
	if n > *budget {
		n = *budget
	}
	if n < 0 {
		n = 0
	}
	return n
}

func c19RandTree(r *rand.Rand, depth, maxDepth int, budget *int) *c19Node {
	if depth >= maxDepth || *budget <= 0 || r.Intn(3) == 0 {
		return c19RandPrim(r, *budget > 50 && r.Intn(4) == 0)
	}
	n := c19RandFanout(r, budget)
	*budget -= n + 1
	if r.Intn(2) == 0 {
		a := &c19Node{kind: "arr"}
		for i := 0; i < n; i++ {
			a.elems = append(a.elems, c19RandTree(r, depth+1, maxDepth, budget))
		}
		return a
	}
	mode := 0
	if n > 20 {
		mode = 1
		if r.Intn(6) == 0 {
			mode = 2
		}
	}
	o := &c19Node{kind: "obj", keys: c19RandKeys(r, n, mode)}
	for i := 0; i < n; i++ {
		o.elems = append(o.elems, c19RandTree(r, depth+1, maxDepth, budget))
	}
	return o
}

// a chain of nested containers down to the given depth
func c19DeepTree(r *rand.Rand, depth int) *c19Node {
	if depth == 0 {
		return c19RandPrim(r, false)
	}
	inner := c19DeepTree(r, depth-1)
	if r.Intn(2) == 0 {
		a := &c19Node{kind: "arr", elems: []*c19Node{inner}}
		if r.Intn(2) == 0 {
			a.elems = append(a.elems, c19RandPrim(r, false))
		}
		return a
	}
	o := &c19Node{kind: "obj", keys: []string{c19KeyPool[r.Intn(len(c19KeyPool))]}, elems: []*c19Node{inner}}
	if r.Intn(2) == 0 && o.keys[0] != "zzz" {
		o.keys = append(o.keys, "zzz")
		o.elems = append(o.elems, c19RandPrim(r, false))
	}
	return o
}

// containers whose value area has exactly `total` bytes: total sizes around the offset-width
// thresholds. A binary of length L encodes to 5+L bytes.
func c19SizedTree(r *rand.Rand, total int) *c19Node {
	parts := 1 + r.Intn(3)
	if total < 5*parts+3 {
		parts = 1
	}
	var elems []*c19Node
	left := total
	for i := 0; i < parts; i++ {
		sz := left
		if i < parts-1 {
			sz = 5 + r.Intn(left-5*(parts-i)+1)
		}
		left -= sz
		elems = append(elems, &c19Node{kind: "bin", b: c19RandBytes(r, sz-5)})
	}
	if r.Intn(2) == 0 {
		return &c19Node{kind: "arr", elems: elems}
	}
	return &c19Node{kind: "obj", keys: c19RandKeys(r, len(elems), 0), elems: elems}
}

// many distinct keys spread over nested objects so that field ids exceed 255 while each object
// stays small, or one object with more than 255 fields.
func c19ManyKeys(r *rand.Rand) *c19Node {
	total := 257 + r.Intn(60)
	keys := c19RandKeys(r, total, 1)
	if r.Intn(2) == 0 {
		o := &c19Node{kind: "obj", keys: keys}
		for range keys {
			o.elems = append(o.elems, c19RandPrim(r, false))
		}
		return o
	}
	a := &c19Node{kind: "arr"}
	for i := 0; i < total; i += 40 {
		j := i + 40
		if j > total {
			j = total
		}
		o := &c19Node{kind: "obj", keys: keys[i:j]}
		for range o.keys {
			o.elems = append(o.elems, c19RandPrim(r, false))
		}
		a.elems = append(a.elems, o)
	}
	// a last object that reuses the highest ids only: 2-byte field ids with a 1-byte count
	last := &c19Node{kind: "obj", keys: []string{keys[total-1], keys[0]}, elems: []*c19Node{c19RandPrim(r, false), c19RandPrim(r, false)}}
	a.elems = append(a.elems, last)
	return a
}

// thin: the thorough tier draws many more values; the classes whose cost is dominated by the size of one
// value (sized, manykeys, deep, large: 15 % of the quick stream and 95 % of its time, mostly the byte-list
// model on 64 KiB values) are kept at about 1.5x their quick number, the rest of the budget goes to
// primitives and trees.
func c19GenCase(r *rand.Rand, i int, thin bool) (*c19Node, string) {
	k := r.Intn(100)
	if thin && k >= 30 && k < 45 && r.Intn(20) >= 3 {
		k = 45 + r.Intn(55)
	}
	switch {
	case k < 30:
		return c19RandPrim(r, true), "primitive"
	case k < 34:
		t := []int{255, 256, 255, 256, 255, 256, 65535, 65536}[r.Intn(8)] + r.Intn(3) - 1
		return c19SizedTree(r, t), "sized"
	case k < 37:
		return c19ManyKeys(r), "manykeys"
	case k < 42:
		return c19DeepTree(r, 2+r.Intn(5)), "deep"
	case k < 45:
		b := 400 + r.Intn(600)
		return c19RandTree(r, 0, 6, &b), "large"
	default:
		b := 4 + r.Intn(40)
		return c19RandTree(r, 0, 1+r.Intn(6), &b), "tree"
	}
}

func (n *c19Node) stats() (depth, nodes, maxFan int) {
	nodes = 1
	if n.isContainer() {
		maxFan = len(n.elems)
		for _, e := range n.elems {
			d, c, f := e.stats()
			if d+1 > depth {
				depth = d + 1
			}
			nodes += c
			if f > maxFan {
				maxFan = f
			}
		}
		if depth == 0 {
			depth = 1
		}
	}
	return
}

func c19Bucket(n int) string {
	switch {
	case n == 0:
		return "0"
	case n <= 2:
		return "1-2"
	case n <= 63:
		return "3-63"
	case n <= 254:
		return "64-254"
	case n <= 257:
		return "255-257"
	case n <= 65533:
		return "258-65533"
	case n <= 65538:
		return "65534-65538"
	case n <= 0xFFFFFF-3:
		return "65539-16M"
	default:
		return ">=16M"
	}
}

// ---------------------------------------------------------------- Go side of one case

func c19Encode(v variant.Value) (meta, value []byte) {
	var b variant.MetadataBuilder
	value = variant.Encode(&b, v)
	_, meta = b.Build()
	return
}

func c19Decode(meta, value []byte) (v variant.Value, err error) {
	defer func() {
		if p := recover(); p != nil {
			err = fmt.Errorf("PANIC: %v", p)
		}
	}()
	m, err := variant.DecodeMetadata(meta)
	if err != nil {
		return variant.Null(), fmt.Errorf("metadata: %w", err)
	}
	return variant.Decode(m, value)
}

type c19Pending struct {
	reqs []string
	fns  []func(string)
}

func (p *c19Pending) add(req string, fn func(string)) {
	p.reqs = append(p.reqs, req)
	p.fns = append(p.fns, fn)
}

func (p *c19Pending) flush(ctx *core.Ctx, d *drv.Driver) {
	if d == nil || len(p.reqs) == 0 {
		p.reqs, p.fns = nil, nil
		return
	}
	ans, err := d.AskMany(p.reqs)
	if err != nil {
		ctx.Fail("L2", "driver-error", err.Error(), nil)
	}
	for i, a := range ans {
		p.fns[i](a)
	}
	p.reqs, p.fns = p.reqs[:0], p.fns[:0]
}

func c19Trunc(s string) string {
	if len(s) > 6000 {
		return s[:6000] + fmt.Sprintf("…(%d bytes)", len(s))
	}
	return s
}

// one codec case: L1 on the Go side, L1/L2 requests to the model queued in p. Returns the Go
// encoding for the malformed stream.
func c19CodecCase(ctx *core.Ctx, n *c19Node, class string, p *c19Pending, lean bool) (meta, value []byte) {
	txt := n.String()
	want := n.SortedString()
	depth, nodes, fan := n.stats()
	ctx.Case(txt, n.isContainer() || n.kind == "s" || n.kind == "bin" || strings.HasPrefix(n.kind, "d"))
	ctx.Hist("codec.class", class)
	ctx.Hist("codec.depth", strconv.Itoa(depth))
	ctx.Hist("codec.maxfanout", c19Bucket(fan))
	if !n.isContainer() {
		ctx.Hist("codec.prim", n.kind)
	}
	_ = nodes
	v := n.toVariant()
	meta, value = c19Encode(v)
	ctx.Hist("codec.valuebytes", c19Bucket(len(value)))
	ctx.Hist("codec.metabytes", c19Bucket(len(meta)))
	if len(value) > 0 {
		switch value[0] & 3 {
		case 2:
			ctx.Hist("codec.objheader", fmt.Sprintf("offw%d idw%d large%d", (value[0]>>2)&3+1, (value[0]>>4)&3+1, (value[0]>>6)&1))
		case 3:
			ctx.Hist("codec.arrheader", fmt.Sprintf("offw%d large%d", (value[0]>>2)&3+1, (value[0]>>4)&1))
		}
	}
	if len(meta) > 0 {
		ctx.Hist("codec.metaheader", fmt.Sprintf("offw%d sorted%d", (meta[0]>>6)+1, (meta[0]>>4)&1))
	}
	detail := func(extra map[string]any) map[string]any {
		m := map[string]any{"value": c19Trunc(txt), "class": class, "metadata_hex": c19Trunc(core.Hex(meta)), "value_hex": c19Trunc(core.Hex(value))}
		for k, x := range extra {
			m[k] = x
		}
		return m
	}
	sig := class
	if !n.isContainer() {
		sig = "prim-" + n.kind
	}
	// ---- L1: Decode(Encode(v)) == v
	got, err := c19Decode(meta, value)
	if err != nil {
		key := "decode-of-encode-fails " + sig
		if strings.HasPrefix(err.Error(), "PANIC") {
			key = "decode-of-encode-panics " + sig
		}
		ctx.Fail("L1", key, "Decode rejects the bytes Encode produced: "+err.Error(), detail(nil))
	} else {
		gt := c19VText(got, true)
		if gt != want {
			ctx.Fail("L1", "decode-of-encode-differs "+sig, "Decode(Encode(v)) is not v", detail(map[string]any{"decoded": c19Trunc(gt), "want": c19Trunc(want)}))
		}
		if !got.Equal(v) || !v.Equal(got) {
			ctx.Fail("L1", "equal-false-on-roundtrip "+sig, "Value.Equal(Decode(Encode(v)), v) is false", detail(map[string]any{"decoded": c19Trunc(gt)}))
		}
	}
	if !lean {
		ctx.Hist("codec.lean", "skipped-too-large")
		return
	}
	// ---- L1: the SPEC decoder reads the Go bytes as v
	p.add("variant.dec "+core.Hex(meta)+" "+core.Hex(value), func(ans string) {
		if ans != "ok "+want {
			ctx.Fail("L1", "spec-decoder-disagrees "+sig, "the spec decoder does not read Encode's bytes as the value written", detail(map[string]any{"spec": c19Trunc(ans), "want": c19Trunc(want)}))
		}
	})
	// ---- L1: the streaming Builder, the library's second encoder (field values stay in event
	// order, only the header is sorted, so offsets are not monotone): same value for both decoders
	{
		var bld variant.Builder
		var bm, bv []byte
		berr := c19Guard(func() error {
			v.Write(&bld)
			var e error
			bm, bv, e = bld.Finish()
			bm, bv = bytes.Clone(bm), bytes.Clone(bv)
			return e
		})
		if berr != nil {
			ctx.Fail("L1", "builder-fails "+sig, "variant.Builder rejects the value: "+berr.Error(), detail(nil))
		} else {
			if bytes.Equal(bv, value) && bytes.Equal(bm, meta) {
				ctx.Hist("codec.builder", "same bytes as Encode")
			} else {
				ctx.Hist("codec.builder", "different layout")
			}
			bg, err := c19Decode(bm, bv)
			if err != nil {
				ctx.Fail("L1", "builder-decode-fails "+sig, "Decode rejects the bytes of variant.Builder: "+err.Error(), detail(map[string]any{"builder_value_hex": c19Trunc(core.Hex(bv))}))
			} else if t := c19VText(bg, true); t != want {
				ctx.Fail("L1", "builder-decode-differs "+sig, "Decode(Builder(v)) is not v", detail(map[string]any{"decoded": c19Trunc(t), "want": c19Trunc(want), "builder_value_hex": c19Trunc(core.Hex(bv))}))
			}
			if !bytes.Equal(bv, value) || !bytes.Equal(bm, meta) {
				bmh, bvh := core.Hex(bm), core.Hex(bv)
				p.add("variant.dec "+bmh+" "+bvh, func(ans string) {
					// the spec decoder lists fields in header order (sorted by name), as Decode does
					if ans != "ok "+want {
						ctx.Fail("L1", "spec-decoder-disagrees-on-builder "+sig, "the spec decoder does not read variant.Builder's bytes as the value written",
							detail(map[string]any{"spec": c19Trunc(ans), "want": c19Trunc(want), "builder_metadata_hex": c19Trunc(bmh), "builder_value_hex": c19Trunc(bvh)}))
					}
				})
			}
		}
	}
	// ---- L2: Go bytes == mirror bytes
	p.add("variant.enc "+txt, func(ans string) {
		if ans != "ok "+core.Hex(meta)+" "+core.Hex(value) {
			ctx.Fail("L2", "encode-mirror "+sig, "Encode bytes differ from the Lean mirror", detail(map[string]any{"model": c19Trunc(ans)}))
		}
	})
	return
}

// ---------------------------------------------------------------- malformed stream

type c19Malformed struct {
	meta, value []byte
	how         string
}

func c19Mutate(r *rand.Rand, b []byte) ([]byte, string) {
	out := bytes.Clone(b)
	switch k := r.Intn(9); {
	case k == 0 && len(out) > 0:
		return out[:r.Intn(len(out))], "truncate"
	case k == 1:
		return append(out, c19RandBytes(r, 1+r.Intn(4))...), "extend"
	case k == 2 && len(out) > 0:
		i := r.Intn(len(out))
		out[i] ^= 1 << uint(r.Intn(8))
		return out, "bitflip"
	case k == 3 && len(out) > 0:
		out[0] = byte(r.Intn(256))
		return out, "header"
	case k == 4 && len(out) > 1:
		i := 1 + r.Intn(min(len(out)-1, 8))
		out[i] = []byte{0, 1, 0x7f, 0x80, 0xff, byte(r.Intn(256))}[r.Intn(6)]
		return out, "early-byte"
	case k == 5 && len(out) > 0:
		i := r.Intn(len(out))
		out[i] = []byte{0, 0xff, 0x80, 0xc0, 0xed, 0xf4, byte(r.Intn(256))}[r.Intn(7)]
		return out, "byte"
	case k == 6 && len(out) > 2:
		i, j := r.Intn(len(out)), r.Intn(len(out))
		out[i], out[j] = out[j], out[i]
		return out, "swap"
	case k == 7 && len(out) > 3:
		i := r.Intn(len(out) - 1)
		j := i + 1 + r.Intn(len(out)-i-1)
		return append(out[:i:i], out[j:]...), "cut"
	default:
		n := r.Intn(12)
		out = make([]byte, n)
		r.Read(out)
		if n > 0 && r.Intn(2) == 0 {
			out[0] = []byte{2, 3, 0x12, 0x13, 0x42, 0x40, 0x3c, 0x05}[r.Intn(8)]
		}
		return out, "random"
	}
}

var c19F32Re = regexp.MustCompile(`f32:[0-9a-f]{8}`)

// c19QuietF32 sets the quiet bit of every float32 NaN in a value text.
func c19QuietF32(s string) string {
	if !strings.Contains(s, "f32:") {
		return s
	}
	return c19F32Re.ReplaceAllStringFunc(s, func(t string) string {
		var b uint32
		fmt.Sscanf(t[4:], "%x", &b)
		if b&0x7f800000 == 0x7f800000 && b&0x007fffff != 0 {
			b |= 0x00400000
		}
		return fmt.Sprintf("f32:%08x", b)
	})
}

// c19SNaNProbe: variant bytes holding a float whose payload is a signalling NaN. variant.Value keeps
// a float32 as float64, and that conversion sets the quiet bit, so Decode followed by Encode (which is
// what a raw write through a shredded column does) changes the four payload bytes.
func c19SNaNProbe(ctx *core.Ctx) {
	meta := []byte{0x11, 0x00, 0x00}
	for _, bits := range c19F32SNaN {
		value := []byte{14 << 2, byte(bits), byte(bits >> 8), byte(bits >> 16), byte(bits >> 24)}
		ctx.Case("snan "+core.Hex(value), true)
		v, err := c19Decode(meta, value)
		if err != nil {
			ctx.Fail("L1", "float32-signalling-nan-rejected", "Decode rejects a float with a signalling NaN payload: "+err.Error(), map[string]any{"value_hex": core.Hex(value)})
			continue
		}
		_, re := c19Encode(v)
		if !bytes.Equal(re, value) {
			ctx.Hist("codec.note", "float32-snan-bytes-changed-by-decode-encode")
			ctx.Observe("float32-signalling-nan-quieted", "Encode(Decode(bytes)) changes the payload of a float32 signalling NaN (NaN compared by bits)",
				map[string]any{"metadata_hex": core.Hex(meta), "value_hex": core.Hex(value), "reencoded_hex": core.Hex(re)})
		}
	}
}

// c19DecodeWorker: isolated decoder process. stdin: "<meta hex> <value hex>" per line; stdout: one
// answer line per request ("ok <text>" | "err" | "panic <msg>").
func c19DecodeWorker(args []string) int {
	in := bufio.NewReaderSize(os.Stdin, 1<<20)
	out := bufio.NewWriter(os.Stdout)
	defer out.Flush()
	for {
		line, err := in.ReadString('\n')
		if line == "" && err != nil {
			return 0
		}
		f := strings.Fields(line)
		unhex := func(s string) []byte {
			if s == "-" {
				return nil
			}
			b, _ := hex.DecodeString(s)
			return b
		}
		if len(f) == 3 && f[0] == "count" { // number of values the decoder materialises
			v, derr := c19Decode(unhex(f[1]), unhex(f[2]))
			if derr != nil {
				fmt.Fprintln(out, "err")
			} else {
				fmt.Fprintf(out, "nodes %d\n", c19CountNodes(v))
			}
			out.Flush()
			continue
		}
		if len(f) != 2 {
			fmt.Fprintln(out, "bad-request")
			out.Flush()
			continue
		}
		v, derr := c19Decode(unhex(f[0]), unhex(f[1]))
		switch {
		case derr == nil:
			fmt.Fprintln(out, "ok "+c19VText(v, false))
		case strings.HasPrefix(derr.Error(), "PANIC"):
			fmt.Fprintln(out, "panic "+strings.ReplaceAll(derr.Error(), "\n", " "))
		default:
			fmt.Fprintln(out, "err")
		}
		out.Flush()
	}
}

func c19CountNodes(v variant.Value) int {
	n := 1
	switch v.Basic() {
	case variant.BasicObject:
		for _, f := range v.ObjectValue().Fields {
			n += c19CountNodes(f.Value)
		}
	case variant.BasicArray:
		for _, e := range v.ArrayValue().Elements {
			n += c19CountNodes(e)
		}
	}
	return n
}

// c19Bomb: an object whose n fields all start at offset 0 of its value area, where the next such
// object sits (object field values may be listed in any order, so the decoder accepts overlapping
// fields): `depth` levels cost depth*(2n+4)+1 input bytes and decode to n^depth values.
func c19Bomb(n, depth int) (meta, value []byte) {
	var b variant.MetadataBuilder
	for i := 0; i < n; i++ {
		b.Add(fmt.Sprintf("k%02d", i))
	}
	_, meta = b.Build()
	value = []byte{0x00}
	for d := 0; d < depth; d++ {
		hdr := []byte{0x02 | 1<<2, byte(n)} // object, 2-byte offsets, 1-byte ids
		for i := 0; i < n; i++ {
			hdr = append(hdr, byte(i))
		}
		for i := 0; i < n; i++ {
			hdr = append(hdr, 0, 0)
		}
		hdr = append(hdr, byte(len(value)), byte(len(value)>>8))
		value = append(hdr, value...)
	}
	return
}

// c19AmplificationProbe: a well-formed encoding spends at least one byte per value, so a decoder
// that materialises more values than the input has bytes is doing work (and allocating memory)
// exponential in the input size. Run isolated, with a timeout.
func c19AmplificationProbe(ctx *core.Ctx) {
	w, err := c19StartWorker()
	if err != nil {
		ctx.Fail("L2", "worker-unavailable", "cannot start the decoder worker: "+err.Error(), nil)
		return
	}
	defer func() { w.kill() }()
	for _, c := range [][2]int{{2, 3}, {4, 4}, {8, 5}, {8, 6}} {
		meta, value := c19Bomb(c[0], c[1])
		t0 := time.Now()
		ans := w.ask("count "+core.Hex(meta)+" "+core.Hex(value), 20*time.Second)
		dt := time.Since(t0)
		ctx.Case("bomb "+core.Hex(value), true)
		detail := map[string]any{"metadata_hex": core.Hex(meta), "value_hex": core.Hex(value), "fields_per_level": c[0], "levels": c[1],
			"input_bytes": len(value), "answer": ans, "decode_ms": dt.Milliseconds(),
			"growth": "each further level adds 2*fields+4 bytes and multiplies time and memory by `fields` (8 fields: 225 bytes take 8 s, 281 bytes about 9 minutes and tens of GB)"}
		var nodes int
		switch {
		case ans == "timeout" || ans == "crash":
			ctx.Hist("malformed.amplification", ans)
			ctx.Observe("decoder-exponential-overlapping-object-fields", "variant.Decode does not return on a small malformed input ("+ans+")", detail)
			w.kill()
			if w, err = c19StartWorker(); err != nil {
				return
			}
		case ans == "err":
			ctx.Hist("malformed.amplification", "rejected")
		default:
			fmt.Sscanf(ans, "nodes %d", &nodes)
			if nodes > 4*len(value) {
				ctx.Hist("malformed.amplification", "amplified")
				ctx.Observe("decoder-exponential-overlapping-object-fields",
					fmt.Sprintf("variant.Decode materialises %d values from a %d-byte input (object fields that overlap): time and memory are exponential in the input size, a few hundred bytes hang the decoder", nodes, len(value)), detail)
			} else {
				ctx.Hist("malformed.amplification", "linear")
			}
		}
	}
}

type c19Worker struct {
	cmd *exec.Cmd
	in  io.WriteCloser
	out *bufio.Reader
}

func c19StartWorker() (*c19Worker, error) {
	cmd := exec.Command(os.Args[0], "-worker", "c19-decode")
	cmd.Env = append(os.Environ(), "GOMEMLIMIT=1GiB")
	in, err := cmd.StdinPipe()
	if err != nil {
		return nil, err
	}
	outp, err := cmd.StdoutPipe()
	if err != nil {
		return nil, err
	}
	if err := cmd.Start(); err != nil {
		return nil, err
	}
	return &c19Worker{cmd: cmd, in: in, out: bufio.NewReaderSize(outp, 1<<20)}, nil
}

func (w *c19Worker) kill() {
	w.in.Close()
	w.cmd.Process.Kill()
	w.cmd.Wait()
}

// ask sends one request and waits for the answer with a timeout; "timeout"/"crash" are outcomes.
func (w *c19Worker) ask(req string, timeout time.Duration) string {
	type res struct {
		s   string
		err error
	}
	ch := make(chan res, 1)
	go func() {
		if _, err := io.WriteString(w.in, req+"\n"); err != nil {
			ch <- res{"", err}
			return
		}
		s, err := w.out.ReadString('\n')
		ch <- res{strings.TrimRight(s, "\n"), err}
	}()
	select {
	case r := <-ch:
		if r.err != nil {
			return "crash"
		}
		return r.s
	case <-time.After(timeout):
		return "timeout"
	}
}

func c19RunMalformed(ctx *core.Ctx, d *drv.Driver, cases []c19Malformed) {
	w, err := c19StartWorker()
	if err != nil {
		ctx.Fail("L2", "worker-unavailable", "cannot start the decoder worker: "+err.Error(), nil)
		return
	}
	defer func() { w.kill() }()
	var p c19Pending
	for _, c := range cases {
		c := c
		req := core.Hex(c.meta) + " " + core.Hex(c.value)
		ans := w.ask(req, 10*time.Second)
		ctx.Case("malformed "+req, true)
		ctx.Hist("malformed.mutation", c.how)
		detail := map[string]any{"metadata_hex": core.Hex(c.meta), "value_hex": core.Hex(c.value), "mutation": c.how}
		switch {
		case ans == "timeout" || ans == "crash":
			ctx.Hist("malformed.go", ans)
			ctx.Fail("L1", "decoder-"+ans+" "+c.how, "variant.Decode did not return on a malformed input ("+ans+" of the isolated worker)", detail)
			w.kill()
			if w, err = c19StartWorker(); err != nil {
				ctx.Fail("L2", "worker-unavailable", err.Error(), nil)
				return
			}
			continue
		case strings.HasPrefix(ans, "panic"):
			ctx.Hist("malformed.go", "panic")
			detail["panic"] = ans
			ctx.Fail("L1", "decoder-panic "+c.how, "variant.Decode panics on a malformed input instead of returning an error", detail)
			continue
		case ans == "err":
			ctx.Hist("malformed.go", "error")
		default:
			ctx.Hist("malformed.go", "accepted")
		}
		p.add("variant.dec "+req, func(m string) {
			// variant.Value cannot hold a signalling float32 NaN (reported once by c19SNaNProbe):
			// compare float32 NaNs up to the quiet bit here
			same := c19QuietF32(m) == c19QuietF32(ans) || (ans == "err" && strings.HasPrefix(m, "err "))
			if same && m != ans && strings.HasPrefix(ans, "ok ") {
				ctx.Hist("malformed.note", "float32 signalling NaN quieted by Decode")
			}
			if !same {
				d2 := map[string]any{"impl": c19Trunc(ans), "spec": c19Trunc(m)}
				for k, x := range detail {
					d2[k] = x
				}
				kind := "value-differs"
				if ans == "err" {
					kind = "go-rejects-spec-accepts"
				} else if strings.HasPrefix(m, "err ") {
					kind = "go-accepts-spec-rejects:" + strings.TrimPrefix(m, "err ")
				}
				ctx.Fail("L2", "decode-vs-spec "+kind, "variant.Decode and the spec decoder disagree on a non-canonical input", d2)
			}
		})
		if len(p.reqs) >= 2000 {
			p.flush(ctx, d)
		}
	}
	p.flush(ctx, d)
}

// ---------------------------------------------------------------- the sub-check

const c19Rule = "codec: random variant value trees (21 primitive kinds with boundary pools, objects/arrays of 0..300 entries, " +
	"depth <= 6, >255 dictionary keys, value areas of 254..257 and 65534..65537 bytes (16 MiB for Go only), unicode/empty/long keys, " +
	"dictionaries in sorted/reverse/random insertion order) + a mutated/random malformed stream; distinct by the " +
	"insertion-ordered value text; non-trivial = container, string, binary or decimal (or any malformed input). " +
	"shredding: random shredding schemas (none/primitive/list/object, depth <= 3, 19 leaf types) x rows aimed at the schema " +
	"(matches, type mismatches, residual and missing fields, decimals around the precision bound) x 6 write paths, each file " +
	"read through 4 read paths; the same with the variant column below repeated / repeated-repeated / optional / optional-repeated / repeated-optional " +
	"ancestors (several occurrences per row, null occurrences between them, LIST and object-with-LIST typed_value, first occurrence an array of >= 2 elements, " +
	"with and without null/empty ancestors; 5 write x 4 read paths); every top-level file also read through the columnar " +
	"VariantReader (rows rebuilt from the shredded cursors, and every path occurring in the values - in the shredding schema or not - " +
	"plus an absent name navigated by Field/Elements, with only those cursors projected and with the whole tree projected) and through 4 evolved reader schemas (columns added before/between/after the variant, id dropped); larger files with " +
	"dictionary-encoded typed_value leaves, small DictionaryMaxBytes/PageBufferSize, several row groups, page v1/v2 read through " +
	"VariantReader with 3 window sizes; the (definition level, repetition level, value) cells of every leaf column of these files " +
	"compared with the level mirror; foreign-style files written cell by cell (raw parquet.Row values from the level mirror) with " +
	"16-byte DECIMAL typed_value leaves laid out as minimal-length / sign-padded BYTE_ARRAY or FIXED_LEN_BYTE_ARRAY(n <= 16) " +
	"(values of 1..16 significant bytes whose sign and low-byte top bit are independent), top-level and below the 5 ancestor shapes, " +
	"read through every read path; distinct by schema + write path + row texts; " +
	"non-trivial = the column has a typed_value or sits below an optional/repeated ancestor"

func RunC19Codec(ctx *core.Ctx) {
	ctx.SetRule(c19Rule)
	nw := 8
	total := ctx.Scale(20000, 200000)
	var wg sync.WaitGroup
	var mu sync.Mutex
	var malformed []c19Malformed
	// corpus first: "codec <value text>" (round trip + mirror) and "bytes <metadata hex> <value hex>"
	// (decoder agreement on a recorded byte string)
	{
		var p c19Pending
		d := ctx.Driver()
		for _, file := range ctx.CorpusFiles() {
			raw, err := os.ReadFile(file)
			if err != nil {
				continue
			}
			for _, line := range strings.Split(string(raw), "\n") {
				f := strings.Fields(line)
				switch {
				case len(f) == 2 && f[0] == "codec":
					if n, ok := c19ParseText(f[1]); ok {
						c19CodecCase(ctx, n, "corpus", &p, true)
					} else {
						ctx.Fail("L2", "corpus-unreadable", "cannot parse corpus case "+file, map[string]any{"line": c19Trunc(line)})
					}
				case len(f) == 3 && f[0] == "bytes":
					unhex := func(s string) []byte {
						if s == "-" {
							return nil
						}
						b, _ := hex.DecodeString(s)
						return b
					}
					malformed = append(malformed, c19Malformed{meta: unhex(f[1]), value: unhex(f[2]), how: "corpus"})
				}
			}
		}
		p.flush(ctx, d)
	}
	for w := 0; w < nw; w++ {
		w := w
		wg.Add(1)
		go func() {
			defer wg.Done()
			r := ctx.Rand(fmt.Sprintf("c19-codec-%d", w))
			d := ctx.Driver()
			var p c19Pending
			var local []c19Malformed
			pendingBytes := 0
			for i := 0; i < total/nw; i++ {
				n, class := c19GenCase(r, i, ctx.Thorough())
				if w == 0 && i < 3 {
					ctx.Sample(map[string]any{"value": c19Trunc(n.String()), "class": class})
				}
				meta, value := c19CodecCase(ctx, n, class, &p, true)
				pendingBytes += len(value) + len(meta)
				if len(value) < 400 && r.Intn(4) == 0 {
					k := 1 + r.Intn(3)
					for j := 0; j < k; j++ {
						m := c19Malformed{meta: meta, value: value}
						if r.Intn(4) == 0 {
							m.meta, m.how = c19Mutate(r, meta)
							m.how = "meta-" + m.how
						} else {
							m.value, m.how = c19Mutate(r, value)
						}
						local = append(local, m)
					}
				}
				if len(p.reqs) >= 1000 || pendingBytes > 4<<20 {
					p.flush(ctx, d)
					pendingBytes = 0
				}
			}
			p.flush(ctx, d)
			mu.Lock()
			malformed = append(malformed, local...)
			mu.Unlock()
		}()
	}
	wg.Wait()

	// values past the 3-byte offset limit (16 MiB value area): Go round trip only, the byte-list
	// model is not run on inputs of this size.
	{
		r := ctx.Rand("c19-codec-16m")
		var p c19Pending
		for _, t := range []int{0xFFFFFF, 0x1000000}[:ctx.Scale(2, 2)] {
			n := &c19Node{kind: "arr", elems: []*c19Node{{kind: "bin", b: make([]byte, t-5-3)}, {kind: "i8", i: int64(r.Intn(100))}, {kind: "n"}}}
			n.elems[0].b[t/2] = 7
			c19CodecCase(ctx, n, "sized-16M", &p, false)
		}
	}

	// the malformed stream, split over a few workers
	{
		parts := 4
		var wg2 sync.WaitGroup
		for k := 0; k < parts; k++ {
			lo, hi := len(malformed)*k/parts, len(malformed)*(k+1)/parts
			wg2.Add(1)
			go func(cs []c19Malformed) {
				defer wg2.Done()
				c19RunMalformed(ctx, ctx.Driver(), cs)
			}(malformed[lo:hi])
		}
		wg2.Wait()
	}

	c19AmplificationProbe(ctx)
	c19SNaNProbe(ctx)

	// note (not a failure of C19): variant.Float stores a float32 as float64; that conversion quiets
	// signalling NaNs, so a signalling float32 NaN payload cannot be represented in a variant.Value.
	for _, b := range c19F32SNaN {
		v := variant.Float(math.Float32frombits(b))
		if math.Float32bits(float32(v.FloatValue())) != b {
			ctx.Hist("codec.note", "float32-snan-quieted-by-variant.Float")
		} else {
			ctx.Hist("codec.note", "float32-snan-kept")
		}
	}
}
