package props

import (
	"bytes"
	"encoding/binary"
	"encoding/hex"
	"encoding/json"
	"fmt"
	"math"
	"math/rand"
	"os"
	"sort"
	"strconv"
	"strings"
	"sync"

	"github.com/parquet-go/parquet-go"
	"github.com/parquet-go/parquet-go/deprecated"
	"github.com/parquet-go/parquet-go/format"

	"verifharness/core"
	"verifharness/drv"
)

func init() { RegisterSub("C05", "pure", RunC05Pure) }

// ---------------------------------------------------------------- kinds and values

// c05Kind is one column order the property quantifies over.
type c05Kind struct {
	name  string       // harness name
	drv   string       // kind name of the Lean ops ("" = no mirror op)
	typ   parquet.Type // gives Compare, NewColumnBuffer, NewColumnIndexer
	width int          // 32/64 for numeric kinds
	float bool
	size  int  // fixed length of FIXED_LEN_BYTE_ARRAY kinds, 0 = variable length / not bytes
	short bool // indexer drops the entries of null pages (finding F6)
	int96 bool // INT96: 12 PLAIN bytes (three little-endian 32-bit words), signed 96-bit order
}

func (k *c05Kind) isBytes() bool { return k.width == 0 && k.name != "bool" }

// c05Val: numeric kinds use bits (bit pattern), byte kinds use b.
type c05Val struct {
	bits uint64
	b    []byte
}

var c05Kinds = []*c05Kind{
	{name: "i32", drv: "i32", typ: parquet.Int32Type, width: 32},
	{name: "i64", drv: "i64", typ: parquet.Int64Type, width: 64},
	{name: "u32", drv: "u32", typ: parquet.Uint(32).Type(), width: 32},
	{name: "u64", drv: "u64", typ: parquet.Uint(64).Type(), width: 64},
	{name: "f32", drv: "f32", typ: parquet.FloatType, width: 32, float: true},
	{name: "f64", drv: "f64", typ: parquet.DoubleType, width: 64, float: true},
	{name: "bytes", drv: "bytes", typ: parquet.ByteArrayType},
	{name: "string", drv: "bytes", typ: parquet.String().Type()},
	{name: "flba5", drv: "flba", typ: parquet.FixedLenByteArrayType(5), size: 5, short: true},
	{name: "flba20", drv: "flba", typ: parquet.FixedLenByteArrayType(20), size: 20, short: true},
	{name: "be128", drv: "flba", typ: parquet.FixedLenByteArrayType(16), size: 16, short: true},
	{name: "uuid", drv: "flba", typ: parquet.UUID().Type(), size: 16, short: true},
	{name: "dec9", drv: "dec", typ: parquet.Decimal(2, 20, parquet.FixedLenByteArrayType(9)).Type(), size: 9},
	{name: "decb", drv: "dec", typ: parquet.Decimal(2, 20, parquet.ByteArrayType).Type()},
	{name: "dec32", drv: "i32", typ: parquet.Decimal(2, 9, parquet.Int32Type).Type(), width: 32},
	{name: "dec64", drv: "i64", typ: parquet.Decimal(2, 18, parquet.Int64Type).Type(), width: 64},
	{name: "bool", drv: "", typ: parquet.BooleanType},
	{name: "int96", drv: "int96", typ: parquet.Int96Type, size: 12, int96: true},
}

func c05KindByName(n string) *c05Kind {
	for _, k := range c05Kinds {
		if k.name == n {
			return k
		}
	}
	return nil
}

func (k *c05Kind) value(v c05Val) parquet.Value {
	switch {
	case k.name == "bool":
		return parquet.BooleanValue(v.bits != 0)
	case k.float && k.width == 32:
		return parquet.FloatValue(math.Float32frombits(uint32(v.bits)))
	case k.float:
		return parquet.DoubleValue(math.Float64frombits(v.bits))
	case k.width == 32:
		return parquet.Int32Value(int32(uint32(v.bits)))
	case k.width == 64:
		return parquet.Int64Value(int64(v.bits))
	case k.int96:
		var x deprecated.Int96
		for i := range x {
			x[i] = binary.LittleEndian.Uint32(v.b[4*i:])
		}
		return parquet.Int96Value(x)
	case k.size > 0:
		return parquet.FixedLenByteArrayValue(v.b)
	default:
		return parquet.ByteArrayValue(v.b)
	}
}

// fromValue decodes a non-null library value (copying bytes).
func (k *c05Kind) fromValue(v parquet.Value) c05Val {
	switch v.Kind() {
	case parquet.Boolean:
		if v.Boolean() {
			return c05Val{bits: 1}
		}
		return c05Val{}
	case parquet.Int32:
		return c05Val{bits: uint64(uint32(v.Int32()))}
	case parquet.Int64:
		return c05Val{bits: uint64(v.Int64())}
	case parquet.Float:
		return c05Val{bits: uint64(math.Float32bits(v.Float()))}
	case parquet.Double:
		return c05Val{bits: math.Float64bits(v.Double())}
	case parquet.Int96:
		return c05Val{b: bytes.Clone(v.Bytes())}
	default:
		return c05Val{b: bytes.Clone(v.ByteArray())}
	}
}

// fromPlain decodes the PLAIN bytes of a statistics / column-index entry.
func (k *c05Kind) fromPlain(b []byte) (c05Val, bool) {
	switch {
	case k.name == "bool":
		if len(b) != 1 {
			return c05Val{}, false
		}
		return c05Val{bits: uint64(b[0] & 1)}, true
	case k.width == 32:
		if len(b) != 4 {
			return c05Val{}, false
		}
		return c05Val{bits: uint64(binary.LittleEndian.Uint32(b))}, true
	case k.width == 64:
		if len(b) != 8 {
			return c05Val{}, false
		}
		return c05Val{bits: binary.LittleEndian.Uint64(b)}, true
	default:
		return c05Val{b: bytes.Clone(b)}, true
	}
}

func (k *c05Kind) isNaN(v c05Val) bool {
	if !k.float {
		return false
	}
	if k.width == 32 {
		f := math.Float32frombits(uint32(v.bits))
		return f != f
	}
	return math.IsNaN(math.Float64frombits(v.bits))
}

// cmp is the column's order as the library defines it (the L1 oracle's only use of the library).
func (k *c05Kind) cmp(a, b c05Val) int { return k.typ.Compare(k.value(a), k.value(b)) }

func c05Hex(b []byte) string {
	if len(b) == 0 {
		return "e"
	}
	return hex.EncodeToString(b)
}

func (k *c05Kind) text(v c05Val) string {
	if k.isBytes() {
		return c05Hex(v.b)
	}
	if k.width == 32 {
		return fmt.Sprint(uint32(v.bits))
	}
	return fmt.Sprint(v.bits)
}

func (k *c05Kind) texts(vs []c05Val) string {
	if len(vs) == 0 {
		return "-"
	}
	ss := make([]string, len(vs))
	for i, v := range vs {
		ss[i] = k.text(v)
	}
	return strings.Join(ss, ",")
}

// ---------------------------------------------------------------- generators

var c05Lens = []int{0, 1, 1, 2, 2, 3, 4, 5, 7, 8, 9, 15, 16, 17, 31, 32, 33, 55, 56, 57, 63, 64, 65, 112, 127, 128, 129, 239, 240, 241, 255, 256, 257, 480}

func c05Len(r *rand.Rand) int {
	if r.Intn(12) == 0 {
		return r.Intn(1100)
	}
	return c05Lens[r.Intn(len(c05Lens))]
}

var c05F32Pool = []uint32{0, 0x80000000, 0x3f800000, 0xbf800000, 0x7f800000, 0xff800000, 1, 0x80000001,
	0x7f7fffff, 0xff7fffff, 0x00800000, 0x40a00000, 0x40400000, 0xc0a00000}
var c05F32NaN = []uint32{0x7fc00000, 0x7f800001, 0xffc00000, 0x7fc572b1, 0xffffffff}
var c05F64Pool = []uint64{0, 0x8000000000000000, 0x3ff0000000000000, 0xbff0000000000000, 0x7ff0000000000000,
	0xfff0000000000000, 1, 0x8000000000000001, 0x7fefffffffffffff, 0xffefffffffffffff, 0x4014000000000000, 0xc014000000000000}
var c05F64NaN = []uint64{0x7ff8000000000000, 0x7ff0000000000001, 0xfff8000000000000, 0xffffffffffffffff}

// one value; nan = probability (in 1/16) of a NaN for float kinds
func (k *c05Kind) gen(r *rand.Rand, nan int) c05Val {
	switch {
	case k.name == "bool":
		return c05Val{bits: uint64(r.Intn(2))}
	case k.float:
		if r.Intn(16) < nan {
			if k.width == 32 {
				return c05Val{bits: uint64(c05F32NaN[r.Intn(len(c05F32NaN))])}
			}
			return c05Val{bits: c05F64NaN[r.Intn(len(c05F64NaN))]}
		}
		var v c05Val
		switch r.Intn(4) {
		case 0:
			if k.width == 32 {
				v.bits = uint64(c05F32Pool[r.Intn(len(c05F32Pool))])
			} else {
				v.bits = c05F64Pool[r.Intn(len(c05F64Pool))]
			}
		case 1: // small integers, both signs
			f := float64(r.Intn(21) - 10)
			if k.width == 32 {
				v.bits = uint64(math.Float32bits(float32(f)))
			} else {
				v.bits = math.Float64bits(f)
			}
		default:
			if k.width == 32 {
				v.bits = uint64(r.Uint32())
			} else {
				v.bits = r.Uint64()
			}
			if k.isNaN(v) { // keep the NaN rate under control
				v.bits &^= 1 << uint(k.width-2)
			}
		}
		return v
	case k.width > 0:
		w := uint(k.width)
		mask := uint64(1)<<w - 1
		if w == 64 {
			mask = ^uint64(0)
		}
		switch r.Intn(4) {
		case 0:
			pool := []uint64{0, 1, 2, mask, mask - 1, 1 << (w - 1), 1<<(w-1) - 1, 1<<(w-1) + 1}
			return c05Val{bits: pool[r.Intn(len(pool))]}
		case 1:
			return c05Val{bits: uint64(int64(r.Intn(21)-10)) & mask}
		default:
			return c05Val{bits: r.Uint64() & mask}
		}
	default:
		n := k.size
		if n == 0 {
			n = []int{0, 0, 1, 1, 2, 3, 4, 5, 6, 8, 9, 15, 16, 17, 18, 33, 64, 65, 70}[r.Intn(19)]
		}
		b := make([]byte, n)
		alphabet := []byte{0x00, 0x01, 0x7f, 0x80, 0xfe, 0xff, 0xff, 0xff}
		switch r.Intn(4) {
		case 0: // all 0xFF
			for i := range b {
				b[i] = 0xff
			}
		case 1: // 0xFF prefix then something
			p := r.Intn(n + 1)
			for i := range b {
				if i < p {
					b[i] = 0xff
				} else {
					b[i] = alphabet[r.Intn(len(alphabet))]
				}
			}
		case 2:
			for i := range b {
				b[i] = alphabet[r.Intn(len(alphabet))]
			}
		default:
			r.Read(b)
		}
		return c05Val{b: b}
	}
}

// c05SignExtend: the same two's-complement value in a wider representation (the empty string is 0).
func c05SignExtend(r *rand.Rand, v c05Val) c05Val {
	pad := byte(0)
	if len(v.b) > 0 && v.b[0]&0x80 != 0 {
		pad = 0xff
	}
	return c05Val{b: append(bytes.Repeat([]byte{pad}, 1+r.Intn(3)), v.b...)}
}

// list of n values in one of several arrangements
func (k *c05Kind) genList(r *rand.Rand, n int) ([]c05Val, string) {
	nanMode := "none"
	nan := 0
	if k.float {
		switch r.Intn(6) {
		case 0:
			nan, nanMode = 2, "sprinkled"
		case 1:
			nanMode = "first"
		case 2:
			nanMode = "last"
		case 3:
			nan, nanMode = 16, "all"
		}
	}
	vs := make([]c05Val, n)
	small := r.Intn(3) == 0 // small alphabet: duplicates, equal runs
	var alpha []c05Val
	if small {
		for i := 0; i < 1+r.Intn(3); i++ {
			alpha = append(alpha, k.gen(r, nan))
		}
	}
	for i := range vs {
		if small {
			vs[i] = alpha[r.Intn(len(alpha))]
		} else {
			vs[i] = k.gen(r, nan)
		}
	}
	if k.isBytes() && n > 0 && r.Intn(3) == 0 {
		// values that differ from a base value in a single byte (every byte position matters)
		base := k.gen(r, 0).b
		for i := range vs {
			b := bytes.Clone(base)
			if len(b) > 0 && r.Intn(4) != 0 {
				b[r.Intn(len(b))] = byte(r.Intn(256))
			}
			vs[i] = c05Val{b: b}
		}
	}
	if k.name == "decb" && n > 1 && r.Intn(2) == 0 {
		// equal VALUES in different widths (sign-extended copies of a neighbour): the order scan must
		// treat them as a streak of equal values, the bounds loops as ties
		for c := 0; c <= r.Intn(1+n/2); c++ {
			i := r.Intn(n)
			vs[i] = c05SignExtend(r, vs[r.Intn(n)])
		}
	}
	arr := []string{"random", "random", "asc", "desc", "asc1", "desc1"}[r.Intn(6)]
	if arr != "random" {
		less := func(i, j int) bool { return k.cmp(vs[i], vs[j]) < 0 }
		if arr[0] == 'd' {
			less = func(i, j int) bool { return k.cmp(vs[i], vs[j]) > 0 }
		}
		sort.SliceStable(vs, less)
		if strings.HasSuffix(arr, "1") && n > 1 { // one violation at a random place
			vs[r.Intn(n)] = k.gen(r, 0)
		}
	}
	if n > 0 && k.float {
		nanv := k.gen(r, 16)
		switch nanMode {
		case "first":
			for i := 0; i <= r.Intn(3) && i < n; i++ {
				vs[i] = nanv
			}
		case "last":
			for i := 0; i <= r.Intn(3) && i < n; i++ {
				vs[n-1-i] = nanv
			}
		}
	}
	return vs, arr + "/nan-" + nanMode
}

// ---------------------------------------------------------------- driver batching

type c05Batch struct {
	ctx  *core.Ctx
	d    *drv.Driver
	reqs []string
	pend []func(string)
}

func (b *c05Batch) ask(req string, f func(ans string)) {
	if b.d == nil {
		return
	}
	b.reqs = append(b.reqs, req)
	b.pend = append(b.pend, f)
	if len(b.reqs) >= 2000 {
		b.flush()
	}
}

func (b *c05Batch) flush() {
	if b.d == nil || len(b.reqs) == 0 {
		return
	}
	ans, err := b.d.AskMany(b.reqs)
	if err != nil {
		b.ctx.Fail("L2", "driver-error", err.Error(), nil)
	}
	for i, a := range ans {
		b.pend[i](a)
	}
	b.reqs, b.pend = b.reqs[:0], b.pend[:0]
}

func c05Recover(f func()) (p any) {
	defer func() { p = recover() }()
	f()
	return nil
}

// ---------------------------------------------------------------- pure sub-check

func RunC05Pure(ctx *core.Ctx) {
	ctx.SetRule("pure functions of the statistics code on generated inputs: truncateLarge{Min,Max}ByteArrayValue (0xFF-heavy strings, limits 0..66), Page.Bounds() of every column kind through the type's column buffer, Dictionary.Bounds(indexes) of every kind (the bounds of dictionary-encoded pages, with unreferenced dictionary entries) and the min/max/bounds kernels (NaN first/last/all/sprinkled, -0.0/+0.0, signed/unsigned extremes, lengths around vector widths), orderOf* kernels and orderOfDecimalBytes (mixed-width two's complement, equal values in different widths), Type.Compare, and ColumnIndexer.IndexPage/ColumnIndex with null pages anywhere and limits 1..64; each compared with the Lean mirror (L2) and with the property's oracle (L1); distinct by canonical input text, non-trivial = at least 2 values / pages (truncation: value longer than the limit)")
	if ctx.Replay != "" {
		b := &c05Batch{ctx: ctx, d: ctx.Driver()}
		c05ReplayPure(ctx, b)
		b.flush()
		return
	}
	workers := 16
	total := ctx.Scale(64000, 800000)
	var wg sync.WaitGroup
	for w := 0; w < workers; w++ {
		wg.Add(1)
		go func(w int) {
			defer wg.Done()
			r := ctx.Rand(fmt.Sprintf("c05pure/%d", w))
			b := &c05Batch{ctx: ctx, d: ctx.Driver()}
			if w == 0 {
				c05PureCorpus(ctx, b)
			}
			for i := 0; i < total/workers; i++ {
				switch i % 6 {
				case 0:
					c05PureTrunc(ctx, r, b)
				case 1, 2:
					c05PureBounds(ctx, r, b)
				case 3:
					c05PureOrder(ctx, r, b)
				case 4:
					c05PureIndex(ctx, r, b)
				default:
					c05PureCmp(ctx, r, b)
				}
			}
			b.flush()
		}(w)
	}
	wg.Add(1)
	go func() { defer wg.Done(); c05PureBig(ctx) }()
	wg.Wait()
}

// corpus/C05/*.case: minimised past disagreements, one case per line, replayed first:
//
//	trunc <hex> <limit> | bounds <kind> <values> | dictbounds <kind> <values> <unreferenced values> | order <kind> <values> | index <kind> <limit> <pages (min:max or n)>
func c05PureCorpus(ctx *core.Ctx, b *c05Batch) {
	for _, path := range ctx.CorpusFiles() {
		data, err := os.ReadFile(path)
		if err != nil {
			continue
		}
		for ln, line := range strings.Split(string(data), "\n") {
			toks := strings.Fields(line)
			if len(toks) == 0 || strings.HasPrefix(toks[0], "#") {
				continue
			}
			if !c05CorpusLine(ctx, b, toks) {
				ctx.Fail("L2", "corpus-unparsable", fmt.Sprintf("%s:%d", path, ln+1), line)
			}
			ctx.Hist("corpus", toks[0])
		}
	}
}

// c05ReplayDetail loads the `detail` object of a replay file written by ./check.
func c05ReplayDetail(ctx *core.Ctx) map[string]any {
	data, err := os.ReadFile(ctx.Replay)
	if err != nil {
		ctx.Fail("L2", "replay-unreadable", err.Error(), ctx.Replay)
		return nil
	}
	var obj struct {
		Detail map[string]any `json:"detail"`
	}
	if err := json.Unmarshal(data, &obj); err != nil || obj.Detail == nil {
		ctx.Fail("L2", "replay-unreadable", "no detail object in the replay file", ctx.Replay)
		return nil
	}
	return obj.Detail
}

// c05ReplayPure re-runs one recorded pure case (detail.op = trunc | bounds | dictbounds | order | index).
func c05ReplayPure(ctx *core.Ctx, b *c05Batch) {
	d := c05ReplayDetail(ctx)
	if d == nil {
		return
	}
	str := func(k string) string { s, _ := d[k].(string); return s }
	num := func(k string) string { f, _ := d[k].(float64); return strconv.Itoa(int(f)) }
	var toks []string
	switch str("op") {
	case "trunc":
		toks = []string{"trunc", str("value"), num("limit")}
	case "bounds":
		toks = []string{"bounds", str("kind"), str("values")}
	case "dictbounds":
		toks = []string{"dictbounds", str("kind"), str("values"), str("unreferenced")}
	case "order":
		toks = []string{"order", str("kind"), str("values")}
	case "index":
		toks = []string{"index", str("kind"), num("limit"), str("pages")}
	default:
		return // a file case: replayed by the files sub-check
	}
	if !c05CorpusLine(ctx, b, toks) {
		ctx.Fail("L2", "replay-unparsable", strings.Join(toks, " "), ctx.Replay)
	}
}

func (k *c05Kind) parse(s string) (c05Val, bool) {
	if k.isBytes() {
		if s == "e" {
			return c05Val{}, true
		}
		b, err := hex.DecodeString(s)
		return c05Val{b: b}, err == nil && (k.size == 0 || len(b) == k.size)
	}
	u, err := strconv.ParseUint(s, 10, 64)
	return c05Val{bits: u}, err == nil
}

func c05CorpusLine(ctx *core.Ctx, b *c05Batch, toks []string) bool {
	switch {
	case toks[0] == "trunc" && len(toks) == 3:
		v, ok := c05KindByName("bytes").parse(toks[1])
		lim, err := strconv.Atoi(toks[2])
		if !ok || err != nil || lim < 0 {
			return false
		}
		c05TruncCase(ctx, b, v.b, lim)
	case toks[0] == "bounds" && len(toks) == 3:
		k := c05KindByName(toks[1])
		if k == nil {
			return false
		}
		var vs []c05Val
		if toks[2] != "-" {
			for _, s := range strings.Split(toks[2], ",") {
				v, ok := k.parse(s)
				if !ok {
					return false
				}
				vs = append(vs, v)
			}
		}
		c05BoundsCase(ctx, b, k, vs, "corpus")
	case toks[0] == "dictbounds" && len(toks) == 4:
		k := c05KindByName(toks[1])
		if k == nil {
			return false
		}
		var lists [2][]c05Val
		for li, t := range toks[2:4] {
			if t == "-" || t == "" {
				continue
			}
			for _, s := range strings.Split(t, ",") {
				v, ok := k.parse(s)
				if !ok {
					return false
				}
				lists[li] = append(lists[li], v)
			}
		}
		c05DictBoundsCase(ctx, b, k, lists[0], lists[1], "corpus")
	case toks[0] == "order" && len(toks) == 3:
		k := c05KindByName(toks[1])
		if k == nil {
			return false
		}
		var vs []c05Val
		if toks[2] != "-" {
			for _, s := range strings.Split(toks[2], ",") {
				v, ok := k.parse(s)
				if !ok {
					return false
				}
				vs = append(vs, v)
			}
		}
		c05OrderCase(ctx, b, k, vs, "corpus")
	case toks[0] == "index" && len(toks) == 4:
		k := c05KindByName(toks[1])
		lim, err := strconv.Atoi(toks[2])
		if k == nil || err != nil || lim < 1 {
			return false
		}
		var pages []*[2]c05Val
		if toks[3] != "-" {
			for _, s := range strings.Split(toks[3], ",") {
				if s == "n" {
					pages = append(pages, nil)
					continue
				}
				mm := strings.Split(s, ":")
				if len(mm) != 2 {
					return false
				}
				mn, ok1 := k.parse(mm[0])
				mx, ok2 := k.parse(mm[1])
				if !ok1 || !ok2 {
					return false
				}
				pages = append(pages, &[2]c05Val{mn, mx})
			}
		}
		c05IndexCase(ctx, b, k, lim, pages)
	default:
		return false
	}
	return true
}

func c05AllFF(b []byte) bool {
	for _, x := range b {
		if x != 0xff {
			return false
		}
	}
	return true
}

func c05PureTrunc(ctx *core.Ctx, r *rand.Rand, b *c05Batch) {
	k := c05KindByName("bytes")
	v := k.gen(r, 0).b
	lim := r.Intn(67)
	if r.Intn(3) == 0 && len(v) > 0 {
		lim = len(v) - 1 + r.Intn(3)
	}
	c05TruncCase(ctx, b, v, lim)
}

func c05TruncCase(ctx *core.Ctx, b *c05Batch, v []byte, lim int) {
	canon := fmt.Sprintf("trunc %s %d", c05Hex(v), lim)
	ctx.Case(canon, len(v) > lim)
	var mn, mx []byte
	if p := c05Recover(func() { mn, mx = parquet.VerifTruncateMin(v, lim), parquet.VerifTruncateMax(v, lim) }); p != nil {
		ctx.Fail("L1", "truncate-panic", fmt.Sprint(p), map[string]any{"op": "trunc", "value": c05Hex(v), "limit": lim})
		return
	}
	switch {
	case len(v) <= lim:
		ctx.Hist("trunc", "not-truncated")
	case c05AllFF(v[:lim]):
		ctx.Hist("trunc", "truncated-prefix-all-ff")
	default:
		ctx.Hist("trunc", "truncated")
	}
	detail := map[string]any{"op": "trunc", "value": c05Hex(v), "limit": lim, "min": c05Hex(mn), "max": c05Hex(mx)}
	if bytes.Compare(mn, v) > 0 {
		ctx.Fail("L1", "truncmin-above-value", "truncated min is greater than the value", detail)
	}
	if bytes.Compare(mx, v) < 0 {
		if len(v) > lim && c05AllFF(v[:lim]) {
			ctx.Fail("L1", "truncmax-all-ff-prefix", "truncated max is smaller than the value: the kept prefix is all 0xFF, the increment overflows and the prefix is restored", detail)
		} else {
			ctx.Fail("L1", "truncmax-below-value", "truncated max is smaller than the value", detail)
		}
	}
	b.ask(fmt.Sprintf("c05.truncmin %s %d", c05Hex(v), lim), func(ans string) {
		if ans != "ok "+c05Hex(mn) {
			ctx.Fail("L2", "truncmin-mirror", "truncateLargeMinByteArrayValue differs from the Lean mirror", map[string]any{"op": "trunc", "value": c05Hex(v), "limit": lim, "case": canon, "impl": c05Hex(mn), "model": ans})
		}
	})
	b.ask(fmt.Sprintf("c05.truncmax %s %d", c05Hex(v), lim), func(ans string) {
		if ans != "ok "+c05Hex(mx) {
			ctx.Fail("L2", "truncmax-mirror", "truncateLargeMaxByteArrayValue differs from the Lean mirror", map[string]any{"op": "trunc", "value": c05Hex(v), "limit": lim, "case": canon, "impl": c05Hex(mx), "model": ans})
		}
	})
}

// c05PageBounds runs Bounds() on a page built by the type's own column buffer (the writer's path).
func c05PageBounds(k *c05Kind, vs []c05Val) (mn, mx c05Val, ok bool, pan any) {
	pan = c05Recover(func() {
		buf := k.typ.NewColumnBuffer(0, len(vs)+1)
		vals := make([]parquet.Value, len(vs))
		for i, v := range vs {
			vals[i] = k.value(v)
		}
		if len(vals) > 0 {
			if _, err := buf.WriteValues(vals); err != nil {
				panic(err)
			}
		}
		a, c, o := buf.Page().Bounds()
		ok = o
		if o {
			mn, mx = k.fromValue(a), k.fromValue(c)
		}
	})
	return
}

// c05DictBounds runs Dictionary.Bounds(indexes) — where the bounds of a dictionary-encoded page come from
// (indexedPage.Bounds) — on a dictionary built by the type from the values, with extra entries no index
// refers to (they must not leak into the bounds).
func c05DictBounds(k *c05Kind, vs []c05Val, extra []c05Val) (mn, mx c05Val, pan any) {
	pan = c05Recover(func() {
		dict := k.typ.NewDictionary(0, 0, k.typ.NewValues(nil, nil))
		if len(extra) > 0 {
			ev := make([]parquet.Value, len(extra))
			for i, v := range extra {
				ev[i] = k.value(v)
			}
			dict.Insert(make([]int32, len(ev)), ev)
		}
		vals := make([]parquet.Value, len(vs))
		for i, v := range vs {
			vals[i] = k.value(v)
		}
		idx := make([]int32, len(vals))
		dict.Insert(idx, vals)
		a, c := dict.Bounds(idx)
		mn, mx = k.fromValue(a), k.fromValue(c)
	})
	return
}

// c05DictBoundsCase: L1 oracle and L2 mirror for the bounds of a dictionary-encoded page.
func c05DictBoundsCase(ctx *core.Ctx, b *c05Batch, k *c05Kind, vs, extra []c05Val, arr string) {
	if len(vs) == 0 {
		return
	}
	canon := "dictbounds " + k.name + " " + k.texts(vs) + " " + k.texts(extra)
	ctx.Case(canon, len(vs) >= 2)
	ctx.Hist("dictbounds-kind", k.name)
	ctx.Hist("dictbounds-len", c05Bucket(len(vs)))
	detail := func(extra2 map[string]any) map[string]any {
		m := map[string]any{"op": "dictbounds", "kind": k.name, "values": k.texts(vs), "unreferenced": k.texts(extra), "arrangement": arr}
		for kk, v := range extra2 {
			m[kk] = v
		}
		return m
	}
	mn, mx, pan := c05DictBounds(k, vs, extra)
	if pan != nil {
		ctx.Fail("L1", "dict-bounds-panic "+k.name, fmt.Sprint(pan), detail(nil))
		return
	}
	got := "ok " + k.text(mn) + " " + k.text(mx)
	if key, what := c05BoundsOracle(k, vs, mn, mx, true, true); key != "" {
		ctx.Fail("L1", c05BoundKey("dict-page-bounds ", key, k.name), "bounds of a dictionary-encoded page: "+what, detail(map[string]any{"bounds": got}))
	}
	if k.drv == "" {
		return
	}
	drvKind := k.drv
	if drvKind == "dec" {
		drvKind = "decd" // decimalDictionary.Bounds is a switch loop of its own
	}
	b.ask("c05.bounds "+drvKind+" "+k.texts(vs), func(ans string) {
		if ans == got {
			return
		}
		// equal values with different representations (-0.0/+0.0, sign-extended decimals): any of
		// them is a correct bound and the kernels may pick another one than the portable loop
		var amn, amx c05Val
		f := strings.Fields(ans)
		if len(f) == 3 {
			var ok1, ok2 bool
			amn, ok1 = k.parse(f[1])
			amx, ok2 = k.parse(f[2])
			if ok1 && ok2 && !k.isNaN(amn) && !k.isNaN(mn) && !k.isNaN(amx) && !k.isNaN(mx) && k.float && k.cmp(amn, mn) == 0 && k.cmp(amx, mx) == 0 {
				ctx.Hist("dictbounds-zero-sign-differs", k.name)
				return
			}
		}
		ctx.Fail("L2", "dict-bounds-mirror "+k.name, "Dictionary.Bounds(indexes) differs from the Lean mirror", detail(map[string]any{"impl": got, "model": ans, "build": ctx.Variant}))
	})
}

// c05BoundsOracle checks the property on (values, recorded bounds): exact = bounds must be attained.
// Returns "" or a failure key.
func c05BoundsOracle(k *c05Kind, vs []c05Val, mn, mx c05Val, has bool, exact bool) (key, what string) {
	nonNaN := 0
	for _, v := range vs {
		if !k.isNaN(v) {
			nonNaN++
		}
	}
	if !has {
		if len(vs) > 0 && exact {
			return "bounds-missing", "the page has values but no bounds"
		}
		return "", ""
	}
	if len(vs) == 0 {
		return "", "" // bounds on an empty value set bound nothing
	}
	if k.isNaN(mn) || k.isNaN(mx) {
		if nonNaN > 0 {
			return "bound-nan-with-non-nan-values", "a recorded bound is NaN although non-NaN values exist"
		}
		return "", ""
	}
	minAtt, maxAtt := false, false
	for _, v := range vs {
		if k.isNaN(v) {
			continue
		}
		if k.cmp(mn, v) > 0 {
			if k.size == 16 && c05Byte9Decides(vs) {
				return c05KeyBE128, c05WhatBE128
			}
			return "min-above-value", "recorded min is greater than a value"
		}
		if k.cmp(v, mx) > 0 {
			if k.size == 16 && c05Byte9Decides(vs) {
				return c05KeyBE128, c05WhatBE128
			}
			return "max-below-value", "recorded max is smaller than a value"
		}
		minAtt = minAtt || k.cmp(mn, v) == 0
		maxAtt = maxAtt || k.cmp(mx, v) == 0
	}
	if exact && nonNaN > 0 && (!minAtt || !maxAtt) {
		return "bounds-not-attained", "page bounds are not values of the page"
	}
	return "", ""
}

const c05KeyBE128 = "be128-minmax-ignores-byte-9"
const c05WhatBE128 = "min/max of a 16-byte FIXED_LEN_BYTE_ARRAY/UUID page of 16 or more values is not a bound; the page holds values that agree on bytes 0..8 and differ at byte 9, which the AVX-512 min/max kernels do not compare (assembly build only)"

// c05Byte9Decides: a page of 16 or more 16-byte values in which two values agree on bytes 0..8 and
// differ at byte 9. The byte-swap shuffle mask of the AVX-512 be128 kernels (page_bounds_amd64.s
// `bswap128lo`) has index 8 where 9 should be, so byte 9 never takes part in their comparisons.
func c05Byte9Decides(vs []c05Val) bool {
	if len(vs) < 16 {
		return false
	}
	seen := map[string]byte{}
	for _, v := range vs {
		if len(v.b) != 16 {
			return false
		}
		p := string(v.b[:9])
		if b, ok := seen[p]; ok && b != v.b[9] {
			return true
		}
		seen[p] = v.b[9]
	}
	return false
}

// c05BoundKey builds the failure key of a bounds violation found at some place (page bounds, index
// entry, page header statistics, chunk statistics); defects with a recognisable signature keep one key.
func c05BoundKey(place, key, kind string) string {
	if key == c05KeyBE128 {
		return key
	}
	return place + key + " " + kind
}

func c05PureBounds(ctx *core.Ctx, r *rand.Rand, b *c05Batch) {
	k := c05Kinds[r.Intn(len(c05Kinds))]
	n := c05Len(r)
	if k.isBytes() && n > 300 {
		n = n % 300
	}
	vs, arr := k.genList(r, n)
	c05BoundsCase(ctx, b, k, vs, arr)
	if r.Intn(2) == 0 {
		var extra []c05Val
		for i := r.Intn(3); i > 0; i-- {
			extra = append(extra, k.gen(r, 2))
		}
		c05DictBoundsCase(ctx, b, k, vs, extra, arr)
	}
}

func c05BoundsCase(ctx *core.Ctx, b *c05Batch, k *c05Kind, vs []c05Val, arr string) {
	canon := "bounds " + k.name + " " + k.texts(vs)
	ctx.Case(canon, len(vs) >= 2)
	ctx.Hist("bounds-kind", k.name)
	if len(vs) > 4096 {
		ctx.Hist("bounds-arrangement", "big")
	} else {
		ctx.Hist("bounds-arrangement", arr)
	}
	ctx.Hist("bounds-len", c05Bucket(len(vs)))
	detail := func(extra map[string]any) map[string]any {
		m := map[string]any{"op": "bounds", "kind": k.name, "values": k.texts(vs)}
		if len(vs) > 4096 {
			// long inputs are regenerated from the seed (stream named in `arrangement`), not spelled out
			m["values"] = fmt.Sprintf("<%d values, regenerate with the run seed: %s>", len(vs), arr)
		}
		for kk, v := range extra {
			m[kk] = v
		}
		return m
	}
	mn, mx, ok, pan := c05PageBounds(k, vs)
	if pan != nil {
		ctx.Fail("L1", "bounds-panic "+k.name, fmt.Sprint(pan), detail(nil))
		return
	}
	got := "ok none"
	if ok {
		got = "ok " + k.text(mn) + " " + k.text(mx)
	}
	if key, what := c05BoundsOracle(k, vs, mn, mx, ok, true); key != "" {
		ctx.Fail("L1", c05BoundKey("page-bounds ", key, k.name), what, detail(map[string]any{"bounds": got}))
	}
	if k.drv != "" {
		b.ask("c05.bounds "+k.drv+" "+k.texts(vs), func(ans string) {
			if ans != got {
				key := "bounds-mirror " + k.name
				if k.size == 16 && c05Byte9Decides(vs) {
					key = c05KeyBE128
				}
				ctx.Fail("L2", key, "Page.Bounds() differs from the Lean mirror", detail(map[string]any{"impl": got, "model": ans, "build": ctx.Variant}))
			}
		})
	}
	// the kernels behind min()/max()/bounds() (assembly or portable) against the same mirror answer
	if k.width > 0 && len(vs) > 0 {
		hasNaN := false
		for _, v := range vs {
			hasNaN = hasNaN || k.isNaN(v)
		}
		if hasNaN {
			return // min/max kernels on NaN input feed only the in-memory index; Bounds() does its own loop
		}
		for name, res := range c05Kernels(k, vs) {
			name, res := name, res
			if k.float {
				// -0.0 / +0.0: any of the two is a correct bound; compare by order
				if k.cmp(res[0], mn) != 0 || k.cmp(res[1], mx) != 0 {
					ctx.Fail("L2", "kernel-mirror "+name, "min/max kernel differs from Bounds()", detail(map[string]any{"kernel": k.text(res[0]) + " " + k.text(res[1]), "bounds": got}))
				}
				if res[0].bits != mn.bits || res[1].bits != mx.bits {
					ctx.Hist("kernel-zero-sign-differs", name)
				}
				continue
			}
			if res[0].bits != mn.bits || res[1].bits != mx.bits {
				ctx.Fail("L2", "kernel-mirror "+name, "min/max kernel differs from the Lean mirror (through Bounds())", detail(map[string]any{"kernel": k.text(res[0]) + " " + k.text(res[1]), "bounds": got}))
			}
		}
	}
}

func c05Bucket(n int) string {
	switch {
	case n <= 2:
		return fmt.Sprint(n)
	case n <= 9:
		return "3-9"
	case n <= 33:
		return "10-33"
	case n <= 129:
		return "34-129"
	case n <= 257:
		return "130-257"
	default:
		return ">257"
	}
}

// c05Kernels calls the exported shims of the min/max kernels on a numeric list.
func c05Kernels(k *c05Kind, vs []c05Val) map[string][2]c05Val {
	out := map[string][2]c05Val{}
	put := func(name string, a, b uint64) { out[name] = [2]c05Val{{bits: a}, {bits: b}} }
	switch k.name {
	case "i32":
		d := make([]int32, len(vs))
		for i, v := range vs {
			d[i] = int32(uint32(v.bits))
		}
		a, b := parquet.VerifBoundsInt32(d)
		put("boundsInt32", uint64(uint32(a)), uint64(uint32(b)))
		a, b = parquet.VerifMinMaxInt32(d)
		put("minmaxInt32", uint64(uint32(a)), uint64(uint32(b)))
		a, b = parquet.VerifCombinedBoundsInt32(d)
		put("combinedBoundsInt32", uint64(uint32(a)), uint64(uint32(b)))
	case "i64":
		d := make([]int64, len(vs))
		for i, v := range vs {
			d[i] = int64(v.bits)
		}
		a, b := parquet.VerifBoundsInt64(d)
		put("boundsInt64", uint64(a), uint64(b))
		a, b = parquet.VerifMinMaxInt64(d)
		put("minmaxInt64", uint64(a), uint64(b))
		a, b = parquet.VerifCombinedBoundsInt64(d)
		put("combinedBoundsInt64", uint64(a), uint64(b))
		if a, b, ok := parquet.VerifCombinedBoundsInt64AVX512(d); ok {
			put("combinedBoundsInt64AVX512", uint64(a), uint64(b))
		}
	case "u32":
		d := make([]uint32, len(vs))
		for i, v := range vs {
			d[i] = uint32(v.bits)
		}
		a, b := parquet.VerifBoundsUint32(d)
		put("boundsUint32", uint64(a), uint64(b))
		a, b = parquet.VerifMinMaxUint32(d)
		put("minmaxUint32", uint64(a), uint64(b))
		a, b = parquet.VerifCombinedBoundsUint32(d)
		put("combinedBoundsUint32", uint64(a), uint64(b))
	case "u64":
		d := make([]uint64, len(vs))
		for i, v := range vs {
			d[i] = v.bits
		}
		a, b := parquet.VerifBoundsUint64(d)
		put("boundsUint64", a, b)
		a, b = parquet.VerifMinMaxUint64(d)
		put("minmaxUint64", a, b)
		a, b = parquet.VerifCombinedBoundsUint64(d)
		put("combinedBoundsUint64", a, b)
	case "f32":
		d := make([]float32, len(vs))
		for i, v := range vs {
			d[i] = math.Float32frombits(uint32(v.bits))
		}
		a, b := parquet.VerifMinMaxFloat32(d)
		put("minmaxFloat32", uint64(math.Float32bits(a)), uint64(math.Float32bits(b)))
	case "f64":
		d := make([]float64, len(vs))
		for i, v := range vs {
			d[i] = math.Float64frombits(v.bits)
		}
		a, b := parquet.VerifMinMaxFloat64(d)
		put("minmaxFloat64", math.Float64bits(a), math.Float64bits(b))
	}
	return out
}

// pages of 1 MiB and more take the combined kernels inside boundsXxx: checked against a Go oracle
func c05PureBig(ctx *core.Ctx) {
	r := ctx.Rand("c05big")
	b := &c05Batch{ctx: ctx, d: ctx.Driver()}
	for _, name := range []string{"i32", "i64", "u32", "u64", "f32", "f64"} {
		k := c05KindByName(name)
		// Pages long enough for the size-dependent kernel selection inside boundsXxx (the AVX-512 int64
		// kernel takes over at 32113 values, the combined kernels at 1 MiB): Page.Bounds() and the
		// kernels against the Lean mirror (L2) and the oracle (L1), values on both sides of the sign
		// boundary (2^31 / 2^63), NaNs for floats.
		for _, n := range []int{32112, 32113, 40000, 65536, 131071} {
			for variant := 0; variant < 2; variant++ {
				vs, arr := k.genList(r, n)
				if variant == 1 {
					// a few values around the sign boundary, the extremes late in the page
					w := uint(k.width)
					edge := []uint64{1<<(w-1) - 1, 1 << (w - 1), 1<<(w-1) + 1, 0, 1, 1<<w - 1}
					if w == 64 {
						edge[5] = ^uint64(0)
					}
					if !k.float {
						for i := range vs {
							vs[i] = c05Val{bits: edge[2+r.Intn(2)]}
						}
						vs[n-1-r.Intn(40)] = c05Val{bits: edge[0]}
						vs[n-1-r.Intn(40)] = c05Val{bits: edge[5]}
						vs[r.Intn(n)] = c05Val{bits: edge[r.Intn(6)]}
						arr = "sign-boundary"
					}
				}
				c05BoundsCase(ctx, b, k, vs, fmt.Sprintf("stream c05big %s n=%d variant=%d %s", name, n, variant, arr))
				ctx.Hist("bounds-len-big", fmt.Sprint(n))
			}
		}
		b.flush()
		for _, n := range []int{1<<20/(k.width/8) - 1, 1 << 20 / (k.width / 8), 1<<20/(k.width/8) + 13} {
			vs := make([]c05Val, n)
			for i := range vs {
				vs[i] = k.gen(r, 1)
			}
			ctx.Case(fmt.Sprintf("big %s %d seeded", name, n), true)
			ctx.Hist("bounds-len", ">=1MiB")
			mn, mx, ok, pan := c05PageBounds(k, vs)
			if pan != nil {
				ctx.Fail("L1", "bounds-panic "+k.name, fmt.Sprint(pan), map[string]any{"kind": name, "n": n, "stream": "c05big"})
				continue
			}
			if key, what := c05BoundsOracle(k, vs, mn, mx, ok, true); key != "" {
				ctx.Fail("L1", c05BoundKey("page-bounds-big ", key, k.name), what, map[string]any{"kind": name, "n": n, "stream": "c05big", "min": k.text(mn), "max": k.text(mx)})
			}
		}
	}
	b.flush()
}

func c05PureOrder(ctx *core.Ctx, r *rand.Rand, b *c05Batch) {
	names := []string{"i32", "i64", "u32", "u64", "f32", "f64", "bytes", "bool", "int96", "decb", "dec9"}
	k := c05KindByName(names[r.Intn(len(names))])
	n := c05Len(r)
	if k.isBytes() && n > 200 {
		n %= 200
	}
	vs, arr := k.genList(r, n)
	c05OrderCase(ctx, b, k, vs, arr)
}

func c05OrderCase(ctx *core.Ctx, b *c05Batch, k *c05Kind, vs []c05Val, arr string) {
	n := len(vs)
	canon := "order " + k.name + " " + k.texts(vs)
	ctx.Case(canon, len(vs) >= 2)
	ctx.Hist("order-kind", k.name)
	var got int
	pan := c05Recover(func() {
		switch k.name {
		case "i32":
			d := make([]int32, n)
			for i, v := range vs {
				d[i] = int32(uint32(v.bits))
			}
			got = parquet.VerifOrderOfInt32(d)
		case "i64":
			d := make([]int64, n)
			for i, v := range vs {
				d[i] = int64(v.bits)
			}
			got = parquet.VerifOrderOfInt64(d)
		case "u32":
			d := make([]uint32, n)
			for i, v := range vs {
				d[i] = uint32(v.bits)
			}
			got = parquet.VerifOrderOfUint32(d)
		case "u64":
			d := make([]uint64, n)
			for i, v := range vs {
				d[i] = v.bits
			}
			got = parquet.VerifOrderOfUint64(d)
		case "f32":
			d := make([]float32, n)
			for i, v := range vs {
				d[i] = math.Float32frombits(uint32(v.bits))
			}
			got = parquet.VerifOrderOfFloat32(d)
		case "f64":
			d := make([]float64, n)
			for i, v := range vs {
				d[i] = math.Float64frombits(v.bits)
			}
			got = parquet.VerifOrderOfFloat64(d)
		case "bytes":
			d := make([][]byte, n)
			for i, v := range vs {
				d[i] = v.b
			}
			got = parquet.VerifOrderOfBytes(d)
		case "bool":
			d := make([]bool, n)
			for i, v := range vs {
				d[i] = v.bits != 0
			}
			got = parquet.VerifOrderOfBool(d)
		case "int96":
			d := make([]deprecated.Int96, n)
			for i, v := range vs {
				for j := range d[i] {
					d[i][j] = binary.LittleEndian.Uint32(v.b[4*j:])
				}
			}
			got = deprecated.OrderOfInt96(d)
		case "decb", "dec9":
			// the boundary-order scan of the binary decimal column indexer (signed order, mixed widths)
			d := make([][]byte, n)
			for i, v := range vs {
				d[i] = v.b
			}
			got = parquet.VerifOrderOfDecimalBytes(d)
		}
	})
	detail := map[string]any{"op": "order", "kind": k.name, "values": k.texts(vs), "arrangement": arr, "order": got}
	if pan != nil {
		ctx.Fail("L1", "orderof-panic "+k.name, fmt.Sprint(pan), detail)
		return
	}
	ctx.Hist("order-result", fmt.Sprint(got))
	// L1: a claimed order must be true of every pair (this is what a binary-searching reader relies
	// on). Lists with NaN entries are judged where they matter, at the ColumnIndexer (c05IndexCase) and
	// on files: the raw kernels are only compared with the mirror (L2) on them.
	hasNaN := false
	for _, v := range vs {
		hasNaN = hasNaN || k.isNaN(v)
	}
	if got != 0 && !hasNaN {
	pairs:
		for i := 0; i < n; i++ {
			for j := i + 1; j < n && j < i+40; j++ {
				c := k.cmp(vs[i], vs[j])
				if (got > 0 && c > 0) || (got < 0 && c < 0) {
					detail["i"], detail["j"] = i, j
					ctx.Fail("L1", "orderof-claims-false-order "+k.name, "orderOf claims an order that does not hold between two entries", detail)
					break pairs
				}
			}
		}
	}
	if k.name == "bool" {
		b.ask("c05.order bool "+k.texts(vs), func(ans string) {
			if ans != fmt.Sprintf("ok %d", got) {
				ctx.Fail("L2", "order-mirror bool", "orderOfBool differs from the Lean mirror", map[string]any{"op": "order", "kind": "bool", "values": k.texts(vs), "impl": got, "model": ans})
			}
		})
		return
	}
	b.ask("c05.order "+k.drv+" "+k.texts(vs), func(ans string) {
		if ans != fmt.Sprintf("ok %d", got) {
			d := map[string]any{"op": "order", "kind": k.name, "values": k.texts(vs), "impl": got, "model": ans, "build": ctx.Variant}
			if hasNaN {
				// Outside the property: the float/double indexers no longer call orderOf when a bound
				// is NaN (they claim no order). On such inputs the AVX-512 kernels (ordered/unordered
				// compare predicates in the vector part, UCOMISS in the scalar tail) still differ from
				// the portable orderOf that the mirror transliterates.
				ctx.Observe("orderof-float-nan-differs-from-portable", "orderOfFloat32/64 called directly on an input with NaN entries differs from the portable orderOf (no caller passes NaN any more)", d)
				return
			}
			ctx.Fail("L2", "order-mirror "+k.name, "orderOf kernel differs from the Lean mirror", d)
		}
	})
}

func c05PureCmp(ctx *core.Ctx, r *rand.Rand, b *c05Batch) {
	k := c05Kinds[r.Intn(len(c05Kinds))]
	if k.drv == "" {
		k = c05KindByName("decb")
	}
	x, y := k.gen(r, 3), k.gen(r, 3)
	if r.Intn(4) == 0 {
		y = x
	}
	if k.name == "decb" && r.Intn(2) == 0 && len(x.b) > 0 { // same value, sign-extended representation
		pad := byte(0)
		if x.b[0]&0x80 != 0 {
			pad = 0xff
		}
		y = c05Val{b: append(bytes.Repeat([]byte{pad}, 1+r.Intn(3)), x.b...)}
	}
	canon := "cmp " + k.name + " " + k.text(x) + " " + k.text(y)
	ctx.Case(canon, true)
	ctx.Hist("cmp-kind", k.name)
	var got int
	if p := c05Recover(func() { got = k.cmp(x, y) }); p != nil {
		ctx.Fail("L1", "compare-panic "+k.name, fmt.Sprint(p), map[string]any{"case": canon})
		return
	}
	if got < -1 {
		got = -1
	} else if got > 1 {
		got = 1
	}
	b.ask("c05.cmp "+k.drv+" "+k.text(x)+" "+k.text(y), func(ans string) {
		if ans != fmt.Sprintf("ok %d", got) {
			ctx.Fail("L2", "compare-mirror "+k.name, "Type.Compare differs from the Lean order", map[string]any{"case": canon, "impl": got, "model": ans})
		}
	})
}

// ---- ColumnIndexer

func c05PureIndex(ctx *core.Ctx, r *rand.Rand, b *c05Batch) {
	k := c05Kinds[r.Intn(len(c05Kinds))]
	np := r.Intn(7)
	if r.Intn(10) == 0 {
		np = 7 + r.Intn(40)
	}
	lim := 1 + r.Intn(64)
	if r.Intn(3) == 0 {
		lim = 1 + r.Intn(6)
	}
	// page bounds are drawn from a small sorted pool so that orders are claimed often
	pool, _ := k.genList(r, 2+r.Intn(6))
	var okPool []c05Val
	for _, v := range pool {
		if !k.isNaN(v) {
			okPool = append(okPool, v)
		}
	}
	if len(okPool) == 0 {
		okPool = []c05Val{k.gen(r, 0)}
	}
	sort.SliceStable(okPool, func(i, j int) bool { return k.cmp(okPool[i], okPool[j]) < 0 })
	mode := r.Intn(4)
	nullP := []int{0, 2, 4, 8}[r.Intn(4)]
	pos := 0
	if mode == 1 {
		pos = len(okPool) - 1
	}
	var pages []*[2]c05Val
	for i := 0; i < np; i++ {
		if r.Intn(16) < nullP {
			pages = append(pages, nil)
			continue
		}
		if k.float && r.Intn(8) == 0 { // all-NaN page: Bounds() reports (NaN, NaN)
			nv := k.gen(r, 16)
			pages = append(pages, &[2]c05Val{nv, nv})
			continue
		}
		var lo int
		switch mode {
		case 0:
			lo = pos
			pos = min(len(okPool)-1, pos+r.Intn(2))
		case 1:
			lo = pos
			pos = max(0, pos-r.Intn(2))
		case 2:
			lo = r.Intn(len(okPool))
		default:
			lo = 0
		}
		hi := min(len(okPool)-1, lo+r.Intn(2))
		pages = append(pages, &[2]c05Val{okPool[lo], okPool[hi]})
	}
	c05IndexCase(ctx, b, k, lim, pages)
}

func c05PagesText(k *c05Kind, pages []*[2]c05Val) string {
	if len(pages) == 0 {
		return "-"
	}
	ss := make([]string, len(pages))
	for i, p := range pages {
		if p == nil {
			ss[i] = "n"
		} else {
			ss[i] = k.text(p[0]) + ":" + k.text(p[1])
		}
	}
	return strings.Join(ss, ",")
}

// c05IndexCase feeds page bounds to the type's ColumnIndexer, as the writer does.
func c05IndexCase(ctx *core.Ctx, b *c05Batch, k *c05Kind, lim int, pages []*[2]c05Val) {
	canon := fmt.Sprintf("index %s %d %s", k.name, lim, c05PagesText(k, pages))
	ctx.Case(canon, len(pages) >= 2)
	ctx.Hist("index-kind", k.name)
	detail := func(extra map[string]any) map[string]any {
		m := map[string]any{"op": "index", "kind": k.name, "limit": lim, "pages": c05PagesText(k, pages)}
		for kk, v := range extra {
			m[kk] = v
		}
		return m
	}
	var fi format.ColumnIndex
	hasNull, hasNaN := false, false
	pan := c05Recover(func() {
		ix := k.typ.NewColumnIndexer(lim)
		for _, p := range pages {
			if p == nil {
				hasNull = true
				ix.IndexPage(3, 3, parquet.Value{}, parquet.Value{})
			} else {
				hasNaN = hasNaN || k.isNaN(p[0]) || k.isNaN(p[1])
				ix.IndexPage(5, 1, k.value(p[0]), k.value(p[1]))
			}
		}
		fi = ix.ColumnIndex()
	})
	if pan != nil {
		ctx.Fail("L1", "indexer-panic "+k.name, fmt.Sprint(pan), detail(nil))
		return
	}
	if hasNull {
		ctx.Hist("index-nullpages", "some")
	} else {
		ctx.Hist("index-nullpages", "none")
	}
	ctx.Hist("index-order", fi.BoundaryOrder.String())
	n := len(pages)
	if len(fi.NullPages) != n || len(fi.NullCounts) != n {
		ctx.Fail("L1", "index-null-lists-length "+k.name, "null_pages / null_counts do not have one entry per page", detail(nil))
		return
	}
	if len(fi.MinValues) != n || len(fi.MaxValues) != n {
		if k.short && hasNull {
			ctx.Fail("L1", "flba-null-page-index-short", fmt.Sprintf("column index of a FIXED_LEN_BYTE_ARRAY column with a null page has %d min_values / %d max_values for %d pages (the empty bound of the null page is dropped, later entries shift)", len(fi.MinValues), len(fi.MaxValues), n), detail(nil))
		} else {
			ctx.Fail("L1", "index-value-lists-length "+k.name, "min_values / max_values do not have one entry per page", detail(nil))
		}
		return
	}
	var mins, maxs []c05Val
	for i, p := range pages {
		if fi.NullPages[i] != (p == nil) {
			ctx.Fail("L1", "null-pages-flag-wrong "+k.name, "null_pages flag differs from numValues == numNulls", detail(map[string]any{"page": i}))
		}
		want := int64(1)
		if p == nil {
			want = 3
		}
		if fi.NullCounts[i] != want {
			ctx.Fail("L1", "null-counts-wrong "+k.name, "null_counts entry differs from the page's null count", detail(map[string]any{"page": i}))
		}
		mn, ok1 := k.fromPlain(fi.MinValues[i])
		mx, ok2 := k.fromPlain(fi.MaxValues[i])
		mins, maxs = append(mins, mn), append(maxs, mx)
		if p == nil {
			continue
		}
		if !ok1 || !ok2 {
			ctx.Fail("L1", "index-entry-width "+k.name, "index entry has the wrong width", detail(map[string]any{"page": i}))
			return
		}
		if k.isNaN(p[0]) {
			continue
		}
		d := detail(map[string]any{"page": i, "entry_min": k.text(mn), "entry_max": k.text(mx)})
		if k.cmp(mn, p[0]) > 0 {
			ctx.Fail("L1", "index-min-above-page-min "+k.name, "column index min entry is greater than the page min", d)
		}
		if k.cmp(mx, p[1]) < 0 {
			if k.isBytes() && k.drv != "dec" && len(p[1].b) > lim && c05AllFF(p[1].b[:lim]) {
				ctx.Fail("L1", "truncmax-all-ff-prefix", "column index max entry is smaller than the page max (truncated prefix all 0xFF)", d)
			} else {
				ctx.Fail("L1", "index-max-below-page-max "+k.name, "column index max entry is smaller than the page max", d)
			}
		}
	}
	c05OrderClaim(ctx, k, int(fi.BoundaryOrder), fi.NullPages, mins, maxs, detail(nil))
	// L2: the Lean mirrors of the numeric, byte-array, fixed-length and binary decimal indexers
	drvKind := k.drv
	switch {
	case k.drv == "":
		return
	case k.drv == "flba" && k.size == 16:
		drvKind = "be128"
	case k.drv == "flba":
		drvKind = fmt.Sprintf("flba%d", k.size)
	}
	want := fmt.Sprintf("ok %d %s %s", int(fi.BoundaryOrder), k.texts(mins), k.texts(maxs))
	b.ask(fmt.Sprintf("c05.index %s %d %s", drvKind, lim, c05PagesText(k, pages)), func(ans string) {
		if ans != want {
			ctx.Fail("L2", "indexer-mirror "+k.name, "ColumnIndexer output differs from the Lean mirror", detail(map[string]any{"impl": want, "model": ans, "build": ctx.Variant}))
		}
	})
}

// c05OrderClaim: L1 oracle for the boundary order claim over the entries of the non-null pages.
func c05OrderClaim(ctx *core.Ctx, k *c05Kind, order int, nullPages []bool, mins, maxs []c05Val, detail map[string]any) {
	if order == 0 {
		return
	}
	var idx []int
	hasNaN := false
	for i := range mins {
		if nullPages[i] {
			continue
		}
		if k.isNaN(mins[i]) || k.isNaN(maxs[i]) {
			hasNaN = true
			continue
		}
		idx = append(idx, i)
	}
	for a := 0; a < len(idx); a++ {
		for c := a + 1; c < len(idx); c++ {
			i, j := idx[a], idx[c]
			c1, c2 := k.cmp(mins[i], mins[j]), k.cmp(maxs[i], maxs[j])
			if (order == 1 && (c1 > 0 || c2 > 0)) || (order == 2 && (c1 < 0 || c2 < 0)) {
				key := "boundary-order-false " + k.name
				what := "the column index claims a boundary order that the non-null pages do not have"
				if hasNaN {
					key = "boundary-order-false-nan-page"
					what = "the column index claims a boundary order although the pages around an all-NaN page are out of order (every comparison with a NaN bound is false)"
				}
				detail["claimed"], detail["page_i"], detail["page_j"] = order, i, j
				ctx.Fail("L1", key, what, detail)
				return
			}
		}
	}
}
