package props

import (
	"bytes"
	"crypto/aes"
	"crypto/cipher"
	"encoding/binary"
	"encoding/hex"
	"fmt"
	"math/rand"
	"sort"
	"strings"

	"github.com/parquet-go/parquet-go"
	"github.com/parquet-go/parquet-go/encoding/thrift"
	"github.com/parquet-go/parquet-go/format"
)

// ---------------------------------------------------------------- keys and configurations

// c18Keys is the KeyRetriever of the checks. A column key that is not in cols is reported with
// ErrKeyNotFound (the documented way to say "this reader does not hold that key").
type c18Keys struct {
	footer []byte
	cols   map[string][]byte
}

func (k *c18Keys) FooterKey([]byte) ([]byte, error) { return k.footer, nil }
func (k *c18Keys) ColumnKey(path []string, _ []byte) ([]byte, error) {
	if v, ok := k.cols[strings.Join(path, ".")]; ok {
		return v, nil
	}
	return nil, fmt.Errorf("no key for %v: %w", path, parquet.ErrKeyNotFound)
}

// c18Enc describes one encryption set-up of a written file.
type c18Enc struct {
	EncFooter bool
	FooterKey []byte
	ColKeys   map[string][]byte // dot path -> key (columns not listed use the footer key)
	Prefix    []byte
	FileID    []byte // nil: the writer draws 8 random bytes
	KeyMode   string
}

func (e *c18Enc) Config() *parquet.EncryptionConfig {
	return &parquet.EncryptionConfig{FooterKey: e.FooterKey, ColumnKeys: e.ColKeys, EncryptedFooter: e.EncFooter,
		AadPrefix: e.Prefix, FileIdentifier: e.FileID}
}

func (e *c18Enc) Keys() *c18Keys { return &c18Keys{footer: e.FooterKey, cols: e.ColKeys} }

func (e *c18Enc) Desc() string {
	var cols []string
	for p, k := range e.ColKeys {
		cols = append(cols, p+"="+hex.EncodeToString(k))
	}
	sort.Strings(cols)
	return fmt.Sprintf("encfooter=%v keymode=%s footerkey=%s colkeys=[%s] prefix=%s fileid=%s", e.EncFooter, e.KeyMode,
		hex.EncodeToString(e.FooterKey), strings.Join(cols, ","), hex.EncodeToString(e.Prefix), hex.EncodeToString(e.FileID))
}

func c18RandKey(r *rand.Rand) []byte {
	k := make([]byte, []int{16, 24, 32}[r.Intn(3)])
	r.Read(k)
	return k
}

// c18RandEnc draws a set-up: footer mode x key assignment (footer key only / a key for every
// column / keys for some columns) x AAD prefix x explicit or random file identifier.
func c18RandEnc(r *rand.Rand, schema *parquet.Schema) *c18Enc {
	e := &c18Enc{EncFooter: r.Intn(2) == 0, FooterKey: c18RandKey(r)}
	var paths []string
	for _, p := range schema.Columns() {
		paths = append(paths, strings.Join(p, "."))
	}
	switch r.Intn(3) {
	case 0:
		e.KeyMode = "footer-only"
	case 1:
		e.KeyMode = "all-columns"
		e.ColKeys = map[string][]byte{}
		for _, p := range paths {
			e.ColKeys[p] = c18RandKey(r)
		}
	default:
		e.KeyMode = "some-columns"
		e.ColKeys = map[string][]byte{}
		for _, p := range paths {
			if r.Intn(2) == 0 {
				e.ColKeys[p] = c18RandKey(r)
			}
		}
	}
	switch r.Intn(3) {
	case 1:
		e.Prefix = []byte("tenant-7/")
	case 2:
		e.Prefix = make([]byte, 1+r.Intn(20))
		r.Read(e.Prefix)
	}
	if r.Intn(3) == 0 {
		e.FileID = make([]byte, 8)
		r.Read(e.FileID)
	}
	return e
}

// ---------------------------------------------------------------- oracle-side AAD and AES-GCM (stdlib only)

var c18Codes = map[string]byte{"footer": 0, "columnMeta": 1, "dataPage": 2, "dataPageHeader": 3, "dictPage": 4,
	"dictPageHeader": 5, "bloomHeader": 6, "bloomBits": 7, "columnIndex": 8, "offsetIndex": 9}

// c18AAD is the harness's own AAD (used to walk files); the `aad` sub-check replaces it by the
// Lean model's answer for every module.
func c18AAD(prefix, fileUnique []byte, kind string, rg, col, page int) []byte {
	b := append(append([]byte{}, prefix...), fileUnique...)
	b = append(b, c18Codes[kind])
	le := func(n int) { b = append(b, byte(n), byte(n>>8)) }
	switch kind {
	case "footer":
	case "dataPage", "dataPageHeader":
		le(rg)
		le(col)
		le(page)
	case "dictPage", "dictPageHeader":
		le(rg)
		le(col)
		le(0)
	default:
		le(rg)
		le(col)
	}
	return b
}

func c18GcmOpen(key, nonce, ct, aad []byte) ([]byte, error) {
	blk, err := aes.NewCipher(key)
	if err != nil {
		return nil, err
	}
	gcm, err := cipher.NewGCM(blk)
	if err != nil {
		return nil, err
	}
	return gcm.Open(nil, nonce, ct, aad)
}

// c18OpenEnv opens one module envelope len(4,LE) | nonce(12) | ciphertext | tag(16) with crypto/aes + cipher.NewGCM.
func c18OpenEnv(key, aad, env []byte) ([]byte, error) {
	if len(env) < 4+12+16 {
		return nil, fmt.Errorf("envelope of %d bytes", len(env))
	}
	n := int(binary.LittleEndian.Uint32(env))
	if n != len(env)-4 {
		return nil, fmt.Errorf("length prefix %d, envelope body %d", n, len(env)-4)
	}
	return c18GcmOpen(key, env[4:16], env[16:], aad)
}

// ---------------------------------------------------------------- layout of an encrypted file

type c18Mod struct {
	Kind          string
	RG, Col, Page int
	Off, Len      int // envelope position in the file, Len includes the 4-byte length prefix
	Key           []byte
	Inline        bool // column metadata envelope stored inside the plaintext footer
	Plain         []byte
}

func (m c18Mod) String() string {
	return fmt.Sprintf("%s(rg=%d,col=%d,page=%d)@%d+%d", m.Kind, m.RG, m.Col, m.Page, m.Off, m.Len)
}

type c18Layout struct {
	EncFooter   bool
	Prefix, FU  []byte
	Meta        format.FileMetaData
	Mods        []c18Mod
	FooterStart int // start of the footer region (crypto metadata or plaintext footer)
	PlainLen    int // bytes of plaintext thrift at FooterStart
	SigOff      int // plaintext-footer mode: offset of the 28-byte signature
	NoKey       int // column chunks skipped because the reader holds no key
	Gaps        []string
	GapsSealed  bool // every gap is itself a chain of length-prefixed envelopes
}

func c18DecodePrefix(data []byte, v any) (int, error) {
	p := &thrift.CompactProtocol{}
	r := p.NewReaderFromBytes(data)
	if err := thrift.NewDecoder(r).Decode(v); err != nil {
		return 0, err
	}
	return r.BytesRead(), nil
}

func c18AlgoParams(a *format.EncryptionAlgorithm) (prefix, fu []byte, err error) {
	switch v := a.Value.(type) {
	case *format.AesGcmV1:
		return v.AadPrefix, v.AadFileUnique, nil
	default:
		return nil, nil, fmt.Errorf("encryption algorithm %T", a.Value)
	}
}

// c18FileUnique reads the AAD parameters, which are stored in clear in both footer modes.
func c18FileUnique(file []byte) (prefix, fu []byte, err error) {
	defer func() {
		if r := recover(); r != nil {
			err = fmt.Errorf("panic: %v", r)
		}
	}()
	n := len(file)
	if n < 12 {
		return nil, nil, fmt.Errorf("file of %d bytes", n)
	}
	flen := int(binary.LittleEndian.Uint32(file[n-8:]))
	if flen+12 > n {
		return nil, nil, fmt.Errorf("footer length %d", flen)
	}
	footer := file[n-8-flen : n-8]
	if string(file[:4]) == "PARE" {
		var cm format.FileCryptoMetaData
		if _, err := c18DecodePrefix(footer, &cm); err != nil {
			return nil, nil, err
		}
		return c18AlgoParams(&cm.EncryptionAlgorithm)
	}
	var md format.FileMetaData
	if _, err := c18DecodePrefix(footer, &md); err != nil {
		return nil, nil, err
	}
	return c18AlgoParams(&md.EncryptionAlgorithm)
}

// c18Parse walks an encrypted file with the given keys and the given AAD function, opening every
// module with the standard library. It needs nothing from the library but the thrift structs.
func c18Parse(file []byte, keys *c18Keys, aadOf func(prefix, fu []byte, kind string, rg, col, page int) []byte) (lay *c18Layout, err error) {
	defer func() {
		if r := recover(); r != nil {
			err = fmt.Errorf("walker panic: %v", r)
		}
	}()
	n := len(file)
	if n < 12 {
		return nil, fmt.Errorf("file of %d bytes", n)
	}
	lay = &c18Layout{}
	head, tail := string(file[:4]), string(file[n-4:])
	if head != tail {
		return nil, fmt.Errorf("magic %q at the start, %q at the end", head, tail)
	}
	flen := int(binary.LittleEndian.Uint32(file[n-8:]))
	if flen+12 > n {
		return nil, fmt.Errorf("footer length %d", flen)
	}
	lay.FooterStart = n - 8 - flen
	footer := file[lay.FooterStart : n-8]
	open := func(m *c18Mod) error {
		if m.Off < 0 || m.Off+4 > n {
			return fmt.Errorf("%s: offset outside the file", m.Kind)
		}
		l := int(binary.LittleEndian.Uint32(file[m.Off:]))
		if l < 28 || m.Off+4+l > n {
			return fmt.Errorf("%v: length prefix %d", *m, l)
		}
		m.Len = 4 + l
		p, err := c18OpenEnv(m.Key, aadOf(lay.Prefix, lay.FU, m.Kind, m.RG, m.Col, m.Page), file[m.Off:m.Off+m.Len])
		if err != nil {
			return fmt.Errorf("%v: %w", *m, err)
		}
		m.Plain = p
		lay.Mods = append(lay.Mods, *m)
		return nil
	}
	switch head {
	case "PARE":
		lay.EncFooter = true
		var cm format.FileCryptoMetaData
		used, err := c18DecodePrefix(footer, &cm)
		if err != nil {
			return nil, fmt.Errorf("FileCryptoMetaData: %w", err)
		}
		lay.PlainLen = used
		if lay.Prefix, lay.FU, err = c18AlgoParams(&cm.EncryptionAlgorithm); err != nil {
			return nil, err
		}
		m := c18Mod{Kind: "footer", Off: lay.FooterStart + used, Key: keys.footer}
		if err := open(&m); err != nil {
			return nil, err
		}
		if m.Off+m.Len != n-8 {
			return nil, fmt.Errorf("footer envelope ends at %d, footer region at %d", m.Off+m.Len, n-8)
		}
		if _, err := c18DecodePrefix(m.Plain, &lay.Meta); err != nil {
			return nil, fmt.Errorf("decrypted footer: %w", err)
		}
	case "PAR1":
		used, err := c18DecodePrefix(footer, &lay.Meta)
		if err != nil {
			return nil, fmt.Errorf("plaintext footer: %w", err)
		}
		lay.PlainLen = used
		if len(footer)-used != 28 {
			return nil, fmt.Errorf("plaintext footer followed by %d bytes, want a 28-byte signature", len(footer)-used)
		}
		if lay.Prefix, lay.FU, err = c18AlgoParams(&lay.Meta.EncryptionAlgorithm); err != nil {
			return nil, err
		}
		lay.SigOff = lay.FooterStart + used
		sig := footer[used:]
		aad := append(aadOf(lay.Prefix, lay.FU, "footer", 0, 0, 0), footer[:used]...)
		if _, err := c18GcmOpen(keys.footer, sig[:12], sig[12:], aad); err != nil {
			return nil, fmt.Errorf("footer signature: %w", err)
		}
	default:
		return nil, fmt.Errorf("magic %q", head)
	}
	for i := range lay.Meta.RowGroups {
		rg := &lay.Meta.RowGroups[i]
		for j := range rg.Columns {
			cc := &rg.Columns[j]
			var key []byte
			switch c := cc.CryptoMetadata.Value.(type) {
			case *format.EncryptionWithFooterKey:
				key = keys.footer
			case *format.EncryptionWithColumnKey:
				key = keys.cols[strings.Join(c.PathInSchema, ".")]
				if key == nil {
					lay.NoKey++
					continue
				}
			default:
				return nil, fmt.Errorf("rg %d column %d: no crypto metadata in an encrypted file", i, j)
			}
			md := cc.MetaData
			if len(cc.EncryptedColumnMetadata) > 0 {
				at := bytes.Index(footer, cc.EncryptedColumnMetadata)
				if at < 0 {
					return nil, fmt.Errorf("rg %d column %d: encrypted column metadata not found in the footer bytes", i, j)
				}
				m := c18Mod{Kind: "columnMeta", RG: i, Col: j, Off: lay.FooterStart + at, Key: key, Inline: true}
				if err := open(&m); err != nil {
					return nil, err
				}
				if m.Len != len(cc.EncryptedColumnMetadata) {
					return nil, fmt.Errorf("%v: field of %d bytes", m, len(cc.EncryptedColumnMetadata))
				}
				// as the reader does (file.go:575): decode over the plaintext copy, whose fields survive
				// where the sealed copy is silent (the deferred bloom filter offset is only there)
				if _, err := c18DecodePrefix(m.Plain, &md); err != nil {
					return nil, fmt.Errorf("%v: %w", m, err)
				}
			} else if !lay.EncFooter {
				return nil, fmt.Errorf("rg %d column %d: plaintext footer without encrypted column metadata", i, j)
			}
			start := int(md.DataPageOffset)
			if md.DictionaryPageOffset != 0 {
				start = int(md.DictionaryPageOffset)
				h := c18Mod{Kind: "dictPageHeader", RG: i, Col: j, Off: start, Key: key}
				if err := open(&h); err != nil {
					return nil, err
				}
				b := c18Mod{Kind: "dictPage", RG: i, Col: j, Off: h.Off + h.Len, Key: key}
				if err := open(&b); err != nil {
					return nil, err
				}
				if b.Off+b.Len != int(md.DataPageOffset) {
					return nil, fmt.Errorf("rg %d column %d: dictionary ends at %d, data pages start at %d", i, j, b.Off+b.Len, md.DataPageOffset)
				}
			}
			end := start + int(md.TotalCompressedSize)
			at := int(md.DataPageOffset)
			for p := 0; at < end; p++ {
				h := c18Mod{Kind: "dataPageHeader", RG: i, Col: j, Page: p, Off: at, Key: key}
				if err := open(&h); err != nil {
					return nil, err
				}
				b := c18Mod{Kind: "dataPage", RG: i, Col: j, Page: p, Off: h.Off + h.Len, Key: key}
				if err := open(&b); err != nil {
					return nil, err
				}
				at = b.Off + b.Len
			}
			if at != end {
				return nil, fmt.Errorf("rg %d column %d: pages end at %d, chunk (TotalCompressedSize) at %d", i, j, at, end)
			}
			if md.BloomFilterOffset != 0 {
				h := c18Mod{Kind: "bloomHeader", RG: i, Col: j, Off: int(md.BloomFilterOffset), Key: key}
				if err := open(&h); err != nil {
					return nil, err
				}
				b := c18Mod{Kind: "bloomBits", RG: i, Col: j, Off: h.Off + h.Len, Key: key}
				if err := open(&b); err != nil {
					return nil, err
				}
			}
			if cc.ColumnIndexOffset != 0 {
				m := c18Mod{Kind: "columnIndex", RG: i, Col: j, Off: int(cc.ColumnIndexOffset), Key: key}
				if err := open(&m); err != nil {
					return nil, err
				}
				if m.Len != int(cc.ColumnIndexLength) {
					return nil, fmt.Errorf("%v: ColumnIndexLength %d", m, cc.ColumnIndexLength)
				}
			}
			if cc.OffsetIndexOffset != 0 {
				m := c18Mod{Kind: "offsetIndex", RG: i, Col: j, Off: int(cc.OffsetIndexOffset), Key: key}
				if err := open(&m); err != nil {
					return nil, err
				}
				if m.Len != int(cc.OffsetIndexLength) {
					return nil, fmt.Errorf("%v: OffsetIndexLength %d", m, cc.OffsetIndexLength)
				}
			}
		}
	}
	// byte coverage: magic | modules ... | footer region | length+magic must tile the file
	type iv struct {
		a, b int
		what string
	}
	ivs := []iv{{0, 4, "magic"}, {lay.FooterStart, n - 8, "footer region"}, {n - 8, n, "tail"}}
	for _, m := range lay.Mods {
		if !m.Inline && m.Kind != "footer" {
			ivs = append(ivs, iv{m.Off, m.Off + m.Len, m.String()})
		}
	}
	sort.Slice(ivs, func(i, j int) bool { return ivs[i].a < ivs[j].a })
	pos := 0
	lay.GapsSealed = true
	for _, v := range ivs {
		if v.a > pos {
			chain := "not a chain of envelopes"
			at, k := pos, 0
			for at+4 <= v.a {
				l := int(binary.LittleEndian.Uint32(file[at:]))
				if l < 28 || at+4+l > v.a {
					break
				}
				at += 4 + l
				k++
			}
			if at == v.a {
				chain = fmt.Sprintf("a chain of %d length-prefixed envelopes nothing points to", k)
			} else {
				lay.GapsSealed = false
			}
			lay.Gaps = append(lay.Gaps, fmt.Sprintf("bytes [%d,%d) before %s belong to no module (%s)", pos, v.a, v.what, chain))
		} else if v.a < pos {
			lay.GapsSealed = false
			lay.Gaps = append(lay.Gaps, fmt.Sprintf("%s overlaps the previous region by %d bytes", v.what, pos-v.a))
		}
		if v.b > pos {
			pos = v.b
		}
	}
	return lay, nil
}
