package props

// C20 L2: the REAL compress.Compressor / compress.Decompressor (pool + reset + read loop of
// compress/compress.go) driven with instrumented toy streams, against the Lean pool model
// (`codec.run`) running the same toy streams. The toy streams are the ones defined in
// lean/PqModel/Codec.lean (`toyReader`, `toyWriter`): magic A7, `01 b` per byte, `00` end;
// gzip-like (constructor/Reset validate the header) and brotli-like (stale input survives
// Reset) variants. No third-party codec runs here.

import (
	"bytes"
	"errors"
	"fmt"
	"io"
	"math/rand"
	"strings"

	"github.com/parquet-go/parquet-go/compress"

	"verifharness/core"
)

type toyCfg struct {
	H, S, N bool
	Chunk   int
	E       bool
	FW, FC  int // -1 = none
}

func (c toyCfg) String() string {
	b := func(v bool) string {
		if v {
			return "1"
		}
		return "0"
	}
	o := func(v int) string {
		if v < 0 {
			return "n"
		}
		return fmt.Sprint(v)
	}
	return fmt.Sprintf("%s,%s,%s,%d,%s,%s,%s", b(c.H), b(c.S), b(c.N), c.Chunk, b(c.E), o(c.FW), o(c.FC))
}

const (
	toyClean = iota
	toyTruncated
	toyHard
	toyExcess
)

var errToy = errors.New("toy stream error")

type toyTrace struct {
	evs   []string
	next  int
	reads int // Read calls of the current Decode
}

// toyFuel: a read loop that spins for ever (before 375db5b: empty src, cap(dst) = 0, a reader with
// stale input) must not take the harness down; the toy reader gives up after as many Reads as
// the model has fuel.
const toyFuel = 3000

type toyStorm struct{}

func (t *toyTrace) add(f string, a ...any) { t.evs = append(t.evs, fmt.Sprintf(f, a...)) }

func toyBody(b []byte) (out []byte, fin int, rest []byte) {
	for {
		if len(b) == 0 {
			return out, toyTruncated, nil
		}
		switch b[0] {
		case 0:
			if len(b) == 1 {
				return out, toyClean, nil
			}
			return out, toyExcess, b[1:]
		case 1:
			if len(b) < 2 {
				return out, toyTruncated, nil
			}
			out = append(out, b[1])
			b = b[2:]
		default:
			return out, toyHard, nil
		}
	}
}

type toyReader struct {
	cfg   toyCfg
	id    int
	tr    *toyTrace
	todo  []byte
	fin   int
	stale []byte
}

func (r *toyReader) open(inp []byte) error {
	if len(inp) == 0 {
		if r.cfg.H {
			return errToy
		}
		r.todo, r.fin, r.stale = nil, toyTruncated, nil
		return nil
	}
	if inp[0] == 0xA7 {
		r.todo, r.fin, r.stale = toyBody(inp[1:])
		return nil
	}
	if r.cfg.H {
		return errToy
	}
	r.todo, r.fin, r.stale = nil, toyHard, nil
	return nil
}

func (r *toyReader) carry() []byte {
	if r.cfg.S && r.fin == toyExcess {
		return r.stale
	}
	return nil
}

func (r *toyReader) Reset(src io.Reader) error {
	if src == nil {
		if r.cfg.N && r.fin == toyHard {
			r.tr.add("Z0")
			return errToy
		}
		c := r.carry()
		r.todo, r.stale = nil, c
		if len(c) == 0 {
			r.fin = toyClean
		} else {
			r.fin = toyExcess
		}
		r.tr.add("Z1")
		return nil
	}
	b, _ := io.ReadAll(src)
	if err := r.open(append(append([]byte{}, r.carry()...), b...)); err != nil {
		r.tr.add("UF%d", r.id)
		return err
	}
	r.tr.add("U%d", r.id)
	return nil
}

func (r *toyReader) Read(p []byte) (int, error) {
	if r.tr.reads++; r.tr.reads > toyFuel {
		panic(toyStorm{})
	}
	k := len(p)
	if k > r.cfg.Chunk+1 {
		k = r.cfg.Chunk + 1
	}
	if len(r.todo) <= k && (r.cfg.E || len(r.todo) == 0) {
		n := copy(p, r.todo)
		r.todo = nil
		if r.fin == toyClean {
			r.tr.add("R%d.%d.e", len(p), n)
			return n, io.EOF
		}
		r.tr.add("R%d.%d.f", len(p), n)
		return n, errToy
	}
	if k > len(r.todo) {
		k = len(r.todo)
	}
	n := copy(p, r.todo[:k])
	r.todo = r.todo[k:]
	r.tr.add("R%d.%d.m", len(p), n)
	return n, nil
}

func (r *toyReader) Close() error { return nil }

type toyWriter struct {
	cfg   toyCfg
	id    int
	tr    *toyTrace
	sink  io.Writer
	first int
}

func (w *toyWriter) Reset(sink io.Writer) {
	if sink == io.Discard {
		w.tr.add("X")
	} else {
		w.tr.add("U%d", w.id)
	}
	w.sink, w.first = sink, -1
}

func (w *toyWriter) Write(src []byte) (int, error) {
	w.first = -1
	if len(src) > 0 {
		w.first = int(src[0])
	}
	if w.first >= 0 && w.first == w.cfg.FW {
		w.sink.Write([]byte{0xA7})
		w.tr.add("W%d.0", len(src))
		return 0, errToy
	}
	out := []byte{0xA7}
	for _, b := range src {
		out = append(out, 1, b)
	}
	w.sink.Write(out)
	w.tr.add("W%d.1", len(src))
	return len(src), nil
}

func (w *toyWriter) Close() error {
	if w.first >= 0 && w.first == w.cfg.FC {
		w.tr.add("C0")
		return errToy
	}
	w.sink.Write([]byte{0})
	w.tr.add("C1")
	return nil
}

func toyEncode(x []byte) []byte {
	out := []byte{0xA7}
	for _, b := range x {
		out = append(out, 1, b)
	}
	return append(out, 0)
}

// c20PoolCase: one random history on one (Compressor, Decompressor) pair.
func c20PoolCase(ctx *core.Ctx, r *rand.Rand, cfg toyCfg) (req string, want []string, canon string) {
	var comp compress.Compressor
	var decomp compress.Decompressor
	wtr, rtr := &toyTrace{}, &toyTrace{}
	newW := func(sink io.Writer) (compress.Writer, error) {
		w := &toyWriter{cfg: cfg, id: wtr.next, tr: wtr, sink: sink, first: -1}
		wtr.next++
		wtr.add("N%d", w.id)
		return w, nil
	}
	newR := func(src io.Reader) (compress.Reader, error) {
		rd := &toyReader{cfg: cfg, tr: rtr}
		b, _ := io.ReadAll(src)
		if err := rd.open(b); err != nil {
			rtr.add("NF")
			return nil, err
		}
		rd.id = rtr.next
		rtr.next++
		rtr.add("N%d", rd.id)
		return rd, nil
	}
	nops := 1 + r.Intn(10)
	var ops []string
	var encs [][]byte
	randBytes := func() []byte {
		n := []int{0, 1, 2, 3, 7, 8, 9, 16, 17, 33}[r.Intn(10)]
		b := make([]byte, n)
		for i := range b {
			b[i] = byte(r.Intn(4)) // small alphabet: hits FW/FC and the toy tags 0/1
		}
		if n > 0 && r.Intn(3) == 0 {
			b[0] = byte(0xEE + r.Intn(2))
		}
		return b
	}
	dstOf := func(n int) []byte {
		switch r.Intn(6) {
		case 0:
			return nil
		case 1:
			return make([]byte, 0)
		case 2:
			return make([]byte, 0, 1+r.Intn(4))
		case 3:
			return make([]byte, r.Intn(n+1), n)
		case 4:
			return make([]byte, 0, n+1)
		}
		return make([]byte, 3, 2*n+5)
	}
	for i := 0; i < nops; i++ {
		if r.Intn(2) == 0 { // Encode
			x := randBytes()
			dst := dstOf(2*len(x) + 2)
			wtr.evs = wtr.evs[:0]
			var out []byte
			var err error
			pan := false
			func() {
				defer func() {
					if recover() != nil {
						pan = true
					}
				}()
				out, err = comp.Encode(dst, x, newW)
			}()
			pick := "n"
			if len(wtr.evs) > 0 && strings.HasPrefix(wtr.evs[0], "U") {
				pick = wtr.evs[0][1:]
			}
			ops = append(ops, fmt.Sprintf("e:%s:%d:%s", pick, cap(dst), core.Hex(x)))
			want = append(want, strings.Join(wtr.evs, ",")+"|"+c20OutcomeStr(out, err, pan))
			if err == nil && !pan {
				encs = append(encs, append([]byte{}, out...))
			}
			ctx.Hist("c20.pool.op", "encode")
		} else { // Decode: a valid stream, or a damaged one
			var src []byte
			if len(encs) > 0 && r.Intn(3) > 0 {
				src = append([]byte{}, encs[r.Intn(len(encs))]...)
			} else {
				src = toyEncode(randBytes())
			}
			kind := "valid"
			switch r.Intn(8) {
			case 0:
				src, kind = src[:r.Intn(len(src))], "truncated"
			case 1:
				src, kind = append(src, randBytes()...), "trailing"
			case 2:
				src[r.Intn(len(src))] ^= byte(1 << uint(r.Intn(8)))
				kind = "flip"
			case 3:
				src, kind = append(src, toyEncode(randBytes())[:1+r.Intn(4)]...), "trailing-stream-prefix"
			case 4:
				src, kind = randBytes(), "garbage"
			}
			dst := dstOf(len(src))
			rtr.evs, rtr.reads = rtr.evs[:0], 0
			var out []byte
			var err error
			pan, hang := false, false
			func() {
				defer func() {
					if v := recover(); v != nil {
						pan = true
						_, hang = v.(toyStorm)
					}
				}()
				out, err = decomp.Decode(dst, src, newR)
			}()
			pick := "n"
			if len(rtr.evs) > 0 && (strings.HasPrefix(rtr.evs[0], "UF") || strings.HasPrefix(rtr.evs[0], "U")) {
				pick = strings.TrimPrefix(strings.TrimPrefix(rtr.evs[0], "UF"), "U")
			}
			ops = append(ops, fmt.Sprintf("d:%s:%d:%s", pick, cap(dst), core.Hex(src)))
			ctx.Hist("c20.pool.op", "decode-"+kind)
			if hang {
				// the call never returns: the history ends here (only the outcome is compared)
				want = append(want, "*|hang")
				ctx.Hist("c20.pool.decode-outcome", "hang")
				break
			}
			want = append(want, strings.Join(rtr.evs, ",")+"|"+c20OutcomeStr(out, err, pan))
			ctx.Hist("c20.pool.decode-outcome", strings.SplitN(c20OutcomeStr(out, err, pan), ":", 2)[0])
		}
	}
	req = fmt.Sprintf("codec.run %s fixed %d %s", cfg, toyFuel, strings.Join(ops, " "))
	return req, want, cfg.String() + " " + strings.Join(ops, " ")
}

func c20OutcomeStr(out []byte, err error, pan bool) string {
	switch {
	case pan:
		return "panic"
	case err != nil:
		return "err:" + core.Hex(out)
	}
	return "ok:" + core.Hex(out)
}

// c20PoolCompare checks one model answer against the real pool's trace.
func c20PoolCompare(ctx *core.Ctx, req, ans string, want []string) {
	fail := func(key, what string) {
		ctx.Fail("L2", key, what, map[string]any{"request": req, "model": ans, "impl": want})
	}
	if !strings.HasPrefix(ans, "ok ") {
		fail("pool-model-rejects", "pqdriver did not answer ok")
		return
	}
	segs := strings.Fields(ans[3:])
	if len(segs) != len(want) {
		fail("pool-trace-length", "model and real pool disagree on the number of calls")
		return
	}
	for i, seg := range segs {
		parts := strings.SplitN(seg, "|", 3)
		if len(parts) != 3 {
			fail("pool-model-rejects", "malformed model segment")
			return
		}
		idle, evs, out := parts[0], parts[1], parts[2]
		// the model also says put/drop, which an instrumented stream cannot see
		var vis []string
		for _, e := range strings.Split(evs, ",") {
			if e != "-" && !strings.HasPrefix(e, "P") && !strings.HasPrefix(e, "D") {
				vis = append(vis, e)
			}
		}
		got := strings.Join(vis, ",") + "|" + out
		if want[i] == "*|hang" {
			if out != "hang" {
				fail("pool-outcome-differs", fmt.Sprintf("call %d: the real read loop does not end, model says %q", i, out))
				return
			}
			continue
		}
		if got != want[i] {
			key := "pool-trace-differs"
			if strings.SplitN(want[i], "|", 2)[1] != out {
				key = "pool-outcome-differs"
			}
			fail(key, fmt.Sprintf("call %d: real pool %q, model %q", i, want[i], got))
			return
		}
		// sync.Pool may forget objects (allowed); it must never hand out one the model has not idle
		if strings.HasPrefix(want[i], "N") || strings.HasPrefix(want[i], "NF") {
			if idle != "-" {
				ctx.Hist("c20.pool.get", "new-while-model-has-idle")
			} else {
				ctx.Hist("c20.pool.get", "new")
			}
		} else {
			ctx.Hist("c20.pool.get", "reuse")
		}
	}
}

func c20PoolL2(ctx *core.Ctx) {
	d := ctx.Driver()
	if d == nil {
		return
	}
	r := ctx.Rand("c20-pool")
	n := ctx.Scale(20000, 120000)
	var reqs []string
	var wants [][]string
	flush := func() {
		ans, err := d.AskMany(reqs)
		if err != nil {
			ctx.Fail("L2", "driver-error", err.Error(), nil)
		}
		for i, a := range ans {
			c20PoolCompare(ctx, reqs[i], a, wants[i])
		}
		reqs, wants = reqs[:0], wants[:0]
	}
	for i := 0; i < n; i++ {
		cfg := toyCfg{H: r.Intn(2) == 0, S: r.Intn(3) == 0, N: r.Intn(2) == 0, Chunk: []int{0, 1, 2, 7, 100}[r.Intn(5)],
			E: r.Intn(2) == 0, FW: -1, FC: -1}
		if r.Intn(3) == 0 {
			cfg.FW = 0xEE
		}
		if r.Intn(3) == 0 {
			cfg.FC = 0xEF
		}
		req, want, canon := c20PoolCase(ctx, r, cfg)
		ctx.Case("pool "+canon, len(want) >= 2)
		if i < 2 {
			ctx.Sample(map[string]any{"pool-history": canon, "real-trace": want})
		}
		reqs, wants = append(reqs, req), append(wants, want)
		if len(reqs) >= 2000 {
			flush()
		}
	}
	flush()
	_ = bytes.Equal
}
