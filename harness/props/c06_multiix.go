package props

import (
	"bytes"
	"fmt"
	"io"
	"math"
	"math/rand"
	"sort"
	"strings"

	"github.com/parquet-go/parquet-go"

	"verifharness/core"
)

// C06/multiix: the two index views of a multiColumnChunk in full (multi_row_group.go multiColumnIndex and
// multiOffsetIndex): every accessor (NumPages, NullPage, NullCount, MinValue, MaxValue, IsAscending, IsDescending;
// Offset, CompressedPageSize, FirstRowIndex) for every page number from -2 to NumPages()+2 (the numbers outside the
// index take the out-of-bounds branch of mapPageIndex), and Find for probes around every bound.
//
// Members:
//
//	files   : the row groups of 1..3 generated parquet files (2..9 row groups, int64 required + int32 optional
//	          column, 1..12 pages per chunk, null pages), under MultiRowGroup, flat or nested (flattened chunks with
//	          rowCounts)
//	standin : 2..5 stand-in row groups whose chunks serve prepared column / offset indexes of 0..3 pages, so that
//	          members WITHOUT pages occur at the front, in the middle and at the end; INT64, or DOUBLE with pages
//	          whose bounds are NaN (such a member claims no order, as the float indexers do)
//
// L1 (oracle from the property, no model): every non-null value read from page g (counted over the pages of the
// members in order) is answered by Find on the multi index with a page <= g whose bounds contain it; NullCount(g) is
// the page's null count; FirstRowIndex(g) is the number of rows before the page; Offset / CompressedPageSize are the
// member's own. For stand-ins: every page whose bounds contain the probe is at or after Find's answer.
// L2: ops multiix.ci / multiix.oi = the Lean mirrors (mapIdxGo, multiAt, multiFirstRowAt, multiIsAscending,
// multiIsDescending, findMultiGo) over the members' own indexes.
func init() { RegisterSub("C06", "multiix", RunC06MultiIx) }

type c06xRow struct {
	A int64  `parquet:"a"`
	B *int32 `parquet:"b,optional"`
}

// stand-ins
type c06xColumnIndex struct {
	nulls     []bool
	counts    []int64
	mins      []parquet.Value
	maxs      []parquet.Value
	asc, desc bool
}

func (x *c06xColumnIndex) NumPages() int                { return len(x.nulls) }
func (x *c06xColumnIndex) NullCount(i int) int64        { return x.counts[i] }
func (x *c06xColumnIndex) NullPage(i int) bool          { return x.nulls[i] }
func (x *c06xColumnIndex) MinValue(i int) parquet.Value { return x.mins[i] }
func (x *c06xColumnIndex) MaxValue(i int) parquet.Value { return x.maxs[i] }
func (x *c06xColumnIndex) IsAscending() bool            { return x.asc }
func (x *c06xColumnIndex) IsDescending() bool           { return x.desc }

type c06xOffsetIndex struct{ offs, sizes, rows []int64 }

func (x *c06xOffsetIndex) NumPages() int                  { return len(x.offs) }
func (x *c06xOffsetIndex) Offset(i int) int64             { return x.offs[i] }
func (x *c06xOffsetIndex) CompressedPageSize(i int) int64 { return x.sizes[i] }
func (x *c06xOffsetIndex) FirstRowIndex(i int) int64      { return x.rows[i] }

type c06xChunk struct {
	typ parquet.Type
	ci  parquet.ColumnIndex
	oi  parquet.OffsetIndex
}

func (c *c06xChunk) Type() parquet.Type                        { return c.typ }
func (c *c06xChunk) Column() int                               { return 0 }
func (c *c06xChunk) Pages() parquet.Pages                      { return nil }
func (c *c06xChunk) ColumnIndex() (parquet.ColumnIndex, error) { return c.ci, nil }
func (c *c06xChunk) OffsetIndex() (parquet.OffsetIndex, error) { return c.oi, nil }
func (c *c06xChunk) BloomFilter() parquet.BloomFilter          { return nil }
func (c *c06xChunk) NumValues() int64                          { return 0 }

type c06xRowGroup struct {
	schema  *parquet.Schema
	chunk   parquet.ColumnChunk
	numRows int64
}

var (
	c06xSchema  = parquet.NewSchema("m", parquet.Group{"v": parquet.Leaf(parquet.Int64Type)})
	c06xSchemaF = parquet.NewSchema("m", parquet.Group{"v": parquet.Leaf(parquet.DoubleType)})
)

func (g *c06xRowGroup) NumRows() int64                          { return g.numRows }
func (g *c06xRowGroup) ColumnChunks() []parquet.ColumnChunk     { return []parquet.ColumnChunk{g.chunk} }
func (g *c06xRowGroup) Schema() *parquet.Schema                 { return g.schema }
func (g *c06xRowGroup) SortingColumns() []parquet.SortingColumn { return nil }
func (g *c06xRowGroup) Rows() parquet.Rows                      { return nil }

// c06xMember is what the check reads off ONE member chunk through its own indexes
type c06xMember struct {
	ci      parquet.ColumnIndex
	oi      parquet.OffsetIndex
	numRows int64
	chunk   parquet.ColumnChunk // nil for stand-ins
}

func c06xRank(v parquet.Value) (int64, bool) {
	if v.IsNull() {
		return 0, false
	}
	switch v.Kind() {
	case parquet.Int32:
		return int64(v.Int32()), true
	case parquet.Double: // the generated doubles are whole numbers or NaN (c06xIsNaN)
		return int64(v.Double()), true
	default:
		return v.Int64(), true
	}
}

func c06xIsNaN(v parquet.Value) bool {
	return !v.IsNull() && v.Kind() == parquet.Double && v.Double() != v.Double()
}

func c06xBound(v parquet.Value) string {
	if c06xIsNaN(v) {
		return "nan"
	}
	r, ok := c06xRank(v)
	if !ok {
		return "n"
	}
	return fmt.Sprint(r)
}

func c06xBucket(n int) string {
	switch {
	case n <= 3:
		return fmt.Sprint(n)
	case n <= 8:
		return "4..8"
	case n <= 16:
		return "9..16"
	case n <= 32:
		return "17..32"
	}
	return "33+"
}

func c06xJoin(s []string) string {
	if len(s) == 0 {
		return "-"
	}
	return strings.Join(s, ",")
}

func c06xBit(x bool) string {
	if x {
		return "1"
	}
	return "0"
}

// c06xGuard runs an accessor; a panic (a member asked for a page it does not have) is the answer "!"
func c06xGuard(f func() string) (out string) {
	defer func() {
		if recover() != nil {
			out = "!"
		}
	}()
	return f()
}

// c06xCheck compares the multi indexes of `multi` over `members` with the oracle and the mirror
func c06xCheck(ctx *core.Ctx, flavour, canon string, members []c06xMember, multi parquet.ColumnChunk, probes []int64, values [][]parquet.Value, pageRows []int64, pageNulls []int64, reqs *[]string, pend *[]func(string)) {
	mci, err := multi.ColumnIndex()
	if err != nil {
		ctx.Fail("L1", "multiix-column-index-error", err.Error(), canon)
		return
	}
	moi, err := multi.OffsetIndex()
	if err != nil {
		ctx.Fail("L1", "multiix-offset-index-error", err.Error(), canon)
		return
	}
	total, empties := 0, 0
	for _, m := range members {
		total += m.ci.NumPages()
		if m.ci.NumPages() == 0 {
			empties++
		}
	}
	ctx.Case(canon, len(members) >= 2 && total >= 2)
	ctx.Hist("multiix.flavour", flavour)
	ctx.Hist("multiix.members", fmt.Sprint(len(members)))
	ctx.Hist("multiix.pages", c06xBucket(total))
	ctx.Hist("multiix.members-without-pages", fmt.Sprint(empties))
	ctx.Hist("multiix.flags", c06xBit(mci.IsAscending())+c06xBit(mci.IsDescending()))
	anyNull := false
	for g := 0; g < mci.NumPages(); g++ {
		anyNull = anyNull || mci.NullPage(g)
	}
	ctx.Hist("multiix.find-path", map[bool]string{true: "binary search", false: "linear search"}[mci.IsAscending() && !anyNull])
	if mci.NumPages() != total || moi.NumPages() != total {
		ctx.Fail("L1", "multiix-numpages", fmt.Sprintf("NumPages %d / %d, members have %d", mci.NumPages(), moi.NumPages(), total), canon)
		return
	}
	typ := multi.Type()
	cmps := []func(a, b parquet.Value) int{parquet.CompareNullsLast(typ.Compare), parquet.CompareNullsFirst(typ.Compare)}
	mkValue := func(v int64) parquet.Value {
		switch typ.Kind() {
		case parquet.Int32:
			return parquet.Int32Value(int32(v))
		case parquet.Double:
			return parquet.DoubleValue(float64(v))
		}
		return parquet.Int64Value(v)
	}
	hasNaN := false
	for _, m := range members {
		for i := 0; i < m.ci.NumPages(); i++ {
			hasNaN = hasNaN || c06xIsNaN(m.ci.MinValue(i)) || c06xIsNaN(m.ci.MaxValue(i))
		}
	}
	if typ.Kind() == parquet.Double {
		ctx.Hist("multiix.double-members", map[bool]string{true: "with NaN bounds", false: "no NaN bound"}[hasNaN])
		// the two facts about IsAscending() that find_no_miss_multi_float takes as hypotheses: `hall` here, `hseam`
		// through multiix.ci below (no NaN bound: the answer is the rank mirror's)
		if mci.IsAscending() {
			for _, m := range members {
				if !m.ci.IsAscending() {
					ctx.Fail("L1", "multiix-ascending-although-member-is-not", "multiColumnIndex.IsAscending() is true although a member does not claim it", canon)
				}
			}
		}
	}
	inPage := func(g int, v int64) bool {
		if mci.NullPage(g) {
			return false
		}
		// a NaN bound excludes nothing (compareFloat64 answers 0 against NaN)
		mn, mx := mci.MinValue(g), mci.MaxValue(g)
		lo, _ := c06xRank(mn)
		hi, _ := c06xRank(mx)
		return (c06xIsNaN(mn) || lo <= v) && (c06xIsNaN(mx) || v <= hi)
	}
	// L1 on the values of the pages (files)
	for g, vals := range values {
		seen := map[int64]bool{}
		for _, v := range vals {
			x, ok := c06xRank(v)
			if !ok || seen[x] {
				continue
			}
			seen[x] = true
			for k, cmp := range cmps {
				r := parquet.Find(mci, mkValue(x), cmp)
				if r > g || r >= total || !inPage(r, x) {
					ctx.Fail("L1", "multiix-find-misses-page-value", fmt.Sprintf("value %d of page %d: Find (nulls first=%d) answers %d of %d pages", x, g, k, r, total), canon)
				}
			}
		}
		if mci.NullCount(g) != pageNulls[g] {
			ctx.Fail("L1", "multiix-nullcount", fmt.Sprintf("page %d: NullCount %d, the page has %d nulls", g, mci.NullCount(g), pageNulls[g]), canon)
		}
	}
	if values != nil {
		rowsBefore := int64(0)
		for g := range values {
			if moi.FirstRowIndex(g) != rowsBefore {
				ctx.Fail("L1", "multiix-first-row-index", fmt.Sprintf("page %d: FirstRowIndex %d, %d rows come before it", g, moi.FirstRowIndex(g), rowsBefore), canon)
			}
			rowsBefore += pageRows[g]
		}
	}
	// L1 on the bounds (all flavours): the first page whose bounds contain the probe is Find's answer
	g := 0
	for _, m := range members {
		for l := 0; l < m.ci.NumPages(); l++ {
			if moi.Offset(g) != m.oi.Offset(l) || moi.CompressedPageSize(g) != m.oi.CompressedPageSize(l) {
				ctx.Fail("L1", "multiix-offset-size", fmt.Sprintf("page %d is page %d of its member: offset/size %d/%d vs %d/%d", g, l, moi.Offset(g), moi.CompressedPageSize(g), m.oi.Offset(l), m.oi.CompressedPageSize(l)), canon)
			}
			g++
		}
	}
	for _, v := range probes {
		first := total
		for g := 0; g < total; g++ {
			if inPage(g, v) {
				first = g
				break
			}
		}
		for k, cmp := range cmps {
			if r := parquet.Find(mci, mkValue(v), cmp); r != first {
				ctx.Fail("L1", "multiix-find-not-first-containing-page", fmt.Sprintf("probe %d: Find (nulls first=%d) answers %d, first page whose bounds contain it is %d of %d", v, k, r, first, total), canon)
			}
		}
	}
	// L2
	lo, hi := -2, total+2
	var chunkTexts, countTexts, offTexts, sizeTexts, rowTexts, numRowTexts []string
	for _, m := range members {
		n := m.ci.NumPages()
		nulls, mins, maxs, counts := make([]string, n), make([]string, n), make([]string, n), make([]string, n)
		offs, sizes, rows := make([]string, n), make([]string, n), make([]string, n)
		for i := 0; i < n; i++ {
			nulls[i] = c06xBit(m.ci.NullPage(i))
			mins[i], maxs[i] = c06xBound(m.ci.MinValue(i)), c06xBound(m.ci.MaxValue(i))
			counts[i] = fmt.Sprint(m.ci.NullCount(i))
			offs[i], sizes[i], rows[i] = fmt.Sprint(m.oi.Offset(i)), fmt.Sprint(m.oi.CompressedPageSize(i)), fmt.Sprint(m.oi.FirstRowIndex(i))
		}
		chunkTexts = append(chunkTexts, c06xBit(m.ci.IsAscending())+c06xBit(m.ci.IsDescending())+":"+c06xJoin(nulls)+":"+c06xJoin(mins)+":"+c06xJoin(maxs))
		countTexts = append(countTexts, c06xJoin(counts))
		offTexts, sizeTexts, rowTexts = append(offTexts, c06xJoin(offs)), append(sizeTexts, c06xJoin(sizes)), append(rowTexts, c06xJoin(rows))
		numRowTexts = append(numRowTexts, fmt.Sprint(m.numRows))
	}
	probeTexts := make([]string, len(probes))
	finds := [2][]string{}
	for i, v := range probes {
		probeTexts[i] = fmt.Sprint(v)
		for k, cmp := range cmps {
			finds[k] = append(finds[k], fmt.Sprint(parquet.Find(mci, mkValue(v), cmp)))
		}
	}
	var ciEntries, oiEntries []string
	for p := lo; p <= hi; p++ {
		p := p
		ciEntries = append(ciEntries,
			c06xGuard(func() string { return c06xBit(mci.NullPage(p)) })+"/"+
				c06xGuard(func() string { return fmt.Sprint(mci.NullCount(p)) })+"/"+
				c06xGuard(func() string { return c06xBound(mci.MinValue(p)) })+"/"+
				c06xGuard(func() string { return c06xBound(mci.MaxValue(p)) }))
		oiEntries = append(oiEntries,
			c06xGuard(func() string { return fmt.Sprint(moi.Offset(p)) })+"/"+
				c06xGuard(func() string { return fmt.Sprint(moi.CompressedPageSize(p)) })+"/"+
				c06xGuard(func() string { return fmt.Sprint(moi.FirstRowIndex(p)) }))
	}
	if hi >= total && total > 0 {
		ctx.Hist("multiix.fallback", map[bool]string{true: "last member has pages", false: "last member has no page"}[members[len(members)-1].ci.NumPages() > 0])
	}
	wantCI := fmt.Sprintf("ok %d %s%s %s %s %s", total, c06xBit(mci.IsAscending()), c06xBit(mci.IsDescending()), c06xJoin(finds[0]), c06xJoin(finds[1]), strings.Join(ciEntries, ";"))
	reqCI := fmt.Sprintf("multiix.ci 0 %s %s %s %d %d", strings.Join(chunkTexts, "|"), strings.Join(countTexts, "|"), c06xJoin(probeTexts), lo, hi)
	if !hasNaN {
		*reqs = append(*reqs, reqCI)
		*pend = append(*pend, func(ans string) {
			if ans != wantCI {
				ctx.Fail("L2", "multiix-column-index-differs-from-mirror", "multiColumnIndex (NumPages, flags, Find, NullPage/NullCount/MinValue/MaxValue per page number) differs from the Lean mirror", map[string]any{"case": canon, "request": reqCI, "go": wantCI, "lean": ans})
			}
		})
	}
	if typ.Kind() == parquet.Double {
		wantF := fmt.Sprintf("ok %s %s", c06xJoin(finds[0]), c06xJoin(finds[1]))
		reqF := fmt.Sprintf("multiix.findf %s %s %s", c06xBit(mci.IsAscending()), strings.Join(chunkTexts, "|"), c06xJoin(probeTexts))
		*reqs = append(*reqs, reqF)
		*pend = append(*pend, func(ans string) {
			if ans != wantF {
				ctx.Fail("L2", "multiix-float-find-differs-from-mirror", "Find on the multi index of DOUBLE members differs from findViewF on the concatenation", map[string]any{"case": canon, "request": reqF, "go": wantF, "lean": ans})
			}
		})
	}
	wantOI := fmt.Sprintf("ok %d %s", total, strings.Join(oiEntries, ";"))
	reqOI := fmt.Sprintf("multiix.oi %s %s %s %s %d %d", strings.Join(offTexts, "|"), strings.Join(sizeTexts, "|"), strings.Join(rowTexts, "|"), strings.Join(numRowTexts, ","), lo, hi)
	*reqs = append(*reqs, reqOI)
	*pend = append(*pend, func(ans string) {
		if ans != wantOI {
			ctx.Fail("L2", "multiix-offset-index-differs-from-mirror", "multiOffsetIndex (Offset/CompressedPageSize/FirstRowIndex per page number) differs from the Lean mirror", map[string]any{"case": canon, "request": reqOI, "go": wantOI, "lean": ans})
		}
	})
}

// c06xProbes: every bound, its neighbours, and the ends
func c06xProbes(members []c06xMember) []int64 {
	set := map[int64]bool{}
	for _, m := range members {
		for i := 0; i < m.ci.NumPages(); i++ {
			for _, v := range []parquet.Value{m.ci.MinValue(i), m.ci.MaxValue(i)} {
				if x, ok := c06xRank(v); ok && !c06xIsNaN(v) {
					set[x-1], set[x], set[x+1] = true, true, true
				}
			}
		}
	}
	set[0] = true
	var out []int64
	for v := range set {
		out = append(out, v)
	}
	sort.Slice(out, func(i, j int) bool { return out[i] < out[j] })
	if len(out) > 24 {
		step := len(out) / 24
		var t []int64
		for i := 0; i < len(out); i += step + 1 {
			t = append(t, out[i])
		}
		out = t
	}
	return out
}

// files flavour ---------------------------------------------------------------------------------------------------

type c06xFile struct {
	pageBytes int
	groups    [][]c06xRow
}

func c06xGenFiles(r *rand.Rand) []c06xFile {
	nfiles := 1 + r.Intn(3)
	regime := r.Intn(5)   // 0 ascending over everything, 1 ascending per row group, 2 random, 3 constant, 4 descending
	nullMode := r.Intn(4) // 0 no null, 1 short runs, 2 runs long enough for null pages, 3 whole row groups null
	next := int64(r.Intn(7) - 3)
	var files []c06xFile
	for f := 0; f < nfiles; f++ {
		file := c06xFile{pageBytes: []int{16, 24, 32, 64, 256}[r.Intn(5)]}
		ng := 1 + r.Intn(3)
		if nfiles == 1 && ng == 1 {
			ng = 2
		}
		for gi := 0; gi < ng; gi++ {
			n := 1 + r.Intn(40)
			if r.Intn(6) == 0 {
				n = 1 + r.Intn(3)
			}
			if regime == 1 {
				next = int64(r.Intn(20) - 10)
			}
			nullRun := 0
			rows := make([]c06xRow, n)
			for i := range rows {
				switch regime {
				case 0, 1:
					next += int64(r.Intn(3))
				case 2:
					next = int64(r.Intn(40) - 20)
				case 4:
					next -= int64(r.Intn(3))
				}
				rows[i].A = next
				switch {
				case nullRun > 0 || nullMode == 0:
				case nullMode == 1 && r.Intn(6) == 0:
					nullRun = 1 + r.Intn(3)
				case nullMode == 2 && r.Intn(8) == 0:
					nullRun = 4 + r.Intn(28)
				case nullMode == 3 && i == 0 && r.Intn(2) == 0:
					nullRun = n
				}
				if nullRun > 0 {
					nullRun--
				} else {
					b := int32(next)
					if regime == 2 && r.Intn(2) == 0 {
						b = int32(r.Intn(9) - 4)
					}
					rows[i].B = &b
				}
			}
			file.groups = append(file.groups, rows)
		}
		files = append(files, file)
	}
	return files
}

func c06xCanonFiles(files []c06xFile, nest int) string {
	var sb strings.Builder
	fmt.Fprintf(&sb, "multiix files nest=%d", nest)
	for _, f := range files {
		fmt.Fprintf(&sb, " file(page=%d)", f.pageBytes)
		for _, g := range f.groups {
			sb.WriteString(" [")
			for i, row := range g {
				if i > 0 {
					sb.WriteByte(' ')
				}
				if row.B == nil {
					fmt.Fprintf(&sb, "%d:n", row.A)
				} else {
					fmt.Fprintf(&sb, "%d:%d", row.A, *row.B)
				}
			}
			sb.WriteString("]")
		}
	}
	return sb.String()
}

func c06xWrite(f c06xFile) ([]parquet.RowGroup, error) {
	var buf bytes.Buffer
	w := parquet.NewGenericWriter[c06xRow](&buf, parquet.PageBufferSize(f.pageBytes))
	for _, g := range f.groups {
		if _, err := w.Write(g); err != nil {
			return nil, err
		}
		if err := w.Flush(); err != nil {
			return nil, err
		}
	}
	if err := w.Close(); err != nil {
		return nil, err
	}
	pf, err := parquet.OpenFile(bytes.NewReader(buf.Bytes()), int64(buf.Len()))
	if err != nil {
		return nil, err
	}
	return pf.RowGroups(), nil
}

func c06xFilesCase(ctx *core.Ctx, r *rand.Rand, reqs *[]string, pend *[]func(string)) {
	files := c06xGenFiles(r)
	var rgs []parquet.RowGroup
	for _, f := range files {
		g, err := c06xWrite(f)
		if err != nil {
			ctx.Fail("L1", "multiix-cannot-write-file", err.Error(), c06xCanonFiles(files, 0))
			return
		}
		rgs = append(rgs, g...)
	}
	if len(rgs) < 2 {
		return
	}
	// nest = 0: flat; k >= 2: MultiRowGroup(MultiRowGroup(first k), rest...) (the inner chunks are flattened)
	nest := 0
	if len(rgs) >= 3 && r.Intn(2) == 0 {
		nest = 2 + r.Intn(len(rgs)-2)
	}
	canon := c06xCanonFiles(files, nest)
	var multi parquet.RowGroup
	if nest == 0 {
		multi = parquet.MultiRowGroup(rgs...)
	} else {
		inner := parquet.MultiRowGroup(rgs[:nest]...)
		multi = parquet.MultiRowGroup(append([]parquet.RowGroup{inner}, rgs[nest:]...)...)
	}
	ctx.Hist("multiix.nesting", map[bool]string{true: "flat", false: "nested"}[nest == 0])
	for col, mcc := range multi.ColumnChunks() {
		var members []c06xMember
		var values [][]parquet.Value
		var pageRows, pageNulls []int64
		bad := false
		for _, rg := range rgs {
			cc := rg.ColumnChunks()[col]
			ci, err1 := cc.ColumnIndex()
			oi, err2 := cc.OffsetIndex()
			if err1 != nil || err2 != nil || ci == nil || oi == nil {
				ctx.Fail("L1", "multiix-member-without-index", fmt.Sprint(err1, err2), canon)
				bad = true
				break
			}
			members = append(members, c06xMember{ci: ci, oi: oi, numRows: rg.NumRows(), chunk: cc})
			pages := cc.Pages()
			for {
				p, err := pages.ReadPage()
				if err == io.EOF {
					break
				}
				if err != nil {
					ctx.Fail("L1", "multiix-cannot-read-page", err.Error(), canon)
					bad = true
					break
				}
				vals := make([]parquet.Value, p.NumValues())
				n, _ := p.Values().ReadValues(vals)
				for i := range vals[:n] {
					vals[i] = vals[i].Clone()
				}
				values = append(values, vals[:n])
				pageRows = append(pageRows, p.NumRows())
				pageNulls = append(pageNulls, p.NumNulls())
				parquet.Release(p)
			}
			pages.Close()
		}
		if bad {
			continue
		}
		nullPages := 0
		for _, m := range members {
			for i := 0; i < m.ci.NumPages(); i++ {
				if m.ci.NullPage(i) {
					nullPages++
				}
			}
		}
		ctx.Hist("multiix.null-pages", c06xBucket(nullPages))
		c06xCheck(ctx, "files", fmt.Sprintf("%s col=%d", canon, col), members, mcc, c06xProbes(members), values, pageRows, pageNulls, reqs, pend)
	}
}

// stand-in flavour --------------------------------------------------------------------------------------------------

func c06xStandinCase(ctx *core.Ctx, double bool, shape [][]int, reqs *[]string, pend *[]func(string), r *rand.Rand) {
	// shape: per member, per page: 0 = null page, 1 = bounds drawn around a running position so that members overlap,
	// touch or are disjoint, 2 = a page of NaNs only (DOUBLE members: bounds NaN, NaN)
	typ, schema, mk := parquet.Type(parquet.Int64Type), c06xSchema, parquet.Int64Value
	if double {
		typ, schema, mk = parquet.DoubleType, c06xSchemaF, func(v int64) parquet.Value { return parquet.DoubleValue(float64(v)) }
	}
	nan := parquet.DoubleValue(math.NaN())
	var members []c06xMember
	var rgs []parquet.RowGroup
	var sb strings.Builder
	sb.WriteString("multiix standin")
	if double {
		sb.WriteString(" double")
	}
	pos := int64(r.Intn(5) - 2)
	fileOff := int64(4)
	for _, pagesOf := range shape {
		x := &c06xColumnIndex{}
		o := &c06xOffsetIndex{}
		row := int64(0)
		sb.WriteString(" |")
		var smin, smax []int64
		memberNaN := false
		for _, code := range pagesOf {
			rows := int64(1 + r.Intn(5))
			size := int64(10 + r.Intn(90))
			o.offs, o.sizes, o.rows = append(o.offs, fileOff), append(o.sizes, size), append(o.rows, row)
			fileOff += size
			row += rows
			if code == 0 {
				x.nulls, x.counts = append(x.nulls, true), append(x.counts, rows)
				x.mins, x.maxs = append(x.mins, parquet.Value{}), append(x.maxs, parquet.Value{})
				smin, smax = append(smin, 0), append(smax, 0)
				sb.WriteString(" n")
				continue
			}
			if code == 2 {
				x.nulls, x.counts = append(x.nulls, false), append(x.counts, 0)
				x.mins, x.maxs = append(x.mins, nan), append(x.maxs, nan)
				memberNaN = true
				sb.WriteString(" nan")
				continue
			}
			lo := pos + int64(r.Intn(5)-1)
			hi := lo + int64(r.Intn(4))
			if r.Intn(8) == 0 {
				lo -= int64(r.Intn(6))
			}
			pos = hi + int64(r.Intn(3)) - 1
			x.nulls, x.counts = append(x.nulls, false), append(x.counts, int64(r.Intn(int(rows))))
			x.mins, x.maxs = append(x.mins, mk(lo)), append(x.maxs, mk(hi))
			smin, smax = append(smin, lo), append(smax, hi)
			fmt.Fprintf(&sb, " %d:%d", lo, hi)
		}
		// truthful flags in the writer's sense (null pages stored as the zero value), sometimes withheld
		asc := sort.SliceIsSorted(smin, func(i, j int) bool { return smin[i] < smin[j] }) && sort.SliceIsSorted(smax, func(i, j int) bool { return smax[i] < smax[j] })
		desc := sort.SliceIsSorted(smin, func(i, j int) bool { return smin[i] > smin[j] }) && sort.SliceIsSorted(smax, func(i, j int) bool { return smax[i] > smax[j] })
		// the float indexers claim no order with a NaN bound
		x.asc, x.desc = asc && !memberNaN && r.Intn(5) != 0, desc && !memberNaN && r.Intn(5) != 0
		numRows := row + int64(r.Intn(2))
		fmt.Fprintf(&sb, " a%sd%s rows=%v/%d off=%v size=%v nc=%v", c06xBit(x.asc), c06xBit(x.desc), o.rows, numRows, o.offs, o.sizes, x.counts)
		ch := &c06xChunk{typ: typ, ci: x, oi: o}
		members = append(members, c06xMember{ci: x, oi: o, numRows: numRows})
		rgs = append(rgs, &c06xRowGroup{schema: schema, chunk: ch, numRows: numRows})
	}
	multi := parquet.MultiRowGroup(rgs...)
	flavour := "standin"
	if double {
		flavour = "standin-double"
	}
	c06xCheck(ctx, flavour, sb.String(), members, multi.ColumnChunks()[0], c06xProbes(members), nil, nil, nil, reqs, pend)
}

func RunC06MultiIx(ctx *core.Ctx) {
	ctx.SetRule("multiColumnIndex + multiOffsetIndex of MultiRowGroup(...): members = the row groups of 1..3 generated files (int64 required and int32 optional column, 16..256-byte pages, no nulls / short null runs / null runs long enough for null pages / whole row groups null; ascending / ascending per row group / random / constant / descending values; flat or nested MultiRowGroup) or 2..5 stand-in row groups with 0..3 pages each (every arrangement of members without pages for 2 and 3 members, random beyond; INT64, and DOUBLE with NaN-bounded pages: Find compared with findViewF); every accessor asked for every page number -2 .. NumPages()+2, Find for probes at and next to every bound under both null orderings; distinct by canonical text, non-trivial = at least 2 members and 2 pages")
	d := ctx.Driver()
	var reqs []string
	var pend []func(string)
	flush := func(force bool) {
		if force || len(reqs) > 2000 {
			c06Flush(ctx, d, &reqs, &pend)
		}
	}
	r := ctx.Rand("c06multiix")
	// stand-ins, exhaustive shapes: 2 and 3 members of 0..2 pages, each page null or bounded
	var memberShapes [][]int
	memberShapes = append(memberShapes, nil)
	for a := 0; a < 2; a++ {
		memberShapes = append(memberShapes, []int{a})
		for b := 0; b < 2; b++ {
			memberShapes = append(memberShapes, []int{a, b})
		}
	}
	reps := ctx.Scale(3, 20)
	for _, a := range memberShapes {
		for _, b := range memberShapes {
			for k := 0; k < reps; k++ {
				c06xStandinCase(ctx, false, [][]int{a, b}, &reqs, &pend, r)
			}
			for _, c := range memberShapes {
				for k := 0; k < reps; k++ {
					c06xStandinCase(ctx, false, [][]int{a, b, c}, &reqs, &pend, r)
				}
			}
			flush(false)
		}
	}
	// stand-ins, random: 2..5 members, 0..3 pages
	n := ctx.Scale(12000, 150000)
	for i := 0; i < n; i++ {
		shape := make([][]int, 2+r.Intn(4))
		for m := range shape {
			if r.Intn(3) != 0 {
				shape[m] = make([]int, 1+r.Intn(3))
				for p := range shape[m] {
					if r.Intn(5) != 0 {
						shape[m][p] = 1
					}
				}
			}
		}
		double := i%3 == 2
		if double {
			for m := range shape {
				for p := range shape[m] {
					if r.Intn(6) == 0 {
						shape[m][p] = 2
					}
				}
			}
		}
		c06xStandinCase(ctx, double, shape, &reqs, &pend, r)
		flush(false)
	}
	flush(true)
	// DOUBLE stand-ins, exhaustive shapes: 2 members of 0..2 pages, each page null, bounded or NaN
	var fShapes [][]int
	fShapes = append(fShapes, nil)
	for a := 0; a < 3; a++ {
		fShapes = append(fShapes, []int{a})
		for b := 0; b < 3; b++ {
			fShapes = append(fShapes, []int{a, b})
		}
	}
	for _, a := range fShapes {
		for _, b := range fShapes {
			for k := 0; k < 2*reps; k++ {
				c06xStandinCase(ctx, true, [][]int{a, b}, &reqs, &pend, r)
			}
		}
		flush(false)
	}
	flush(true)
	// files
	nf := ctx.Scale(4000, 40000)
	for i := 0; i < nf; i++ {
		c06xFilesCase(ctx, r, &reqs, &pend)
		flush(false)
	}
	flush(true)
}
