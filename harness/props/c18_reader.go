package props

import (
	"bytes"
	"fmt"
	"io"
	"math/rand"
	"strings"
	"sync"

	"github.com/parquet-go/parquet-go"
	"github.com/parquet-go/parquet-go/format"

	"verifharness/core"
)

// Sub-check reader: a reader-side differential of its own. Exact histories of API calls
// (ReadPage, SeekToRow, ReadDictionary) on the real FilePages of one encrypted column chunk against
// the Lean mirror (AadReader.prun, op aad.prun):
//   * on the file as written every call must succeed (L1: the right keys read the file back) and
//     return the page, cut at the row, that the mirror returns (L2);
//   * with ONE module of the chunk damaged (a byte of its ciphertext flipped) the history must fail
//     at exactly the call at which the mirror opens that module — pages opened and dropped while
//     skipping to a row, the dictionary read out of band after a seek over it — and nowhere else.
// The second half ties the reader's walk over the modules to the model call by call; together with
// api_reader_ordinals_agree (every module the mirror opens is opened with its slot's arguments) and
// the AEAD (a module opens only under the AAD it was sealed with) it is the reader-side counterpart
// of the history sub-check.

func init() { RegisterSub("C18", "reader", RunC18Reader) }

type c18RRow struct {
	K int64 `parquet:"k,plain"` // the row number, PLAIN
	D int64 `parquet:"d,dict"`  // the row number, dictionary-encoded (falls back to PLAIN when the dictionary is full)
}

// c18RChunk is one column chunk of a written file as the walker sees it.
type c18RChunk struct {
	RG, Col  int
	HasDict  bool
	Rows     []int  // rows per data page
	DictEnc  []bool // per data page
	First    int64  // number of the first row of the row group in the file
	Mods     []c18Mod
	FirstRow []int
}

type c18RFile struct {
	Enc      *c18Enc
	Version  int
	PageBuf  int
	DictMax  int64
	Batch    int
	N        int
	MaxRows  int64
	Bloom    []string // columns with a bloom filter
	NoBounds string   // column written with SkipPageBounds (its chunks have no column index)
	Lay      *c18Layout
	Data     []byte
	Chunks   []*c18RChunk
	WriteErr error
}

func (f *c18RFile) desc() string {
	return fmt.Sprintf("rows=%d (k = d = row number) v%d PageBufferSize(%d) DictionaryMaxBytes(%d) MaxRowsPerRowGroup(%d) bloom filters %v SkipPageBounds(%q) Write calls of %d rows | %s",
		f.N, f.Version, f.PageBuf, f.DictMax, f.MaxRows, f.Bloom, f.NoBounds, f.Batch, f.Enc.Desc())
}

func c18RWrite(r *rand.Rand) *c18RFile {
	schema := parquet.SchemaOf(c18RRow{})
	f := &c18RFile{Enc: c18RandEnc(r, schema), Version: 1 + r.Intn(2), PageBuf: []int{24, 64, 200, 1000}[r.Intn(4)],
		DictMax: []int64{0, 0, 120, 400}[r.Intn(4)], Batch: []int{1, 3, 7, 16}[r.Intn(4)], N: []int{1, 2, 9, 40, 100, 257}[r.Intn(6)],
		MaxRows: []int64{0, 5, 50}[r.Intn(3)]}
	opts := []parquet.WriterOption{parquet.DataPageVersion(f.Version), parquet.PageBufferSize(f.PageBuf), parquet.WithEncryption(f.Enc.Config())}
	if f.DictMax > 0 {
		opts = append(opts, parquet.DictionaryMaxBytes(f.DictMax))
	}
	if f.MaxRows > 0 {
		opts = append(opts, parquet.MaxRowsPerRowGroup(f.MaxRows))
	}
	for _, col := range []string{"k", "d"} {
		if r.Intn(3) == 0 {
			f.Bloom = append(f.Bloom, col)
			opts = append(opts, parquet.BloomFilters(parquet.SplitBlockFilter(10, col)))
		}
	}
	if len(f.Bloom) == 2 { // BloomFilters replaces the list: both in one option
		opts = append(opts, parquet.BloomFilters(parquet.SplitBlockFilter(10, "k"), parquet.SplitBlockFilter(10, "d")))
	}
	if r.Intn(4) == 0 {
		f.NoBounds = []string{"k", "d"}[r.Intn(2)]
		opts = append(opts, parquet.SkipPageBounds(f.NoBounds))
	}
	rows := make([]c18RRow, f.N)
	for i := range rows {
		rows[i] = c18RRow{K: int64(i), D: int64(i)}
	}
	var buf bytes.Buffer
	func() {
		defer func() {
			if p := recover(); p != nil {
				f.WriteErr = fmt.Errorf("PANIC: %v", p)
			}
		}()
		w := parquet.NewGenericWriter[c18RRow](&buf, opts...)
		for i := 0; i < len(rows); i += f.Batch {
			if _, err := w.Write(rows[i:min(i+f.Batch, len(rows))]); err != nil {
				f.WriteErr = err
				return
			}
		}
		f.WriteErr = w.Close()
	}()
	if f.WriteErr != nil {
		return f
	}
	f.Data = buf.Bytes()
	lay, err := c18Parse(f.Data, f.Enc.Keys(), c18AAD)
	if err != nil {
		f.WriteErr = fmt.Errorf("walker: %w", err) // reported by the roundtrip sub-check
		return f
	}
	f.Lay = lay
	first := int64(0)
	for gi, rg := range lay.Meta.RowGroups {
		for ci := range rg.Columns {
			ch := &c18RChunk{RG: gi, Col: ci, First: first}
			for _, m := range lay.Mods {
				if m.RG != gi || m.Col != ci {
					continue
				}
				switch m.Kind {
				case "dictPageHeader":
					ch.HasDict = true
					ch.Mods = append(ch.Mods, m)
				case "dictPage", "dataPage":
					ch.Mods = append(ch.Mods, m)
				case "dataPageHeader":
					ch.Mods = append(ch.Mods, m)
					var h format.PageHeader
					if _, err := c18DecodePrefix(m.Plain, &h); err != nil {
						f.WriteErr = fmt.Errorf("page header of %v: %w", m, err)
						return f
					}
					switch h.Type {
					case format.DataPage:
						ch.Rows = append(ch.Rows, int(h.DataPageHeader.V.NumValues))
						ch.DictEnc = append(ch.DictEnc, h.DataPageHeader.V.Encoding == format.RLEDictionary || h.DataPageHeader.V.Encoding == format.PlainDictionary)
					case format.DataPageV2:
						ch.Rows = append(ch.Rows, int(h.DataPageHeaderV2.V.NumRows))
						ch.DictEnc = append(ch.DictEnc, h.DataPageHeaderV2.V.Encoding == format.RLEDictionary || h.DataPageHeaderV2.V.Encoding == format.PlainDictionary)
					}
				}
			}
			acc := 0
			for _, n := range ch.Rows {
				ch.FirstRow = append(ch.FirstRow, acc)
				acc += n
			}
			if len(ch.Rows) > 0 {
				f.Chunks = append(f.Chunks, ch)
			}
		}
		first += rg.NumRows
	}
	return f
}

type c18RHist struct {
	File    *c18RFile
	Chunk   *c18RChunk
	Indexed bool
	Ops     []string
	Damage  int // index into Chunk.Mods of the damaged module, -1 none, -2 a module of ANOTHER chunk
	Other   *c18Mod
	FlipAt  int
}

func (h *c18RHist) request() string {
	b := func(x bool) int {
		if x {
			return 1
		}
		return 0
	}
	var rows, enc []string
	for i, n := range h.Chunk.Rows {
		rows = append(rows, fmt.Sprint(n))
		enc = append(enc, fmt.Sprint(b(h.Chunk.DictEnc[i])))
	}
	return fmt.Sprintf("aad.prun %d %d %d %d %s %s %s", h.Chunk.RG, h.Chunk.Col, b(h.Chunk.HasDict), b(h.Indexed),
		strings.Join(rows, ","), strings.Join(enc, ","), strings.Join(h.Ops, " "))
}

func c18RRandOps(r *rand.Rand, ch *c18RChunk) []string {
	total := 0
	for _, n := range ch.Rows {
		total += n
	}
	var ops []string
	for k, n := 0, 1+r.Intn(8); k < n; k++ {
		switch x := r.Intn(20); {
		case x < 10:
			ops = append(ops, "r")
		case x < 17:
			row := r.Intn(total + 1)
			if r.Intn(2) == 0 { // around page boundaries
				p := r.Intn(len(ch.Rows))
				row = max(0, min(total, ch.FirstRow[p]+r.Intn(3)-1))
			}
			if r.Intn(12) == 0 {
				row = total + r.Intn(3)
			}
			ops = append(ops, fmt.Sprintf("s:%d", row))
		default:
			ops = append(ops, "d")
		}
	}
	return ops
}

// c18RRun runs the history on the real reader; one entry per call, stopping at the first error.
func c18RRun(h *c18RHist) (out []string, errs []error) {
	defer func() {
		if p := recover(); p != nil {
			out = append(out, "panic")
			errs = append(errs, fmt.Errorf("PANIC: %v", p))
		}
	}()
	data := h.File.Data
	if h.Damage != -1 {
		data = append([]byte{}, data...)
		data[h.FlipAt] ^= 0x20
	}
	opts := []parquet.FileOption{parquet.WithDecryption(h.File.Enc.Keys())}
	if !h.Indexed {
		opts = append(opts, parquet.SkipPageIndex(true))
	}
	f, err := parquet.OpenFile(bytes.NewReader(data), int64(len(data)), opts...)
	if err != nil {
		return []string{"open-error"}, []error{err}
	}
	ch := h.Chunk
	pages := f.RowGroups()[ch.RG].ColumnChunks()[ch.Col].Pages()
	defer pages.Close()
	for _, op := range h.Ops {
		switch {
		case op == "r":
			p, err := pages.ReadPage()
			if err == io.EOF {
				out = append(out, "eof")
				continue
			}
			if err != nil {
				return append(out, "error"), []error{err}
			}
			vals := make([]parquet.Value, 1)
			n, _ := p.Values().ReadValues(vals)
			if n == 0 {
				out = append(out, fmt.Sprintf("empty-page rows=%d", p.NumRows()))
				parquet.Release(p)
				continue
			}
			row := int(vals[0].Int64() - ch.First)
			pi := 0
			for pi+1 < len(ch.FirstRow) && ch.FirstRow[pi+1] <= row {
				pi++
			}
			cut := row - ch.FirstRow[pi]
			if int(p.NumRows()) != ch.Rows[pi]-cut {
				out = append(out, fmt.Sprintf("page:%d:%d with %d rows instead of %d", pi, cut, p.NumRows(), ch.Rows[pi]-cut))
			} else {
				out = append(out, fmt.Sprintf("page:%d:%d", pi, cut))
			}
			parquet.Release(p)
		case op == "d":
			fp, ok := pages.(*parquet.FilePages)
			if !ok {
				return append(out, "not-file-pages"), []error{fmt.Errorf("Pages() is a %T", pages)}
			}
			if _, err := fp.ReadDictionary(); err != nil {
				return append(out, "error"), []error{err}
			}
			out = append(out, "done")
		default:
			var row int64
			fmt.Sscanf(op, "s:%d", &row)
			if err := pages.SeekToRow(row); err != nil {
				return append(out, "error"), []error{err}
			}
			out = append(out, "done")
		}
	}
	return out, nil
}

func RunC18Reader(ctx *core.Ctx) {
	ctx.SetRule(c18Rule)
	d := ctx.Driver()
	if d == nil {
		return
	}
	r := ctx.Rand("c18/reader")
	var hists []*c18RHist
	for fi, nf := 0, ctx.Scale(60, 600); fi < nf; fi++ {
		f := c18RWrite(r)
		if f.WriteErr != nil {
			ctx.Hist("reader_outcome", "write-error") // the roundtrip sub-check reports write errors
			continue
		}
		for _, ch := range f.Chunks {
			for k := 0; k < 8; k++ {
				h := &c18RHist{File: f, Chunk: ch, Indexed: r.Intn(3) != 0, Ops: c18RRandOps(r, ch), Damage: -1}
				if k%2 == 1 {
					h.Damage = r.Intn(len(ch.Mods))
					m := ch.Mods[h.Damage]
					if r.Intn(8) == 0 && len(f.Chunks) > 1 { // a module of another chunk: this history must not notice
						o := f.Chunks[r.Intn(len(f.Chunks))]
						if o != ch {
							h.Damage, m = -2, o.Mods[r.Intn(len(o.Mods))]
							h.Other = &m
						}
					}
					h.FlipAt = m.Off + 4 + r.Intn(m.Len-4) // nonce, ciphertext or tag; the length prefix stays
				}
				hists = append(hists, h)
			}
		}
	}
	reqs := make([]string, len(hists))
	for i, h := range hists {
		reqs[i] = h.request()
	}
	ans, err := d.AskMany(reqs)
	if err != nil {
		ctx.Fail("L2", "driver-error", err.Error(), nil)
		return
	}
	var wg sync.WaitGroup
	sem := make(chan struct{}, 16)
	for i, h := range hists {
		wg.Add(1)
		sem <- struct{}{}
		go func(h *c18RHist, req, a string) {
			defer wg.Done()
			defer func() { <-sem }()
			c18RCompare(ctx, h, req, a)
		}(h, reqs[i], ans[i])
	}
	wg.Wait()
}

func c18RCompare(ctx *core.Ctx, h *c18RHist, req, a string) {
	ch := h.Chunk
	damaged := "none"
	switch {
	case h.Damage >= 0:
		damaged = fmt.Sprintf("%s:%d:%d:%d", ch.Mods[h.Damage].Kind, ch.RG, ch.Col, ch.Mods[h.Damage].Page)
	case h.Damage == -2:
		damaged = "other-chunk " + h.Other.String()
	}
	sig := fmt.Sprintf("column=%s indexed=%v", []string{"plain", "dict"}[ch.Col], h.Indexed)
	detail := map[string]any{"file": h.File.desc(), "row_group": ch.RG, "column": []string{"k", "d"}[ch.Col], "rows_per_data_page": fmt.Sprint(ch.Rows),
		"page_is_dictionary_encoded": fmt.Sprint(ch.DictEnc), "has_dictionary_page": ch.HasDict, "offset_index_loaded": h.Indexed,
		"calls": strings.Join(h.Ops, " ") + "   (r = ReadPage, s:<row> = SeekToRow(row), d = ReadDictionary; on Pages() of the column chunk; SkipPageIndex(true) when the offset index is not loaded)",
		"damaged_module": damaged, "flipped_byte_offset": h.FlipAt, "model_request": req, "model_answer": a}
	ctx.Case(fmt.Sprintf("reader|%s|rg%d col%d|indexed=%v|%v|damage=%s@%d", h.File.desc(), ch.RG, ch.Col, h.Indexed, h.Ops, damaged, h.FlipAt),
		len(ch.Rows) >= 2 && len(h.Ops) >= 2)
	ctx.Hist("reader_pages", c18Bucket(len(ch.Rows)))
	ctx.Hist("reader_chunk", fmt.Sprintf("dict=%v indexed=%v", ch.HasDict, h.Indexed))
	parts := strings.Fields(a)
	if len(parts) != 4 || parts[0] != "ok" {
		ctx.Fail("L2", "driver-answer", "the model refused an aad.prun request", detail)
		return
	}
	if parts[3] != "1" {
		ctx.Fail("L2", "reader-model-opens-with-other-arguments", "the mirror opens a module with other AAD arguments than its slot's (contradicts api_reader_ordinals_agree)", detail)
	}
	type mres struct {
		text string
		upto int
	}
	var model []mres
	if parts[1] != "-" {
		for _, t := range strings.Split(parts[1], ",") {
			i := strings.LastIndex(t, ":")
			var n int
			fmt.Sscan(t[i+1:], &n)
			model = append(model, mres{t[:i], n})
		}
	}
	var slots []string
	if parts[2] != "-" {
		slots = strings.Split(parts[2], ",")
	}
	// the call at which the model opens the damaged module for the first time
	failAt := -1
	if h.Damage >= 0 {
		for si, s := range slots {
			if s == damaged {
				for ci, m := range model {
					if si < m.upto {
						failAt = ci
						break
					}
				}
				break
			}
		}
	}
	var want []string
	for ci, m := range model {
		if ci == failAt {
			want = append(want, "error")
			break
		}
		want = append(want, m.text)
	}
	got, errs := c18RRun(h)
	detail["real"], detail["expected_from_model"] = strings.Join(got, " "), strings.Join(want, " ")
	if len(errs) > 0 {
		detail["error"] = errs[0].Error()
	}
	for _, s := range slots {
		ctx.Hist("reader_opens", strings.SplitN(s, ":", 2)[0])
	}
	switch {
	case h.Damage == -1:
		ctx.Hist("reader_outcome", "intact")
	case failAt >= 0:
		ctx.Hist("reader_outcome", "damaged-module-opened")
	default:
		ctx.Hist("reader_outcome", "damaged-module-not-touched")
	}
	// L1: the file as written (or damaged only where this history does not look), the right keys: no call may fail
	if len(errs) > 0 && h.Damage == -1 {
		ctx.Fail("L1", "reader-history-error "+sig+" "+c18ErrKind(errs[0]), "a call on the page reader of an encrypted column chunk fails although file and keys are right: "+errs[0].Error(), detail)
		return
	}
	if len(errs) > 0 && c18ErrKind(errs[0]) == "panic" {
		ctx.Fail("L1", "reader-history-panic "+sig, "the page reader panics: "+errs[0].Error(), detail)
		return
	}
	if strings.Join(got, " ") != strings.Join(want, " ") {
		key := "reader-history-differs "
		what := "the page reader returns other pages than the Lean mirror of ReadPage/SeekToRow/ReadDictionary (AadReader.prun)"
		if h.Damage != -1 {
			key = "reader-damaged-module-differs "
			what = "with one module of the file damaged, the history fails at another call than the one at which the Lean mirror opens that module (or does not fail / fails without cause): the reader walks over other modules than the mirror"
		}
		ctx.Fail("L2", key+sig, what, detail)
	}
}
