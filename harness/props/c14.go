package props

// C14 — I/O failures and truncated files are always reported, never silently absorbed.
//
//   sink      L1 fault enumeration on the destination io.Writer (every write boundary ±1 and random
//             offsets in the quick tier, every byte offset in the thorough tier; full failure and
//             short write; positional and sticky sinks; buffered and unbuffered twin of every
//             configuration) + L2: which call reports first / how many bytes the sink holds then /
//             the whole sink trace of the buffered twin, against the Lean model run on the write
//             plan recorded from the unbuffered twin.
//   bufio     L2 of the bufio.Writer mirror alone (real bufio over the same fault sink).
//   truncate  every strict prefix of every produced file is rejected by OpenFile or by the first read
//             that needs the missing bytes; L2 of the trailer stage against `open.model`.
//   readat    an io.ReaderAt failing / short-reading at call index i, for every i of open + full read,
//             under read histories (sequential, seeks, CopyRows / ReadRowsFrom, dictionary first,
//             point lookups: bloom filter probes of present keys and lazily read page indexes).
//   copysrc   (c14_copysrc.go) the source of Writer.WriteRowGroup fails.
//   compose   (c14_compose.go) one input fails under the composite readers (merges, MultiRowGroup,
//             ConvertRowGroup, reader adaptors, typed readers); L1 + L2 of the two-way merge over
//             scripted sources and of the lazy bloom probe.

import (
	"bufio"
	"bytes"
	"encoding/binary"
	"encoding/hex"
	"encoding/json"
	"errors"
	"fmt"
	"io"
	"math/rand"
	"os"
	"reflect"
	"runtime/debug"
	"sort"
	"strings"
	"sync"
	"sync/atomic"
	"time"

	"github.com/parquet-go/parquet-go"
	"github.com/parquet-go/parquet-go/bloom"
	"github.com/parquet-go/parquet-go/encoding/thrift"
	"github.com/parquet-go/parquet-go/format"

	"verifharness/core"
	"verifharness/drv"
	"verifharness/gen"
)

func init() {
	RegisterSub("C14", "sink", RunC14Sink)
	RegisterSub("C14", "bufio", RunC14Bufio)
	RegisterSub("C14", "truncate", RunC14Truncate)
	RegisterSub("C14", "readat", RunC14ReadAt)
}

const c14Rule = "configurations (catalogue types x gen.RandWriterCfg, and a local row type with bloom filters, deferred bloom buffers, file/chunk page-buffer pools, every codec, SortingWriter, WriteRowGroup copy path, encryption) x {unbuffered, buffered} x fault offset x {full failure, short write} x {positional = capacity, sticky, one-shot = transient}; prefixes of every produced file; ReaderAt faults at every call index; non-trivial = the fault lies strictly inside the file (not at byte 0, not in the last 8 bytes) resp. the prefix keeps at least the header magic resp. the failing read is not the first one"

// ---------------------------------------------------------------- replay of one recorded case

type c14Replay struct {
	Tier   string         `json:"tier"`
	Seed   int64          `json:"seed"`
	Key    string         `json:"key"`
	Detail map[string]any `json:"detail"`
}

// c14LoadReplay reads the replay file (if any) and restores the tier and seed the configurations
// were derived from. The case itself is re-run by the sub-check that owns it.
func c14LoadReplay(ctx *core.Ctx) *c14Replay {
	if ctx.Replay == "" {
		return nil
	}
	b, err := os.ReadFile(ctx.Replay)
	rp := &c14Replay{}
	if err == nil {
		err = json.Unmarshal(b, rp)
	}
	if err != nil {
		ctx.Fail("L2", "replay-unreadable", "cannot read the replay file: "+err.Error(), nil)
		return &c14Replay{Detail: map[string]any{}}
	}
	if rp.Tier != "" {
		ctx.Tier = rp.Tier
	}
	if rp.Seed != 0 {
		ctx.Seed = rp.Seed
	}
	if rp.Detail == nil {
		rp.Detail = map[string]any{}
	}
	return rp
}

func (rp *c14Replay) str(k string) string { s, _ := rp.Detail[k].(string); return s }
func (rp *c14Replay) num(k string) (int, bool) {
	f, ok := rp.Detail[k].(float64)
	return int(f), ok
}

// ---------------------------------------------------------------- fault sink (same semantics as IoFault.faultSink)

var errC14Injected = errors.New("c14: injected I/O fault")

type c14W struct {
	call int
	len  int
	n    int
	err  bool
	str  bool
}

type c14Sink struct {
	data     []byte
	k        int // byte index that cannot be stored; -1 = none
	failCall int // index of the Write call that fails (call* modes); -1 = none
	nwrites  int
	short    bool
	sticky   bool
	oneshot  bool // transient: only the first write that would cross k fails, later writes are accepted
	failed   bool
	call     int
	trace    []c14W
	// first failure
	heldAtFail int
	noTrace    bool
}

func newC14Sink(k int, mode string) *c14Sink {
	s := &c14Sink{k: k, failCall: -1, heldAtFail: -1}
	switch mode {
	// fault points per Write call: the k-th Write call of the destination fails whatever its
	// offset and length (rejected whole, or half of it accepted), once or from then on
	case "call":
		s.k, s.failCall = -1, k
	case "callshort":
		s.k, s.failCall, s.short = -1, k, true
	case "callsticky":
		s.k, s.failCall, s.sticky = -1, k, true
	case "full", "capacity": // positional: a later smaller write that still fits below k is accepted
	case "short":
		s.short = true
	case "oneshot":
		s.oneshot = true
	case "oneshotshort":
		s.oneshot, s.short = true, true
	case "fullsticky":
		s.sticky = true
	case "shortsticky":
		s.short, s.sticky = true, true
	default:
		panic("c14: unknown mode " + mode)
	}
	return s
}

func (s *c14Sink) setCall(i int) { s.call = i }

func (s *c14Sink) write(p []byte, str bool) (int, error) {
	n, failed := len(p), false
	idx := s.nwrites
	s.nwrites++
	switch {
	case s.sticky && s.failed:
		n, failed = 0, true
	case s.failCall >= 0:
		if idx == s.failCall {
			n, failed = 0, true
			if s.short {
				n = len(p) / 2
			}
		}
	case s.oneshot && s.failed:
	case s.k < 0 || len(s.data)+len(p) <= s.k:
	case s.short:
		n, failed = s.k-len(s.data), true
	default:
		n, failed = 0, true
	}
	if failed && s.heldAtFail < 0 {
		s.heldAtFail = len(s.data) + n
	}
	s.data = append(s.data, p[:n]...)
	if !s.noTrace {
		s.trace = append(s.trace, c14W{s.call, len(p), n, failed, str})
	}
	if failed {
		s.failed = true
		return n, errC14Injected
	}
	return n, nil
}

func (s *c14Sink) Write(p []byte) (int, error) { return s.write(p, false) }

// c14StrSink additionally tells io.WriteString apart (recording runs of the unbuffered twin only)
type c14StrSink struct{ *c14Sink }

func (s c14StrSink) WriteString(x string) (int, error) { return s.write([]byte(x), true) }

type c14Dest interface {
	io.Writer
	setCall(int)
}

// ---------------------------------------------------------------- API-call histories

type c14Call struct {
	name      string
	err       error
	panicked  string
	heldAfter int
}

type c14Env struct {
	dest  c14Dest
	sink  *c14Sink
	opts  []parquet.WriterOption // appended last (write buffer override)
	calls []c14Call
	dead  bool // a call panicked: stop
	fail  bool // a call returned an error: skip to Close
}

// call runs one API call under recover; Write/Flush calls after a reported error are skipped
// (the caller's `defer w.Close()` still runs).
func (e *c14Env) call(name string, isClose bool, f func() error) {
	if e.dead || (e.fail && !isClose) {
		return
	}
	e.dest.setCall(len(e.calls))
	c := c14Call{name: name}
	func() {
		defer func() {
			if r := recover(); r != nil {
				c.panicked = fmt.Sprintf("%v\n%s", r, c14Stack())
			}
		}()
		c.err = f()
	}()
	c.heldAfter = len(e.sink.data)
	if c.panicked != "" {
		e.dead = true
	}
	if c.err != nil {
		e.fail = true
	}
	e.calls = append(e.calls, c)
}

func c14Stack() string {
	s := string(debug.Stack())
	lines := strings.Split(s, "\n")
	var keep []string
	for _, l := range lines {
		if strings.Contains(l, "parquet-go") && !strings.Contains(l, "verif/harness") {
			keep = append(keep, strings.TrimSpace(l))
		}
		if len(keep) >= 6 {
			break
		}
	}
	return strings.Join(keep, " | ")
}

type c14Config struct {
	name       string
	desc       string
	path       string // generic | reflect | rows | opaque-* | sorting | copy
	run        func(e *c14Env)
	bufSize    int  // size of the buffered twin (0 = library default)
	l2buffered bool // the buffered sink trace is predictable from the unbuffered op trace (no ReadFrom paths)
	nondet     bool // file bytes differ from run to run (encryption nonces): sizes only
	nrows      int
	fileOpts   []parquet.FileOption
}

// the local row type of the special configurations
type c14Row struct {
	K int64   `parquet:"k"`
	S string  `parquet:"s,dict"`
	V []byte  `parquet:"v,plain"`
	O *int32  `parquet:"o,optional"`
	L []int64 `parquet:"l,list"`
}

type c14Dict struct {
	Name string `parquet:"name,dict"`
}

func c14Rows(r *rand.Rand, n int) []c14Row {
	rows := make([]c14Row, n)
	for i := range rows {
		rows[i].K = int64(r.Intn(1000)) - 500
		rows[i].S = []string{"", "a", "bb", "parquet", "a longer string value that repeats"}[r.Intn(5)]
		v := make([]byte, []int{0, 1, 7, 33, 200}[r.Intn(5)])
		for j := range v {
			v[j] = byte(r.Intn(256))
			if v[j] == 'P' { // keep "PAR1" out of random payloads: the residual case is generated on purpose
				v[j] = 'Q'
			}
		}
		rows[i].V = v
		if r.Intn(3) > 0 {
			x := int32(r.Intn(100))
			rows[i].O = &x
		}
		for j := r.Intn(4); j > 0; j-- {
			rows[i].L = append(rows[i].L, int64(r.Intn(10)))
		}
	}
	return rows
}

func c14GenericSteps[T any](rows []T, batches []int, opts ...parquet.WriterOption) func(e *c14Env) {
	return func(e *c14Env) {
		var w *parquet.GenericWriter[T]
		e.call("New", false, func() error {
			w = parquet.NewGenericWriter[T](e.dest, append(append([]parquet.WriterOption{}, opts...), e.opts...)...)
			return nil
		})
		if w == nil {
			return
		}
		rs := rows
		for _, b := range batches {
			if b == 0 {
				e.call("Flush", false, w.Flush)
				continue
			}
			if b > len(rs) {
				b = len(rs)
			}
			if b > 0 {
				part := rs[:b]
				e.call("Write", false, func() error { _, err := w.Write(part); return err })
			}
			rs = rs[b:]
		}
		if len(rs) > 0 {
			e.call("Write", false, func() error { _, err := w.Write(rs); return err })
		}
		e.call("Close", true, w.Close)
	}
}

func c14SortingSteps(rows []c14Row, batches []int, sortRows int64, opts ...parquet.WriterOption) func(e *c14Env) {
	return func(e *c14Env) {
		var w *parquet.SortingWriter[c14Row]
		e.call("New", false, func() error {
			w = parquet.NewSortingWriter[c14Row](e.dest, sortRows, append(append([]parquet.WriterOption{}, opts...), e.opts...)...)
			return nil
		})
		if w == nil {
			return
		}
		rs := rows
		for _, b := range batches {
			if b > len(rs) {
				b = len(rs)
			}
			if b > 0 {
				part := rs[:b]
				e.call("Write", false, func() error { _, err := w.Write(part); return err })
			}
			rs = rs[b:]
		}
		if len(rs) > 0 {
			e.call("Write", false, func() error { _, err := w.Write(rs); return err })
		}
		e.call("Close", true, w.Close)
	}
}

// Writer.Write(any) row by row (reflection), Flush at batch boundaries, Close
func c14ReflectSteps(schema *parquet.Schema, rows reflect.Value, batches []int, opts ...parquet.WriterOption) func(e *c14Env) {
	return func(e *c14Env) {
		var w *parquet.Writer
		e.call("New", false, func() error {
			w = parquet.NewWriter(e.dest, append(append([]parquet.WriterOption{schema}, opts...), e.opts...)...)
			return nil
		})
		if w == nil {
			return
		}
		i := 0
		for _, b := range batches {
			if b == 0 {
				e.call("Flush", false, w.Flush)
				continue
			}
			for ; b > 0 && i < rows.Len(); b, i = b-1, i+1 {
				row := rows.Index(i).Addr().Interface()
				e.call("Write", false, func() error { return w.Write(row) })
			}
		}
		for ; i < rows.Len(); i++ {
			row := rows.Index(i).Addr().Interface()
			e.call("Write", false, func() error { return w.Write(row) })
		}
		e.call("Close", true, w.Close)
	}
}

// Schema.Deconstruct then Writer.WriteRows in batches
func c14RowsSteps(schema *parquet.Schema, rows reflect.Value, batches []int, opts ...parquet.WriterOption) func(e *c14Env) {
	return func(e *c14Env) {
		var w *parquet.Writer
		e.call("New", false, func() error {
			w = parquet.NewWriter(e.dest, append(append([]parquet.WriterOption{schema}, opts...), e.opts...)...)
			return nil
		})
		if w == nil {
			return
		}
		var prs []parquet.Row
		for i := 0; i < rows.Len(); i++ {
			prs = append(prs, schema.Deconstruct(nil, rows.Index(i).Addr().Interface()))
		}
		for _, b := range batches {
			if b == 0 {
				e.call("Flush", false, w.Flush)
				continue
			}
			if b > len(prs) {
				b = len(prs)
			}
			if b > 0 {
				part := prs[:b]
				e.call("WriteRows", false, func() error { _, err := w.WriteRows(part); return err })
			}
			prs = prs[b:]
		}
		if len(prs) > 0 {
			e.call("WriteRows", false, func() error { _, err := w.WriteRows(prs); return err })
		}
		e.call("Close", true, w.Close)
	}
}

// c14Wrap puts one of the library's RowWriter adaptors in front of w and says how many of the rows
// reach w. The adaptors sit between the application and the writer, so an error of the destination
// has to come out of *their* WriteRows.
func c14Wrap(kind string, w parquet.RowWriter, rows []parquet.Row) (rw parquet.RowWriter, kept int) {
	keep := func(row parquet.Row) bool { return len(row) > 0 && row[0].Int64()%5 != 0 }
	switch kind {
	case "filter":
		for _, row := range rows {
			if keep(row) {
				kept++
			}
		}
		return parquet.FilterRowWriter(w, keep), kept
	case "transform":
		for _, row := range rows {
			if keep(row) {
				kept++
			}
		}
		return parquet.TransformRowWriter(w, func(dst, src parquet.Row) (parquet.Row, error) {
			if !keep(src) {
				return dst, nil
			}
			return append(dst, src...), nil
		}), kept
	case "dedupe":
		cmp := func(a, b parquet.Row) int {
			switch x, y := a[0].Int64(), b[0].Int64(); {
			case x < y:
				return -1
			case x > y:
				return 1
			}
			return 0
		}
		for i, row := range rows {
			if i == 0 || cmp(rows[i-1], row) != 0 {
				kept++
			}
		}
		return parquet.DedupeRowWriter(w, cmp), kept
	case "multi":
		return parquet.MultiRowWriter(w), len(rows)
	}
	panic("c14: unknown adaptor " + kind)
}

// a RowWriter adaptor of the library (FilterRowWriter, TransformRowWriter, DedupeRowWriter,
// MultiRowWriter) in front of a Writer: WriteRows on the adaptor in batches (or one parquet.CopyRows
// into it), Close on the writer. Only a non-nil error counts as a report.
func c14WrapSteps(kind string, copyRows bool, schema *parquet.Schema, prs []parquet.Row, batches []int, opts ...parquet.WriterOption) func(e *c14Env) {
	return func(e *c14Env) {
		var w *parquet.Writer
		var rw parquet.RowWriter
		e.call("New", false, func() error {
			w = parquet.NewWriter(e.dest, append(append([]parquet.WriterOption{schema}, opts...), e.opts...)...)
			rw, _ = c14Wrap(kind, w, prs)
			return nil
		})
		if w == nil {
			return
		}
		rest := prs
		if copyRows {
			e.call("CopyRows", false, func() error {
				i := 0
				_, err := parquet.CopyRows(rw, parquet.RowReaderFunc(func(buf []parquet.Row) (int, error) {
					n := 0
					for n < len(buf) && n < 7 && i < len(rest) {
						buf[n] = append(buf[n][:0], rest[i]...)
						n, i = n+1, i+1
					}
					if i == len(rest) {
						return n, io.EOF
					}
					return n, nil
				}))
				return err
			})
		} else {
			for _, b := range batches {
				if b > len(rest) {
					b = len(rest)
				}
				if b > 0 {
					part := rest[:b]
					e.call("WriteRows", false, func() error { _, err := rw.WriteRows(part); return err })
				}
				rest = rest[b:]
			}
			if len(rest) > 0 {
				e.call("WriteRows", false, func() error { _, err := rw.WriteRows(rest); return err })
			}
		}
		e.call("Close", true, w.Close)
	}
}

// WriteRowGroup of every row group of a source file (verbatim copy path when the options allow it)
func c14CopySteps(src []byte, opts ...parquet.WriterOption) func(e *c14Env) {
	return func(e *c14Env) {
		f, err := parquet.OpenFile(bytes.NewReader(src), int64(len(src)))
		if err != nil {
			panic("c14: source file does not open: " + err.Error())
		}
		var w *parquet.Writer
		e.call("New", false, func() error {
			w = parquet.NewWriter(e.dest, append(append([]parquet.WriterOption{f.Schema()}, opts...), e.opts...)...)
			return nil
		})
		if w == nil {
			return
		}
		for _, rg := range f.RowGroups() {
			rg := rg
			e.call("WriteRowGroup", false, func() error { _, err := w.WriteRowGroup(rg); return err })
		}
		e.call("Close", true, w.Close)
	}
}

// the opaque closures of the catalogue: one pseudo call (errors of Write/Flush/Close are merged)
func c14Opaque(f func(w io.Writer, opts ...parquet.WriterOption) error) func(e *c14Env) {
	return func(e *c14Env) {
		e.call("all", true, func() error {
			err := f(e.dest, e.opts...)
			if err != nil && strings.HasPrefix(err.Error(), "PANIC: ") {
				panic(err.Error())
			}
			return err
		})
	}
}

var c14TempDir string
var c14TempMu sync.Mutex

func c14Temp() string {
	c14TempMu.Lock()
	defer c14TempMu.Unlock()
	if c14TempDir == "" {
		d, err := os.MkdirTemp("", "c14-pages-")
		if err != nil {
			panic(err)
		}
		c14TempDir = d
	}
	return c14TempDir
}

func c14TempCleanup() {
	c14TempMu.Lock()
	defer c14TempMu.Unlock()
	if c14TempDir != "" {
		os.RemoveAll(c14TempDir)
		c14TempDir = ""
	}
}

type c14Keys struct {
	key  []byte
	cols map[string][]byte // keys of the columns that have one of their own, by dotted path
}

func (k c14Keys) FooterKey([]byte) ([]byte, error) { return k.key, nil }
func (k c14Keys) ColumnKey(path []string, _ []byte) ([]byte, error) {
	if ck, ok := k.cols[strings.Join(path, ".")]; ok {
		return ck, nil
	}
	return k.key, nil
}

func c14Configs(ctx *core.Ctx) []*c14Config {
	r := ctx.Rand("c14/configs")
	var out []*c14Config
	add := func(c *c14Config) { out = append(out, c) }

	// --- catalogue types x RandWriterCfg
	ncat := ctx.Scale(8, 16)
	for i := 0; i < ncat && len(gen.Catalog) > 0; i++ {
		e := gen.Catalog[r.Intn(len(gen.Catalog))]
		n := []int{1, 3, 9, 20, 40}[r.Intn(5)]
		prof := &gen.Profile{NullProb: []float64{0.1, 0.5}[r.Intn(2)], MaxLen: 1 + r.Intn(3), SmallDomain: r.Intn(2) == 0}
		rows := e.NewRows(n)
		gen.FillRows(r, rows, prof)
		cfg := gen.RandWriterCfg(r)
		batches := c01Batches(r, n)
		buf := []int{0, 1, 7, 64, 100}[r.Intn(5)]
		if cfg.WriteBuf > 0 {
			buf = cfg.WriteBuf
		}
		c := &c14Config{name: fmt.Sprintf("cat%02d-%s", i, e.Name), bufSize: buf, l2buffered: true, nrows: n}
		switch i % 4 {
		case 0, 1:
			c.path = "reflect"
			c.run = c14ReflectSteps(e.Schema, rows, batches, cfg.Opts...)
		case 2:
			c.path = "rows"
			c.run = c14RowsSteps(e.Schema, rows, batches, cfg.Opts...)
		default:
			c.path = "opaque-generic"
			ri := rows.Interface()
			c.run = c14Opaque(func(w io.Writer, extra ...parquet.WriterOption) error {
				return e.WriteGeneric(w, ri, batches, append(append([]parquet.WriterOption{}, cfg.Opts...), extra...)...)
			})
		}
		c.desc = fmt.Sprintf("%s path=%s rows=%d batches=%v %s buf=%d", e.Name, c.path, n, batches, cfg.Desc, buf)
		add(c)
	}
	// the other ingestion paths of the catalogue (opaque)
	if len(gen.Catalog) > 0 {
		for i, kind := range []string{"generic-buffer", "row-buffer"} {
			e := gen.Catalog[r.Intn(len(gen.Catalog))]
			n := 12
			rows := e.NewRows(n)
			gen.FillRows(r, rows, &gen.Profile{NullProb: 0.3, MaxLen: 2})
			cfg := gen.RandWriterCfg(r)
			ri := rows.Interface()
			c := &c14Config{name: fmt.Sprintf("buf%02d-%s", i, e.Name), path: "opaque-" + kind, bufSize: 16, l2buffered: true, nrows: n}
			if kind == "generic-buffer" {
				c.run = c14Opaque(func(w io.Writer, extra ...parquet.WriterOption) error {
					return e.WriteGenericBuffer(w, ri, nil, append(append([]parquet.WriterOption{}, cfg.Opts...), extra...)...)
				})
			} else {
				c.run = c14Opaque(func(w io.Writer, extra ...parquet.WriterOption) error {
					return e.WriteRowBuffer(w, ri, append(append([]parquet.WriterOption{}, cfg.Opts...), extra...)...)
				})
			}
			c.desc = fmt.Sprintf("%s path=%s rows=%d %s buf=16", e.Name, c.path, n, cfg.Desc)
			add(c)
		}
	}

	// --- the local row type
	rows := c14Rows(r, 40)
	local := func(name, desc string, buf int, l2 bool, batches []int, opts ...parquet.WriterOption) *c14Config {
		c := &c14Config{name: name, path: "generic", bufSize: buf, l2buffered: l2, nrows: len(rows),
			run: c14GenericSteps(rows, batches, opts...)}
		c.desc = fmt.Sprintf("c14Row path=generic rows=%d batches=%v %s buf=%d", len(rows), batches, desc, buf)
		add(c)
		return c
	}
	bloom := parquet.BloomFilters(parquet.SplitBlockFilter(10, "s"), parquet.SplitBlockFilter(8, "k"))
	local("defaults", "defaults", 0, true, []int{40})
	local("small-pages", "v2 pagebuf=64 maxrows=9", 13, true, []int{7, 0, 20}, parquet.DataPageVersion(2), parquet.PageBufferSize(64), parquet.MaxRowsPerRowGroup(9))
	local("v1-stats", "v1 pagebuf=300 stats", 100, true, []int{15, 15}, parquet.DataPageVersion(1), parquet.PageBufferSize(300), parquet.DataPageStatistics(true))
	local("bloom", "bloom(s,k) maxrows=15", 50, true, []int{40}, bloom, parquet.MaxRowsPerRowGroup(15))
	local("bloom-deferred", "bloom(s,k) deferred(memory) maxrows=15", 50, true, []int{40}, bloom, parquet.MaxRowsPerRowGroup(15),
		parquet.DeferBloomFiltersWithBuffers(parquet.NewBufferPool()))
	local("bloom-deferred-gzip", "bloom(s,k) deferred(chunk 32) gzip-bloom maxrows=25", 9, true, []int{40}, bloom, parquet.MaxRowsPerRowGroup(25),
		parquet.DeferBloomFiltersWithBuffers(parquet.NewChunkBufferPool(32)), parquet.BloomFilterCompression(&parquet.Gzip))
	local("bloom-deferred-file", "bloom(s,k) deferred(file pool) maxrows=25", 64, false, []int{40}, bloom, parquet.MaxRowsPerRowGroup(25),
		parquet.DeferBloomFiltersWithBuffers(parquet.NewFileBufferPool(c14Temp(), "bloom-*")))
	local("pages-file-pool", "page buffers in files, pagebuf=128 maxrows=20", 32, false, []int{40},
		parquet.ColumnPageBuffers(parquet.NewFileBufferPool(c14Temp(), "page-*")), parquet.PageBufferSize(128), parquet.MaxRowsPerRowGroup(20))
	local("pages-chunk-pool", "page buffers in 16-byte chunks, pagebuf=100", 10, true, []int{13, 27},
		parquet.ColumnPageBuffers(parquet.NewChunkBufferPool(16)), parquet.PageBufferSize(100))
	for _, cn := range gen.CodecNames[1:] {
		local("codec-"+cn, "codec="+cn+" pagebuf=256", []int{0, 5, 40, 1000}[r.Intn(4)], true, []int{40},
			parquet.Compression(gen.Codecs[cn]), parquet.PageBufferSize(256))
	}
	key := []byte("0123456789abcdef")
	for _, encFooter := range []bool{true, false} {
		c := local(fmt.Sprintf("encrypted-footer=%v", encFooter), fmt.Sprintf("encryption encryptedFooter=%v bloom maxrows=25", encFooter), 40, true, []int{40},
			parquet.WithEncryption(&parquet.EncryptionConfig{FooterKey: key, EncryptedFooter: encFooter, FileIdentifier: []byte("fileid00")}),
			bloom, parquet.MaxRowsPerRowGroup(25))
		c.nondet = true
		c.fileOpts = []parquet.FileOption{parquet.WithDecryption(c14Keys{key: key})}
	}
	// encrypted columns spread over many small pages (with and without a dictionary page), columns
	// with a key of their own (16 and 32 bytes) next to columns under the footer key, both page
	// versions, both footer modes: every page is a pair of length-prefixed envelopes, the readat
	// sub-check ends the source on each of their seams. (AES_GCM_CTR_V1 is not implemented by the
	// library: NewWriter panics with "not yet implemented".)
	for i, encFooter := range []bool{true, false} {
		colKeys := map[string][]byte{"v": []byte("fedcba9876543210"), "s": []byte("0123456789abcdef0123456789abcdef")}
		c := local(fmt.Sprintf("encrypted-pages-footer=%v", encFooter), fmt.Sprintf("encryption encryptedFooter=%v column keys(v,s) v%d pagebuf=96 maxrows=25", encFooter, 1+i), 40, true, []int{40},
			parquet.WithEncryption(&parquet.EncryptionConfig{FooterKey: key, ColumnKeys: colKeys, EncryptedFooter: encFooter, FileIdentifier: []byte("fileid01")}),
			parquet.DataPageVersion(1+i), parquet.PageBufferSize(96), parquet.MaxRowsPerRowGroup(25))
		c.nondet = true
		c.fileOpts = []parquet.FileOption{parquet.WithDecryption(c14Keys{key: key, cols: colKeys})}
	}
	// one dictionary-encoded column spread over many pages of one row group (a SeekToRow into a
	// later page loads the dictionary lazily)
	{
		drows := make([]c14Dict, 300)
		for i := range drows {
			drows[i].Name = fmt.Sprintf("value-%03d", i%37)
		}
		var batches []int
		for i := 0; i < len(drows); i += 20 {
			batches = append(batches, 20)
		}
		c := &c14Config{name: "dict-many-pages", path: "generic", bufSize: 256, l2buffered: true, nrows: len(drows),
			run: c14GenericSteps(drows, batches, parquet.PageBufferSize(64))}
		c.desc = "c14Dict{name string dict} path=generic rows=300 batches=20x15 pagebuf=64 buf=256"
		add(c)
	}
	// SortingWriter
	{
		sortOpt := parquet.SortingWriterConfig(parquet.SortingColumns(parquet.Ascending("k")))
		// NewSortingWriter hands its configuration on as a *WriterConfig, whose merge treats
		// WriteBufferSize 0 as "unset": the "unbuffered" twin is buffered with the default size.
		c := &c14Config{name: "sorting", path: "sorting", bufSize: 20, l2buffered: false, nrows: len(rows),
			run: c14SortingSteps(rows, []int{11, 11, 11}, 10, sortOpt, parquet.PageBufferSize(200))}
		c.desc = "c14Row path=sorting-writer rows=40 batches=[11 11 11] sortRowCount=10 sort=k pagebuf=200 buf=20"
		add(c)
	}
	// the RowWriter adaptors of the library in front of a Writer whose row groups are flushed from
	// inside WriteRows (MaxRowsPerRowGroup): the destination fails while the adaptor is the caller
	{
		schema := parquet.SchemaOf(c14Row{})
		srows := append([]c14Row{}, rows...)
		sort.SliceStable(srows, func(i, j int) bool { return srows[i].K/40 < srows[j].K/40 })
		for i := range srows {
			srows[i].K = srows[i].K / 40 // few distinct keys: consecutive duplicates for the dedupe adaptor
		}
		var prs []parquet.Row
		for i := range srows {
			prs = append(prs, schema.Deconstruct(nil, &srows[i]))
		}
		for i, kind := range []string{"filter", "transform", "dedupe", "multi", "filter"} {
			viaCopy := i == 4
			_, kept := c14Wrap(kind, nil, prs)
			name := "wrap-" + kind
			if viaCopy {
				name += "-copyrows"
			}
			c := &c14Config{name: name, path: name, bufSize: []int{0, 30, 11, 64, 17}[i], l2buffered: true, nrows: kept,
				run: c14WrapSteps(kind, viaCopy, schema, prs, []int{13, 13}, parquet.MaxRowsPerRowGroup(6), parquet.PageBufferSize(128))}
			c.desc = fmt.Sprintf("c14Row path=%s rows=%d (kept %d) batches=[13 13] maxrows=6 pagebuf=128 buf=%d", name, len(prs), kept, c.bufSize)
			add(c)
		}
	}
	// WriteRowGroup copy path: source files written fault-free first
	for i, withBloom := range []bool{false, true, true} {
		var src bytes.Buffer
		opts := []parquet.WriterOption{parquet.MaxRowsPerRowGroup(14), parquet.PageBufferSize(200)}
		if withBloom {
			opts = append(opts, bloom)
		}
		w := parquet.NewGenericWriter[c14Row](&src, opts...)
		if _, err := w.Write(rows); err != nil {
			panic(err)
		}
		if err := w.Close(); err != nil {
			panic(err)
		}
		dst := []parquet.WriterOption{}
		desc := "copy of a 3-row-group file"
		if withBloom {
			dst = append(dst, bloom)
			desc += " with bloom filters"
		}
		if i == 2 {
			dst = append(dst, parquet.DeferBloomFiltersWithBuffers(parquet.NewBufferPool()))
			desc += ", deferred"
		}
		c := &c14Config{name: fmt.Sprintf("copy%d", i), path: "copy", bufSize: []int{0, 24, 5}[i], l2buffered: false, nrows: len(rows),
			run: c14CopySteps(src.Bytes(), dst...)}
		c.desc = fmt.Sprintf("c14Row path=WriteRowGroup %s buf=%d", desc, c.bufSize)
		add(c)
	}
	return out
}

// one execution of a configuration
func c14Exec(c *c14Config, buffered bool, sink *c14Sink, strSink bool) *c14Env {
	e := &c14Env{sink: sink, dest: sink}
	if strSink {
		e.dest = c14StrSink{sink}
	}
	switch {
	case !buffered:
		e.opts = []parquet.WriterOption{parquet.WriteBufferSize(0)}
	case c.bufSize > 0:
		e.opts = []parquet.WriterOption{parquet.WriteBufferSize(c.bufSize)}
	default:
		e.opts = []parquet.WriterOption{parquet.WriteBufferSize(parquet.DefaultWriteBufferSize)}
	}
	c.run(e)
	return e
}

func (c *c14Config) cap(buffered bool) string {
	if !buffered {
		return "-"
	}
	if c.bufSize > 0 {
		return fmt.Sprint(c.bufSize)
	}
	return fmt.Sprint(parquet.DefaultWriteBufferSize)
}

// plan of the writer-level operations, from the trace of the unbuffered twin
func c14Plan(trace []c14W, ncalls int, useStr bool) string {
	calls := make([][]string, ncalls)
	for _, w := range trace {
		op := "w"
		if w.str && useStr {
			op = "s"
		}
		calls[w.call] = append(calls[w.call], fmt.Sprintf("%s%d", op, w.len))
	}
	var parts []string
	for i, ops := range calls {
		if i == ncalls-1 {
			ops = append(ops, "f")
		}
		if len(ops) == 0 {
			parts = append(parts, "-")
		} else {
			parts = append(parts, strings.Join(ops, ","))
		}
	}
	return strings.Join(parts, "/")
}

type c14Variant struct {
	cfg      *c14Config
	buffered bool
	file     []byte // fault-free output
	trace    []c14W // fault-free sink trace of this variant
	ncalls   int
	plan     string // model plan (writer-level ops) and the cap to run it with
	planCap  string
	names    []string
	onlyK    int // replay: only this fault
	onlyMode string
}

func (v *c14Variant) id() string {
	if v.buffered {
		return v.cfg.name + "/buffered"
	}
	return v.cfg.name + "/unbuffered"
}

// c14Prepare runs the fault-free executions of a configuration and cross-checks them.
func c14Prepare(ctx *core.Ctx, c *c14Config) []*c14Variant {
	detail := func(extra map[string]any) map[string]any {
		m := map[string]any{"config": c.desc, "name": c.name}
		for k, v := range extra {
			m[k] = v
		}
		return m
	}
	var out []*c14Variant
	rec := c14Exec(c, false, newC14Sink(-1, "full"), true)
	for _, buffered := range []bool{false, true} {
		sink := newC14Sink(-1, "full")
		e := c14Exec(c, buffered, sink, false)
		v := &c14Variant{cfg: c, buffered: buffered, file: sink.data, trace: sink.trace, ncalls: len(e.calls)}
		for _, cl := range e.calls {
			v.names = append(v.names, cl.name)
			if cl.panicked != "" || cl.err != nil {
				ctx.Fail("L1", "fault-free-write-fails path="+c.path, fmt.Sprintf("writing without any fault fails in %s: %v %s", cl.name, cl.err, cl.panicked), detail(nil))
				return nil
			}
		}
		// the file is complete: it opens and holds the rows
		if _, nrows, err := gen.ReadRowsColumns(v.file, 16, c.fileOpts...); err != nil || nrows != c.nrows {
			ctx.Fail("L1", "fault-free-file-unreadable path="+c.path, fmt.Sprintf("the fault-free file does not read back: rows=%d want %d err=%v", nrows, c.nrows, err), detail(nil))
			return nil
		}
		if len(rec.calls) != len(e.calls) {
			ctx.Fail("L2", "history-differs-between-twins path="+c.path, "buffered and unbuffered twin make different API calls", detail(nil))
			return nil
		}
		if c.l2buffered || !buffered {
			v.plan, v.planCap = c14Plan(rec.sink.trace, len(rec.calls), true), c.cap(buffered)
		} else {
			// ReadFrom paths (file-backed stores, verbatim copy): predict from this variant's own sink trace
			v.plan, v.planCap = c14Plan(sink.trace, len(e.calls), false), "-"
		}
		out = append(out, v)
	}
	if len(out) == 2 && !c.nondet && !bytes.Equal(out[0].file, out[1].file) {
		ctx.Fail("L1", "buffered-file-differs path="+c.path, "the write buffer changes the bytes of the file", detail(nil))
	}
	if len(out) == 2 && c.nondet && len(out[0].file) != len(out[1].file) {
		ctx.Fail("L1", "buffered-file-differs path="+c.path, "the write buffer changes the size of the file", detail(nil))
	}
	return out
}

func c14Offsets(ctx *core.Ctx, v *c14Variant, r *rand.Rand) []int {
	total := len(v.file)
	set := map[int]bool{}
	if ctx.Thorough() && total <= 6000 {
		for k := 0; k < total; k++ {
			set[k] = true
		}
	} else {
		var bounds []int
		off := 0
		for _, w := range v.trace {
			bounds = append(bounds, off)
			off += w.len
		}
		maxB := ctx.Scale(60, 1500)
		if len(bounds) > maxB {
			r.Shuffle(len(bounds), func(i, j int) { bounds[i], bounds[j] = bounds[j], bounds[i] })
			bounds = bounds[:maxB]
		}
		for _, b := range bounds {
			for _, k := range []int{b - 1, b, b + 1} {
				if k >= 0 && k < total {
					set[k] = true
				}
			}
		}
		for _, k := range []int{0, 1, 3, 4, 5, total - 9, total - 8, total - 5, total - 4, total - 1} {
			if k >= 0 && k < total {
				set[k] = true
			}
		}
		for i := ctx.Scale(40, 1000); i > 0; i-- {
			set[r.Intn(total)] = true
		}
	}
	var ks []int
	for k := range set {
		ks = append(ks, k)
	}
	sort.Ints(ks)
	return ks
}

type c14Obs struct {
	k       int
	mode    string
	first   int // index of the first call that returned an error, -1 none
	held    int // bytes in the sink when that call returned
	closeOK bool
	l2      bool
}

func RunC14Sink(ctx *core.Ctx) {
	ctx.SetRule(c14Rule)
	defer c14TempCleanup()
	rp := c14LoadReplay(ctx)
	if rp != nil {
		if _, ok := rp.num("fail_offset"); !ok {
			return // the recorded case belongs to another sub-check
		}
	}
	cfgs := c14Configs(ctx)
	var variants []*c14Variant
	for _, c := range cfgs {
		if rp != nil && c.name != rp.str("name") {
			continue
		}
		for _, v := range c14Prepare(ctx, c) {
			if rp != nil {
				if b, _ := rp.Detail["buffered"].(bool); b != v.buffered {
					continue
				}
				v.onlyK, _ = rp.num("fail_offset")
				v.onlyMode = rp.str("mode")
			}
			variants = append(variants, v)
		}
	}
	var wg sync.WaitGroup
	sem := make(chan struct{}, 16)
	for vi, v := range variants {
		wg.Add(1)
		sem <- struct{}{}
		go func(vi int, v *c14Variant) {
			defer wg.Done()
			defer func() { <-sem }()
			c14SinkVariant(ctx, v, vi == 0)
		}(vi, v)
	}
	wg.Wait()
}

func c14SinkVariant(ctx *core.Ctx, v *c14Variant, sample bool) {
	c := v.cfg
	if os.Getenv("C14_TIMING") != "" {
		t0 := time.Now()
		defer func() {
			fmt.Fprintf(os.Stderr, "c14 sink %-40s %8.2fs writes=%d size=%d\n", v.id(), time.Since(t0).Seconds(), len(v.trace), len(v.file))
		}()
	}
	r := ctx.Rand("c14/sink/" + v.id())
	total := len(v.file)
	ctx.HistN("sink.configs", c.path, 1)
	ctx.Hist("sink.filesize", sizeBucket(total))
	ctx.Hist("sink.writes", sizeBucket(len(v.trace)))
	detail := func(k int, mode string, e *c14Env, extra map[string]any) map[string]any {
		m := map[string]any{"config": c.desc, "name": c.name, "buffered": v.buffered, "write_buffer": c.cap(v.buffered),
			"fail_offset": k, "mode": mode, "file_size": total}
		if e != nil {
			var cs []string
			for _, cl := range e.calls {
				s := cl.name + ":nil"
				if cl.err != nil {
					s = cl.name + ":" + cl.err.Error()
				}
				if cl.panicked != "" {
					s = cl.name + ":PANIC " + cl.panicked
				}
				cs = append(cs, s)
			}
			if len(cs) > 12 {
				cs = append(cs[:6], cs[len(cs)-6:]...)
			}
			m["calls"] = cs
			m["sink_holds"] = len(e.sink.data)
		}
		for k, v := range extra {
			m[k] = v
		}
		return m
	}
	sig := fmt.Sprintf("path=%s buffered=%v", c.path, v.buffered)

	// L2 on the fault-free run: the model reproduces the sink trace of this variant from the plan
	d := ctx.Driver()
	if d == nil {
		return
	}
	if ans, err := d.Ask(fmt.Sprintf("io.run %s - full %s", v.planCap, v.plan)); err != nil {
		ctx.Fail("L2", "driver-error", err.Error(), nil)
		return
	} else {
		var want []string
		for _, w := range v.trace {
			want = append(want, fmt.Sprintf("%d:%d:0", w.len, w.n))
		}
		f := strings.Fields(ans)
		wantTrace := "-"
		if len(want) > 0 {
			wantTrace = strings.Join(want, ",")
		}
		if len(f) != 6 || f[0] != "ok" || f[2] != "-1" || f[4] != fmt.Sprint(total) || f[5] != wantTrace {
			got := ans
			if len(got) > 400 {
				got = got[:400] + "…"
			}
			ctx.Fail("L2", "fault-free-trace-differs "+sig, "the sink trace predicted by the model from the write plan differs from the real one",
				detail(-1, "none", nil, map[string]any{"model": got, "real_trace_head": headOf(wantTrace, 400), "plan_head": headOf(v.plan, 400)}))
			return
		}
		ctx.Hist("sink.l2", "fault-free-trace-equal")
	}

	ks := c14Offsets(ctx, v, r)
	if v.onlyMode != "" {
		if v.onlyK < 0 || v.onlyK >= total {
			return // the fault-free comparison above was the recorded case
		}
		ks = []int{v.onlyK}
	}
	var obs []c14Obs
	// fault points per Write call of the destination (not per byte offset): every call index of the
	// fault-free sink trace; in the quick tier every call of at most 2 bytes (the byte-wise writes of
	// the thrift encoder straight to an unbuffered destination) and a sample of the others
	var cis []int
	{
		limit := ctx.Scale(500, 20000)
		var rest []int
		for i, w := range v.trace {
			if w.len <= 2 && len(cis) < limit {
				cis = append(cis, i)
			} else {
				rest = append(rest, i)
			}
		}
		r.Shuffle(len(rest), func(i, j int) { rest[i], rest[j] = rest[j], rest[i] })
		if m := ctx.Scale(80, 4000); len(rest) > m {
			rest = rest[:m]
		}
		cis = append(cis, rest...)
		sort.Ints(cis)
	}
	if v.onlyMode != "" {
		cis = nil
		if strings.HasPrefix(v.onlyMode, "call") {
			cis, ks = []int{v.onlyK}, nil
		}
	}
	ctx.Hist("sink.call-faults", sizeBucket(len(cis)))
	l2budget := ctx.Scale(60, 400)
	l2every := 1
	if nf := len(ks)*4 + len(cis)*2; nf > l2budget {
		l2every = (nf + l2budget - 1) / l2budget
	}
	n := 0
	runFault := func(k int, mode string) {
		{
			sink := newC14Sink(k, mode)
			sink.noTrace = true
			e := c14Exec(c, v.buffered, sink, false)
			n++
			byCall := strings.HasPrefix(mode, "call")
			nontrivial := k > 0 && k < total-8
			if byCall {
				nontrivial = k > 0 && k < len(v.trace)-1
			}
			ctx.Case(fmt.Sprintf("sink|%s|%d|%s", v.id(), k, mode), nontrivial)
			ctx.Hist("sink.mode", mode)
			if sample && len(ks) > 0 && k == ks[len(ks)/2] && mode == "short" {
				ctx.Sample(detail(k, mode, e, nil))
			}
			first, held, closeRan, closeOK := -1, 0, false, false
			var pan *c14Call
			for i := range e.calls {
				cl := &e.calls[i]
				if cl.panicked != "" {
					pan = cl
					break
				}
				if cl.err != nil && first < 0 {
					first, held = i, cl.heldAfter
				}
				if i == len(e.calls)-1 && (cl.name == "Close" || cl.name == "all") {
					closeRan, closeOK = true, cl.err == nil
				}
			}
			what := fmt.Sprintf("byte %d of %d", k, total)
			if byCall {
				what = fmt.Sprintf("Write call %d of %d", k, len(v.trace))
			}
			switch {
			case pan != nil:
				ctx.Fail("L1", "panic "+sig+" call="+pan.name+" "+panicClass(pan.panicked),
					fmt.Sprintf("%s panics when the destination fails at %s (%s)", pan.name, what, mode), detail(k, mode, e, nil))
				return
			case first < 0 && sink.heldAtFail < 0:
				// the failing call index was never reached (cannot happen for a deterministic writer)
				ctx.Hist("sink.skipped", "fault-not-reached")
				return
			case first < 0:
				ctx.Fail("L1", "no-error-reported "+sig+" mode="+mode,
					fmt.Sprintf("the destination rejected %s (%s) and no call returned an error; the sink holds %d bytes", what, mode, len(sink.data)),
					detail(k, mode, e, nil))
				return
			}
			if sink.heldAtFail < 0 && !errors.Is(e.calls[first].err, errC14Injected) {
				// the destination has not failed yet: the error comes from the environment (e.g. the
				// temp-file pool of the page buffers on a full disk), not from the injected fault
				ctx.Hist("sink.skipped", "environment-error")
				return
			}
			ctx.Hist("sink.first-reporter", e.calls[first].name)
			// nothing altered before the fault
			if h := sink.heldAtFail; !c.nondet && h >= 0 && !bytes.Equal(sink.data[:h], v.file[:h]) {
				ctx.Fail("L1", "bytes-before-fault-differ "+sig, "the bytes accepted before the fault are not a prefix of the fault-free file", detail(k, mode, e, nil))
			}
			// Close after a reported error: must fail when the model says nothing more can be stored
			if closeRan && first < len(e.calls)-1 {
				if closeOK {
					ctx.Hist("sink.close-after-error", "nil")
					transient := mode == "full" || strings.HasPrefix(mode, "oneshot") || mode == "call" || mode == "callshort"
					if v.buffered || !transient {
						ctx.Fail("L1", "close-nil-after-failure "+sig+" mode="+mode,
							"an earlier call reported the fault, and Close then returns nil although the destination cannot take another byte (sticky buffer error / sticky or short sink)",
							detail(k, mode, e, nil))
					}
				} else {
					ctx.Hist("sink.close-after-error", "error")
				}
			}
			if n%l2every == 0 {
				obs = append(obs, c14Obs{k: k, mode: mode, first: first, held: held, closeOK: closeOK})
			}
		}
	}
	for _, k := range ks {
		// full = capacity sink; oneshot* = transient failure, the sink recovers
		modes := []string{"full", "short", "oneshot", "oneshotshort"}
		if r.Intn(4) == 0 || k < 8 {
			modes = append(modes, "fullsticky", "shortsticky")
		}
		if v.onlyMode != "" {
			modes = []string{v.onlyMode}
		}
		for _, mode := range modes {
			runFault(k, mode)
		}
	}
	for _, i := range cis {
		modes := []string{"call"}
		if v.trace[i].len >= 2 {
			modes = append(modes, "callshort")
		}
		if r.Intn(6) == 0 {
			modes = append(modes, "callsticky")
		}
		if v.onlyMode != "" {
			modes = []string{v.onlyMode}
		}
		for _, mode := range modes {
			runFault(i, mode)
		}
	}
	// L2: first reporting call and bytes held then, against the model on the same plan
	if len(obs) > 0 {
		var fs []string
		for _, o := range obs {
			fs = append(fs, fmt.Sprintf("%d:%s", o.k, o.mode))
		}
		ans, err := d.Ask(fmt.Sprintf("io.runmany %s %s %s", v.planCap, v.plan, strings.Join(fs, ";")))
		if err != nil || !strings.HasPrefix(ans, "ok ") {
			ctx.Fail("L2", "driver-error", fmt.Sprintf("io.runmany: %v %s", err, headOf(ans, 100)), nil)
			return
		}
		parts := strings.Split(strings.TrimPrefix(ans, "ok "), "|")
		if len(parts) != len(obs) {
			ctx.Fail("L2", "driver-error", "io.runmany: wrong number of answers", nil)
			return
		}
		for i, o := range obs {
			var mf, mh, mc int
			fmt.Sscanf(parts[i], "%d %d %d", &mf, &mh, &mc)
			if mf != o.first || mh != o.held {
				ctx.Fail("L2", "first-reporter-differs "+sig+" mode="+o.mode,
					fmt.Sprintf("fault at byte %d (%s): the model predicts call %d reports with %d bytes stored, the writer reports in call %d with %d bytes stored", o.k, o.mode, mf, mh, o.first, o.held),
					detail(o.k, o.mode, nil, map[string]any{"calls": v.names, "plan_head": headOf(v.plan, 300), "plan_cap": v.planCap}))
			} else {
				ctx.Hist("sink.l2", "first-reporter-equal")
			}
		}
	}
}

func headOf(s string, n int) string {
	if len(s) > n {
		return s[:n] + "…"
	}
	return s
}

func sizeBucket(n int) string {
	switch {
	case n < 100:
		return "<100"
	case n < 1000:
		return "<1k"
	case n < 10000:
		return "<10k"
	case n < 100000:
		return "<100k"
	}
	return ">=100k"
}

func panicClass(p string) string {
	if i := strings.Index(p, "\n"); i >= 0 {
		p = p[:i]
	}
	if len(p) > 50 {
		p = p[:50]
	}
	return strings.Map(func(r rune) rune {
		if r >= '0' && r <= '9' {
			return '#'
		}
		return r
	}, p)
}

// ---------------------------------------------------------------- bufio mirror

type c14Greedy struct{ b []byte }

func (g *c14Greedy) Read(p []byte) (int, error) {
	if len(g.b) == 0 {
		return 0, io.EOF
	}
	n := copy(p, g.b)
	g.b = g.b[n:]
	return n, nil
}

func RunC14Bufio(ctx *core.Ctx) {
	ctx.SetRule(c14Rule)
	if rp := c14LoadReplay(ctx); rp != nil {
		req := rp.str("request")
		f := strings.Fields(req)
		if len(f) != 5 || f[0] != "io.bufio" {
			return
		}
		d := ctx.Driver()
		if d == nil {
			return
		}
		var capN int
		k := -1
		fmt.Sscanf(f[1], "%d", &capN)
		if f[2] != "-" {
			fmt.Sscanf(f[2], "%d", &k)
		}
		real := c14RealBufio(capN, k, f[3], strings.Split(f[4], ","))
		ans, err := d.Ask(req)
		ctx.Case(req, true)
		if err != nil || ans != real {
			ctx.Fail("L2", "bufio-mirror-differs "+c14BufioKey(req), "bufio.Writer over the fault sink and the Lean mirror disagree",
				map[string]any{"request": req, "model": ans, "real": real})
		}
		return
	}
	ncases := ctx.Scale(6000, 60000)
	workers := 8
	var wg sync.WaitGroup
	for w := 0; w < workers; w++ {
		wg.Add(1)
		go func(w int) {
			defer wg.Done()
			d := ctx.Driver()
			if d == nil {
				return
			}
			r := ctx.Rand(fmt.Sprintf("c14/bufio/%d", w))
			var reqs, wants []string
			flush := func() {
				if len(reqs) == 0 {
					return
				}
				ans, err := d.AskMany(reqs)
				if err != nil {
					ctx.Fail("L2", "driver-error", err.Error(), nil)
					reqs, wants = nil, nil
					return
				}
				for i := range reqs {
					if ans[i] != wants[i] {
						ctx.Fail("L2", "bufio-mirror-differs "+c14BufioKey(reqs[i]), "bufio.Writer over the fault sink and the Lean mirror disagree",
							map[string]any{"request": reqs[i], "model": ans[i], "real": wants[i]})
					}
				}
				reqs, wants = nil, nil
			}
			for i := 0; i < ncases/workers; i++ {
				capN := []int{1, 2, 3, 4, 5, 8, 16}[r.Intn(7)]
				total := 0
				var ops []string
				for j := 1 + r.Intn(7); j > 0; j-- {
					ln := []int{0, 1, 2, capN - 1, capN, capN + 1, 2 * capN, 2*capN + 1, r.Intn(40)}[r.Intn(9)]
					if ln < 0 {
						ln = 0
					}
					switch r.Intn(7) {
					case 0:
						ops = append(ops, "f")
					case 1, 2:
						ops = append(ops, fmt.Sprintf("s%d", ln))
						total += ln
					case 3:
						ops = append(ops, fmt.Sprintf("r%d", ln))
						total += ln
					default:
						ops = append(ops, fmt.Sprintf("w%d", ln))
						total += ln
					}
				}
				k, ks := -1, "-"
				if r.Intn(5) > 0 {
					k = r.Intn(total + 2)
					ks = fmt.Sprint(k)
				}
				mode := []string{"full", "short", "fullsticky", "shortsticky", "oneshot", "oneshotshort"}[r.Intn(6)]
				req := fmt.Sprintf("io.bufio %d %s %s %s", capN, ks, mode, strings.Join(ops, ","))
				ctx.Case(req, k >= 0 && len(ops) >= 2)
				ctx.Hist("bufio.cap", fmt.Sprint(capN))
				reqs = append(reqs, req)
				wants = append(wants, c14RealBufio(capN, k, mode, ops))
				if len(reqs) >= 1000 {
					flush()
				}
			}
			flush()
		}(w)
	}
	wg.Wait()
}

func c14BufioKey(req string) string {
	f := strings.Fields(req)
	kinds := map[byte]bool{}
	for _, op := range strings.Split(f[len(f)-1], ",") {
		kinds[op[0]] = true
	}
	var ks []string
	for k := range kinds {
		ks = append(ks, string(k))
	}
	sort.Strings(ks)
	return "mode=" + f[3] + " ops=" + strings.Join(ks, "")
}

func c14RealBufio(capN, k int, mode string, ops []string) string {
	sink := newC14Sink(k, mode)
	b := bufio.NewWriterSize(sink, capN)
	pos := 0
	payload := func(n int) []byte {
		p := make([]byte, n)
		for i := range p {
			p[i] = byte((pos + i) % 251)
		}
		pos += n
		return p
	}
	var outs []string
	b01 := func(e error) int {
		if e != nil {
			return 1
		}
		return 0
	}
	for _, op := range ops {
		var ln int
		fmt.Sscanf(op[1:], "%d", &ln)
		switch op[0] {
		case 'w':
			n, err := b.Write(payload(ln))
			outs = append(outs, fmt.Sprintf("%d:%d", n, b01(err)))
		case 's':
			n, err := b.WriteString(string(payload(ln)))
			outs = append(outs, fmt.Sprintf("%d:%d", n, b01(err)))
		case 'r':
			n, err := b.ReadFrom(&c14Greedy{payload(ln)})
			outs = append(outs, fmt.Sprintf("%d:%d", n, b01(err)))
		case 'f':
			outs = append(outs, fmt.Sprintf("0:%d", b01(b.Flush())))
		}
	}
	var tr []string
	for _, w := range sink.trace {
		tr = append(tr, fmt.Sprintf("%d:%d:%d", w.len, w.n, map[bool]int{false: 0, true: 1}[w.err]))
	}
	ts := "-"
	if len(tr) > 0 {
		ts = strings.Join(tr, ",")
	}
	// the sink must hold a prefix of the payload stream (content check on the real side)
	for i, x := range sink.data {
		if x != byte(i%251) {
			return "real-sink-content-broken"
		}
	}
	// a zero-length Write returns the sticky error and has no other effect
	_, perr := b.Write(nil)
	return fmt.Sprintf("ok %s %d %d %d %s", strings.Join(outs, ","), len(sink.data), b.Buffered(), b01(perr), ts)
}

// ---------------------------------------------------------------- truncation

type c14File struct {
	name     string
	desc     string
	data     []byte
	cols     [][]gen.Triple
	nrows    int
	opts     []parquet.FileOption
	crypt    bool  // the columns are encrypted (pages, bloom filters and indexes are envelopes)
	marks    []int // interesting offsets (write boundaries)
	only     bool  // replay: only the prefix of onlyN bytes / only the failing call onlyN
	onlyN    int
	onlyMode string
	onlyKeep int
	onlyHist string

	probeOnce sync.Once
	probes    []c14Probe
}

func c14Files(ctx *core.Ctx) []*c14File {
	var out []*c14File
	for _, c := range c14Configs(ctx) {
		sink := newC14Sink(-1, "full")
		e := c14Exec(c, false, sink, false)
		bad := false
		for _, cl := range e.calls {
			bad = bad || cl.err != nil || cl.panicked != ""
		}
		if bad {
			continue // reported by the sink sub-check
		}
		cols, nrows, err := gen.ReadRowsColumns(sink.data, 16, c.fileOpts...)
		if err != nil {
			continue
		}
		f := &c14File{name: c.name, desc: c.desc, data: sink.data, cols: cols, nrows: nrows, opts: c.fileOpts, crypt: c.nondet}
		off := 0
		for _, w := range sink.trace {
			if w.len > 1 {
				f.marks = append(f.marks, off)
			}
			off += w.len
		}
		out = append(out, f)
	}
	return out
}

// c14ReadOutcome opens r and reads everything through Rows and through the page readers.
// class: open-error | read-error | panic | complete | altered
func c14ReadOutcome(r io.ReaderAt, size int64, f *c14File) (class string, err error) {
	defer func() {
		if p := recover(); p != nil {
			class, err = "panic", fmt.Errorf("%v | %s", p, c14Stack())
		}
	}()
	pf, err := parquet.OpenFile(r, size, f.opts...)
	if err != nil {
		return "open-error", err
	}
	ncol := len(pf.Schema().Columns())
	cols := make([][]gen.Triple, ncol)
	nrows := 0
	for _, rg := range pf.RowGroups() {
		rows := rg.Rows()
		buf := make([]parquet.Row, 16)
		for {
			n, err := rows.ReadRows(buf)
			for _, row := range buf[:n] {
				nrows++
				for _, v := range row {
					if v.Column() < 0 || v.Column() >= ncol {
						rows.Close()
						return "altered", fmt.Errorf("value with column index %d", v.Column())
					}
					cols[v.Column()] = append(cols[v.Column()], gen.TripleOf(v))
				}
			}
			if err == io.EOF {
				break
			}
			if err != nil {
				rows.Close()
				return "read-error", err
			}
			if n == 0 {
				rows.Close()
				return "read-error", fmt.Errorf("ReadRows returned 0 rows and no error")
			}
		}
		if err := rows.Close(); err != nil {
			return "read-error", err
		}
	}
	if nrows != f.nrows {
		return "altered", fmt.Errorf("%d rows instead of %d", nrows, f.nrows)
	}
	if c, i, desc := firstDiff(f.cols, cols); c != -2 {
		return "altered", fmt.Errorf("column %d entry %d: %s", c, i, desc)
	}
	// second path: page readers of every column chunk
	nvals := make([]int64, ncol)
	for _, rg := range pf.RowGroups() {
		for ci, cc := range rg.ColumnChunks() {
			pages := cc.Pages()
			for {
				p, err := pages.ReadPage()
				if err == io.EOF {
					break
				}
				if err != nil {
					pages.Close()
					return "read-error", err
				}
				if ci < ncol {
					nvals[ci] += p.NumValues()
				}
				parquet.Release(p)
			}
			pages.Close()
		}
	}
	for ci := range nvals {
		if ci < len(f.cols) && nvals[ci] != int64(len(f.cols[ci])) {
			return "altered", fmt.Errorf("column %d: the page readers returned %d values instead of %d", ci, nvals[ci], len(f.cols[ci]))
		}
	}
	return "complete", nil
}

func c14Residual(g []byte) bool {
	n := len(g)
	if n < 8 {
		return false
	}
	m := string(g[n-4:])
	if m != "PAR1" && m != "PARE" {
		return false
	}
	return int(binary.LittleEndian.Uint32(g[n-8:n-4]))+8 <= n
}

func c14OpenStage(err error) string {
	if err == nil {
		return "ok"
	}
	s := err.Error()
	switch {
	case strings.HasPrefix(s, "reading magic header"):
		return "err short-header"
	case strings.HasPrefix(s, "invalid magic header"), strings.HasPrefix(s, "parquet file has encrypted footer"):
		return "err bad-header-magic"
	case strings.HasPrefix(s, "reading magic footer"):
		return "err short-trailer"
	case strings.HasPrefix(s, "invalid magic footer"):
		return "err bad-footer-magic"
	case strings.HasPrefix(s, "reading footer of parquet file"):
		return "err footer-bounds"
	}
	return "ok" // the trailer stage passed; a later stage failed
}

func RunC14Truncate(ctx *core.Ctx) {
	ctx.SetRule(c14Rule)
	defer c14TempCleanup()
	rp := c14LoadReplay(ctx)
	if rp != nil {
		if req := rp.str("request"); strings.HasPrefix(req, "open.model ") {
			c14ReplayOpen(ctx, req)
			return
		}
		if _, ok := rp.num("prefix_length"); !ok {
			return
		}
	}
	files := c14Files(ctx)
	// adversarial: a file whose byte-array value embeds a whole Parquet file / a bare trailer
	files = append(files, c14NestedFiles(ctx)...)
	var wg sync.WaitGroup
	sem := make(chan struct{}, 16)
	for fi, f := range files {
		if rp != nil {
			if f.name != rp.str("name") {
				continue
			}
			f.onlyN, _ = rp.num("prefix_length")
			f.only = true
		}
		wg.Add(1)
		sem <- struct{}{}
		go func(fi int, f *c14File) {
			defer wg.Done()
			defer func() { <-sem }()
			c14TruncateFile(ctx, f, fi == 0)
		}(fi, f)
	}
	wg.Wait()
	if rp == nil {
		c14OpenMalformed(ctx)
	}
}

// re-run one `open.model` request of a replay file
func c14ReplayOpen(ctx *core.Ctx, req string) {
	f := strings.Fields(req)
	d := ctx.Driver()
	if len(f) != 3 || d == nil {
		return
	}
	var g []byte
	if f[2] != "-" {
		g, _ = hex.DecodeString(f[2])
	}
	var opts []parquet.FileOption
	if f[1] == "1" {
		opts = append(opts, parquet.WithDecryption(c14Keys{key: []byte("0123456789abcdef")}))
	}
	var oerr error
	func() {
		defer func() {
			if p := recover(); p != nil {
				oerr = fmt.Errorf("PANIC %v", p)
			}
		}()
		_, oerr = parquet.OpenFile(bytes.NewReader(g), int64(len(g)), opts...)
	}()
	ctx.Case(req, true)
	c14AskOpen(ctx, d, []string{req}, []string{c14OpenStage(oerr)}, "the recorded file")
}

func c14TruncateFile(ctx *core.Ctx, f *c14File, sample bool) {
	r := ctx.Rand("c14/truncate/" + f.name)
	total := len(f.data)
	set := map[int]bool{}
	if ctx.Thorough() && total <= 20000 {
		for n := 0; n < total; n++ {
			set[n] = true
		}
	} else {
		for n := 0; n <= 16 && n < total; n++ {
			set[n] = true
		}
		for n := total - 48; n < total; n++ {
			if n >= 0 {
				set[n] = true
			}
		}
		marks := append([]int{}, f.marks...)
		r.Shuffle(len(marks), func(i, j int) { marks[i], marks[j] = marks[j], marks[i] })
		if len(marks) > 60 {
			marks = marks[:60]
		}
		for _, m := range marks {
			for _, n := range []int{m - 1, m, m + 1} {
				if n >= 0 && n < total {
					set[n] = true
				}
			}
		}
		for i := ctx.Scale(150, 2000); i > 0; i-- {
			set[r.Intn(total)] = true
		}
	}
	var ns []int
	for n := range set {
		ns = append(ns, n)
	}
	sort.Ints(ns)
	if f.only {
		ns = []int{f.onlyN}
		if f.onlyN < 0 || f.onlyN >= total {
			return
		}
	}
	d := ctx.Driver()
	var reqs, wants []string
	l2every := 1
	if b := ctx.Scale(80, 400); len(ns) > b {
		l2every = (len(ns) + b - 1) / b
	}
	enc := "0"
	if len(f.opts) > 0 {
		enc = "1"
	}
	for i, n := range ns {
		g := f.data[:n]
		class, err := c14ReadOutcome(bytes.NewReader(g), int64(n), f)
		ctx.Case(fmt.Sprintf("truncate|%s|%d", f.name, n), n >= 4)
		ctx.Hist("truncate.outcome", class)
		detail := map[string]any{"file": f.desc, "name": f.name, "file_size": total, "prefix_length": n, "outcome": class}
		if err != nil {
			detail["error"] = err.Error()
		}
		if sample && i == len(ns)/2 {
			ctx.Sample(detail)
		}
		residual := c14Residual(g)
		if residual {
			ctx.Hist("truncate.residual", class)
		}
		switch class {
		case "panic":
			ctx.Fail("L1", "truncated-file-panics "+panicClass(err.Error()), fmt.Sprintf("reading the %d-byte prefix of a %d-byte file panics", n, total), detail)
		case "complete", "altered":
			if !residual {
				ctx.Fail("L1", "prefix-accepted outcome="+class, fmt.Sprintf("the %d-byte prefix of a %d-byte file opens and reads without any error (%s)", n, total, class), detail)
			}
		}
		if d != nil && total <= 16000 && i%l2every == 0 {
			_, oerr := parquet.OpenFile(bytes.NewReader(g), int64(n), f.opts...)
			reqs = append(reqs, fmt.Sprintf("open.model %s %s", enc, core.Hex(g)))
			wants = append(wants, c14OpenStage(oerr))
		}
	}
	c14AskOpen(ctx, d, reqs, wants, "prefix of "+f.name)
}

func c14AskOpen(ctx *core.Ctx, d *drv.Driver, reqs, wants []string, what string) {
	if d == nil || len(reqs) == 0 {
		return
	}
	ans, err := d.AskMany(reqs)
	if err != nil {
		ctx.Fail("L2", "driver-error", err.Error(), nil)
		return
	}
	for i := range reqs {
		got := ans[i]
		if strings.HasPrefix(got, "ok") {
			got = "ok"
		}
		if got != wants[i] {
			ctx.Fail("L2", "open-stage-differs model="+strings.ReplaceAll(got, " ", "-")+" real="+strings.ReplaceAll(wants[i], " ", "-"),
				"OpenFile and the Lean mirror of its trailer checks disagree on "+what,
				map[string]any{"request": headOf(reqs[i], 300), "model": headOf(ans[i], 100), "real": wants[i]})
		} else {
			ctx.Hist("truncate.l2", got)
		}
	}
}

// files that embed `len‖"PAR1"` in a byte-array value: the residual case of prefix_rejected
func c14NestedFiles(ctx *core.Ctx) []*c14File {
	r := ctx.Rand("c14/nested")
	inner := func() []byte {
		var b bytes.Buffer
		w := parquet.NewGenericWriter[c14Row](&b)
		w.Write(c14Rows(r, 3))
		w.Close()
		return b.Bytes()
	}()
	var out []*c14File
	for i, payload := range [][]byte{
		inner, // a whole file: its trailer is a valid `len‖PAR1`
		append([]byte{0xAA, 0xBB, 0xCC, 3, 0, 0, 0}, "PAR1"...),                   // a bare trailer with a tiny length
		append([]byte{0x15, 0x00, 0x15, 0x00, 0xFF, 0xFF, 0xFF, 0x7F}, "PAR1"...), // a trailer whose length exceeds the prefix
	} {
		rows := []c14Row{{K: 1, V: []byte("before")}, {K: 2, V: payload}, {K: 3, V: []byte("after")}}
		var b bytes.Buffer
		w := parquet.NewGenericWriter[c14Row](&b)
		w.Write(rows)
		w.Close()
		cols, nrows, err := gen.ReadRowsColumns(b.Bytes(), 16)
		if err != nil {
			continue
		}
		f := &c14File{name: fmt.Sprintf("nested%d", i), desc: fmt.Sprintf("c14Row file whose value v embeds %d bytes ending in len‖PAR1", len(payload)),
			data: b.Bytes(), cols: cols, nrows: nrows}
		// make sure the prefixes that end right after the embedded trailer are visited
		if j := bytes.Index(f.data, payload); j >= 0 {
			f.marks = append(f.marks, j+len(payload))
			ctx.Hist("truncate.nested", "embedded-verbatim")
		} else {
			ctx.Hist("truncate.nested", "not-verbatim")
		}
		out = append(out, f)
	}
	return out
}

// malformed stream for the L2 of the trailer stage: crafted heads and tails
func c14OpenMalformed(ctx *core.Ctx) {
	d := ctx.Driver()
	if d == nil {
		return
	}
	r := ctx.Rand("c14/open-malformed")
	var reqs, wants []string
	magics := []string{"PAR1", "PARE", "PAR2", "par1", "\x00\x00\x00\x00"}
	for i := ctx.Scale(3000, 30000); i > 0; i-- {
		n := []int{0, 1, 3, 4, 5, 7, 8, 9, 11, 12, 13, 16, 20, 40}[r.Intn(14)]
		g := make([]byte, n)
		for j := range g {
			g[j] = byte(r.Intn(256))
		}
		if n >= 4 && r.Intn(8) > 0 {
			copy(g, magics[r.Intn(2)])
			if r.Intn(6) == 0 {
				copy(g, magics[r.Intn(len(magics))])
			}
		}
		if n >= 8 && r.Intn(8) > 0 {
			copy(g[n-4:], magics[r.Intn(2)])
			if r.Intn(6) == 0 {
				copy(g[n-4:], magics[r.Intn(len(magics))])
			}
			ln := []int{0, 1, n - 13, n - 12, n - 11, n - 9, n - 8, n - 7, n, 1 << 20}[r.Intn(10)]
			if ln < 0 {
				ln = 0
			}
			binary.LittleEndian.PutUint32(g[n-8:], uint32(ln))
		}
		enc := r.Intn(2)
		var opts []parquet.FileOption
		if enc == 1 {
			opts = append(opts, parquet.WithDecryption(c14Keys{key: []byte("0123456789abcdef")}))
		}
		var oerr error
		func() {
			defer func() {
				if p := recover(); p != nil {
					oerr = fmt.Errorf("PANIC %v", p)
					ctx.Fail("L1", "open-panics "+panicClass(fmt.Sprint(p)), "OpenFile panics on a malformed file", map[string]any{"file": core.Hex(g), "decryption": enc == 1})
				}
			}()
			_, oerr = parquet.OpenFile(bytes.NewReader(g), int64(n), opts...)
		}()
		ctx.Case("open|"+core.Hex(g)+fmt.Sprint(enc), n >= 8)
		if oerr == nil {
			ctx.Fail("L1", "malformed-file-opens", "OpenFile accepts random bytes", map[string]any{"file": core.Hex(g)})
		}
		reqs = append(reqs, fmt.Sprintf("open.model %d %s", enc, core.Hex(g)))
		wants = append(wants, c14OpenStage(oerr))
		if len(reqs) >= 1000 {
			c14AskOpen(ctx, d, reqs, wants, "a crafted file")
			reqs, wants = nil, nil
		}
	}
	c14AskOpen(ctx, d, reqs, wants, "a crafted file")
}

// ---------------------------------------------------------------- ReaderAt faults

type c14ReaderAt struct {
	r      *bytes.Reader
	failAt int32 // call index; -1 none
	mode   string
	calls  int32
	hit    bool
	hitLen int
	keep   int        // short modes: bytes delivered before the error; < 0 = half of the request
	record bool       // log (offset, length) of every call
	log    [][2]int64 // single-goroutine readers only
}

func (x *c14ReaderAt) cut(n int) int {
	if x.keep < 0 || x.keep > n {
		return n / 2
	}
	return x.keep
}

func (x *c14ReaderAt) ReadAt(p []byte, off int64) (int, error) {
	i := atomic.AddInt32(&x.calls, 1) - 1
	if x.record {
		x.log = append(x.log, [2]int64{off, int64(len(p))})
	}
	fail := x.failAt >= 0 && (i == x.failAt || (strings.HasSuffix(x.mode, "sticky") && i > x.failAt))
	if !fail {
		return x.r.ReadAt(p, off)
	}
	if i == x.failAt {
		x.hit, x.hitLen = true, len(p)
	}
	switch strings.TrimSuffix(x.mode, "sticky") {
	case "short":
		n, _ := x.r.ReadAt(p[:x.cut(len(p))], off)
		return n, errC14Injected
	case "shorteof":
		n, _ := x.r.ReadAt(p[:x.cut(len(p))], off)
		return n, io.EOF
	}
	return 0, errC14Injected
}

func RunC14ReadAt(ctx *core.Ctx) {
	ctx.SetRule(c14Rule)
	defer c14TempCleanup()
	rp := c14LoadReplay(ctx)
	if rp != nil {
		if strings.HasPrefix(rp.str("request"), "readat.wrap ") {
			c14ReadAtWrap(ctx)
			return
		}
		if _, ok := rp.num("failing_call"); !ok {
			return
		}
	}
	files := c14Files(ctx)
	var wg sync.WaitGroup
	sem := make(chan struct{}, 16)
	for fi, f := range files {
		if rp != nil {
			if f.name != rp.str("name") {
				continue
			}
			f.only = true
			f.onlyN, _ = rp.num("failing_call")
			f.onlyMode = rp.str("mode")
			f.onlyHist = rp.str("history")
			f.onlyKeep = -1
			if k, ok := rp.num("kept_bytes"); ok && strings.HasPrefix(f.onlyMode, "short") {
				f.onlyKeep = k
			}
		}
		wg.Add(1)
		sem <- struct{}{}
		go func(fi int, f *c14File) {
			defer wg.Done()
			defer func() { <-sem }()
			c14ReadAtFile(ctx, f, fi == 0)
		}(fi, f)
	}
	wg.Wait()
	if rp == nil {
		c14ReadAtWrap(ctx)
	}
}

// a read history: what the program does with the file between OpenFile and the last read.
// run returns class open-error | read-error | panic | complete | altered; histories that cannot
// compare with the written rows themselves return "ok" and a digest of everything they read, which
// is compared with the digest of the fault-free run.
type c14History struct {
	name string
	run  func(r io.ReaderAt, size int64, f *c14File) (class, digest string, err error)
}

func c14Histories(ctx *core.Ctx) []c14History {
	hs := []c14History{{"sequential", func(r io.ReaderAt, size int64, f *c14File) (string, string, error) {
		class, err := c14ReadOutcome(r, size, f)
		return class, "", err
	}}}
	// SeekToRow into a later page before anything else was read (the dictionary is then loaded
	// lazily from the start of the chunk), then read to the end of the row group
	for _, fr := range [][2]int64{{3, 4}, {1, 2}, {1, 100}} {
		fr := fr
		hs = append(hs, c14History{fmt.Sprintf("rows-seek-%d/%d", fr[0], fr[1]), func(r io.ReaderAt, size int64, f *c14File) (string, string, error) {
			return c14SeekRows(r, size, f, fr[0], fr[1])
		}})
	}
	hs = append(hs, c14History{"pages-seek-3/4", func(r io.ReaderAt, size int64, f *c14File) (string, string, error) {
		return c14SeekPages(r, size, f, 3, 4)
	}})
	hs = append(hs, c14History{"dictfirst-pages", func(r io.ReaderAt, size int64, f *c14File) (string, string, error) {
		return c14SeekPagesVia(r, size, f, 0, 1, true)
	}})
	// the library's own consumers of a RowReader (CopyRows and everything built on copyRows:
	// Writer.ReadRowsFrom, the row path of WriteRowGroup, Buffer, SortingWriter) end the copy on
	// `errors.Is(err, io.EOF)`: an error that merely *wraps* io.EOF is the end of input for them
	for _, fr := range [][2]int64{{1, 2}, {0, 1}} {
		fr := fr
		hs = append(hs, c14History{fmt.Sprintf("copyrows-seek-%d/%d", fr[0], fr[1]), func(r io.ReaderAt, size int64, f *c14File) (string, string, error) {
			return c14SeekRowsVia(r, size, f, fr[0], fr[1], "copyrows")
		}})
	}
	hs = append(hs, c14History{"readrowsfrom-seek-1/3", func(r io.ReaderAt, size int64, f *c14File) (string, string, error) {
		return c14SeekRowsVia(r, size, f, 1, 3, "readrowsfrom")
	}})
	// what a point lookup reads instead of rows: the bloom filter of every chunk probed with keys
	// that are present (a lazily probed filter reads one 32-byte block per Check), the column and
	// offset index of every chunk; once with the defaults of OpenFile and once with everything
	// deferred to the moment of the lookup
	hs = append(hs, c14History{"lookup-default", func(r io.ReaderAt, size int64, f *c14File) (string, string, error) {
		return c14Lookup(r, size, f, false)
	}})
	hs = append(hs, c14History{"lookup-lazy", func(r io.ReaderAt, size int64, f *c14File) (string, string, error) {
		return c14Lookup(r, size, f, true)
	}})
	return hs
}

type c14Probe struct {
	rg, col int
	val     parquet.Value
}

// c14Probes lists, per (row group, leaf column), up to 12 distinct non-null values that the chunk
// holds (read once from the intact bytes): the keys a lookup may ask the bloom filter for.
func c14Probes(f *c14File) []c14Probe {
	f.probeOnce.Do(func() {
		defer func() { recover() }()
		pf, err := parquet.OpenFile(bytes.NewReader(f.data), int64(len(f.data)), f.opts...)
		if err != nil {
			return
		}
		for gi, rg := range pf.RowGroups() {
			seen := map[string]bool{}
			count := map[int]int{}
			rows := rg.Rows()
			buf := make([]parquet.Row, 16)
			for {
				n, err := rows.ReadRows(buf)
				for _, row := range buf[:n] {
					for _, v := range row {
						k := fmt.Sprintf("%d/%s", v.Column(), gen.ValueKey(v))
						if v.IsNull() || seen[k] || count[v.Column()] >= 12 {
							continue
						}
						seen[k] = true
						count[v.Column()]++
						f.probes = append(f.probes, c14Probe{gi, v.Column(), v.Clone()})
					}
				}
				if err != nil || n == 0 {
					break
				}
			}
			rows.Close()
		}
	})
	return f.probes
}

var c14ZeroBlock = make([]byte, bloom.BlockSize)

func c14Lookup(r io.ReaderAt, size int64, f *c14File, lazy bool) (class, digest string, err error) {
	defer func() {
		if p := recover(); p != nil {
			class, err = "panic", fmt.Errorf("%v | %s", p, c14Stack())
		}
	}()
	opts := append([]parquet.FileOption{}, f.opts...)
	if lazy {
		opts = append(opts, parquet.SkipPageIndex(true), parquet.SkipBloomFilters(true))
	}
	probes := c14Probes(f)
	pf, err := parquet.OpenFile(r, size, opts...)
	if err != nil {
		return "open-error", "", err
	}
	var sb strings.Builder
	for gi, rg := range pf.RowGroups() {
		for ci, cc := range rg.ColumnChunks() {
			if bf := cc.BloomFilter(); bf != nil {
				for _, p := range probes {
					if p.rg != gi || p.col != ci {
						continue
					}
					// dirty destination buffers: the probe that follows takes its block from a pool;
					// leave one there that holds no bits (a zeroed filter answers "absent")
					bloom.CheckSplitBlock(bytes.NewReader(c14ZeroBlock), bloom.BlockSize, 0)
					ok, err := bf.Check(p.val)
					if err != nil {
						return "read-error", "", err
					}
					fmt.Fprintf(&sb, "rg%d col%d bloom(%s)=%v;", gi, ci, gen.ValueKey(p.val), ok)
				}
			}
			index, err := cc.ColumnIndex()
			switch {
			case err == parquet.ErrMissingColumnIndex:
			case err != nil:
				return "read-error", "", err
			default:
				for i := 0; i < index.NumPages(); i++ {
					fmt.Fprintf(&sb, "rg%d col%d page%d [%s %s] nulls=%d/%v;", gi, ci, i, gen.ValueKey(index.MinValue(i)), gen.ValueKey(index.MaxValue(i)), index.NullCount(i), index.NullPage(i))
				}
			}
			oi, err := cc.OffsetIndex()
			switch {
			case err == parquet.ErrMissingOffsetIndex:
			case err != nil:
				return "read-error", "", err
			default:
				for i := 0; i < oi.NumPages(); i++ {
					fmt.Fprintf(&sb, "rg%d col%d page%d @%d+%d row %d;", gi, ci, i, oi.Offset(i), oi.CompressedPageSize(i), oi.FirstRowIndex(i))
				}
			}
		}
		sb.WriteByte('\n')
	}
	return "ok", sb.String(), nil
}

// c14Collector is the RowWriter the copy histories write to: it digests what it is given
type c14Collector struct {
	sb  *strings.Builder
	got int64
}

func (c *c14Collector) WriteRows(rows []parquet.Row) (int, error) {
	for _, row := range rows {
		c.got++
		for _, v := range row {
			fmt.Fprintf(c.sb, "%d:%v,", v.Column(), gen.TripleOf(v))
		}
		c.sb.WriteByte(';')
	}
	return len(rows), nil
}

func c14SeekTarget(n, num, den int64) int64 {
	k := n * num / den
	if k < 1 && n > 1 {
		k = 1
	}
	return k
}

func c14SeekRows(r io.ReaderAt, size int64, f *c14File, num, den int64) (class, digest string, err error) {
	return c14SeekRowsVia(r, size, f, num, den, "readrows")
}

// via: readrows = the caller's own ReadRows loop (ends on err == io.EOF); copyrows = parquet.CopyRows
// into a collecting RowWriter; readrowsfrom = Writer.ReadRowsFrom into a scratch file that is read back
func c14SeekRowsVia(r io.ReaderAt, size int64, f *c14File, num, den int64, via string) (class, digest string, err error) {
	defer func() {
		if p := recover(); p != nil {
			class, err = "panic", fmt.Errorf("%v | %s", p, c14Stack())
		}
	}()
	pf, err := parquet.OpenFile(r, size, f.opts...)
	if err != nil {
		return "open-error", "", err
	}
	var sb strings.Builder
	for gi, rg := range pf.RowGroups() {
		n := rg.NumRows()
		k := c14SeekTarget(n, num, den)
		rows := rg.Rows()
		if num == 0 {
			k = 0 // no seek at all: the sequential copy
		} else if err := rows.SeekToRow(k); err != nil {
			rows.Close()
			return "read-error", "", err
		}
		got := int64(0)
		switch via {
		case "copyrows":
			coll := &c14Collector{sb: &sb}
			if _, err := parquet.CopyRows(coll, rows); err != nil {
				rows.Close()
				return "read-error", "", err
			}
			got = coll.got
		case "readrowsfrom":
			var out bytes.Buffer
			w := parquet.NewWriter(&out, pf.Schema())
			_, err := w.ReadRowsFrom(rows)
			if err == nil {
				err = w.Close()
			}
			if err != nil {
				rows.Close()
				return "read-error", "", err
			}
			cols, nr, err := gen.ReadRowsColumns(out.Bytes(), 16)
			if err != nil {
				rows.Close()
				return "altered", "", fmt.Errorf("the file written by ReadRowsFrom does not read back: %v", err)
			}
			got = int64(nr)
			for ci, col := range cols {
				fmt.Fprintf(&sb, "col%d:%v;", ci, col)
			}
		default:
			buf := make([]parquet.Row, 16)
			for {
				m, err := rows.ReadRows(buf)
				for _, row := range buf[:m] {
					got++
					for _, v := range row {
						fmt.Fprintf(&sb, "%d:%v,", v.Column(), gen.TripleOf(v))
					}
					sb.WriteByte(';')
				}
				if err == io.EOF {
					break
				}
				if err != nil {
					rows.Close()
					return "read-error", "", err
				}
				if m == 0 {
					rows.Close()
					return "read-error", "", fmt.Errorf("ReadRows returned 0 rows and no error")
				}
			}
		}
		rows.Close()
		fmt.Fprintf(&sb, "|rg%d rows %d..%d: %d\n", gi, k, n, got)
	}
	return "ok", sb.String(), nil
}

func c14SeekPages(r io.ReaderAt, size int64, f *c14File, num, den int64) (class, digest string, err error) {
	return c14SeekPagesVia(r, size, f, num, den, false)
}

// dictFirst: no seek; the dictionary of the chunk is loaded first (FilePages.ReadDictionary), so the
// sequential read that follows meets the dictionary page again and skips it (rbuf.Discard)
func c14SeekPagesVia(r io.ReaderAt, size int64, f *c14File, num, den int64, dictFirst bool) (class, digest string, err error) {
	defer func() {
		if p := recover(); p != nil {
			class, err = "panic", fmt.Errorf("%v | %s", p, c14Stack())
		}
	}()
	pf, err := parquet.OpenFile(r, size, f.opts...)
	if err != nil {
		return "open-error", "", err
	}
	var sb strings.Builder
	for gi, rg := range pf.RowGroups() {
		k := c14SeekTarget(rg.NumRows(), num, den)
		for ci, cc := range rg.ColumnChunks() {
			pages := cc.Pages()
			if dictFirst {
				k = 0
				if fp, ok := pages.(*parquet.FilePages); ok {
					if _, err := fp.ReadDictionary(); err != nil {
						pages.Close()
						return "read-error", "", err
					}
				}
			} else if err := pages.SeekToRow(k); err != nil {
				pages.Close()
				return "read-error", "", err
			}
			vals := make([]parquet.Value, 64)
			for {
				p, err := pages.ReadPage()
				if err == io.EOF {
					break
				}
				if err != nil {
					pages.Close()
					return "read-error", "", err
				}
				vr := p.Values()
				for {
					m, err := vr.ReadValues(vals)
					for _, v := range vals[:m] {
						fmt.Fprintf(&sb, "%v,", gen.TripleOf(v))
					}
					if err != nil {
						if err != io.EOF {
							parquet.Release(p)
							pages.Close()
							return "read-error", "", err
						}
						break
					}
					if m == 0 {
						break
					}
				}
				parquet.Release(p)
			}
			pages.Close()
			fmt.Fprintf(&sb, "|rg%d col%d from %d\n", gi, ci, k)
		}
	}
	return "ok", sb.String(), nil
}

func c14ReadAtFile(ctx *core.Ctx, f *c14File, sample bool) {
	bounds := c14PageBounds(f)
	ctx.Hist("readat.page-bounds "+f.name, sizeBucket(len(bounds)))
	for _, h := range c14Histories(ctx) {
		if f.only && f.onlyHist != "" && f.onlyHist != h.name {
			continue
		}
		c14ReadAtHistory(ctx, f, h, bounds, sample && h.name == "sequential")
	}
}

func c14ReadAtHistory(ctx *core.Ctx, f *c14File, h c14History, bounds []int64, sample bool) {
	r := ctx.Rand("c14/readat/" + f.name + "/" + h.name)
	var calls [][2]int64
	var want string
	count := func() (int, string) {
		x := &c14ReaderAt{r: bytes.NewReader(f.data), failAt: -1, keep: -1, record: true}
		class, digest, _ := h.run(x, int64(len(f.data)), f)
		calls, want = x.log, digest
		return int(x.calls), class
	}
	n1, class := count()
	want1 := want
	n2, _ := count()
	if class != "complete" && class != "ok" {
		ctx.Fail("L1", "fault-free-read-fails history="+h.name, "reading the file through a pass-through ReaderAt fails: "+class, map[string]any{"file": f.desc, "history": h.name})
		return
	}
	if n1 != n2 || len(calls) != n1 || want != want1 {
		ctx.Hist("readat.deterministic", "no")
		return
	}
	ctx.Hist("readat.calls "+h.name, sizeBucket(n1))
	idx := make([]int, n1)
	for i := range idx {
		idx[i] = i
	}
	if max := ctx.Scale(120, 100000); n1 > max {
		r.Shuffle(n1, func(i, j int) { idx[i], idx[j] = idx[j], idx[i] })
		keep := append([]int{0, 1, 2, 3, n1 - 1, n1 - 2}, idx[:max]...)
		idx = keep
	}
	if f.only {
		idx = []int{f.onlyN}
	}
	type fault struct {
		mode string
		keep int
	}
	for _, i := range idx {
		if i < 0 || i >= n1 {
			continue
		}
		off, ln := calls[i][0], int(calls[i][1])
		// short reads: half of the request, its ends, and every cut that falls on a page boundary
		// or between a page header and its body (the places where a premature io.EOF can look
		// like the end of a column chunk or of a page)
		cuts := []int{-1}
		if ln > 1 {
			cuts = append(cuts, 0) // (0, io.EOF) / (0, err): nothing delivered
		}
		if ln > 2 {
			cuts = append(cuts, 1, ln-1)
		}
		var onBound []int
		for _, b := range bounds {
			if b > off && b < off+int64(ln) {
				onBound = append(onBound, int(b-off))
			}
		}
		if max := ctx.Scale(8, 2000); len(onBound) > max {
			// keep the first ones (dictionary page header/body of the chunk the read starts in)
			rest := onBound[4:]
			r.Shuffle(len(rest), func(a, b int) { rest[a], rest[b] = rest[b], rest[a] })
			onBound = onBound[:max]
		}
		cuts = append(cuts, onBound...)
		faults := []fault{{"full", -1}, {"fullsticky", -1}}
		for _, c := range cuts {
			faults = append(faults, fault{"short", c}, fault{"shorteof", c})
		}
		if f.only && f.onlyMode != "" {
			faults = []fault{{f.onlyMode, f.onlyKeep}}
		}
		for _, ft := range faults {
			mode := ft.mode
			x := &c14ReaderAt{r: bytes.NewReader(f.data), failAt: int32(i), mode: mode, keep: ft.keep}
			class, digest, err := h.run(x, int64(len(f.data)), f)
			if class == "ok" {
				class = "complete"
				if digest != want {
					class, err = "altered", fmt.Errorf("read %s instead of %s", c14DigestDiff(digest, want), c14DigestDiff(want, digest))
				}
			}
			kept := 0
			if mode == "short" || mode == "shorteof" {
				kept = x.cut(x.hitLen)
			}
			if !x.hit || (mode != "full" && mode != "fullsticky" && kept == x.hitLen) {
				ctx.Hist("readat.skipped", "fault-not-effective")
				continue // call i was not reached, or a zero-length read: no fault was injected
			}
			if ft.keep >= 0 && mode == "shorteof" {
				ctx.Hist("readat.cut", "chosen")
			}
			ctx.Case(fmt.Sprintf("readat|%s|%s|%d|%s|%d", f.name, h.name, i, mode, kept), i > 0)
			ctx.Hist("readat.outcome "+mode, class)
			ctx.Hist("readat.history", h.name)
			detail := map[string]any{"file": f.desc, "name": f.name, "file_size": len(f.data), "history": h.name, "failing_call": i, "calls_fault_free": n1,
				"mode": mode, "read_offset": off, "read_length": x.hitLen, "kept_bytes": kept, "outcome": class}
			if err != nil {
				detail["error"] = headOf(err.Error(), 600)
			}
			if sample && i == n1/2 && mode == "short" {
				ctx.Sample(detail)
			}
			hk := "history=" + strings.SplitN(h.name, "-", 2)[0]
			if f.crypt {
				// the envelope readers of encrypted columns are code of their own: a defect that
				// shows on encrypted files only is told apart from one of the plain page path
				hk += " encrypted-columns"
			}
			switch class {
			case "panic":
				ctx.Fail("L1", "readat-fault-panics mode="+mode+" "+hk+" "+panicClass(err.Error()), fmt.Sprintf("ReadAt call %d fails (%s) and the reader panics", i, mode), detail)
			case "altered":
				key := "readat-fault-alters-rows mode=" + mode
				if h.name != "sequential" {
					key += " " + hk
				} else if f.crypt {
					key += " encrypted-columns"
				}
				what := "the reader returns fewer or different rows without an error"
				if strings.HasPrefix(h.name, "lookup") {
					what = "the lookup is answered differently (a bloom filter says absent for a key the chunk holds, or the page index differs) without an error: the rows behind it are missed"
				}
				ctx.Fail("L1", key, fmt.Sprintf("ReadAt call %d fails (%s) and %s", i, mode, what), detail)
			case "complete":
				// every row was returned although a read failed: the bytes were not needed or were
				// fetched again; not a loss, counted
				ctx.Hist("readat.absorbed "+mode, "complete-rows")
			}
		}
	}
}

// c14DigestDiff shows where digest a departs from b
func c14DigestDiff(a, b string) string {
	i := 0
	for i < len(a) && i < len(b) && a[i] == b[i] {
		i++
	}
	lo := i - 40
	if lo < 0 {
		lo = 0
	}
	return fmt.Sprintf("[%d bytes, at %d: …%s]", len(a), i, headOf(a[lo:], 120))
}

// c14PageBounds lists the file offsets at which a page starts, a page header ends (its body
// starts) or a column chunk ends.
func c14PageBounds(f *c14File) (bounds []int64) {
	defer func() { recover() }()
	pf, err := parquet.OpenFile(bytes.NewReader(f.data), int64(len(f.data)), f.opts...)
	if err != nil {
		return nil
	}
	set := map[int64]bool{}
	page := func(off int64) { // start of a page: add the end of its header and of its body
		if off <= 0 || off >= int64(len(f.data)) {
			return
		}
		set[off] = true
		func() {
			defer func() { recover() }()
			rd := bytes.NewReader(f.data[off:])
			var hdr format.PageHeader
			if err := thrift.NewDecoder(new(thrift.CompactProtocol).NewReader(rd)).Decode(&hdr); err != nil {
				return // encrypted header
			}
			hlen := int64(len(f.data[off:]) - rd.Len())
			set[off+hlen] = true
			set[off+hlen+int64(hdr.CompressedPageSize)] = true
		}()
	}
	for _, oi := range pf.OffsetIndexes() {
		for _, pl := range oi.PageLocations {
			page(pl.Offset)
			set[pl.Offset+int64(pl.CompressedPageSize)] = true
		}
	}
	// Encrypted modules (page header, page body, bloom filter header and bitset, column and
	// offset index of an encrypted column) are envelopes `len(4, LE) || nonce(12) || ciphertext
	// [|| tag(16)]` laid end to end: the reader takes each with two io.ReadFull (length, then the
	// rest), so a source that ends exactly between two envelopes, after a length prefix or after a
	// nonce hands the *bare* io.EOF of a 0-byte ReadFull to the page reader - the only places where
	// the end of the source can be mistaken for the regular end of a chunk. No thrift header can be
	// decoded there without the key: the cuts come from walking the length prefixes.
	envelopes := func(off, end int64, max int) {
		for k := 0; k < max && off > 0 && off+4 <= end && end <= int64(len(f.data)); k++ {
			ln := int64(binary.LittleEndian.Uint32(f.data[off:]))
			if ln < 12 || off+4+ln > end {
				return
			}
			set[off], set[off+4], set[off+4+12], set[off+4+ln] = true, true, true, true
			off += 4 + ln
		}
	}
	for _, rg := range pf.Metadata().RowGroups {
		for _, cc := range rg.Columns {
			page(cc.MetaData.DataPageOffset)
			page(cc.MetaData.DictionaryPageOffset)
			if cc.CryptoMetadata.Value == nil {
				continue
			}
			start := cc.MetaData.DataPageOffset
			if d := cc.MetaData.DictionaryPageOffset; d > 0 && d < start {
				start = d
			}
			envelopes(start, start+cc.MetaData.TotalCompressedSize, 1<<20)
			envelopes(cc.MetaData.BloomFilterOffset, int64(len(f.data)), 2)
			envelopes(cc.ColumnIndexOffset, cc.ColumnIndexOffset+int64(cc.ColumnIndexLength), 1)
			envelopes(cc.OffsetIndexOffset, cc.OffsetIndexOffset+int64(cc.OffsetIndexLength), 1)
		}
	}
	for b := range set {
		bounds = append(bounds, b)
	}
	sort.Slice(bounds, func(i, j int) bool { return bounds[i] < bounds[j] })
	return bounds
}

// L2 of the readAt wrapper
type c14Stub struct {
	n   int
	err error
}

func (s c14Stub) ReadAt(p []byte, off int64) (int, error) { return s.n, s.err }

func c14ReadAtWrap(ctx *core.Ctx) {
	d := ctx.Driver()
	if d == nil {
		return
	}
	var reqs, wants []string
	for want := 0; want <= 9; want++ {
		for n := 0; n <= want; n++ {
			for e := 0; e < 2; e++ {
				var err error
				if e == 1 {
					err = errC14Injected
				}
				gn, gerr := parquet.VerifReadAt(c14Stub{n, err}, make([]byte, want), 0)
				ge := 0
				if gerr != nil {
					ge = 1
				}
				reqs = append(reqs, fmt.Sprintf("readat.wrap %d %d %d", want, n, e))
				wants = append(wants, fmt.Sprintf("ok %d %d", gn, ge))
				ctx.Case(reqs[len(reqs)-1], n < want)
			}
		}
	}
	ans, err := d.AskMany(reqs)
	if err != nil {
		ctx.Fail("L2", "driver-error", err.Error(), nil)
		return
	}
	for i := range reqs {
		if ans[i] != wants[i] {
			ctx.Fail("L2", "readat-wrapper-differs", "readAt of file.go and its Lean mirror disagree", map[string]any{"request": reqs[i], "model": ans[i], "real": wants[i]})
		}
	}
}
