package props

// C15 scenario "keptviews": rows kept by their caller after the row reader let go of the page they
// came from, for every kind of row reader the library assembles — over a file row group and over
// every public view of row groups (ConvertRowGroup with a target that only moves columns,
// MultiRowGroup, MergeRowGroups without sorting columns, AsyncRowGroup and compositions of them),
// constructed through view.Rows(), NewRowGroupRowReader(view) and
// NewColumnChunkRowReader(view.ColumnChunks()). The views put page wrappers (re-indexed pages,
// pages of several chunks in a row, asynchronously produced pages) between the row reader and the
// pooled buffers; each of them has to pass on "release, but leave the byte-array contents to the
// garbage collector". The release paths are: page consumed (reading on across page boundaries while
// the caller keeps every row), SeekToRow in the middle of a page, Close in the middle of a page.
//
// Oracle (from the property, not from the library): a row handed out by ReadRows holds the values
// that were written — computed from the Go input rows by Schema.Deconstruct and a re-numbering of
// the leaf columns by path, no read path of the library involved — at hand-over and for as long as
// the caller keeps it, whatever readers run in this or another goroutine meanwhile. With
// poison-on-release active (verif build) a buffer that went back to a pool while rows point into it
// shows at once; without it the other readers' pages overwrite it.

import (
	"bytes"
	"fmt"
	"io"
	"math/rand"
	"strings"

	"github.com/parquet-go/parquet-go"
)

type C15View struct {
	ID int64    `parquet:"id"`
	S  string   `parquet:"s"`
	D  string   `parquet:"d,dict"`
	F  [6]byte  `parquet:"f"`
	O  *string  `parquet:"o,optional"`
	L  []string `parquet:"l,list"`
	G  C15ViewG `parquet:"g"`
	R  []byte   `parquet:"r"`
	N  int32    `parquet:"n"`
}

type C15ViewG struct {
	X int32  `parquet:"x"`
	Y string `parquet:"y,delta"`
}

func c15ViewRows(r *rand.Rand, n int) []C15View {
	rows := make([]C15View, n)
	for i := range rows {
		row := &rows[i]
		row.ID = int64(i)
		row.S = fmt.Sprintf("s-%06d-%s", i, strings.Repeat(string(rune('a'+r.Intn(26))), r.Intn(30)))
		row.D = fmt.Sprintf("d%02d", r.Intn(11))
		copy(row.F[:], fmt.Sprintf("%06d", i))
		if r.Intn(3) > 0 {
			o := fmt.Sprintf("o-%06d-%s", i, strings.Repeat("o", r.Intn(9)))
			row.O = &o
		}
		for j := r.Intn(4); j > 0; j-- {
			row.L = append(row.L, fmt.Sprintf("l-%06d-%d-%s", i, j, strings.Repeat("l", r.Intn(7))))
		}
		row.G = C15ViewG{X: int32(i), Y: fmt.Sprintf("y-%06d-%s", i, strings.Repeat("y", r.Intn(16)))}
		row.R = []byte(fmt.Sprintf("r-%06d-", i))
		row.R = append(row.R, bytes.Repeat([]byte{byte(r.Intn(256))}, r.Intn(20))...)
		row.N = int32(r.Intn(1000))
	}
	return rows
}

// c15Renumber gives the row the leaf column numbers of dst: the leaves of dst are those of src (same
// paths), in another order.
func c15Renumber(src, dst *parquet.Schema, row parquet.Row) (parquet.Row, error) {
	at := map[string]int{}
	for i, p := range src.Columns() {
		at[strings.Join(p, "\x00")] = i
	}
	out := make(parquet.Row, 0, len(row))
	for t, p := range dst.Columns() {
		s, ok := at[strings.Join(p, "\x00")]
		if !ok {
			return nil, fmt.Errorf("the schema of the view has a column %v the file does not have", p)
		}
		for _, v := range row {
			if v.Column() == s {
				out = append(out, v.Level(v.RepetitionLevel(), v.DefinitionLevel(), t))
			}
		}
	}
	if len(out) != len(row) {
		return nil, fmt.Errorf("the schema of the view lacks columns of the file: %v vs %v", dst.Columns(), src.Columns())
	}
	return out, nil
}

var (
	c15ViewKinds    = []string{"file", "convert", "multi", "multi-of-convert", "convert-of-multi", "async-of-convert", "merge", "convert-of-async"}
	c15ViewReaders  = []string{"Rows()", "NewRowGroupRowReader", "NewColumnChunkRowReader(ColumnChunks())"}
	c15ViewHistorys = []string{"read-all-keep-all", "seek-read-few-close", "seek-read-to-end", "read-seek-back-read"}
)

func scenKeptViews(seed int64, par bool) (string, error) {
	schema := parquet.SchemaOf(C15View{})
	gen := rand.New(rand.NewSource(seed))
	input := c15ViewRows(gen, 720)
	var out bytes.Buffer
	w := parquet.NewGenericWriter[C15View](&out, schema,
		parquet.PageBufferSize([]int{512, 1024, 3000}[int(seed)%3]), parquet.MaxRowsPerRowGroup(240),
		parquet.Compression(c15Codecs[int(seed)%len(c15Codecs)]), parquet.DataPageVersion(1+int(seed/3)%2))
	for off := 0; off < len(input); off += 41 {
		if _, err := w.Write(input[off:min(off+41, len(input))]); err != nil {
			return "", err
		}
	}
	if err := w.Close(); err != nil {
		return "", err
	}
	data := out.Bytes()
	f, err := parquet.OpenFile(bytes.NewReader(data), int64(len(data)))
	if err != nil {
		return "", err
	}
	groups := f.RowGroups()
	if len(groups) < 3 {
		return "", fmt.Errorf("harness: expected at least 3 row groups, the file has %d", len(groups))
	}
	// the rows of every row group as the input determines them, under the schema of the file
	srcRows := make([][]parquet.Row, len(groups))
	first := 0
	for g, rg := range groups {
		for i := first; i < first+int(rg.NumRows()); i++ {
			srcRows[g] = append(srcRows[g], schema.Deconstruct(nil, &input[i]))
		}
		first += int(rg.NumRows())
	}
	// a target that declares exactly the columns of the file in another order (all top-level fields
	// move unless the permutation has fixed points; it is never the identity)
	fields := schema.Fields()
	order := make([]string, len(fields))
	grp := parquet.Group{}
	for {
		moved := false
		for i, k := range gen.Perm(len(fields)) {
			order[i] = fields[k].Name()
			moved = moved || i != k
		}
		if moved {
			break
		}
	}
	for _, fl := range fields {
		grp[fl.Name()] = fl
	}
	target := parquet.NewSchema(schema.Name(), c12Group{Group: grp, order: order})

	convert := func(rg parquet.RowGroup) (parquet.RowGroup, error) {
		conv, err := parquet.Convert(target, rg.Schema())
		if err != nil {
			return nil, err
		}
		return parquet.ConvertRowGroup(rg, conv), nil
	}
	// build makes the view of the given kind over the row groups a, b of the file and says which
	// file row groups its rows are, in order
	build := func(kind string, a, b int) (view parquet.RowGroup, parts []int, err error) {
		switch kind {
		case "file":
			return groups[a], []int{a}, nil
		case "convert":
			view, err = convert(groups[a])
			return view, []int{a}, err
		case "multi":
			return parquet.MultiRowGroup(groups[a], groups[b]), []int{a, b}, nil
		case "multi-of-convert":
			ca, err := convert(groups[a])
			if err != nil {
				return nil, nil, err
			}
			cb, err := convert(groups[b])
			if err != nil {
				return nil, nil, err
			}
			return parquet.MultiRowGroup(ca, cb), []int{a, b}, nil
		case "convert-of-multi":
			view, err = convert(parquet.MultiRowGroup(groups[a], groups[b]))
			return view, []int{a, b}, err
		case "async-of-convert":
			view, err = convert(groups[a])
			if err != nil {
				return nil, nil, err
			}
			return parquet.AsyncRowGroup(view), []int{a}, nil
		case "convert-of-async":
			view, err = convert(parquet.AsyncRowGroup(groups[a]))
			return view, []int{a}, err
		case "merge":
			// no sorting columns: the rows of a, then the rows of b, under the given schema
			view, err = parquet.MergeRowGroups([]parquet.RowGroup{groups[a], groups[b]}, target)
			return view, []int{a, b}, err
		}
		return nil, nil, fmt.Errorf("harness: unknown view kind %q", kind)
	}

	const n = 8
	const rounds = 4
	type held struct {
		rows []parquet.Row
		want string
		at   string
	}
	kept := make([][]held, n)
	outs := make([]string, n)
	check := func(i int, when string) error {
		for _, h := range kept[i] {
			if now := rowsText(h.rows); now != h.want {
				a, b := c15FirstDiff(h.want, now)
				return fmt.Errorf("[rows-kept-after-page-released-changed] goroutine %d: rows it kept from %s no longer hold the values written, %s: written %s, now %s", i, h.at, when, a, b)
			}
		}
		return nil
	}
	err = fanout(par, n, func(i int) error {
		r := rand.New(rand.NewSource(seed*31 + int64(i)))
		var sb bytes.Buffer
		for round := 0; round < rounds; round++ {
			kind := c15ViewKinds[(i+round*3+int(seed))%len(c15ViewKinds)]
			a := r.Intn(len(groups))
			b := (a + 1 + r.Intn(len(groups)-1)) % len(groups)
			view, parts, err := build(kind, a, b)
			if err != nil {
				return fmt.Errorf("%s over row groups %d,%d: %w", kind, a, b, err)
			}
			var want []string // text of every row of the view
			for _, g := range parts {
				for _, row := range srcRows[g] {
					x, err := c15Renumber(schema, view.Schema(), row)
					if err != nil {
						return fmt.Errorf("%s: %w", kind, err)
					}
					want = append(want, rowsText([]parquet.Row{x}))
				}
			}
			total := int64(len(want))
			if view.NumRows() != total {
				return fmt.Errorf("[view-row-count] %s over row groups %v: NumRows %d, the parts have %d rows", kind, parts, view.NumRows(), total)
			}
			ctor := r.Intn(len(c15ViewReaders))
			var rr parquet.RowReadSeekCloser
			switch ctor {
			case 0:
				rr = view.Rows()
			case 1:
				rr = parquet.NewRowGroupRowReader(view)
			default:
				rr = parquet.NewColumnChunkRowReader(view.ColumnChunks())
			}
			hist := r.Intn(len(c15ViewHistorys))
			where := fmt.Sprintf("view %s over row groups %v of the file (target column order %v) read through %s, history %s", kind, parts, order, c15ViewReaders[ctor], c15ViewHistorys[hist])
			pos := int64(0)
			// read: one ReadRows of at most k rows; the rows are kept (the Value structs are copied out
			// of the batch, the byte arrays are the ones the reader handed out)
			read := func(k int) (int, error) {
				batch := make([]parquet.Row, k)
				got, err := rr.ReadRows(batch)
				if err != nil && err != io.EOF {
					return got, fmt.Errorf("%s: ReadRows at row %d: %w", where, pos, err)
				}
				if got == 0 && err == nil {
					return 0, fmt.Errorf("%s: ReadRows at row %d returned 0 rows without error", where, pos)
				}
				if pos+int64(got) > total {
					return got, fmt.Errorf("[view-row-count] %s: ReadRows delivered rows %d..%d of a view of %d rows", where, pos, pos+int64(got), total)
				}
				h := held{at: fmt.Sprintf("rows %d..%d of %s", pos, pos+int64(got), where), want: strings.Join(want[pos:pos+int64(got)], "")}
				for _, row := range batch[:got] {
					h.rows = append(h.rows, append(parquet.Row(nil), row...))
				}
				pos += int64(got)
				sb.WriteString(h.want)
				if now := rowsText(h.rows); now != h.want {
					x, y := c15FirstDiff(h.want, now)
					return got, fmt.Errorf("[rows-differ-from-input-at-handover] goroutine %d: %s as ReadRows returned them: written %s, read %s", i, h.at, x, y)
				}
				kept[i] = append(kept[i], h)
				if err == io.EOF {
					if pos != total {
						return got, fmt.Errorf("[view-row-count] %s: io.EOF after row %d of %d", where, pos, total)
					}
					return got, io.EOF
				}
				return got, nil
			}
			seek := func(to int64) error {
				if err := rr.SeekToRow(to); err != nil {
					return fmt.Errorf("%s: SeekToRow(%d): %w", where, to, err)
				}
				pos = to
				return nil
			}
			toEnd := func() error {
				for pos < total {
					if _, err := read(1 + r.Intn(90)); err != nil {
						if err == io.EOF {
							return nil
						}
						return err
					}
				}
				return nil
			}
			err = func() error {
				switch c15ViewHistorys[hist] {
				case "read-all-keep-all":
					return toEnd()
				case "seek-read-few-close":
					if err := seek(r.Int63n(total - 20)); err != nil {
						return err
					}
					_, err := read(1 + r.Intn(12))
					if err == io.EOF {
						err = nil
					}
					return err
				case "seek-read-to-end":
					if err := seek(total - int64(60+r.Intn(150))); err != nil {
						return err
					}
					return toEnd()
				default: // read-seek-back-read: the page in hand is let go by SeekToRow
					for k := 0; k < 2; k++ {
						if _, err := read(30 + r.Intn(60)); err != nil && err != io.EOF {
							return err
						}
					}
					// some views refuse to go back ("concatenating row reader cannot seek backward":
					// a matter of the seek property C08, not of this one): the page in hand is then
					// let go by a seek forward
					back, fwd := r.Int63n(pos), min(pos+int64(r.Intn(25)), total-1)
					if err := rr.SeekToRow(back); err == nil {
						pos = back
					} else if err := seek(fwd); err != nil {
						return err
					}
					for k := 0; k < 2; k++ {
						if _, err := read(30 + r.Intn(60)); err != nil && err != io.EOF {
							return err
						}
					}
					return nil
				}
			}()
			cerr := rr.Close()
			if err != nil {
				return err
			}
			if cerr != nil {
				return fmt.Errorf("%s: Close: %w", where, cerr)
			}
			// other work of the same goroutine: a stretch of another row group, read to its end
			other := groups[(a+1)%len(groups)]
			or := other.Rows()
			if err := or.SeekToRow(other.NumRows() - int64(40+r.Intn(100))); err != nil {
				or.Close()
				return err
			}
			tail := make([]parquet.Row, 32)
			for {
				m, err := or.ReadRows(tail)
				sb.WriteString(rowsText(tail[:m]))
				if err != nil {
					if err != io.EOF {
						or.Close()
						return err
					}
					break
				}
			}
			if err := or.Close(); err != nil {
				return err
			}
			if err := check(i, "after their reader was closed and other readers ran"); err != nil {
				return err
			}
		}
		outs[i] = sb.String()
		return nil
	})
	if err != nil {
		return "", err
	}
	for i := range kept {
		if err := check(i, "after all goroutines finished"); err != nil {
			return "", err
		}
	}
	return digestStrings(outs), nil
}
