package props

// C14, sub-check "kway": the k-way merge reader (mergedRowReader, merge.go: loser tree, k >= 3) over
// scripted sources that may fail. L1 (written from the property): no panic; a session whose first
// non-nil answer is io.EOF has handed out every row of every input in the order of that input; a
// fault that bites is answered by an error, not by io.EOF; once a call has answered an error no later
// call hands out rows. L2: every ReadRows call (rows with the input they came from, result) equals the
// Lean mirror RdK.MK.readRows (lean/PqModel/MergeKFault.lean, op `io.kway`; run mode included); the consumer keeps
// calling after an error (two more calls), so the retry behaviour is compared too.

import (
	"fmt"
	"io"
	"strings"

	"github.com/parquet-go/parquet-go"

	"verifharness/core"
)

func init() { RegisterSub("C14", "kway", RunC14Kway) }

const c14KwayRule = "sessions of parquet.MergeRowReaders over k in {3..9, 16, 33} scripted sources (sorted, one case in six with a few rows swapped; rows 0..400 around the 24/48/96/192 buffer sizes, equal-key runs, gaps; a sticky fault after 0, 1, 23..25, 72, 73, n-1, n, n+1 or a random number of rows on 0, 1, 2 or all inputs; error alone or with rows; io.EOF eager or not) x 60 buffer lengths of the consumer in {0,1,2,3,7,16,24,37,64,100,300}; non-trivial = some input fails before it has delivered all its rows"

func c14KwayParseScript(s string, tag int32) *c14Script {
	p := strings.Split(s, ":")
	sc := &c14Script{failIn: -1, tag: tag}
	if len(p) != 4 {
		return sc
	}
	if p[0] != "-" {
		for _, x := range strings.Split(p[0], ",") {
			var k int64
			fmt.Sscan(x, &k)
			sc.rem = append(sc.rem, k)
		}
	}
	if p[1] != "-" {
		fmt.Sscan(p[1], &sc.failIn)
	}
	sc.eager, sc.errWithRows = p[2] == "1", p[3] == "1"
	return sc
}

// c14KwayReal runs the real MergeRowReaders over the scripts; answer in the format of `io.kway`.
// first = result of the first call that did not answer nil ("n" if none); rowsAfterErr = a call after
// the first error handed out rows.
func c14KwayReal(srcs []*c14Script, caps []int) (ans string, proj [][]int64, first string, rowsAfterErr bool) {
	defer func() {
		if p := recover(); p != nil {
			ans, first = fmt.Sprintf("PANIC %v | %s", p, c14Stack()), "panic"
		}
	}()
	proj = make([][]int64, len(srcs))
	readers := make([]parquet.RowReader, len(srcs))
	for i, s := range srcs {
		readers[i] = s
	}
	m := parquet.MergeRowReaders(readers, c14MCompare)
	var calls []string
	first = "n"
	after := -1 // calls still allowed after the first error
	for _, c := range caps {
		if after == 0 {
			break
		}
		buf := make([]parquet.Row, c)
		n, err := m.ReadRows(buf)
		var rs []string
		for _, row := range buf[:n] {
			t := int(row[1].Int32())
			if first == "n" {
				proj[t] = append(proj[t], row[0].Int64())
			} else {
				rowsAfterErr = true
			}
			rs = append(rs, fmt.Sprintf("%d_%d", t, row[0].Int64()))
		}
		res := "n"
		switch {
		case err == io.EOF:
			res = "e"
		case err != nil:
			res = "x"
		}
		rows := "-"
		if len(rs) > 0 {
			rows = strings.Join(rs, ",")
		}
		calls = append(calls, res+":"+rows)
		if first == "n" {
			first = res
		}
		if res == "e" {
			break
		}
		if res == "x" {
			if after < 0 {
				after = 2
			} else {
				after--
			}
		} else if after > 0 {
			after--
		}
	}
	if len(calls) == 0 {
		return "ok -", proj, first, rowsAfterErr
	}
	return "ok " + strings.Join(calls, "|"), proj, first, rowsAfterErr
}

func c14KwayCase(ctx *core.Ctx, srcs []*c14Script, caps []int, reqs, wants *[]string) {
	var ss, cs []string
	rows := make([][]int64, len(srcs))
	bites := false
	for i, s := range srcs {
		ss = append(ss, s.String())
		rows[i] = append([]int64{}, s.rem...)
		bites = bites || (s.failIn >= 0 && s.failIn < len(s.rem))
	}
	for _, c := range caps {
		cs = append(cs, fmt.Sprint(c))
	}
	capStr := "-"
	if len(cs) > 0 {
		capStr = strings.Join(cs, ",")
	}
	req := fmt.Sprintf("io.kway %s %s", strings.Join(ss, "/"), capStr)
	ans, proj, first, rowsAfterErr := c14KwayReal(srcs, caps)
	ctx.Case(req, bites)
	ctx.Hist("kway.k", fmt.Sprint(len(srcs)))
	ctx.Hist("kway.first-non-nil", first)
	ctx.Hist("kway.bites", fmt.Sprint(bites))
	ctx.Hist("kway.calls", fmt.Sprint(strings.Count(ans, "|")+1))
	detail := map[string]any{"request": req, "session_first_non_nil": first}
	switch {
	case first == "panic":
		ctx.Fail("L1", "scripted-kway-panics", "MergeRowReaders over k scripted sources panics", map[string]any{"request": req, "panic": ans})
	case first == "e":
		for t := range srcs {
			if fmt.Sprint(proj[t]) != fmt.Sprint(rows[t]) {
				detail["input"] = t
				detail["rows_of_input_in_output"] = len(proj[t])
				detail["rows_of_input"] = len(rows[t])
				key := "scripted-kway-eof-with-rows-missing"
				if !bites {
					key = "scripted-kway-alters-rows"
				}
				ctx.Fail("L1", key, fmt.Sprintf("the merge of %d scripted sources ends with io.EOF, no call returned an error, and the output holds %d of the %d rows of input %d", len(srcs), len(proj[t]), len(rows[t]), t), detail)
				break
			}
		}
	}
	if rowsAfterErr {
		ctx.Fail("L1", "scripted-kway-rows-after-error", "a ReadRows call of the k-way merge hands out rows after an earlier call answered an error of a sticky source", detail)
	}
	*reqs = append(*reqs, req)
	*wants = append(*wants, ans)
}

func RunC14Kway(ctx *core.Ctx) {
	ctx.SetRule(c14KwayRule)
	d := ctx.Driver()
	if d == nil {
		return
	}
	var reqs, wants []string
	if rp := c14LoadReplay(ctx); rp != nil {
		f := strings.Fields(rp.str("request"))
		if len(f) != 3 || f[0] != "io.kway" {
			return
		}
		var srcs []*c14Script
		for i, s := range strings.Split(f[1], "/") {
			srcs = append(srcs, c14KwayParseScript(s, int32(i)))
		}
		var caps []int
		if f[2] != "-" {
			for _, x := range strings.Split(f[2], ",") {
				var c int
				fmt.Sscan(x, &c)
				caps = append(caps, c)
			}
		}
		c14KwayCase(ctx, srcs, caps, &reqs, &wants)
	} else {
		r := ctx.Rand("c14/kway/scripted")
		n := ctx.Scale(1200, 12000)
		for i := 0; i < n; i++ {
			k := []int{3, 3, 4, 5, 6, 7, 8, 9, 16, 33}[r.Intn(10)]
			srcs := make([]*c14Script, k)
			for j := range srcs {
				srcs[j] = c14RandScript(r, int32(j))
				if k > 9 && r.Intn(2) == 0 { // many inputs: keep most of them short
					if len(srcs[j].rem) > 30 {
						srcs[j].rem = srcs[j].rem[:r.Intn(30)]
					}
				}
			}
			// one case in six: some inputs are not sorted (the run-length gallop of run mode then
			// works on a window that is not a sorted run; completeness must not depend on the order)
			if r.Intn(6) == 0 {
				for _, s := range srcs {
					if r.Intn(2) == 0 && len(s.rem) > 1 {
						for t := r.Intn(4) + 1; t > 0; t-- {
							a, b := r.Intn(len(s.rem)), r.Intn(len(s.rem))
							s.rem[a], s.rem[b] = s.rem[b], s.rem[a]
						}
					}
				}
				ctx.Hist("kway.order", "unsorted")
			} else {
				ctx.Hist("kway.order", "sorted")
			}
			// which inputs may fail: none, one, two, or whatever the scripts say
			keep := map[int]bool{}
			switch r.Intn(8) {
			case 0:
			case 1, 2, 3, 4:
				keep[r.Intn(k)] = true
			case 5, 6:
				keep[r.Intn(k)] = true
				keep[r.Intn(k)] = true
			default:
				for j := range srcs {
					keep[j] = true
				}
			}
			for j, s := range srcs {
				if !keep[j] {
					s.failIn = -1
				} else if s.failIn < 0 && r.Intn(2) == 0 {
					s.failIn = r.Intn(len(s.rem) + 2)
				}
			}
			var caps []int
			for j := 0; j < 60; j++ {
				caps = append(caps, []int{1, 2, 3, 7, 16, 24, 37, 64, 100, 300}[r.Intn(10)])
				if r.Intn(50) == 0 {
					caps[j] = 0
				}
			}
			c14KwayCase(ctx, srcs, caps, &reqs, &wants)
		}
	}
	ans, err := d.AskMany(reqs)
	if err != nil {
		ctx.Fail("L2", "driver-error", err.Error(), nil)
		return
	}
	for i := range reqs {
		if strings.HasPrefix(wants[i], "PANIC") {
			continue // reported by L1
		}
		if ans[i] != wants[i] {
			ctx.Fail("L2", "kway-session-differs", "a session of MergeRowReaders over k scripted sources and its Lean mirror (RdK.MK.readRows) disagree",
				map[string]any{"request": reqs[i], "model": headOf(ans[i], 600), "real": headOf(wants[i], 600), "first_difference": c14DigestDiff(wants[i], ans[i])})
		} else {
			ctx.Hist("kway.l2", "session-equal")
		}
	}
}
