package props

import (
	"bytes"
	"fmt"
	"io"
	"math/rand"
	"reflect"
	"strings"
	"sync"

	"verifharness/core"
	"verifharness/gen"

	"github.com/parquet-go/parquet-go"
)

// C11 / batches — the value batches of the column-oriented re-encode path (copyColumnValues,
// writer_reencode.go) against the Lean mirror `copyLoop` (PqModel/CopyValues.lean).
//
// A source row group (GenericBuffer: one page per column, so the reads fill the 1024-value buffer
// and end in the middle of rows; file row groups written with random page sizes; row-range views)
// is handed to WriteRowGroup of a writer with PageBufferSize(1), verbatim copy switched off: the
// column writer then flushes a data page at the end of every batch it is handed, and the number of
// values of the output's data pages are the batch sizes.
// L2: they must be the sizes `copyLoop` computes from the source's pages (per page: which values
//     have repetition level 0) with len(buf) = 1024 — for repeated and flat columns.
// L1 (format: a data page starts at the beginning of a row): the first value of every output page
//     of a repeated column has repetition level 0.
func init() { RegisterSub("C11", "batches", RunC11Batches) }

// the pages of a column chunk: per page the number of values and, for repeated columns, the
// repetition levels
func c11ChunkPages(c parquet.ColumnChunk, repeated bool) (sizes []int64, starts []string, err error) {
	defer func() {
		if r := recover(); r != nil {
			err = fmt.Errorf("PANIC: %v", r)
		}
	}()
	pages := c.Pages()
	defer pages.Close()
	for {
		p, e := pages.ReadPage()
		if e == io.EOF {
			return sizes, starts, nil
		}
		if e != nil {
			return sizes, starts, e
		}
		n := p.NumValues()
		sizes = append(sizes, n)
		var sb strings.Builder
		if repeated {
			lv := p.RepetitionLevels()
			if int64(len(lv)) != n {
				parquet.Release(p)
				return sizes, starts, fmt.Errorf("page of %d values with %d repetition levels", n, len(lv))
			}
			for _, l := range lv {
				if l == 0 {
					sb.WriteByte('1')
				} else {
					sb.WriteByte('0')
				}
			}
		} else {
			sb.WriteString(strings.Repeat("1", int(n)))
		}
		starts = append(starts, sb.String())
		parquet.Release(p)
	}
}

func c11RunBatches(ctx *core.Ctx, d interface {
	AskMany([]string) ([]string, error)
}, e *gen.Entry, r *rand.Rand, kind string, sample bool) {
	long := r.Intn(4) == 0
	n := []int{1, 2, 3, 33, 257, 600, 1030, 2100}[r.Intn(8)]
	prof := &gen.Profile{NullProb: []float64{0.1, 0.5}[r.Intn(2)], MaxLen: 1 + r.Intn(5), SmallDomain: r.Intn(2) == 0}
	if long { // rows longer than the buffer: the buffer doubles (once or twice)
		n = 1 + r.Intn(6)
		prof.LongLists, prof.NullProb = true, 0.1 // one scalar slice per row gets 513-2100 elements
	}
	rows := e.NewRows(n)
	gen.FillRows(r, rows, prof)
	var texts []string
	for i := 0; i < n && i < 20; i++ {
		var one gen.Shredder
		texts = append(texts, one.ShredRow(e.Schema, rows.Index(i)))
	}
	env := &c11Env{chunkOf: map[*parquet.FileColumnChunk]*c11Chunk{}}
	a := c11RandCfg(r, e.Schema)
	if a.Enc {
		return
	}
	var srcs []*c11Source
	desc := kind
	switch kind {
	case "buffer":
		g, err := e.NewGenericBuffer(rows.Interface())
		if err != nil {
			ctx.Hist("skipped", "buffer")
			return
		}
		srcs = []*c11Source{{kind: kind, rg: g}}
	case "file", "range":
		file, err := c11WriteFile(e, rows, a)
		if err != nil {
			ctx.Hist("skipped", "source-write")
			return
		}
		cf, err := env.open(file, reflect.Value{})
		if err != nil {
			ctx.Hist("skipped", "source-open")
			return
		}
		desc += " " + a.Desc
		for _, rg := range cf.rgs {
			m := rg.NumRows()
			if kind == "range" && m >= 2 {
				k := 1 + r.Int63n(m-1)
				srcs = append(srcs, &c11Source{kind: kind, rg: parquet.VerifNewRowRangeRowGroup(rg, 0, k)}, &c11Source{kind: kind, rg: parquet.VerifNewRowRangeRowGroup(rg, k, m-k)})
			} else {
				srcs = append(srcs, &c11Source{kind: kind, rg: rg})
			}
		}
	}
	if len(srcs) == 0 {
		return
	}
	if len(srcs) > 6 { // a small MaxRowsPerRowGroup of the source configuration: the first row groups are enough
		srcs = srcs[:6]
	}
	detail := func(extra map[string]any) map[string]any {
		m := map[string]any{"type": e.Name, "source": desc, "rows": texts, "num_rows": n, "long_lists": long,
			"destination": "PageBufferSize(1), verbatim copy disabled", "regenerate": "stream c11-batches/" + e.Name}
		for k, v := range extra {
			m[k] = v
		}
		return m
	}
	cfg := &c11Cfg{Opts: []parquet.WriterOption{parquet.PageBufferSize(1)}, Bloom: map[string]uint{}, Desc: "pagebuf=1"}
	// the write: verbatim copy off, re-encode on
	var out c11Out
	func() {
		defer func() {
			if rec := recover(); rec != nil {
				out.err = fmt.Errorf("PANIC: %v", rec)
			}
		}()
		var buf bytes.Buffer
		pw, err := c11NewWriter(&buf, e.Schema, cfg)
		if err != nil {
			out.err = err
			return
		}
		c11Mu.Lock()
		func() {
			defer c11Mu.Unlock()
			oc := parquet.VerifSetDisableWriteCopy(true)
			or := parquet.VerifSetDisableWriteReencode(false)
			defer parquet.VerifSetDisableWriteCopy(oc)
			defer parquet.VerifSetDisableWriteReencode(or)
			r0 := parquet.VerifReencodePathCount()
			for _, s := range srcs {
				if _, err := pw.WriteRowGroup(s.rg); err != nil {
					out.err = err
					break
				}
			}
			out.reencN = parquet.VerifReencodePathCount() - r0
		}()
		if out.err == nil {
			out.err = pw.Close()
		}
		out.file = buf.Bytes()
	}()
	canon := fmt.Sprintf("%s|%s|%d|%v|%s", e.Name, desc, n, long, strings.Join(texts, "|"))
	if out.err != nil {
		ctx.Case(canon, false)
		ctx.Fail("L1", "write-row-group-error kind="+kind+" page-buffer=1 "+errClass(out.err), "WriteRowGroup (column-oriented re-encode, PageBufferSize(1)) failed on a valid row group: "+out.err.Error(), detail(nil))
		return
	}
	if out.reencN != int64(len(srcs)) {
		ctx.Case(canon, false)
		ctx.Hist("skipped", fmt.Sprintf("not-every-row-group-re-encoded kind=%s", kind))
		return
	}
	f, err := parquet.OpenFile(bytes.NewReader(out.file), int64(len(out.file)))
	if err != nil || len(f.RowGroups()) != len(srcs) {
		ctx.Case(canon, false)
		ctx.Fail("L1", "output-unopenable kind="+kind+" page-buffer=1", fmt.Sprintf("OpenFile: %v; %d row groups for %d WriteRowGroup calls", err, len(f.RowGroups()), len(srcs)), detail(nil))
		return
	}
	paths := e.Schema.Columns()
	var reqs []string
	type obs struct {
		gi, ci int
		rep    bool
		sizes  []int64
		src    []string
	}
	var all []obs
	nontrivial := false
	for gi, s := range srcs {
		srcChunks, outChunks := s.rg.ColumnChunks(), f.RowGroups()[gi].ColumnChunks()
		for ci := range paths {
			leaf, ok := e.Schema.Lookup(paths[ci]...)
			if !ok || ci >= len(srcChunks) || ci >= len(outChunks) {
				continue
			}
			rep := leaf.MaxRepetitionLevel > 0
			_, srcStarts, err := c11ChunkPages(srcChunks[ci], rep)
			if err != nil {
				ctx.Hist("skipped", "source-pages-unreadable")
				continue
			}
			sizes, outStarts, err := c11ChunkPages(outChunks[ci], rep)
			if err != nil {
				ctx.Fail("L1", "output-pages-unreadable kind="+kind+" page-buffer=1 "+errClass(err), "the pages of the re-encoded output cannot be read: "+err.Error(), detail(map[string]any{"row_group": gi, "column": ci}))
				continue
			}
			for pi, st := range outStarts {
				if rep && len(st) > 0 && st[0] != '1' {
					ctx.Fail("L1", fmt.Sprintf("reencoded-page-starts-mid-row kind=%s", kind), fmt.Sprintf("data page %d of column %d of the re-encoded row group %d starts with a value of repetition level > 0", pi, ci, gi),
						detail(map[string]any{"row_group": gi, "column": ci, "output_page_sizes": sizes, "source_pages": srcStarts}))
					break
				}
			}
			total := 0
			for _, st := range srcStarts {
				total += len(st)
			}
			ctx.Hist("column", fmt.Sprintf("%s repeated=%v values=%s batches=%s", kind, rep, c11Bucket(total), c11Bucket(len(sizes))))
			if rep && total > 1024 {
				nontrivial = true
			}
			pg := "-"
			if len(srcStarts) > 0 {
				pg = strings.Join(srcStarts, ";")
			}
			reqs = append(reqs, fmt.Sprintf("copy.batches %d 1024 %s", b2i(rep), pg))
			all = append(all, obs{gi, ci, rep, sizes, srcStarts})
		}
	}
	ctx.Case(canon, nontrivial)
	ctx.Hist("kind", kind)
	if sample {
		ctx.Sample(detail(nil))
	}
	if d == nil || len(reqs) == 0 {
		return
	}
	ans, err := d.AskMany(reqs)
	if err != nil {
		ctx.Fail("L2", "driver-error", err.Error(), nil)
		return
	}
	for i, a := range ans {
		o := all[i]
		var ss []string
		for _, s := range o.sizes {
			ss = append(ss, fmt.Sprint(s))
		}
		got := "-"
		if len(ss) > 0 {
			got = strings.Join(ss, ",")
		}
		fs := strings.Fields(a)
		if len(fs) != 3 || fs[0] != "ok" {
			ctx.Fail("L2", "driver-bad-answer", "pqdriver did not answer copy.batches", map[string]any{"request": reqs[i], "answer": a})
			return
		}
		if fs[1] != "done" {
			ctx.Fail("L2", "copy-batches-mirror-does-not-finish "+fs[1], "the mirror of copyColumnValues does not end on EOF", detail(map[string]any{"request": reqs[i], "answer": a}))
			continue
		}
		for _, s := range strings.Split(fs[2], ",") {
			var v int
			fmt.Sscan(s, &v)
			if v > 1024 {
				ctx.Hist("buffer-doubled", fmt.Sprintf("%s batch=%s", kind, c11Bucket(v)))
				break
			}
		}
		if fs[2] != got {
			ctx.Fail("L2", fmt.Sprintf("copy-batches-vs-mirror kind=%s repeated=%v", kind, o.rep),
				fmt.Sprintf("row group %d column %d: the data pages written under PageBufferSize(1) hold %s values, the mirror of copyColumnValues hands the column writer batches of %s", o.gi, o.ci, got, fs[2]),
				detail(map[string]any{"request": reqs[i], "answer": a, "row_group": o.gi, "column": o.ci}))
		}
	}
}

func c11Bucket(n int) string {
	switch {
	case n == 0:
		return "0"
	case n == 1:
		return "1"
	case n <= 1023:
		return "2..1023"
	case n == 1024:
		return "1024"
	case n <= 2048:
		return "1025..2048"
	case n <= 4096:
		return "2049..4096"
	}
	return ">4096"
}

func RunC11Batches(ctx *core.Ctx) {
	ctx.SetRule("catalogue struct types x random rows (1..2100 rows, lists of 0..5 elements; one case in four: 1..6 rows with one list of 513..2100 elements per row, up to more than twice the 1024-value buffer) x source kind {GenericBuffer (one page per column: reads fill the buffer), file row groups under a random configuration (reads end at the source's pages), two row-range views per file row group} -> WriteRowGroup into a writer with PageBufferSize(1), verbatim copy disabled; per column the values per output data page = batches of copyColumnValues; non-trivial = a repeated column with more than 1024 values")
	per := ctx.Scale(2, 6)
	var wg sync.WaitGroup
	sem := make(chan struct{}, 16)
	for ei, e := range gen.Catalog {
		wg.Add(1)
		sem <- struct{}{}
		go func(ei int, e *gen.Entry) {
			defer wg.Done()
			defer func() { <-sem }()
			d := ctx.Driver()
			r := ctx.Rand("c11-batches/" + e.Name)
			for _, kind := range []string{"buffer", "file", "range"} {
				reps := per
				if kind != "buffer" && !ctx.Thorough() {
					reps = per / 2
				}
				for k := 0; k < reps; k++ {
					func() {
						defer func() {
							if rec := recover(); rec != nil {
								ctx.Fail("L1", "panic-building-source kind="+kind+" (batches)", fmt.Sprintf("building or writing the source row group panicked: %v", rec), map[string]any{"type": e.Name, "kind": kind})
							}
						}()
						if d == nil {
							c11RunBatches(ctx, nil, e, r, kind, false)
						} else {
							c11RunBatches(ctx, d, e, r, kind, ei == 1 && k == 0)
						}
					}()
				}
			}
		}(ei, e)
	}
	wg.Wait()
}
