package props

// C08, sub-check "mem" — the property on in-memory containers.
//
// The property speaks of "any row/page/value reader of a file or buffer". The sub-check "histories"
// drives files (and GenericBuffer rows / pages on the side); this one holds the same random rows in
// every in-memory container the library has — RowBuffer[T], Buffer, GenericBuffer[T], and
// MultiRowGroup over a mix of them — and runs the same kind of histories on every reader they hand
// out: Rows() (rowBufferRows for RowBuffer, rowGroupRows for the buffers), NewRowGroupRowReader,
// NewRowGroupReader (the deprecated Reader around them), ColumnChunks()[c].Pages() (singlePage over a
// rowBufferPage / a buffer page) and NewColumnChunkValueReader. The oracle is the one of
// "histories": the rows that were written (shredded by the harness), at the reference position, after
// every op. Histories are aimed at the end: SeekToRow(NumRows), NumRows+1, far beyond, each followed
// by reads, straight away, after forward / backward seeks and repeated, on containers of 0, 1, 2.. rows.
//
// Not here: MultiRowGroup(...).Rows() over row groups whose Rows() is not their chunks read in order
// (RowBuffer): that is concatenatingRowsWrapper, a forward-only reader by design (refuses backward seeks).

import (
	"fmt"
	"io"
	"math/rand"
	"os"
	"reflect"
	"strings"
	"sync"
	"time"

	"github.com/parquet-go/parquet-go"

	"verifharness/core"
	"verifharness/gen"
)

func init() { RegisterSub("C08", "mem", RunC08Mem) }

// kind = "mem-" + container + "-" + reader
var c08MemKinds = []string{
	"mem-rowbuffer-rows",      // RowBuffer[T].Rows()  (rowBufferRows)
	"mem-rowbuffer-rowreader", // NewRowGroupRowReader(rowBuffer): rowGroupRows over singlePage readers
	"mem-rowbuffer-reader",    // NewRowGroupReader(rowBuffer).SeekToRow/ReadRows
	"mem-rowbuffer-pages",     // RowBuffer[T].ColumnChunks()[c].Pages()  (singlePage over rowBufferPage)
	"mem-rowbuffer-values",    // NewColumnChunkValueReader over that chunk
	"mem-buffer-rows",         // Buffer.Rows()
	"mem-buffer-rowreader",
	"mem-buffer-reader",
	"mem-buffer-pages",
	"mem-buffer-values",
	"mem-genericbuffer-rows", // GenericBuffer[T].Rows()
	"mem-genericbuffer-rowreader",
	"mem-genericbuffer-reader",
	"mem-genericbuffer-pages",
	"mem-genericbuffer-values",
	// MultiRowGroup over 1..4 containers of random kinds holding consecutive stretches of the rows
	"mem-multi-rows", // only when every part reads its chunks in order (Buffer / GenericBuffer parts)
	"mem-multi-rowreader",
	"mem-multi-pages",
	"mem-multi-values",
}

var c08MemContainers = []string{"rowbuffer", "buffer", "genericbuffer"}

// c08Mem: how the rows of a c08File are held in memory.
type c08Mem struct {
	generic func(lo, hi int) (parquet.RowGroup, error) // GenericBuffer[T] of rows lo..hi-1
	parts   []string                                   // mem-multi-*: container of each part (rows rgStart[i]..rgStart[i+1]-1)
	cache   map[string]parquet.RowGroup
}

func (f *c08File) memContainer(container string, lo, hi int) (rg parquet.RowGroup, err error) {
	defer func() {
		if r := recover(); r != nil {
			err = fmt.Errorf("PANIC building %s of rows %d..%d: %v", container, lo, hi, r)
		}
	}()
	switch container {
	case "rowbuffer":
		rb := parquet.NewRowBuffer[any](f.schema)
		for i := lo; i < hi; i++ {
			// what RowBuffer[T].Write does with &rows[i]
			row := f.schema.Deconstruct(nil, f.rows.Index(i).Addr().Interface())
			if _, err := rb.WriteRows([]parquet.Row{row}); err != nil {
				return nil, err
			}
		}
		return rb, nil
	case "buffer":
		b := parquet.NewBuffer(f.schema)
		for i := lo; i < hi; i++ {
			if err := b.Write(f.rows.Index(i).Addr().Interface()); err != nil {
				return nil, err
			}
		}
		return b, nil
	case "genericbuffer":
		return f.mem.generic(lo, hi)
	}
	return nil, fmt.Errorf("unknown container %q", container)
}

// memRowGroup returns the (cached: readers do not modify it) container of a kind.
func (f *c08File) memRowGroup(container string) (parquet.RowGroup, error) {
	if rg := f.mem.cache[container]; rg != nil {
		return rg, nil
	}
	var rg parquet.RowGroup
	var err error
	if container == "multi" {
		if len(f.mem.parts) == 0 {
			return nil, fmt.Errorf("no parts")
		}
		var parts []parquet.RowGroup
		for i, c := range f.mem.parts {
			p, err := f.memContainer(c, f.rgStart[i], f.rgStart[i+1])
			if err != nil {
				return nil, err
			}
			parts = append(parts, p)
		}
		rg = parquet.MultiRowGroup(parts...)
	} else {
		rg, err = f.memContainer(container, 0, f.n)
	}
	if err != nil {
		return nil, err
	}
	if int(rg.NumRows()) != f.n {
		return nil, fmt.Errorf("%s holds NumRows=%d, %d rows written", container, rg.NumRows(), f.n)
	}
	f.mem.cache[container] = rg
	return rg, nil
}

func (f *c08File) openMem(sp c08Spec, v *c08View, useRows func(parquet.Rows), usePages func(parquet.Pages), useValues func(parquet.ColumnChunkValueReader)) error {
	if f.mem == nil {
		return fmt.Errorf("view kind %q on a file without in-memory containers", sp.Kind)
	}
	parts := strings.Split(sp.Kind, "-")
	if len(parts) != 3 {
		return fmt.Errorf("unknown view kind %q", sp.Kind)
	}
	rg, err := f.memRowGroup(parts[1])
	if err != nil {
		return err
	}
	v.base, v.total = 0, f.n
	switch parts[2] {
	case "rows":
		useRows(rg.Rows())
	case "rowreader":
		useRows(parquet.NewRowGroupRowReader(rg))
	case "reader":
		useRows(parquet.NewRowGroupReader(rg))
	case "pages":
		p := rg.ColumnChunks()[sp.Col].Pages()
		usePages(p)
		rowBufferInside := parts[1] == "rowbuffer"
		for _, c := range f.mem.parts {
			rowBufferInside = rowBufferInside || (parts[1] == "multi" && c == "rowbuffer")
		}
		if rowBufferInside {
			// rowBufferPage.NumValues() counts the non-null values only (every other page counts the nulls
			// too): not C08's business, so the side check of usePages "NumValues = values read" becomes
			// "NumValues or NumValues+NumNulls = values read" here; the values themselves are checked as ever
			v.readPage = func() ([]gen.Triple, int, error) {
				pg, err := p.ReadPage()
				if err != nil {
					return nil, 0, err
				}
				defer parquet.Release(pg)
				nr := int(pg.NumRows())
				var out []gen.Triple
				buf := make([]parquet.Value, 61)
				vr := pg.Values()
				for {
					n, err := vr.ReadValues(buf)
					for _, x := range buf[:n] {
						out = append(out, gen.TripleOf(x))
					}
					if err == io.EOF {
						break
					}
					if err != nil {
						return out, nr, fmt.Errorf("page values: %w", err)
					}
					if n == 0 {
						return out, nr, fmt.Errorf("page values: no progress")
					}
				}
				if nv, nn := int(pg.NumValues()), int(pg.NumNulls()); nv != len(out) && nv+nn != len(out) {
					return out, nr, fmt.Errorf("page NumValues=%d NumNulls=%d but %d values read", nv, nn, len(out))
				}
				return out, nr, nil
			}
		}
	case "values":
		useValues(parquet.NewColumnChunkValueReader(rg.ColumnChunks()[sp.Col]))
	default:
		return fmt.Errorf("unknown view kind %q", sp.Kind)
	}
	return nil
}

// c08MemFile: the oracle of rows held in memory (no file). parts: row counts of the multi parts.
func c08MemFile(name, desc string, schema *parquet.Schema, rows reflect.Value, generic func(lo, hi int) (parquet.RowGroup, error), parts []int, containers []string) (*c08File, error) {
	f := &c08File{name: name, desc: desc, schema: schema, rows: rows, n: rows.Len()}
	f.mem = &c08Mem{generic: generic, parts: containers, cache: map[string]parquet.RowGroup{}}
	var sh gen.Shredder
	var text strings.Builder
	for i := 0; i < f.n; i++ {
		text.WriteString(sh.ShredRow(schema, rows.Index(i)))
		text.WriteByte('\n')
	}
	f.data = []byte(text.String()) // canonical text of the rows: what "file_hex" / "file_sha256" of a failure hold
	f.ncol = len(schema.Columns())
	cols := sh.Cols
	if f.n == 0 {
		cols = make([][]gen.Triple, f.ncol)
	}
	if len(cols) != f.ncol {
		return f, fmt.Errorf("shredder produced %d columns, schema has %d", len(cols), f.ncol)
	}
	f.rowTr = make([][][]gen.Triple, f.ncol)
	for c, s := range cols {
		for _, t := range s {
			if t.Rep == 0 {
				f.rowTr[c] = append(f.rowTr[c], nil)
			}
			if len(f.rowTr[c]) == 0 {
				return f, fmt.Errorf("column %d does not start with repetition level 0", c)
			}
			f.rowTr[c][len(f.rowTr[c])-1] = append(f.rowTr[c][len(f.rowTr[c])-1], t)
		}
		if len(f.rowTr[c]) != f.n {
			return f, fmt.Errorf("column %d has %d rows, %d written", c, len(f.rowTr[c]), f.n)
		}
	}
	// "row groups" = the parts (one page each): their borders are the marks the histories aim at
	f.rgStart = []int{0}
	if len(parts) == 0 {
		parts = []int{f.n}
	}
	for _, p := range parts {
		f.rgStart = append(f.rgStart, f.rgStart[len(f.rgStart)-1]+p)
		bs := make([][]int64, f.ncol)
		for c := range bs {
			bs[c] = []int64{0}
		}
		f.bounds = append(f.bounds, bs)
	}
	if f.rgStart[len(f.rgStart)-1] != f.n {
		return f, fmt.Errorf("parts hold %d rows, %d generated", f.rgStart[len(f.rgStart)-1], f.n)
	}
	return f, nil
}

func c08MemRandFile(e *gen.Entry, r *rand.Rand) (*c08File, error) {
	n := []int{0, 1, 2, 3, 9, 33, 64, 65, 100, 171, 257, 400}[r.Intn(12)]
	prof := &gen.Profile{NullProb: []float64{0.1, 0.5, 0.9}[r.Intn(3)], MaxLen: 1 + r.Intn(4), SmallDomain: r.Intn(4) == 0}
	if r.Intn(3) == 0 {
		prof.RunLen = 70
	}
	rows := e.NewRows(n)
	gen.FillRows(r, rows, prof)
	var parts []int
	var containers []string
	if n > 0 {
		k := min(n, 1+r.Intn(4))
		left := n
		for i := 0; i < k; i++ {
			p := left - (k - 1 - i) // all that may go to this part
			if i < k-1 {
				p = 1 + r.Intn(p)
			}
			parts = append(parts, p)
			left -= p
			containers = append(containers, c08MemContainers[r.Intn(len(c08MemContainers))])
		}
	}
	desc := fmt.Sprintf("%s n=%d in memory nullprob=%v maxlen=%d smalldomain=%v runlen=%d multi-parts=%v of %v", e.Name, n, prof.NullProb, prof.MaxLen, prof.SmallDomain, prof.RunLen, parts, containers)
	generic := func(lo, hi int) (parquet.RowGroup, error) { return e.NewGenericBuffer(rows.Slice(lo, hi).Interface()) }
	return c08MemFile(e.Name, desc, e.Schema, rows, generic, parts, containers)
}

func c08MemFixedFile(n int, parts []int, containers []string) (*c08File, error) {
	rows := make([]c08Row, n)
	for i := range rows {
		rows[i] = c08MakeRow(i, i%4)
	}
	generic := func(lo, hi int) (parquet.RowGroup, error) {
		b := parquet.NewGenericBuffer[c08Row]()
		_, err := b.Write(rows[lo:hi])
		return b, err
	}
	desc := fmt.Sprintf("c08Row n=%d in memory (row i = id i, s%%03d of i%%17, i%%4 tags, opt nil when 3|i) multi-parts=%v of %v", n, parts, containers)
	return c08MemFile("c08Row", desc, parquet.SchemaOf(c08Row{}), reflect.ValueOf(rows), generic, parts, containers)
}

// c08MemSpec: false when the kind does not exist on this file.
func c08MemSpec(f *c08File, r *rand.Rand, kind string) (c08Spec, bool) {
	sp := c08Spec{Kind: kind, Col: r.Intn(f.ncol)}
	if strings.HasPrefix(kind, "mem-multi-") {
		if len(f.mem.parts) == 0 {
			return sp, false
		}
		if kind == "mem-multi-rows" {
			rg, err := f.memRowGroup("multi")
			if err != nil {
				return sp, true // reported as an open error
			}
			if _, _, inOrder := parquet.VerifRowGroupPredicates(rg); !inOrder {
				return sp, false // concatenatingRowsWrapper: forward-only by design
			}
		}
	}
	return sp, true
}

// the histories every kind runs on every fixed container; N = NumRows
var c08MemRegressions = []struct{ name, ops string }{
	{"seek to the end then read", "sN r1 r1"},
	{"seek to the end then read a batch", "sN r7"},
	{"seek one past the end then read", "sN+1 r1 r1"},
	{"seek far past the end then read", "sN+17 r3"},
	{"forward, then to the end", "sN/3 r1 sN r2 r1"},
	{"end, backward, end again", "sN sN/2 r2 sN r1 sN/2 r1000"},
	{"end twice", "sN sN r1"},
	{"read everything then seek to the end", "r1000 r1 sN r1"},
	{"read everything, seek past the end, back to the start", "r1000 sN+1 r1 s0 r1000 r1"},
	{"last row, end, last row", "sN-1 r1 r1 sN r1 sN-1 r3"},
	{"past the end, then the last row", "sN+2 sN-1 r1 r1"},
	{"sequential in ones", "r1 r1 r1 r1 r1 r1 r1 r1 r1 r1 r1 r1"},
	{"empty or not: seek to 0, read, seek to 0", "s0 r1 s0 r2 s0"},
	{"reset after the end", "sN r1 z r1000 r1"},
}

func c08MemOps(text string, n int) []c08Op {
	var out []string
	for _, t := range strings.Fields(text) {
		if strings.HasPrefix(t, "sN") {
			k := n
			switch t[2:] {
			case "":
			case "+1":
				k = n + 1
			case "+2":
				k = n + 2
			case "+17":
				k = n + 17
			case "-1":
				k = max(n-1, 0)
			case "/2":
				k = n / 2
			case "/3":
				k = n / 3
			default:
				panic("c08MemOps: " + t)
			}
			t = fmt.Sprintf("s%d", k)
		}
		out = append(out, t)
	}
	return c08ParseOps(strings.Join(out, " "))
}

// c08MemRandOps: the histories of "histories" with more weight on the end of the reader.
func c08MemRandOps(f *c08File, sp c08Spec, v *c08View, r *rand.Rand) []c08Op {
	ops := c08RandOps(f, sp, v, r)
	total := int64(v.total)
	ends := []int64{total, total, total, total + 1, total + 2, total + 64, total + 1000, max(total-1, 0)}
	switch r.Intn(4) {
	case 0: // as generated
	case 1: // every third seek goes to the end or beyond
		for i := range ops {
			if ops[i].K == 's' && r.Intn(3) == 0 {
				ops[i].A = ends[r.Intn(len(ends))]
			}
		}
	default: // "seek to the end, read" pairs spliced in
		for k := 1 + r.Intn(4); k > 0; k-- {
			i := r.Intn(len(ops) + 1)
			ins := []c08Op{{K: 's', A: ends[r.Intn(len(ends))]}, {K: 'r', A: int64([]int{1, 1, 2, 7, 64}[r.Intn(5)])}}
			if r.Intn(3) == 0 {
				ins = append(ins, c08Op{K: 'r', A: 1})
			}
			ops = append(append(append([]c08Op{}, ops[:i]...), ins...), ops[i:]...)
		}
	}
	return ops
}

func RunC08Mem(ctx *core.Ctx) {
	t0 := time.Now()
	var mu sync.Mutex
	shrunk := map[string]int{}
	newWorker := func() *c08Worker {
		return &c08Worker{ctx: ctx, d: nil, mu: &mu, shrunk: shrunk} // no L2 on these kinds: no driver process
	}
	openFail := func(f *c08File, sp c08Spec, origin string, err error) {
		ctx.Fail("L1", sp.Kind+"-open-error", "opening the view failed: "+err.Error(), map[string]any{"file": f.desc, "view": sp.String(), "origin": origin})
	}
	// 1. fixed containers x fixed histories around the end
	{
		w := newWorker()
		for _, n := range []int{0, 1, 2, 10, 171} {
			var parts []int
			var containers []string
			switch {
			case n == 1:
				parts, containers = []int{1}, []string{"rowbuffer"}
			case n == 2:
				parts, containers = []int{1, 1}, []string{"buffer", "genericbuffer"}
			case n > 2:
				parts, containers = []int{n / 3, 1, n - n/3 - 1}, []string{"rowbuffer", "buffer", "genericbuffer"}
			}
			for variant := 0; variant < 2; variant++ {
				if variant == 1 {
					if n < 2 {
						continue
					}
					// parts that all read their chunks in order: MultiRowGroup(...).Rows() is the chunk reader
					containers = append([]string{}, containers...)
					for i := range containers {
						containers[i] = []string{"buffer", "genericbuffer"}[i%2]
					}
				}
				f, err := c08MemFixedFile(n, parts, containers)
				if err != nil {
					ctx.Fail("L1", "mem-oracle-setup", "fixed rows: "+err.Error(), nil)
					continue
				}
				r := ctx.Rand(fmt.Sprintf("c08mem/fixed-%d-%d", n, variant))
				for _, kind := range c08MemKinds {
					if variant == 1 && !strings.HasPrefix(kind, "mem-multi-") {
						continue
					}
					for col := 0; col < f.ncol; col++ {
						sp, ok := c08MemSpec(f, r, kind)
						if !ok {
							ctx.Hist("mem-kind-not-on-file", kind)
							continue
						}
						sp.Col = col
						if col > 0 && !strings.HasSuffix(kind, "pages") && !strings.HasSuffix(kind, "values") {
							continue
						}
						for _, reg := range c08MemRegressions {
							w.runCase(f, sp, c08MemOps(reg.ops, n), "mem regression: "+reg.name)
						}
					}
				}
			}
		}
		w.flush()
	}
	if os.Getenv("VERIF_C08_TIMING") != "" {
		fmt.Fprintf(os.Stderr, "c08 mem: fixed part done %v\n", time.Since(t0))
	}
	// 2. random rows of the catalogue types x containers x readers x histories
	filesPerType := ctx.Scale(3, 16)
	histsPerView := ctx.Scale(2, 3)
	var wg sync.WaitGroup
	sem := make(chan struct{}, 16)
	for _, e := range gen.Catalog {
		wg.Add(1)
		sem <- struct{}{}
		go func(e *gen.Entry) {
			defer wg.Done()
			defer func() { <-sem }()
			w := newWorker()
			defer w.flush()
			r := ctx.Rand("c08mem/" + e.Name)
			for k := 0; k < filesPerType; k++ {
				f, err := c08MemRandFile(e, r)
				origin := fmt.Sprintf("stream c08mem/%s rows #%d", e.Name, k)
				if err != nil {
					ctx.Hist("mem-rows", "oracle-invalid")
					ctx.Fail("L1", "mem-oracle-setup", "the harness cannot shred the generated rows: "+err.Error(), map[string]any{"origin": origin})
					continue
				}
				ctx.Hist("mem-rows", bucket(f.n))
				ctx.Hist("mem-multi-parts", bucket(len(f.mem.parts)))
				for _, kind := range c08MemKinds {
					for h := 0; h < histsPerView; h++ {
						sp, ok := c08MemSpec(f, r, kind)
						if !ok {
							ctx.Hist("mem-kind-not-on-file", kind)
							continue
						}
						v, err := f.open(sp)
						if err != nil {
							openFail(f, sp, origin, err)
							continue
						}
						ops := c08MemRandOps(f, sp, v, r)
						func() {
							defer func() { recover() }()
							v.close()
						}()
						ends := 0
						for i := 0; i+1 < len(ops); i++ {
							if ops[i].K == 's' && ops[i].A >= int64(f.n) && ops[i+1].K == 'r' {
								ends++
							}
						}
						ctx.Hist("mem-seek-to-or-past-end-then-read", bucket(ends))
						if k == 0 && h == 0 && e.Name == "T002" && (kind == "mem-rowbuffer-rows" || kind == "mem-multi-pages") {
							ctx.Sample(map[string]any{"file": f.desc, "view": sp.String(), "ops": c08OpsString(ops)})
						}
						w.runCase(f, sp, ops, origin)
					}
				}
			}
		}(e)
	}
	wg.Wait()
	if os.Getenv("VERIF_C08_TIMING") != "" {
		fmt.Fprintf(os.Stderr, "c08 mem: random part done %v\n", time.Since(t0))
	}
}
