package props

// C15 sub-check "protocol": the BeginRowGroup / WriteRows / Flush / Commit / reuse protocol of an
// encrypting writer, against the Lean state machine PqModel.RowGroupProto.
//
//   L2: after every call of a random history the state of the real writer (verif shim
//       VerifWriterProtocolState / VerifRowGroupWriterState: awaitOrdinal, rowGroupOrdinal, buffered
//       rows, rows and pages already sealed, committed row groups) must be the state of the Lean
//       MIRROR after the same events (driver op rgproto.run).
//   L1: the closed file must decrypt and its row groups must hold exactly the rows the Lean SPEC
//       machine (written from the documentation: fill concurrently, commit serially, reuse after
//       Commit, parent rows flushed first) puts there.
//
// Fills and page boundaries of different row group writers between two serial calls run in their
// own goroutines, released together (Props.C15.rowgroups_fill_commutes: the model state does not
// depend on how they interleave).

import (
	"bytes"
	"fmt"
	"io"
	"math/rand"
	"strconv"
	"strings"
	"sync"

	"github.com/parquet-go/parquet-go"

	"verifharness/core"
)

func init() {
	RegisterSub("C15", "protocol", RunC15Protocol)
}

type c15ProtoRow struct {
	ID   int64  `parquet:"id"`
	Name string `parquet:"name"`
}

type c15ProtoEv struct {
	kind byte // b f l c w o W
	i    int
	ids  []int64
}

func (e c15ProtoEv) tokens() []string {
	switch e.kind {
	case 'b':
		return []string{"b"}
	case 'f':
		out := make([]string, len(e.ids))
		for k, id := range e.ids {
			out[k] = fmt.Sprintf("f%d:%d", e.i, id)
		}
		return out
	case 'l':
		return []string{fmt.Sprintf("l%d", e.i)}
	case 'c':
		return []string{fmt.Sprintf("c%d", e.i)}
	case 'w':
		out := make([]string, len(e.ids))
		for k, id := range e.ids {
			out[k] = fmt.Sprintf("w:%d", id)
		}
		return out
	case 'o':
		return []string{"lo"}
	}
	return []string{"W"}
}

func c15ProtoText(evs []c15ProtoEv) string {
	var toks []string
	for _, e := range evs {
		toks = append(toks, e.tokens()...)
	}
	if len(toks) == 0 {
		return "-"
	}
	return strings.Join(toks, ",")
}

// c15ProtoHistory: rounds of [fills and page boundaries on the existing row group writers] followed
// by serial calls (commits in a random order and of a random subset, parent rows, parent page
// boundaries, parent flushes, new row group writers).
func c15ProtoHistory(r *rand.Rand) []c15ProtoEv {
	var evs []c15ProtoEv
	next := int64(1)
	ids := func(n int) []int64 {
		out := make([]int64, n)
		for k := range out {
			out[k] = next
			next++
		}
		return out
	}
	writers := 0
	for n := 1 + r.Intn(3); n > 0; n-- {
		evs = append(evs, c15ProtoEv{kind: 'b'})
		writers++
	}
	rounds := 1 + r.Intn(4)
	for round := 0; round < rounds; round++ {
		// concurrent part
		for k := r.Intn(3 * writers); k >= 0; k-- {
			i := r.Intn(writers)
			if r.Intn(4) == 0 {
				evs = append(evs, c15ProtoEv{kind: 'l', i: i})
			} else {
				evs = append(evs, c15ProtoEv{kind: 'f', i: i, ids: ids(1 + r.Intn(5))})
			}
		}
		// serial part
		order := r.Perm(writers)
		for _, i := range order {
			switch r.Intn(8) {
			case 0: // left uncommitted in this round
			case 1:
				evs = append(evs, c15ProtoEv{kind: 'w', ids: ids(1 + r.Intn(4))}, c15ProtoEv{kind: 'c', i: i})
			case 2:
				evs = append(evs, c15ProtoEv{kind: 'w', ids: ids(1 + r.Intn(4))}, c15ProtoEv{kind: 'o'}, c15ProtoEv{kind: 'w', ids: ids(1)}, c15ProtoEv{kind: 'c', i: i})
			default:
				evs = append(evs, c15ProtoEv{kind: 'c', i: i})
			}
		}
		switch r.Intn(6) {
		case 0:
			evs = append(evs, c15ProtoEv{kind: 'w', ids: ids(1 + r.Intn(3))}, c15ProtoEv{kind: 'W'})
		case 1:
			if writers < 5 {
				evs = append(evs, c15ProtoEv{kind: 'b'})
				writers++
			}
		case 2:
			evs = append(evs, c15ProtoEv{kind: 'w', ids: ids(1 + r.Intn(3))})
		}
	}
	return evs
}

func c15ProtoRows(ids []int64) []c15ProtoRow {
	rows := make([]c15ProtoRow, len(ids))
	for k, id := range ids {
		rows[k] = c15ProtoRow{ID: id, Name: fmt.Sprintf("row-%06d", id)}
	}
	return rows
}

// c15ProtoExec runs the history on a real encrypting writer. It returns the observed state after
// every model event that is a synchronisation point ("" elsewhere), the file, and the first error.
func c15ProtoExec(evs []c15ProtoEv, variant int) (states []string, data []byte, keys c15Keys, err error) {
	keys = c15Keys{footer: []byte("0123456789abcdef")}
	cfg := &parquet.EncryptionConfig{FooterKey: keys.footer, EncryptedFooter: variant%2 == 0}
	if variant%4 >= 2 {
		keys.columns = map[string][]byte{"name": []byte("namenamenamename")}
		cfg.ColumnKeys = keys.columns
		cfg.AadPrefix = []byte("proto")
	}
	var buf bytes.Buffer
	schema := parquet.SchemaOf(c15ProtoRow{})
	w := parquet.NewGenericWriter[c15ProtoRow](&buf, schema, parquet.WithEncryption(cfg),
		parquet.PageBufferSize(1<<22), parquet.MaxRowsPerRowGroup(1<<30), parquet.DataPageVersion(1+variant/4%2))
	var rgs []*parquet.ConcurrentRowGroupWriter
	observe := func() string {
		parts := []string{parquet.VerifWriterProtocolState(w)}
		for _, rg := range rgs {
			parts = append(parts, parquet.VerifRowGroupWriterState(rg))
		}
		return strings.Join(parts, ";")
	}
	defer func() {
		if p := recover(); p != nil {
			err = fmt.Errorf("panic: %v", p)
		}
	}()
	for k := 0; k < len(evs); {
		e := evs[k]
		if e.kind == 'f' || e.kind == 'l' {
			// a maximal run of calls on row group writers: one goroutine per writer
			end := k
			for end < len(evs) && (evs[end].kind == 'f' || evs[end].kind == 'l') {
				end++
			}
			perWriter := map[int][]c15ProtoEv{}
			for _, x := range evs[k:end] {
				perWriter[x.i] = append(perWriter[x.i], x)
			}
			var wg sync.WaitGroup
			errs := make([]error, len(rgs))
			start := make(chan struct{})
			for i, list := range perWriter {
				wg.Add(1)
				go func(i int, list []c15ProtoEv) {
					defer wg.Done()
					defer func() {
						if p := recover(); p != nil {
							errs[i] = fmt.Errorf("panic in the goroutine of row group writer %d: %v", i, p)
						}
					}()
					<-start
					for _, x := range list {
						if x.kind == 'l' {
							if err := rgs[i].Flush(); err != nil {
								errs[i] = err
								return
							}
							continue
						}
						var rows []parquet.Row
						for _, row := range c15ProtoRows(x.ids) {
							rows = append(rows, schema.Deconstruct(nil, &row).Clone())
						}
						if _, err := rgs[i].WriteRows(rows); err != nil {
							errs[i] = err
							return
						}
					}
				}(i, list)
			}
			close(start)
			wg.Wait()
			for _, e := range errs {
				if e != nil {
					return states, nil, keys, e
				}
			}
			for _, x := range evs[k:end] {
				for range x.tokens() {
					states = append(states, "")
				}
			}
			states[len(states)-1] = observe()
			k = end
			continue
		}
		switch e.kind {
		case 'b':
			rgs = append(rgs, w.BeginRowGroup())
		case 'c':
			if _, err := rgs[e.i].Commit(); err != nil {
				return states, nil, keys, fmt.Errorf("Commit of row group writer %d: %w", e.i, err)
			}
		case 'w':
			if _, err := w.Write(c15ProtoRows(e.ids)); err != nil {
				return states, nil, keys, err
			}
		case 'o':
			for _, cw := range w.ColumnWriters() {
				if err := cw.Flush(); err != nil {
					return states, nil, keys, err
				}
			}
		case 'W':
			if err := w.Flush(); err != nil {
				return states, nil, keys, err
			}
		}
		for range e.tokens() {
			states = append(states, "")
		}
		states[len(states)-1] = observe()
		k++
	}
	if err := w.Close(); err != nil {
		return states, nil, keys, fmt.Errorf("Close: %w", err)
	}
	return states, buf.Bytes(), keys, nil
}

// c15ProtoFileGroups reads the ids of every row group of the file ("1.2/5/3", "-" when empty).
func c15ProtoFileGroups(data []byte, keys c15Keys) (string, error) {
	f, err := parquet.OpenFile(bytes.NewReader(data), int64(len(data)), parquet.WithDecryption(keys))
	if err != nil {
		return "", fmt.Errorf("OpenFile: %w", err)
	}
	var groups []string
	for g, rg := range f.RowGroups() {
		r := parquet.NewGenericRowGroupReader[c15ProtoRow](rg)
		rows := make([]c15ProtoRow, rg.NumRows()+1)
		n, err := r.Read(rows)
		r.Close()
		if err != nil && err != io.EOF {
			return "", fmt.Errorf("reading row group %d: %w", g, err)
		}
		ids := make([]string, n)
		for k, row := range rows[:n] {
			if row.Name != fmt.Sprintf("row-%06d", row.ID) {
				return "", fmt.Errorf("row group %d row %d: id %d with name %q", g, k, row.ID, row.Name)
			}
			ids[k] = strconv.FormatInt(row.ID, 10)
		}
		groups = append(groups, strings.Join(ids, "."))
	}
	if len(groups) == 0 {
		return "-", nil
	}
	return strings.Join(groups, "/"), nil
}

func RunC15Protocol(ctx *core.Ctx) {
	ctx.SetRule("protocol: one case = one history of BeginRowGroup / WriteRows / rg.Flush / Commit / Write / Flush calls on an encrypting writer (fills of different row group writers in concurrent goroutines), compared call by call with the Lean state machine; distinct by event text; non-trivial = some row group writer is committed, written again and committed again while another one is outstanding")
	d := ctx.Driver()
	if d == nil {
		return
	}
	r := ctx.Rand("protocol")
	n := ctx.Scale(400, 6000)
	type cse struct {
		evs     []c15ProtoEv
		variant int
	}
	cases := make([]cse, n)
	reqs := make([]string, n)
	// the demonstrations of the protocol first: two writers, two rounds, page boundary in round two
	fixed := []c15ProtoEv{{kind: 'b'}, {kind: 'b'}, {kind: 'f', i: 0, ids: []int64{1, 2}}, {kind: 'f', i: 1, ids: []int64{3}}, {kind: 'c', i: 0}, {kind: 'c', i: 1},
		{kind: 'f', i: 0, ids: []int64{4}}, {kind: 'l', i: 0}, {kind: 'f', i: 0, ids: []int64{5}}, {kind: 'f', i: 1, ids: []int64{6, 7}}, {kind: 'l', i: 1}, {kind: 'c', i: 0}, {kind: 'c', i: 1}}
	for k := range cases {
		if k < 8 {
			cases[k] = cse{fixed, k}
		} else {
			cases[k] = cse{c15ProtoHistory(r), r.Intn(8)}
		}
		// Close writes the parent's pending rows: one more parent flush in the model
		reqs[k] = "rgproto.run 1 " + c15ProtoText(append(append([]c15ProtoEv{}, cases[k].evs...), c15ProtoEv{kind: 'W'}))
	}
	ans, err := d.AskMany(reqs)
	if err != nil {
		ctx.Fail("L2", "driver-error", err.Error(), nil)
		return
	}
	for k, c := range cases {
		text := c15ProtoText(c.evs)
		commits := map[int]int{}
		reuse, writers := false, 0
		for _, e := range c.evs {
			switch {
			case e.kind == 'b':
				writers++
			case e.kind == 'c':
				commits[e.i]++
			case e.kind == 'f' && commits[e.i] > 0 && writers >= 2:
				reuse = true
			}
		}
		ctx.Case(fmt.Sprintf("protocol v%d %s", c.variant, text), reuse)
		ctx.Hist("protocol_events", strconv.Itoa(len(c.evs)/8*8))
		ctx.Hist("protocol_reuse", strconv.FormatBool(reuse))
		detail := map[string]any{"events": text, "encryption_variant": c.variant,
			"replay": fmt.Sprintf("encrypting GenericWriter (variant %d: encrypted footer=%v, column keys=%v), events %s (b BeginRowGroup, f<i>:<id> WriteRows of row id on row group writer i, l<i> rg_i.Flush, c<i> rg_i.Commit, w:<id> Write on the parent, lo Flush of the parent's column writers, W parent Flush), then Close and read back; model: `rgproto.run 1 %s,W` on pqdriver", c.variant, c.variant%2 == 0, c.variant%4 >= 2, text, text)}
		f := strings.Fields(ans[k])
		if len(f) != 5 || f[0] != "ok" {
			ctx.Fail("L2", "driver-error", "rgproto.run: "+ans[k], detail)
			continue
		}
		model := strings.Split(f[1], "|")
		spec := strings.TrimPrefix(f[3], "spec=")
		if f[4] != "readable=1" || strings.TrimPrefix(f[2], "file=") != spec {
			// excluded by Props.C15.rowgroups_serial_readable; kept as a tripwire
			ctx.Fail("L2", "rowgroup-protocol-model-inconsistent", "the Lean MIRROR and SPEC disagree on a history: "+ans[k], detail)
		}
		states, data, keys, err := c15ProtoExec(c.evs, c.variant)
		for j, st := range states {
			if st == "" || j >= len(model) {
				continue
			}
			if st != model[j] {
				toks := strings.Split(text, ",")
				detail["after_event"], detail["index"], detail["real"], detail["model"] = toks[j], j, st, model[j]
				ctx.Fail("L2", "rowgroup-protocol-state-differs", "after a call of the history the column writers' protocol state (g<committed row groups>;<parent>;<row group writers>, each awaitOrdinal.rowGroupOrdinal.buffered rows.sealed rows.sealed pages) is not the state of the Lean mirror", detail)
				break
			}
		}
		if err != nil {
			detail["error"] = err.Error()
			ctx.Fail("L1", "rowgroup-protocol-call-fails", "a documented call sequence on row group writers fails: "+err.Error(), detail)
			continue
		}
		got, err := c15ProtoFileGroups(data, keys)
		if err != nil {
			detail["error"], detail["want"] = err.Error(), spec
			ctx.Fail("L1", "rowgroup-protocol-file-unreadable", "the file written through reused row group writers does not read back (with the right keys): "+err.Error(), detail)
			continue
		}
		if got != spec {
			detail["got"], detail["want"] = got, spec
			ctx.Fail("L1", "rowgroup-protocol-file-differs-from-serial", "the row groups of the file are not the rows written to each row group writer between its commits, in commit order", detail)
		}
	}
}
