package props

// C04, part "dictreset" (round 4): ONE dictionary object serving several row groups.
//
// A column writer (and a column buffer) keeps one dictionary for its whole life and calls
// `Dictionary.Reset` between two row groups / files. The property ("the result does not depend on
// ... any sequence of prior calls") needs: the indexes and the dictionary page of a row group
// depend on that row group's values only — insert after Reset = insert into an empty dictionary.
//
// (a) API sessions: every dictionary type x (created empty | over a pre-loaded page) x a session of
//     Insert / Reset calls whose generations draw from ONE alphabet (so later generations repeat
//     values of earlier ones, in another order, next to new ones).
//     L1 (written from the property): after Reset the dictionary is empty; within a generation the
//     indexes are in range, denote the inserted value and number values by first occurrence
//     counted from that generation's start; and the LAST generation replayed on a fresh dictionary
//     gives the same indexes and page.
//     L2: the whole trace (indexes of every Insert, page before every Reset, final page) against
//     the Lean MIRROR of the type's state machine (`dict.session probe|flba|bytes|bool`).
// (b) writer sessions through the public API: one GenericWriter[T] with a `dict` column of every
//     dictionary type, flat and repeated, producing >= 2 row groups (Flush between Write calls |
//     MaxRowsPerRowGroup | WriteRowGroup of one reused GenericBuffer | Close + Writer.Reset to a
//     second file), later row groups repeating earlier values.
//     L1: every row group reads back the rows written into it, bit-exactly.
//     L2: per row group, dictionary page entries and data page indexes = the Lean dictionary model
//     of that row group's values alone (`dict.insert -`).

import (
	"bytes"
	"fmt"
	"math/rand"
	"runtime"
	"strings"
	"sync"

	"github.com/parquet-go/parquet-go"

	"verifharness/core"
)

func init() { RegisterSub("C04", "dictreset", RunC04DictReset) }

// ------------------------------------------------------------------ (a) API sessions

type c4sessOp struct {
	reset bool
	batch [][]byte
}

type c4session struct {
	t    c4dictType
	init [][]byte // nil: created empty, as the writer does
	ops  []c4sessOp
}

func (s c4session) opsToken() string {
	var sb strings.Builder
	for i, op := range s.ops {
		if i > 0 {
			sb.WriteByte(';')
		}
		if op.reset {
			sb.WriteByte('r')
		} else {
			sb.WriteString("i=" + c4toks(s.t.k, op.batch))
		}
	}
	return sb.String()
}

func (s c4session) canon() string {
	return "dict-session " + s.t.name + " init=" + c4toks(s.t.k, s.init) + " " + s.opsToken()
}

// Lean family and chunk size (values per Probe call) of a dictionary type
func c4DictFamily(t c4dictType) (string, int) {
	switch t.name {
	case "boolean":
		return "bool", 0
	case "int32", "float", "uint32":
		return "probe", 8192 / 4
	case "int64", "double", "uint64":
		return "probe", 8192 / 8
	case "flba16-be128", "uuid":
		return "probe", 8192 / 16
	case "byte_array":
		return "bytes", 0
	default: // int96, fixed-len byte arrays of other sizes
		return "flba", 0
	}
}

func (w *c4worker) sessionGen(t c4dictType) c4session {
	r := w.r
	s := c4session{t: t}
	a := []int{1, 2, 3, 5, 8, 13, 40, 200, 700}[r.Intn(9)]
	if t.k.name == "bool" {
		a = 2
	}
	alpha := make([][]byte, 0, a)
	seen := map[string]bool{}
	mode := r.Intn(3)
	for tries := 0; len(alpha) < a && tries < 4*a+16; tries++ {
		m := mode
		if r.Intn(4) == 0 {
			m = r.Intn(3)
		}
		v := c4Value(t.k, r, m)
		if t.k.name == "bytes" && len(v) > 40 {
			v = v[:r.Intn(40)]
		}
		if !seen[string(v)] {
			seen[string(v)] = true
			alpha = append(alpha, v)
		}
	}
	if t.k.name != "bool" && r.Intn(5) == 0 { // a dictionary created over a page read from a file, then reused
		n := r.Intn(len(alpha) + 1)
		s.init = append([][]byte{}, alpha[:n]...)
		r.Shuffle(len(s.init), func(i, j int) { s.init[i], s.init[j] = s.init[j], s.init[i] })
	}
	gens := 2 + r.Intn(4)
	bigLeft := 1 // at most one batch around a chunk boundary per session
	for g := 0; g < gens; g++ {
		if g > 0 {
			s.ops = append(s.ops, c4sessOp{reset: true})
			if r.Intn(12) == 0 {
				s.ops = append(s.ops, c4sessOp{reset: true})
			}
		} else if s.init != nil && r.Intn(4) == 0 {
			s.ops = append(s.ops, c4sessOp{reset: true}) // Reset as the first call on a pre-loaded dictionary
		}
		// this generation's window of the alphabet: overlaps the others, starts elsewhere
		lo := r.Intn(len(alpha))
		hi := lo + 1 + r.Intn(len(alpha)-lo)
		win := alpha[lo:hi]
		if r.Intn(3) == 0 {
			win = alpha
		}
		for b := 1 + r.Intn(3); b > 0; b-- {
			var n int
			switch r.Intn(8) {
			case 0:
				n = 0
			case 1:
				n = 1
			case 2:
				if bigLeft > 0 && t.k.name != "bool" {
					bigLeft--
					n = []int{255, 256, 257, 511, 512, 513, 1023, 1024, 1025, 2047, 2048, 2049, 2300}[r.Intn(13)]
				} else {
					n = 9
				}
			default:
				n = 1 + r.Intn(24)
			}
			if s.init != nil && n == 0 && len(s.ops) == 0 {
				n = 1 // an empty first Insert on a pre-loaded dictionary is the separate hang probe of c04_plain.go
			}
			batch := make([][]byte, n)
			for i := range batch {
				batch[i] = win[r.Intn(len(win))]
			}
			s.ops = append(s.ops, c4sessOp{batch: batch})
		}
	}
	if r.Intn(10) == 0 {
		s.ops = append(s.ops, c4sessOp{reset: true})
	}
	return s
}

func c4DictEntries(k c4kind, d parquet.Dictionary) [][]byte {
	out := make([][]byte, 0, d.Len())
	for i := 0; i < d.Len(); i++ {
		out = append(out, c4ValueBytes(k, d.Index(int32(i))))
	}
	return out
}

func c4InsertBatch(k c4kind, d parquet.Dictionary, batch [][]byte) []int32 {
	pv := make([]parquet.Value, len(batch))
	for i, v := range batch {
		pv[i] = c4MakeValue(k, v)
	}
	idx := make([]int32, len(batch))
	for i := range idx {
		idx[i] = -7
	}
	d.Insert(idx, pv)
	return idx
}

func (w *c4worker) sessionCase(s c4session) {
	ctx := w.b.ctx
	k := s.t.k
	canon := s.canon()
	resets, inserted := 0, 0
	repeatsEarlier := false
	{
		earlier := map[string]bool{}
		cur := map[string]bool{}
		for _, op := range s.ops {
			if op.reset {
				resets++
				for v := range cur {
					earlier[v] = true
				}
				cur = map[string]bool{}
				continue
			}
			for _, v := range op.batch {
				inserted++
				cur[string(v)] = true
				if earlier[string(v)] {
					repeatsEarlier = true
				}
			}
		}
	}
	ctx.Case(canon, resets >= 1 && repeatsEarlier)
	ctx.Hist("session.type", s.t.name)
	ctx.Hist("session.resets", fmt.Sprint(resets))
	ctx.Hist("session.values", c4lenClass(inserted))
	ctx.Hist("session.repeats-values-of-an-earlier-generation", fmt.Sprint(repeatsEarlier))
	if s.init != nil {
		ctx.Hist("session.start", "preloaded")
	} else {
		ctx.Hist("session.start", "empty")
	}
	sig := "dictreset-" + s.t.name
	detail := func(extra map[string]any) map[string]any {
		m := map[string]any{"case": c4short(canon), "type": s.t.name, "variant": w.b.variant}
		for kk, v := range extra {
			m[kk] = v
		}
		return m
	}
	var trace []string
	var lastGen [][][]byte // batches of the generation in progress
	var lastIdx [][]int32
	var final [][]byte
	l1failed := false
	fail1 := func(key, what string, extra map[string]any) {
		if !l1failed { // one L1 report per session; the trace goes on for L2
			l1failed = true
			ctx.Fail("L1", key, what, detail(extra))
		}
	}
	panicked := false
	func() {
		defer func() {
			if p := recover(); p != nil {
				panicked = true
				fail1(sig+"-panic", fmt.Sprintf("dictionary session panics: %v", p), map[string]any{"calls_done": len(trace)})
			}
		}()
		d := c4NewDictionary(s.t, s.init)
		// oracle state of the current generation: first-occurrence numbering
		want := map[string]int32{}
		count := 0
		for _, v := range s.init {
			if _, ok := want[string(v)]; !ok {
				want[string(v)] = int32(count)
			}
			count++
		}
		gen := 0
		for oi, op := range s.ops {
			if op.reset {
				trace = append(trace, "r="+c4toks(k, c4DictEntries(k, d)))
				d.Reset()
				if d.Len() != 0 {
					fail1(sig+"-len-after-reset", fmt.Sprintf("Len() = %d after Reset", d.Len()), map[string]any{"call": oi})
				}
				if n := d.Page().NumValues(); n != 0 {
					fail1(sig+"-page-after-reset", fmt.Sprintf("Page().NumValues() = %d after Reset", n), map[string]any{"call": oi})
				}
				want = map[string]int32{}
				count = 0
				gen++
				lastGen, lastIdx = nil, nil
				continue
			}
			idx := c4InsertBatch(k, d, op.batch)
			trace = append(trace, core.JoinInts(idx))
			lastGen = append(lastGen, op.batch)
			lastIdx = append(lastIdx, idx)
			if k.name == "bool" && count == 0 {
				want["\x00"], want["\x01"] = 0, 1 // both entries are created by the first insert
				count = 2
			}
			for i, v := range op.batch {
				ex := map[string]any{"call": oi, "generation": gen, "position": i, "value": c4tok(k, v), "index": idx[i], "Len": d.Len()}
				if idx[i] < 0 || int(idx[i]) >= d.Len() {
					fail1(sig+"-index-out-of-range", fmt.Sprintf("after %d Reset(s) Insert returned index %d for a dictionary of %d entries", gen, idx[i], d.Len()), ex)
					continue
				}
				if got := c4ValueBytes(k, d.Index(idx[i])); !bytes.Equal(got, v) {
					ex["Index(i)"] = c4tok(k, got)
					fail1(sig+"-index-returns-other-value", "Index(i) of the index Insert returned is not the inserted value (bit pattern)", ex)
					continue
				}
				wi, ok := want[string(v)]
				if !ok {
					wi = int32(count)
					want[string(v)] = wi
					count++
				}
				if idx[i] != wi {
					ex["expected"] = wi
					fail1(sig+"-not-first-occurrence-order", "Insert did not number the value by first occurrence counted from the last Reset", ex)
				}
			}
			if d.Len() != count {
				fail1(sig+"-len", fmt.Sprintf("Len() = %d, %d entries expected in generation %d", d.Len(), count, gen), map[string]any{"call": oi})
			}
		}
		final = c4DictEntries(k, d)
		// history independence, stated directly: the generation in progress on a FRESH dictionary
		if gen > 0 {
			fresh := c4NewDictionary(s.t, nil)
			for bi, batch := range lastGen {
				idx := c4InsertBatch(k, fresh, batch)
				if core.JoinInts(idx) != core.JoinInts(lastIdx[bi]) {
					fail1(sig+"-depends-on-earlier-row-group", "the indexes Insert returns after Reset differ from those of a fresh dictionary given the same batches",
						map[string]any{"batch_of_last_generation": bi, "batch": c4short(c4toks(k, batch)), "reused": c4short(core.JoinInts(lastIdx[bi])), "fresh": c4short(core.JoinInts(idx))})
					return
				}
			}
			if fe := c4DictEntries(k, fresh); !c4Equal(fe, final) {
				fail1(sig+"-depends-on-earlier-row-group", "the dictionary page after Reset + Insert differs from that of a fresh dictionary given the same batches",
					map[string]any{"reused": c4short(c4toks(k, final)), "fresh": c4short(c4toks(k, fe))})
			}
		}
	}()
	if panicked {
		return
	}
	// L2: the mirror of this type's state machine
	fam, chunk := c4DictFamily(s.t)
	goAns := "ok " + strings.Join(trace, ";") + " " + c4toks(k, final)
	req := fmt.Sprintf("dict.session %s %d %s %s", fam, chunk, c4toks(k, s.init), s.opsToken())
	w.b.ask(req, func(ans string) {
		if ans != goAns {
			ctx.Fail("L2", sig+"-session-model", "indexes / pages of an Insert-Reset session differ from the Lean mirror of the dictionary's state machine",
				detail(map[string]any{"family": fam, "go": c4short(goAns), "model": c4short(ans)}))
		}
	})
	w.tableSessionCase(s, goAns, detail) // round 6: the same session on the dictionary-over-table mirror (c04_dicttable.go)
}

// ------------------------------------------------------------------ (b) writer sessions

func c4WriteTypedGroups[T any](mode string, groups [][]T) (files [][]byte, err error) {
	defer func() {
		if p := recover(); p != nil {
			err = fmt.Errorf("panic: %v", p)
		}
	}()
	out := new(bytes.Buffer)
	switch mode {
	case "flush": // Write + Flush per row group
		w := parquet.NewGenericWriter[T](out)
		for _, g := range groups {
			if _, err := w.Write(g); err != nil {
				return nil, err
			}
			if err := w.Flush(); err != nil {
				return nil, err
			}
		}
		if err := w.Close(); err != nil {
			return nil, err
		}
		return [][]byte{out.Bytes()}, nil
	case "maxrows": // one Write call, the writer cuts row groups of len(groups[0]) rows
		w := parquet.NewGenericWriter[T](out, parquet.MaxRowsPerRowGroup(int64(len(groups[0]))))
		var all []T
		for _, g := range groups {
			all = append(all, g...)
		}
		if _, err := w.Write(all); err != nil {
			return nil, err
		}
		if err := w.Close(); err != nil {
			return nil, err
		}
		return [][]byte{out.Bytes()}, nil
	case "buffer": // one reused GenericBuffer, WriteRowGroup per row group
		w := parquet.NewGenericWriter[T](out)
		buf := parquet.NewGenericBuffer[T]()
		for _, g := range groups {
			if _, err := buf.Write(g); err != nil {
				return nil, err
			}
			if _, err := w.WriteRowGroup(buf); err != nil {
				return nil, err
			}
			buf.Reset()
		}
		if err := w.Close(); err != nil {
			return nil, err
		}
		return [][]byte{out.Bytes()}, nil
	case "reset": // one file per group, the writer Reset in between
		w := parquet.NewGenericWriter[T](out)
		for i, g := range groups {
			if i > 0 {
				out = new(bytes.Buffer)
				w.Reset(out)
			}
			if _, err := w.Write(g); err != nil {
				return nil, err
			}
			if err := w.Close(); err != nil {
				return nil, err
			}
			files = append(files, out.Bytes())
		}
		return files, nil
	}
	return nil, fmt.Errorf("mode %q", mode)
}

func (w *c4worker) writerSessionCase(t c4typed, mode string, groups [][][][]byte) {
	ctx := w.b.ctx
	k := t.k
	shape := "flat"
	if t.repeated {
		shape = "repeated"
	}
	var sb strings.Builder
	for i, g := range groups {
		if i > 0 {
			sb.WriteString(" || ")
		}
		sb.WriteString(c4rowsCanon(k, g))
	}
	groupsCanon := sb.String()
	canon := fmt.Sprintf("writer-session %s %s %s %s", shape, t.name, mode, groupsCanon)
	repeats := false
	earlier := map[string]bool{}
	for _, g := range groups {
		cur := map[string]bool{}
		for _, row := range g {
			for _, v := range row {
				cur[string(v)] = true
				if earlier[string(v)] {
					repeats = true
				}
			}
		}
		for v := range cur {
			earlier[v] = true
		}
	}
	ctx.Case(canon, len(groups) >= 2 && repeats)
	ctx.Hist("wsession.type", shape+" "+t.name)
	ctx.Hist("wsession.mode", mode)
	ctx.Hist("wsession.row-groups", fmt.Sprint(len(groups)))
	ctx.Hist("wsession.repeats-values-of-an-earlier-row-group", fmt.Sprint(repeats))
	sig := "dictreset-writer-" + shape + "-" + t.name
	detail := func(extra map[string]any) map[string]any {
		m := map[string]any{"type": t.name, "shape": shape, "mode": mode, "row_groups": len(groups), "input_row_groups": c4short(groupsCanon), "variant": w.b.variant}
		for kk, v := range extra {
			m[kk] = v
		}
		return m
	}
	files, err := t.writeGroups(mode, groups)
	if err != nil {
		ctx.Fail("L1", sig+"-write-error", "writing several row groups with one writer failed: "+err.Error(), detail(nil))
		return
	}
	var cols []c4fileColumn
	for fi, file := range files {
		cs, err := c4ReadRowGroups(k, t.repeated, file)
		if err != nil {
			ctx.Fail("L1", sig+"-read-error", "a file written by a reused writer cannot be read back: "+err.Error(), detail(map[string]any{"file": fi}))
			return
		}
		cols = append(cols, cs...)
	}
	var nonEmpty [][][][]byte
	for _, g := range groups {
		if len(g) > 0 {
			nonEmpty = append(nonEmpty, g)
		}
	}
	if len(cols) != len(nonEmpty) {
		ctx.Fail("L1", sig+"-row-group-count", fmt.Sprintf("%d non-empty row groups written, %d read back", len(nonEmpty), len(cols)), detail(nil))
		return
	}
	for gi, g := range nonEmpty {
		col := cols[gi]
		if len(col.rows) != len(g) {
			ctx.Fail("L1", sig+"-row-count", fmt.Sprintf("row group %d: %d rows written, %d read back", gi, len(g), len(col.rows)), detail(map[string]any{"row_group": gi}))
			return
		}
		for i := range g {
			if !c4Equal(g[i], col.rows[i]) {
				ctx.Fail("L1", sig+"-values-differ", "a dictionary-encoded column of a later row group of the same writer reads back other values",
					detail(map[string]any{"row_group": gi, "row": i, "written": c4short(c4toks(k, g[i])), "read": c4short(c4toks(k, col.rows[i]))}))
				return
			}
		}
	}
	// L2: each row group's dictionary page and indexes are those of its own values alone
	for gi, g := range nonEmpty {
		col := cols[gi]
		var all [][]byte
		for _, row := range g {
			all = append(all, row...)
		}
		if len(all) == 0 {
			continue
		}
		if col.dictPages == 0 || col.plainPages != 0 {
			ctx.Fail("L2", sig+"-not-dictionary-encoded", "a row group of the session is not (only) dictionary encoded: the dictionary model cannot be compared",
				detail(map[string]any{"row_group": gi, "dict_pages": col.dictPages, "plain_pages": col.plainPages}))
			return
		}
		goAns := fmt.Sprintf("ok %s %s", core.JoinInts(col.idx), c4toks(k, col.dict))
		req := fmt.Sprintf("dict.insert - %s", c4toks(k, all))
		if k.name == "bool" {
			req = fmt.Sprintf("dict.insertbool - %s", c4toks(k, all))
		}
		gi := gi
		w.b.ask(req, func(ans string) {
			if ans != goAns {
				ctx.Fail("L2", sig+"-model", "dictionary page / indexes of a later row group differ from the Lean dictionary model of that row group's values alone",
					detail(map[string]any{"row_group": gi, "go": c4short(goAns), "model": c4short(ans)}))
			}
		})
	}
}

// row groups drawing from one small alphabet, each group in another order with some new values
func c4WriterGroups(t c4typed, r *rand.Rand, mode string) [][][][]byte {
	k := t.k
	a := []int{2, 3, 5, 9, 30}[r.Intn(5)]
	if k.name == "bool" {
		a = 2
	}
	var alpha [][]byte
	seen := map[string]bool{}
	for tries := 0; len(alpha) < a && tries < 6*a+16; tries++ {
		v := c4Value(k, r, []int{0, 2, 2}[r.Intn(3)])
		if k.name == "bytes" && len(v) > 24 {
			v = v[:r.Intn(24)]
		}
		if !seen[string(v)] {
			seen[string(v)] = true
			alpha = append(alpha, v)
		}
	}
	ng := 2 + r.Intn(3)
	rowsPer := []int{1, 2, 3, 8, 40, 130}[r.Intn(6)]
	groups := make([][][][]byte, ng)
	for gi := range groups {
		n := rowsPer
		if mode != "maxrows" { // the writer cuts equal row groups itself in that mode
			n = 1 + r.Intn(2*rowsPer)
			if gi > 0 && r.Intn(10) == 0 && mode != "reset" {
				n = 0 // an empty Write between two flushes
			}
		}
		lo := r.Intn(len(alpha))
		win := alpha[lo:]
		if r.Intn(2) == 0 {
			win = alpha
		}
		g := make([][][]byte, n)
		for i := range g {
			if !t.repeated {
				g[i] = [][]byte{win[r.Intn(len(win))]}
				continue
			}
			row := make([][]byte, r.Intn(4))
			for j := range row {
				row[j] = win[r.Intn(len(win))]
			}
			g[i] = row
		}
		groups[gi] = g
	}
	return groups
}

// ------------------------------------------------------------------ driver of the sub-check

func RunC04DictReset(ctx *core.Ctx) {
	nw := min(max(runtime.GOMAXPROCS(0), 2), 12)
	dictTypes := c4DictTypes()
	typed := c4TypedTypes()
	type job struct {
		dt   *c4dictType
		tt   *c4typed
		mode string
	}
	var list []job
	for i := range dictTypes {
		list = append(list, job{dt: &dictTypes[i]})
	}
	for i := range typed {
		for _, m := range []string{"flush", "maxrows", "buffer", "reset"} {
			list = append(list, job{tt: &typed[i], mode: m})
		}
	}
	jobs := make(chan job, len(list))
	for _, j := range list {
		jobs <- j
	}
	close(jobs)
	var wg sync.WaitGroup
	for wi := 0; wi < nw; wi++ {
		wg.Add(1)
		go func() {
			defer wg.Done()
			d := ctx.Driver()
			w := &c4worker{b: &c4batch{ctx: ctx, d: d, variant: ctx.Variant}}
			for j := range jobs {
				if j.dt != nil {
					w.r = ctx.Rand("c04dictreset/api/" + j.dt.name)
					for i := 0; i < ctx.Scale(500, 1500); i++ {
						s := w.sessionGen(*j.dt)
						if i == 0 {
							ctx.Sample(map[string]any{"dictionary session": c4short(s.canon())})
						}
						w.sessionCase(s)
					}
				} else {
					shape := "flat"
					if j.tt.repeated {
						shape = "repeated"
					}
					w.r = ctx.Rand("c04dictreset/writer/" + shape + "/" + j.tt.name + "/" + j.mode)
					for i := 0; i < ctx.Scale(12, 40); i++ {
						w.writerSessionCase(*j.tt, j.mode, c4WriterGroups(*j.tt, w.r, j.mode))
					}
				}
				w.b.flush()
			}
		}()
	}
	wg.Wait()
}
