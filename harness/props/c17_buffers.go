package props

import (
	"bytes"
	"context"
	"encoding/json"
	"fmt"
	"os"
	"os/exec"
	"strconv"
	"strings"
	"sync"
	"time"

	"verifharness/core"
	"verifharness/gen"
)

// C17 sub-check buffers (L1): Buffer / GenericBuffer instances as containers of the reuse
// property. A buffer that was filled, permuted, READ and Reset (1..3 times) must give the same
// file as a fresh buffer holding the same rows permuted the same way; reading a buffer must not
// change what is written from it afterwards.
//
// State kept across Reset that went wrong in a changed library corrupts memory (values with a nil
// pointer and a length: SIGSEGV inside the runtime, which recover cannot catch), so the cases run
// in worker subprocesses: before every library call the worker records the complete case, and a
// worker that dies becomes an L1 failure carrying that case.

const c17BufShards = 16

type c17BufAt struct {
	J      int            `json:"j"`
	Call   string         `json:"call"`
	Detail map[string]any `json:"detail"`
}

// the cases of one shard, in order: (catalogue type, k)
func c17BufShardCases(shard, ncases int) (out [][2]int) {
	for ti := range gen.WithGeo() {
		if ti%c17BufShards == shard {
			for k := 0; k < ncases; k++ {
				out = append(out, [2]int{ti, k})
			}
		}
	}
	return out
}

func c17BufNCases(ctx *core.Ctx) int {
	if ctx.Thorough() && ctx.Variant == "purego" {
		return 12
	}
	return ctx.Scale(10, 24)
}

func RunC17Buffers(ctx *core.Ctx) {
	ctx.SetRule(c17Rule)
	var wg sync.WaitGroup
	for shard := 0; shard < c17BufShards; shard++ {
		wg.Add(1)
		go func(shard int) {
			defer wg.Done()
			c17RunBufShard(ctx, shard)
		}(shard)
	}
	wg.Wait()
}

func c17RunBufShard(ctx *core.Ctx, shard int) {
	n := len(c17BufShardCases(shard, c17BufNCases(ctx)))
	exe, err := os.Executable()
	if err != nil {
		ctx.Fail("L2", "harness-worker-unavailable", err.Error(), nil)
		return
	}
	dir, err := os.MkdirTemp("", "c17buf-*")
	if err != nil {
		ctx.Fail("L2", "harness-worker-unavailable", err.Error(), nil)
		return
	}
	defer os.RemoveAll(dir)
	start, restarts, serial := 0, 0, 0
	for start < n {
		serial++
		out := fmt.Sprintf("%s/out-%d.json", dir, serial)
		at := fmt.Sprintf("%s/at-%d.json", dir, serial)
		limit := time.Duration(ctx.Scale(240, 900)) * time.Second
		cctx, cancel := context.WithTimeout(context.Background(), limit)
		cmd := exec.CommandContext(cctx, exe, "-worker", "c17buf", fmt.Sprint(shard), fmt.Sprint(start),
			fmt.Sprint(ctx.Seed), ctx.Tier, ctx.Variant, out, at)
		cmd.Env = append(os.Environ(), "GOTRACEBACK=single", "GOMAXPROCS=2")
		var stderr bytes.Buffer
		cmd.Stderr, cmd.Stdout = &stderr, &stderr
		werr := cmd.Run()
		timedOut := cctx.Err() != nil
		cancel()
		c12Merge(ctx, out, fmt.Sprintf("c17buf-%d-%d", shard, serial))
		if werr == nil {
			return
		}
		cur := c17BufAt{J: -1}
		if blob, err := os.ReadFile(at); err == nil {
			json.Unmarshal(blob, &cur)
		}
		msg := stderr.String()
		first := msg
		for _, line := range strings.Split(msg, "\n") { // "fatal error: ..." says more than the address line before it
			if strings.HasPrefix(line, "fatal error:") || strings.HasPrefix(line, "panic:") {
				first = line
				break
			}
		}
		if i := strings.Index(first, "\n"); i >= 0 {
			first = first[:i]
		}
		if timedOut {
			first = "no answer within " + limit.String() + " (killed)"
		}
		if len(msg) > 3000 {
			msg = msg[:3000]
		}
		if cur.J < 0 {
			ctx.Fail("L2", "harness-worker-died-outside-a-case", "c17buf worker died before its first case: "+first, map[string]any{"stderr": msg})
			return
		}
		if cur.Detail == nil {
			cur.Detail = map[string]any{}
		}
		cur.Detail["worker_exit"], cur.Detail["stderr"], cur.Detail["shard"], cur.Detail["case"] = werr.Error(), msg, shard, cur.J
		ctx.Fail("L1", "buffer-process-killed "+cur.Call+" "+errClass(fmt.Errorf("%s", first)),
			"the library takes the process down (or hangs) during "+cur.Call+": "+first, cur.Detail)
		start = cur.J + 1
		restarts++
		if restarts > 12 {
			ctx.Fail("L1", "buffer-process-killed worker-restarts-exhausted", fmt.Sprintf("more than 12 cases of shard %d kill the worker; %d cases not run", shard, n-start), nil)
			return
		}
	}
}

// c17BufWorker: `-worker c17buf <shard> <start> <seed> <tier> <variant> <out> <at>` runs the cases
// start.. of one shard; the cumulative result goes to <out> after every case, the case and the
// library call about to be made to <at>.
func c17BufWorker(args []string) int {
	if len(args) < 7 {
		fmt.Fprintln(os.Stderr, "usage: -worker c17buf <shard> <start> <seed> <tier> <variant> <out> <at>")
		return 2
	}
	shard, _ := strconv.Atoi(args[0])
	start, _ := strconv.Atoi(args[1])
	seed, _ := strconv.ParseInt(args[2], 10, 64)
	ctx := core.NewCtx()
	ctx.Prop, ctx.Seed, ctx.Tier, ctx.Variant = "C17", seed, args[3], args[4]
	out, atPath := args[5], args[6]
	cases := c17BufShardCases(shard, c17BufNCases(ctx))
	all := gen.WithGeo()
	for j := start; j < len(cases); j++ {
		e, k := all[cases[j][0]], cases[j][1]
		at := func(call string, detail map[string]any) {
			blob, _ := json.Marshal(c17BufAt{J: j, Call: call, Detail: detail})
			os.WriteFile(atPath, blob, 0o644)
		}
		c17BufferCase(ctx, e, k, at)
		if err := ctx.Finish(out); err != nil {
			fmt.Fprintln(os.Stderr, "cannot write result:", err)
			return 2
		}
	}
	return 0
}

// c17BufferCase: one (type, k) case = random rows, other earlier rows, a random writer
// configuration, and for Buffer and GenericBuffer 2 (thorough 4) buffer histories each.
func c17BufferCase(ctx *core.Ctx, e *gen.Entry, k int, at func(call string, detail map[string]any)) {
	r := ctx.Rand(fmt.Sprintf("c17b/%s/%d", e.Name, k))
	ns, nps := []int{1, 2, 3, 9, 33, 64, 65, 100}, []int{1, 2, 8, 50, 130}
	if ctx.Thorough() {
		ns, nps = append(ns, 257, 300), append(nps, 400)
	}
	n, np := ns[r.Intn(len(ns))], nps[r.Intn(len(nps))]
	small := r.Intn(2) == 0
	rows := c17GenRows(r, e, n, small)
	prior := c17GenRows(r, e, np, !small)
	cfg := c17RandCfg(r, e)
	texts := c17RowTexts(e, rows)
	detail := func(extra map[string]any) map[string]any {
		m := map[string]any{"type": e.Name, "config": cfg.desc, "rows": texts, "prior_rows": np, "case_stream": fmt.Sprintf("c17b/%s/%d", e.Name, k),
			"prior_profile_small_domain": !small, "variant": ctx.Variant}
		for k, v := range extra {
			m[k] = v
		}
		return m
	}
	ctx.Case("buffers|"+e.Name+"|"+cfg.desc+"|"+strings.Join(texts, "|")+fmt.Sprint(np), n > 0 && np > 0)
	ctx.Hist("buffers-rows", fmt.Sprint(n))
	ctx.Hist("buffers-prior-rows", fmt.Sprint(np))
	repeated := 0
	for _, p := range e.Schema.Columns() {
		if leaf, ok := e.Schema.Lookup(p...); ok && leaf.MaxRepetitionLevel > 0 {
			repeated++
		}
	}
	ctx.Hist("buffers-repeated-columns", fmt.Sprint(repeated))
	compare := c17Comparer(ctx, detail)
	for _, kind := range []string{"generic-buffer", "buffer"} {
		for q := ctx.Scale(2, 4); q > 0; q-- {
			bh := c17RandBufHist(r, np, n, len(cfg.sorting) > 0)
			hd := func(call string) map[string]any {
				return detail(map[string]any{"instance": kind, "history": bh.String(), "call": call})
			}
			at("fresh-instance", hd("fresh instance: "+(&c17BufHist{finalSwaps: bh.finalSwaps, readFirst: bh.readFirst}).String()))
			ref, err, _ := c17BufferFile(kind, e, cfg, false, bh, prior, rows)
			if err != nil {
				ctx.Hist("reference-write-error", kind+" "+errClass(err))
				continue
			}
			if bh.readFirst != "" {
				// reading a buffer must not change what it holds: the file written after a read
				// equals the file written without one (same instance kind, same permutation)
				plain := *bh
				plain.readFirst = ""
				if ref0, err0, _ := c17BufferFile(kind, e, cfg, false, &plain, prior, rows); err0 == nil {
					compare("buffer-read-before-write-row-group", kind, ref0, ref, nil, map[string]any{"history": bh.String(), "read": bh.readFirst})
				}
			}
			at("reused-instance", hd("reused instance"))
			got, err, perrs := c17BufferFile(kind, e, cfg, true, bh, prior, rows)
			for _, g := range bh.gens {
				perm := "in-write-order"
				if len(cfg.sorting) > 0 {
					perm = "sorted"
				} else if g.swaps != nil {
					perm = "swapped"
				}
				ctx.Hist("history", kind+" reset-after-prior-rows "+perm+" read="+g.read)
			}
			ctx.Hist("buffer-generations", fmt.Sprint(len(bh.gens)))
			for _, pe := range perrs {
				ctx.Hist("prior-history-error", kind+" "+pe[strings.Index(pe, "read="):])
			}
			compare("buffer-reuse-after-reset", kind, ref, got, err, map[string]any{"history": bh.String()})
		}
	}
}
